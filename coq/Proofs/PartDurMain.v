(* C19: the two instances of the part-cutting invariant and the property-level lemmas.
   Weak instance: no side condition, gives the bounds of every part.
   Strong instance: under NoStraddle, every non-final part has the same sample count. *)
From Coq Require Import List ZArith Lia Bool.
From GoHls Require Import Lib.ZLib Model.PartDur Proofs.PartDurArith Proofs.PartDurRun.
Import ListNotations.
Local Open Scope Z_scope.

(* the ranges of the property's quantifier, for one configuration and one tick count T *)
Definition c19_ranges (c : cfg) (T : Z) : Prop :=
  0 < clockRate c <= 1000000 /\ 1 <= T /\
  5 * millisecond / 2 <= tsd T (clockRate c) <= second /\
  50 * millisecond <= partMinDuration c <= 2 * second.

(* non-final / final part predicates *)
Definition fullW (adj sd : Z) (p : part) : Prop := adj <= p_dur p <= adj + sd.
Definition shortW (adj sd : Z) (p : part) : Prop := p_dur p <= adj + sd.

Definition Dlo (adj T R : Z) : Z := tsd (samplesPerPart adj T R * T) R.
Definition Dhi (adj T R : Z) : Z := cdiv (samplesPerPart adj T R * T * second) R.

Definition fullS (adj sd T R : Z) (p : part) : Prop :=
  fullW adj sd p /\ p_n p = samplesPerPart adj T R /\ Dlo adj T R <= p_dur p <= Dhi adj T R.
Definition shortS (adj sd T R : Z) (p : part) : Prop :=
  shortW adj sd p /\ 1 <= p_n p <= samplesPerPart adj T R /\ 0 < p_dur p <= Dhi adj T R.

Lemma Dhi_Dlo : forall adj T R, 0 < R -> Dlo adj T R <= Dhi adj T R <= Dlo adj T R + 1.
Proof. intros. unfold Dlo, Dhi. apply cdiv_tsd. assumption. Qed.

Lemma run_det : forall c s ws s1 s2, run c s ws = POk s1 -> run c s ws = POk s2 -> s1 = s2.
Proof. intros. congruence. Qed.

Section Instances.
  Variable c : cfg.
  Variables T adj : Z.
  Let R := clockRate c.
  Let sd := tsd T R.
  Hypothesis HR : 0 < R.
  Hypothesis HT : 0 < T.
  Hypothesis Hsdpos : 0 < sd.
  Hypothesis Hadj : findCompatiblePartDuration (partMinDuration c) [sd] = POk adj.
  Hypothesis Hadjpos : 0 < adj.

  Lemma one_sample : forall a, tsd (a + T) R - tsd a R <= sd + 1.
  Proof.
    intros a. pose proof (tsd_diff_bounds a T R HR) as [_ U]. pose proof (cdiv_tsd T R HR). subst sd. lia.
  Qed.

  (* ----- weak instance ----- *)
  Definition Qw (a ps n : Z) : Prop := tsd a R - ps < adj.

  Lemma Qw_init : forall a, 0 <= a -> Qw a (tsd a R) 0.
  Proof. intros. unfold Qw. lia. Qed.
  Lemma Qw_short : forall a ps n, 0 <= a -> Qw a ps n ->
    shortW adj sd {| p_dur := tsd (a + T) R - ps; p_n := n + 1 |}.
  Proof. intros a ps n _ H. unfold Qw in H. unfold shortW. cbn. pose proof (one_sample a). lia. Qed.
  Lemma Qw_full : forall a ps n, 0 <= a -> Qw a ps n -> adj <= tsd (a + T) R - ps ->
    fullW adj sd {| p_dur := tsd (a + T) R - ps; p_n := n + 1 |}.
  Proof. intros a ps n _ H G. unfold Qw in H. unfold fullW. cbn. pose proof (one_sample a). lia. Qed.
  Lemma Qw_keep : forall a ps n, 0 <= a -> Qw a ps n -> tsd (a + T) R - ps < adj -> Qw (a + T) ps (n + 1).
  Proof. intros. unfold Qw. assumption. Qed.

  Definition InvW := Inv sd adj Qw (fullW adj sd) (shortW adj sd).

  Lemma run_weak : forall flags d0 s, run c init_state (constWrites d0 T flags) = POk s ->
    s = init_state \/ exists a, InvW a s.
  Proof.
    intros flags d0 s H.
    destruct (run_inv c T sd adj HR HT eq_refl Hsdpos Hadj Qw (fullW adj sd) (shortW adj sd)
                Qw_init Qw_short Qw_full Qw_keep flags d0) as [s' [E I]].
    rewrite (run_det _ _ _ _ _ H E). exact I.
  Qed.

  Lemma run_ok : forall flags d0, exists s, run c init_state (constWrites d0 T flags) = POk s.
  Proof.
    intros flags d0.
    destruct (run_inv c T sd adj HR HT eq_refl Hsdpos Hadj Qw (fullW adj sd) (shortW adj sd)
                Qw_init Qw_short Qw_full Qw_keep flags d0) as [s' [E _]].
    exists s'. exact E.
  Qed.

  (* ----- strong instance ----- *)
  Hypothesis NS : NoStraddle adj T R.
  Let N := samplesPerPart adj T R.

  Definition Qs (a ps n : Z) : Prop :=
    tsd a R - ps < adj /\ 0 <= n /\ 0 <= a - n * T /\ ps = tsd (a - n * T) R.

  Lemma Qs_lt : forall a ps n, Qs a ps n -> n < N.
  Proof.
    intros a ps n [H1 [H2 [H3 H4]]]. subst ps.
    destruct (Z_lt_ge_dec n N) as [L|G]; [assumption|exfalso].
    assert (adj <= tsd (a - n * T + n * T) R - tsd (a - n * T) R)
      by (apply (diff_ge_iff adj T R (a - n * T) n HR HT H2 NS); fold N; lia).
    replace (a - n * T + n * T) with a in H by lia. lia.
  Qed.

  Lemma N_pos : 1 <= N.
  Proof.
    destruct (Z_lt_ge_dec N 1) as [L|G]; [exfalso|lia].
    assert (adj <= tsd (0 * T) R) by (apply samplesPerPart_spec; try assumption; fold N; lia).
    assert (E0 : tsd (0 * T) R = 0) by reflexivity. lia.
  Qed.

  Lemma Qs_init : forall a, 0 <= a -> Qs a (tsd a R) 0.
  Proof. intros a Ha. unfold Qs. replace (a - 0 * T) with a by lia. repeat split; lia. Qed.

  Lemma Qs_short : forall a ps n, 0 <= a -> Qs a ps n ->
    shortS adj sd T R {| p_dur := tsd (a + T) R - ps; p_n := n + 1 |}.
  Proof.
    intros a ps n Ha H. pose proof (Qs_lt _ _ _ H) as Hn. destruct H as [H1 [H2 [H3 H4]]].
    split; [apply (Qw_short a ps n Ha H1)|]. cbn [p_dur p_n]. fold N. split; [lia|].
    subst ps. replace (a + T) with ((a - n * T) + (n + 1) * T) by lia.
    pose proof (tsd_diff_bounds (a - n * T) ((n + 1) * T) R HR) as [L U].
    split.
    - assert (sd <= tsd ((n + 1) * T) R) by (subst sd; apply tsd_mono; [assumption|nia]). lia.
    - unfold Dhi. fold N. assert (cdiv ((n + 1) * T * second) R <= cdiv (N * T * second) R).
      { apply cdiv_mono; [assumption|]. unfold second. nia. }
      lia.
  Qed.

  Lemma Qs_full : forall a ps n, 0 <= a -> Qs a ps n -> adj <= tsd (a + T) R - ps ->
    fullS adj sd T R {| p_dur := tsd (a + T) R - ps; p_n := n + 1 |}.
  Proof.
    intros a ps n Ha H G. pose proof (Qs_lt _ _ _ H) as Hn. destruct H as [H1 [H2 [H3 H4]]].
    split; [apply (Qw_full a ps n Ha H1 G)|]. cbn [p_dur p_n]. fold N.
    subst ps. replace (a + T) with ((a - n * T) + (n + 1) * T) in * by lia.
    assert (N <= n + 1) by (apply (diff_ge_iff adj T R (a - n * T) (n + 1) HR HT ltac:(lia) NS); assumption).
    assert (E : n + 1 = N) by lia. split; [assumption|].
    pose proof (tsd_diff_bounds (a - n * T) ((n + 1) * T) R HR) as [L U].
    unfold Dlo, Dhi. fold N. rewrite E in *. lia.
  Qed.

  Lemma Qs_keep : forall a ps n, 0 <= a -> Qs a ps n -> tsd (a + T) R - ps < adj -> Qs (a + T) ps (n + 1).
  Proof.
    intros a ps n Ha [H1 [H2 [H3 H4]]] G. unfold Qs.
    replace (a + T - (n + 1) * T) with (a - n * T) by lia. repeat split; try assumption; lia.
  Qed.

  Definition InvS := Inv sd adj Qs (fullS adj sd T R) (shortS adj sd T R).

  Lemma run_strong : forall flags d0 s, run c init_state (constWrites d0 T flags) = POk s ->
    s = init_state \/ exists a, InvS a s.
  Proof.
    intros flags d0 s H.
    destruct (run_inv c T sd adj HR HT eq_refl Hsdpos Hadj Qs (fullS adj sd T R) (shortS adj sd T R)
                Qs_init Qs_short Qs_full Qs_keep flags d0) as [s' [E I]].
    rewrite (run_det _ _ _ _ _ H E). exact I.
  Qed.

  Lemma strong_bound : forall p, fullS adj sd T R p \/ shortS adj sd T R p -> p_dur p <= Dhi adj T R.
  Proof. intros p [[_ [_ H]]|[_ [_ H]]]; lia. Qed.
End Instances.

(* ---------- property-level lemmas ---------- *)

Lemma ranges_facts : forall c T, c19_ranges c T ->
  0 < clockRate c /\ 0 < T /\ 0 < tsd T (clockRate c).
Proof.
  intros c T [H1 [H2 [H3 H4]]]. unfold millisecond in H3. change (5 * 1000000 / 2) with 2500000 in H3. lia.
Qed.

(* the run never panics and never runs out of fuel *)
Lemma run_total : forall c T flags d0, c19_ranges c T ->
  exists s, run c init_state (constWrites d0 T flags) = POk s.
Proof.
  intros c T flags d0 Hr. destruct (ranges_facts c T Hr) as [HR [HT Hsd]].
  destruct Hr as [_ [_ [H3 H4]]].
  destruct (adjusted_exists _ _ H4 H3) as [adj [Hadj [A1 _]]].
  apply (run_ok c T adj HR HT Hsd Hadj). unfold millisecond in H4. lia.
Qed.

(* unconditional: bounds of every non-final part, and PART-TARGET covers every retained part *)
Lemma bounds_main : forall c T flags d0 s, c19_ranges c T ->
  run c init_state (constWrites d0 T flags) = POk s ->
  let pm := partMinDuration c in let sd := tsd T (clockRate c) in
  exists adj, findCompatiblePartDuration pm [sd] = POk adj /\ pm <= adj /\ adj < 2 * Z.max pm sd /\
    (forall p, In p (nonFinalListed s) -> adj <= p_dur p <= adj + sd) /\
    (forall p, In p (allParts s) -> p_dur p <= adj + sd /\ p_dur p <= partTarget s) /\
    partTarget s mod millisecond = 0.
Proof.
  intros c T flags d0 s Hr Hrun pm sd. destruct (ranges_facts c T Hr) as [HR [HT Hsd]].
  destruct Hr as [_ [_ [H3 H4]]].
  destruct (adjusted_exists _ _ H4 H3) as [adj [Hadj [A1 [A2 [A3 [A4 [A5 A6]]]]]]].
  assert (Hadjpos : 0 < adj) by (unfold millisecond in H4; lia).
  exists adj. split; [exact Hadj|]. split; [exact A1|]. split; [exact A3|].
  destruct (run_weak c T adj HR HT Hsd Hadj Hadjpos flags d0 s Hrun) as [->|[a I]].
  - cbn. repeat split; intros; try contradiction; reflexivity.
  - split; [|split].
    + intros p Hp. pose proof (inv_nonfinal_full _ _ _ _ _ _ _ I) as F.
      rewrite Forall_forall in F. apply (F p Hp).
    + intros p Hp. split; [|eapply (inv_pt_ge c); eassumption].
      destruct I as [_ [_ [_ [_ [Hnp [Hsegs _]]]]]]. rewrite allParts_eq in Hp.
      apply in_app_or in Hp. destruct Hp as [Hp|Hp].
      * pose proof (segOK_parts _ _ _ Hsegs) as F. rewrite Forall_forall in F.
        destruct (F p Hp) as [G|G]; unfold fullW, shortW in G; lia.
      * rewrite Forall_forall in Hnp. specialize (Hnp p Hp). unfold fullW in Hnp. lia.
    + eapply (inv_pt_mod c); eassumption.
Qed.

(* under NoStraddle: same sample count, durations within one nanosecond, one PART-TARGET *)
Lemma regular_main : forall c T flags d0 s adj, c19_ranges c T ->
  findCompatiblePartDuration (partMinDuration c) [tsd T (clockRate c)] = POk adj ->
  NoStraddle adj T (clockRate c) ->
  run c init_state (constWrites d0 T flags) = POk s ->
  let R := clockRate c in
  (forall p, In p (nonFinalListed s) ->
     p_n p = samplesPerPart adj T R /\ Dlo adj T R <= p_dur p <= Dhi adj T R) /\
  (forall ps, In ps (published s) -> exists init last, ps = init ++ [last] /\
     Forall (fun p => p_n p = samplesPerPart adj T R /\ Dlo adj T R <= p_dur p <= Dhi adj T R) init /\
     1 <= p_n last <= samplesPerPart adj T R /\ 0 < p_dur last <= Dhi adj T R) /\
  partTarget s <= ceil_ms (Dlo adj T R) /\
  (nonFinalListed s <> [] -> partTarget s = ceil_ms (Dlo adj T R)).
Proof.
  intros c T flags d0 s adj Hr Hadj NS Hrun R. destruct (ranges_facts c T Hr) as [HR [HT Hsd]].
  destruct Hr as [[_ HR6] [_ [H3 H4]]].
  destruct (adjusted_exists _ _ H4 H3) as [adj' [Hadj' [A1 _]]].
  assert (adj' = adj) by congruence. subst adj'.
  assert (Hadjpos : 0 < adj) by (unfold millisecond in H4; lia).
  assert (Hjit : ceil_ms (Dhi adj T R) = ceil_ms (Dlo adj T R)).
  { unfold Dhi, Dlo. apply ceil_ms_jitter. subst R. lia. }
  assert (HDhi : 0 <= Dhi adj T R).
  { pose proof (Dhi_Dlo adj T R HR). unfold Dlo in H.
    assert (0 <= tsd (samplesPerPart adj T R * T) R).
    { unfold tsd, second. apply Z.div_pos; [|lia]. pose proof (N_pos c T adj HR HT Hadjpos). subst R. nia. }
    lia. }
  destruct (run_strong c T adj HR HT Hsd Hadj Hadjpos NS flags d0 s Hrun) as [->|[a I]].
  - cbn. repeat split; intros; try contradiction.
    + rewrite <- Hjit. pose proof (ceil_to_ge millisecond (Dhi adj T R) ltac:(unfold millisecond; lia)).
      unfold ceil_ms. lia.
  - pose proof (inv_nonfinal_full _ _ _ _ _ _ _ I) as F. rewrite Forall_forall in F.
    split; [|split; [|split]].
    + intros p Hp. destruct (F p Hp) as [_ G]. exact G.
    + intros ps Hps. pose proof (inv_published _ _ _ _ _ _ _ I) as P. rewrite Forall_forall in P.
      destruct (P ps Hps) as [init [last [E [Hi Hl]]]]. exists init, last. split; [exact E|]. split.
      * eapply Forall_impl; [|exact Hi]. intros p [_ G]. exact G.
      * destruct Hl as [_ G]. exact G.
    + rewrite <- Hjit. eapply (inv_pt_le c); [exact I|exact HDhi|].
      intros p Hp. eapply strong_bound. exact Hp.
    + intros Hne. destruct (nonFinalListed s) as [|p l] eqn:El; [congruence|].
      assert (Hp : In p (p :: l)) by (left; reflexivity).
      destruct (F p Hp) as [_ [_ [G1 G2]]].
      pose proof (nonFinal_incl_all _ _ _ _ _ _ _ I) as Hinc. rewrite El in Hinc.
      pose proof (Hinc p Hp) as Hall.
      pose proof (inv_pt_ge_ceil c _ _ _ _ _ _ _ p I Hall) as G3.
      assert (ceil_ms (Dlo adj T R) <= ceil_ms (p_dur p)) by (apply ceil_to_mono; [unfold millisecond; lia|assumption]).
      assert (partTarget s <= ceil_ms (Dlo adj T R)).
      { rewrite <- Hjit. eapply (inv_pt_le c); [exact I|exact HDhi|]. intros q Hq. eapply strong_bound. exact Hq. }
      subst R. lia.
Qed.

(* text resolution: two durations in [floor, ceil] of the same exact value print the same
   5-decimal text, whatever the tie rule, for the standard media clock rates *)
Lemma text_equal : forall N R d1 d2, 0 < R -> R <= 5000 * Z.gcd 200000 R ->
  tsd N R <= d1 <= cdiv (N * second) R -> tsd N R <= d2 <= cdiv (N * second) R ->
  d1 = d2 \/ (exists q, 10000 * q - 5000 < d1 < 10000 * q + 5000 /\ 10000 * q - 5000 < d2 < 10000 * q + 5000).
Proof.
  intros N R d1 d2 HR Hg H1 H2.
  destruct (Z.eq_dec ((N * second) mod R) 0) as [E|E].
  - rewrite cdiv_exact in H1, H2 by assumption. left. unfold tsd in *. lia.
  - rewrite cdiv_inexact in H1, H2 by assumption. fold (tsd N R) in H1, H2.
    destruct (Z.eq_dec d1 d2) as [->|Hne]; [left; reflexivity|right].
    pose proof (text_cell N R HR Hg E (tsd N R) ltac:(lia)) as C1.
    pose proof (text_cell N R HR Hg E (tsd N R + 1) ltac:(lia)) as C2.
    set (lo := tsd N R) in *.
    exists ((lo + 5000) / 10000).
    pose proof (div_bounds (lo + 5000) 10000 ltac:(lia)) as B.
    set (q := (lo + 5000) / 10000) in *.
    (* lo in [10000q - 5000, 10000q + 5000); lo and lo+1 are not multiples of 5000 *)
    assert (lo <> 10000 * q - 5000).
    { intro X. apply C1. rewrite X. replace (10000 * q - 5000) with ((2 * q - 1) * 5000) by lia. apply Z.mod_mul. lia. }
    assert (lo + 1 <> 10000 * q + 5000).
    { intro X. apply C2. rewrite X. replace (10000 * q + 5000) with ((2 * q + 1) * 5000) by lia. apply Z.mod_mul. lia. }
    lia.
Qed.
