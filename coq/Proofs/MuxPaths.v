(* C05 / C18: the path table. Algebra of register / unregister / lookup; the index and the media
   playlists always resolve; a segment evicted from the window (and, in Low-Latency, each of its
   parts) stops resolving at that very rotation; published segment records are immutable. *)
From Coq Require Import List ZArith Bool Lia Arith.
From GoHls Require Import Model.Mux Proofs.MuxStream Proofs.MuxLift Proofs.MuxWindow Proofs.MuxHistory
  Proofs.MuxPlaylist Proofs.MuxTimes.
Import ListNotations.
Local Open Scope Z_scope.

Lemma pathkey_eqb_refl k : pathkey_eqb k k = true.
Proof. destruct k; simpl; rewrite ?Nat.eqb_refl, ?Z.eqb_refl; reflexivity. Qed.

Lemma pathkey_eqb_eq a b : pathkey_eqb a b = true <-> a = b.
Proof.
  split; [|intros ->; apply pathkey_eqb_refl].
  destruct a, b; simpl; intros H; try discriminate; auto.
  - apply Nat.eqb_eq in H. now subst.
  - apply Nat.eqb_eq in H. now subst.
  - apply andb_true_iff in H. destruct H as [H1 H2]. apply Nat.eqb_eq in H1. apply Z.eqb_eq in H2. now subst.
  - apply andb_true_iff in H. destruct H as [H1 H2]. apply Nat.eqb_eq in H1. apply Z.eqb_eq in H2. now subst.
Qed.

Lemma pathkey_eqb_sym a b : pathkey_eqb a b = pathkey_eqb b a.
Proof.
  destruct (pathkey_eqb a b) eqn:E1; destruct (pathkey_eqb b a) eqn:E2; auto.
  - apply pathkey_eqb_eq in E1. subst. now rewrite pathkey_eqb_refl in E2.
  - apply pathkey_eqb_eq in E2. subst. now rewrite pathkey_eqb_refl in E1.
Qed.

Lemma lookup_unregister t k k' :
  lookup (unregister t k) k' = if pathkey_eqb k k' then None else lookup t k'.
Proof.
  induction t as [|[k0 h] t IH]; simpl; [destruct (pathkey_eqb k k'); reflexivity|].
  destruct (pathkey_eqb k k0) eqn:E0.
  - rewrite IH. apply pathkey_eqb_eq in E0. subst k0.
    destruct (pathkey_eqb k k') eqn:E; [reflexivity|]. rewrite pathkey_eqb_sym, E. reflexivity.
  - simpl. rewrite IH. destruct (pathkey_eqb k' k0) eqn:E1.
    + apply pathkey_eqb_eq in E1. subst k0. now rewrite E0.
    + reflexivity.
Qed.

Lemma lookup_app t1 t2 k :
  lookup (t1 ++ t2) k = match lookup t1 k with Some h => Some h | None => lookup t2 k end.
Proof. induction t1 as [|[k0 h] t1 IH]; simpl; auto. destruct (pathkey_eqb k k0); auto. Qed.

Lemma lookup_register t k h k' :
  lookup (register t k h) k' = if pathkey_eqb k k' then Some h else lookup t k'.
Proof.
  unfold register. rewrite lookup_app, lookup_unregister. simpl.
  destruct (pathkey_eqb k k') eqn:E.
  - rewrite pathkey_eqb_sym, E. reflexivity.
  - rewrite pathkey_eqb_sym, E. destruct (lookup t k'); reflexivity.
Qed.

(* a URI that was unregistered never resolves *)
Lemma unregistered_absent t k : lookup (unregister t k) k = None.
Proof. rewrite lookup_unregister, pathkey_eqb_refl. reflexivity. Qed.

Lemma lookup_unregister_parts si parts : forall t k,
  lookup (unregister_parts t si parts) k =
  if existsb (fun p => pathkey_eqb (KPart si (p_id p)) k) parts then None else lookup t k.
Proof.
  unfold unregister_parts. induction parts as [|p parts IH]; intros t k; cbn [fold_left existsb]; [reflexivity|].
  rewrite IH, lookup_unregister.
  destruct (pathkey_eqb (KPart si (p_id p)) k); cbn [orb]; destruct (existsb _ parts); reflexivity.
Qed.

(* ---- eviction: the head segment and its listed parts stop resolving at that rotation ---- *)
Lemma evicted_segment_unresolvable v sc t si segs seg regen d :
  snd (window_append v sc segs seg) = Some d -> sg_gap d = false -> sg_id d <> sg_id seg ->
  lookup (paths_rot_segments v sc t si segs seg regen) (KSeg si (sg_id d)) = None.
Proof.
  intros Hd Hg Hne. unfold paths_rot_segments. rewrite Hd, Hg.
  assert (H : lookup (unregister (unregister_parts (register t (KSeg si (sg_id seg)) HStatic) si (listed_parts v d))
                                 (KSeg si (sg_id d))) (KSeg si (sg_id d)) = None) by apply unregistered_absent.
  destruct regen; [|exact H]. rewrite lookup_register. simpl. exact H.
Qed.

Lemma evicted_parts_unresolvable v sc t si segs seg regen d p :
  snd (window_append v sc segs seg) = Some d -> In p (listed_parts v d) ->
  lookup (paths_rot_segments v sc t si segs seg regen) (KPart si (p_id p)) = None.
Proof.
  intros Hd Hp. unfold paths_rot_segments. rewrite Hd.
  assert (H0 : lookup (unregister_parts (register t (KSeg si (sg_id seg)) HStatic) si (listed_parts v d))
                      (KPart si (p_id p)) = None).
  { rewrite lookup_unregister_parts.
    assert (He : existsb (fun q => pathkey_eqb (KPart si (p_id q)) (KPart si (p_id p))) (listed_parts v d) = true).
    { apply existsb_exists. exists p. split; [exact Hp|apply pathkey_eqb_refl]. }
    now rewrite He. }
  assert (H1 : lookup (if sg_gap d then unregister_parts (register t (KSeg si (sg_id seg)) HStatic) si (listed_parts v d)
                       else unregister (unregister_parts (register t (KSeg si (sg_id seg)) HStatic) si (listed_parts v d))
                                       (KSeg si (sg_id d))) (KPart si (p_id p)) = None).
  { destruct (sg_gap d); [exact H0|]. rewrite lookup_unregister. simpl. exact H0. }
  destruct regen; [|exact H1]. rewrite lookup_register. simpl. exact H1.
Qed.

(* ---- index.m3u8 and the media playlists always resolve ---- *)
Definition static_key (k : pathkey) : bool :=
  match k with KIndex | KPlaylist _ => true | _ => false end.

Lemma static_rot_parts v t si pid npid k :
  static_key k = true -> lookup (paths_rot_parts v t si pid npid) k = lookup t k.
Proof.
  intros Hk. unfold paths_rot_parts. destruct v; auto. rewrite !lookup_register.
  destruct k; simpl in *; try discriminate; reflexivity.
Qed.

Lemma static_rot_segments v sc t si segs seg regen k :
  static_key k = true -> lookup (paths_rot_segments v sc t si segs seg regen) k = lookup t k.
Proof.
  intros Hk. unfold paths_rot_segments.
  assert (H1 : forall t', lookup (register t' (KSeg si (sg_id seg)) HStatic) k = lookup t' k).
  { intros t'. rewrite lookup_register. destruct k; simpl in *; try discriminate; reflexivity. }
  assert (H2 : forall t' ps, lookup (unregister_parts t' si ps) k = lookup t' k).
  { intros t' ps. rewrite lookup_unregister_parts.
    assert (E : existsb (fun p => pathkey_eqb (KPart si (p_id p)) k) ps = false).
    { induction ps as [|q ps IHps]; cbn [existsb]; auto. rewrite IHps. destruct k; simpl in *; try discriminate; reflexivity. }
    now rewrite E. }
  assert (H3 : forall t' id, lookup (unregister t' (KSeg si id)) k = lookup t' k).
  { intros t' id. rewrite lookup_unregister. destruct k; simpl in *; try discriminate; reflexivity. }
  assert (H4 : forall t', lookup (register t' (KInit si) HStatic) k = lookup t' k).
  { intros t'. rewrite lookup_register. destruct k; simpl in *; try discriminate; reflexivity. }
  destruct (snd (window_append v sc segs seg)) as [d|]; destruct regen;
    rewrite ?H4; try destruct (sg_gap d); rewrite ?H3, ?H2, ?H1; reflexivity.
Qed.

Section Static.
  Variable t0 : ptable.
  Definition GP (m : mstate) : Prop := forall k, static_key k = true -> lookup (m_paths m) k = lookup t0 k.

  Lemma GP_rotp m si d cn : GP m -> GP (stream_rotateParts m si d cn).
  Proof.
    intros H k Hk. unfold stream_rotateParts.
    destruct (nth_error (m_streams m) si) as [s|]; [|now apply H].
    destruct (st_openpart s) as [p0|]; [|now apply H]. destruct (st_open s) as [seg|]; [|now apply H].
    destruct (part_finalize p0 (m_tracks m) (st_tracks s) d) as [p tr].
    destruct (srot_parts _ s seg p d cn) as [s' bump].
    destruct bump; cbn [add_err set_paths set_tracks set_stream m_paths]; rewrite static_rot_parts by exact Hk; now apply H.
  Qed.

  Lemma GP_rots m si d ntp f : GP m -> GP (stream_rotateSegments m si d ntp f).
  Proof.
    intros H k Hk. unfold stream_rotateSegments.
    set (m1 := match c_variant (m_cfg m) with MPEGTS => m | _ => stream_rotateParts m si d false end).
    assert (H1 : GP m1) by (subst m1; destruct (c_variant (m_cfg m)); auto using GP_rotp).
    destruct (nth_error (m_streams m1) si) as [s|]; [|now apply H1].
    destruct (st_open s) as [seg0|]; [|now apply H1].
    destruct (srot_segments _ _ s seg0 d ntp f _) as [[s' regen] bump].
    destruct bump; cbn [add_err set_paths set_stream m_paths]; rewrite static_rot_segments by exact Hk; now apply H1.
  Qed.

  Theorem GP_mux_step m o : GP m -> GP (fst (mux_step m o)).
  Proof.
    apply (T_mux_step GP).
    - intros; assumption.
    - intros; assumption.
    - intros; now apply GP_rotp.
    - apply GP_rots.
    - intros; assumption.
    - intros m' ti si smp m'' H. unfold part_writeSample.
      destruct (nth_error (m_streams m') si) as [s|]; [|now intros [= <-]].
      destruct (nth_error (m_tracks m') ti) as [t|]; [|now intros [= <-]].
      destruct (st_open s); [|now intros [= <-]]. destruct (st_openpart s); [|now intros [= <-]].
      destruct (_ <? _); [discriminate|]. intros [= <-]. exact H.
    - intros m' si u size e inc H. unfold ts_write.
      destruct (nth_error (m_streams m') si) as [s|]; [|exact H].
      destruct (st_open s); [|exact H]. destruct (_ <? _); exact H.
  Qed.

  Theorem GP_mux_run ops : forall m, GP m -> GP (mux_run m ops).
  Proof.
    induction ops as [|o ops IH]; intros m H; [exact H|]. cbn [mux_run]. apply IH. now apply GP_mux_step.
  Qed.
End Static.

Lemma start_paths c m0 :
  start c = Ok m0 ->
  m_paths m0 = (KIndex, HStatic) :: map (fun i => (KPlaylist i, HStatic)) (seq 0 (length (m_streams m0))).
Proof.
  unfold start. destruct (negb (start_ok (norm_cfg c))); [discriminate|]. intros [= <-]. reflexivity.
Qed.

Lemma lookup_playlists i : forall a n, (a <= i < a + n)%nat ->
  lookup (map (fun i0 : nat => (KPlaylist i0, HStatic)) (seq a n)) (KPlaylist i) = Some HStatic.
Proof.
  intros a n. revert a. induction n as [|n IH]; intros a Ha; [lia|].
  simpl. destruct (Nat.eqb i a) eqn:E; [reflexivity|]. apply Nat.eqb_neq in E. apply IH. lia.
Qed.

Theorem index_and_playlists_resolve c ops m :
  reach c ops m ->
  lookup (m_paths m) KIndex = Some HStatic /\
  forall i, (i < length (m_streams m))%nat -> lookup (m_paths m) (KPlaylist i) = Some HStatic.
Proof.
  intros (m0 & Hs & ->).
  assert (HG : GP (m_paths m0) (mux_run m0 ops)) by (apply GP_mux_run; intros k _; reflexivity).
  assert (Hlen : length (m_streams (mux_run m0 ops)) = length (m_streams m0)).
  { pose proof (history_monotone m0 ops) as HF. clear -HF. induction HF; simpl; auto. }
  rewrite Hlen. pose proof (start_paths c m0 Hs) as Hp. split.
  - rewrite (HG KIndex eq_refl), Hp. reflexivity.
  - intros i Hi. rewrite (HG (KPlaylist i) eq_refl), Hp. cbn [lookup pathkey_eqb].
    apply lookup_playlists. lia.
Qed.
