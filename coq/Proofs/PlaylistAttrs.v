(* The attribute-list tokenizer (primitives.Attributes.Unmarshal) reads back a rendered
   attribute list: NAME=value items, quoted or unquoted, separated by commas. *)
From Coq Require Import List ZArith Bool String Ascii Lia.
From GoHls Require Import Model.PlaylistBase Model.PlaylistSpec Proofs.PlaylistStr Proofs.PlaylistNum.
Import ListNotations.
Local Open Scope string_scope.

Inductive aval := AQ (s : string) | AU (s : string).

Definition aval_str (v : aval) : string := match v with AQ s | AU s => s end.
Definition render_val (v : aval) : string :=
  match v with AQ s => String DQ (s ++ String DQ "") | AU s => s end.
Definition render_attr (kv : string * aval) : string :=
  fst kv ++ String "=" (render_val (snd kv)).
(* the text after the first attribute: every further attribute preceded by a comma *)
Fixpoint render_tail (l : list (string * aval)) : string :=
  match l with
  | [] => ""
  | x :: tl => String "," (render_attr x ++ render_tail tl)
  end.
Definition render_attrs (l : list (string * aval)) : string :=
  match l with
  | [] => ""
  | x :: tl => render_attr x ++ render_tail tl
  end.

Definition first_not (c : ascii) (s : string) : bool :=
  match s with String a _ => negb (Ascii.eqb a c) | "" => true end.

Definition key_ok (k : string) : bool := no_byte "=" k && first_not " " k.
Definition aval_ok (v : aval) : bool :=
  match v with
  | AQ s => no_byte DQ s
  | AU s => no_byte "," s && first_not DQ s
  end.
Definition attr_ok (kv : string * aval) : bool := key_ok (fst kv) && aval_ok (snd kv).

Definition set_all (l : list (string * aval)) (a : attrs) : attrs :=
  fold_left (fun a kv => map_set a (fst kv) (aval_str (snd kv))) l a.

Lemma render_tail_app l1 l2 : render_tail (l1 ++ l2) = render_tail l1 ++ render_tail l2.
Proof. induction l1 as [|x l1 IH]; simpl; auto. now rewrite IH, app_assoc'. Qed.

Lemma attrs_loop_S f v a :
  attrs_loop (S f) v a =
      if Nat.eqb (slen v) 0 then Ok a
      else
        match index_byte "=" v with
        | None => Err
        | Some i =>
            do key0 <- slice_to i v ;;
            do v1 <- slice_from (S i) v ;;
            let key := trim_left_sp key0 in
            do quoted <- (if negb (Nat.eqb (slen v1) 0)
                          then do c <- byte_at 0 v1 ;; Ok (Ascii.eqb c DQ)
                          else Ok false) ;;
            if quoted then
              do v2 <- slice_from 1 v1 ;;
              match index_byte DQ v2 with
              | None => Err
              | Some j =>
                  do val <- slice_to j v2 ;;
                  do v3 <- slice_from (S j) v2 ;;
                  let a' := map_set a key val in
                  if negb (Nat.eqb (slen v3) 0) then
                    do c <- byte_at 0 v3 ;;
                    if negb (Ascii.eqb c ",") then Err
                    else do v4 <- slice_from 1 v3 ;; attrs_loop f v4 a'
                  else attrs_loop f v3 a'
              end
            else
              match index_byte "," v1 with
              | Some j =>
                  do val <- slice_to j v1 ;;
                  do v2 <- slice_from (S j) v1 ;;
                  attrs_loop f v2 (map_set a key val)
              | None => Ok (map_set a key v1)
              end
        end.
Proof. reflexivity. Qed.

Lemma trim_left_sp_id k : first_not " " k = true -> trim_left_sp k = k.
Proof. destruct k as [|c k]; simpl; auto. intros H. apply negb_true_iff in H. now rewrite H. Qed.

Lemma slice_from_1 c s : slice_from 1 (String c s) = Ok s.
Proof. reflexivity. Qed.

Lemma render_tail_cons y tl : render_tail (y :: tl) = String "," (render_attrs (y :: tl)).
Proof. reflexivity. Qed.

Lemma attrs_loop_render : forall l fuel a,
  forallb attr_ok l = true -> (slen (render_attrs l) < fuel)%nat ->
  attrs_loop fuel (render_attrs l) a = Ok (set_all l a).
Proof.
  induction l as [|[k v] tl IH]; intros fuel a Hok Hf.
  - destruct fuel; [simpl in Hf; lia|reflexivity].
  - destruct fuel as [|f]; [lia|].
    cbn [forallb] in Hok. apply andb_true_iff in Hok as [Hx Htl].
    unfold attr_ok in Hx. cbn [fst snd] in Hx. apply andb_true_iff in Hx as [Hk Hv].
    unfold key_ok in Hk. apply andb_true_iff in Hk as [Hk1 Hk2].
    rewrite attrs_loop_S.
    cbn [render_attrs] in *. unfold render_attr in *. cbn [fst snd] in *.
    rewrite app_assoc' in *. cbn [append] in *.
    set (rest := render_val v ++ render_tail tl) in *.
    assert (L : slen (k ++ String "=" rest) = S (slen k + slen rest)) by (rewrite slen_app; simpl; lia).
    rewrite L in *. cbn [Nat.eqb].
    rewrite index_byte_app_sep by exact Hk1.
    rewrite slice_to_app. cbn [bind]. rewrite slice_from_app_S. cbn [bind].
    rewrite trim_left_sp_id by exact Hk2.
    cbn [set_all fold_left fst snd]. fold (set_all tl (map_set a k (aval_str v))).
    destruct v as [s|s]; cbn [render_val aval_str aval_ok] in *; unfold rest in *; clear rest.
    + (* quoted *)
      cbn [append slen String.length Nat.eqb negb byte_at String.get bind].
      rewrite Ascii.eqb_refl. rewrite slice_from_1. cbn [bind].
      rewrite app_assoc'. cbn [append].
      rewrite index_byte_app_sep by exact Hv.
      rewrite slice_to_app. cbn [bind]. rewrite slice_from_app_S. cbn [bind].
      destruct tl as [|y tl']; [cbn [render_tail] in *|rewrite render_tail_cons in *].
      * cbn [slen String.length Nat.eqb negb]. destruct f; [simpl in Hf; lia|reflexivity].
      * cbn [slen String.length Nat.eqb negb byte_at String.get bind].
        rewrite Ascii.eqb_refl. cbn [negb]. rewrite slice_from_1. cbn [bind].
        apply IH; [exact Htl|].
        cbn [slen String.length append] in Hf. rewrite slen_app in Hf. cbn [slen String.length] in Hf.
        unfold slen in *. lia.
    + (* unquoted *)
      apply andb_true_iff in Hv as [Hv1 Hv2].
      destruct tl as [|y tl']; [cbn [render_tail] in *|rewrite render_tail_cons in *].
      * rewrite app_empty_r.
        assert (Hq : (if negb (Nat.eqb (slen s) 0) then do c <- byte_at 0 s;; Ok (Ascii.eqb c DQ) else Ok false) = Ok false).
        { destruct s as [|c s]; [reflexivity|]. cbn. cbn in Hv2. apply negb_true_iff in Hv2. now rewrite Hv2. }
        rewrite Hq. cbn [bind]. rewrite index_byte_none by exact Hv1. reflexivity.
      * assert (Hq : (if negb (Nat.eqb (slen (s ++ String "," (render_attrs (y :: tl')))) 0)
                      then do c <- byte_at 0 (s ++ String "," (render_attrs (y :: tl')));; Ok (Ascii.eqb c DQ) else Ok false) = Ok false).
        { destruct s as [|c s]; [reflexivity|]. cbn. cbn in Hv2. apply negb_true_iff in Hv2. now rewrite Hv2. }
        rewrite Hq. cbn [bind]. rewrite index_byte_app_sep by exact Hv1.
        rewrite slice_to_app. cbn [bind]. rewrite slice_from_app_S. cbn [bind].
        apply IH; [exact Htl|].
        rewrite slen_app in Hf. cbn [slen String.length] in Hf. unfold slen in *. lia.
Qed.

Lemma attrs_unmarshal_render l :
  forallb attr_ok l = true -> attrs_unmarshal (render_attrs l) = Ok (set_all l []).
Proof. intros H. apply attrs_loop_render; [exact H|lia]. Qed.

(* with pairwise different names, the result is the list itself *)
Fixpoint key_in (k : string) (a : attrs) : bool :=
  match a with [] => false | (k', _) :: tl => String.eqb k' k || key_in k tl end.

Lemma map_set_fresh a k v : key_in k a = false -> map_set a k v = (a ++ [(k, v)])%list.
Proof.
  induction a as [|[k' v'] a IH]; simpl; auto. intros H. apply orb_false_iff in H as [H1 H2].
  rewrite H1. now rewrite IH.
Qed.
