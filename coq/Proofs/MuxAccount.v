(* C01, fMP4 variants: history-level accounting.
   Along every history of successful writes from Start the executable muxer model computes, for every track,
   exactly the log, the look-ahead unit and the "random access seen" flag of the abstract specification
   Model/MuxSpec.v, and "some stream is open" is the specification's "the presentation has started". *)
From Coq Require Import List ZArith Bool Lia Arith.
From GoHls Require Import Model.Mux Model.MuxSpec Proofs.MuxStream Proofs.MuxLift Proofs.MuxWindow Proofs.MuxHistory Proofs.MuxTimes
  Proofs.MuxMulti Proofs.MuxCut Proofs.MuxLog Proofs.MuxLogStep Proofs.MuxLogTS Proofs.MuxPartIds Proofs.MuxAgree
  Proofs.MuxGroups Proofs.MuxRAStart Proofs.MuxRAHist Proofs.MuxChain.
Import ListNotations.
Local Open Scope Z_scope.

(* ---- openness changes only where a first segment is created ---- *)
Lemma fmp4_opened_conv m ti t ra pc smp0 m' :
  LI m -> nth_error (m_tracks m) ti = Some t -> fmp4WriteSample m ti ra pc smp0 = (m', Ok tt) ->
  forall j, opened_at m' j = true -> opened_at m j = true \/ emitted_by m ti t smp0 <> [].
Proof.
  intros HL Ht. unfold fmp4WriteSample, emitted_by. rewrite Ht. cbv zeta. fold (shifted t smp0).
  pose proof (li_tracks m HL ti t Ht) as Hsi. rewrite Hsi.
  destruct (shifted t smp0 <? 0); [intros [= <-]; auto|].
  fold (incoming_of t smp0).
  set (m1 := upd_track m ti (fun t0 => tk_with t0 (tk_firstRA t0) (tk_params t0) (Some (incoming_of t smp0))
                                               (tk_samples t0) (tk_start t0))).
  assert (O1 : forall j, opened_at m1 j = opened_at m j) by reflexivity.
  assert (L1 : LI m1).
  { apply (LI_ext m); auto. subst m1. unfold upd_track. cbn [set_tracks m_tracks]. apply map_upd_static. intros x. reflexivity. }
  destruct (tk_next t) as [prev|]; [|intros [= <-]; auto].
  change (match nth_error (m_streams m1) ti with
          | Some s => match st_open s with Some _ => true | None => false end | None => false end) with (opened_at m ti).
  destruct (negb (tk_leading t) && negb (opened_at m ti)) eqn:Eg; [intros [= <-]; auto|].
  set (m2 := if tk_leading t && negb (opened_at m ti) then createFirstSegment m1 _ _ else m1).
  assert (S2 : LI m2 /\ (tk_leading t && negb (opened_at m ti) = false -> forall j, opened_at m2 j = opened_at m j)).
  { subst m2. destruct (tk_leading t && negb (opened_at m ti)) eqn:Ec.
    - split; [now apply LI_create|]. discriminate.
    - split; [exact L1|]. auto. }
  destruct S2 as (L2 & O2).
  match goal with |- context [part_writeSample ?a ti ti ?b] => set (m3 := a); set (smp := b) end.
  assert (S3 : LI m3 /\ (forall j, opened_at m3 j = opened_at m2 j)).
  { subst m3. destruct (tk_leading t); [|split; auto].
    match goal with |- context [fmp4AdjustPartDuration ?x ?y] => destruct (adjust_frame x y) as (A & B & C) end.
    split; [apply (LI_ext m2); auto; now rewrite C|]. intros j. unfold opened_at. now rewrite B. }
  destruct S3 as (L3 & O3).
  destruct (part_writeSample m3 ti ti smp) as [m4| |] eqn:Ew; [|discriminate|discriminate].
  pose proof (LI_pws _ _ _ _ _ L3 Ew) as L4.
  assert (O4 : forall j, opened_at m4 j = opened_at m2 j) by (intros j; rewrite (opened_pws _ _ _ _ _ j Ew); apply O3).
  assert (Fin : forall mf, (forall j, opened_at mf j = opened_at m4 j) ->
            forall j, opened_at mf j = true -> opened_at m j = true \/ [emit_of prev (shifted t smp0)] <> []).
  { intros mf Hf j Hj. destruct (tk_leading t && negb (opened_at m ti)) eqn:Ec; [right; discriminate|].
    left. rewrite <- (O2 eq_refl), <- O4, <- Hf. exact Hj. }
  destruct (negb (tk_leading t)); [intros [= <-]; now apply Fin|].
  destruct (nth_error (m_streams m4) ti); [|intros [= <-]; now apply Fin].
  match goal with |- context [if ?c then _ else _] => destruct c end.
  - intros Hr. apply Fin. intros j.
    assert (E : opened_at m' j = opened_at (rotateSegments m4 (timestampToDuration (shifted t smp0) (t_rate (tk_cfg t))) (s_ntp (incoming_of t smp0)) pc) j)
      by (destruct pc; injection Hr as <-; reflexivity).
    rewrite E. now apply opened_rotateSegments.
  - match goal with |- context [if ?c then _ else _] => destruct c end; intros [= <-]; apply Fin; auto.
    intros j. now apply opened_rotateParts.
Qed.

(* every stream that belongs to a track is open as soon as one is *)
Lemma opened_all m ti j t : LI m -> opened_at m ti = true -> nth_error (m_tracks m) j = Some t -> opened_at m j = true.
Proof.
  intros HL Ho Ht. destruct (stream_exists m j t HL Ht) as (s & Hs).
  unfold opened_at in *. rewrite Hs.
  destruct (nth_error (m_streams m) ti) as [s0|] eqn:E0; [|discriminate].
  destruct (st_open s0) eqn:Eo; [|discriminate].
  assert (H : st_open s <> None).
  { apply (all_open_of_one m s0 HL); [eapply nth_error_In; eauto|congruence|eapply nth_error_In; eauto]. }
  destruct (st_open s); [reflexivity|congruence].
Qed.

(* ---- the abstraction ---- *)
Definition abs_of (m : mstate) (j : nat) : option atrk :=
  match nth_error (heads m) j with
  | Some h => Some {| a_seen := snd h; a_pend := fst h; a_log := slog m j |}
  | None => None
  end.

Lemma heads_nth m j : nth_error (heads m) j = option_map tk_nf (nth_error (m_tracks m) j).
Proof. unfold heads. now rewrite nth_error_map. Qed.

Lemma spec_shifted t smp0 : s_dts (sp_incoming (tk_cfg t) smp0) = shifted t smp0.
Proof. reflexivity. Qed.
Lemma spec_incoming t smp0 : sp_incoming (tk_cfg t) smp0 = incoming_of t smp0.
Proof. reflexivity. Qed.
Lemma spec_emit prev dts : sp_emit prev dts = emit_of prev dts.
Proof. reflexivity. Qed.

Section Account.
  Variable F0 : list bool.
  Variable T0 : list (tcfg * bool * nat).

  Record Ref (m : mstate) (sp : aspec) : Prop := {
    rf_st : ST F0 T0 m;
    rf_open : forall j t, nth_error (m_tracks m) j = Some t -> opened_at m j = sp_open sp;
    rf_trk : forall j, nth_error (sp_trk sp) j = abs_of m j
  }.

  Lemma ST_LI m : ST F0 T0 m -> LI m.
  Proof. intros ((H & _) & _). exact H. Qed.

  Lemma ST_static m : ST F0 T0 m -> map tk_static (m_tracks m) = T0.
  Proof. intros (_ & _ & _ & H). exact H. Qed.

  Lemma static_at m j t : ST F0 T0 m -> nth_error (m_tracks m) j = Some t -> nth_error T0 j = Some (tk_static t).
  Proof. intros HS Ht. rewrite <- (ST_static m HS), nth_error_map, Ht. reflexivity. Qed.

  Lemma track_keeps m m' j t : ST F0 T0 m -> ST F0 T0 m' -> nth_error (m_tracks m) j = Some t ->
    exists t', nth_error (m_tracks m') j = Some t' /\ tk_static t' = tk_static t.
  Proof.
    intros HS HS' Ht. pose proof (static_at m j t HS Ht) as H. rewrite <- (ST_static m' HS'), nth_error_map in H.
    destruct (nth_error (m_tracks m') j) as [t'|]; simpl in H; [|discriminate]. exists t'. split; [reflexivity|congruence].
  Qed.

  (* ---- one unit ---- *)
  Lemma Ref_fmp4 m sp ti t ra pc smp0 m' :
    Ref m sp -> nth_error (m_tracks m) ti = Some t -> fmp4WriteSample m ti ra pc smp0 = (m', Ok tt) ->
    Ref m' (sp_unit (tk_cfg t) (tk_leading t) sp ti smp0).
  Proof.
    intros [HS HO HT] Ht Hw.
    pose proof (ST_LI m HS) as HL.
    assert (HS' : ST F0 T0 m') by (pose proof (ST_fmp4WriteSample F0 T0 m ti ra pc smp0 HS) as H; now rewrite Hw in H).
    destruct (fmp4_log_step m ti t ra pc smp0 m' HL Ht Hw) as (L' & Sother & Sti & _ & Hneg).
    destruct (fmp4_opened_step m ti t ra pc smp0 m' HL Ht Hw) as (Omono & Oemit).
    pose proof (fmp4_opened_conv m ti t ra pc smp0 m' HL Ht Hw) as Oconv.
    pose proof (heads_fmp4WriteSample m ti t ra pc smp0 m' Ht Hw) as Hh.
    assert (Hx : nth_error (sp_trk sp) ti = Some {| a_seen := tk_firstRA t; a_pend := tk_next t; a_log := slog m ti |}).
    { rewrite HT. unfold abs_of. rewrite heads_nth, Ht. reflexivity. }
    unfold sp_unit. rewrite Hx. cbv zeta. rewrite spec_shifted, spec_incoming. cbn [a_pend a_seen a_log].
    unfold emitted_by in Sti, Oemit, Oconv.
    destruct (shifted t smp0 <? 0) eqn:E0.
    { apply Z.ltb_lt in E0. rewrite (Hneg E0). constructor; auto. }
    rewrite (HO ti t Ht) in Sti, Oemit, Oconv.
    (* what is common to the three remaining cases *)
    assert (Trk : forall op new,
              slog m' ti = slog m ti ++ new ->
              forall j, nth_error (sp_trk (sp_set sp ti op
                   {| a_seen := tk_firstRA t; a_pend := Some (incoming_of t smp0); a_log := slog m ti ++ new |})) j = abs_of m' j).
    { intros op new Hnew j. unfold sp_set. cbn [sp_trk]. unfold abs_of. rewrite Hh.
      destruct (Nat.eq_dec ti j) as [<-|Hne].
      - rewrite (nth_error_upd_same _ ti _ _ Hx).
        assert (Hh0 : nth_error (heads m) ti = Some (tk_next t, tk_firstRA t)) by (rewrite heads_nth, Ht; reflexivity).
        rewrite (nth_error_upd_same _ ti _ _ Hh0). cbn [fst snd]. now rewrite Hnew.
      - rewrite !nth_error_upd_other by exact Hne. rewrite HT. unfold abs_of.
        rewrite Sother by congruence. reflexivity. }
    assert (Same : slog m' ti = slog m ti ++ [] -> (forall j, opened_at m' j = true -> opened_at m j = true) ->
              Ref m' (sp_set sp ti (sp_open sp) {| a_seen := tk_firstRA t; a_pend := Some (incoming_of t smp0); a_log := slog m ti |})).
    { intros Hs Hc. constructor; [exact HS'| |].
      - intros j tj Htj. cbn [sp_set sp_open].
        destruct (track_keeps m' m j tj HS' HS Htj) as (t0 & Ht0 & _). rewrite <- (HO j t0 Ht0).
        destruct (opened_at m j) eqn:Ej; [now apply Omono|].
        destruct (opened_at m' j) eqn:Ej'; [|reflexivity]. rewrite (Hc j Ej') in Ej. discriminate.
      - intros j. rewrite <- (app_nil_r (slog m ti)) at 1. now apply Trk. }
    destruct (tk_next t) as [prev|].
    - destruct (negb (tk_leading t) && negb (sp_open sp)) eqn:Eg.
      + apply Same; [exact Sti|]. intros j Hj. destruct (Oconv j Hj) as [H|H]; [exact H|congruence].
      + rewrite spec_emit. constructor; [exact HS'| |].
        * intros j tj Htj. cbn [sp_set sp_open].
          assert (Hti : opened_at m' ti = true) by (apply Oemit; discriminate).
          eapply opened_all; eauto.
        * now apply Trk.
    - apply Same; [exact Sti|]. intros j Hj. destruct (Oconv j Hj) as [H|H]; [exact H|congruence].
  Qed.

  (* a state that differs from m in nothing the abstraction reads *)
  Lemma Ref_ext m m' sp :
    ST F0 T0 m' -> m_streams m' = m_streams m -> heads m' = heads m ->
    map tk_samples (m_tracks m') = map tk_samples (m_tracks m) -> Ref m sp -> Ref m' sp.
  Proof.
    intros HS' Es Eh Esm [HS HO HT].
    assert (Hs : forall j, slog m' j = slog m j) by (intros j; apply slog_ext; auto).
    constructor; [exact HS'| |].
    - intros j t' Ht'. destruct (track_keeps m' m j t' HS' HS Ht') as (t & Ht & _).
      rewrite <- (HO j t Ht). unfold opened_at. now rewrite Es.
    - intros j. rewrite HT. unfold abs_of. now rewrite Eh, Hs.
  Qed.

  (* ---- a video write ---- *)
  Lemma Ref_write_video m sp ti t a m' :
    Ref m sp -> nth_error (m_tracks m) ti = Some t -> write_video m ti t a = (m', Ok tt) ->
    Ref m' (sp_video (tk_cfg t) (tk_leading t) sp ti a).
  Proof.
    intros HR Ht. pose proof (rf_st m sp HR) as HS. pose proof (ST_LI m HS) as HL.
    assert (Hx : nth_error (sp_trk sp) ti = Some {| a_seen := tk_firstRA t; a_pend := tk_next t; a_log := slog m ti |}).
    { rewrite (rf_trk m sp HR). unfold abs_of. rewrite heads_nth, Ht. reflexivity. }
    unfold sp_video. rewrite Hx. cbn [a_seen a_pend a_log].
    unfold write_video. cbv zeta.
    set (ex := match t_kind (tk_cfg t) with H264 | H265 => true | _ => a_ra a end).
    pose proof (heads_video_params m ti t a ex) as Hh1.
    destruct (video_params_streams' m ti t a ex) as [Es1 Ef1].
    assert (HS1 : ST F0 T0 (fst (video_params m ti t a ex))).
    { destruct (video_params m ti t a ex) as [mm pp] eqn:Evp. cbn [fst] in *.
      pose proof (ST_mux_step F0 T0) as _.
      unfold video_params in Evp.
      assert (Hf : forall mm0, m_cfg mm0 = m_cfg m -> m_streams mm0 = m_streams m -> m_paths mm0 = m_paths m ->
                 map tk_frame (m_tracks mm0) = map tk_frame (m_tracks m) -> ST F0 T0 mm0).
      { intros mm0 Ec Es Ep Ef. destruct mm0 as [c0 tr0 st0 pe0 sd0 ad0 fr0 pa0 er0]. cbn in Ec, Es, Ep, Ef. subst c0 st0 pa0.
        now apply (ST_frame F0 T0 m tr0 pe0 sd0 ad0 fr0 er0). }
      apply Hf; auto.
      - pose proof (cfg_video_params m ti t a ex) as H. unfold video_params in H. rewrite Evp in H. exact H.
      - clear - Evp. destruct (a_params a) as [p|]; [destruct (ex && negb (p =? tk_params t))|];
          repeat match type of Evp with context [if ?c then _ else _] => destruct c end; injection Evp as <- _; reflexivity. }
    destruct (video_params m ti t a ex) as [m1 pc0]. cbn [fst] in *.
    assert (R1 : Ref m1 sp) by (apply (Ref_ext m); auto; now apply samples_of_frame).
    assert (Hskip : forall mr, wok m1 = (mr, Ok tt) -> Ref mr sp) by (intros mr [= <-]; exact R1).
    set (m2 := set_firstRA m1 ti).
    set (sp2 := sp_set sp ti (sp_open sp) {| a_seen := true; a_pend := tk_next t; a_log := slog m ti |}).
    assert (Ht1 : exists t1, nth_error (m_tracks m1) ti = Some t1 /\ tk_static t1 = tk_static t /\ tk_nf t1 = tk_nf t).
    { destruct (track_keeps m m1 ti t HS HS1 Ht) as (t1 & A & B). exists t1. split; [exact A|]. split; [exact B|].
      assert (C : nth_error (heads m1) ti = nth_error (heads m) ti) by now rewrite Hh1.
      rewrite !heads_nth, A, Ht in C. simpl in C. congruence. }
    destruct Ht1 as (t1 & Ht1 & St1 & Nf1).
    assert (R2 : Ref m2 sp2 /\ exists t2, nth_error (m_tracks m2) ti = Some t2 /\ tk_static t2 = tk_static t).
    { assert (Ef2 : map tk_frame (m_tracks m2) = map tk_frame (m_tracks m1)).
      { subst m2. unfold set_firstRA, upd_track. cbn [set_tracks m_tracks]. apply map_upd_static. intros x. reflexivity. }
      assert (HS2 : ST F0 T0 m2).
      { subst m2. unfold set_firstRA, upd_track, set_tracks. apply ST_frame; [|exact HS1]. exact Ef2. }
      assert (Hs2 : forall j, slog m2 j = slog m1 j) by (intros j; apply slog_ext; auto; now apply samples_of_frame).
      assert (Hh2 : heads m2 = upd (heads m1) ti (fun h => (fst h, true))).
      { subst m2. unfold set_firstRA, upd_track, heads. cbn [set_tracks m_tracks]. clear.
        generalize (m_tracks m1) as l. intros l. revert ti. induction l as [|x l IH]; intros [|i]; simpl; auto. now rewrite IH. }
      split.
      - destruct R1 as [_ HO1 HT1]. constructor; [exact HS2| |].
        + intros j tj Htj. destruct (track_keeps m2 m1 j tj HS2 HS1 Htj) as (t0 & Ht0 & _).
          subst sp2. cbn [sp_set sp_open]. rewrite <- (HO1 j t0 Ht0). reflexivity.
        + intros j. subst sp2. unfold sp_set. cbn [sp_trk]. unfold abs_of. rewrite Hh2, Hs2.
          destruct (Nat.eq_dec ti j) as [<-|Hne].
          * rewrite (nth_error_upd_same _ ti _ _ Hx).
            assert (Hh0 : nth_error (heads m1) ti = Some (tk_nf t)) by (rewrite heads_nth, Ht1; simpl; now rewrite Nf1).
            rewrite (nth_error_upd_same _ ti _ _ Hh0). cbn [fst snd tk_nf].
            assert (Hs1 : slog m1 ti = slog m ti) by (apply slog_ext; auto; now apply samples_of_frame).
            now rewrite Hs1.
          * rewrite !nth_error_upd_other by exact Hne. rewrite HT1. reflexivity.
      - destruct (track_keeps m1 m2 ti t1 HS1 HS2 Ht1) as (t2 & A & B). exists t2. split; [exact A|congruence]. }
    destruct R2 as (R2 & t2 & Ht2 & St2).
    assert (Hgo : forall mr, fmp4WriteSample m2 ti (a_ra a) pc0 (video_sample a) = (mr, Ok tt) ->
              Ref mr (sp_unit (tk_cfg t) (tk_leading t) sp2 ti (video_sample a))).
    { intros mr Hw. pose proof (Ref_fmp4 m2 sp2 ti t2 (a_ra a) pc0 (video_sample a) mr R2 Ht2 Hw) as H.
      unfold tk_static in St2. injection St2 as Sa Sb _. now rewrite Sa, Sb in H. }
    unfold sp_video_skipped.
    destruct (t_kind (tk_cfg t)).
    - destruct (negb (a_ra a) && negb (a_nonidr a)); [cbn [orb]; apply Hskip|].
      destruct (negb (tk_firstRA t) && negb (a_ra a)); [cbn [orb]; apply Hskip|]. cbn [orb].
      destruct (c_variant (m_cfg m)) eqn:Ev; [exfalso; exact (li_variant m HL Ev)|apply Hgo|apply Hgo].
    - destruct (negb (tk_firstRA t) && negb (a_ra a)); [apply Hskip|apply Hgo].
    - destruct (negb (tk_firstRA t) && negb (a_ra a)); [apply Hskip|apply Hgo].
    - destruct (negb (tk_firstRA t) && negb (a_ra a)); [apply Hskip|apply Hgo].
    - destruct (negb (tk_firstRA t) && negb (a_ra a)); [apply Hskip|apply Hgo].
    - destruct (negb (tk_firstRA t) && negb (a_ra a)); [apply Hskip|apply Hgo].
  Qed.

  (* ---- an audio write: one unit per access unit / packet ---- *)
  Lemma Ref_audio_units units : forall m sp ti cf ld i pts ntp m',
    Ref m sp -> (forall t, nth_error (m_tracks m) ti = Some t -> tk_cfg t = cf /\ tk_leading t = ld) ->
    nth_error (m_tracks m) ti <> None ->
    write_audio_units m ti (t_kind cf) (t_rate cf) (t_srate cf) i pts ntp units = (m', Ok tt) ->
    Ref m' (sp_audio_units cf ld sp ti i pts ntp units).
  Proof.
    induction units as [|x units IH]; intros m sp ti cf ld i pts ntp m' HR Hcf Hex; cbn [write_audio_units sp_audio_units].
    - intros [= <-]. exact HR.
    - destruct (match t_kind cf with OPUS => (pts, ntp) | _ => _ end) as [upts untp].
      match goal with |- context [fmp4WriteSample m ti true false ?s] =>
        set (smp := s); destruct (fmp4WriteSample m ti true false smp) as [m1 r] eqn:Ew end.
      destruct r as [[]|e|p]; [|discriminate|discriminate].
      destruct (nth_error (m_tracks m) ti) as [t|] eqn:Ht; [|congruence].
      destruct (Hcf t eq_refl) as [Ec El].
      pose proof (Ref_fmp4 m sp ti t true false smp m1 HR Ht Ew) as R1. rewrite Ec, El in R1.
      destruct (track_keeps m m1 ti t (rf_st _ _ HR) (rf_st _ _ R1) Ht) as (t1 & Ht1 & St1).
      assert (Hcf1 : forall t0, nth_error (m_tracks m1) ti = Some t0 -> tk_cfg t0 = cf /\ tk_leading t0 = ld).
      { intros t0 H0. rewrite Ht1 in H0. injection H0 as <-. unfold tk_static in St1. injection St1 as Sa Sb _. split; congruence. }
      assert (Hex1 : nth_error (m_tracks m1) ti <> None) by congruence.
      intros Hr. destruct (t_kind cf) eqn:Ek; (eapply IH; eauto; rewrite Ek; exact Hr).
  Qed.

  Theorem Ref_mux_step m sp o m' : Ref m sp -> mux_step m o = (m', Ok tt) -> Ref m' (sp_step T0 sp o).
  Proof.
    intros HR. destruct o as [ti a]. unfold mux_step, mux_write, sp_step.
    pose proof (rf_st _ _ HR) as HS.
    destruct (nth_error (m_tracks m) ti) as [t|] eqn:Ht.
    - rewrite (static_at m ti t HS Ht). unfold tk_static.
      destruct (isVideo (t_kind (tk_cfg t))).
      + intros Hw. eapply Ref_write_video; eauto.
      + unfold write_audio. pose proof (ST_LI m HS) as HL.
        destruct (c_variant (m_cfg m)) eqn:Ev; [exfalso; exact (li_variant m HL Ev)| |];
          intros Hw; eapply Ref_audio_units; eauto; try congruence;
          intros t0 H0; rewrite Ht in H0; injection H0 as <-; auto.
    - intros [= <-].
      assert (E : nth_error T0 ti = None).
      { rewrite <- (ST_static m HS), nth_error_map, Ht. reflexivity. }
      rewrite E. exact HR.
  Qed.

  Theorem Ref_mux_run ops : forall m sp, Ref m sp -> all_ok m ops -> Ref (mux_run m ops) (sp_run T0 sp ops).
  Proof.
    induction ops as [|o ops IH]; intros m sp HR Hok; [exact HR|]. cbn [mux_run]. unfold sp_run. cbn [fold_left].
    destruct Hok as [Hr Hok]. apply IH; auto. eapply Ref_mux_step; eauto. rewrite <- Hr. apply surjective_pairing.
  Qed.
End Account.

Lemma nth_repeat {A} (x : A) n j : (j < n)%nat -> nth_error (repeat x n) j = Some x.
Proof. revert j; induction n as [|n IH]; intros [|j] H; simpl; try lia; auto. apply IH; lia. Qed.

(* ---- the state Start builds is the specification's initial state ---- *)
Theorem start_Ref c m :
  start c = Ok m -> c_variant c <> MPEGTS ->
  Ref (map st_leading (m_streams m)) (map tk_static (m_tracks m)) m (sp_init (length (m_tracks m))).
Proof.
  intros Hs Hv.
  destruct (start_INV c m Hs Hv) as (_ & _ & _ & HI). cbv zeta in HI.
  destruct (start_LI c m Hs Hv) as [HL H0].
  pose proof (start_streams c m Hs) as ES.
  assert (ET : m_tracks m = mk_tracks (norm_cfg c) 0 (c_tracks c)).
  { unfold start in Hs. destruct (negb (start_ok (norm_cfg c))); [discriminate|]. now injection Hs as <-. }
  assert (EM : exists n, m_streams m = mk_streams (norm_cfg c) 0 (c_tracks c) false n).
  { rewrite ES. destruct (c_variant c); [congruence|eauto|eauto]. }
  destruct EM as (n & EM).
  assert (Hclosed : forall s, In s (m_streams m) -> st_open s = None).
  { intros s Hin. rewrite EM in Hin. now destruct (mk_streams_open _ _ _ _ _ _ Hin). }
  assert (Hnos : forall t, In t (m_tracks m) -> tk_next t = None /\ tk_firstRA t = false).
  { intros t Hin. rewrite ET in Hin. apply In_nth_error in Hin. destruct Hin as [k Hk].
    destruct (mk_tracks_static _ _ _ _ _ Hk) as (t0 & _ & _ & _ & A & B & C). auto. }
  constructor.
  - exact (inv_st _ _ _ HI).
  - intros j t Ht. cbn [sp_init sp_open]. unfold opened_at.
    destruct (nth_error (m_streams m) j) as [s|] eqn:Es; [|reflexivity].
    now rewrite (Hclosed s (nth_error_In _ _ Es)).
  - intros j. unfold abs_of. rewrite heads_nth. cbn [sp_init sp_trk].
    destruct (nth_error (m_tracks m) j) as [t|] eqn:Et; simpl.
    + destruct (Hnos t (nth_error_In _ _ Et)) as [A B]. rewrite A, B, H0.
      assert (Hj : (j < length (m_tracks m))%nat) by (apply nth_error_Some; congruence).
      now apply nth_repeat.
    + apply nth_error_None. rewrite repeat_length. now apply nth_error_None.
Qed.

(* ---- the accounting theorem ---- *)
Theorem history_accounting c m0 ops :
  start c = Ok m0 -> c_variant c <> MPEGTS -> all_ok m0 ops ->
  let T0 := map tk_static (m_tracks m0) in
  let sp := sp_run T0 (sp_init (length T0)) ops in
  let m := mux_run m0 ops in
  forall j, (j < length T0)%nat ->
    slog m j = sp_log sp j /\ pending m j = sp_pend sp j /\ opened_at m j = sp_open sp.
Proof.
  intros Hs Hv Hok T0 sp m j Hj.
  pose proof (start_Ref c m0 Hs Hv) as R0.
  assert (El : length T0 = length (m_tracks m0)) by (subst T0; now rewrite map_length).
  rewrite <- El in R0.
  pose proof (Ref_mux_run _ T0 ops m0 _ R0 Hok) as [HS HO HT]. fold sp in HO, HT. fold m in HS, HO, HT.
  assert (Hlen : length (m_tracks m) = length T0) by (rewrite <- (ST_static _ _ m HS), map_length; reflexivity).
  destruct (nth_error (m_tracks m) j) as [t|] eqn:Et; [|apply nth_error_None in Et; lia].
  unfold sp_log, sp_pend. rewrite (HT j). unfold abs_of. rewrite heads_nth, Et. simpl.
  split; [reflexivity|]. split; [unfold pending; now rewrite Et|eapply HO; eauto].
Qed.

(* ---- what the specification itself guarantees, one unit at a time ---- *)
(* a unit without the duration the muxer computes *)
Definition core (s : sample) : Z * Z * bool * Z * Z * Z :=
  (s_dts s, s_ptsoff s, s_nonsync s, s_ntp s, s_pay s, s_size s).
Definition plist (p : option sample) : list sample := match p with Some x => [x] | None => [] end.
Definition kept (x : atrk) : list sample := a_log x ++ plist (a_pend x).

(* One unit offered to a track whose shifted decode time is not negative: the track's log followed by its
   look-ahead unit grows by exactly this unit, every older unit keeps all its fields but the duration, and the only
   unit that can disappear is the look-ahead unit of a non-leading track while the presentation has not started.
   No other track changes. *)
Lemma spec_unit_conservation cf ld sp ti smp0 x :
  nth_error (sp_trk sp) ti = Some x -> 0 <= s_dts (sp_incoming cf smp0) ->
  let sp' := sp_unit cf ld sp ti smp0 in
  (exists x', nth_error (sp_trk sp') ti = Some x' /\ a_seen x' = a_seen x
     /\ map core (kept x') = map core (if negb ld && negb (sp_open sp) then a_log x else kept x) ++ [core (sp_incoming cf smp0)]
     /\ (forall p, a_pend x = Some p -> negb ld && negb (sp_open sp) = false ->
           a_log x' = a_log x ++ [sp_emit p (s_dts (sp_incoming cf smp0))]))
  /\ (forall j, j <> ti -> nth_error (sp_trk sp') j = nth_error (sp_trk sp) j).
Proof.
  intros Hx Hpos. cbv zeta. unfold sp_unit. rewrite Hx. cbv zeta.
  destruct (s_dts (sp_incoming cf smp0) <? 0) eqn:E0; [apply Z.ltb_lt in E0; lia|].
  assert (Hupd : forall op y, nth_error (sp_trk (sp_set sp ti op y)) ti = Some y
                 /\ forall j, j <> ti -> nth_error (sp_trk (sp_set sp ti op y)) j = nth_error (sp_trk sp) j).
  { intros op y. unfold sp_set. cbn [sp_trk]. split; [now rewrite (nth_error_upd_same _ ti _ _ Hx)|].
    intros j Hj. now rewrite nth_error_upd_other by congruence. }
  destruct (a_pend x) as [prev|] eqn:Ep.
  - destruct (negb ld && negb (sp_open sp)) eqn:Eg.
    + destruct (Hupd (sp_open sp) {| a_seen := a_seen x; a_pend := Some (sp_incoming cf smp0); a_log := a_log x |}) as [A B].
      split; [|exact B]. eexists. split; [exact A|]. split; [reflexivity|]. split; [|discriminate].
      unfold kept. cbn [a_log a_pend plist]. now rewrite map_app.
    + destruct (Hupd true {| a_seen := a_seen x; a_pend := Some (sp_incoming cf smp0);
                             a_log := a_log x ++ [sp_emit prev (s_dts (sp_incoming cf smp0))] |}) as [A B].
      split; [|exact B]. eexists. split; [exact A|]. split; [reflexivity|]. split.
      * unfold kept. cbn [a_log a_pend plist]. rewrite Ep. cbn [plist]. rewrite !map_app. reflexivity.
      * intros p [= <-] _. reflexivity.
  - destruct (Hupd (sp_open sp) {| a_seen := a_seen x; a_pend := Some (sp_incoming cf smp0); a_log := a_log x |}) as [A B].
    split; [|exact B]. eexists. split; [exact A|]. split; [reflexivity|]. split; [|discriminate].
    unfold kept. cbn [a_log a_pend plist]. rewrite Ep. cbn [plist]. rewrite app_nil_r, map_app.
    now destruct (negb ld && negb (sp_open sp)).
Qed.

(* a unit before -10 s changes nothing *)
Lemma spec_unit_negative cf ld sp ti smp0 : s_dts (sp_incoming cf smp0) < 0 -> sp_unit cf ld sp ti smp0 = sp.
Proof.
  intros H. unfold sp_unit. destruct (nth_error (sp_trk sp) ti); [|reflexivity]. cbv zeta.
  apply Z.ltb_lt in H. now rewrite H.
Qed.

(* non-vacuity: the specification run on the example history of MuxLogStep.v *)
Lemma account_example : exists m0,
  start ex_cfg = Ok m0 /\ c_variant ex_cfg <> MPEGTS /\ all_ok m0 ex_ops
  /\ let T0 := map tk_static (m_tracks m0) in
     let sp := sp_run T0 (sp_init (length T0)) ex_ops in
     (length T0 = 2%nat)
     /\ map (fun s => (s_pay s, s_dts s, s_dur s)) (sp_log sp 0) = [(11, 900000, 3000); (12, 903000, 3000)]
     /\ option_map s_pay (sp_pend sp 0) = Some 13 /\ sp_log sp 1 = [] /\ option_map s_pay (sp_pend sp 1) = Some 21
     /\ sp_open sp = true.
Proof.
  destruct (start ex_cfg) as [m0| |] eqn:E; [|vm_compute in E; discriminate|vm_compute in E; discriminate].
  exists m0. split; [reflexivity|]. split; [discriminate|].
  vm_compute in E. injection E as <-. split; vm_compute; auto 10.
Qed.

(* the leading track never loses a unit: log ++ look-ahead grows by exactly the offered unit *)
Corollary spec_leading_keeps_everything cf sp ti smp0 x :
  nth_error (sp_trk sp) ti = Some x -> 0 <= s_dts (sp_incoming cf smp0) ->
  exists x', nth_error (sp_trk (sp_unit cf true sp ti smp0)) ti = Some x'
             /\ map core (kept x') = map core (kept x) ++ [core (sp_incoming cf smp0)].
Proof.
  intros Hx Hpos. destruct (spec_unit_conservation cf true sp ti smp0 x Hx Hpos) as [(x' & A & _ & B & _) _].
  exists x'. split; [exact A|exact B].
Qed.
