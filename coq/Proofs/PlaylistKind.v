(* C14, kind selection: findType on Marshal output answers the kind that was marshalled, hence
   playlist.Unmarshal (Marshal p) is a playlist of p's kind. *)
From Coq Require Import List ZArith Bool String Ascii Lia.
From GoHls Require Import Model.PlaylistBase Model.Playlist Model.PlaylistSpec
  Proofs.PlaylistStr Proofs.PlaylistNum Proofs.PlaylistAttrs Proofs.PlaylistTags Proofs.PlaylistTagsMulti
  Proofs.PlaylistTotal Proofs.PlaylistMedia Proofs.PlaylistMulti.
Import ListNotations.
Local Open Scope string_scope.
Local Open Scope Z_scope.

Local Arguments fmt_int : simpl never.

Definition SI := "#EXT-X-STREAM-INF:".
Definition EI := "#EXTINF:".

Definition ftrun (s : string) (k : pkind) : Prop := exists f, find_type f s = Ok k.

Lemma find_type_S f s :
  find_type (S f) s =
  match index_byte LF s with
  | None => Err
  | Some i =>
      do line <- slice_to (S i) s ;;
      do rest <- slice_from (S i) s ;;
      if has_prefix SI line then Ok KMultivariant
      else if has_prefix EI line then Ok KMedia
      else find_type f rest
  end.
Proof. reflexivity. Qed.

Lemma slice_to_line line rest : slice_to (S (slen line)) (line ++ String LF rest) = Ok (line ++ lf).
Proof.
  replace (line ++ String LF rest) with ((line ++ lf) ++ rest) by (rewrite app_assoc'; reflexivity).
  replace (S (slen line)) with (slen (line ++ lf)) by (rewrite slen_app; simpl; lia).
  apply slice_to_app.
Qed.

Lemma ft_skip line rest k : no_byte LF line = true ->
  has_prefix SI (line ++ lf) = false -> has_prefix EI (line ++ lf) = false ->
  ftrun rest k -> ftrun (line ++ lf ++ rest) k.
Proof.
  intros Hl H1 H2 [f Hf]. exists (S f). rewrite find_type_S.
  change (lf ++ rest) with (String LF rest).
  rewrite index_byte_app_sep by exact Hl. rewrite slice_to_line. cbn [bind].
  rewrite slice_from_app_S. cbn [bind]. now rewrite H1, H2.
Qed.

Lemma ft_hit line rest k : no_byte LF line = true ->
  (if has_prefix SI (line ++ lf) then Ok KMultivariant
   else if has_prefix EI (line ++ lf) then Ok KMedia else Err) = Ok k ->
  ftrun (line ++ lf ++ rest) k.
Proof.
  intros Hl H. exists 1%nat. rewrite find_type_S.
  change (lf ++ rest) with (String LF rest).
  rewrite index_byte_app_sep by exact Hl. rewrite slice_to_line. cbn [bind].
  rewrite slice_from_app_S. cbn [bind].
  destruct (has_prefix SI (line ++ lf)); [exact H|]. destruct (has_prefix EI (line ++ lf)); [exact H|discriminate].
Qed.

(* a tag line whose literal prefix already decides both tests *)
Lemma ft_skip_tag pfx body REST k :
  no_crlf (pfx ++ body) = true ->
  (forall x, has_prefix SI (pfx ++ x) = false) -> (forall x, has_prefix EI (pfx ++ x) = false) ->
  ftrun REST k -> ftrun ((pfx ++ body ++ lf) ++ REST) k.
Proof.
  intros Hn H1 H2 H. rewrite !app_assoc'. rewrite <- (app_assoc' pfx body).
  unfold no_crlf in Hn. apply andb_true_iff in Hn as [Hn _].
  apply ft_skip; auto; rewrite app_assoc'; auto.
Qed.

Lemma ft_skip_opt {A} (o : option A) (f : A -> string) REST k :
  (forall x, o = Some x -> ftrun REST k -> ftrun (f x ++ REST) k) ->
  ftrun REST k -> ftrun (match o with Some x => f x | None => "" end ++ REST) k.
Proof. intros H Hr. destruct o; [apply H; auto|exact Hr]. Qed.

Lemma ft_skip_bool (b : bool) line REST k : no_byte LF line = true ->
  has_prefix SI (line ++ lf) = false -> has_prefix EI (line ++ lf) = false ->
  ftrun REST k -> ftrun ((if b then line ++ lf else "") ++ REST) k.
Proof. intros A B C H. destruct b; [rewrite app_assoc'; apply ft_skip; auto|exact H]. Qed.

Lemma ft_hit_extinf dur title REST : no_byte LF dur = true -> no_byte LF title = true ->
  ftrun ("#EXTINF:" ++ dur ++ "," ++ title ++ lf ++ REST) KMedia.
Proof.
  intros A B.
  replace ("#EXTINF:" ++ dur ++ "," ++ title ++ lf ++ REST)
    with (("#EXTINF:" ++ dur ++ "," ++ title) ++ lf ++ REST) by (now rewrite !app_assoc').
  apply ft_hit; [|reflexivity]. rewrite !no_byte_app, A, B. reflexivity.
Qed.

Lemma find_type_mono f : forall s R f',
  find_type f s = R -> R <> OutOfFuel -> (f <= f')%nat -> find_type f' s = R.
Proof.
  induction f as [|f IH]; intros s R f' H Hn Hle; [simpl in H; congruence|].
  destruct f' as [|f']; [lia|]. rewrite find_type_S in *.
  destruct (index_byte LF s); auto.
  destruct (slice_to (S n) s); cbn [bind] in *; auto.
  destruct (slice_from (S n) s); cbn [bind] in *; auto.
  destruct (has_prefix SI a); auto. destruct (has_prefix EI a); auto.
  apply IH with (f' := f') in H; auto. lia.
Qed.

Lemma ftrun_fuel s k f : ftrun s k -> safe (find_type f s) -> find_type f s = Ok k.
Proof.
  intros [f0 H0] Hs. destruct (Nat.le_ge_cases f0 f) as [Hle|Hle].
  - eapply find_type_mono; eauto. discriminate.
  - assert (Hn : find_type f s <> OutOfFuel) by (intros E; rewrite E in Hs; exact Hs).
    pose proof (find_type_mono f s _ f0 eq_refl Hn Hle) as E. congruence.
Qed.

Ltac lit := intros; reflexivity.

Ltac seg_proj :=
  cbn [sg_duration sg_title sg_uri sg_discontinuity sg_gap sg_datetime sg_bitrate sg_key sg_brlen
       sg_brstart sg_parts].
Ltac media_proj :=
  cbn [m_version m_independent m_start m_allowcache m_targetduration m_servercontrol m_partinf
       m_mediasequence m_discseq m_playlisttype m_map m_skip m_segments m_parts m_preloadhint m_endlist].

Section WithOracles.
Variable orc : oracles.
Hypothesis OK : oracle_ok orc.

Lemma no_crlf_lit_app pfx body : no_crlf pfx = true -> no_crlf body = true -> no_crlf (pfx ++ body) = true.
Proof. intros A B. now rewrite no_crlf_app, A, B. Qed.

(* the lines of a segment up to and including EXTINF select the media kind *)
Lemma ft_segment seg REST : wf_segment seg = true -> ftrun (segment_marshal orc seg ++ REST) KMedia.
Proof.
  unfold wf_segment. intros H. split_and H.
  destruct seg as [d title uri disc gap dt br key brl brs parts];
    cbn [sg_duration sg_title sg_uri sg_discontinuity sg_gap sg_datetime sg_bitrate sg_key sg_brlen sg_brstart sg_parts] in *.
  assert (Hdur : dur_pos d = true) by assumption.
  assert (Htitle : title_ok title = true) by assumption.
  assert (Hbr : opt_ok int31 br = true) by assumption.
  assert (Hparts : forallb wf_part parts = true) by assumption.
  unfold segment_marshal. seg_proj. rewrite !app_assoc'.
  apply ft_skip_bool; [reflexivity|reflexivity|reflexivity|].
  apply ft_skip_bool; [reflexivity|reflexivity|reflexivity|].
  apply ft_skip_opt; [intros t _ Hr; apply ft_skip_tag; [|lit|lit|exact Hr];
         apply no_crlf_lit_app; [reflexivity|apply (ok_time_chars orc OK)]|].
  apply ft_skip_opt; [intros b Eb Hr; apply ft_skip_tag; [|lit|lit|exact Hr];
         apply no_crlf_lit_app; [reflexivity|]; subst br; cbn [opt_ok] in Hbr;
         apply fmt_int_no_crlf; apply int31_range in Hbr; lia|].
  assert (Hps : forall R, ftrun R KMedia ->
                     ftrun (String.concat "" (map (part_marshal orc) parts) ++ R) KMedia)
         by (clear - Hparts OK; induction parts as [|p ps IH]; intros R HR; [exact HR|];
             cbn [forallb] in Hparts; apply andb_true_iff in Hparts as [Hp Hps];
             cbn [map]; rewrite concat_cons, app_assoc', part_marshal_render;
             apply ft_skip_tag; [|lit|lit|apply IH; auto];
             apply no_crlf_lit_app; [reflexivity|apply render_attrs_no_crlf, part_attrs_ok; auto]).
  apply Hps.
  destruct (dur_pos_any _ Hdur) as [Ha _];
       destruct (dur_facts orc OK _ Ha) as (d' & _ & _ & _ & _ & Hch);
       destruct (title_ok_facts _ Htitle) as [Ht1 _].
  apply ft_hit_extinf.
  - apply num_chars_no_byte; auto; discriminate.
  - unfold no_crlf in Ht1. now apply andb_true_iff in Ht1 as [Ht1 _].
Qed.

Theorem find_type_media p : wf_media p = true -> ftrun (media_marshal orc p) KMedia.
Proof.
  unfold wf_media. intros H. split_and H.
  destruct p as [ver indep start ac td sc pi mseq ds pt mp sk segs parts hint endl]. media_proj.
  cbn [m_version m_independent m_start m_allowcache m_targetduration m_servercontrol m_partinf
       m_mediasequence m_discseq m_playlisttype m_map m_skip m_segments m_parts m_preloadhint m_endlist] in *.
  assert (Hver1 : 0 <= ver) by (apply Z.leb_le; assumption).
  assert (Htd1 : 0 < td) by (apply Z.ltb_lt; assumption).
  assert (Hstart : opt_ok (fun t => dur_signed (st_timeoffset t)) start = true) by assumption.
  assert (Hds : opt_ok int31 ds = true) by assumption.
  assert (Hsc : opt_ok wf_server_control sc = true) by assumption.
  assert (Hpi : opt_ok (fun t => dur_pos (pi_parttarget t)) pi = true) by assumption.
  assert (Hms : int31 mseq = true) by assumption. apply int31_range in Hms.
  assert (Hpt : opt_ok (fun t => String.eqb t "EVENT" || String.eqb t "VOD") pt = true) by assumption.
  assert (Hmp : opt_ok wf_map mp = true) by assumption.
  assert (Hsk : opt_ok (fun t => int31 (sk_skipped t)) sk = true) by assumption.
  assert (Hne : negb (Nat.eqb (List.length segs) 0) = true) by assumption.
  assert (Hsegs : forallb wf_segment segs = true) by assumption.
  unfold media_marshal. media_proj.
  apply ft_skip; [reflexivity|reflexivity|reflexivity|].
  rewrite reassoc3. apply ft_skip_tag; [apply no_crlf_lit_app; [reflexivity|apply fmt_int_no_crlf; lia]|lit|lit|].
  apply ft_skip_bool; [reflexivity|reflexivity|reflexivity|].
  apply ft_skip_opt; [intros t Et Hr; rewrite start_marshal_render; apply ft_skip_tag; [|lit|lit|exact Hr];
    apply no_crlf_lit_app; [reflexivity|]; subst start; apply render_attrs_no_crlf, start_attrs_ok; auto|].
  apply ft_skip_opt; [intros b _ Hr; apply ft_skip_tag; [destruct b; reflexivity|lit|lit|exact Hr]|].
  rewrite reassoc3; apply ft_skip_tag; [apply no_crlf_lit_app; [reflexivity|apply fmt_int_no_crlf; lia]|lit|lit|].
  apply ft_skip_opt; [intros t Et Hr; rewrite server_control_marshal_render; apply ft_skip_tag; [|lit|lit|exact Hr];
         apply no_crlf_lit_app; [reflexivity|]; subst sc; apply render_attrs_no_crlf, sc_attrs_ok; auto|].
  apply ft_skip_opt; [intros t Et Hr; rewrite part_inf_marshal_render; apply ft_skip_tag; [|lit|lit|exact Hr];
         apply no_crlf_lit_app; [reflexivity|]; subst pi; apply render_attrs_no_crlf, part_inf_attrs_ok; auto|].
  rewrite reassoc3; apply ft_skip_tag; [apply no_crlf_lit_app; [reflexivity|apply fmt_int_no_crlf; lia]|lit|lit|].
  apply ft_skip_opt; [intros t Et Hr; apply ft_skip_tag; [|lit|lit|exact Hr];
         apply no_crlf_lit_app; [reflexivity|]; subst ds; cbn [opt_ok] in Hds; apply int31_range in Hds;
         apply fmt_int_no_crlf; lia|].
  apply ft_skip_opt; [intros t Et Hr; apply ft_skip_tag; [|lit|lit|exact Hr]; subst pt; cbn [opt_ok] in Hpt;
         apply orb_true_iff in Hpt as [E|E]; apply String.eqb_eq in E; subst; reflexivity|].
  apply ft_skip_opt; [intros t Et Hr; rewrite map_marshal_render; apply ft_skip_tag; [|lit|lit|exact Hr];
         apply no_crlf_lit_app; [reflexivity|]; subst mp; apply render_attrs_no_crlf, map_attrs_ok; auto|].
  apply ft_skip_opt; [intros t Et Hr; rewrite skip_marshal_render; apply ft_skip_tag; [|lit|lit|exact Hr];
         apply no_crlf_lit_app; [reflexivity|]; subst sk; apply render_attrs_no_crlf, skip_attrs_ok; auto|].
  destruct segs as [|seg segs]; [discriminate Hne|].
  cbn [forallb] in Hsegs; apply andb_true_iff in Hsegs as [Hs _].
  cbn [segments_marshal].
  destruct (sg_key seg) as [kk|] eqn:Ek; [|rewrite app_assoc'; apply ft_segment; exact Hs].
  assert (Hk : wf_key kk = true)
         by (unfold wf_segment in Hs; split_and Hs; rewrite Ek in *; cbn [opt_ok] in *; assumption).
  rewrite !app_assoc'; rewrite key_marshal_render.
  rewrite <- (app_assoc' (segment_marshal orc seg)).
  apply ft_skip_tag; [apply no_crlf_lit_app; [reflexivity|apply render_attrs_no_crlf, key_attrs_ok; auto]|lit|lit|].
  rewrite app_assoc'; apply ft_segment; exact Hs.
Qed.


Theorem find_type_multivariant p : wf_multivariant p = true -> ftrun (multivariant_marshal orc p) KMultivariant.
Proof.
  unfold wf_multivariant. intros H. split_and H.
  destruct p as [ver indep start variants renditions].
  cbn [mv_version mv_independent mv_start mv_variants mv_renditions] in *.
  assert (Hver1 : 0 <= ver) by (apply Z.leb_le; assumption).
  assert (Hst : opt_ok (fun t => dur_signed (st_timeoffset t)) start = true) by assumption.
  assert (Hne : negb (Nat.eqb (List.length variants) 0) = true) by assumption.
  assert (Hvs : forallb wf_variant variants = true) by assumption.
  assert (Hrs : forallb wf_rendition renditions = true) by assumption.
  unfold multivariant_marshal. cbn [mv_version mv_independent mv_start mv_variants mv_renditions].
  apply ft_skip; [reflexivity|reflexivity|reflexivity|].
  rewrite reassoc3. apply ft_skip_tag; [apply no_crlf_lit_app; [reflexivity|apply fmt_int_no_crlf; lia]|lit|lit|].
  apply ft_skip_bool; [reflexivity|reflexivity|reflexivity|].
  apply ft_skip_opt; [intros t Et Hr; rewrite start_marshal_render; apply ft_skip_tag; [|lit|lit|exact Hr];
    apply no_crlf_lit_app; [reflexivity|]; subst start; apply render_attrs_no_crlf, start_attrs_ok; auto|].
  assert (Hvar : ftrun (lf ++ String.concat "" (map (variant_marshal orc) variants)) KMultivariant).
  { change (lf ++ ?x) with ("" ++ lf ++ x). apply ft_skip; [reflexivity|reflexivity|reflexivity|].
    destruct variants as [|v vs]; [discriminate Hne|]. cbn [forallb] in Hvs. apply andb_true_iff in Hvs as [Hv _].
    cbn [map]. rewrite concat_cons, variant_marshal_render. rewrite !app_assoc'.
    rewrite <- (app_assoc' "#EXT-X-STREAM-INF:" (render_attrs (variant_attrs orc v))).
    apply ft_hit; [|reflexivity].
    pose proof (render_attrs_no_crlf _ (variant_attrs_ok orc OK v Hv)) as Hn.
    unfold no_crlf in Hn. apply andb_true_iff in Hn as [Hn _]. rewrite no_byte_app, Hn. reflexivity. }
  destruct (Nat.eqb (List.length renditions) 0); cbn [negb]; [exact Hvar|].
  rewrite !app_assoc'. change (lf ++ ?x) with ("" ++ lf ++ x) at 1.
  apply ft_skip; [reflexivity|reflexivity|reflexivity|].
  clear Hne. induction renditions as [|r rs IH]; [exact Hvar|].
  cbn [forallb] in Hrs. apply andb_true_iff in Hrs as [Hr Hrs'].
  cbn [map]. rewrite concat_cons, app_assoc', rendition_marshal_render.
  apply ft_skip_tag; [|lit|lit|apply IH; exact Hrs'].
  apply no_crlf_lit_app; [reflexivity|apply render_attrs_no_crlf, rendition_attrs_ok; auto].
Qed.

(* playlist.Unmarshal (Marshal p) has p's kind and reproduces p *)
Theorem unmarshal_media_kind p : wf_media p = true ->
  exists p', unmarshal orc (media_marshal orc p) = Ok (PMedia p') /\ media_eqvb p p' = true.
Proof.
  intros H. destruct (media_roundtrip orc OK p H) as (p' & A & B & _).
  exists p'. split; [|exact B]. unfold unmarshal.
  rewrite (ftrun_fuel _ _ _ (find_type_media p H)) by (apply find_type_safe; lia).
  cbn [bind]. rewrite A. reflexivity.
Qed.

Theorem unmarshal_multivariant_kind p : wf_multivariant p = true ->
  exists p', unmarshal orc (multivariant_marshal orc p) = Ok (PMultivariant p')
             /\ multivariant_eqvb p p' = true.
Proof.
  intros H. destruct (multivariant_roundtrip orc OK p H) as (p' & A & B & _).
  exists p'. split; [|exact B]. unfold unmarshal.
  rewrite (ftrun_fuel _ _ _ (find_type_multivariant p H)) by (apply find_type_safe; lia).
  cbn [bind]. rewrite A. reflexivity.
Qed.

End WithOracles.
