(* Finding F4 on the faithful model: three Marshal defects of Media, each refuting the
   round-trip statement of C14 on a minimal valid value (witnesses evaluated by vm_compute
   with the exact decimal oracle instance z_oracles, which prints these witnesses exactly as Go does; the same inputs as the harness replays), and the
   third one also the fixpoint statement. *)
From Coq Require Import List ZArith Bool String.
From GoHls Require Import Model.PlaylistBase Model.PlaylistIdeal Model.Playlist Model.PlaylistSpec.
Import ListNotations.
Local Open Scope string_scope.
Local Open Scope Z_scope.

Definition seg1 : MediaSegment :=
  {| sg_duration := 1000000000; sg_title := ""; sg_uri := "s.mp4"; sg_discontinuity := false;
     sg_gap := false; sg_datetime := None; sg_bitrate := None; sg_key := None; sg_brlen := None;
     sg_brstart := None; sg_parts := [] |}.

(* version 3, target duration 2, one segment *)
Definition media_min : Media :=
  m_set_segments (m_set_targetduration (m_set_version media0 3) 2) [seg1].

Definition w_discseq : Media := m_set_discseq media_min (Some 1).
Definition w_start : Media := m_set_start media_min (Some {| st_timeoffset := 1000000000 |}).
Definition w_server_control : Media :=
  m_set_servercontrol media_min
    (Some {| sc_canblockreload := false; sc_partholdback := Some 1000000000; sc_canskipuntil := None |}).

Lemma media_min_roundtrips :
  wf_media media_min = true /\ media_roundtrip_ok z_oracles media_min = true
  /\ media_fixpoint_ok z_oracles media_min = true.
Proof. vm_compute. auto. Qed.

(* (a) EXT-X-DISCONTINUITY-SEQUENCE carries MediaSequence (0) instead of 1 *)
Lemma media_roundtrip_refuted_discseq :
  exists p, wf_media p = true /\ media_roundtrip_ok z_oracles p = false
            /\ media_marshal z_oracles p =
               "#EXTM3U" ++ lf ++ "#EXT-X-VERSION:3" ++ lf ++ "#EXT-X-TARGETDURATION:2" ++ lf
               ++ "#EXT-X-MEDIA-SEQUENCE:0" ++ lf ++ "#EXT-X-DISCONTINUITY-SEQUENCE:0" ++ lf
               ++ "#EXTINF:1.00000," ++ lf ++ "s.mp4" ++ lf.
Proof. exists w_discseq. vm_compute. auto. Qed.

(* (b) EXT-X-START is not printed *)
Lemma media_roundtrip_refuted_start :
  exists p, wf_media p = true /\ media_roundtrip_ok z_oracles p = false
            /\ media_marshal z_oracles p = media_marshal z_oracles media_min.
Proof. exists w_start. vm_compute. auto. Qed.

(* (c) EXT-X-SERVER-CONTROL:,PART-HOLD-BACK=1.00000 *)
Lemma media_roundtrip_refuted_server_control :
  exists p, wf_media p = true /\ media_roundtrip_ok z_oracles p = false
            /\ media_fixpoint_ok z_oracles p = false
            /\ media_marshal z_oracles p =
               "#EXTM3U" ++ lf ++ "#EXT-X-VERSION:3" ++ lf ++ "#EXT-X-TARGETDURATION:2" ++ lf
               ++ "#EXT-X-SERVER-CONTROL:,PART-HOLD-BACK=1.00000" ++ lf
               ++ "#EXT-X-MEDIA-SEQUENCE:0" ++ lf ++ "#EXTINF:1.00000," ++ lf ++ "s.mp4" ++ lf.
Proof. exists w_server_control. vm_compute. auto. Qed.

(* what the decoder makes of the three witnesses is exactly their F4 image *)
Lemma f4_image_witnesses :
  forallb (fun p => match media_unmarshal z_oracles (media_marshal z_oracles p) with
                    | Ok p' => media_eqvb (f4_image p) p'
                    | _ => false
                    end) [media_min; w_discseq; w_start; w_server_control] = true.
Proof. vm_compute. reflexivity. Qed.
