(* M8: the safety invariant of the process network and its preservation by every step. *)
From Coq Require Import List Bool Arith Lia String.
From GoHls Require Import Lib.ClientLifeIR Model.ClientLifeOps Model.ClientLife.
Import ListNotations.

(* ---------- lists of goroutines ---------- *)
Definition lv (p : gpc) : nat := match p with GDone => 0 | _ => 1 end.

Lemma live_cons : forall p l, live (p :: l) = lv p + live l.
Proof. intros [] l; reflexivity. Qed.

Lemma live_upd : forall l g p q,
  nth_error l g = Some p -> live (upd l g q) + lv p = live l + lv q.
Proof.
  induction l as [|x l IH]; intros [|g] p q H; simpl in H; try discriminate.
  - inversion H; subst. cbn [upd]. rewrite !live_cons. lia.
  - cbn [upd]. rewrite !live_cons. specialize (IH g p q H). lia.
Qed.

Lemma live_app_body : forall l, live (l ++ [GBody]) = S (live l).
Proof.
  induction l as [|x l IH]; [reflexivity|].
  change ((x :: l) ++ [GBody]) with (x :: (l ++ [GBody])). rewrite !live_cons, IH. lia.
Qed.

Lemma live_zero_done : forall l g p, live l = 0 -> nth_error l g = Some p -> p = GDone.
Proof.
  induction l as [|x l IH]; intros [|g] p H N; simpl in N; try discriminate.
  - inversion N; subst. destruct p; try reflexivity; rewrite live_cons in H; simpl in H; lia.
  - rewrite live_cons in H. apply (IH g p); [lia|exact N].
Qed.

Lemma live_zero_all_done : forall l, live l = 0 -> all_done l = true.
Proof.
  induction l as [|x l IH]; intro H; [reflexivity|].
  rewrite live_cons in H. destruct x; simpl in H; try lia. simpl. apply IH. lia.
Qed.

Lemma Forall_upd : forall (P : gpc -> Prop) l g q, Forall P l -> P q -> Forall P (upd l g q).
Proof.
  intros P l. induction l as [|x l IH]; intros [|g] q F Q; cbn [upd]; auto;
    inversion F; subst; constructor; auto.
Qed.

Lemma nth_error_upd_same : forall l g p q, nth_error l g = Some p -> nth_error (upd l g q) g = Some q.
Proof.
  induction l as [|x l IH]; intros [|g] p q H; simpl in H; try discriminate; cbn [upd]; simpl; eauto.
Qed.

Lemma nth_error_upd_other : forall l g h q, g <> h -> nth_error (upd l g q) h = nth_error l h.
Proof.
  induction l as [|x l IH]; intros [|g] [|h] q H; cbn [upd]; simpl; auto; try congruence.
Qed.

Lemma upd_length : forall l g q, List.length (upd l g q) = List.length l.
Proof. induction l as [|x l IH]; intros [|g] q; cbn [upd]; simpl; auto. Qed.

(* ---------- log observations ---------- *)
Definition has_close (l : list logev) : bool := existsb (fun e => match e with LClose => true | _ => false end) l.

Lemma results_nil_no_result : forall l, results l = [] -> existsb is_result l = false.
Proof.
  induction l as [|e l IH]; intro H; [reflexivity|].
  destruct e; simpl in *; auto. destruct (results l); discriminate.
Qed.

Section Inv.
  Variable tbl : gen.
  Variable nh : blockop -> bool.

  Definition val_ok (s : state) (v : result) : Prop :=
    match v with
    | RErr e => delivered (log s) = [e]
    | RTerminated => cctx s = true /\ delivered (log s) = []
    end.

  Definition run_inv (s : state) : Prop :=
    match rpc s with
    | RSelect => pctx s = false /\ out s = [] /\ results (log s) = [] /\ delivered (log s) = []
    | RCancel v => pctx s = false /\ out s = [] /\ results (log s) = [] /\ val_ok s v
    | RWait v => pctx s = true /\ out s = [] /\ results (log s) = [] /\ val_ok s v
    | RSend v => pctx s = true /\ out s = [] /\ results (log s) = [] /\ val_ok s v /\ wg s = 0
    | RDone => pctx s = true /\ wg s = 0 /\ exists v, out s = [v] /\ results (log s) = [v] /\ val_ok s v
    end.

  Definition pc_ok (p : gpc) : Prop :=
    match p with GBlocked o => In o (pool_ops tbl) | _ => True end.

  Record inv (s : state) : Prop := {
    inv_wg : wg s = live (gs s);
    inv_run : run_inv s;
    inv_pcs : Forall pc_ok (gs s);
    inv_cb : no_callback_after_result (log s) = true;
    inv_res : results (log s) <> [] -> wg s = 0;
    inv_close : cctx s = true -> has_close (log s) = true
  }.

  Lemma inv_init : forall F, inv (init F).
  Proof.
    intro F. constructor; simpl; auto.
    - unfold run_inv; simpl. repeat split; reflexivity.
    - constructor; simpl; auto.
    - intro H; congruence.
  Qed.

  Lemma spend_spec : forall s s1, spend s = Some s1 ->
    cctx s1 = cctx s /\ pctx s1 = pctx s /\ wg s1 = wg s /\ gs s1 = gs s /\ rpc s1 = rpc s /\
    out s1 = out s /\ log s1 = log s /\ (pctx s = true -> S (fuel s1) = fuel s) /\ (pctx s = false -> fuel s1 = fuel s).
  Proof.
    intros s s1 H. unfold spend in H. destruct (pctx s) eqn:P.
    - destruct (fuel s) eqn:Fu; [discriminate|]. inversion H; subst; simpl. repeat split; auto; intro; congruence.
    - inversion H; subst. repeat split; auto; intro; congruence.
  Qed.

  (* goroutine steps that only change one program counter and prepend harmless log entries *)
  Lemma run_inv_set_g : forall s g p l,
    results l = [] -> delivered l = [] -> (forall r, results (l ++ r) = results r) ->
    (forall r, delivered (l ++ r) = delivered r) ->
    run_inv s -> rpc s <> RDone \/ lv p = 0 -> run_inv (set_g s g p l).
  Proof.
    intros s g p l _ _ HR HD H _. unfold run_inv, set_g, val_ok in *; simpl.
    destruct (rpc s); rewrite ?HR, ?HD; auto.
  Qed.

  Lemma wg_pos_not_done : forall s g p, inv s -> nth_error (gs s) g = Some p -> lv p = 1 ->
    results (log s) = [] /\ rpc s <> RDone.
  Proof.
    intros s g p I N L.
    assert (W : wg s <> 0).
    { intro W. rewrite (inv_wg s I) in W. rewrite (live_zero_done _ _ _ W N) in L. discriminate. }
    split.
    - destruct (results (log s)) eqn:R; auto. exfalso. apply W. apply (inv_res s I). congruence.
    - intro D. pose proof (inv_run s I) as RI. unfold run_inv in RI. rewrite D in RI. tauto.
  Qed.

  (* generic preservation for a goroutine step g : p -> q with log prefix l, wg unchanged, lv p = lv q = 1 *)
  Lemma inv_set_g : forall s g p q l,
    inv s -> nth_error (gs s) g = Some p -> lv p = 1 -> lv q = 1 -> pc_ok q ->
    (forall r, results (l ++ r) = results r) -> (forall r, delivered (l ++ r) = delivered r) ->
    (forall r, has_close (l ++ r) = has_close r) ->
    (forall r, existsb is_result r = false -> no_callback_after_result r = true ->
               no_callback_after_result (l ++ r) = true) ->
    inv (set_g s g q l).
  Proof.
    intros s g p q l I N Lp Lq Pq HR HD HC HCB.
    destruct (wg_pos_not_done s g p I N Lp) as [R ND].
    constructor; simpl.
    - pose proof (live_upd _ _ _ q N). rewrite (inv_wg s I). lia.
    - apply run_inv_set_g; auto.
      + rewrite <- (app_nil_r l), HR. reflexivity.
      + rewrite <- (app_nil_r l), HD. reflexivity.
      + apply (inv_run s I).
    - apply Forall_upd; [apply (inv_pcs s I)|exact Pq].
    - apply HCB; [apply results_nil_no_result; exact R|apply (inv_cb s I)].
    - rewrite HR. apply (inv_res s I).
    - rewrite HC. apply (inv_close s I).
  Qed.

  Lemma inv_spend : forall s s1, spend s = Some s1 -> inv s -> inv s1.
  Proof.
    intros s s1 H I. destruct (spend_spec s s1 H) as (A & B & C & D & E & F & G & _).
    destruct I as [I1 I2 I3 I4 I5 I6].
    constructor; rewrite ?A, ?B, ?C, ?D, ?E, ?F, ?G; auto.
    unfold run_inv, val_ok in *. rewrite E, B, F, G, C, A. exact I2.
  Qed.

  Lemma existsb_blockop_in : forall o l, existsb (blockop_eqb o) l = true -> In o l.
  Proof.
    intros o l H. apply existsb_exists in H. destruct H as (x & Hx & E).
    unfold blockop_eqb in E. destruct (blockop_eq_dec o x); [subst; exact Hx|discriminate].
  Qed.

  Theorem inv_step : forall s e s', inv s -> step tbl nh s e = Some s' -> inv s'.
  Proof.
    intros s e s' I H. destruct e as [|g a|g| | | |]; simpl in H.
    - (* EClose *)
      inversion H; subst; clear H. destruct I as [I1 I2 I3 I4 I5 I6]. constructor; simpl; auto.
      unfold run_inv, val_ok in *; simpl. destruct (rpc s); auto.
      + destruct v; tauto.
      + destruct v; tauto.
      + destruct v; tauto.
      + destruct I2 as (A & B & v & C & D & E). repeat split; auto. exists v. repeat split; auto. destruct v; tauto.
    - (* EG *)
      unfold gstep in H. destruct (nth_error (gs s) g) as [pc|] eqn:N; [|discriminate].
      destruct pc; destruct a; try discriminate.
      + (* AStart *)
        destruct (existsb (blockop_eqb o) (pool_ops tbl)) eqn:M; [|discriminate].
        destruct (spend s) as [s1|] eqn:SP; [|discriminate]. inversion H; subst; clear H.
        destruct (spend_spec s s1 SP) as (_ & _ & _ & G & _).
        apply (inv_set_g s1 g GBody); auto.
        * eapply inv_spend; eauto.
        * rewrite G; exact N.
        * simpl. apply existsb_blockop_in; exact M.
      + (* ASpawn *)
        destruct (spend s) as [s1|] eqn:SP; [|discriminate]. inversion H; subst; clear H.
        pose proof (inv_spend s s1 SP I) as I1.
        destruct (spend_spec s s1 SP) as (_ & _ & _ & G & _).
        assert (N1 : nth_error (gs s1) g = Some GBody) by (rewrite G; exact N).
        destruct (wg_pos_not_done s1 g GBody I1 N1 eq_refl) as [R ND].
        destruct I1 as [J1 J2 J3 J4 J5 J6]. constructor; simpl; auto.
        * rewrite live_app_body. lia.
        * unfold run_inv, val_ok in *; simpl. destruct (rpc s1); auto; try congruence.
          destruct J2 as (A & B & C & D & E). exfalso. rewrite E in J1. symmetry in J1.
          pose proof (live_zero_done _ _ _ J1 N1). discriminate.
        * apply Forall_app; split; auto. constructor; simpl; auto.
        * intro X. rewrite R in X. congruence.
      + (* ACallback *)
        destruct (spend s) as [s1|] eqn:SP; [|discriminate].
        pose proof (inv_spend s s1 SP I) as I1.
        destruct (spend_spec s s1 SP) as (_ & _ & _ & G & _).
        assert (N1 : nth_error (gs s1) g = Some GBody) by (rewrite G; exact N).
        destruct cb; [destruct ret|]; inversion H; subst; clear H.
        * apply (inv_set_g s1 g GBody); simpl; auto.
          intros r X Y. rewrite X. simpl. exact Y.
        * apply (inv_set_g s1 g GBody); simpl; auto.
          intros r X Y. rewrite X. simpl. exact Y.
        * apply (inv_set_g s1 g GBody); simpl; auto.
          intros r X Y. rewrite X. simpl. exact Y.
      + (* AReturn *)
        destruct r; inversion H; subst; clear H; apply (inv_set_g s g GBody); simpl; auto.
      + (* AComplete *)
        destruct (has_normal_alt o); inversion H; subst; clear H.
        apply (inv_set_g s g (GBlocked o)); simpl; auto.
      + (* AFault *)
        destruct (is_http o); inversion H; subst; clear H.
        apply (inv_set_g s g (GBlocked o)); simpl; auto.
      + (* ACancelled *)
        destruct (pctx s && cancel_wakes tbl nh o); inversion H; subst; clear H.
        apply (inv_set_g s g (GBlocked o)); simpl; auto.
      + (* ASendCancelled *)
        destruct (pctx s); inversion H; subst; clear H.
        apply (inv_set_g s g (GSending e)); simpl; auto.
      + (* AWgDone *)
        inversion H; subst; clear H.
        destruct (wg_pos_not_done s g GExit I N eq_refl) as [R ND].
        pose proof (live_upd _ _ _ GDone N) as LU. simpl in LU.
        destruct I as [I1 I2 I3 I4 I5 I6]. constructor; simpl; auto.
        * lia.
        * unfold run_inv, val_ok in *; simpl. destruct (rpc s); auto; try congruence.
          destruct I2 as (A & B & C & D & E). repeat split; auto. rewrite E. reflexivity.
        * apply Forall_upd; simpl; auto.
        * intro X. congruence.
    - (* ERunRecv *)
      destruct (rpc s) eqn:RP; try discriminate.
      destruct (nth_error (gs s) g) as [[]|] eqn:N; try discriminate.
      inversion H; subst; clear H.
      pose proof (live_upd _ _ _ GExit N) as LU. simpl in LU.
      destruct I as [I1 I2 I3 I4 I5 I6]. unfold run_inv in I2. rewrite RP in I2. destruct I2 as (A & B & C & D).
      constructor; simpl; auto.
      + lia.
      + unfold run_inv, val_ok; simpl. rewrite D. auto.
      + apply Forall_upd; simpl; auto.
    - (* ERunCtx *)
      destruct (rpc s) eqn:RP; try discriminate. destruct (cctx s) eqn:CC; [|discriminate].
      inversion H; subst; clear H.
      destruct I as [I1 I2 I3 I4 I5 I6]. unfold run_inv in I2. rewrite RP in I2. destruct I2 as (A & B & C & D).
      constructor; simpl; auto. unfold run_inv, val_ok; simpl. auto.
    - (* ERunCancel *)
      destruct (rpc s) eqn:RP; try discriminate. inversion H; subst; clear H.
      destruct I as [I1 I2 I3 I4 I5 I6]. unfold run_inv in I2. rewrite RP in I2. destruct I2 as (A & B & C & D).
      constructor; simpl; auto. unfold run_inv, val_ok in *; simpl. destruct v; auto.
    - (* ERunWait *)
      destruct (rpc s) eqn:RP; try discriminate. destruct (Nat.eqb (wg s) 0) eqn:W; [|discriminate].
      apply Nat.eqb_eq in W. inversion H; subst; clear H.
      destruct I as [I1 I2 I3 I4 I5 I6]. unfold run_inv in I2. rewrite RP in I2. destruct I2 as (A & B & C & D).
      constructor; simpl; auto. unfold run_inv, val_ok in *; simpl. destruct v; auto.
    - (* ERunSend *)
      destruct (rpc s) eqn:RP; try discriminate.
      destruct (Nat.ltb (List.length (out s)) out_cap); [|discriminate]. inversion H; subst; clear H.
      destruct I as [I1 I2 I3 I4 I5 I6]. unfold run_inv in I2. rewrite RP in I2. destruct I2 as (A & B & C & D & E).
      constructor; simpl; auto.
      + unfold run_inv; simpl. split; [exact A|]. split; [exact E|]. exists v. rewrite B, C. simpl.
        split; [reflexivity|]. split; [reflexivity|]. unfold val_ok in *; simpl. destruct v; auto.
  Qed.

  Lemma inv_step_or_stay : forall s e, inv s -> inv (step_or_stay tbl nh s e).
  Proof.
    intros s e I. unfold step_or_stay. destruct (step tbl nh s e) eqn:H; [eapply inv_step; eauto|exact I].
  Qed.

  Lemma inv_exec : forall sch s, inv s -> inv (exec tbl nh s sch).
  Proof.
    induction sch as [|e sch IH]; intros s I; [exact I|]. simpl. apply IH. apply inv_step_or_stay. exact I.
  Qed.

  Theorem inv_reachable : forall F s, reachable tbl nh F s -> inv s.
  Proof. intros F s [sch ->]. apply inv_exec. apply inv_init. Qed.
End Inv.
