(* Non-vacuity instances for C16 and C18 (by vm_compute on reachable states). *)
From Coq Require Import List ZArith Bool.
From GoHls Require Import Model.Mux Proofs.MuxLog Proofs.MuxLogStep Proofs.MuxMulti Proofs.MuxPaths Proofs.MuxSpanHist
  Proofs.MuxTableConv Proofs.MuxBandwidth Proofs.MuxAuditAdds.
Import ListNotations.
Local Open Scope Z_scope.

(* C16: the H264 + AAC Low-Latency muxer of the other examples after 8 writes (two complete segments): one DEFAULT
   rendition (the audio stream), one variant pointing at the leading video stream, a non-zero BANDWIDTH >= AVERAGE *)
Lemma multivariant_example : exists m0 mv,
  start ex_cfg = Ok m0
  /\ let m := mux_run m0 sp_ops in
     count_rd (m_streams m) = 1%nat /\ map st_default (m_streams m) = [false; true]
     /\ gen_multivariant m = Ok (Some mv)
     /\ (mv_bandwidth mv, mv_avg mv, mv_uri mv, map r_default (mv_renditions mv), map r_hasuri (mv_renditions mv))
        = (2400, 2400, Some (true, 1), [true], [true]).
Proof.
  destruct (start ex_cfg) as [m0| |] eqn:E; [|vm_compute in E; discriminate|vm_compute in E; discriminate].
  vm_compute in E. injection E as <-. eexists. eexists. split; [reflexivity|].
  cbv zeta. split; [vm_compute; reflexivity|]. split; [vm_compute; reflexivity|]. split; vm_compute; reflexivity.
Qed.

(* C18: in that state the URI of listed segment 8 and of part 3 resolve, that of segment 6 (never published: the
   first real segment is number 7) does not; and with SegmentMaxSize = 150 bytes the third write of the same history
   is refused with the size error *)
Definition small_cfg : cfg :=
  {| c_variant := FMP4;
     c_tracks := [ {| t_kind := H264; t_rate := 90000; t_srate := 0; t_name := 0; t_lang := 0; t_default := false; t_params0 := 1 |} ];
     c_segcount := 3; c_segmin := 1000000000; c_partmin := 200000000; c_segmax := 150 |}.

Lemma retention_example : exists m0 m1,
  start ex_cfg = Ok m0 /\ start small_cfg = Ok m1
  /\ (let m := mux_run m0 sp_ops in
      (lookup (m_paths m) (KSeg 0 8), lookup (m_paths m) (KSeg 0 6), lookup (m_paths m) (KPart 0 3))
      = (Some HStatic, None, Some HPart))
  /\ map (fun k => snd (mux_step (mux_run m1 (firstn k sp_ops)) (nth k sp_ops (WWrite 0 (ex_au 0 true 0))))) [0; 1; 2]%nat
     = [Ok tt; Ok tt; Err 2].
Proof.
  destruct (start ex_cfg) as [m0| |] eqn:E; [|vm_compute in E; discriminate|vm_compute in E; discriminate].
  destruct (start small_cfg) as [m1| |] eqn:E1; [|vm_compute in E1; discriminate|vm_compute in E1; discriminate].
  vm_compute in E. injection E as <-. vm_compute in E1. injection E1 as <-.
  eexists. eexists. split; [reflexivity|]. split; [reflexivity|]. split; vm_compute; reflexivity.
Qed.
