(* C15, strict grammar, line level: how the strict recogniser steps over the lines Marshal
   prints, and the invariant of its state along a playlist. *)
From Coq Require Import List ZArith Bool String Ascii Lia.
From GoHls Require Import Model.PlaylistBase Model.Playlist Model.PlaylistSpec Model.PlaylistStrict
  Model.PlaylistStrictSpec Proofs.PlaylistStr Proofs.PlaylistNum Proofs.PlaylistAttrs Proofs.PlaylistTags
  Proofs.PlaylistMedia Proofs.PlaylistStrictLex Proofs.PlaylistStrictTags.
Import ListNotations.
Local Open Scope string_scope.
Local Open Scope Z_scope.

(* ---------- lines_of ---------- *)
Lemma split_byte_line c l r : no_byte c l = true -> split_byte c (l ++ String c r) = l :: split_byte c r.
Proof.
  induction l as [|x l IH]; simpl; intros H.
  - now rewrite Ascii.eqb_refl.
  - apply andb_true_iff in H as [Hx Hl]. apply negb_true_iff in Hx. rewrite Hx, IH by exact Hl. reflexivity.
Qed.

Lemma drop_last_empty_cons x l : l <> [] -> drop_last_empty (x :: l) = x :: drop_last_empty l.
Proof. destruct l; [congruence|reflexivity]. Qed.

Lemma strip_cr_id l : no_byte CR l = true -> strip_cr l = l.
Proof.
  intros H. unfold strip_cr. destruct (slen l) as [|n] eqn:E; [reflexivity|].
  unfold char_at. destruct (get_lt n l ltac:(lia)) as [c Hc]. rewrite Hc.
  now rewrite (get_no_byte CR l H _ _ Hc).
Qed.

Lemma lines_of_line l r : no_crlf l = true -> lines_of (l ++ lf ++ r) = l :: lines_of r.
Proof.
  unfold no_crlf. intros H. apply andb_true_iff in H as [H1 H2].
  unfold lines_of, lf. change (String LF "" ++ r) with (String LF r).
  rewrite split_byte_line by exact H1.
  rewrite drop_last_empty_cons by apply split_byte_nonempty.
  cbn [map]. now rewrite strip_cr_id.
Qed.

Lemma lines_of_nil : lines_of "" = [].
Proof. reflexivity. Qed.

(* ---------- acceptance from a state ---------- *)
Definition accepts (st : sstate) (s : string) : Prop :=
  exists r, sfold st (lines_of s) = Some r /\ sfinal r = true.

Definition Acc (P : sstate -> Prop) (s : string) : Prop := forall st, P st -> accepts st s.

Lemma Acc_line (P Q : sstate -> Prop) line rest :
  no_crlf line = true ->
  (forall st, P st -> exists st', sstep st line = Some st' /\ Q st') ->
  Acc Q rest -> Acc P (line ++ lf ++ rest).
Proof.
  intros Hl Hs Hq st Hp. destruct (Hs st Hp) as (st' & E & Hq').
  destruct (Hq st' Hq') as (r & Hr & Hf). exists r. split; [|exact Hf].
  rewrite lines_of_line by exact Hl. cbn [sfold]. now rewrite E.
Qed.

Lemma Acc_nil (P : sstate -> Prop) : (forall st, P st -> sfinal st = true) -> Acc P "".
Proof. intros H st Hp. exists st. split; [reflexivity|auto]. Qed.

Lemma Acc_weaken (P Q : sstate -> Prop) s : (forall st, P st -> Q st) -> Acc Q s -> Acc P s.
Proof. intros H Hq st Hp. apply Hq, H, Hp. Qed.

(* ---------- sstep on the kinds of line ---------- *)
Lemma has_prefix_app_l p a b : has_prefix p a = true -> has_prefix p (a ++ b) = true.
Proof.
  revert a; induction p as [|x p IH]; intros a H; [reflexivity|].
  destruct a as [|y a]; [discriminate|]. simpl in *. apply andb_true_iff in H as [E H].
  now rewrite E, IH.
Qed.

Lemma has_prefix_cons a p b s : has_prefix (String a p) (String b s) = Ascii.eqb a b && has_prefix p s.
Proof. reflexivity. Qed.

(* "#" ++ name ++ ":" ++ value *)
Lemma sstep_tag_value st name v :
  s_prev_si st = false -> has_prefix "EXT" name = true -> no_byte ":" name = true ->
  sstep st (String "#" (name ++ String ":" v)) = tag_step st name (Some v).
Proof.
  intros Hp Hn Hc. unfold sstep. rewrite Hp. cbn [andb].
  assert (Hw : trim_ws (String "#" (name ++ String ":" v)) = false) by reflexivity.
  rewrite Hw. change (Ascii.eqb "#" "#") with true. cbn [negb].
  assert (Hx : has_prefix "#EXT" (String "#" (name ++ String ":" v)) = true).
  { change "#EXT" with (String "#" "EXT"). rewrite has_prefix_cons, Ascii.eqb_refl. cbn [andb].
    now apply has_prefix_app_l. }
  rewrite Hx. cbn [negb]. unfold split_tag.
  rewrite index_byte_app_sep by exact Hc. rewrite take_app_exact, drop_app_S. reflexivity.
Qed.

(* "#" ++ name *)
Lemma sstep_tag_plain st name :
  s_prev_si st = false -> has_prefix "EXT" name = true -> no_byte ":" name = true ->
  sstep st (String "#" name) = tag_step st name None.
Proof.
  intros Hp Hn Hc. unfold sstep. rewrite Hp. cbn [andb].
  assert (Hw : trim_ws (String "#" name) = false) by reflexivity.
  rewrite Hw. change (Ascii.eqb "#" "#") with true. cbn [negb].
  assert (Hx : has_prefix "#EXT" (String "#" name) = true).
  { change "#EXT" with (String "#" "EXT"). rewrite has_prefix_cons, Ascii.eqb_refl. exact Hn. }
  rewrite Hx. cbn [negb]. unfold split_tag. now rewrite index_byte_none.
Qed.

Lemma sstep_blank st : s_prev_si st = false -> sstep st "" = Some st.
Proof. intros H. unfold sstep. now rewrite H. Qed.

Lemma uri_not_ws u : uri_strict u = true -> u <> "" -> trim_ws u = false.
Proof.
  unfold uri_strict, trim_ws. intros H Hn. apply negb_true_iff in H. apply negb_false_iff.
  destruct u as [|c r]; [congruence|]. cbn [has_char] in *.
  apply orb_false_iff in H as [Hc _]. apply orb_false_iff in Hc as [Hc _]. now rewrite Hc.
Qed.

Lemma sstep_uri st u : uri_line_ok u = true -> uri_strict u = true -> sstep st u = Some (uri_update st).
Proof.
  intros Hu Hs. destruct (uri_line_facts _ Hu) as (_ & c & r & -> & Hc).
  pose proof (uri_not_ws _ Hs ltac:(discriminate)) as Hw.
  unfold sstep. rewrite Hc, Hw. cbn [negb andb]. rewrite andb_false_r.
  unfold uri_strict in Hs. apply negb_true_iff in Hs. now rewrite Hs.
Qed.

(* ---------- the invariant of the recogniser's state ---------- *)
Record st_inv (seen pend : list string) (e td si smedia smulti : bool) (st : sstate) : Prop := {
  i_seen : forall x, mem_str x (s_seen st) = true -> In x seen;
  i_pend : forall x, mem_str x (s_pending st) = true -> In x pend;
  i_e : mem_str "EXTINF" (s_pending st) = e;
  i_td : s_has_td st = td;
  i_si : s_prev_si st = si;
  i_media : s_saw_media st = smedia;
  i_multi : s_saw_multi st = smulti;
  i_hex : s_hex_var st = false;
  i_uri_e : smulti = false -> s_uri_extinf st = true;
  i_uri_s : smedia = false -> s_uri_si st = true
}.

Lemma st_inv_0 : st_inv [] [] false false false false false sstate0.
Proof. constructor; simpl; auto; discriminate. Qed.

Lemma st_inv_weaken seen pend seen' pend' e td si sm su st :
  incl seen seen' -> incl pend pend' ->
  st_inv seen pend e td si sm su st -> st_inv seen' pend' e td si sm su st.
Proof. intros H1 H2 [A B C D E F G H I J]. constructor; auto. Qed.

Lemma not_mem (l : list string) x : (forall y, mem_str y l = true -> In y l) -> ~ In x l -> mem_str x l = false.
Proof. intros H N. destruct (mem_str x l) eqn:E; auto. exfalso. auto. Qed.

Lemma mem_str_cons x y l : mem_str x (y :: l) = String.eqb y x || mem_str x l.
Proof. reflexivity. Qed.

(* an accepted tag line moves the invariant *)
Lemma inv_tag seen pend e td smedia smulti st name v :
  st_inv seen pend e td false smedia smulti st ->
  tag_spec name = Some (spec_of name) -> String.eqb name "EXTM3U" = false ->
  (t_once (spec_of name) = true -> ~ In name seen) ->
  (t_perseg (spec_of name) = true -> ~ In name pend) ->
  value_ok name (spec_of name) v = (true, false) ->
  exists st', tag_step st name v = Some st'
    /\ st_inv (if t_once (spec_of name) then name :: seen else seen)
              (if t_perseg (spec_of name) then name :: pend else pend)
              (if t_perseg (spec_of name) then String.eqb name "EXTINF" || e else e)
              (td || String.eqb name "EXT-X-TARGETDURATION")
              (String.eqb name "EXT-X-STREAM-INF")
              (smedia || is_media_class (t_class (spec_of name)))
              (smulti || is_multi_class (t_class (spec_of name))) st'.
Proof.
  intros [A B C D E F G H I J] Hs Hn Ho Hp Hv.
  eexists. split.
  - apply tag_step_ok; auto.
    + destruct (t_once (spec_of name)); [|reflexivity]. cbn [andb].
      destruct (mem_str name (s_seen st)) eqn:M; auto. exfalso. apply (Ho eq_refl), A, M.
    + destruct (t_perseg (spec_of name)); [|reflexivity]. cbn [andb].
      destruct (mem_str name (s_pending st)) eqn:M; auto. exfalso. apply (Hp eq_refl), B, M.
  - constructor; cbn [tag_update s_seen s_pending s_part_since s_prev_si s_has_td s_saw_media s_saw_multi
                      s_saw_define s_hex_var s_uri_extinf s_uri_si].
    + destruct (t_once (spec_of name)); [|exact A]. intros x Hx. rewrite mem_str_cons in Hx.
      apply orb_true_iff in Hx as [Hx|Hx]; [apply String.eqb_eq in Hx; left; auto|right; auto].
    + destruct (t_perseg (spec_of name)); [|exact B]. intros x Hx. rewrite mem_str_cons in Hx.
      apply orb_true_iff in Hx as [Hx|Hx]; [apply String.eqb_eq in Hx; left; auto|right; auto].
    + destruct (t_perseg (spec_of name)); [|exact C]. rewrite mem_str_cons. now rewrite C.
    + now rewrite D.
    + reflexivity.
    + now rewrite F.
    + now rewrite G.
    + now rewrite H.
    + intros Hm. apply orb_false_iff in Hm as [Hm _]. auto.
    + intros Hm. apply orb_false_iff in Hm as [Hm _]. auto.
Qed.

(* a URI line *)
Lemma inv_uri seen pend e td si smedia smulti st :
  st_inv seen pend e td si smedia smulti st ->
  (smulti = false -> e = true) -> (smedia = false -> si = true) ->
  st_inv seen [] false td false smedia smulti (uri_update st).
Proof.
  intros [A B C D E F G H I J] He Hsi.
  constructor; cbn [uri_update s_seen s_pending s_part_since s_prev_si s_has_td s_saw_media s_saw_multi
                    s_saw_define s_hex_var s_uri_extinf s_uri_si mem_str]; auto; try discriminate.
  - intros Hm. rewrite (I Hm), C, (He Hm). reflexivity.
  - intros Hm. rewrite (J Hm), E, (Hsi Hm). reflexivity.
Qed.
