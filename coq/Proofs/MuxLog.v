(* C01, fMP4 variants: conservation of samples.
   The log of a stream is every sample it has emitted - the parts of its evicted, listed and open
   segments, in order - followed by the samples buffered for the part being built.  We prove that
   no rotation (of parts or of segments, of this stream or of another) changes any stream's log,
   that muxerPart.writeSample appends exactly the sample it is given to exactly one log, and hence
   (MuxLogStep.v) that a write of a unit appends exactly the look-ahead unit, with its duration set
   to the difference of the decode times, and nothing else: none lost, duplicated, reordered or
   invented. *)
From Coq Require Import List ZArith Bool Lia Arith.
From GoHls Require Import Model.Mux Proofs.MuxStream Proofs.MuxLift Proofs.MuxWindow Proofs.MuxHistory Proofs.MuxTimes.
Import ListNotations.
Local Open Scope Z_scope.

Definition seg_samples (g : segrec) : list sample := flat_map p_samples (sg_parts g).

Definition stream_emitted (s : stream) : list sample :=
  flat_map seg_samples (published s) ++ match st_open s with Some g => seg_samples g | None => [] end.

Definition buffered (tracks : list trk) (s : stream) : list sample :=
  match st_tracks s with
  | ti :: _ => match nth_error tracks ti with
               | Some t => match tk_samples t with Some l => l | None => [] end
               | None => [] end
  | [] => []
  end.

Definition slog (m : mstate) (j : nat) : list sample :=
  match nth_error (m_streams m) j with
  | Some s => stream_emitted s ++ buffered (m_tracks m) s
  | None => []
  end.

(* ---- the structural invariant of fMP4 / Low-Latency muxer states ---- *)
Record LI (m : mstate) : Prop := {
  li_variant : c_variant (m_cfg m) <> MPEGTS;
  li_streams : forall j s, nth_error (m_streams m) j = Some s -> st_tracks s = [j];
  li_tracks : forall i t, nth_error (m_tracks m) i = Some t -> tk_stream t = i;
  li_sync : (forall s, In s (m_streams m) -> st_open s = None)
            \/ (forall s, In s (m_streams m) -> st_open s <> None);
  li_part : forall s, In s (m_streams m) -> st_open s <> None -> st_openpart s <> None;
  li_len : length (m_streams m) = length (m_tracks m)
}.

(* ---- small list facts ---- *)
Lemma In_upd {A} (l : list A) i f y :
  In y (upd l i f) -> In y l \/ exists x, nth_error l i = Some x /\ y = f x.
Proof.
  revert i. induction l as [|x l IH]; intros [|i] H; simpl in *; auto.
  - destruct H as [<-|H]; [right; exists x; auto|auto].
  - destruct H as [<-|H]; [auto|]. destruct (IH i H) as [H1|H1]; auto.
Qed.

Lemma flat_map_app {A B} (f : A -> list B) l1 l2 : flat_map f (l1 ++ l2) = flat_map f l1 ++ flat_map f l2.
Proof. induction l1; simpl; auto. now rewrite IHl1, app_assoc. Qed.

Lemma flat_map_gaps d n : flat_map seg_samples (repeat (mkgap d) n) = [].
Proof. induction n; simpl; auto. Qed.

(* ---- the emitted samples of one stream through its own rotations ---- *)
Lemma emitted_srot_parts v s seg p d cn :
  st_open s = Some seg ->
  stream_emitted (fst (srot_parts v s seg p d cn)) = stream_emitted s ++ p_samples p.
Proof.
  intros Ho. destruct (srot_parts_frame v s seg p d cn) as (F1 & F2 & _ & _ & _ & _ & _ & F8 & _).
  unfold stream_emitted, published. rewrite F1, F2, F8, Ho.
  unfold seg_samples. cbn [sg_with_parts sg_parts]. rewrite (flat_map_app p_samples). simpl.
  now rewrite app_nil_r, !app_assoc.
Qed.

Lemma emitted_srot_segments v sc s seg0 d ntp f cur :
  st_open s = Some seg0 ->
  stream_emitted (fst (fst (srot_segments v sc s seg0 d ntp f cur))) = stream_emitted s.
Proof.
  intros Ho. pose proof (published_srot_segments v sc s seg0 d ntp f cur) as HP. cbv zeta in HP.
  destruct (srot_segments_frame v sc s seg0 d ntp f cur) as (_ & _ & _ & _ & _ & F6 & _).
  unfold stream_emitted. rewrite HP, F6, Ho. cbn [new_seg seg_samples sg_parts flat_map]. rewrite app_nil_r.
  unfold published, with_gaps.
  assert (Hs : seg_samples (sg_with_end seg0 d) = seg_samples seg0) by reflexivity.
  destruct v; [| |destruct (st_segments s)]; rewrite ?flat_map_app, ?flat_map_gaps; simpl;
    rewrite ?app_nil_r, ?Hs, <- ?app_assoc; reflexivity.
Qed.

(* ---- what stream_rotateParts does to streams and tracks ---- *)
Lemma rotp_spec m si d cn :
  (m_streams (stream_rotateParts m si d cn) = m_streams m /\ m_tracks (stream_rotateParts m si d cn) = m_tracks m)
  \/ exists s seg p0,
       nth_error (m_streams m) si = Some s /\ st_open s = Some seg /\ st_openpart s = Some p0 /\
       let pf := part_finalize p0 (m_tracks m) (st_tracks s) d in
       m_streams (stream_rotateParts m si d cn) =
         upd (m_streams m) si (fun _ => fst (srot_parts (c_variant (m_cfg m)) s seg (fst pf) d cn))
       /\ m_tracks (stream_rotateParts m si d cn) = snd pf.
Proof.
  unfold stream_rotateParts.
  destruct (nth_error (m_streams m) si) as [s|] eqn:Es; [|left; auto].
  destruct (st_openpart s) as [p0|] eqn:Ep; [|left; auto].
  destruct (st_open s) as [seg|] eqn:Eo; [|left; auto].
  right. exists s, seg, p0. repeat split; auto; cbv zeta;
  destruct (part_finalize p0 (m_tracks m) (st_tracks s) d) as [p tracks'] eqn:Ef; cbn [fst snd];
  destruct (srot_parts (c_variant (m_cfg m)) s seg p d cn) as [s' bump] eqn:Er; cbn [fst];
  destruct bump; reflexivity.
Qed.

Lemma part_finalize_linked p0 tracks s si d :
  st_tracks s = [si] ->
  let pf := part_finalize p0 tracks (st_tracks s) d in
  p_samples (fst pf) = buffered tracks s
  /\ (forall s', st_tracks s' = [si] -> buffered (snd pf) s' = [])
  /\ (forall j, j <> si -> nth_error (snd pf) j = nth_error tracks j)
  /\ map tk_static (snd pf) = map tk_static tracks.
Proof.
  intros Ht. cbv zeta. unfold part_finalize, buffered. rewrite Ht.
  destruct (nth_error tracks si) as [t|] eqn:Et; cbn [fst snd].
  - destruct (tk_samples t) as [ss|] eqn:Es; cbn [fst snd p_samples].
    + split; [reflexivity|]. split; [|split].
      * intros s' Hs'. rewrite Hs'. rewrite (nth_error_upd_same tracks si _ t Et). reflexivity.
      * intros j Hj. apply nth_error_upd_other. congruence.
      * apply map_upd_static. intros x. reflexivity.
    + split; [reflexivity|]. split; [|split; auto].
      intros s' Hs'. rewrite Hs', Et, Es. reflexivity.
  - split; [reflexivity|]. split; [|split; auto]. intros s' Hs'. now rewrite Hs', Et.
Qed.

Definition Linked (m : mstate) : Prop := forall j s, nth_error (m_streams m) j = Some s -> st_tracks s = [j].

Lemma buffered_other tracks tracks' s j :
  st_tracks s = [j] -> nth_error tracks' j = nth_error tracks j -> buffered tracks' s = buffered tracks s.
Proof. intros Ht E. unfold buffered. now rewrite Ht, E. Qed.

Lemma srot_parts_tracks v s seg p d cn : st_tracks (fst (srot_parts v s seg p d cn)) = st_tracks s.
Proof. destruct (srot_parts_static v s seg p d cn) as [x ->]. reflexivity. Qed.

Lemma srot_segments_tracks v sc s seg0 d ntp f cur :
  st_tracks (fst (fst (srot_segments v sc s seg0 d ntp f cur))) = st_tracks s.
Proof. destruct (srot_segments_static v sc s seg0 d ntp f cur) as [x ->]. reflexivity. Qed.

Lemma slog_rotp m si d cn j : Linked m -> slog (stream_rotateParts m si d cn) j = slog m j.
Proof.
  intros HL. unfold slog.
  destruct (rotp_spec m si d cn) as [[E1 E2]|(s & seg & p0 & Es & Eo & Ep & E1 & E2)].
  - now rewrite E1, E2.
  - cbv zeta in E1, E2. rewrite E1, E2.
    pose proof (HL si s Es) as Hts.
    destruct (part_finalize_linked p0 (m_tracks m) s si d Hts) as (P1 & P2 & P3 & _). cbv zeta in P1, P2, P3.
    destruct (Nat.eq_dec si j) as [->|Hne].
    + rewrite (nth_error_upd_same _ j _ s Es), Es.
      rewrite emitted_srot_parts by exact Eo. rewrite P1.
      rewrite P2 by (rewrite srot_parts_tracks; exact Hts). now rewrite app_nil_r.
    + rewrite nth_error_upd_other by exact Hne.
      destruct (nth_error (m_streams m) j) as [sj|] eqn:Ej; [|reflexivity].
      f_equal. apply (buffered_other _ _ sj j (HL j sj Ej)). apply P3. congruence.
Qed.

Lemma Linked_rotp m si d cn : Linked m -> Linked (stream_rotateParts m si d cn).
Proof.
  intros HL j sj. destruct (rotp_spec m si d cn) as [[E1 _]|(s & seg & p0 & Es & _ & _ & E1 & _)]; cbv zeta in E1; rewrite E1.
  - apply HL.
  - destruct (Nat.eq_dec si j) as [->|Hne].
    + rewrite (nth_error_upd_same _ j _ s Es). intros [= <-]. rewrite srot_parts_tracks. now apply HL.
    + rewrite nth_error_upd_other by exact Hne. apply HL.
Qed.

(* ---- stream_rotateSegments ---- *)
Lemma rots_spec m0 si d ntp f :
  let v := c_variant (m_cfg m0) in
  let m := match v with MPEGTS => m0 | _ => stream_rotateParts m0 si d false end in
  (m_streams (stream_rotateSegments m0 si d ntp f) = m_streams m
   \/ exists s seg0 cur,
        nth_error (m_streams m) si = Some s /\ st_open s = Some seg0 /\
        m_streams (stream_rotateSegments m0 si d ntp f) =
        upd (m_streams m) si (fun _ => fst (fst (srot_segments v (c_segcount (m_cfg m0)) s seg0 d ntp f cur))))
  /\ m_tracks (stream_rotateSegments m0 si d ntp f) = m_tracks m.
Proof.
  cbv zeta. split; [apply stream_rotateSegments_streams|].
  unfold stream_rotateSegments.
  set (m := match c_variant (m_cfg m0) with MPEGTS => m0 | _ => stream_rotateParts m0 si d false end).
  destruct (nth_error (m_streams m) si) as [s|]; [|reflexivity].
  destruct (st_open s) as [seg0|]; [|reflexivity].
  match goal with |- context [srot_segments ?a ?b ?c ?dd ?e ?ff ?g ?h] =>
    destruct (srot_segments a b c dd e ff g h) as [[s' regen] bump] end.
  destruct bump; reflexivity.
Qed.

Lemma slog_rots m si d ntp f j : Linked m -> slog (stream_rotateSegments m si d ntp f) j = slog m j.
Proof.
  intros HL. pose proof (rots_spec m si d ntp f) as [HS HT]. cbv zeta in HS, HT.
  set (m1 := match c_variant (m_cfg m) with MPEGTS => m | _ => stream_rotateParts m si d false end) in *.
  assert (H1 : slog m1 j = slog m j /\ Linked m1).
  { subst m1. destruct (c_variant (m_cfg m)); auto using slog_rotp, Linked_rotp. }
  destruct H1 as [H1 HL1]. rewrite <- H1. unfold slog. rewrite HT.
  destruct HS as [->|(s & seg0 & cur & Es & Eo & ->)]; [reflexivity|].
  destruct (Nat.eq_dec si j) as [->|Hne].
  - rewrite (nth_error_upd_same _ j _ s Es), Es. rewrite emitted_srot_segments by exact Eo.
    f_equal. unfold buffered. now rewrite srot_segments_tracks.
  - now rewrite nth_error_upd_other by exact Hne.
Qed.

Lemma Linked_rots m si d ntp f : Linked m -> Linked (stream_rotateSegments m si d ntp f).
Proof.
  intros HL. pose proof (rots_spec m si d ntp f) as [HS _]. cbv zeta in HS.
  set (m1 := match c_variant (m_cfg m) with MPEGTS => m | _ => stream_rotateParts m si d false end) in *.
  assert (HL1 : Linked m1) by (subst m1; destruct (c_variant (m_cfg m)); auto using Linked_rotp).
  intros j sj. destruct HS as [->|(s & seg0 & cur & Es & Eo & ->)]; [apply HL1|].
  destruct (Nat.eq_dec si j) as [->|Hne].
  - rewrite (nth_error_upd_same _ j _ s Es). intros [= <-]. rewrite srot_segments_tracks. now apply HL1.
  - rewrite nth_error_upd_other by exact Hne. apply HL1.
Qed.

(* ---- the other primitives ---- *)
Lemma slog_ext m m' j :
  m_streams m' = m_streams m -> map tk_samples (m_tracks m') = map tk_samples (m_tracks m) -> slog m' j = slog m j.
Proof.
  intros E1 E2. unfold slog. rewrite E1. destruct (nth_error (m_streams m) j) as [s|]; [|reflexivity].
  f_equal. unfold buffered. destruct (st_tracks s) as [|ti _]; [reflexivity|].
  assert (H : option_map tk_samples (nth_error (m_tracks m') ti) = option_map tk_samples (nth_error (m_tracks m) ti)).
  { rewrite <- !nth_error_map, E2. reflexivity. }
  destruct (nth_error (m_tracks m') ti), (nth_error (m_tracks m) ti); simpl in H; try congruence.
  now injection H as ->.
Qed.

Lemma emitted_st_with s x :
  x_segments x = st_segments s -> x_evicted x = st_evicted s ->
  (match x_open x with Some g => seg_samples g | None => [] end)
  = (match st_open s with Some g => seg_samples g | None => [] end) ->
  stream_emitted (st_with s x) = stream_emitted s.
Proof.
  intros E1 E2 E3. unfold stream_emitted, published. cbn [st_with st_evicted st_segments st_open].
  now rewrite E1, E2, E3.
Qed.

Lemma slog_upd_stream m i f j :
  (forall s, stream_emitted (f s) = stream_emitted s /\ st_tracks (f s) = st_tracks s) ->
  slog (upd_stream m i f) j = slog m j.
Proof.
  intros Hf. unfold slog, upd_stream. cbn [set_stream m_streams m_tracks].
  destruct (Nat.eq_dec i j) as [->|Hne].
  - destruct (nth_error (m_streams m) j) as [s|] eqn:Es.
    + rewrite (nth_error_upd_same _ j f s Es). destruct (Hf s) as [H1 H2]. unfold buffered. now rewrite H1, H2.
    + assert (H : nth_error (upd (m_streams m) j f) j = None).
      { apply nth_error_None. rewrite upd_length. now apply nth_error_None. }
      now rewrite H.
  - now rewrite nth_error_upd_other by exact Hne.
Qed.

Lemma slog_copy m i (l : stream) (both : bool) j : slog (upd_stream m i (copy_targets both l)) j = slog m j.
Proof.
  apply slog_upd_stream. intros s. unfold copy_targets. destruct (st_leading s); [auto|].
  split; [apply emitted_st_with; reflexivity|reflexivity].
Qed.

Lemma slog_create m d ntp j :
  (forall s, In s (m_streams m) -> st_open s = None) ->
  slog (createFirstSegment m d ntp) j = slog m j.
Proof.
  intros Hn. unfold slog, createFirstSegment. cbn [set_stream m_streams m_tracks].
  rewrite nth_error_map. destruct (nth_error (m_streams m) j) as [s|] eqn:Es; [|reflexivity]. cbn [option_map].
  assert (Ho : st_open s = None) by (apply Hn; eapply nth_error_In; eauto).
  f_equal. unfold stream_createFirst. apply emitted_st_with; try reflexivity. cbn [x_open st_mut]. now rewrite Ho.
Qed.

Lemma slog_ts m si u size e inc j : slog (fst (ts_write m si u size e inc)) j = slog m j.
Proof.
  unfold ts_write.
  destruct (nth_error (m_streams m) si) as [s|] eqn:Es; [|reflexivity].
  destruct (st_open s) as [seg|] eqn:Eo; [|reflexivity].
  destruct (_ <? _); [reflexivity|]. cbn [fst wok].
  unfold slog, upd_stream. cbn [set_stream m_streams m_tracks].
  destruct (Nat.eq_dec si j) as [->|Hne].
  - rewrite (nth_error_upd_same _ j _ s Es), Es. f_equal.
    apply emitted_st_with; try reflexivity. cbn [x_open st_mut]. now rewrite Eo.
  - now rewrite nth_error_upd_other by exact Hne.
Qed.

(* muxerPart.writeSample appends exactly [smp] to exactly the log of stream [ti] *)
Lemma slog_pws m ti smp m' :
  Linked m -> (forall s, In s (m_streams m) -> st_open s <> None -> st_openpart s <> None) ->
  part_writeSample m ti ti smp = Ok m' ->
  forall j,
  slog m' j = if Nat.eqb j ti
              then match nth_error (m_streams m) ti, nth_error (m_tracks m) ti with
                   | Some s, Some _ => match st_open s with Some _ => slog m j ++ [smp] | None => slog m j end
                   | _, _ => slog m j
                   end
              else slog m j.
Proof.
  intros HL HP. unfold part_writeSample.
  destruct (nth_error (m_streams m) ti) as [s|] eqn:Es.
  2:{ intros [= <-] j. now destruct (Nat.eqb j ti). }
  destruct (nth_error (m_tracks m) ti) as [t|] eqn:Et.
  2:{ intros [= <-] j. now destruct (Nat.eqb j ti). }
  destruct (st_open s) as [seg|] eqn:Eo.
  2:{ intros [= <-] j. now destruct (Nat.eqb j ti). }
  destruct (st_openpart s) as [p|] eqn:Ep.
  2:{ exfalso. apply (HP s); [eapply nth_error_In; eauto|congruence|exact Ep]. }
  destruct (_ <? _); [discriminate|]. intros [= <-] j.
  unfold slog, upd_stream, upd_track. cbn [set_stream set_tracks m_streams m_tracks].
  pose proof (HL ti s Es) as Hts.
  destruct (Nat.eqb_spec j ti) as [->|Hne].
  - rewrite (nth_error_upd_same _ ti _ s Es), Es.
    rewrite emitted_st_with; [|reflexivity|reflexivity|cbn [x_open]; rewrite Eo; reflexivity].
    rewrite <- app_assoc. f_equal.
    unfold buffered. cbn [st_with st_tracks]. rewrite Hts.
    rewrite (nth_error_upd_same _ ti _ t Et), Et. cbn [tk_with tk_samples].
    now destruct (tk_samples t).
  - rewrite nth_error_upd_other by congruence.
    destruct (nth_error (m_streams m) j) as [sj|] eqn:Ej; [|reflexivity]. f_equal.
    apply (buffered_other _ _ sj j (HL j sj Ej)). apply nth_error_upd_other. congruence.
Qed.

(* ================================================================================================
   The structural invariant LI is kept by every primitive operation.
   ================================================================================================ *)
Definition okpart (v : variant) (s : stream) : Prop := v <> MPEGTS -> st_open s <> None -> st_openpart s <> None.

Definition Keep (v : variant) (s s' : stream) : Prop :=
  st_tracks s' = st_tracks s /\ (st_open s = None <-> st_open s' = None) /\ (okpart v s -> okpart v s').

Lemma Keep_refl v s : Keep v s s.
Proof. repeat split; auto. Qed.

Lemma Forall2_upd_const {A} (Q : A -> A -> Prop) l i s s' :
  (forall x, Q x x) -> nth_error l i = Some s -> Q s s' -> Forall2 Q l (upd l i (fun _ => s')).
Proof.
  intros Hr. revert i. induction l as [|x l IH]; intros [|i] Hn Hq; simpl in *; try discriminate.
  - injection Hn as ->. constructor; [exact Hq|]. clear IH. induction l; constructor; auto.
  - constructor; auto.
Qed.

Lemma Forall2_upd_fun {A} (Q : A -> A -> Prop) l i f :
  (forall x, Q x x) -> (forall x, Q x (f x)) -> Forall2 Q l (upd l i f).
Proof.
  intros Hr Hf. revert i. induction l as [|x l IH]; intros [|i]; simpl; constructor; auto.
  clear IH. induction l; constructor; auto.
Qed.

Lemma Forall2_nth {A} (Q : A -> A -> Prop) l l' : Forall2 Q l l' ->
  forall j y, nth_error l' j = Some y -> exists x, nth_error l j = Some x /\ Q x y.
Proof.
  induction 1 as [|a b l l' Hab HF IH]; intros [|j] y Hy; simpl in *; try discriminate.
  - injection Hy as <-. eauto.
  - now apply IH.
Qed.

Lemma Forall2_In_r {A} (Q : A -> A -> Prop) l l' : Forall2 Q l l' ->
  forall y, In y l' -> exists x, In x l /\ Q x y.
Proof.
  induction 1 as [|a b l l' Hab HF IH]; intros y Hy; simpl in *; [destruct Hy|].
  destruct Hy as [<-|Hy]; [eauto|]. destruct (IH y Hy) as (x & Hx & Hq). eauto.
Qed.

Lemma Forall2_In_l {A} (Q : A -> A -> Prop) l l' : Forall2 Q l l' ->
  forall x, In x l -> exists y, In y l' /\ Q x y.
Proof.
  induction 1 as [|a b l l' Hab HF IH]; intros x Hx; simpl in *; [destruct Hx|].
  destruct Hx as [<-|Hx]; [eauto|]. destruct (IH x Hx) as (y & Hy & Hq). eauto.
Qed.

Lemma Forall2_len {A} (Q : A -> A -> Prop) l l' : Forall2 Q l l' -> length l = length l'.
Proof. induction 1; simpl; auto. Qed.

Lemma LI_pointwise m m' :
  m_cfg m' = m_cfg m -> map tk_stream (m_tracks m') = map tk_stream (m_tracks m) ->
  Forall2 (Keep (c_variant (m_cfg m))) (m_streams m) (m_streams m') ->
  LI m -> LI m'.
Proof.
  intros Ec Et HF [L1 L2 L3 L4 L5 L6]. constructor.
  - now rewrite Ec.
  - intros j s' Hs'. destruct (Forall2_nth _ _ _ HF j s' Hs') as (s & Hs & K1 & _). rewrite K1. now apply L2.
  - intros i t' Ht'.
    assert (H : option_map tk_stream (nth_error (m_tracks m') i) = option_map tk_stream (nth_error (m_tracks m) i))
      by (rewrite <- !nth_error_map, Et; reflexivity).
    rewrite Ht' in H. simpl in H. destruct (nth_error (m_tracks m) i) as [t|] eqn:E; simpl in H; [|discriminate].
    injection H as ->. now apply L3.
  - destruct L4 as [L4|L4]; [left|right]; intros s' Hs';
      destruct (Forall2_In_r _ _ _ HF s' Hs') as (s & Hs & _ & K2 & _); specialize (L4 s Hs); tauto.
  - intros s' Hs' Ho. destruct (Forall2_In_r _ _ _ HF s' Hs') as (s & Hs & _ & _ & K3).
    apply K3; auto. intros _. now apply L5.
  - rewrite <- (Forall2_len _ _ _ HF), L6, <- (map_length tk_stream (m_tracks m)), <- Et. now rewrite map_length.
Qed.

Lemma LI_ext m m' :
  m_cfg m' = m_cfg m -> m_streams m' = m_streams m ->
  map tk_stream (m_tracks m') = map tk_stream (m_tracks m) -> LI m -> LI m'.
Proof.
  intros Ec Es Et. apply LI_pointwise; auto. rewrite Es.
  clear. induction (m_streams m); constructor; auto using Keep_refl.
Qed.

Lemma tk_stream_of_static l l' : map tk_static l' = map tk_static l -> map tk_stream l' = map tk_stream l.
Proof.
  intros H. assert (E : map (fun t => snd (tk_static t)) l' = map (fun t => snd (tk_static t)) l).
  { rewrite <- !(map_map tk_static snd). now rewrite H. }
  exact E.
Qed.

Lemma tk_stream_of_frame l l' : map tk_frame l' = map tk_frame l -> map tk_stream l' = map tk_stream l.
Proof.
  intros H. assert (E : map (fun t => snd (fst (fst (tk_frame t)))) l' = map (fun t => snd (fst (fst (tk_frame t)))) l).
  { rewrite <- !(map_map tk_frame (fun x => snd (fst (fst x)))). now rewrite H. }
  exact E.
Qed.

Lemma LI_rotp m si d : LI m -> LI (stream_rotateParts m si d true).
Proof.
  intros HL. pose proof HL as [L1 L2 L3 L4 L5 L6].
  destruct (rotp_spec m si d true) as [[E1 E2]|(s & seg & p0 & Es & Eo & Ep & E1 & E2)].
  - apply (LI_ext m); auto using cfg_stream_rotateParts. now rewrite E2.
  - cbv zeta in E1, E2. apply (LI_pointwise m); [apply cfg_stream_rotateParts| | |exact HL].
    + rewrite E2. apply tk_stream_of_static.
      destruct (part_finalize_linked p0 (m_tracks m) s si d (L2 si s Es)) as (_ & _ & _ & P4). exact P4.
    + rewrite E1. apply Forall2_upd_const with (s := s); auto using Keep_refl.
      destruct (srot_parts_frame (c_variant (m_cfg m)) s seg (fst (part_finalize p0 (m_tracks m) (st_tracks s) d)) d true)
        as (_ & _ & _ & _ & _ & _ & _ & F8 & F9).
      split; [apply srot_parts_tracks|]. split; [rewrite F8, Eo; split; discriminate|].
      intros _ _ _. rewrite F9. discriminate.
Qed.

(* ---- stream_rotateSegments, fMP4 variants, by cases on the rotated stream ---- *)
Lemma if_add_err (b : bool) x :
  m_streams (if b then add_err x else x) = m_streams x /\ m_tracks (if b then add_err x else x) = m_tracks x
  /\ m_cfg (if b then add_err x else x) = m_cfg x.
Proof. destruct b; auto. Qed.

Lemma rots_cases m si d ntp f :
  c_variant (m_cfg m) <> MPEGTS ->
  (forall s, nth_error (m_streams m) si = Some s -> st_open s <> None -> st_openpart s <> None) ->
  let r := stream_rotateSegments m si d ntp f in
  (m_streams r = m_streams m /\ m_tracks r = m_tracks m)
  \/ exists s seg p0 s2,
       nth_error (m_streams m) si = Some s /\ st_open s = Some seg /\ st_openpart s = Some p0 /\
       m_streams r = upd (m_streams m) si (fun _ => s2) /\
       m_tracks r = snd (part_finalize p0 (m_tracks m) (st_tracks s) d) /\
       st_tracks s2 = st_tracks s /\ st_open s2 <> None /\ st_openpart s2 <> None /\
       exists cur,
         let pf := part_finalize p0 (m_tracks m) (st_tracks s) d in
         s2 = fst (fst (srot_segments (c_variant (m_cfg m)) (c_segcount (m_cfg m))
                          (fst (srot_parts (c_variant (m_cfg m)) s seg (fst pf) d false))
                          (sg_with_parts seg (sg_parts seg ++ [fst pf])) d ntp f cur)).
Proof.
  intros Hv Hok. cbv zeta. unfold stream_rotateSegments.
  assert (Em1 : (match c_variant (m_cfg m) with MPEGTS => m | _ => stream_rotateParts m si d false end)
                = stream_rotateParts m si d false) by (destruct (c_variant (m_cfg m)); congruence).
  rewrite Em1. clear Em1.
  destruct (rotp_spec m si d false) as [[E1 E2]|(s & seg & p0 & Es & Eo & Ep & E1 & E2)]; cbv zeta in E1, E2.
  - (* the part rotation did nothing: the stream is absent or not open *)
    rewrite E1.
    destruct (nth_error (m_streams m) si) as [s|] eqn:Es; [|left; auto].
    destruct (st_open s) as [seg0|] eqn:Eo; [|left; auto].
    exfalso.
    (* open with an open part: the part rotation would have happened *)
    assert (Hp : st_openpart s <> None) by (apply Hok; congruence).
    destruct (st_openpart s) as [p0|] eqn:Ep; [|congruence].
    unfold stream_rotateParts in E1. rewrite Es, Ep, Eo in E1.
    destruct (part_finalize p0 (m_tracks m) (st_tracks s) d) as [p tracks'].
    destruct (srot_parts (c_variant (m_cfg m)) s seg0 p d false) as [s' bump] eqn:Er.
    destruct (if_add_err bump (set_paths (set_tracks (set_stream m (upd (m_streams m) si (fun _ => s'))) tracks')
                (paths_rot_parts (c_variant (m_cfg m)) (m_paths m) si (p_id p) (st_nextPart s + 1)))) as (A & _ & _).
    rewrite A in E1. cbn [set_paths set_tracks set_stream m_streams] in E1.
    assert (Hn : nth_error (upd (m_streams m) si (fun _ => s')) si = Some s')
      by apply (nth_error_upd_same _ si (fun _ => s') s Es).
    rewrite E1, Es in Hn. injection Hn as <-.
    pose proof (srot_parts_frame (c_variant (m_cfg m)) s seg0 p d false) as HF. cbv zeta in HF. rewrite Er in HF.
    cbn [fst] in HF. destruct HF as (_ & _ & _ & _ & _ & _ & F7 & _). lia.
  - (* the part rotation closed the open part; the stream is still open, so the segment rotates *)
    right.
    set (pf := part_finalize p0 (m_tracks m) (st_tracks s) d) in *.
    set (s1 := fst (srot_parts (c_variant (m_cfg m)) s seg (fst pf) d false)) in *.
    assert (Hn1 : nth_error (m_streams (stream_rotateParts m si d false)) si = Some s1)
      by (rewrite E1; apply (nth_error_upd_same _ si _ s Es)).
    destruct (srot_parts_frame (c_variant (m_cfg m)) s seg (fst pf) d false) as (_ & _ & _ & _ & _ & _ & _ & F8 & _).
    fold s1 in F8.
    rewrite Hn1, F8.
    match goal with |- context [srot_segments ?a ?b ?c ?dd ?e ?ff ?g ?h] =>
      pose proof (srot_segments_frame a b c dd e ff g h) as HF; cbv zeta in HF;
      pose proof (srot_segments_tracks a b c dd e ff g h) as HT;
      destruct (srot_segments a b c dd e ff g h) as [[s2 regen] bump] eqn:Er end.
    cbn [fst] in HF, HT. destruct HF as (_ & _ & _ & _ & _ & F6 & F7 & _).
    exists s, seg, p0, s2. repeat split; auto.
    + match goal with |- m_streams (if ?b then add_err ?x else ?x) = _ => destruct (if_add_err b x) as (A & _ & _); rewrite A end.
      cbn [set_paths set_stream m_streams]. rewrite E1. apply upd_upd_const.
    + match goal with |- m_tracks (if ?b then add_err ?x else ?x) = _ => destruct (if_add_err b x) as (_ & A & _); rewrite A end.
      cbn [set_paths set_stream m_tracks]. exact E2.
    + rewrite HT. subst s1. apply srot_parts_tracks.
    + rewrite F6. discriminate.
    + rewrite F7. destruct (c_variant (m_cfg m)); [congruence|discriminate|discriminate].
    + eexists. cbv zeta. fold pf. fold s1. rewrite cfg_stream_rotateParts in Er. rewrite Er. reflexivity.
Qed.

Lemma LI_rots m si d ntp f : LI m -> LI (stream_rotateSegments m si d ntp f).
Proof.
  intros HL. pose proof HL as [L1 L2 L3 L4 L5 L6].
  destruct (rots_cases m si d ntp f L1) as [[E1 E2]|(s & seg & p0 & s2 & Es & Eo & Ep & E1 & E2 & T2 & O2 & P2 & _)].
  - intros s Hs. apply L5. eapply nth_error_In; eauto.
  - apply (LI_ext m); auto using cfg_stream_rotateSegments. now rewrite E2.
  - apply (LI_pointwise m); [apply cfg_stream_rotateSegments| | |exact HL].
    + rewrite E2. apply tk_stream_of_static.
      destruct (part_finalize_linked p0 (m_tracks m) s si d (L2 si s Es)) as (_ & _ & _ & P4). exact P4.
    + rewrite E1. apply Forall2_upd_const with (s := s); auto using Keep_refl.
      split; [exact T2|]. split; [rewrite Eo; split; [discriminate|intros H; congruence]|].
      intros _ _ _. exact P2.
Qed.

Lemma LI_create m d ntp : LI m -> LI (createFirstSegment m d ntp).
Proof.
  intros [L1 L2 L3 L4 L5 L6]. unfold createFirstSegment. constructor; cbn [set_stream m_cfg m_streams m_tracks]; auto.
  - intros j s'. rewrite nth_error_map. destruct (nth_error (m_streams m) j) as [s|] eqn:Es; [|discriminate].
    intros [= <-]. cbn [stream_createFirst st_with st_tracks]. now apply L2.
  - right. intros s' Hs'. apply in_map_iff in Hs'. destruct Hs' as (s & <- & _). discriminate.
  - intros s' Hs' _. apply in_map_iff in Hs'. destruct Hs' as (s & <- & _).
    cbn [stream_createFirst st_with st_openpart x_openpart]. destruct (c_variant (m_cfg m)); [congruence|discriminate|discriminate].
  - now rewrite map_length.
Qed.

Lemma LI_upd_stream m i f :
  (forall s, Keep (c_variant (m_cfg m)) s (f s)) -> LI m -> LI (upd_stream m i f).
Proof.
  intros Hf HL. apply (LI_pointwise m); auto. unfold upd_stream. cbn [set_stream m_streams].
  apply Forall2_upd_fun; auto using Keep_refl.
Qed.

Lemma LI_copy m i (l : stream) (both : bool) : LI m -> LI (upd_stream m i (copy_targets both l)).
Proof.
  apply LI_upd_stream. intros s. unfold copy_targets. destruct (st_leading s); [apply Keep_refl|].
  repeat split; auto.
Qed.

Lemma LI_frame m tracks pending sdurs adj freeze errs :
  map tk_frame tracks = map tk_frame (m_tracks m) -> LI m ->
  LI {| m_cfg := m_cfg m; m_tracks := tracks; m_streams := m_streams m; m_pending := pending;
        m_sdurs := sdurs; m_adj := adj; m_freeze := freeze; m_paths := m_paths m; m_errs := errs |}.
Proof. intros Hf. apply LI_ext; auto. cbn [m_tracks]. now apply tk_stream_of_frame. Qed.

Lemma upd_ext_at {A} (l : list A) i f s : nth_error l i = Some s -> upd l i f = upd l i (fun _ => f s).
Proof.
  revert i. induction l as [|x l IH]; intros [|i] H; simpl in *; try discriminate; auto.
  - now injection H as ->.
  - f_equal. now apply IH.
Qed.

Lemma LI_pws m ti si smp m' : LI m -> part_writeSample m ti si smp = Ok m' -> LI m'.
Proof.
  intros HL. unfold part_writeSample.
  destruct (nth_error (m_streams m) si) as [s|] eqn:Es; [|now intros [= <-]].
  destruct (nth_error (m_tracks m) ti) as [t|] eqn:Et; [|now intros [= <-]].
  destruct (st_open s) as [seg|] eqn:Eo; [|now intros [= <-]].
  destruct (st_openpart s) as [p|] eqn:Ep; [|now intros [= <-]].
  destruct (_ <? _); [discriminate|]. intros [= <-].
  apply (LI_pointwise m); auto.
  - unfold upd_stream, upd_track. cbn [set_stream set_tracks m_tracks]. apply map_upd_static. intros x. reflexivity.
  - unfold upd_stream, upd_track. cbn [set_stream set_tracks m_streams].
    rewrite (upd_ext_at _ si _ s Es).
    apply Forall2_upd_const with (s := s); auto using Keep_refl.
    repeat split; cbn [st_with st_open st_openpart x_open x_openpart]; try discriminate; try congruence.
Qed.

Lemma LI_ts m si u size e inc : LI m -> LI (fst (ts_write m si u size e inc)).
Proof.
  intros HL. unfold ts_write.
  destruct (nth_error (m_streams m) si) as [s|] eqn:Es; [|exact HL].
  destruct (st_open s) as [seg|] eqn:Eo; [|exact HL].
  destruct (_ <? _); [exact HL|]. cbn [fst wok].
  apply (LI_pointwise m); auto.
  unfold upd_stream. cbn [set_stream m_streams]. rewrite (upd_ext_at _ si _ s Es).
  apply Forall2_upd_const with (s := s); auto using Keep_refl.
  repeat split; cbn [st_with st_open st_openpart x_open x_openpart st_mut]; try discriminate; try congruence.
  intros Hk Hv Ho. apply Hk; auto. congruence.
Qed.

(* ---- LI holds in every state reachable from a started fMP4 / Low-Latency muxer ---- *)
Theorem LI_mux_step m o : LI m -> LI (fst (mux_step m o)).
Proof.
  apply (T_mux_step LI); auto using LI_frame, LI_create, LI_rotp, LI_rots, LI_copy, LI_ts.
  intros m0 ti si smp m' H Hw. eapply LI_pws; eauto.
Qed.

Theorem LI_mux_run ops : forall m, LI m -> LI (mux_run m ops).
Proof. induction ops as [|o ops IH]; intros m H; [exact H|]. cbn [mux_run]. apply IH. now apply LI_mux_step. Qed.
