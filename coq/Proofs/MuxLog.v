(* C01, fMP4 variants: conservation of samples.
   The log of a stream is every sample it has emitted - the parts of its evicted, listed and open
   segments, in order - followed by the samples buffered for the part being built.  We prove that
   no rotation (of parts or of segments, of this stream or of another) changes any stream's log,
   that muxerPart.writeSample appends exactly the sample it is given to exactly one log, and hence
   (MuxLogStep.v) that a write of a unit appends exactly the look-ahead unit, with its duration set
   to the difference of the decode times, and nothing else: none lost, duplicated, reordered or
   invented. *)
From Coq Require Import List ZArith Bool Lia Arith.
From GoHls Require Import Model.Mux Proofs.MuxStream Proofs.MuxLift Proofs.MuxWindow Proofs.MuxHistory.
Import ListNotations.
Local Open Scope Z_scope.

Definition seg_samples (g : segrec) : list sample := flat_map p_samples (sg_parts g).

Definition stream_emitted (s : stream) : list sample :=
  flat_map seg_samples (published s) ++ match st_open s with Some g => seg_samples g | None => [] end.

Definition buffered (tracks : list trk) (s : stream) : list sample :=
  match st_tracks s with
  | ti :: _ => match nth_error tracks ti with
               | Some t => match tk_samples t with Some l => l | None => [] end
               | None => [] end
  | [] => []
  end.

Definition slog (m : mstate) (j : nat) : list sample :=
  match nth_error (m_streams m) j with
  | Some s => stream_emitted s ++ buffered (m_tracks m) s
  | None => []
  end.

(* ---- the structural invariant of fMP4 / Low-Latency muxer states ---- *)
Record LI (m : mstate) : Prop := {
  li_variant : c_variant (m_cfg m) <> MPEGTS;
  li_streams : forall j s, nth_error (m_streams m) j = Some s -> st_tracks s = [j];
  li_tracks : forall i t, nth_error (m_tracks m) i = Some t -> tk_stream t = i;
  li_sync : (forall s, In s (m_streams m) -> st_open s = None)
            \/ (forall s, In s (m_streams m) -> st_open s <> None);
  li_part : forall s, In s (m_streams m) -> st_open s <> None -> st_openpart s <> None
}.

(* ---- small list facts ---- *)
Lemma In_upd {A} (l : list A) i f y :
  In y (upd l i f) -> In y l \/ exists x, nth_error l i = Some x /\ y = f x.
Proof.
  revert i. induction l as [|x l IH]; intros [|i] H; simpl in *; auto.
  - destruct H as [<-|H]; [right; exists x; auto|auto].
  - destruct H as [<-|H]; [auto|]. destruct (IH i H) as [H1|H1]; auto.
Qed.

Lemma flat_map_app {A B} (f : A -> list B) l1 l2 : flat_map f (l1 ++ l2) = flat_map f l1 ++ flat_map f l2.
Proof. induction l1; simpl; auto. now rewrite IHl1, app_assoc. Qed.

Lemma flat_map_gaps d n : flat_map seg_samples (repeat (mkgap d) n) = [].
Proof. induction n; simpl; auto. Qed.

(* ---- the emitted samples of one stream through its own rotations ---- *)
Lemma emitted_srot_parts v s seg p d cn :
  st_open s = Some seg ->
  stream_emitted (fst (srot_parts v s seg p d cn)) = stream_emitted s ++ p_samples p.
Proof.
  intros Ho. destruct (srot_parts_frame v s seg p d cn) as (F1 & F2 & _ & _ & _ & _ & _ & F8 & _).
  unfold stream_emitted, published. rewrite F1, F2, F8, Ho.
  unfold seg_samples. cbn [sg_with_parts sg_parts]. rewrite (flat_map_app p_samples). simpl.
  now rewrite app_nil_r, !app_assoc.
Qed.

Lemma emitted_srot_segments v sc s seg0 d ntp f cur :
  st_open s = Some seg0 ->
  stream_emitted (fst (fst (srot_segments v sc s seg0 d ntp f cur))) = stream_emitted s.
Proof.
  intros Ho. pose proof (published_srot_segments v sc s seg0 d ntp f cur) as HP. cbv zeta in HP.
  destruct (srot_segments_frame v sc s seg0 d ntp f cur) as (_ & _ & _ & _ & _ & F6 & _).
  unfold stream_emitted. rewrite HP, F6, Ho. cbn [new_seg seg_samples sg_parts flat_map]. rewrite app_nil_r.
  unfold published, with_gaps.
  assert (Hs : seg_samples (sg_with_end seg0 d) = seg_samples seg0) by reflexivity.
  destruct v; [| |destruct (st_segments s)]; rewrite ?flat_map_app, ?flat_map_gaps; simpl;
    rewrite ?app_nil_r, ?Hs, <- ?app_assoc; reflexivity.
Qed.

(* ---- what stream_rotateParts does to streams and tracks ---- *)
Lemma rotp_spec m si d cn :
  (m_streams (stream_rotateParts m si d cn) = m_streams m /\ m_tracks (stream_rotateParts m si d cn) = m_tracks m)
  \/ exists s seg p0,
       nth_error (m_streams m) si = Some s /\ st_open s = Some seg /\ st_openpart s = Some p0 /\
       let pf := part_finalize p0 (m_tracks m) (st_tracks s) d in
       m_streams (stream_rotateParts m si d cn) =
         upd (m_streams m) si (fun _ => fst (srot_parts (c_variant (m_cfg m)) s seg (fst pf) d cn))
       /\ m_tracks (stream_rotateParts m si d cn) = snd pf.
Proof.
  unfold stream_rotateParts.
  destruct (nth_error (m_streams m) si) as [s|] eqn:Es; [|left; auto].
  destruct (st_openpart s) as [p0|] eqn:Ep; [|left; auto].
  destruct (st_open s) as [seg|] eqn:Eo; [|left; auto].
  right. exists s, seg, p0. repeat split; auto; cbv zeta;
  destruct (part_finalize p0 (m_tracks m) (st_tracks s) d) as [p tracks'] eqn:Ef; cbn [fst snd];
  destruct (srot_parts (c_variant (m_cfg m)) s seg p d cn) as [s' bump] eqn:Er; cbn [fst];
  destruct bump; reflexivity.
Qed.

Lemma part_finalize_linked p0 tracks s si d :
  st_tracks s = [si] ->
  let pf := part_finalize p0 tracks (st_tracks s) d in
  p_samples (fst pf) = buffered tracks s
  /\ (forall s', st_tracks s' = [si] -> buffered (snd pf) s' = [])
  /\ (forall j, j <> si -> nth_error (snd pf) j = nth_error tracks j)
  /\ map tk_static (snd pf) = map tk_static tracks.
Proof.
  intros Ht. cbv zeta. unfold part_finalize, buffered. rewrite Ht.
  destruct (nth_error tracks si) as [t|] eqn:Et; cbn [fst snd].
  - destruct (tk_samples t) as [ss|] eqn:Es; cbn [fst snd p_samples].
    + split; [reflexivity|]. split; [|split].
      * intros s' Hs'. rewrite Hs'. rewrite (nth_error_upd_same tracks si _ t Et). reflexivity.
      * intros j Hj. apply nth_error_upd_other. congruence.
      * apply map_upd_static. intros x. reflexivity.
    + split; [reflexivity|]. split; [|split; auto].
      intros s' Hs'. rewrite Hs', Et, Es. reflexivity.
  - split; [reflexivity|]. split; [|split; auto]. intros s' Hs'. now rewrite Hs', Et.
Qed.

Definition Linked (m : mstate) : Prop := forall j s, nth_error (m_streams m) j = Some s -> st_tracks s = [j].

Lemma buffered_other tracks tracks' s j :
  st_tracks s = [j] -> nth_error tracks' j = nth_error tracks j -> buffered tracks' s = buffered tracks s.
Proof. intros Ht E. unfold buffered. now rewrite Ht, E. Qed.

Lemma srot_parts_tracks v s seg p d cn : st_tracks (fst (srot_parts v s seg p d cn)) = st_tracks s.
Proof. destruct (srot_parts_static v s seg p d cn) as [x ->]. reflexivity. Qed.

Lemma srot_segments_tracks v sc s seg0 d ntp f cur :
  st_tracks (fst (fst (srot_segments v sc s seg0 d ntp f cur))) = st_tracks s.
Proof. destruct (srot_segments_static v sc s seg0 d ntp f cur) as [x ->]. reflexivity. Qed.

Lemma slog_rotp m si d cn j : Linked m -> slog (stream_rotateParts m si d cn) j = slog m j.
Proof.
  intros HL. unfold slog.
  destruct (rotp_spec m si d cn) as [[E1 E2]|(s & seg & p0 & Es & Eo & Ep & E1 & E2)].
  - now rewrite E1, E2.
  - cbv zeta in E1, E2. rewrite E1, E2.
    pose proof (HL si s Es) as Hts.
    destruct (part_finalize_linked p0 (m_tracks m) s si d Hts) as (P1 & P2 & P3 & _). cbv zeta in P1, P2, P3.
    destruct (Nat.eq_dec si j) as [->|Hne].
    + rewrite (nth_error_upd_same _ j _ s Es), Es.
      rewrite emitted_srot_parts by exact Eo. rewrite P1.
      rewrite P2 by (rewrite srot_parts_tracks; exact Hts). now rewrite app_nil_r.
    + rewrite nth_error_upd_other by exact Hne.
      destruct (nth_error (m_streams m) j) as [sj|] eqn:Ej; [|reflexivity].
      f_equal. apply (buffered_other _ _ sj j (HL j sj Ej)). apply P3. congruence.
Qed.

Lemma Linked_rotp m si d cn : Linked m -> Linked (stream_rotateParts m si d cn).
Proof.
  intros HL j sj. destruct (rotp_spec m si d cn) as [[E1 _]|(s & seg & p0 & Es & _ & _ & E1 & _)]; cbv zeta in E1; rewrite E1.
  - apply HL.
  - destruct (Nat.eq_dec si j) as [->|Hne].
    + rewrite (nth_error_upd_same _ j _ s Es). intros [= <-]. rewrite srot_parts_tracks. now apply HL.
    + rewrite nth_error_upd_other by exact Hne. apply HL.
Qed.

(* ---- stream_rotateSegments ---- *)
Lemma rots_spec m0 si d ntp f :
  let v := c_variant (m_cfg m0) in
  let m := match v with MPEGTS => m0 | _ => stream_rotateParts m0 si d false end in
  (m_streams (stream_rotateSegments m0 si d ntp f) = m_streams m
   \/ exists s seg0 cur,
        nth_error (m_streams m) si = Some s /\ st_open s = Some seg0 /\
        m_streams (stream_rotateSegments m0 si d ntp f) =
        upd (m_streams m) si (fun _ => fst (fst (srot_segments v (c_segcount (m_cfg m0)) s seg0 d ntp f cur))))
  /\ m_tracks (stream_rotateSegments m0 si d ntp f) = m_tracks m.
Proof.
  cbv zeta. split; [apply stream_rotateSegments_streams|].
  unfold stream_rotateSegments.
  set (m := match c_variant (m_cfg m0) with MPEGTS => m0 | _ => stream_rotateParts m0 si d false end).
  destruct (nth_error (m_streams m) si) as [s|]; [|reflexivity].
  destruct (st_open s) as [seg0|]; [|reflexivity].
  match goal with |- context [srot_segments ?a ?b ?c ?dd ?e ?ff ?g ?h] =>
    destruct (srot_segments a b c dd e ff g h) as [[s' regen] bump] end.
  destruct bump; reflexivity.
Qed.

Lemma slog_rots m si d ntp f j : Linked m -> slog (stream_rotateSegments m si d ntp f) j = slog m j.
Proof.
  intros HL. pose proof (rots_spec m si d ntp f) as [HS HT]. cbv zeta in HS, HT.
  set (m1 := match c_variant (m_cfg m) with MPEGTS => m | _ => stream_rotateParts m si d false end) in *.
  assert (H1 : slog m1 j = slog m j /\ Linked m1).
  { subst m1. destruct (c_variant (m_cfg m)); auto using slog_rotp, Linked_rotp. }
  destruct H1 as [H1 HL1]. rewrite <- H1. unfold slog. rewrite HT.
  destruct HS as [->|(s & seg0 & cur & Es & Eo & ->)]; [reflexivity|].
  destruct (Nat.eq_dec si j) as [->|Hne].
  - rewrite (nth_error_upd_same _ j _ s Es), Es. rewrite emitted_srot_segments by exact Eo.
    f_equal. unfold buffered. now rewrite srot_segments_tracks.
  - now rewrite nth_error_upd_other by exact Hne.
Qed.

Lemma Linked_rots m si d ntp f : Linked m -> Linked (stream_rotateSegments m si d ntp f).
Proof.
  intros HL. pose proof (rots_spec m si d ntp f) as [HS _]. cbv zeta in HS.
  set (m1 := match c_variant (m_cfg m) with MPEGTS => m | _ => stream_rotateParts m si d false end) in *.
  assert (HL1 : Linked m1) by (subst m1; destruct (c_variant (m_cfg m)); auto using Linked_rotp).
  intros j sj. destruct HS as [->|(s & seg0 & cur & Es & Eo & ->)]; [apply HL1|].
  destruct (Nat.eq_dec si j) as [->|Hne].
  - rewrite (nth_error_upd_same _ j _ s Es). intros [= <-]. rewrite srot_segments_tracks. now apply HL1.
  - rewrite nth_error_upd_other by exact Hne. apply HL1.
Qed.

(* ---- the other primitives ---- *)
Lemma slog_ext m m' j :
  m_streams m' = m_streams m -> map tk_samples (m_tracks m') = map tk_samples (m_tracks m) -> slog m' j = slog m j.
Proof.
  intros E1 E2. unfold slog. rewrite E1. destruct (nth_error (m_streams m) j) as [s|]; [|reflexivity].
  f_equal. unfold buffered. destruct (st_tracks s) as [|ti _]; [reflexivity|].
  assert (H : option_map tk_samples (nth_error (m_tracks m') ti) = option_map tk_samples (nth_error (m_tracks m) ti)).
  { rewrite <- !nth_error_map, E2. reflexivity. }
  destruct (nth_error (m_tracks m') ti), (nth_error (m_tracks m) ti); simpl in H; try congruence.
  now injection H as ->.
Qed.

Lemma emitted_st_with s x :
  x_segments x = st_segments s -> x_evicted x = st_evicted s ->
  (match x_open x with Some g => seg_samples g | None => [] end)
  = (match st_open s with Some g => seg_samples g | None => [] end) ->
  stream_emitted (st_with s x) = stream_emitted s.
Proof.
  intros E1 E2 E3. unfold stream_emitted, published. cbn [st_with st_evicted st_segments st_open].
  now rewrite E1, E2, E3.
Qed.

Lemma slog_upd_stream m i f j :
  (forall s, stream_emitted (f s) = stream_emitted s /\ st_tracks (f s) = st_tracks s) ->
  slog (upd_stream m i f) j = slog m j.
Proof.
  intros Hf. unfold slog, upd_stream. cbn [set_stream m_streams m_tracks].
  destruct (Nat.eq_dec i j) as [->|Hne].
  - destruct (nth_error (m_streams m) j) as [s|] eqn:Es.
    + rewrite (nth_error_upd_same _ j f s Es). destruct (Hf s) as [H1 H2]. unfold buffered. now rewrite H1, H2.
    + assert (H : nth_error (upd (m_streams m) j f) j = None).
      { apply nth_error_None. rewrite upd_length. now apply nth_error_None. }
      now rewrite H.
  - now rewrite nth_error_upd_other by exact Hne.
Qed.

Lemma slog_copy m i (l : stream) (both : bool) j : slog (upd_stream m i (copy_targets both l)) j = slog m j.
Proof.
  apply slog_upd_stream. intros s. unfold copy_targets. destruct (st_leading s); [auto|].
  split; [apply emitted_st_with; reflexivity|reflexivity].
Qed.

Lemma slog_create m d ntp j :
  (forall s, In s (m_streams m) -> st_open s = None) ->
  slog (createFirstSegment m d ntp) j = slog m j.
Proof.
  intros Hn. unfold slog, createFirstSegment. cbn [set_stream m_streams m_tracks].
  rewrite nth_error_map. destruct (nth_error (m_streams m) j) as [s|] eqn:Es; [|reflexivity]. cbn [option_map].
  assert (Ho : st_open s = None) by (apply Hn; eapply nth_error_In; eauto).
  f_equal. unfold stream_createFirst. apply emitted_st_with; try reflexivity. cbn [x_open st_mut]. now rewrite Ho.
Qed.

Lemma slog_ts m si u size e inc j : slog (fst (ts_write m si u size e inc)) j = slog m j.
Proof.
  unfold ts_write.
  destruct (nth_error (m_streams m) si) as [s|] eqn:Es; [|reflexivity].
  destruct (st_open s) as [seg|] eqn:Eo; [|reflexivity].
  destruct (_ <? _); [reflexivity|]. cbn [fst wok].
  unfold slog, upd_stream. cbn [set_stream m_streams m_tracks].
  destruct (Nat.eq_dec si j) as [->|Hne].
  - rewrite (nth_error_upd_same _ j _ s Es), Es. f_equal.
    apply emitted_st_with; try reflexivity. cbn [x_open st_mut]. now rewrite Eo.
  - now rewrite nth_error_upd_other by exact Hne.
Qed.

(* muxerPart.writeSample appends exactly [smp] to exactly the log of stream [ti] *)
Lemma slog_pws m ti smp m' :
  Linked m -> (forall s, In s (m_streams m) -> st_open s <> None -> st_openpart s <> None) ->
  part_writeSample m ti ti smp = Ok m' ->
  forall j,
  slog m' j = if Nat.eqb j ti
              then match nth_error (m_streams m) ti, nth_error (m_tracks m) ti with
                   | Some s, Some _ => match st_open s with Some _ => slog m j ++ [smp] | None => slog m j end
                   | _, _ => slog m j
                   end
              else slog m j.
Proof.
  intros HL HP. unfold part_writeSample.
  destruct (nth_error (m_streams m) ti) as [s|] eqn:Es.
  2:{ intros [= <-] j. now destruct (Nat.eqb j ti). }
  destruct (nth_error (m_tracks m) ti) as [t|] eqn:Et.
  2:{ intros [= <-] j. now destruct (Nat.eqb j ti). }
  destruct (st_open s) as [seg|] eqn:Eo.
  2:{ intros [= <-] j. now destruct (Nat.eqb j ti). }
  destruct (st_openpart s) as [p|] eqn:Ep.
  2:{ exfalso. apply (HP s); [eapply nth_error_In; eauto|congruence|exact Ep]. }
  destruct (_ <? _); [discriminate|]. intros [= <-] j.
  unfold slog, upd_stream, upd_track. cbn [set_stream set_tracks m_streams m_tracks].
  pose proof (HL ti s Es) as Hts.
  destruct (Nat.eqb_spec j ti) as [->|Hne].
  - rewrite (nth_error_upd_same _ ti _ s Es), Es.
    rewrite emitted_st_with; [|reflexivity|reflexivity|cbn [x_open]; rewrite Eo; reflexivity].
    rewrite <- app_assoc. f_equal.
    unfold buffered. cbn [st_with st_tracks]. rewrite Hts.
    rewrite (nth_error_upd_same _ ti _ t Et), Et. cbn [tk_with tk_samples].
    now destruct (tk_samples t).
  - rewrite nth_error_upd_other by congruence.
    destruct (nth_error (m_streams m) j) as [sj|] eqn:Ej; [|reflexivity]. f_equal.
    apply (buffered_other _ _ sj j (HL j sj Ej)). apply nth_error_upd_other. congruence.
Qed.
