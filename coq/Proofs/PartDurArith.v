(* Proofs about the pure functions of Model/PartDur.v: floor characterisations, the
   compatibility test, termination (fuel) and result of findCompatiblePartDuration,
   bounds of the adjusted part duration, jitter of timestampToDuration differences. *)
From Coq Require Import List ZArith Lia Bool.
From GoHls Require Import Lib.ZLib Model.PartDur.
Import ListNotations.
Local Open Scope Z_scope.

(* ---------- multiplyAndDivide and the two conversions ---------- *)

Lemma multiplyAndDivide_ok : forall v m d, d <> 0 -> multiplyAndDivide v m d = POk (mulDiv v m d).
Proof. intros v m d H. unfold multiplyAndDivide. destruct (Z.eqb_spec d 0); [contradiction|reflexivity]. Qed.

Lemma multiplyAndDivide_panic : forall v m, multiplyAndDivide v m 0 = PPanic.
Proof. reflexivity. Qed.

Lemma multiplyAndDivide_floor : forall v m d, 0 <= v -> 0 < d -> 0 <= m ->
  multiplyAndDivide v m d = POk (v * m / d).
Proof. intros. rewrite multiplyAndDivide_ok by lia. f_equal. apply mulDiv_floor; assumption. Qed.

(* the pure value of timestampToDuration on non-negative ticks *)
Definition tsd (t R : Z) : Z := t * second / R.

Lemma timestampToDuration_floor : forall t R, 0 <= t -> 0 < R -> timestampToDuration t R = POk (tsd t R).
Proof. intros. unfold timestampToDuration, tsd. apply multiplyAndDivide_floor; unfold second; lia. Qed.

Lemma durationToTimestamp_floor : forall d R, 0 <= d -> 0 <= R -> durationToTimestamp d R = POk (d * R / second).
Proof. intros. unfold durationToTimestamp. apply multiplyAndDivide_floor; unfold second; lia. Qed.

(* the +10 s offset is exactly 10*R ticks *)
Lemma durationToTimestamp_start : forall R, durationToTimestamp fmp4StartDTS R = POk (10 * R).
Proof.
  intros R. unfold durationToTimestamp, multiplyAndDivide, mulDiv, fmp4StartDTS, second.
  change (1000000000 =? 0) with false. cbv iota.
  change (Z.quot (10 * 1000000000) 1000000000) with 10.
  change (Z.rem (10 * 1000000000) 1000000000) with 0.
  rewrite Z.mul_0_l. change (Z.quot 0 1000000000) with 0. f_equal. lia.
Qed.

Lemma tsd_nonneg : forall t R, 0 <= t -> 0 < R -> 0 <= tsd t R.
Proof. intros. unfold tsd, second. apply Z.div_pos; lia. Qed.

Lemma tsd_mono : forall t t' R, 0 < R -> t <= t' -> tsd t R <= tsd t' R.
Proof. intros. unfold tsd, second. apply Z.div_le_mono; lia. Qed.

(* ---------- jitter ---------- *)

(* duration of N ticks seen from phase a: floor(N*1e9/R), or one more; exact when R | N*1e9 *)
Lemma tsd_diff_bounds : forall a N R, 0 < R ->
  tsd N R <= tsd (a + N) R - tsd a R <= cdiv (N * second) R.
Proof.
  intros a N R HR. unfold tsd. replace ((a + N) * second) with (a * second + N * second) by lia.
  split.
  - apply (floor_diff_bounds (a * second) (N * second) R HR).
  - apply floor_diff_le_cdiv. assumption.
Qed.

Lemma tsd_diff_exact : forall a N R, 0 < R -> (N * second) mod R = 0 ->
  tsd (a + N) R - tsd a R = tsd N R.
Proof.
  intros a N R HR HN. unfold tsd. replace ((a + N) * second) with (a * second + N * second) by lia.
  apply floor_diff_exact; assumption.
Qed.

Lemma cdiv_tsd : forall N R, 0 < R -> tsd N R <= cdiv (N * second) R <= tsd N R + 1.
Proof. intros. unfold tsd. apply cdiv_ge_div. assumption. Qed.

(* ---------- partDurationIsCompatible ---------- *)

Definition compatb (p sd : Z) : bool := (sd <=? p) && (85 * (cdiv p sd * sd) <? 100 * p).

Lemma partDurationIsCompatible_spec : forall p sd, 0 < sd -> 0 <= p ->
  partDurationIsCompatible p sd = POk (compatb p sd).
Proof.
  intros p sd Hsd Hp. unfold partDurationIsCompatible, compatb.
  destruct (Z.gtb_spec sd p) as [G|G].
  - destruct (Z.leb_spec sd p); [lia|reflexivity].
  - destruct (Z.eqb_spec sd 0); [lia|].
    destruct (Z.leb_spec sd p); [|lia]. cbn [andb]. f_equal.
    rewrite (quot_nonneg_div p sd), (rem_nonneg_mod p sd) by lia.
    assert (F : (if negb (p mod sd =? 0) then p / sd + 1 else p / sd) = cdiv p sd).
    { destruct (Z.eqb_spec (p mod sd) 0) as [E|E]; cbn [negb].
      - symmetry. apply cdiv_exact; assumption.
      - symmetry. apply cdiv_inexact; assumption. }
    rewrite F.
    assert (0 <= cdiv p sd) by (pose proof (cdiv_ge_div p sd Hsd); pose proof (Z.div_pos p sd Hp Hsd); lia).
    rewrite quot_nonneg_div by nia.
    destruct (Z.gtb_spec p (cdiv p sd * sd * 85 / 100)) as [A|A];
      destruct (Z.ltb_spec (85 * (cdiv p sd * sd)) (100 * p)) as [B|B]; try reflexivity.
    + apply div_lt_iff in A; lia.
    + assert (cdiv p sd * sd * 85 / 100 < p) by (apply div_lt_iff; lia). lia.
Qed.

Lemma partDurationIsCompatible_zero : forall p, 0 <= p -> partDurationIsCompatible p 0 = PPanic.
Proof.
  intros p Hp. unfold partDurationIsCompatible.
  destruct (Z.gtb_spec 0 p); [lia|reflexivity].
Qed.

Lemma compatAll_single : forall p sd, 0 < sd -> 0 <= p ->
  partDurationIsCompatibleWithAll p [sd] = POk (compatb p sd).
Proof.
  intros. cbn [partDurationIsCompatibleWithAll]. rewrite partDurationIsCompatible_spec by assumption.
  cbn [pbind]. destruct (compatb p sd); reflexivity.
Qed.

Lemma partDurationIsCompatible_fuel : forall p sd, partDurationIsCompatible p sd <> POutOfFuel.
Proof.
  intros p sd. unfold partDurationIsCompatible.
  destruct (sd >? p); [discriminate|]. destruct (sd =? 0); discriminate.
Qed.

Lemma compatAll_fuel : forall p sds, partDurationIsCompatibleWithAll p sds <> POutOfFuel.
Proof.
  intros p sds. induction sds as [|sd rest IH]; cbn [partDurationIsCompatibleWithAll]; [discriminate|].
  pose proof (partDurationIsCompatible_fuel p sd).
  destruct (partDurationIsCompatible p sd) as [b| |]; cbn [pbind]; try discriminate; try contradiction.
  destruct b; [assumption|discriminate].
Qed.

Lemma compatAll_nopanic : forall p sds, Forall (fun sd => sd <> 0) sds ->
  partDurationIsCompatibleWithAll p sds <> PPanic.
Proof.
  intros p sds H. induction H as [|sd rest Hsd Hrest IH]; cbn [partDurationIsCompatibleWithAll]; [discriminate|].
  unfold partDurationIsCompatible.
  destruct (sd >? p); cbn [pbind]; [discriminate|].
  destruct (Z.eqb_spec sd 0); [contradiction|]. cbn [pbind].
  match goal with |- (if ?b then _ else _) <> _ => destruct b end; [assumption|discriminate].
Qed.

(* ---------- findCompatiblePartDuration: the fuel suffices ---------- *)

Lemma findLoop_fuel : forall fuel i sds,
  Z.max 0 ((5 * second - i) / (5 * millisecond) + 1) < Z.of_nat fuel ->
  findLoop fuel i sds <> POutOfFuel.
Proof.
  induction fuel as [|fuel IH]; intros i sds Hf.
  - lia.
  - cbn [findLoop]. destruct (Z.ltb_spec i (5 * second)) as [L|L]; [|discriminate].
    pose proof (compatAll_fuel i sds).
    destruct (partDurationIsCompatibleWithAll i sds) as [b| |]; cbn [pbind]; try discriminate; try contradiction.
    destruct b; [discriminate|].
    apply IH.
    replace (5 * second - (i + 5 * millisecond)) with ((5 * second - i) + (-1) * (5 * millisecond)) by lia.
    rewrite Z.div_add by (unfold millisecond; lia).
    assert (0 <= (5 * second - i) / (5 * millisecond)) by (apply Z.div_pos; unfold millisecond; lia).
    lia.
Qed.

Lemma findCompatiblePartDuration_fuel : forall pm sds, findCompatiblePartDuration pm sds <> POutOfFuel.
Proof.
  intros pm sds. unfold findCompatiblePartDuration, findFuel. apply findLoop_fuel.
  lia.
Qed.

Lemma findLoop_nopanic : forall fuel i sds, Forall (fun sd => sd <> 0) sds -> findLoop fuel i sds <> PPanic.
Proof.
  induction fuel as [|fuel IH]; intros i sds H; cbn [findLoop]; [discriminate|].
  destruct (i <? 5 * second); [|discriminate].
  pose proof (compatAll_nopanic i sds H).
  destruct (partDurationIsCompatibleWithAll i sds) as [b| |]; cbn [pbind]; try discriminate; try contradiction.
  destruct b; [discriminate|]. apply IH. assumption.
Qed.

Lemma findCompatiblePartDuration_nopanic : forall pm sds, Forall (fun sd => sd <> 0) sds ->
  findCompatiblePartDuration pm sds <> PPanic.
Proof. intros. apply findLoop_nopanic. assumption. Qed.

(* ---------- findCompatiblePartDuration with one sample duration: result ---------- *)

(* if the k-th grid point from i is compatible and below 5 s, the loop returns a compatible
   grid point at or before it *)
Lemma findLoop_le : forall k fuel i sd,
  0 < sd -> 0 <= i ->
  Z.max 0 ((5 * second - i) / (5 * millisecond) + 1) < Z.of_nat fuel ->
  i + 5 * millisecond * Z.of_nat k < 5 * second ->
  compatb (i + 5 * millisecond * Z.of_nat k) sd = true ->
  exists r, findLoop fuel i [sd] = POk r /\ i <= r <= i + 5 * millisecond * Z.of_nat k
            /\ compatb r sd = true /\ (r - i) mod (5 * millisecond) = 0.
Proof.
  induction k as [|k IH]; intros fuel i sd Hsd Hi Hf Hlt Hc.
  - replace (i + 5 * millisecond * Z.of_nat 0) with i in * by lia.
    destruct fuel as [|fuel]; [lia|]. cbn [findLoop].
    destruct (Z.ltb_spec i (5 * second)); [|lia].
    rewrite compatAll_single by assumption. rewrite Hc. cbn [pbind].
    exists i. repeat split; try lia; try assumption. rewrite Z.sub_diag. reflexivity.
  - destruct fuel as [|fuel]; [lia|]. cbn [findLoop].
    assert (Hms : 0 < 5 * millisecond) by (unfold millisecond; lia).
    destruct (Z.ltb_spec i (5 * second)); [|lia].
    rewrite compatAll_single by assumption. cbn [pbind].
    destruct (compatb i sd) eqn:Ci.
    + exists i. repeat split; try lia; try assumption. rewrite Z.sub_diag. reflexivity.
    + destruct (IH fuel (i + 5 * millisecond) sd Hsd ltac:(lia)) as [r [E [B [C M]]]].
      * replace (5 * second - (i + 5 * millisecond)) with ((5 * second - i) + (-1) * (5 * millisecond)) by lia.
        rewrite Z.div_add by lia.
        assert (0 <= (5 * second - i) / (5 * millisecond)) by (apply Z.div_pos; lia).
        lia.
      * lia.
      * replace (i + 5 * millisecond + 5 * millisecond * Z.of_nat k)
          with (i + 5 * millisecond * Z.of_nat (S k)) by lia. assumption.
      * exists r. split; [assumption|]. split; [lia|]. split; [assumption|].
        replace (r - i) with ((r - (i + 5 * millisecond)) + 1 * (5 * millisecond)) by lia.
        rewrite Z.mod_add by lia. assumption.
Qed.

Lemma cdiv_unique : forall b r c, 0 < r -> r * (c - 1) < b <= r * c -> cdiv b r = c.
Proof. intros b r c Hr H. unfold cdiv. apply div_unique_bounds; [assumption|]. nia. Qed.

(* the adjusted part duration exists and is bounded, over the ranges of the property *)
Lemma adjusted_exists : forall pm sd,
  50 * millisecond <= pm <= 2 * second ->
  5 * millisecond / 2 <= sd <= second ->
  exists adj, findCompatiblePartDuration pm [sd] = POk adj
    /\ pm <= adj /\ sd <= adj /\ adj < 2 * Z.max pm sd /\ adj < 5 * second
    /\ compatb adj sd = true /\ (adj - pm) mod (5 * millisecond) = 0.
Proof.
  intros pm sd Hpm Hsd. unfold millisecond, second in Hpm, Hsd.
  change (5 * 1000000 / 2) with 2500000 in Hsd.
  assert (Hsd0 : 0 < sd) by lia.
  assert (Hfuel : Z.max 0 ((5 * second - pm) / (5 * millisecond) + 1) < Z.of_nat (findFuel pm)).
  { unfold findFuel. lia. }
  destruct (Z_le_gt_dec sd pm) as [Hle|Hgt].
  - (* sd <= pm: aim at q = ceil(pm/sd)*sd *)
    set (c := cdiv pm sd). set (q := c * sd).
    assert (Hq : pm <= q < pm + sd).
    { unfold q, c, cdiv. pose proof (div_bounds (pm + sd - 1) sd Hsd0). nia. }
    set (k := (q - pm) / 5000000).
    assert (Hk : 0 <= k) by (apply Z.div_pos; lia).
    pose proof (div_bounds (q - pm) 5000000 ltac:(lia)) as Hkb. fold k in Hkb.
    set (p := pm + 5000000 * k).
    assert (Hp : q - 5000000 < p <= q) by (unfold p; lia).
    assert (Hpp : pm <= p) by (unfold p; lia).
    assert (Hcp : cdiv p sd = c).
    { apply cdiv_unique; [assumption|]. fold q. replace (sd * c) with q by (unfold q; lia).
      replace (sd * (c - 1)) with (q - sd) by (unfold q; lia). lia. }
    assert (Hcomp : compatb p sd = true).
    { unfold compatb. rewrite Hcp. fold q.
      destruct (Z.leb_spec sd p); [|lia]. destruct (Z.ltb_spec (85 * q) (100 * p)); [reflexivity|lia]. }
    destruct (findLoop_le (Z.to_nat k) (findFuel pm) pm sd Hsd0 ltac:(lia) Hfuel) as [r [E [B [C M]]]].
    + rewrite Z2Nat.id by assumption. unfold millisecond, second. fold p. lia.
    + rewrite Z2Nat.id by assumption. unfold millisecond. fold p. assumption.
    + rewrite Z2Nat.id in B by assumption. unfold millisecond in B. fold p in B.
      exists r. unfold findCompatiblePartDuration. split; [assumption|].
      assert (sd <= r).
      { unfold compatb in C. apply andb_true_iff in C. destruct C as [C _]. apply Z.leb_le in C. assumption. }
      unfold second. repeat split; try assumption; lia.
  - (* pm < sd: aim at 2*sd - 1 *)
    set (t := 2 * sd - 1).
    set (k := (t - pm) / 5000000).
    assert (Hk : 0 <= k) by (apply Z.div_pos; lia).
    pose proof (div_bounds (t - pm) 5000000 ltac:(lia)) as Hkb. fold k in Hkb.
    set (p := pm + 5000000 * k).
    assert (Hp : t - 5000000 < p <= t) by (unfold p; lia).
    assert (Hcp : cdiv p sd = 2) by (apply cdiv_unique; [assumption|]; unfold t in Hp; lia).
    assert (Hcomp : compatb p sd = true).
    { unfold compatb. rewrite Hcp. unfold t in Hp.
      destruct (Z.leb_spec sd p); [|lia]. destruct (Z.ltb_spec (85 * (2 * sd)) (100 * p)); [reflexivity|lia]. }
    destruct (findLoop_le (Z.to_nat k) (findFuel pm) pm sd Hsd0 ltac:(lia) Hfuel) as [r [E [B [C M]]]].
    + rewrite Z2Nat.id by assumption. unfold millisecond, second. fold p. unfold t in Hp. lia.
    + rewrite Z2Nat.id by assumption. unfold millisecond. fold p. assumption.
    + rewrite Z2Nat.id in B by assumption. unfold millisecond in B. fold p in B.
      exists r. unfold findCompatiblePartDuration. split; [assumption|].
      assert (sd <= r).
      { unfold compatb in C. apply andb_true_iff in C. destruct C as [C _]. apply Z.leb_le in C. assumption. }
      unfold second. unfold t in Hp. repeat split; try assumption; lia.
Qed.

(* ---------- samples per part ---------- *)

(* the least n with floor(n*T*1e9/R) >= adj *)
Definition samplesPerPart (adj T R : Z) : Z := cdiv (adj * R) (T * second).

Lemma samplesPerPart_spec : forall adj T R m, 0 < R -> 0 < T ->
  (adj <= tsd (m * T) R <-> samplesPerPart adj T R <= m).
Proof.
  intros adj T R m HR HT. unfold tsd, samplesPerPart.
  rewrite div_le_iff by assumption. rewrite cdiv_le_iff by (unfold second; lia).
  split; intro; nia.
Qed.

(* no duration of m samples has floor adj-1 and ceiling adj *)
Definition NoStraddle (adj T R : Z) : Prop :=
  forall m, 0 <= m -> (m * T * second) mod R <> 0 -> tsd (m * T) R + 1 <> adj.

(* under NoStraddle, "m samples from phase a last at least adj" does not depend on the phase *)
Lemma diff_ge_iff : forall adj T R a m, 0 < R -> 0 < T -> 0 <= m -> NoStraddle adj T R ->
  (adj <= tsd (a + m * T) R - tsd a R <-> samplesPerPart adj T R <= m).
Proof.
  intros adj T R a m HR HT Hm NS.
  rewrite <- (samplesPerPart_spec adj T R m HR HT).
  pose proof (tsd_diff_bounds a (m * T) R HR) as [L U].
  split; intro H; [|lia].
  destruct (Z.eq_dec ((m * T * second) mod R) 0) as [E|E].
  - rewrite tsd_diff_exact in H by assumption. assumption.
  - pose proof (cdiv_tsd (m * T) R HR). specialize (NS m Hm E). lia.
Qed.

(* whole-millisecond part durations never straddle when the clock rate is at most 1 MHz *)
Lemma whole_ms_NoStraddle : forall adj T R, 0 < R <= 1000000 -> adj mod millisecond = 0 ->
  NoStraddle adj T R.
Proof.
  intros adj T R HR Hadj m Hm Hx Heq.
  destruct (no_straddle (m * T) 1000 millisecond R) as [_ H2].
  - unfold millisecond; lia.
  - lia.
  - pose proof (Z.gcd_nonneg 1000 R). destruct (Z.gcd_divide_r 1000 R) as [r' Hr'].
    assert (Z.gcd 1000 R <> 0) by (intro G; apply Z.gcd_eq_0_r in G; lia).
    unfold millisecond. lia.
  - replace (1000 * millisecond) with second by reflexivity. assumption.
  - apply H2. replace (1000 * millisecond) with second by reflexivity.
    unfold tsd in Heq. rewrite Heq. assumption.
Qed.

(* the two ends of the jitter interval round up to the same millisecond (R <= 1 MHz) *)
Lemma ceil_ms_jitter : forall N R, 0 < R <= 1000000 ->
  ceil_ms (cdiv (N * second) R) = ceil_ms (tsd N R).
Proof.
  intros N R HR. destruct (Z.eq_dec ((N * second) mod R) 0) as [E|E].
  - rewrite cdiv_exact by (assumption || lia). reflexivity.
  - rewrite cdiv_inexact by (assumption || lia). unfold ceil_ms, tsd.
    apply ceil_to_succ; [unfold millisecond; lia|].
    destruct (no_straddle N 1000 millisecond R) as [H1 _].
    + unfold millisecond; lia.
    + lia.
    + assert (Z.gcd 1000 R <> 0) by (intro G; apply Z.gcd_eq_0_r in G; lia).
      pose proof (Z.gcd_nonneg 1000 R). unfold millisecond. lia.
    + replace (1000 * millisecond) with second by reflexivity. assumption.
    + replace (1000 * millisecond) with second in H1 by reflexivity. assumption.
Qed.

(* text resolution (10 us, 5 decimals of a second): floor and ceiling of the exact part
   duration lie strictly inside one rounding cell when R <= 5000 * gcd(200000, R) *)
Lemma text_cell : forall N R, 0 < R -> R <= 5000 * Z.gcd 200000 R ->
  (N * second) mod R <> 0 ->
  forall d, tsd N R <= d <= tsd N R + 1 -> d mod 5000 <> 0.
Proof.
  intros N R HR Hg Hx d Hd.
  destruct (no_straddle N 200000 5000 R ltac:(lia) HR Hg) as [H1 H2].
  - replace (200000 * 5000) with second by reflexivity. assumption.
  - replace (200000 * 5000) with second in H1, H2 by reflexivity. unfold tsd in Hd.
    assert (d = N * second / R \/ d = N * second / R + 1) as [->| ->] by lia; assumption.
Qed.

(* ---------- the side condition is exact ---------- *)

(* If NoStraddle fails at m samples, "m samples last at least adj" depends on the phase:
   from phase 0 they fall short, from some other phase they reach adj. *)
Lemma straddle_phases : forall adj T R m, 0 < R -> 0 < T -> 0 <= m ->
  (m * T * second) mod R <> 0 -> tsd (m * T) R + 1 = adj ->
  exists a1 a2, 0 <= a1 /\ 0 <= a2 /\
    tsd (a1 + m * T) R - tsd a1 R < adj /\ adj <= tsd (a2 + m * T) R - tsd a2 R.
Proof.
  intros adj T R m HR HT Hm Hx Heq.
  set (N := m * T) in *. set (q := tsd N R) in *.
  assert (Hsearch : forall k : nat,
            (exists j, 0 <= j /\ q + 1 <= tsd (j * N + N) R - tsd (j * N) R)
            \/ tsd (Z.of_nat k * N) R <= Z.of_nat k * q).
  { induction k as [|k IH].
    - right. cbn. unfold tsd. cbn. lia.
    - destruct IH as [L|Rk]; [left; exact L|].
      destruct (Z_le_gt_dec (q + 1) (tsd (Z.of_nat k * N + N) R - tsd (Z.of_nat k * N) R)) as [G|G].
      + left. exists (Z.of_nat k). split; [lia|exact G].
      + right. replace (Z.of_nat (S k) * N) with (Z.of_nat k * N + N) by lia. lia. }
  exists 0. destruct (Hsearch (Z.to_nat R)) as [[j [Hj G]]|Bad].
  - exists (j * N). assert (0 <= N) by (subst N; nia).
    split; [lia|]. split; [nia|]. split.
    + replace (0 + N) with N by lia. change (tsd 0 R) with 0. fold q. lia.
    + lia.
  - exfalso. rewrite Z2Nat.id in Bad by lia.
    assert (E : tsd (R * N) R = N * second).
    { unfold tsd. replace (R * N * second) with (N * second * R) by lia. apply Z.div_mul. lia. }
    rewrite E in Bad.
    pose proof (Z.div_mod (N * second) R ltac:(lia)) as D.
    pose proof (Z.mod_pos_bound (N * second) R HR) as B.
    unfold q, tsd in Bad. replace (m * T * second) with (N * second) in Hx by (subst N; lia). nia.
Qed.

(* ---------- the side condition is decidable ---------- *)

(* Only one sample count can have floor adj-1: the least m with m*T*1e9 >= (adj-1)*R
   (a sample lasts at least 1 ns). [sideb] tests that one. *)
Definition sideb (adj T R : Z) : bool :=
  let m := cdiv ((adj - 1) * R) (T * second) in
  negb (negb ((m * T * second) mod R =? 0) && (tsd (m * T) R + 1 =? adj)).

Lemma sideb_spec : forall adj T R, 0 < R -> 0 < T -> R <= T * second -> 1 <= adj ->
  (sideb adj T R = true <-> NoStraddle adj T R).
Proof.
  intros adj T R HR HT Hsd Hadj. unfold sideb.
  set (m0 := cdiv ((adj - 1) * R) (T * second)).
  assert (HTs : 0 < T * second) by (unfold second; lia).
  assert (Hm0 : 0 <= m0).
  { unfold m0, cdiv. apply Z.div_pos; [nia|exact HTs]. }
  assert (Hlow : (adj - 1) * R <= T * second * m0).
  { apply (cdiv_le_iff ((adj - 1) * R) (T * second) m0 HTs). unfold m0. lia. }
  split.
  - intros Hb m Hm Hx Heq.
    assert (Hfl : R * (adj - 1) <= m * T * second /\ m * T * second < R * adj).
    { unfold tsd in Heq. split.
      - apply (div_le_iff (m * T * second) R (adj - 1) HR). lia.
      - apply (div_lt_iff (m * T * second) R adj HR). lia. }
    assert (Hle : m0 <= m).
    { unfold m0. apply (cdiv_le_iff ((adj - 1) * R) (T * second) m HTs). nia. }
    assert (m = m0) by nia. subst m.
    destruct (Z.eqb_spec ((m0 * T * second) mod R) 0) as [E|E]; [contradiction|].
    destruct (Z.eqb_spec (tsd (m0 * T) R + 1) adj) as [E2|E2]; [|contradiction].
    cbn in Hb. discriminate.
  - intros NS.
    destruct (Z.eqb_spec ((m0 * T * second) mod R) 0) as [E|E]; [reflexivity|].
    destruct (Z.eqb_spec (tsd (m0 * T) R + 1) adj) as [E2|E2]; [|reflexivity].
    exfalso. exact (NS m0 Hm0 E E2).
Qed.
