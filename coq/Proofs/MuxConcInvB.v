(* M4 invariants, part B: no lost wake-up, the phases of Close, nobody sleeps after Close's broadcast. *)
From Coq Require Import List ZArith Lia Bool String Arith ZifyBool.
From GoHls Require Import Lib.MuxSched Model.MuxConcSeq Model.MuxConcSpec Model.MuxConcPar
  Proofs.MuxConcSeqA Proofs.MuxConcSeqB Proofs.MuxConcInvA.
Import ListNotations.
Local Open Scope Z_scope.

(* what a rotation can make true for a sleeping handler (the closed flags are not part of it) *)
Definition content_ready (m : mux) (f : frame) : bool :=
  match f with
  | FMulti => match nth_error (m_streams m) 0 with
              | Some s0 => hasContent (m_variant m) s0 | None => false end
  | FBlocking i msnint P _ =>
      match nth_error (m_streams m) i with
      | Some s => match decide_core (m_variant m) s msnint P with
                  | Ready | Respond400 => true | _ => false end
      | None => false
      end
  | FPlain i _ => match nth_error (m_streams m) i with
                  | Some s => hasContent (m_variant m) s | None => false end
  | FHint i id => match nth_error (m_streams m) i with
                  | Some s => id <? nextPartID s | None => false end
  end.

Definition owed_rot (w : wpc) : bool :=
  match w with WRotated | WUnlocked => true | _ => false end.

Definition wake_inv (c : cstate) : Prop :=
  forall i r f, nth_error (c_reqs c) i = Some r -> r_pc r = PWaiting f ->
                content_ready (c_mux c) f = true -> owed_rot (c_wpc c) = true.

Lemma test_wait_not_ready : forall m q f, test m q f = TWait -> content_ready m f = false.
Proof.
  intros m q f H. destruct f as [|i msn p d|i d|i id]; unfold test, content_ready in *.
  - destruct (m_closed m); [discriminate|]. destruct (nth_error (m_streams m) 0); [|discriminate].
    destruct (hasContent _ _); [discriminate|reflexivity].
  - destruct (nth_error (m_streams m) i); [|reflexivity]. destruct (s_closed s); [discriminate|].
    destruct (decide_core _ _ _ _); try discriminate; reflexivity.
  - destruct (nth_error (m_streams m) i); [|reflexivity]. destruct (s_closed s); [discriminate|].
    destruct (hasContent _ _); [discriminate|reflexivity].
  - destruct (nth_error (m_streams m) i); [|reflexivity]. destruct (s_closed s); [discriminate|].
    destruct (id <? nextPartID s); [discriminate|reflexivity].
Qed.

Lemma lstep_waiting : forall m w n i r o f,
  r_pc (fst (lstep m w n i r o)) = PWaiting f ->
  r_pc r = PWaiting f \/ (r_pc r = PTest f /\ test m (req_query (r_req r)) f = TWait).
Proof.
  intros m w n i r o f H. unfold lstep in H. destruct (r_pc r) eqn:E; simpl in H; try discriminate.
  - destruct (call_pc m (req_query (r_req r)) h) as [[resp Ec]|[f' Ec]]; rewrite Ec in H; discriminate.
  - destruct o; simpl in H; [congruence|discriminate].
  - destruct (test m (req_query (r_req r)) f0) eqn:Et; simpl in H; try discriminate.
    inversion H; subst. auto.
  - left; congruence.
  - destruct o; simpl in H; [congruence|discriminate].
  - destruct h; discriminate.
  - congruence.
Qed.

(* closed flags do not enter content_ready *)
Lemma content_ready_streams : forall m m' f,
  m_variant m' = m_variant m ->
  (forall i, option_map (fun s => (nextSegmentID s, nextPartID s, segments s, nextSegment s))
                        (nth_error (m_streams m') i) =
             option_map (fun s => (nextSegmentID s, nextPartID s, segments s, nextSegment s))
                        (nth_error (m_streams m) i)) ->
  content_ready m' f = content_ready m f.
Proof.
  intros m m' f Hv H.
  assert (G : forall i, match nth_error (m_streams m') i, nth_error (m_streams m) i with
                        | Some a, Some b => nextSegmentID a = nextSegmentID b /\ nextPartID a = nextPartID b
                                            /\ segments a = segments b /\ nextSegment a = nextSegment b
                        | None, None => True
                        | _, _ => False end).
  { intros i. specialize (H i). destruct (nth_error (m_streams m') i), (nth_error (m_streams m) i);
      simpl in H; try discriminate; auto. inversion H; auto. }
  destruct f as [|i msn p d|i d|i id]; unfold content_ready; rewrite ?Hv.
  - specialize (G 0%nat). destruct (nth_error (m_streams m') 0), (nth_error (m_streams m) 0); try tauto.
    destruct G as [_ [_ [Gs _]]]. unfold hasContent. rewrite Gs. reflexivity.
  - specialize (G i). destruct (nth_error (m_streams m') i), (nth_error (m_streams m) i); try tauto.
    destruct G as [G1 [_ [G3 G4]]]. unfold decide_core, range_reject, hasContent, hasPart.
    rewrite G1, G3, G4. reflexivity.
  - specialize (G i). destruct (nth_error (m_streams m') i), (nth_error (m_streams m) i); try tauto.
    destruct G as [_ [_ [Gs _]]]. unfold hasContent. rewrite Gs. reflexivity.
  - specialize (G i). destruct (nth_error (m_streams m') i), (nth_error (m_streams m) i); try tauto.
    destruct G as [_ [G2 _]]. rewrite G2. reflexivity.
Qed.

Lemma content_ready_set_closed : forall m f, content_ready (set_closed m) f = content_ready m f.
Proof.
  intros; apply content_ready_streams; [reflexivity|]. intros i. simpl. rewrite nth_error_map.
  destruct (nth_error (m_streams m) i); reflexivity.
Qed.

Lemma closeStream_fields : forall m k,
  m_variant (mux_closeStream m k) = m_variant m /\
  m_closed (mux_closeStream m k) = m_closed m /\
  m_paths (mux_closeStream m k) = m_paths m /\
  List.length (m_streams (mux_closeStream m k)) = List.length (m_streams m) /\
  forall i, nth_error (m_streams (mux_closeStream m k)) i =
            if Nat.eqb i k then option_map (fun s => fst (stream_close k s (m_files m))) (nth_error (m_streams m) i)
            else nth_error (m_streams m) i.
Proof.
  intros m k. unfold mux_closeStream. destruct (nth_error (m_streams m) k) as [s|] eqn:E.
  - simpl. repeat split; auto.
    + apply upd_nth_length.
    + intros i. destruct (Nat.eqb i k) eqn:Ei.
      * apply Nat.eqb_eq in Ei. subst. rewrite E. simpl. apply nth_error_upd_nth_eq.
        apply nth_error_Some. congruence.
      * apply Nat.eqb_neq in Ei. apply nth_error_upd_nth_neq. congruence.
  - repeat split; auto. intros i. destruct (Nat.eqb i k) eqn:Ei; [|reflexivity].
    apply Nat.eqb_eq in Ei. subst. rewrite E. reflexivity.
Qed.

Lemma content_ready_closeStream : forall m k f,
  content_ready (mux_closeStream m k) f = content_ready m f.
Proof.
  intros m k f. destruct (closeStream_fields m k) as [Hv [_ [_ [_ Hn]]]].
  apply content_ready_streams; [exact Hv|]. intros i. rewrite Hn.
  destruct (Nat.eqb i k); [|reflexivity]. destruct (nth_error (m_streams m) i); reflexivity.
Qed.

Lemma content_ready_createFirst : forall m f,
  frame_ok f -> content_ready (mux_createFirstSegment m) f = true -> content_ready m f = true.
Proof.
  intros m f Hf H.
  destruct f as [|i msn p d|i d|i id];
    unfold content_ready, mux_createFirstSegment, set_streams in *; cbn [m_streams m_variant] in *;
    rewrite nth_error_map in H.
  - destruct (nth_error (m_streams m) 0); simpl in H; [exact H|discriminate].
  - destruct (nth_error (m_streams m) i) as [s|]; simpl in H; [|discriminate].
    unfold decide_core in *. change (range_reject (stream_createFirstSegment s) msn) with (range_reject s msn) in H.
    destruct (range_reject s msn); [reflexivity|].
    change (hasContent (m_variant m) (stream_createFirstSegment s)) with (hasContent (m_variant m) s) in H.
    destruct (hasContent (m_variant m) s); [|discriminate].
    destruct p as [p|]; [|exact H].
    destruct Hf as [_ Hp]. specialize (Hp p eq_refl).
    unfold hasPart in *. cbn [nextSegmentID segments nextSegment stream_createFirstSegment] in H.
    destruct (negb (msn =? nextSegmentID s)).
    + destruct ((msn <? u64 (nextSegmentID s - u64 (zlen (segments s)))) || (nextSegmentID s <? msn)); [exact H|].
      destruct (nth_error (segments s) _) as [[d0|id parts d0]|]; try discriminate; try reflexivity.
      destruct (p <? zlen parts); [reflexivity|].
      destruct (negb (u64 (msn + 1) =? nextSegmentID s)); [reflexivity|].
      rewrite zlen_nil in H. simpl in H. discriminate.
    + rewrite zlen_nil in H. replace (p <? 0) with false in H by lia. discriminate.
  - destruct (nth_error (m_streams m) i); simpl in H; [exact H|discriminate].
  - destruct (nth_error (m_streams m) i); simpl in H; [exact H|discriminate].
Qed.

Lemma wake_inv_step : forall c t,
  reqs_all pc_frame_ok c -> wake_inv c -> wake_inv (step c t).
Proof.
  intros c t F W. unfold step. destruct (c_wpc c) eqn:Ew; try exact W; destruct t as [|i].
  all: try (
    (* requester steps: the shared state and the writer's pc do not change *)
    destruct (rstep_shape c i) as [[_ E]|[r [Hr E]]]; rewrite E; [exact W|];
    intros j x f Hj Hp Hc; simpl c_mux in Hc; simpl c_wpc;
    apply with_req_nth in Hj; destruct Hj as [[-> [-> _]]|[_ Hj]];
    [ apply lstep_waiting in Hp; destruct Hp as [Hp|[_ Ht]];
      [ exact (W i r f Hr Hp Hc) | apply test_wait_not_ready in Ht; congruence ]
    | exact (W j x f Hj Hp Hc) ]).
  all: unfold wstep; rewrite Ew.
  - (* WIdle *)
    destruct (c_prog c) as [|o rest]; [exact W|].
    assert (G : forall w', wake_inv (mk (c_mux c) (Some TW) w' rest (c_reqs c) (c_progress c))).
    { intros w' j x f Hj Hp Hc. simpl in *. pose proof (W j x f Hj Hp Hc) as Ho. rewrite Ew in Ho. discriminate. }
    destruct o; try (destruct (c_owner c); [exact W|apply G]).
    intros j x f Hj Hp Hc. simpl in *.
    assert (Hf : frame_ok f). { pose proof (F j x Hj) as Hx. unfold pc_frame_ok in Hx. rewrite Hp in Hx. exact Hx. }
    pose proof (W j x f Hj Hp (content_ready_createFirst _ _ Hf Hc)) as Ho. rewrite Ew in Ho. exact Ho.
  - (* WLocked *)
    destruct (apply_wop (c_mux c) o); intros j x f Hj Hp Hc; simpl in *; [reflexivity|].
    pose proof (W j x f Hj Hp Hc) as Ho. rewrite Ew in Ho. discriminate.
  - intros j x f Hj Hp Hc; reflexivity.
  - (* broadcast *)
    intros j x f Hj Hp Hc. simpl in Hj. apply broadcast_nth in Hj. destruct Hj as [r [_ ->]].
    exfalso. eapply wake_not_waiting; eauto.
  - intros j x f Hj Hp Hc; simpl in *. rewrite content_ready_set_closed in Hc.
    pose proof (W j x f Hj Hp Hc) as Ho. rewrite Ew in Ho. discriminate.
  - intros j x f Hj Hp Hc; simpl in *. pose proof (W j x f Hj Hp Hc) as Ho. rewrite Ew in Ho. discriminate.
  - intros j x f Hj Hp Hc. simpl in Hj. apply broadcast_nth in Hj. destruct Hj as [r [_ ->]].
    exfalso. eapply wake_not_waiting; eauto.
  - destruct (Nat.ltb k (List.length (m_streams (c_mux c)))); intros j x f Hj Hp Hc; simpl in *.
    + rewrite content_ready_closeStream in Hc. pose proof (W j x f Hj Hp Hc) as Ho. rewrite Ew in Ho. discriminate.
    + pose proof (W j x f Hj Hp Hc) as Ho. rewrite Ew in Ho. discriminate.
  - exact W.
Qed.

Lemma wake_inv_init : forall m prog reqs, wake_inv (cinit m prog reqs).
Proof.
  intros m prog reqs i r f Hi Hp. simpl in Hi. apply nth_error_map_some in Hi.
  destruct Hi as [x [_ ->]]. discriminate.
Qed.

(* ---- the phases of Close ---- *)
Definition closing (w : wpc) : bool :=
  match w with CSet | CUnlocked | CStreams _ | WFinished => true | _ => false end.

(* whose files stream.close() has already removed, by phase *)
Definition closed_upto (w : wpc) (k : nat) : bool :=
  match w with CStreams j => Nat.ltb k j | WFinished => true | _ => false end.

Definition is_rotate (o : wop) : bool :=
  match o with WRotateParts | WRotateSegments _ => true | _ => false end.

Record phase_inv (c : cstate) : Prop := {
  ph_closed : m_closed (c_mux c) = closing (c_wpc c);
  ph_streams : forall k s, nth_error (m_streams (c_mux c)) k = Some s ->
                           s_closed s = closing (c_wpc c);
  ph_locked : forall o, c_wpc c = WLocked o -> is_rotate o = true;
  ph_bound : forall j, c_wpc c = CStreams j -> (j <= List.length (m_streams (c_mux c)))%nat
}.

Definition fresh (m : mux) : Prop :=
  m_closed m = false /\ forall k s, nth_error (m_streams m) k = Some s -> s_closed s = false.

(* rotations do not touch the closed flags or the number of streams *)
Lemma rotateParts_closed : forall v i s t s' t',
  stream_rotateParts v i s t = Some (s', t') -> s_closed s' = s_closed s.
Proof.
  intros v i s t s' t' H. unfold stream_rotateParts in H. destruct (nextSegment s); [|discriminate].
  destruct v; inversion H; reflexivity.
Qed.

Lemma rotateSegments_closed : forall v sc lead i dur s t fs s' t' fs',
  stream_rotateSegments v sc lead i dur s t fs = Some (s', t', fs') -> s_closed s' = s_closed s.
Proof.
  intros v sc lead i dur s t fs s' t' fs' H. unfold stream_rotateSegments in H.
  destruct (match v with
            | MPEGTS => match nextSegment s with None => None | Some _ => Some (s, t) end
            | _ => stream_rotateParts v i s t end) as [[s1 t1]|] eqn:E1; [|discriminate].
  assert (Ec : s_closed s1 = s_closed s).
  { destruct v; [destruct (nextSegment s); inversion E1; reflexivity| |]; eapply rotateParts_closed; eauto. }
  destruct (sc <? _) in H.
  - match type of H with context[match ?l with nil => _ | cons _ _ => _ end] => destruct l as [|[?|? ? ?] ?] end;
      inversion H; subst; simpl; exact Ec.
  - inversion H; subst; simpl; exact Ec.
Qed.

Lemma rotateParts_all_closed : forall v ss i t ss' t',
  rotateParts_all v i ss t = Some (ss', t') -> map s_closed ss' = map s_closed ss.
Proof.
  intros v ss; induction ss as [|s r IH]; intros i t ss' t' H; simpl in H.
  - inversion H; reflexivity.
  - destruct (stream_rotateParts v i s t) as [[s1 t1]|] eqn:E; [|discriminate].
    destruct (rotateParts_all v (S i) r t1) as [[r' t2]|] eqn:E2; [|discriminate].
    inversion H; subst. simpl. f_equal; [eapply rotateParts_closed; eauto|eapply IH; eauto].
Qed.

Lemma rotateSegments_all_closed : forall v sc lead dur ss i t fs ss' t' fs',
  rotateSegments_all v sc lead dur i ss t fs = Some (ss', t', fs') -> map s_closed ss' = map s_closed ss.
Proof.
  intros v sc lead dur ss; induction ss as [|s r IH]; intros i t fs ss' t' fs' H; simpl in H.
  - inversion H; reflexivity.
  - destruct (stream_rotateSegments v sc (Nat.eqb i lead) i dur s t fs) as [[[s1 t1] fs1]|] eqn:E; [|discriminate].
    destruct (rotateSegments_all v sc lead dur (S i) r t1 fs1) as [[[r' t2] fs2]|] eqn:E2; [|discriminate].
    inversion H; subst. simpl. f_equal; [eapply rotateSegments_closed; eauto|eapply IH; eauto].
Qed.

Lemma copy_targetDuration_closed : forall lead ss,
  map s_closed (copy_targetDuration lead ss) = map s_closed ss.
Proof.
  intros lead ss. unfold copy_targetDuration. destruct (nth_error ss lead); [|reflexivity].
  rewrite map_map. apply map_ext. intros; reflexivity.
Qed.

Lemma rotate_closed : forall m o m',
  is_rotate o = true -> apply_wop m o = Some m' ->
  m_closed m' = m_closed m /\ map s_closed (m_streams m') = map s_closed (m_streams m).
Proof.
  intros m o m' Hr H. destruct o; try discriminate; simpl in H.
  - unfold mux_rotateParts in H. destruct (rotateParts_all _ _ _ _) as [[ss t]|] eqn:E; [|discriminate].
    inversion H; subst; simpl. split; [reflexivity|]. eapply rotateParts_all_closed; eauto.
  - unfold mux_rotateSegments in H.
    destruct (rotateSegments_all _ _ _ _ _ _ _ _) as [[[ss t] fs]|] eqn:E; [|discriminate].
    inversion H; subst; simpl. split; [reflexivity|]. rewrite copy_targetDuration_closed.
    eapply rotateSegments_all_closed; eauto.
Qed.

Lemma map_closed_nth : forall ss ss' k s',
  map s_closed ss' = map s_closed ss -> nth_error ss' k = Some s' ->
  exists s, nth_error ss k = Some s /\ s_closed s' = s_closed s.
Proof.
  intros ss ss' k s' H Hk.
  assert (E : nth_error (map s_closed ss') k = Some (s_closed s')) by (apply map_nth_error; exact Hk).
  rewrite H in E. apply nth_error_map_some in E. destruct E as [s [Hs E]]. eauto.
Qed.

Lemma phase_inv_rstep : forall c i, phase_inv c -> phase_inv (rstep c i).
Proof.
  intros c i P. destruct (rstep_shape c i) as [[_ E]|[r [Hr E]]]; rewrite E; [exact P|].
  destruct P as [P1 P2 P3 P4]; constructor; simpl; assumption.
Qed.

Lemma phase_inv_step : forall c t, phase_inv c -> phase_inv (step c t).
Proof.
  intros c t P. unfold step. destruct t as [|i];
    [|destruct (c_wpc c); try exact P; apply phase_inv_rstep; exact P].
  pose proof P as P0.
  destruct (c_wpc c) eqn:Ew; try exact P.
  all: destruct P as [P1 P2 P3 P4]; unfold wstep; rewrite Ew; rewrite Ew in P1, P2, P3, P4; simpl in P1, P2.
  - (* WIdle *)
    destruct (c_prog c) as [|o rest]; [exact P0|].
    destruct o.
    + constructor; simpl; try (intros; discriminate); [exact P1|].
      intros k s Hk. rewrite nth_error_map in Hk.
      destruct (nth_error (m_streams (c_mux c)) k) as [s0|] eqn:E0; [|discriminate].
      inversion Hk; subst. simpl. exact (P2 k s0 E0).
    + destruct (c_owner c); [exact P0|].
      constructor; simpl; auto; try (intros; discriminate). intros o Ho. inversion Ho; reflexivity.
    + destruct (c_owner c); [exact P0|].
      constructor; simpl; auto; try (intros; discriminate). intros o Ho. inversion Ho; reflexivity.
    + destruct (c_owner c); [exact P0|].
      constructor; simpl; auto; try (intros; discriminate).
  - (* WLocked o *)
    pose proof (P3 o eq_refl) as Hrot.
    destruct (apply_wop (c_mux c) o) as [m'|] eqn:Ea.
    + destruct (rotate_closed _ _ _ Hrot Ea) as [Hc Hs].
      constructor; simpl; try (intros; discriminate).
      * rewrite Hc. exact P1.
      * intros k s Hk. destruct (map_closed_nth _ _ _ _ Hs Hk) as [s0 [H0 Hcl]].
        rewrite Hcl. exact (P2 k s0 H0).
    + constructor; simpl; try (intros; discriminate); auto.
  - constructor; simpl; try (intros; discriminate); auto.
  - constructor; simpl; try (intros; discriminate); auto.
  - (* CLocked -> CSet: every closed flag is set, under the mutex *)
    constructor; simpl; try (intros; discriminate); auto.
    intros k s Hk. rewrite nth_error_map in Hk.
    destruct (nth_error (m_streams (c_mux c)) k); [|discriminate]. inversion Hk; reflexivity.
  - constructor; simpl; try (intros; discriminate); auto.
  - constructor; simpl; try (intros; discriminate); auto.
    intros j Hj. inversion Hj. lia.
  - (* CStreams k: stream.close() only removes files *)
    pose proof (P4 k eq_refl) as Hb.
    destruct (Nat.ltb k (List.length (m_streams (c_mux c)))) eqn:Ek.
    + apply Nat.ltb_lt in Ek. destruct (closeStream_fields (c_mux c) k) as [Hv [Hc [_ [Hl Hn]]]].
      constructor; simpl; try (intros; discriminate).
      * rewrite Hc. exact P1.
      * intros j s Hj. rewrite Hn in Hj. destruct (Nat.eqb j k) eqn:Ej.
        -- destruct (nth_error (m_streams (c_mux c)) j) as [s0|] eqn:E0; simpl in Hj; [|discriminate].
           inversion Hj; subst. exact (P2 j _ E0).
        -- exact (P2 j s Hj).
      * intros j Hj. inversion Hj; subst. rewrite Hl. lia.
    + constructor; simpl; try (intros; discriminate); auto.
  - exact P0.
Qed.

Lemma phase_inv_init : forall m prog reqs, fresh m -> phase_inv (cinit m prog reqs).
Proof.
  intros m prog reqs [F1 F2]. constructor; simpl; auto; intros; discriminate.
Qed.

(* once Close has set the flags no loop test waits any more *)
Lemma test_closed_no_wait : forall m q f,
  m_closed m = true -> (forall k s, nth_error (m_streams m) k = Some s -> s_closed s = true) ->
  test m q f <> TWait.
Proof.
  intros m q f Hc Hs H. destruct f as [|k msn p d|k d|k id]; unfold test in H.
  - rewrite Hc in H. discriminate.
  - destruct (nth_error (m_streams m) k) as [s|] eqn:E; [|discriminate]. rewrite (Hs k s E) in H. discriminate.
  - destruct (nth_error (m_streams m) k) as [s|] eqn:E; [|discriminate]. rewrite (Hs k s E) in H. discriminate.
  - destruct (nth_error (m_streams m) k) as [s|] eqn:E; [|discriminate]. rewrite (Hs k s E) in H. discriminate.
Qed.

Lemma no_wait_when_closing : forall c, phase_inv c -> closing (c_wpc c) = true ->
  forall q f, test (c_mux c) q f <> TWait.
Proof.
  intros c P Hw q f. apply test_closed_no_wait.
  - rewrite (ph_closed _ P). exact Hw.
  - intros k s Hk. rewrite (ph_streams _ P k s Hk). exact Hw.
Qed.

(* ---- after Close's broadcast nobody is asleep, and nobody falls asleep again ---- *)
Definition late_inv (c : cstate) : Prop :=
  close_broadcast_done (c_wpc c) = true ->
  forall i r f, nth_error (c_reqs c) i = Some r -> r_pc r <> PWaiting f.

Lemma late_inv_rstep : forall c i, phase_inv c -> late_inv c -> late_inv (rstep c i).
Proof.
  intros c i P L.
  destruct (rstep_shape c i) as [[_ E]|[r [Hr E]]]; rewrite E; [exact L|].
  intros Hd j x f Hj Hp. simpl c_wpc in Hd.
  apply with_req_nth in Hj. destruct Hj as [[-> [-> _]]|[_ Hj]]; [|exact (L Hd j x f Hj Hp)].
  apply lstep_waiting in Hp. destruct Hp as [Hp|[_ Ht]].
  - exact (L Hd i r f Hr Hp).
  - apply (no_wait_when_closing c P) in Ht; [exact Ht|].
    destruct (c_wpc c); try discriminate; reflexivity.
Qed.

Lemma late_inv_step : forall c t, phase_inv c -> late_inv c -> late_inv (step c t).
Proof.
  intros c t P L. unfold step. destruct t as [|i];
    [|destruct (c_wpc c); try exact L; apply late_inv_rstep; assumption].
  destruct (c_wpc c) eqn:Ew; try exact L; unfold wstep; rewrite Ew.
  - destruct (c_prog c) as [|o rest]; [exact L|].
    destruct o; try (destruct (c_owner c); [exact L|]); intros Hd; discriminate.
  - destruct (apply_wop (c_mux c) o); intros Hd; discriminate.
  - intros Hd; discriminate.
  - intros Hd; discriminate.
  - intros Hd; discriminate.
  - intros Hd; discriminate.
  - (* the broadcast of Close: nobody is asleep afterwards *)
    intros _ j x f Hj Hp. simpl in Hj. apply broadcast_nth in Hj. destruct Hj as [r [_ ->]].
    eapply wake_not_waiting; eauto.
  - assert (Hd0 : close_broadcast_done (c_wpc c) = true) by (rewrite Ew; reflexivity).
    destruct (Nat.ltb k (List.length (m_streams (c_mux c)))); intros _ j x f Hj Hp; simpl in *;
      exact (L Hd0 j x f Hj Hp).
  - exact L.
Qed.

Lemma late_inv_init : forall m prog reqs, late_inv (cinit m prog reqs).
Proof. intros m prog reqs H. discriminate. Qed.
