(* Non-vacuity of the hypotheses of [lockset_sound]: a concrete trace with a lock hand-over and
   a publication that is well formed, conforms to its table, and whose table checks; and a
   concrete racy trace (the definition of a race is not trivially false). *)
From Coq Require Import List Arith Bool Lia Relations.
From GoHls Require Import Model.Lockset Proofs.LocksetSound.
Import ListNotations.

(* field 0 is guarded by mutex 0; field 1 is written before the object is published *)
Definition exW : access := {| a_id := 0; a_loc := 0; a_write := true; a_role := Writer;
  a_locks := [(0, Excl)]; a_pre := []; a_post := []; a_fn := 0; a_line := 1 |}.
Definition exR : access := {| a_id := 1; a_loc := 0; a_write := false; a_role := Reader;
  a_locks := [(0, Excl)]; a_pre := []; a_post := []; a_fn := 1; a_line := 2 |}.
Definition exP : access := {| a_id := 2; a_loc := 1; a_write := true; a_role := Writer;
  a_locks := []; a_pre := [KListed]; a_post := []; a_fn := 0; a_line := 3 |}.
Definition exQ : access := {| a_id := 3; a_loc := 1; a_write := false; a_role := Reader;
  a_locks := []; a_pre := []; a_post := [KListed]; a_fn := 1; a_line := 4 |}.
Definition exT : list access := [exW; exR; exP; exQ].

Definition ex_trace : trace :=
  [ Acc 0 exP 7;                 (* 0 writer fills the part *)
    Acq 0 0 Excl;                (* 1 *)
    Acc 0 exW 5;                 (* 2 writer updates the guarded field *)
    Pub 0 (KListed, 7);          (* 3 registerPath *)
    Rel 0 0 Excl;                (* 4 *)
    Acq 1 0 Excl;                (* 5 reader *)
    Acc 1 exR 5;                 (* 6 *)
    Rel 1 0 Excl;                (* 7 *)
    Sub 1 (KListed, 7);          (* 8 handler looked up *)
    Acc 1 exQ 7 ].               (* 9 *)

Ltac idx_go n i H :=
  lazymatch n with
  | O => try (simpl in H; destruct i; discriminate)
  | S ?n' => destruct i as [|i]; [simpl in H; try discriminate | idx_go n' i H]
  end.
Ltac idx i H := unfold at_ in H; idx_go 10 i H.

Lemma ex_holds_0 : holds ex_trace 0 0 Excl 2.
Proof.
  exists 1. split; [lia|]. split; [reflexivity|].
  intros r x' H1 H2 H. lia.
Qed.

Lemma ex_holds_1 : holds ex_trace 1 0 Excl 6.
Proof.
  exists 5. split; [lia|]. split; [reflexivity|].
  intros r x' H1 H2 H. lia.
Qed.

Lemma ex_wf : wf_trace ex_trace.
Proof.
  constructor.
  - intros q t m x t' x' Hq Hne (q0 & Hlt & Hacq & Hnr).
    idx q Hq; inversion Hq; subst.
    + (* acquire at 1: nobody acquired before *)
      idx q0 Hacq; lia.
    + (* acquire at 5 by thread 1: thread 0's acquire at 1 was released at 4 *)
      idx q0 Hacq; try lia; inversion Hacq; subst.
      exfalso. apply (Hnr 4 Excl); try lia. reflexivity.
  - intros r t m x x' Hr (q0 & Hlt & Hacq & Hnr).
    idx r Hr; inversion Hr; subst; idx q0 Hacq; try lia; inversion Hacq; subst; reflexivity.
  - intros s t k Hs. idx s Hs; inversion Hs; subst.
    exists 3, 0. split; [lia|reflexivity].
Qed.

Lemma ex_conforms : conforms ex_trace.
Proof.
  constructor.
  - intros i t a o m x Hi Hin.
    idx i Hi; inversion Hi; subst; simpl in Hin;
      repeat (destruct Hin as [Hin|Hin]; [inversion Hin; subst|]); try contradiction.
    + exact ex_holds_0.
    + exact ex_holds_1.
  - intros i t a o k p t' Hi Hin Hp.
    idx i Hi; inversion Hi; subst; simpl in Hin;
      repeat (destruct Hin as [Hin|Hin]; [subst|]); try contradiction.
    idx p Hp; inversion Hp; subst. split; [lia|reflexivity].
  - intros j t a o k Hj Hin.
    idx j Hj; inversion Hj; subst; simpl in Hin;
      repeat (destruct Hin as [Hin|Hin]; [subst|]); try contradiction.
    exists 8. split; [lia|reflexivity].
  - intros i j t t' a b o o' Hi Hj Ha Hb.
    idx i Hi; inversion Hi; subst; simpl in Ha; try discriminate;
      idx j Hj; inversion Hj; subst; simpl in Hb; try discriminate; reflexivity.
  - intros i j t t' a b o o' Hi Hj Ha Hb.
    idx i Hi; inversion Hi; subst; simpl in Ha; discriminate.
Qed.

Lemma ex_runs : runs_table exT ex_trace.
Proof.
  intros i t a o Hi. idx i Hi; inversion Hi; subst; simpl; auto.
Qed.

Lemma ex_table_ok : table_ok exT = true.
Proof. reflexivity. Qed.

(* all hypotheses of lockset_sound hold of a trace with two threads, two conflicting pairs *)
Lemma example_hypotheses_satisfiable :
  wf_trace ex_trace /\ conforms ex_trace /\ runs_table exT ex_trace /\ table_ok exT = true /\
  (exists i j t t' a b o, i <> j /\ at_ ex_trace i (Acc t a o) /\ at_ ex_trace j (Acc t' b o) /\
                          t <> t' /\ conflicting a b).
Proof.
  split; [exact ex_wf|]. split; [exact ex_conforms|]. split; [exact ex_runs|].
  split; [exact ex_table_ok|].
  exists 2, 6, 0, 1, exW, exR, 5. repeat split; try reflexivity; try lia.
  left. reflexivity.
Qed.

(* ---------- a racy trace: two unguarded accesses, no publication ---------- *)
Definition badW : access := {| a_id := 0; a_loc := 0; a_write := true; a_role := Writer;
  a_locks := []; a_pre := []; a_post := []; a_fn := 0; a_line := 1 |}.
Definition badR : access := {| a_id := 1; a_loc := 0; a_write := false; a_role := Reader;
  a_locks := []; a_pre := []; a_post := []; a_fn := 1; a_line := 2 |}.
Definition bad_trace : trace := [Acc 0 badW 5; Acc 1 badR 5].

Lemma bad_no_hb1 : forall i j, hb1 bad_trace i j -> False.
Proof.
  intros i j H. destruct H as [i j e1 e2 Hlt H1 H2 Ht|r q t t' m x y Hlt H1 H2 _|p s t t' k Hlt H1 H2].
  - unfold at_ in *. destruct i as [|[|i]]; destruct j as [|[|j]]; simpl in *;
      try lia; try discriminate.
    all: try (inversion H1; inversion H2; subst; simpl in Ht; discriminate).
    all: try (destruct j; discriminate).
    all: try (destruct i; discriminate).
  - unfold at_ in H1. destruct r as [|[|r]]; simpl in H1; try discriminate. destruct r; discriminate.
  - unfold at_ in H1. destruct p as [|[|p]]; simpl in H1; try discriminate. destruct p; discriminate.
Qed.

Lemma bad_no_hb : forall i j, hb bad_trace i j -> False.
Proof.
  intros i j H. induction H as [x y H|x y z _ IH _ _]; [eapply bad_no_hb1; eauto|assumption].
Qed.

Lemma example_race : race bad_trace /\ table_ok [badW; badR] = false.
Proof.
  split; [|reflexivity].
  exists 0, 1, 0, 1, badW, badR, 5. repeat split; try reflexivity; try lia.
  - left. reflexivity.
  - intro H. eapply bad_no_hb; eauto.
  - intro H. eapply bad_no_hb; eauto.
Qed.
