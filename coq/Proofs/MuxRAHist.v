(* C02, fMP4 variants: every segment of the leading track's stream begins with a random-access unit, in
   every state reachable by successful writes whose video units lie at or after -10 s (continues
   MuxRAStart.v: lifting from single fmp4WriteSample calls to writes and histories). *)
From Coq Require Import List ZArith Bool Lia Arith.
From GoHls Require Import Model.Mux Proofs.MuxStream Proofs.MuxLift Proofs.MuxWindow Proofs.MuxHistory Proofs.MuxTimes
  Proofs.MuxMulti Proofs.MuxCut Proofs.MuxLog Proofs.MuxLogStep Proofs.MuxLogTS Proofs.MuxPartIds Proofs.MuxAgree
  Proofs.MuxGroups Proofs.MuxRAStart.
Import ListNotations.
Local Open Scope Z_scope.

Lemma heads_video_params m ti t a ex : heads (fst (video_params m ti t a ex)) = heads m.
Proof.
  unfold video_params, heads.
  assert (Hu : forall p, map tk_nf (m_tracks (upd_track m ti (fun t0 => tk_with t0 (tk_firstRA t0) p (tk_next t0) (tk_samples t0) (tk_start t0))))
                         = map tk_nf (m_tracks m)).
  { intros p. unfold upd_track. cbn [set_tracks m_tracks]. apply map_upd_static. intros x. reflexivity. }
  destruct (a_params a) as [p|]; [destruct (ex && negb (p =? tk_params t))|];
    match goal with |- context [if ?c then _ else _] => destruct c end; cbn [fst set_pending m_tracks]; auto.
Qed.

Lemma video_params_streams' m ti t a ex :
  m_streams (fst (video_params m ti t a ex)) = m_streams m
  /\ map tk_frame (m_tracks (fst (video_params m ti t a ex))) = map tk_frame (m_tracks m).
Proof.
  unfold video_params.
  assert (Hu : forall p, map tk_frame (m_tracks (upd_track m ti (fun t0 => tk_with t0 (tk_firstRA t0) p (tk_next t0) (tk_samples t0) (tk_start t0))))
                         = map tk_frame (m_tracks m)).
  { intros p. unfold upd_track. cbn [set_tracks m_tracks]. apply map_upd_static. intros x. reflexivity. }
  destruct (a_params a) as [p|]; [destruct (ex && negb (p =? tk_params t))|];
    match goal with |- context [if ?c then _ else _] => destruct c end; cbn [fst set_pending m_tracks m_streams]; auto.
Qed.

Lemma samples_of_frame l l' : map tk_frame l' = map tk_frame l -> map tk_samples l' = map tk_samples l.
Proof.
  intros H. assert (E : map (fun t => snd (fst (tk_frame t))) l' = map (fun t => snd (fst (tk_frame t))) l).
  { rewrite <- !(map_map tk_frame (fun x => snd (fst x))). now rewrite H. }
  exact E.
Qed.

Lemma pending_of_heads m m' ti : heads m' = heads m -> pending m' ti = pending m ti.
Proof.
  intros E. unfold pending.
  assert (H : nth_error (heads m') ti = nth_error (heads m) ti) by now rewrite E.
  unfold heads in H. rewrite !nth_error_map in H.
  destruct (nth_error (m_tracks m') ti), (nth_error (m_tracks m) ti); simpl in H; unfold tk_nf in H; congruence.
Qed.

Section History.
  Variable F0 : list bool.
  Variable T0 : list (tcfg * bool * nat).
  Hypothesis HOL : OneLead F0.
  Hypothesis HLEN : length F0 = length T0.
  (* track i and stream i carry the same leading flag *)
  Hypothesis HTL : forall i b x, nth_error F0 i = Some b -> nth_error T0 i = Some x -> snd (fst x) = b.

  Definition li : nat := lead_go 0 F0.

  Lemma li_spec : nth_error F0 li = Some true /\ forall j, nth_error F0 j = Some true -> j = li.
  Proof.
    destruct HOL as (k & Hk & Hu). unfold li. rewrite (lead_go_unique _ 0 k Hk Hu). simpl. auto.
  Qed.

  Lemma ST_lead m : ST F0 T0 m -> leading_index m = li /\ OneLeadS m.
  Proof.
    intros (_ & _ & C & _). destruct li_spec as [Hk Hu].
    assert (Hli : leading_index m = li) by (rewrite leading_index_flags, C; reflexivity).
    split; [exact Hli|]. rewrite <- C in Hk, Hu.
    apply map_nth_error_inv in Hk. destruct Hk as (sl & Hsl & Hl).
    exists sl. rewrite leading_stream_nth, Hli. split; [exact Hsl|]. split; [exact Hl|].
    intros j s Hj Hls. apply Hu. erewrite map_nth_error by exact Hj. now rewrite Hls.
  Qed.

  (* the leading flag of track i, from the static tables *)
  Lemma track_leading_flag m i t : ST F0 T0 m -> nth_error (m_tracks m) i = Some t -> tk_leading t = Nat.eqb i li.
  Proof.
    intros (_ & _ & C & D) Ht. destruct li_spec as [Hk Hu].
    assert (Hx : nth_error T0 i = Some (tk_static t)) by (rewrite <- D; erewrite map_nth_error by exact Ht; reflexivity).
    assert (Hlt : (i < length F0)%nat) by (rewrite HLEN; apply nth_error_Some; congruence).
    destruct (nth_error F0 i) as [b|] eqn:Eb; [|apply nth_error_None in Eb; lia].
    pose proof (HTL i b (tk_static t) Eb Hx) as E. cbn [tk_static fst snd] in E. rewrite E.
    destruct (Nat.eqb_spec i li) as [->|Hne]; [congruence|].
    destruct b; [exfalso; apply Hne; now apply Hu|reflexivity].
  Qed.

  (* a video track whose look-ahead is empty has not yet seen its first random-access unit *)
  Definition FR (m : mstate) : Prop :=
    forall i t, nth_error (m_tracks m) i = Some t -> isVideo (t_kind (tk_cfg t)) = true -> tk_next t = None -> tk_firstRA t = false.

  Record INV (m : mstate) : Prop := { inv_st : ST F0 T0 m; inv_fr : FR m; inv_ra : RAI m li }.

  Definition wf_op (o : wop) : Prop :=
    match o with
    | WWrite tj a => forall x, nth_error T0 tj = Some x -> isVideo (t_kind (fst (fst x))) = true ->
                     0 <= a_dts a + durationToTimestamp fmp4StartDTS (t_rate (fst (fst x)))
    end.

  Lemma FR_of_heads m m' :
    map tk_static (m_tracks m') = map tk_static (m_tracks m) -> heads m' = heads m -> FR m -> FR m'.
  Proof.
    intros Es Eh H i t' Ht' Hv Hn.
    assert (A : option_map tk_static (nth_error (m_tracks m') i) = option_map tk_static (nth_error (m_tracks m) i))
      by (rewrite <- !nth_error_map, Es; reflexivity).
    assert (B : nth_error (heads m') i = nth_error (heads m) i) by now rewrite Eh.
    unfold heads in B. rewrite !nth_error_map in B. rewrite Ht' in A, B. simpl in A, B.
    destruct (nth_error (m_tracks m) i) as [t|] eqn:Et; simpl in A, B; [|discriminate].
    injection A as Ac _ _. injection B as Bn Bf. rewrite Bf. apply (H i t Et); congruence.
  Qed.

  (* one call of fmp4WriteSample, given what the front ends guarantee about it *)
  Lemma INV_fmp4 m tj t ra pc smp0 m' :
    ST F0 T0 m -> RAI m li -> nth_error (m_tracks m) tj = Some t ->
    s_nonsync smp0 = negb ra -> (tk_next t = None -> ra = true) ->
    fmp4WriteSample m tj ra pc smp0 = (m', Ok tt) ->
    ST F0 T0 m' /\ RAI m' li
    /\ heads m' = (if shifted t smp0 <? 0 then heads m else upd (heads m) tj (fun h => (Some (incoming_of t smp0), snd h))).
  Proof.
    intros HS HR Ht Hsy Hfirst Hw.
    assert (HS' : ST F0 T0 m') by (pose proof (ST_fmp4WriteSample F0 T0 m tj ra pc smp0 HS) as H; now rewrite Hw in H).
    split; [exact HS'|]. split; [|eapply heads_fmp4WriteSample; eauto].
    destruct HS as (HLB & HO & HF & HT).
    destruct (Z_lt_le_dec (shifted t smp0) 0) as [Hneg|Hpos].
    - destruct (fmp4_log_step m tj t ra pc smp0 m' (proj1 HLB) Ht Hw) as (_ & _ & _ & _ & E). now rewrite (E Hneg).
    - pose proof (track_leading_flag m tj t (conj HLB (conj HO (conj HF HT))) Ht) as Hl.
      destruct (Nat.eqb_spec tj li) as [->|Hne].
      + destruct (ST_lead m (conj HLB (conj HO (conj HF HT)))) as [_ HOLS].
        eapply RAI_leading_write; eauto.
      + eapply RAI_other_write; eauto. exact (proj1 HLB).
  Qed.

  Lemma INV_write_video m tj t a m' :
    INV m -> nth_error (m_tracks m) tj = Some t -> isVideo (t_kind (tk_cfg t)) = true -> wf_op (WWrite tj a) ->
    write_video m tj t a = (m', Ok tt) -> INV m'.
  Proof.
    intros [HS HF HR] Ht Hv Hwf. unfold write_video. cbv zeta.
    set (ex := match t_kind (tk_cfg t) with H264 | H265 => true | _ => a_ra a end).
    pose proof (heads_video_params m tj t a ex) as Hh1.
    destruct (video_params_streams' m tj t a ex) as [Es1 Ef1].
    pose proof (TC_video_params (ST F0 T0) (ST_frame F0 T0) m tj t a ex HS) as S1.
    destruct (video_params m tj t a ex) as [m1 pc0]. cbn [fst] in *.
    assert (Est1 : map tk_static (m_tracks m1) = map tk_static (m_tracks m)) by now apply tk_static_of_frame.
    assert (I1 : INV m1).
    { constructor; [exact S1|eapply FR_of_heads; eauto|].
      apply (RAI_ext m); auto; [now apply samples_of_frame|now apply pending_of_heads]. }
    assert (Hskip : forall mr, wok m1 = (mr, Ok tt) -> INV mr) by (intros mr [= <-]; exact I1).
    (* the unit is handed to the segmenter *)
    set (m2 := set_firstRA m1 tj).
    assert (Hgo : negb (tk_firstRA t) && negb (a_ra a) = false ->
                  forall mr, fmp4WriteSample m2 tj (a_ra a) pc0 (video_sample a) = (mr, Ok tt) -> INV mr).
    { intros Hgate mr Hw.
      assert (Ef2 : map tk_frame (m_tracks m2) = map tk_frame (m_tracks m)).
      { rewrite <- Ef1. subst m2. unfold set_firstRA, upd_track. cbn [set_tracks m_tracks]. apply map_upd_static. intros x. reflexivity. }
      assert (S2 : ST F0 T0 m2).
      { subst m2. unfold set_firstRA, upd_track, set_tracks. apply ST_frame; [|exact S1].
        apply map_upd_static. intros x. reflexivity. }
      assert (Hh2 : heads m2 = upd (heads m) tj (fun h => (fst h, true))).
      { rewrite <- Hh1. subst m2. unfold heads, set_firstRA, upd_track. cbn [set_tracks m_tracks]. clear.
        generalize (m_tracks m1) as l. intros l. revert tj. induction l as [|x l IH]; intros [|i]; simpl; auto. now rewrite IH. }
      assert (Ht2 : exists t2, nth_error (m_tracks m2) tj = Some t2 /\ tk_cfg t2 = tk_cfg t /\ tk_next t2 = tk_next t).
      { assert (A : option_map tk_frame (nth_error (m_tracks m2) tj) = option_map tk_frame (nth_error (m_tracks m) tj))
          by (rewrite <- !nth_error_map, Ef2; reflexivity).
        assert (B : nth_error (heads m2) tj = nth_error (upd (heads m) tj (fun h => (fst h, true))) tj) by now rewrite Hh2.
        unfold heads in B. rewrite nth_error_map in B.
        rewrite (nth_error_upd_same _ tj _ (tk_nf t)) in B by (erewrite map_nth_error by exact Ht; reflexivity).
        rewrite Ht in A. destruct (nth_error (m_tracks m2) tj) as [t2|]; simpl in A, B; [|discriminate].
        exists t2. split; [reflexivity|]. injection A as Ac _ _ _ _. injection B as Bn _. auto. }
      destruct Ht2 as (t2 & Ht2 & Ec2 & En2).
      assert (R2 : RAI m2 li).
      { apply (RAI_ext m); auto; [now apply samples_of_frame|].
        unfold pending. destruct (Nat.eq_dec li tj) as [->|Hne].
        - now rewrite Ht2, Ht, En2.
        - assert (B : nth_error (heads m2) li = nth_error (heads m) li) by (rewrite Hh2; apply nth_error_upd_other; congruence).
          unfold heads in B. rewrite !nth_error_map in B.
          destruct (nth_error (m_tracks m2) li), (nth_error (m_tracks m) li); simpl in B; unfold tk_nf in B; congruence. }
      assert (Hfirst : tk_next t2 = None -> a_ra a = true).
      { rewrite En2. intros Hn. rewrite (HF tj t Ht Hv Hn) in Hgate. cbn [negb andb] in Hgate. now destruct (a_ra a). }
      destruct (INV_fmp4 m2 tj t2 (a_ra a) pc0 (video_sample a) mr S2 R2 Ht2 eq_refl Hfirst Hw) as (S3 & R3 & H3).
      (* the unit is at or after -10 s *)
      assert (Hsh : 0 <= shifted t2 (video_sample a)).
      { unfold shifted. cbn [video_sample s_dts]. rewrite Ec2. apply (Hwf (tk_static t)).
        - destruct HS as (_ & _ & _ & D). rewrite <- D. erewrite map_nth_error by exact Ht. reflexivity.
        - exact Hv. }
      assert (E0 : (shifted t2 (video_sample a) <? 0) = false) by (apply Z.ltb_ge; exact Hsh).
      rewrite E0 in H3.
      constructor; [exact S3| |exact R3].
      intros i ti' Hti' Hvi Hni.
      assert (B : nth_error (heads mr) i = nth_error (upd (heads m2) tj (fun h => (Some (incoming_of t2 (video_sample a)), snd h))) i) by now rewrite H3.
      unfold heads in B at 1. rewrite nth_error_map, Hti' in B. simpl in B.
      destruct (Nat.eq_dec tj i) as [->|Hne].
      - rewrite (nth_error_upd_same _ i _ (tk_nf t2)) in B by (unfold heads; erewrite map_nth_error by exact Ht2; reflexivity).
        injection B as Bn _. congruence.
      - rewrite nth_error_upd_other in B by exact Hne. rewrite Hh2, nth_error_upd_other in B by exact Hne.
        unfold heads in B. rewrite nth_error_map in B.
        destruct (nth_error (m_tracks m) i) as [t0|] eqn:Et0; simpl in B; [|discriminate].
        injection B as Bn Bf. rewrite Bf. apply (HF i t0 Et0); [|congruence].
        (* same configuration: statics are fixed *)
        destruct S3 as (_ & _ & _ & D3). destruct HS as (_ & _ & _ & D).
        assert (X : option_map tk_static (nth_error (m_tracks mr) i) = option_map tk_static (nth_error (m_tracks m) i))
          by (rewrite <- !nth_error_map, D3, D; reflexivity).
        rewrite Hti', Et0 in X. simpl in X. injection X as Xc _ _. congruence. }
    destruct (t_kind (tk_cfg t)) eqn:Ek; try discriminate.
    - destruct (negb (a_ra a) && negb (a_nonidr a)); [apply Hskip|].
      destruct (negb (tk_firstRA t) && negb (a_ra a)) eqn:Eg; [apply Hskip|].
      destruct I1 as [S1' _ _]. destruct S1' as ((L1 & _) & _).
      destruct (c_variant (m_cfg m)) eqn:Ev.
      + exfalso. destruct HS as ((L & _) & _). exact (li_variant m L Ev).
      + now apply Hgo.
      + now apply Hgo.
    - destruct (negb (tk_firstRA t) && negb (a_ra a)) eqn:Eg; [apply Hskip|now apply Hgo].
    - destruct (negb (tk_firstRA t) && negb (a_ra a)) eqn:Eg; [apply Hskip|now apply Hgo].
    - destruct (negb (tk_firstRA t) && negb (a_ra a)) eqn:Eg; [apply Hskip|now apply Hgo].
  Qed.

  Lemma INV_audio_units units : forall m tj t k rate srate i pts ntp m',
    INV m -> nth_error (m_tracks m) tj = Some t -> isVideo (t_kind (tk_cfg t)) = false ->
    write_audio_units m tj k rate srate i pts ntp units = (m', Ok tt) -> INV m'.
  Proof.
    induction units as [|x units IH]; intros m tj t k rate srate i pts ntp m' HI Ht Hv; cbn [write_audio_units].
    - intros [= <-]. exact HI.
    - destruct (match k with OPUS => (pts, ntp) | _ => _ end) as [upts untp].
      match goal with |- context [fmp4WriteSample m tj true false ?s] =>
        set (smp := s); destruct (fmp4WriteSample m tj true false smp) as [m1 r] eqn:Ew end.
      destruct r as [[]|e|p]; [|discriminate|discriminate].
      destruct HI as [HS HF HR].
      destruct (INV_fmp4 m tj t true false smp m1 HS HR Ht eq_refl (fun _ => eq_refl) Ew) as (S1 & R1 & H1).
      assert (I1 : INV m1).
      { constructor; [exact S1| |exact R1].
        (* the look-ahead / first-RA state of every VIDEO track is untouched by an audio write *)
        intros j tj' Htj' Hvj Hnj.
        destruct S1 as (_ & _ & _ & D1). pose proof HS as (_ & _ & _ & D).
        assert (X : option_map tk_static (nth_error (m_tracks m1) j) = option_map tk_static (nth_error (m_tracks m) j))
          by (rewrite <- !nth_error_map, D1, D; reflexivity).
        rewrite Htj' in X. simpl in X. destruct (nth_error (m_tracks m) j) as [t0|] eqn:Et0; simpl in X; [|discriminate].
        injection X as Xc _ _.
        assert (Hne : tj <> j) by (intros ->; rewrite Ht in Et0; injection Et0 as <-; congruence).
        assert (B : nth_error (heads m1) j = nth_error (heads m) j).
        { rewrite H1. destruct (shifted t smp <? 0); [reflexivity|]. now apply nth_error_upd_other. }
        unfold heads in B. rewrite !nth_error_map, Htj', Et0 in B. simpl in B. injection B as Bn Bf.
        rewrite Bf. apply (HF j t0 Et0); congruence. }
      (* track tj is still there, still an audio track *)
      assert (Ht1 : exists t1, nth_error (m_tracks m1) tj = Some t1 /\ isVideo (t_kind (tk_cfg t1)) = false).
      { destruct S1 as (_ & _ & _ & D1). pose proof HS as (_ & _ & _ & D).
        assert (X : option_map tk_static (nth_error (m_tracks m1) tj) = option_map tk_static (nth_error (m_tracks m) tj))
          by (rewrite <- !nth_error_map, D1, D; reflexivity).
        rewrite Ht in X. simpl in X. destruct (nth_error (m_tracks m1) tj) as [t1|]; simpl in X; [|discriminate].
        exists t1. split; [reflexivity|]. injection X as Xc _ _. congruence. }
      destruct Ht1 as (t1 & Ht1 & Hv1).
      intros Hr. destruct k; eapply IH; eauto.
  Qed.

  Theorem INV_mux_step m o m' :
    INV m -> wf_op o -> mux_step m o = (m', Ok tt) -> INV m'.
  Proof.
    intros HI Hwf. destruct o as [tj a]. unfold mux_step, mux_write.
    destruct (nth_error (m_tracks m) tj) as [t|] eqn:Ht; [|intros [= <-]; exact HI].
    destruct (isVideo (t_kind (tk_cfg t))) eqn:Hv.
    - intros Hw. eapply INV_write_video; eauto.
    - unfold write_audio. pose proof (inv_st m HI) as ((L & _) & _).
      destruct (c_variant (m_cfg m)) eqn:Ev; [exfalso; exact (li_variant m L Ev)| |];
        intros Hw; eapply INV_audio_units; eauto.
  Qed.

  Theorem INV_mux_run ops : forall m, INV m -> Forall wf_op ops -> all_ok m ops -> INV (mux_run m ops).
  Proof.
    induction ops as [|o ops IH]; intros m HI Hwf Hok; [exact HI|]. cbn [mux_run].
    inversion Hwf as [|? ? Hw1 Hw2]; subst. destruct Hok as [Hr Hok].
    apply IH; auto. eapply INV_mux_step; eauto. rewrite <- Hr. apply surjective_pairing.
  Qed.
End History.

(* ---- the initial state ---- *)
Lemma mk_tracks_static c ts : forall i k t,
  nth_error (mk_tracks c i ts) k = Some t ->
  exists t0, nth_error ts k = Some t0 /\ tk_cfg t = t0 /\ tk_leading t = track_leading c (i + k) t0
             /\ tk_next t = None /\ tk_firstRA t = false /\ tk_samples t = None.
Proof.
  induction ts as [|t0 ts IH]; intros i k t H; [destruct k; discriminate|].
  destruct k as [|k]; cbn [mk_tracks nth_error] in H.
  - injection H as <-. exists t0. rewrite Nat.add_0_r. cbn. repeat split; reflexivity.
  - destruct (IH (S i) k t H) as (t1 & A & B). exists t1. split; [exact A|].
    replace (i + S k)%nat with (S i + k)%nat by lia. exact B.
Qed.

Theorem start_INV c m :
  start c = Ok m -> c_variant c <> MPEGTS ->
  let F0 := map st_leading (m_streams m) in
  let T0 := map tk_static (m_tracks m) in
  OneLead F0 /\ length F0 = length T0
  /\ (forall i b x, nth_error F0 i = Some b -> nth_error T0 i = Some x -> snd (fst x) = b)
  /\ INV F0 T0 m.
Proof.
  intros Hs Hv. cbv zeta.
  destruct (start_LI c m Hs Hv) as [HL H0].
  pose proof (start_one_leading c m Hs) as HOL.
  pose proof (start_streams c m Hs) as ES.
  assert (ET : m_tracks m = mk_tracks (norm_cfg c) 0 (c_tracks c)).
  { unfold start in Hs. destruct (negb (start_ok (norm_cfg c))); [discriminate|]. now injection Hs as <-. }
  assert (EM : exists n, m_streams m = mk_streams (norm_cfg c) 0 (c_tracks c) false n).
  { rewrite ES. destruct (c_variant c); [congruence|eauto|eauto]. }
  destruct EM as (n & EM).
  assert (Hclosed : forall s, In s (m_streams m) -> st_open s = None).
  { intros s Hin. rewrite EM in Hin. now destruct (mk_streams_open _ _ _ _ _ _ Hin). }
  assert (Hnos : forall t, In t (m_tracks m) -> tk_samples t = None /\ tk_next t = None /\ tk_firstRA t = false).
  { intros t Hin. rewrite ET in Hin. apply In_nth_error in Hin. destruct Hin as [k Hk].
    destruct (mk_tracks_static _ _ _ _ _ Hk) as (t0 & _ & _ & _ & A & B & C). auto. }
  split; [exact HOL|]. split; [rewrite !map_length; exact (li_len m HL)|]. split.
  - intros i b x Hb Hx.
    apply map_nth_error_inv in Hb. destruct Hb as (s & Es & <-).
    apply map_nth_error_inv in Hx. destruct Hx as (t & Et & <-). cbn [tk_static fst snd].
    rewrite EM in Es. destruct (mk_streams_nth _ _ _ _ _ _ _ Es) as (t0 & Ht0 & _ & _ & _ & Hl & _).
    rewrite ET in Et. destruct (mk_tracks_static _ _ _ _ _ Et) as (t1 & Ht1 & _ & Hl1 & _).
    rewrite Ht0 in Ht1. injection Ht1 as <-. now rewrite Hl, Hl1.
  - constructor.
    + split; [split; [exact HL|]|split; [|split; reflexivity]].
      * right. intros t Hin. now apply Hnos.
      * intros s Hin g Hg. rewrite (Hclosed s Hin) in Hg. discriminate.
    + intros i t Ht _ _. apply (Hnos t (nth_error_In _ _ Ht)).
    + assert (Hop : opened_at m (li (map st_leading (m_streams m))) = false).
      { unfold opened_at. destruct (nth_error (m_streams m) _) as [s|] eqn:Es; [|reflexivity].
        now rewrite (Hclosed s (nth_error_In _ _ Es)). }
      assert (Hpn : pending m (li (map st_leading (m_streams m))) = None).
      { unfold pending. destruct (nth_error (m_tracks m) _) as [t|] eqn:Et; [|reflexivity].
        apply (Hnos t (nth_error_In _ _ Et)). }
      constructor.
      * unfold glog. destruct (nth_error (m_streams m) _) as [s|] eqn:Es; [|constructor].
        rewrite EM in Es. pose proof (nth_error_In _ _ Es) as Hin. destruct (mk_streams_open _ _ _ _ _ _ Hin) as (A & B & C).
        unfold published. rewrite A, B, C. constructor.
      * intros _ p Hp. rewrite Hpn in Hp. discriminate.
      * intros Ho. rewrite Hop in Ho. discriminate.
Qed.

(* every segment of the leading track's stream - evicted, listed or open - begins with a random-access
   (sync) sample: in every state reachable from Start by successful writes of well-formed histories *)
Theorem segments_start_with_random_access c m0 ops :
  start c = Ok m0 -> c_variant c <> MPEGTS ->
  Forall (wf_op (map tk_static (m_tracks m0))) ops -> all_ok m0 ops ->
  let m := mux_run m0 ops in
  Forall group_ok (glog m (leading_index m)).
Proof.
  intros Hs Hv Hwf Hok. cbv zeta.
  destruct (start_INV c m0 Hs Hv) as (HOL & HLEN & HTL & HI). cbv zeta in *.
  pose proof (INV_mux_run _ _ HOL HLEN HTL ops m0 HI Hwf Hok) as [HS _ HR].
  destruct (ST_lead _ _ HOL (mux_run m0 ops) HS) as [-> _]. exact (ra_groups _ _ HR).
Qed.

(* non-vacuity: the concrete Low-Latency history of MuxLogStep.v is well-formed and its leading stream has
   one (open) segment whose first sample is the random-access unit written first *)
Lemma ra_example : exists m0,
  start ex_cfg = Ok m0 /\ c_variant ex_cfg <> MPEGTS
  /\ Forall (wf_op (map tk_static (m_tracks m0))) ex_ops /\ all_ok m0 ex_ops
  /\ map (map (fun s => (s_pay s, s_nonsync s))) (glog (mux_run m0 ex_ops) (leading_index (mux_run m0 ex_ops)))
     = [[(11, false); (12, true)]].
Proof.
  destruct (start ex_cfg) as [m0| |] eqn:E; [|vm_compute in E; discriminate|vm_compute in E; discriminate].
  exists m0. split; [reflexivity|]. split; [discriminate|].
  vm_compute in E. injection E as <-. split; [|split; vm_compute; auto].
  repeat constructor; intros x Hx Hv; vm_compute in Hx; injection Hx as <-; vm_compute; discriminate.
Qed.
