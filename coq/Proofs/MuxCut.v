(* C02: a new segment is started exactly when due. For a write of the leading fMP4 track whose
   previous unit is accepted into the open part, the leading stream's segment counter advances by
   one iff the incoming unit is random access and (its parameters changed or the open segment has
   reached SegmentMinDuration) - never otherwise, never skipped. *)
From Coq Require Import List ZArith Bool Lia Arith.
From GoHls Require Import Model.Mux Proofs.MuxStream Proofs.MuxLift Proofs.MuxWindow Proofs.MuxHistory Proofs.MuxMulti.
Import ListNotations.
Local Open Scope Z_scope.

(* ---- the leading index depends only on the (static) leading flags ---- *)
Fixpoint lead_go (i : nat) (l : list bool) : nat :=
  match l with [] => O | b :: l' => if b then i else lead_go (S i) l' end.

Lemma lead_go_fix l : forall i,
  (fix go (i : nat) (l : list stream) : nat :=
     match l with [] => O | s :: l' => if st_leading s then i else go (S i) l' end) i l
  = lead_go i (map st_leading l).
Proof. induction l as [|s l IH]; intros i; simpl; auto. destruct (st_leading s); auto. Qed.

Lemma leading_index_flags m : leading_index m = lead_go 0 (map st_leading (m_streams m)).
Proof. unfold leading_index. cbv zeta. apply lead_go_fix. Qed.

Lemma flags_of_R l1 l2 : Forall2 R l1 l2 -> map st_leading l2 = map st_leading l1.
Proof.
  induction 1 as [|x y l1 l2 Hxy HF IH]; simpl; auto.
  destruct (r_static _ _ Hxy) as (_ & _ & _ & H4 & _). now rewrite H4, IH.
Qed.

(* every primitive keeps the leading flags: we get it from the history relation of one step *)
Lemma flags_upd_with l i (f : stream -> stream) :
  (forall s, st_leading (f s) = st_leading s) -> map st_leading (upd l i f) = map st_leading l.
Proof.
  intros Hf. revert i. induction l as [|s l IH]; intros [|i]; simpl; auto; now rewrite ?Hf, ?IH.
Qed.

Lemma flags_upd_const l i s s' :
  nth_error l i = Some s -> st_leading s' = st_leading s ->
  map st_leading (upd l i (fun _ => s')) = map st_leading l.
Proof.
  intros Hn Hs. revert i Hn. induction l as [|x l IH]; intros [|i] Hn; simpl in *; auto; try discriminate.
  - injection Hn as ->. now rewrite Hs.
  - f_equal. now apply IH.
Qed.

Lemma flags_rotp m si d cn : map st_leading (m_streams (stream_rotateParts m si d cn)) = map st_leading (m_streams m).
Proof.
  destruct (stream_rotateParts_streams m si d cn) as [->|(s & seg & p0 & Es & Eo & Ep & ->)]; [reflexivity|].
  eapply flags_upd_const; [exact Es|].
  destruct (srot_parts_static (c_variant (m_cfg m)) s seg
      (fst (part_finalize p0 (m_tracks m) (st_tracks s) d)) d cn) as [x0 ->]. reflexivity.
Qed.

Lemma flags_rots m si d ntp f : map st_leading (m_streams (stream_rotateSegments m si d ntp f)) = map st_leading (m_streams m).
Proof.
  pose proof (stream_rotateSegments_streams m si d ntp f) as HS. cbv zeta in HS.
  set (m1 := match c_variant (m_cfg m) with MPEGTS => m | _ => stream_rotateParts m si d false end) in *.
  assert (H1 : map st_leading (m_streams m1) = map st_leading (m_streams m)).
  { subst m1. destruct (c_variant (m_cfg m)); auto using flags_rotp. }
  destruct HS as [->|(s & seg0 & cur & Es & Eo & ->)]; [exact H1|]. rewrite <- H1.
  eapply flags_upd_const; [exact Es|].
  destruct (srot_segments_static (c_variant (m_cfg m)) (c_segcount (m_cfg m)) s seg0 d ntp f cur) as [x0 ->]. reflexivity.
Qed.

Lemma copy_targets_leading both l s : st_leading (copy_targets both l s) = st_leading s.
Proof. unfold copy_targets. destruct (st_leading s) eqn:E; [exact E|]. cbn [st_with st_leading]. exact E. Qed.

(* ---- rotate_others never touches a leading stream ---- *)
Lemma nth_upd_other {A} (l : list A) i j f : i <> j -> nth_error (upd l i f) j = nth_error l j.
Proof. apply nth_error_upd_other. Qed.

Lemma rotp_other m i d cn j : i <> j ->
  nth_error (m_streams (stream_rotateParts m i d cn)) j = nth_error (m_streams m) j.
Proof.
  intros Hij. destruct (stream_rotateParts_streams m i d cn) as [->|(s & seg & p0 & _ & _ & _ & ->)]; [reflexivity|].
  now apply nth_upd_other.
Qed.

Lemma rots_other m i d ntp f j : i <> j ->
  nth_error (m_streams (stream_rotateSegments m i d ntp f)) j = nth_error (m_streams m) j.
Proof.
  intros Hij. pose proof (stream_rotateSegments_streams m i d ntp f) as HS. cbv zeta in HS.
  set (m1 := match c_variant (m_cfg m) with MPEGTS => m | _ => stream_rotateParts m i d false end) in *.
  assert (H1 : nth_error (m_streams m1) j = nth_error (m_streams m) j).
  { subst m1. destruct (c_variant (m_cfg m)); auto using rotp_other. }
  destruct HS as [->|(s & seg0 & cur & _ & _ & ->)]; [exact H1|]. rewrite nth_upd_other by exact Hij. exact H1.
Qed.

Lemma rotate_others_keeps_leading m1 (f : mstate -> nat -> mstate) both j s :
  (forall m i, i <> j -> nth_error (m_streams (f m i)) j = nth_error (m_streams m) j) ->
  (forall m i, map st_leading (m_streams (f m i)) = map st_leading (m_streams m)) ->
  nth_error (m_streams m1) j = Some s -> st_leading s = true ->
  nth_error (m_streams (rotate_others m1 f both)) j = Some s.
Proof.
  intros Hother Hflags Hj Hl. unfold rotate_others.
  generalize (seq 0 (length (m_streams m1))) as idx. intros idx. revert m1 Hj.
  induction idx as [|i idx IH]; intros m1 Hj; [exact Hj|]. cbn [fold_left]. apply IH.
  destruct (nth_error (m_streams m1) i) as [si|] eqn:Ei; [|exact Hj].
  destruct (st_leading si) eqn:Eli; [exact Hj|].
  assert (Hij : i <> j) by (intros ->; rewrite Hj in Ei; injection Ei as <-; congruence).
  destruct (leading_stream (f m1 i)).
  - unfold upd_stream. cbn [set_stream m_streams]. rewrite nth_upd_other by exact Hij. now rewrite Hother.
  - now rewrite Hother.
Qed.

(* ---- the leading stream through the two composite rotations ---- *)
Lemma leading_stream_nth m : leading_stream m = nth_error (m_streams m) (leading_index m).
Proof. reflexivity. Qed.

Lemma rotp_own m li d cn s :
  nth_error (m_streams m) li = Some s ->
  exists s0, nth_error (m_streams (stream_rotateParts m li d cn)) li = Some s0
             /\ st_nextSeg s0 = st_nextSeg s /\ st_leading s0 = st_leading s
             /\ (st_open s <> None -> st_open s0 <> None).
Proof.
  intros Hs.
  destruct (stream_rotateParts_streams m li d cn) as [E|(sx & segx & px & Esx & Eox & Epx & E)]; rewrite E.
  - exists s. auto.
  - rewrite Hs in Esx. injection Esx as <-.
    destruct (srot_parts_frame (c_variant (m_cfg m)) s segx (fst (part_finalize px (m_tracks m) (st_tracks s) d)) d cn)
      as (_ & _ & _ & F4 & _ & _ & _ & F8 & _).
    eexists. split; [eapply nth_error_upd_same; eauto|]. split; [exact F4|]. split.
    + destruct (srot_parts_static (c_variant (m_cfg m)) s segx (fst (part_finalize px (m_tracks m) (st_tracks s) d)) d cn) as [x ->].
      reflexivity.
    + intros _. rewrite F8. discriminate.
Qed.

Lemma rots_own m li d ntp f s :
  nth_error (m_streams m) li = Some s -> st_open s <> None ->
  exists s1, nth_error (m_streams (stream_rotateSegments m li d ntp f)) li = Some s1
             /\ st_nextSeg s1 = st_nextSeg s + 1 /\ st_leading s1 = st_leading s.
Proof.
  intros Hs Ho.
  pose proof (stream_rotateSegments_streams m li d ntp f) as HS. cbv zeta in HS.
  set (m1 := match c_variant (m_cfg m) with MPEGTS => m | _ => stream_rotateParts m li d false end) in *.
  assert (H1 : exists s0, nth_error (m_streams m1) li = Some s0
                          /\ st_nextSeg s0 = st_nextSeg s /\ st_leading s0 = st_leading s
                          /\ st_open s0 <> None).
  { subst m1. destruct (c_variant (m_cfg m)).
    - exists s. auto.
    - destruct (rotp_own m li d false s Hs) as (s0 & A & B & C & D). exists s0. auto.
    - destruct (rotp_own m li d false s Hs) as (s0 & A & B & C & D). exists s0. auto. }
  destruct H1 as (s0 & Es0 & En0 & El0 & Eo0).
  destruct (st_open s0) as [g0|] eqn:Eg0; [clear Eo0|congruence].
  destruct HS as [E|(sx & segx & cur & Esx & Eox & E)].
  - (* impossible: the stream is open, so the rotation happens *)
    exfalso. unfold stream_rotateSegments in E. fold m1 in E. rewrite Es0, Eg0 in E.
    match type of E with context [srot_segments ?a ?b ?c ?dd ?e ?ff ?g ?h] =>
      pose proof (srot_segments_frame a b c dd e ff g h) as HF; cbv zeta in HF;
      destruct (srot_segments a b c dd e ff g h) as [[s' regen] bump] eqn:Er end.
    cbn [fst] in HF. destruct HF as (_ & _ & _ & F4 & _).
    assert (Hn : nth_error (m_streams m1) li = Some s').
    { rewrite <- E. destruct bump; cbn [add_err set_paths set_stream m_streams];
        apply (nth_error_upd_same (m_streams m1) li (fun _ => s') s0 Es0). }
    rewrite Es0 in Hn. injection Hn as Hn. rewrite <- Hn in F4. lia.
  - rewrite E. rewrite Es0 in Esx. injection Esx as <-.
    destruct (srot_segments_frame (c_variant (m_cfg m)) (c_segcount (m_cfg m)) s0 segx d ntp f cur)
      as (_ & _ & _ & F4 & _).
    eexists. split; [eapply nth_error_upd_same; eauto|]. split; [rewrite F4; lia|].
    destruct (srot_segments_static (c_variant (m_cfg m)) (c_segcount (m_cfg m)) s0 segx d ntp f cur) as [x ->].
    exact El0.
Qed.

Lemma rotateSegments_leading m d ntp f s :
  leading_stream m = Some s -> st_leading s = true -> st_open s <> None ->
  exists s', nth_error (m_streams (rotateSegments m d ntp f)) (leading_index m) = Some s'
             /\ st_nextSeg s' = st_nextSeg s + 1.
Proof.
  intros Hs Hl Ho. unfold rotateSegments. set (li := leading_index m) in *.
  rewrite leading_stream_nth in Hs. fold li in Hs.
  destruct (rots_own m li d ntp f s Hs Ho) as (s1 & Hs1 & Hn1 & Hl1).
  exists s1. split; [|exact Hn1].
  apply rotate_others_keeps_leading; auto using rots_other, flags_rots. congruence.
Qed.

Lemma rotateParts_leading m d s :
  leading_stream m = Some s -> st_leading s = true ->
  exists s', nth_error (m_streams (rotateParts m d)) (leading_index m) = Some s'
             /\ st_nextSeg s' = st_nextSeg s.
Proof.
  intros Hs Hl. unfold rotateParts. set (li := leading_index m) in *.
  rewrite leading_stream_nth in Hs. fold li in Hs.
  destruct (rotp_own m li d true s Hs) as (s1 & Hs1 & Hn1 & Hl1 & _).
  exists s1. split; [|exact Hn1].
  apply rotate_others_keeps_leading; auto using rotp_other, flags_rotp. congruence.
Qed.

(* ================================================================================================
   All streams are cut at the same instant: after rotateSegments every open stream that is the
   leading stream or a non-leading stream has its segment counter advanced by exactly one and a
   new open segment starting at the rotation's DTS / NTP.
   ================================================================================================ *)
Definition Cut (d ntp : Z) (s s' : stream) : Prop :=
  st_nextSeg s' = st_nextSeg s + 1 /\ st_leading s' = st_leading s
  /\ exists g, st_open s' = Some g /\ sg_start g = d /\ sg_ntp g = ntp.

Lemma rots_own_cut m li d ntp f s :
  nth_error (m_streams m) li = Some s -> st_open s <> None ->
  exists s1, nth_error (m_streams (stream_rotateSegments m li d ntp f)) li = Some s1 /\ Cut d ntp s s1.
Proof.
  intros Hs Ho.
  pose proof (stream_rotateSegments_streams m li d ntp f) as HS. cbv zeta in HS.
  destruct (rots_own m li d ntp f s Hs Ho) as (s1 & Hs1 & Hn1 & Hl1).
  exists s1. split; [exact Hs1|]. split; [exact Hn1|]. split; [exact Hl1|].
  set (m1 := match c_variant (m_cfg m) with MPEGTS => m | _ => stream_rotateParts m li d false end) in *.
  destruct HS as [E|(sx & segx & cur & Esx & Eox & E)].
  - (* no rotation happened: contradicts the counter having advanced *)
    exfalso. rewrite E in Hs1.
    assert (H1 : exists s0, nth_error (m_streams m1) li = Some s0 /\ st_nextSeg s0 = st_nextSeg s).
    { subst m1. destruct (c_variant (m_cfg m)).
      - exists s. auto.
      - destruct (rotp_own m li d false s Hs) as (s0 & A & B & _). exists s0. auto.
      - destruct (rotp_own m li d false s Hs) as (s0 & A & B & _). exists s0. auto. }
    destruct H1 as (s0 & A & B). rewrite A in Hs1. injection Hs1 as <-. lia.
  - rewrite E in Hs1.
    rewrite (nth_error_upd_same (m_streams m1) li _ sx Esx) in Hs1. injection Hs1 as <-.
    destruct (srot_segments_frame (c_variant (m_cfg m)) (c_segcount (m_cfg m)) sx segx d ntp f cur)
      as (_ & _ & _ & _ & _ & F6 & _).
    eexists. split; [exact F6|]. split; reflexivity.
Qed.

Lemma copy_targets_keeps both l s :
  st_nextSeg (copy_targets both l s) = st_nextSeg s /\ st_open (copy_targets both l s) = st_open s
  /\ st_leading (copy_targets both l s) = st_leading s.
Proof.
  split; [|split; [|apply copy_targets_leading]]; unfold copy_targets; destruct (st_leading s); reflexivity.
Qed.

(* the fold of rotate_others over a list of indices that does not contain j leaves stream j alone *)
Lemma rotate_fold_other (f : mstate -> nat -> mstate) both j idx :
  (forall m i, i <> j -> nth_error (m_streams (f m i)) j = nth_error (m_streams m) j) ->
  ~ In j idx -> forall m,
  nth_error (m_streams (fold_left (fun m i =>
               match nth_error (m_streams m) i with
               | Some s => if st_leading s then m
                           else match leading_stream (f m i) with
                                | Some l => upd_stream (f m i) i (copy_targets both l)
                                | None => f m i end
               | None => m end) idx m)) j = nth_error (m_streams m) j.
Proof.
  intros Hother. induction idx as [|i idx IH]; intros Hni m; [reflexivity|]. cbn [fold_left].
  assert (Hij : i <> j) by (intros ->; apply Hni; now left).
  rewrite IH by (intros Hin; apply Hni; now right).
  destruct (nth_error (m_streams m) i) as [si|]; [|reflexivity].
  destruct (st_leading si); [reflexivity|].
  destruct (leading_stream (f m i)).
  - unfold upd_stream. cbn [set_stream m_streams]. rewrite nth_upd_other by exact Hij. now apply Hother.
  - now apply Hother.
Qed.

Lemma seq_split j n : (j < n)%nat -> seq 0 n = seq 0 j ++ j :: seq (S j) (n - S j).
Proof.
  intros H. replace n with (j + (1 + (n - S j)))%nat at 1 by lia.
  rewrite seq_app. f_equal.
Qed.

Lemma rotate_others_cut m1 d ntp f j s :
  (j < length (m_streams m1))%nat ->
  nth_error (m_streams m1) j = Some s -> st_leading s = false -> st_open s <> None ->
  exists s', nth_error (m_streams (rotate_others m1 (fun m i => stream_rotateSegments m i d ntp f) true)) j = Some s'
             /\ Cut d ntp s s'.
Proof.
  intros Hlt Hj Hl Ho. unfold rotate_others. rewrite (seq_split j _ Hlt), fold_left_app.
  cbn [fold_left].
  set (F := fun (m : mstate) (i : nat) => match nth_error (m_streams m) i with
     | Some s0 => if st_leading s0 then m
                  else match leading_stream (stream_rotateSegments m i d ntp f) with
                       | Some l => upd_stream (stream_rotateSegments m i d ntp f) i (copy_targets true l)
                       | None => stream_rotateSegments m i d ntp f end
     | None => m end).
  set (ma := fold_left F (seq 0 j) m1).
  assert (Ha : nth_error (m_streams ma) j = Some s).
  { subst ma F. rewrite (rotate_fold_other (fun m i => stream_rotateSegments m i d ntp f) true j).
    - exact Hj.
    - intros m i Hij. now apply rots_other.
    - rewrite in_seq. lia. }
  rewrite (rotate_fold_other (fun m i => stream_rotateSegments m i d ntp f) true j).
  2:{ intros m i Hij. now apply rots_other. }
  2:{ rewrite in_seq. lia. }
  rewrite Ha, Hl.
  destruct (rots_own_cut ma j d ntp f s Ha Ho) as (s1 & Hs1 & Hc).
  destruct (leading_stream (stream_rotateSegments ma j d ntp f)) as [l|].
  - unfold upd_stream. cbn [set_stream m_streams].
    rewrite (nth_error_upd_same _ j _ s1 Hs1). eexists. split; [reflexivity|].
    destruct (copy_targets_keeps true l s1) as (K1 & K2 & K3).
    destruct Hc as (C1 & C2 & g & C3 & C4 & C5).
    split; [congruence|]. split; [congruence|]. exists g. rewrite K2. auto.
  - exists s1. auto.
Qed.

Theorem rotateSegments_cuts_all m d ntp f sl :
  leading_stream m = Some sl -> st_leading sl = true ->
  forall j s, nth_error (m_streams m) j = Some s -> st_open s <> None ->
              (j = leading_index m \/ st_leading s = false) ->
  exists s', nth_error (m_streams (rotateSegments m d ntp f)) j = Some s' /\ Cut d ntp s s'.
Proof.
  intros Hsl Hll j s Hj Ho [->|Hl].
  - (* the leading stream itself *)
    rewrite leading_stream_nth in Hsl. rewrite Hsl in Hj. injection Hj as <-.
    destruct (rots_own_cut m (leading_index m) d ntp f sl Hsl Ho) as (s1 & Hs1 & Hc).
    exists s1. split; [|exact Hc]. unfold rotateSegments.
    apply rotate_others_keeps_leading; auto using rots_other, flags_rots.
    destruct Hc as (_ & C2 & _). congruence.
  - (* a non-leading stream: untouched by the leading stream's rotation, then rotated in the loop *)
    assert (Hne : leading_index m <> j).
    { intros E. rewrite leading_stream_nth, E, Hj in Hsl. injection Hsl as <-. congruence. }
    unfold rotateSegments.
    apply rotate_others_cut; auto.
    + rewrite <- (map_length st_leading), flags_rots, map_length. apply nth_error_Some. congruence.
    + rewrite rots_other by exact Hne. exact Hj.
Qed.

(* ================================================================================================
   A new segment is started exactly when due.
   ================================================================================================ *)
Definition Same (s s' : stream) : Prop :=
  st_nextSeg s' = st_nextSeg s /\ st_leading s' = st_leading s
  /\ forall g, st_open s = Some g -> exists g', st_open s' = Some g' /\ sg_start g' = sg_start g /\ sg_ntp g' = sg_ntp g.

Lemma Same_refl s : Same s s.
Proof. repeat split. intros g Hg. exists g. auto. Qed.

Lemma Cut_Same d ntp s s1 s2 : Cut d ntp s s1 -> Same s1 s2 -> Cut d ntp s s2.
Proof.
  intros (C1 & C2 & g & C3 & C4 & C5) (S1 & S2 & S3).
  split; [congruence|]. split; [congruence|].
  destruct (S3 g C3) as (g' & A & B & C). exists g'. repeat split; congruence.
Qed.

Lemma Same_trans s s1 s2 : Same s s1 -> Same s1 s2 -> Same s s2.
Proof.
  intros (A1 & A2 & A3) (B1 & B2 & B3). split; [congruence|]. split; [congruence|].
  intros g Hg. destruct (A3 g Hg) as (g1 & X & Y & Z). destruct (B3 g1 X) as (g2 & X2 & Y2 & Z2).
  exists g2. repeat split; congruence.
Qed.

(* ---- operations that never start a segment ---- *)
Lemma rotp_same m si d cn j sj :
  nth_error (m_streams m) j = Some sj ->
  exists sj', nth_error (m_streams (stream_rotateParts m si d cn)) j = Some sj' /\ Same sj sj'.
Proof.
  intros Hj. destruct (stream_rotateParts_streams m si d cn) as [E|(s & seg & p0 & Es & Eo & Ep & E)]; rewrite E.
  - exists sj. split; [exact Hj|apply Same_refl].
  - destruct (Nat.eq_dec si j) as [->|Hne].
    + rewrite Hj in Es. injection Es as <-.
      rewrite (nth_error_upd_same _ j _ sj Hj). eexists. split; [reflexivity|].
      destruct (srot_parts_frame (c_variant (m_cfg m)) sj seg (fst (part_finalize p0 (m_tracks m) (st_tracks sj) d)) d cn)
        as (_ & _ & _ & F4 & _ & _ & _ & F8 & _).
      split; [exact F4|]. split.
      * destruct (srot_parts_static (c_variant (m_cfg m)) sj seg (fst (part_finalize p0 (m_tracks m) (st_tracks sj) d)) d cn) as [x ->].
        reflexivity.
      * intros g Hg. rewrite Eo in Hg. injection Hg as <-. eexists. split; [exact F8|]. split; reflexivity.
    + rewrite nth_upd_other by exact Hne. exists sj. split; [exact Hj|apply Same_refl].
Qed.

Lemma copy_same both l j m sj :
  nth_error (m_streams m) j = Some sj ->
  forall i, exists sj', nth_error (m_streams (upd_stream m i (copy_targets both l))) j = Some sj' /\ Same sj sj'.
Proof.
  intros Hj i. unfold upd_stream. cbn [set_stream m_streams].
  destruct (Nat.eq_dec i j) as [->|Hne].
  - rewrite (nth_error_upd_same _ j _ sj Hj). eexists. split; [reflexivity|].
    destruct (copy_targets_keeps both l sj) as (K1 & K2 & K3).
    split; [exact K1|]. split; [exact K3|]. intros g Hg. exists g. rewrite K2. auto.
  - rewrite nth_upd_other by exact Hne. exists sj. split; [exact Hj|apply Same_refl].
Qed.

Lemma rotateParts_same m d j sj :
  nth_error (m_streams m) j = Some sj ->
  exists sj', nth_error (m_streams (rotateParts m d)) j = Some sj' /\ Same sj sj'.
Proof.
  intros Hj.
  apply (T_rotateParts (fun m' => exists sj', nth_error (m_streams m') j = Some sj' /\ Same sj sj')).
  - intros m' si d' (s1 & H1 & S1). destruct (rotp_same m' si d' true j s1 H1) as (s2 & H2 & S2).
    exists s2. split; [exact H2|]. eapply Same_trans; eauto.
  - intros m' i l both (s1 & H1 & S1). destruct (copy_same both l j m' s1 H1 i) as (s2 & H2 & S2).
    exists s2. split; [exact H2|]. eapply Same_trans; eauto.
  - exists sj. split; [exact Hj|apply Same_refl].
Qed.

Lemma ts_write_same m si u size e inc j sj :
  nth_error (m_streams m) j = Some sj ->
  exists sj', nth_error (m_streams (fst (ts_write m si u size e inc))) j = Some sj' /\ Same sj sj'.
Proof.
  intros Hj. unfold ts_write.
  destruct (nth_error (m_streams m) si) as [s|] eqn:Es; [|exists sj; split; [exact Hj|apply Same_refl]].
  destruct (st_open s) as [seg|] eqn:Eo; [|exists sj; split; [exact Hj|apply Same_refl]].
  destruct (_ <? _); [exists sj; split; [exact Hj|apply Same_refl]|].
  cbn [fst wok]. unfold upd_stream. cbn [set_stream m_streams].
  destruct (Nat.eq_dec si j) as [->|Hne].
  - rewrite Hj in Es. injection Es as <-.
    rewrite (nth_error_upd_same _ j _ sj Hj). eexists. split; [reflexivity|].
    split; [reflexivity|]. split; [reflexivity|].
    intros g Hg. rewrite Eo in Hg. injection Hg as <-. eexists. split; [reflexivity|]. split; reflexivity.
  - rewrite nth_upd_other by exact Hne. exists sj. split; [exact Hj|apply Same_refl].
Qed.

(* ---- "rotate iff b" ---- *)
Definition CutIff (b : bool) (d ntp : Z) (s s' : stream) : Prop := if b then Cut d ntp s s' else Same s s'.

Lemma rotate_if m (b : bool) d ntp f sl :
  leading_stream m = Some sl -> st_leading sl = true ->
  forall j s, nth_error (m_streams m) j = Some s -> st_open s <> None ->
              (j = leading_index m \/ st_leading s = false) ->
  exists s', nth_error (m_streams (if b then rotateSegments m d ntp f else m)) j = Some s' /\ CutIff b d ntp s s'.
Proof.
  intros Hsl Hll j s Hj Ho Hc. destruct b; cbn [CutIff].
  - eapply rotateSegments_cuts_all; eauto.
  - exists s. split; [exact Hj|apply Same_refl].
Qed.

(* ---- fMP4 variants: the decision taken after the previous unit has been accepted ---- *)
Definition due_fmp4 (m4 : mstate) (s : stream) (ra pc : bool) (nextD : Z) : bool :=
  ra && (pc || (c_segmin (m_cfg m4) <=? nextD - stream_open_start s)).

Definition fmp4_tail (m4 : mstate) (s : stream) (ra pc : bool) (nextD ntp : Z) : mstate :=
  if due_fmp4 m4 s ra pc nextD then
    let m5 := rotateSegments m4 nextD ntp pc in
    if pc then set_adj m5 [] (m_adj m5) false else set_adj m5 (m_sdurs m5) (m_adj m5) true
  else if variant_eqb (c_variant (m_cfg m4)) LL && (m_adj m4 <=? nextD - stream_openpart_start s)
       then rotateParts m4 nextD
       else m4.

(* state and sample handed to muxerPart.writeSample by a write of the leading track *)
Definition fmp4_pre (m : mstate) (ti : nat) (t : trk) (prev smp0 : sample) : mstate * sample :=
  let rate := t_rate (tk_cfg t) in
  let dts := s_dts smp0 + durationToTimestamp fmp4StartDTS rate in
  let incoming := {| s_dts := dts; s_ptsoff := s_ptsoff smp0; s_dur := 0; s_nonsync := s_nonsync smp0;
                     s_ntp := s_ntp smp0; s_pay := s_pay smp0; s_size := s_size smp0 |} in
  let m1 := upd_track m ti (fun t => tk_with t (tk_firstRA t) (tk_params t) (Some incoming)
                                             (tk_samples t) (tk_start t)) in
  let duration := dts - s_dts prev in
  let smp := {| s_dts := s_dts prev; s_ptsoff := s_ptsoff prev; s_dur := u32 duration;
                s_nonsync := s_nonsync prev; s_ntp := s_ntp prev; s_pay := s_pay prev;
                s_size := s_size prev |} in
  let opened := match nth_error (m_streams m1) (tk_stream t) with
                | Some s => match st_open s with Some _ => true | None => false end
                | None => false end in
  let m2 := if negb opened then createFirstSegment m1 (timestampToDuration (s_dts smp) rate) (s_ntp smp) else m1 in
  (fmp4AdjustPartDuration m2 (timestampToDuration duration rate), smp).

Lemma fmp4WriteSample_leading m ti t prev ra pc smp0 m4 s :
  nth_error (m_tracks m) ti = Some t -> tk_leading t = true -> tk_next t = Some prev ->
  0 <= s_dts smp0 + durationToTimestamp fmp4StartDTS (t_rate (tk_cfg t)) ->
  part_writeSample (fst (fmp4_pre m ti t prev smp0)) ti (tk_stream t) (snd (fmp4_pre m ti t prev smp0)) = Ok m4 ->
  nth_error (m_streams m4) (tk_stream t) = Some s ->
  fmp4WriteSample m ti ra pc smp0 =
  wok (fmp4_tail m4 s ra pc
         (timestampToDuration (s_dts smp0 + durationToTimestamp fmp4StartDTS (t_rate (tk_cfg t))) (t_rate (tk_cfg t)))
         (s_ntp smp0)).
Proof.
  intros Ht Hl Hn Hd Hw Hs. unfold fmp4WriteSample. rewrite Ht. cbv zeta.
  destruct (_ <? 0) eqn:E0; [apply Z.ltb_lt in E0; lia|].
  rewrite Hn, Hl. cbn [negb andb].
  unfold fmp4_pre in Hw. cbv zeta in Hw. cbn [fst snd] in Hw.
  match type of Hw with part_writeSample ?a _ _ ?b = _ =>
    match goal with |- context [part_writeSample ?a' _ _ ?b'] => change a' with a; change b' with b end end.
  rewrite Hw, Hs. unfold fmp4_tail, due_fmp4. cbn [s_ntp].
  destruct (ra && _); [destruct pc; reflexivity|].
  destruct (_ && _); reflexivity.
Qed.

Theorem fmp4_cut_iff_due m4 s ra pc nextD ntp sl :
  leading_stream m4 = Some sl -> st_leading sl = true ->
  forall j sj, nth_error (m_streams m4) j = Some sj -> st_open sj <> None ->
               (j = leading_index m4 \/ st_leading sj = false) ->
  exists sj', nth_error (m_streams (fmp4_tail m4 s ra pc nextD ntp)) j = Some sj'
              /\ CutIff (due_fmp4 m4 s ra pc nextD) nextD ntp sj sj'.
Proof.
  intros Hsl Hll j sj Hj Ho Hc. unfold fmp4_tail.
  destruct (due_fmp4 m4 s ra pc nextD) eqn:Ed; cbn [CutIff].
  - destruct (rotateSegments_cuts_all m4 nextD ntp pc sl Hsl Hll j sj Hj Ho Hc) as (s' & H1 & H2).
    exists s'. split; [|exact H2]. destruct pc; exact H1.
  - destruct (_ && _).
    + now apply rotateParts_same.
    + exists sj. split; [exact Hj|apply Same_refl].
Qed.

(* ================================================================================================
   Every reachable state has exactly one leading stream (so "the leading stream or a non-leading
   stream" above is every stream).
   ================================================================================================ *)
Definition OneLead (fl : list bool) : Prop :=
  exists k, nth_error fl k = Some true /\ forall j, nth_error fl j = Some true -> j = k.

Lemma map_nth_error_inv {A B} (f : A -> B) l : forall n b,
  nth_error (map f l) n = Some b -> exists a, nth_error l n = Some a /\ f a = b.
Proof.
  induction l as [|x l IH]; intros [|n] b H; simpl in H; try discriminate.
  - injection H as <-. exists x. auto.
  - now apply IH.
Qed.

Lemma lead_go_unique l : forall i k,
  nth_error l k = Some true -> (forall j, nth_error l j = Some true -> j = k) -> lead_go i l = (i + k)%nat.
Proof.
  induction l as [|b l IH]; intros i k Hk Hu; [destruct k; discriminate|].
  destruct k as [|k]; simpl in *.
  - injection Hk as ->. lia.
  - destruct b; [specialize (Hu 0%nat eq_refl); discriminate|].
    rewrite (IH (S i) k Hk); [lia|]. intros j Hj. specialize (Hu (S j) Hj). lia.
Qed.

Lemma one_filter {A} (p : A -> bool) l : length (filter p l) = 1%nat -> OneLead (map p l).
Proof.
  induction l as [|x l IH]; simpl; [discriminate|].
  destruct (p x) eqn:Ep; simpl; intros H.
  - exists 0%nat. split; [reflexivity|]. intros [|j] Hj; [reflexivity|]. simpl in Hj.
    exfalso. assert (Hl : length (filter p l) = 0%nat) by lia.
    apply length_zero_iff_nil in Hl.
    apply map_nth_error_inv in Hj. destruct Hj as (y & Hy & Hpy).
    assert (Hin : In y (filter p l)) by (apply filter_In; split; [eapply nth_error_In; eauto|exact Hpy]).
    rewrite Hl in Hin. exact Hin.
  - destruct (IH H) as (k & Hk & Hu). exists (S k). split; [exact Hk|].
    intros [|j] Hj; simpl in Hj; [congruence|]. f_equal. now apply Hu.
Qed.

Fixpoint lflags (c : cfg) (i : nat) (ts : list tcfg) : list bool :=
  match ts with [] => [] | t :: ts' => track_leading c i t :: lflags c (S i) ts' end.

Lemma mk_streams_flags c ts : forall i ch n, map st_leading (mk_streams c i ts ch n) = lflags c i ts.
Proof.
  induction ts as [|t ts IH]; intros i ch n; [reflexivity|]. cbn [mk_streams lflags].
  match goal with |- context [let '(a, b) := ?x in _] => destruct x as [dflt chosen'] end.
  cbn [map mk_stream st_leading]. now rewrite IH.
Qed.

Lemma lflags_video c ts : hasVideo c = true -> forall i, lflags c i ts = map (fun t => isVideo (t_kind t)) ts.
Proof.
  intros Hv. induction ts as [|t ts IH]; intros i; [reflexivity|]. cbn [lflags map]. rewrite IH.
  unfold track_leading. rewrite Hv. cbn [negb andb]. now rewrite orb_false_r.
Qed.

Lemma lflags_novideo c ts : hasVideo c = false -> filter (fun t => isVideo (t_kind t)) ts = [] ->
  forall i, lflags c i ts = map (fun j => Nat.eqb j 0) (seq i (length ts)).
Proof.
  intros Hv. induction ts as [|t ts IH]; intros Hf i; [reflexivity|]. cbn [lflags length seq map].
  simpl in Hf. destruct (isVideo (t_kind t)) eqn:Ek; [discriminate|]. rewrite IH by exact Hf.
  unfold track_leading. rewrite Hv, Ek. reflexivity.
Qed.

Lemma start_one_leading c m : start c = Ok m -> OneLead (map st_leading (m_streams m)).
Proof.
  intros Hs. pose proof (start_streams c m Hs) as E.
  unfold start in Hs. destruct (negb (start_ok (norm_cfg c))) eqn:Eok; [discriminate|]. clear Hs.
  apply negb_false_iff in Eok. unfold start_ok in Eok.
  repeat (apply andb_true_iff in Eok; destruct Eok as [Eok ?]).
  change (c_tracks (norm_cfg c)) with (c_tracks c) in *. change (c_variant (norm_cfg c)) with (c_variant c) in *.
  apply negb_true_iff, Nat.eqb_neq in Eok.
  assert (Hgen : Nat.leb (count_video (c_tracks c)) 1 = true -> forall n,
            OneLead (map st_leading (mk_streams (norm_cfg c) 0 (c_tracks c) false n))).
  { intros Hcv n. apply Nat.leb_le in Hcv. rewrite mk_streams_flags.
    destruct (hasVideo (norm_cfg c)) eqn:Hv.
    - rewrite lflags_video by exact Hv. apply one_filter.
      unfold hasVideo in Hv. apply negb_true_iff, Nat.eqb_neq in Hv.
      change (c_tracks (norm_cfg c)) with (c_tracks c) in Hv. unfold count_video in *. lia.
    - assert (Hf : filter (fun t => isVideo (t_kind t)) (c_tracks c) = []).
      { unfold hasVideo in Hv. apply negb_false_iff, Nat.eqb_eq in Hv.
        change (c_tracks (norm_cfg c)) with (c_tracks c) in Hv. now apply length_zero_iff_nil. }
      rewrite lflags_novideo by assumption.
      destruct (c_tracks c) as [|t ts]; [simpl in Eok; congruence|].
      exists 0%nat. split; [reflexivity|]. intros [|j] Hj; [reflexivity|]. exfalso.
      cbn [length seq map nth_error] in Hj. apply map_nth_error_inv in Hj.
      destruct Hj as (y & Hy & Hpy). apply nth_error_In, in_seq in Hy. apply Nat.eqb_eq in Hpy. lia. }
  rewrite E. destruct (c_variant c).
  - exists 0%nat. split; [reflexivity|]. intros [|[|j]] Hj; simpl in Hj; congruence.
  - apply Hgen. assumption.
  - apply Hgen. assumption.
Qed.

Theorem reachable_one_leading c m0 ops :
  start c = Ok m0 ->
  let m := mux_run m0 ops in
  exists sl, leading_stream m = Some sl /\ st_leading sl = true
             /\ forall j s, nth_error (m_streams m) j = Some s -> st_leading s = true -> j = leading_index m.
Proof.
  intros Hs m.
  pose proof (start_one_leading c m0 Hs) as (k & Hk & Hu).
  assert (Hfl : map st_leading (m_streams m) = map st_leading (m_streams m0)).
  { subst m. apply flags_of_R. apply history_monotone. }
  rewrite <- Hfl in Hk, Hu.
  assert (Hli : leading_index m = k).
  { rewrite leading_index_flags. rewrite (lead_go_unique _ 0 k Hk Hu). lia. }
  apply map_nth_error_inv in Hk. destruct Hk as (sl & Hsl & Hl).
  exists sl. rewrite leading_stream_nth, Hli. split; [exact Hsl|]. split; [exact Hl|].
  intros j s Hj Hls. apply Hu. erewrite map_nth_error by exact Hj. now rewrite Hls.
Qed.

(* ================================================================================================
   MPEG-TS: the same biconditional for the H264 track and for an audio-only stream.
   ================================================================================================ *)
Lemma CutIff_Same b d ntp s s1 s2 : CutIff b d ntp s s1 -> Same s1 s2 -> CutIff b d ntp s s2.
Proof. destruct b; cbn [CutIff]; [apply Cut_Same|apply Same_trans]. Qed.

Lemma leading_same_streams a b : m_streams a = m_streams b ->
  leading_index a = leading_index b /\ leading_stream a = leading_stream b.
Proof.
  intros E. assert (H : leading_index a = leading_index b) by (now rewrite !leading_index_flags, E).
  split; [exact H|]. unfold leading_stream. now rewrite H, E.
Qed.

Lemma video_params_streams m ti t a ex :
  m_streams (fst (video_params m ti t a ex)) = m_streams m /\ m_cfg (fst (video_params m ti t a ex)) = m_cfg m.
Proof.
  unfold video_params.
  destruct (a_params a) as [p|]; [destruct (ex && negb (p =? tk_params t))|];
    match goal with |- context [if ?c then _ else _] => destruct c end; split; reflexivity.
Qed.

Theorem ts_video_cut_iff_due m ti t a sl s :
  c_variant (m_cfg m) = MPEGTS -> t_kind (tk_cfg t) = H264 ->
  negb (a_ra a) && negb (a_nonidr a) = false -> negb (tk_firstRA t) && negb (a_ra a) = false ->
  nth_error (m_streams m) (tk_stream t) = Some s -> st_open s <> None ->
  leading_stream m = Some sl -> st_leading sl = true ->
  let d := timestampToDuration (a_dts a) (t_rate (tk_cfg t)) in
  let due := a_ra a && ((c_segmin (m_cfg m) <=? d - stream_open_start s) || snd (video_params m ti t a true)) in
  forall j sj, nth_error (m_streams m) j = Some sj -> st_open sj <> None ->
               (j = leading_index m \/ st_leading sj = false) ->
  exists sj', nth_error (m_streams (fst (write_video m ti t a))) j = Some sj' /\ CutIff due d (a_ntp a) sj sj'.
Proof.
  intros Hv Hk Hg1 Hg2 Hs Ho Hsl Hll d due j sj Hj Hoj Hc.
  unfold write_video. rewrite Hk. cbv zeta.
  pose proof (video_params_streams m ti t a true) as [E1 E2]. subst due.
  destruct (video_params m ti t a true) as [m1 pc0]. cbn [fst snd] in *.
  rewrite Hg1, Hg2, Hv.
  set (m2 := set_firstRA m1 ti).
  assert (Es2 : m_streams m2 = m_streams m) by exact E1.
  assert (Ec2 : m_cfg m2 = m_cfg m) by exact E2.
  destruct (leading_same_streams m2 m Es2) as [Li Ls].
  rewrite Es2, Hs. destruct (st_open s) as [g|] eqn:Eg; [|congruence]. cbn [negb].
  rewrite Ec2. fold d.
  match goal with |- context [ts_write (if ?b then _ else _) ?si ?u ?sz ?e ?inc] =>
    set (bb := b); set (uu := u); set (zz := sz) end.
  assert (Hsl2 : leading_stream m2 = Some sl) by congruence.
  assert (Hj2 : nth_error (m_streams m2) j = Some sj) by (rewrite Es2; exact Hj).
  assert (Hc2 : j = leading_index m2 \/ st_leading sj = false) by (rewrite Li; exact Hc).
  destruct (rotate_if m2 bb d (a_ntp a) false sl Hsl2 Hll j sj Hj2 Hoj Hc2) as (s1 & H1 & C1).
  destruct (ts_write_same (if bb then rotateSegments m2 d (a_ntp a) false else m2) (tk_stream t) uu zz (Some d) false j s1 H1)
    as (s2 & H2 & S2).
  exists s2. split; [exact H2|]. eapply CutIff_Same; eauto.
Qed.

Theorem ts_audio_cut_iff_due m ti t a sl s seg :
  c_variant (m_cfg m) = MPEGTS -> tk_leading t = true ->
  nth_error (m_streams m) (tk_stream t) = Some s -> st_open s = Some seg ->
  leading_stream m = Some sl -> st_leading sl = true ->
  let d := timestampToDuration (a_pts a) (t_rate (tk_cfg t)) in
  let due := (mpegtsSegmentMinAUCount <=? sg_aucount seg) && (c_segmin (m_cfg m) <=? d - sg_start seg) in
  forall j sj, nth_error (m_streams m) j = Some sj -> st_open sj <> None ->
               (j = leading_index m \/ st_leading sj = false) ->
  exists sj', nth_error (m_streams (fst (write_audio m ti t a))) j = Some sj' /\ CutIff due d (a_ntp a) sj sj'.
Proof.
  intros Hv Hl Hs Ho Hsl Hll d due j sj Hj Hoj Hc.
  unfold write_audio. rewrite Hv, Hs, Ho, Hl. cbn [negb andb]. fold d. subst due.
  match goal with |- context [ts_write (if ?b then _ else _) ?si ?u ?sz ?e ?inc] =>
    destruct (rotate_if m b d (a_ntp a) false sl Hsl Hll j sj Hj Hoj Hc) as (s1 & H1 & C1);
    destruct (ts_write_same (if b then rotateSegments m d (a_ntp a) false else m) si u sz e inc j s1 H1)
      as (s2 & H2 & S2)
  end.
  exists s2. split; [exact H2|]. eapply CutIff_Same; eauto.
Qed.

(* a write of a non-leading MPEG-TS track never starts a segment *)
Theorem ts_audio_nonleading_never_cuts m ti t a j sj :
  c_variant (m_cfg m) = MPEGTS -> tk_leading t = false ->
  nth_error (m_streams m) j = Some sj ->
  exists sj', nth_error (m_streams (fst (write_audio m ti t a))) j = Some sj' /\ Same sj sj'.
Proof.
  intros Hv Hl Hj. unfold write_audio. rewrite Hv, Hl.
  destruct (nth_error (m_streams m) (tk_stream t)) as [s|]; [|exists sj; split; [exact Hj|apply Same_refl]].
  destruct (negb false && _); [exists sj; split; [exact Hj|apply Same_refl]|].
  now apply ts_write_same.
Qed.
