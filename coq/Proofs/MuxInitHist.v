(* C02, fMP4 variants (continued from MuxInit.v): K through one call of fmp4WriteSample, through the codec front ends
   (video_params is where the current parameters and the pending flag change), through writes and histories.
     init_carries_current_parameters   in every state reached from Start by writes that return nil and whose video
                                       units lie at or after -10 s: no change pending and the open segment not a
                                       forced one -> the cached init of every stream carries the current parameters
                                       of exactly the stream's tracks
     init_stale_before_minus_10s       the hypothesis on video units is needed: a random-access unit that carries
                                       changed parameters and lies before -10 s is dropped by fmp4WriteSample after
                                       the parameters have been recorded and the pending flag consumed - no forced
                                       rotation follows, the init keeps the old parameters
     init_exists_once_published        a stream that has published a segment has an init (any history) *)
From Coq Require Import List ZArith Bool Lia Arith.
From GoHls Require Import Model.Mux Proofs.MuxStream Proofs.MuxLift Proofs.MuxWindow Proofs.MuxHistory Proofs.MuxTimes
  Proofs.MuxMulti Proofs.MuxSamples Proofs.MuxCut Proofs.MuxLog Proofs.MuxLogStep Proofs.MuxLogTS Proofs.MuxPartIds Proofs.MuxAgree
  Proofs.MuxGroups Proofs.MuxRAStart Proofs.MuxRAHist Proofs.MuxChain Proofs.MuxInit.
Import ListNotations.
Local Open Scope Z_scope.

(* ---- video_params: either nothing K looks at changes, or a change is left pending, or it is consumed by a
   random-access unit and handed on as paramsChanged ---- *)
Lemma video_params_K m tj t a ex :
  let r := video_params m tj t a ex in
  (snd r = false /\ (KI m -> KI (fst r)))
  \/ (snd r = true /\ a_ra a = true /\ m_pending (fst r) = false).
Proof.
  cbv zeta. unfold video_params.
  assert (Hsame : forall mm, mm = m ->
            (snd (if a_ra a && m_pending mm then (set_pending mm false, true) else (mm, false)) = false
             /\ (KI m -> KI (fst (if a_ra a && m_pending mm then (set_pending mm false, true) else (mm, false)))))
            \/ (snd (if a_ra a && m_pending mm then (set_pending mm false, true) else (mm, false)) = true /\ a_ra a = true
                /\ m_pending (fst (if a_ra a && m_pending mm then (set_pending mm false, true) else (mm, false))) = false)).
  { intros mm ->. destruct (a_ra a && m_pending m) eqn:E; cbn [fst snd].
    - right. apply andb_true_iff in E. destruct E. auto.
    - left. auto. }
  destruct (a_params a) as [p|]; [|now apply Hsame].
  destruct (ex && negb (p =? tk_params t)); [|now apply Hsame].
  cbn [set_pending m_pending]. rewrite andb_true_r.
  destruct (a_ra a); cbn [fst snd].
  - right. auto.
  - left. split; [reflexivity|]. intros _ Hp. discriminate.
Qed.

Section InitHist.
  Variable F0 : list bool.
  Variable T0 : list (tcfg * bool * nat).
  Hypothesis HOL : OneLead F0.
  Hypothesis HLEN : length F0 = length T0.
  Hypothesis HTL : forall i b x, nth_error F0 i = Some b -> nth_error T0 i = Some x -> snd (fst x) = b.
  (* every video track is a leading track *)
  Hypothesis HVL : forall i x, nth_error T0 i = Some x -> isVideo (t_kind (fst (fst x))) = true -> snd (fst x) = true.

  (* one call of fmp4WriteSample.  Without paramsChanged it keeps K; with paramsChanged - which the front ends pass
     only together with a random-access unit of the leading track - it ends in a forced rotation of every stream,
     or (first unit of the track) changes no stream *)
  Lemma KI_fmp4 m tj t (ra pc : bool) smp0 m' :
    ST F0 T0 m -> nth_error (m_tracks m) tj = Some t ->
    (if pc then ra = true /\ tk_leading t = true /\ 0 <= shifted t smp0 /\ (tk_next t = None -> Kw m) else KI m) ->
    fmp4WriteSample m tj ra pc smp0 = (m', Ok tt) ->
    m_pending m' = m_pending m /\ (if pc then Kw m' else KI m').
  Proof.
    intros HS Ht Hpre. pose proof HS as ((HL & HB) & HO & HF & HT).
    unfold fmp4WriteSample. rewrite Ht. cbv zeta.
    fold (shifted t smp0). pose proof (li_tracks m HL tj t Ht) as Hsi. rewrite Hsi.
    destruct (shifted t smp0 <? 0) eqn:E0.
    { intros [= <-]. split; [reflexivity|]. destruct pc; [apply Z.ltb_lt in E0; lia|exact Hpre]. }
    clear E0. fold (incoming_of t smp0).
    set (m1 := upd_track m tj (fun t0 => tk_with t0 (tk_firstRA t0) (tk_params t0) (Some (incoming_of t smp0))
                                                 (tk_samples t0) (tk_start t0))).
    assert (V1 : SameV m m1) by (apply SameV_upd_track; intros x; reflexivity).
    assert (S1 : ST F0 T0 m1).
    { subst m1. unfold upd_track, set_tracks. apply ST_frame; [|exact HS]. apply map_upd_static. intros x. reflexivity. }
    pose proof S1 as ((L1 & _) & _).
    assert (Hfin : forall mf, SameV m mf -> m_pending mf = m_pending m /\ (if pc then (tk_next t = None -> Kw mf) else KI mf)).
    { intros mf V. split; [now destruct V as (_ & _ & A & _)|].
      destruct pc; [intros Hn; apply (Kw_SameV m mf V); now apply Hpre|now apply (KI_SameV m mf V)]. }
    destruct (tk_next t) as [prev|] eqn:En.
    2:{ intros [= <-]. destruct (Hfin m1 V1) as [A B]. split; [exact A|]. destruct pc; [now apply B|exact B]. }
    assert (Ht1 : exists t1, nth_error (m_tracks m1) tj = Some t1).
    { subst m1. unfold upd_track. cbn [set_tracks m_tracks]. rewrite (nth_error_upd_same _ tj _ t Ht). eauto. }
    destruct Ht1 as (t1 & Ht1).
    destruct (stream_exists m1 tj t1 L1 Ht1) as (s1 & Hs1).
    change (match nth_error (m_streams m1) tj with
            | Some s => match st_open s with Some _ => true | None => false end | None => false end) with (opened_at m tj).
    destruct (negb (tk_leading t) && negb (opened_at m tj)) eqn:Eg.
    { intros [= <-]. destruct (Hfin m1 V1) as [A B]. split; [exact A|]. destruct pc; [|exact B].
      destruct Hpre as (_ & Hl & _). rewrite Hl in Eg. discriminate. }
    set (smp := emit_of prev (shifted t smp0)).
    set (rate := t_rate (tk_cfg t)).
    set (m2 := if tk_leading t && negb (opened_at m tj)
               then createFirstSegment m1 (timestampToDuration (s_dts smp) rate) (s_ntp smp) else m1).
    assert (S2 : ST F0 T0 m2 /\ m_pending m2 = m_pending m /\ (Kw m -> Kw m2) /\ opened_at m2 tj = true).
    { subst m2. destruct (tk_leading t && negb (opened_at m tj)) eqn:Ec.
      - apply andb_true_iff in Ec. destruct Ec as [_ Ec]. apply negb_true_iff in Ec.
        assert (Ho1 : st_open s1 = None).
        { unfold opened_at in Ec. change (m_streams m) with (m_streams m1) in Ec. rewrite Hs1 in Ec. now destruct (st_open s1). }
        split; [|split; [|split]].
        + apply (ST_create F0 T0 m1 _ _ tj t1 Ht1); [|exact S1]. rewrite (li_tracks m1 L1 tj t1 Ht1). exact Ec.
        + now destruct V1 as (_ & _ & A & _).
        + intros H. apply Kw_create; [exact (all_closed m1 tj t1 s1 L1 Ht1 Hs1 Ho1)|]. now apply (Kw_SameV m m1 V1).
        + unfold opened_at, createFirstSegment. cbn [set_stream m_streams]. rewrite nth_error_map, Hs1. reflexivity.
      - split; [exact S1|]. split; [now destruct V1 as (_ & _ & A & _)|]. split; [now apply (Kw_SameV m m1 V1)|].
        destruct (tk_leading t), (opened_at m tj) eqn:E; simpl in *; try congruence; exact E. }
    destruct S2 as (S2 & P2 & K2 & Op2).
    set (m3 := if tk_leading t then fmp4AdjustPartDuration m2 (timestampToDuration (shifted t smp0 - s_dts prev) rate) else m2).
    assert (S3 : ST F0 T0 m3 /\ SameV m2 m3 /\ opened_at m3 tj = true).
    { subst m3. destruct (tk_leading t); [|split; [exact S2|split; [apply SameV_refl|exact Op2]]].
      split; [apply (TC_adjust (ST F0 T0) (ST_frame F0 T0)); exact S2|]. split; [apply SameV_adjust|].
      match goal with |- context [fmp4AdjustPartDuration ?x ?y] => destruct (adjust_frame x y) as (_ & B & _) end.
      unfold opened_at. rewrite B. exact Op2. }
    destruct S3 as (S3 & V3 & Op3).
    match goal with |- context [part_writeSample ?a tj tj ?b] => change a with m3; change b with smp end.
    destruct (part_writeSample m3 tj tj smp) as [m4| |] eqn:Ew; [|discriminate|discriminate].
    pose proof (ST_pws F0 T0 _ _ _ _ _ S3 Ew) as S4.
    pose proof (SameV_pws _ _ _ _ _ Ew) as V4.
    assert (V24 : SameV m2 m4) by (eapply SameV_trans; eauto).
    assert (Op4 : opened_at m4 tj = true) by (rewrite (opened_pws _ _ _ _ _ tj Ew); exact Op3).
    assert (P4 : m_pending m4 = m_pending m) by (destruct V24 as (_ & _ & A & _); congruence).
    assert (K4 : Kw m -> Kw m4) by (intros H; apply (Kw_SameV m2 m4 V24); now apply K2).
    (* whatever follows keeps the view of m4, unless it is a segment rotation *)
    assert (Hfin4 : forall mf, SameV m4 mf -> pc = false -> m_pending mf = m_pending m /\ KI mf).
    { intros mf V Hpc. subst pc. destruct V as (A & B & C & D). split; [congruence|].
      intros Hp. apply (Kw_SameV m4 mf (conj A (conj B (conj C D)))). apply K4. apply Hpre. congruence. }
    pose proof S4 as ((L4 & _) & _).
    destruct (negb (tk_leading t)) eqn:El.
    { intros [= <-]. destruct pc.
      - destruct Hpre as (_ & Hl & _). rewrite Hl in El. discriminate.
      - now apply Hfin4; [apply SameV_refl|]. }
    destruct (nth_error (m_streams m4) tj) as [s4|] eqn:Es4.
    2:{ unfold opened_at in Op4. rewrite Es4 in Op4. discriminate. }
    match goal with |- context [if ?c then _ else _] => destruct c eqn:Edue end.
    - intros Hr.
      set (d := timestampToDuration (shifted t smp0) rate) in *.
      set (m5 := rotateSegments m4 d (s_ntp (incoming_of t smp0)) pc) in *.
      assert (V5 : SameV m5 m') by (destruct pc; injection Hr as <-; apply SameV_set_adj).
      assert (P5 : m_pending m5 = m_pending m) by (subst m5; rewrite pend_rotateSegments; exact P4).
      split; [destruct V5 as (_ & _ & A & _); congruence|].
      assert (Hv4 : c_variant (m_cfg m4) <> MPEGTS) by exact (li_variant m4 L4).
      destruct pc.
      + apply (Kw_SameV m5 m' V5). subst m5. apply Kw_rotateSegments_true; [exact Hv4| |].
        * now destruct (ST_lead F0 T0 HOL m4 S4).
        * assert (Ho4 : st_open s4 <> None) by (unfold opened_at in Op4; rewrite Es4 in Op4; destruct (st_open s4); congruence).
          exact (all_open_of_one m4 s4 L4 (nth_error_In _ _ Es4) Ho4).
      + intros Hp. apply (Kw_SameV m5 m' V5). subst m5. apply Kw_rotateSegments_false; [exact Hv4|].
        apply K4. apply Hpre. destruct V5 as (_ & _ & A & _). congruence.
    - destruct pc.
      { exfalso. destruct Hpre as (-> & _). cbn [andb orb] in Edue. discriminate. }
      match goal with |- context [if ?c then _ else _] => destruct c end; intros [= <-].
      + now apply Hfin4; [apply SameV_rotateParts|].
      + now apply Hfin4; [apply SameV_refl|].
  Qed.

  Lemma KI_audio_units units : forall m tj k r srate i pts ntp m',
    ST F0 T0 m -> KI m -> write_audio_units m tj k r srate i pts ntp units = (m', Ok tt) -> KI m'.
  Proof.
    induction units as [|x units IH]; intros m tj k r srate i pts ntp m' HS HK; cbn [write_audio_units].
    - intros [= <-]. exact HK.
    - destruct (match k with OPUS => (pts, ntp) | _ => _ end) as [upts untp].
      match goal with |- context [fmp4WriteSample m tj true false ?s] =>
        set (smp := s); pose proof (ST_fmp4WriteSample F0 T0 m tj true false smp HS) as S1;
        destruct (fmp4WriteSample m tj true false smp) as [m1 res] eqn:Ew end.
      cbn [fst] in S1. destruct res as [[]|e|p]; [|discriminate|discriminate].
      assert (K1 : KI m1).
      { destruct (nth_error (m_tracks m) tj) as [t|] eqn:Ht.
        - now destruct (KI_fmp4 m tj t true false smp m1 HS Ht HK Ew).
        - unfold fmp4WriteSample in Ew. rewrite Ht in Ew. injection Ew as <-. exact HK. }
      intros Hr. destruct k; eapply IH; eauto.
  Qed.

  Lemma KI_write_video m tj t a m' :
    INV F0 T0 m -> KI m -> AUX m -> nth_error (m_tracks m) tj = Some t -> isVideo (t_kind (tk_cfg t)) = true ->
    wf_op T0 (WWrite tj a) -> write_video m tj t a = (m', Ok tt) -> KI m'.
  Proof.
    intros [HS HFR HR] HK HA Ht Hv Hwf. pose proof HS as ((HL & _) & _ & _ & D).
    assert (Hx : nth_error T0 tj = Some (tk_static t)) by (rewrite <- D; erewrite map_nth_error by exact Ht; reflexivity).
    assert (Hlead : tk_leading t = true) by exact (HVL tj (tk_static t) Hx Hv).
    assert (Etj : tj = li F0).
    { pose proof (track_leading_flag F0 T0 HOL HLEN HTL m tj t HS Ht) as E. rewrite Hlead in E. symmetry in E. now apply Nat.eqb_eq in E. }
    unfold write_video. cbv zeta.
    set (ex := match t_kind (tk_cfg t) with H264 | H265 => true | _ => a_ra a end).
    pose proof (video_params_K m tj t a ex) as HVK. cbv zeta in HVK.
    pose proof (heads_video_params m tj t a ex) as Hh1.
    destruct (video_params_streams' m tj t a ex) as [Es1 Ef1].
    pose proof (TC_video_params (ST F0 T0) (ST_frame F0 T0) m tj t a ex HS) as S1.
    destruct (video_params m tj t a ex) as [m1 pc0]. cbn [fst snd] in *.
    assert (Hskip : a_ra a = false -> forall mr, wok m1 = (mr, Ok tt) -> KI mr).
    { intros Hra mr [= <-]. destruct HVK as [[_ H]|(_ & H & _)]; [now apply H|congruence]. }
    set (m2 := set_firstRA m1 tj).
    assert (V2 : SameV m1 m2) by (apply SameV_upd_track; intros x; reflexivity).
    assert (S2 : ST F0 T0 m2).
    { subst m2. unfold set_firstRA, upd_track, set_tracks. apply ST_frame; [|exact S1]. apply map_upd_static. intros x. reflexivity. }
    assert (Ef2 : map tk_frame (m_tracks m2) = map tk_frame (m_tracks m)).
    { rewrite <- Ef1. subst m2. unfold set_firstRA, upd_track. cbn [set_tracks m_tracks]. apply map_upd_static. intros x. reflexivity. }
    assert (Hh2 : heads m2 = upd (heads m) tj (fun h => (fst h, true))).
    { rewrite <- Hh1. subst m2. unfold heads, set_firstRA, upd_track. cbn [set_tracks m_tracks]. clear.
      generalize (m_tracks m1) as l. intros l. revert tj. induction l as [|x l IH]; intros [|i]; simpl; auto. now rewrite IH. }
    assert (Ht2 : exists t2, nth_error (m_tracks m2) tj = Some t2 /\ tk_cfg t2 = tk_cfg t /\ tk_leading t2 = tk_leading t
                             /\ tk_next t2 = tk_next t).
    { assert (A : option_map tk_frame (nth_error (m_tracks m2) tj) = option_map tk_frame (nth_error (m_tracks m) tj))
        by (rewrite <- !nth_error_map, Ef2; reflexivity).
      assert (B : nth_error (heads m2) tj = nth_error (upd (heads m) tj (fun h => (fst h, true))) tj) by now rewrite Hh2.
      unfold heads in B. rewrite nth_error_map in B.
      rewrite (nth_error_upd_same _ tj _ (tk_nf t)) in B by (erewrite map_nth_error by exact Ht; reflexivity).
      rewrite Ht in A. destruct (nth_error (m_tracks m2) tj) as [t2|]; simpl in A, B; [|discriminate].
      exists t2. split; [reflexivity|]. injection A as Ac Al _ _ _. injection B as Bn _. auto. }
    destruct Ht2 as (t2 & Ht2 & Ec2 & El2 & En2).
    assert (Hgo : forall mr, fmp4WriteSample m2 tj (a_ra a) pc0 (video_sample a) = (mr, Ok tt) -> KI mr).
    { intros mr Hw.
      assert (Hpre : if pc0 then a_ra a = true /\ tk_leading t2 = true /\ 0 <= shifted t2 (video_sample a)
                                /\ (tk_next t2 = None -> Kw m2) else KI m2).
      { destruct HVK as [[-> H]|(-> & Hra & Hp)].
        - apply (KI_SameV m1 m2 V2). now apply H.
        - split; [exact Hra|]. split; [congruence|]. split.
          + unfold shifted. cbn [video_sample s_dts]. rewrite Ec2. exact (Hwf (tk_static t) Hx Hv).
          + (* no look-ahead unit: the stream has never been opened, no stream has an init *)
            rewrite En2. intros Hn j s Hj _ ps Hi. exfalso.
            change (m_streams m2) with (m_streams m1) in Hj. rewrite Es1 in Hj.
            assert (Hcl : opened_at m (li F0) = false).
            { destruct (opened_at m (li F0)) eqn:E; [|reflexivity]. exfalso.
              apply (ra_np _ _ HR E). unfold pending. rewrite <- Etj, Ht. exact Hn. }
            destruct (stream_exists m tj t HL Ht) as (sl & Hsl).
            assert (Hol : st_open sl = None).
            { unfold opened_at in Hcl. rewrite <- Etj, Hsl in Hcl. now destruct (st_open sl). }
            pose proof (all_closed m tj t sl HL Ht Hsl Hol s (nth_error_In _ _ Hj)) as Hos.
            rewrite (HA s (nth_error_In _ _ Hj) Hos) in Hi. discriminate. }
      destruct (KI_fmp4 m2 tj t2 (a_ra a) pc0 (video_sample a) mr S2 Ht2 Hpre Hw) as [Pm HKm].
      destruct pc0; [intros _; exact HKm|exact HKm]. }
    destruct (t_kind (tk_cfg t)).
    - destruct (negb (a_ra a) && negb (a_nonidr a)) eqn:E1.
      { apply Hskip. apply andb_true_iff in E1. destruct E1 as [E1 _]. now apply negb_true_iff in E1. }
      destruct (negb (tk_firstRA t) && negb (a_ra a)) eqn:E2.
      { apply Hskip. apply andb_true_iff in E2. destruct E2 as [_ E2]. now apply negb_true_iff in E2. }
      destruct (c_variant (m_cfg m)) eqn:Ev; [exfalso; exact (li_variant m HL Ev)|apply Hgo|apply Hgo].
    - destruct (negb (tk_firstRA t) && negb (a_ra a)) eqn:E2; [|apply Hgo].
      apply Hskip. apply andb_true_iff in E2. destruct E2 as [_ E2]. now apply negb_true_iff in E2.
    - destruct (negb (tk_firstRA t) && negb (a_ra a)) eqn:E2; [|apply Hgo].
      apply Hskip. apply andb_true_iff in E2. destruct E2 as [_ E2]. now apply negb_true_iff in E2.
    - destruct (negb (tk_firstRA t) && negb (a_ra a)) eqn:E2; [|apply Hgo].
      apply Hskip. apply andb_true_iff in E2. destruct E2 as [_ E2]. now apply negb_true_iff in E2.
    - discriminate.
    - discriminate.
  Qed.

  Record KINV (m : mstate) : Prop := { ki_inv : INV F0 T0 m; ki_k : KI m; ki_aux : AUX m }.

  Theorem KINV_mux_step m o m' : KINV m -> wf_op T0 o -> mux_step m o = (m', Ok tt) -> KINV m'.
  Proof.
    intros [HI HK HA] Hwf Hs. constructor.
    - eapply INV_mux_step; eauto.
    - destruct o as [tj a]. unfold mux_step, mux_write in Hs.
      destruct (nth_error (m_tracks m) tj) as [t|] eqn:Ht; [|injection Hs as <-; exact HK].
      destruct (isVideo (t_kind (tk_cfg t))) eqn:Hv.
      + eapply KI_write_video; eauto.
      + unfold write_audio in Hs. pose proof (inv_st _ _ _ HI) as HS. pose proof HS as ((HL & _) & _).
        destruct (c_variant (m_cfg m)) eqn:Ev; [exfalso; exact (li_variant m HL Ev)| |]; eapply KI_audio_units; eauto.
    - pose proof (AUX_mux_step m o HA) as H. now rewrite Hs in H.
  Qed.

  Theorem KINV_mux_run ops : forall m, KINV m -> Forall (wf_op T0) ops -> all_ok m ops -> KINV (mux_run m ops).
  Proof.
    induction ops as [|o ops IH]; intros m HI Hwf Hok; [exact HI|]. cbn [mux_run].
    inversion Hwf as [|? ? Hw1 Hw2]; subst. destruct Hok as [Hr Hok].
    apply IH; auto. eapply KINV_mux_step; eauto. rewrite <- Hr. apply surjective_pairing.
  Qed.
End InitHist.

(* ---- the initial state ---- *)
Lemma mk_streams_init c ts : forall i ch n s, In s (mk_streams c i ts ch n) -> st_init s = None.
Proof.
  induction ts as [|t ts IH]; intros i ch n s H; [destruct H|]. cbn [mk_streams] in H.
  match type of H with context [let '(a, b) := ?x in _] => destruct x as [dflt chosen'] end.
  destruct H as [<-|H]; [reflexivity|]. eapply IH; eauto.
Qed.

Theorem init_carries_current_parameters c m0 ops :
  start c = Ok m0 -> c_variant c <> MPEGTS ->
  Forall (wf_op (map tk_static (m_tracks m0))) ops -> all_ok m0 ops ->
  let m := mux_run m0 ops in
  forall si s ps,
    nth_error (m_streams m) si = Some s ->
    m_pending m = false -> (forall g, st_open s = Some g -> sg_forced g = false) -> st_init s = Some ps ->
    ps = map (fun ti => match nth_error (m_tracks m) ti with Some t => tk_params t | None => 0 end) (st_tracks s).
Proof.
  intros Hs Hv Hwf Hok. cbv zeta.
  destruct (start_INV c m0 Hs Hv) as (HOL & HLEN & HTL & HI). cbv zeta in *.
  set (F0 := map st_leading (m_streams m0)) in *. set (T0 := map tk_static (m_tracks m0)) in *.
  assert (ET : m_tracks m0 = mk_tracks (norm_cfg c) 0 (c_tracks c)).
  { unfold start in Hs. destruct (negb (start_ok (norm_cfg c))); [discriminate|]. now injection Hs as <-. }
  assert (HVL : forall i x, nth_error T0 i = Some x -> isVideo (t_kind (fst (fst x))) = true -> snd (fst x) = true).
  { intros i x Hx Hvid. subst T0. apply map_nth_error_inv in Hx. destruct Hx as (t & Et & <-). cbn [tk_static fst snd] in *.
    rewrite ET in Et. destruct (mk_tracks_static _ _ _ _ _ Et) as (t0 & _ & Ec & El & _).
    rewrite El. unfold track_leading. rewrite <- Ec, Hvid. reflexivity. }
  pose proof (start_streams c m0 Hs) as ES.
  assert (EM : exists n, m_streams m0 = mk_streams (norm_cfg c) 0 (c_tracks c) false n).
  { rewrite ES. destruct (c_variant c); [congruence|eauto|eauto]. }
  destruct EM as (n & EM).
  assert (Hnoinit : forall s, In s (m_streams m0) -> st_init s = None).
  { intros s Hin. rewrite EM in Hin. eapply mk_streams_init; eauto. }
  assert (H0 : KINV F0 T0 m0).
  { constructor; [exact HI| |].
    - intros _ j s Hj _ ps Hi. rewrite (Hnoinit s (nth_error_In _ _ Hj)) in Hi. discriminate.
    - intros s Hin _. now apply Hnoinit. }
  pose proof (KINV_mux_run F0 T0 HOL HLEN HTL HVL ops m0 H0 Hwf Hok) as [_ HK _].
  intros si s ps Hsi Hp Hf Hi. exact (HK Hp si s Hsi Hf ps Hi).
Qed.

(* ================================================================================================
   A stream that has published a segment has an init (fMP4 variants, any history).
   ================================================================================================ *)
Definition HasInit (c : cfg) (s : stream) : Prop := c_variant c <> MPEGTS -> published s <> [] -> st_init s <> None.

Lemma HasInit_srot_parts c v s seg p d cn : HasInit c s -> HasInit c (fst (srot_parts v s seg p d cn)).
Proof.
  intros H Hv Hp. destruct (srot_parts_frame v s seg p d cn) as (F1 & F2 & _ & _ & _ & F6 & _).
  rewrite F6. apply H; [exact Hv|]. unfold published in *. now rewrite F1, F2 in Hp.
Qed.

Lemma HasInit_rotp m si d cn :
  Forall (HasInit (m_cfg m)) (m_streams m) -> Forall (HasInit (m_cfg m)) (m_streams (stream_rotateParts m si d cn)).
Proof.
  intros H. destruct (stream_rotateParts_streams m si d cn) as [->|(s & seg & p0 & Es & Eo & Ep & ->)]; [exact H|].
  apply Forall_upd; [exact H|]. intros x Hx Hh. rewrite Es in Hx. injection Hx as <-. now apply HasInit_srot_parts.
Qed.

Lemma HasInit_rots m si d ntp f :
  Forall (HasInit (m_cfg m)) (m_streams m) -> Forall (HasInit (m_cfg m)) (m_streams (stream_rotateSegments m si d ntp f)).
Proof.
  intros H. pose proof (stream_rotateSegments_streams m si d ntp f) as HS. cbv zeta in HS.
  set (m1 := match c_variant (m_cfg m) with MPEGTS => m | _ => stream_rotateParts m si d false end) in *.
  assert (H1 : Forall (HasInit (m_cfg m)) (m_streams m1)) by (subst m1; destruct (c_variant (m_cfg m)); auto using HasInit_rotp).
  destruct HS as [->|(s & seg0 & cur & Es & Eo & ->)]; [exact H1|].
  apply Forall_upd; [exact H1|]. intros x Hx Hh Hv _. rewrite Es in Hx. injection Hx as <-.
  destruct (init_regenerated (c_variant (m_cfg m)) (c_segcount (m_cfg m)) s seg0 d ntp f cur) as [R1 R2]. cbv zeta in R1, R2.
  rewrite R2, R1.
  assert (Hnv : negb (variant_eqb (c_variant (m_cfg m)) MPEGTS) = true) by (destruct (c_variant (m_cfg m)); [congruence|reflexivity|reflexivity]).
  rewrite Hnv. cbn [andb]. destruct (st_init s); [destruct (sg_forced seg0)|]; discriminate.
Qed.

Theorem init_exists_once_published c m0 ops si s :
  start c = Ok m0 -> c_variant c <> MPEGTS ->
  nth_error (m_streams (mux_run m0 ops)) si = Some s -> published s <> [] -> st_init s <> None.
Proof.
  intros Hs Hv Hn Hp.
  assert (H0 : G HasInit m0).
  { unfold G. apply Forall_forall. intros s0 Hin _ Hpub. exfalso. apply Hpub.
    pose proof (start_streams c m0 Hs) as ES.
    assert (EM : exists n, m_streams m0 = mk_streams (norm_cfg c) 0 (c_tracks c) false n)
      by (rewrite ES; destruct (c_variant c); [congruence|eauto|eauto]).
    destruct EM as (n & EM). rewrite EM in Hin. destruct (mk_streams_open _ _ _ _ _ _ Hin) as (_ & A & B).
    unfold published. now rewrite A, B. }
  assert (HG : G HasInit (mux_run m0 ops)).
  { apply G_mux_run; [| | | | |exact H0].
    - intros c0 s0 d ntp H. exact H.
    - intros m si0 d. apply HasInit_rotp.
    - intros m si0 d ntp f. apply HasInit_rots.
    - intros c0 s0 g p H _ _ _ _. exact H.
    - intros c0 s0 t pt _ H. exact H. }
  unfold G in HG. rewrite Forall_forall in HG. apply (HG s (nth_error_In _ _ Hn)); [|exact Hp].
  rewrite cfg_mux_run. destruct (start_cfg_wf c m0 Hs) as [_ Hc]. rewrite Hc. exact Hv.
Qed.

(* ================================================================================================
   Non-vacuity, and the need for the hypothesis on video units.
   ================================================================================================ *)
Definition init_au (dts : Z) (ra : bool) (id : Z) (p : option Z) : au :=
  {| a_pts := dts; a_dts := dts; a_ntp := 1700000000000000000 + dts * 11111; a_ra := ra; a_nonidr := negb ra;
     a_params := p; a_units := [(id, 100, 100, 0)] |}.

(* 333 ms H264 frames, a random-access unit every third frame (1 s segments); the seventh unit - a random-access
   one - carries new parameters (id 2 instead of 1) *)
Definition in_ops : list wop :=
  map (fun k => WWrite 0 (init_au (k * 30000) (Z.rem k 3 =? 0) (10 + k) (if k =? 6 then Some 2 else None)))
      [0;1;2;3;4;5;6;7;8;9;10].

Definition init_view (m : mstate) (si : nat) : option (option (list Z) * option bool * list Z) :=
  match nth_error (m_streams m) si with
  | Some s => Some (st_init s, option_map sg_forced (st_open s), cur_params m s)
  | None => None
  end.

(* after nine writes the change has been consumed (nothing pending) but the open segment is the forced one: the
   init still carries parameters 1 while the track is at 2 - the premise "open segment not forced" is what K needs;
   two writes later the forced segment has been closed and listed, and the init carries parameters 2 *)
Lemma init_example : exists m0,
  start ex_cfg = Ok m0 /\ c_variant ex_cfg <> MPEGTS
  /\ Forall (wf_op (map tk_static (m_tracks m0))) in_ops /\ all_ok m0 in_ops
  /\ (let m := mux_run m0 (firstn 9 in_ops) in
      m_pending m = false /\ init_view m 0 = Some (Some [1], Some true, [2]))
  /\ (let m := mux_run m0 in_ops in
      m_pending m = false /\ init_view m 0 = Some (Some [2], Some false, [2])
      /\ init_view m 1 = Some (Some [2], Some false, [2])).
Proof.
  destruct (start ex_cfg) as [m0| |] eqn:E; [|vm_compute in E; discriminate|vm_compute in E; discriminate].
  exists m0. split; [reflexivity|]. split; [discriminate|].
  vm_compute in E. injection E as <-. split; [|split; [vm_compute; tauto|split; vm_compute; auto]].
  repeat constructor; intros x Hx Hv; vm_compute in Hx; injection Hx as <-; vm_compute; discriminate.
Qed.

(* five ordinary writes (one segment closed, so an init exists), then a random-access unit that carries new
   parameters but lies before -10 s *)
Definition bad_ops : list wop :=
  map (fun k => WWrite 0 (init_au (k * 30000) (Z.rem k 3 =? 0) (10 + k) None)) [0;1;2;3;4]
  ++ [WWrite 0 (init_au (-1000000) true 20 (Some 2))].

Lemma init_stale_before_minus_10s : exists m0 s ps,
  start ex_cfg = Ok m0 /\ c_variant ex_cfg <> MPEGTS /\ all_ok m0 bad_ops
  /\ let m := mux_run m0 bad_ops in
     nth_error (m_streams m) 0 = Some s
     /\ m_pending m = false /\ (forall g, st_open s = Some g -> sg_forced g = false) /\ st_init s = Some ps
     /\ ps = [1]
     /\ map (fun ti => match nth_error (m_tracks m) ti with Some t => tk_params t | None => 0 end) (st_tracks s) = [2].
Proof.
  destruct (start ex_cfg) as [m0| |] eqn:E; [|vm_compute in E; discriminate|vm_compute in E; discriminate].
  vm_compute in E. injection E as <-.
  eexists. eexists. eexists. split; [reflexivity|]. split; [discriminate|]. split; [vm_compute; tauto|]. cbv zeta.
  split; [vm_compute; reflexivity|]. split; [vm_compute; reflexivity|].
  split; [intros g Hg; vm_compute in Hg; injection Hg as <-; reflexivity|].
  split; [vm_compute; reflexivity|]. split; vm_compute; reflexivity.
Qed.
