(* C02, fMP4 variants: every segment begins with a random-access unit of the leading track.
   The GROUPED log of a stream lists its samples segment by segment: one group per non-gap evicted or
   listed segment, in order, and - when the stream is open - a last group for the open segment (its
   parts' samples followed by the samples buffered for the part being built).  A part rotation changes
   no group; a segment rotation of a stream appends one empty group to that stream's grouped log and
   touches no other; muxerPart.writeSample appends its sample to the last group.  (Continued in
   MuxRAStart.v.) *)
From Coq Require Import List ZArith Bool Lia Arith.
From GoHls Require Import Model.Mux Proofs.MuxStream Proofs.MuxLift Proofs.MuxWindow Proofs.MuxHistory Proofs.MuxTimes
  Proofs.MuxMulti Proofs.MuxCut Proofs.MuxLog Proofs.MuxLogStep.
Import ListNotations.
Local Open Scope Z_scope.

Definition real_groups (segs : list segrec) : list (list sample) :=
  map seg_samples (filter (fun g => negb (sg_gap g)) segs).

Definition glog (m : mstate) (j : nat) : list (list sample) :=
  match nth_error (m_streams m) j with
  | Some s => real_groups (published s)
              ++ match st_open s with
                 | Some g => [seg_samples g ++ buffered (m_tracks m) s]
                 | None => []
                 end
  | None => []
  end.

Lemma real_groups_app l1 l2 : real_groups (l1 ++ l2) = real_groups l1 ++ real_groups l2.
Proof. unfold real_groups. now rewrite filter_app, map_app. Qed.

Lemma real_groups_gaps d n : real_groups (repeat (mkgap d) n) = [].
Proof. induction n; simpl; auto. Qed.

(* every segment the model ever opens is a real one *)
Definition open_real (s : stream) : Prop := forall g, st_open s = Some g -> sg_gap g = false.

(* ---- one stream through its own rotations ---- *)
Lemma groups_srot_segments v sc s seg0 d ntp f cur :
  st_open s = Some seg0 -> sg_gap seg0 = false ->
  real_groups (published (fst (fst (srot_segments v sc s seg0 d ntp f cur))))
  = real_groups (published s) ++ [seg_samples seg0].
Proof.
  intros Ho Hg. pose proof (published_srot_segments v sc s seg0 d ntp f cur) as HP. cbv zeta in HP. rewrite HP.
  unfold published, with_gaps.
  assert (Hs : real_groups [sg_with_end seg0 d] = [seg_samples seg0]).
  { unfold real_groups. cbn [filter sg_with_end sg_gap]. rewrite Hg. reflexivity. }
  destruct v; [| |destruct (st_segments s)]; rewrite ?real_groups_app, ?real_groups_gaps, ?Hs; simpl;
    rewrite ?app_nil_r, <- ?app_assoc; reflexivity.
Qed.

Lemma glog_ext m m' j :
  m_streams m' = m_streams m -> map tk_samples (m_tracks m') = map tk_samples (m_tracks m) -> glog m' j = glog m j.
Proof.
  intros E1 E2. unfold glog. rewrite E1. destruct (nth_error (m_streams m) j) as [s|]; [|reflexivity].
  f_equal. destruct (st_open s); [|reflexivity]. f_equal. f_equal.
  unfold buffered. destruct (st_tracks s) as [|ti rest]; [reflexivity|].
  assert (H : option_map tk_samples (nth_error (m_tracks m') ti) = option_map tk_samples (nth_error (m_tracks m) ti))
    by (rewrite <- !nth_error_map, E2; reflexivity).
  destruct (nth_error (m_tracks m') ti), (nth_error (m_tracks m) ti); simpl in H; try congruence.
  now injection H as ->.
Qed.

(* ---- part rotation: no group changes ---- *)
Lemma glog_rotp m si d cn j : Linked m -> glog (stream_rotateParts m si d cn) j = glog m j.
Proof.
  intros HL. unfold glog.
  destruct (rotp_spec m si d cn) as [[E1 E2]|(s & seg & p0 & Es & Eo & Ep & E1 & E2)].
  - now rewrite E1, E2.
  - cbv zeta in E1, E2. rewrite E1, E2.
    pose proof (HL si s Es) as Hts.
    destruct (part_finalize_linked p0 (m_tracks m) s si d Hts) as (P1 & P2 & P3 & _). cbv zeta in P1, P2, P3.
    destruct (Nat.eq_dec si j) as [->|Hne].
    + rewrite (nth_error_upd_same _ j _ s Es), Es.
      destruct (srot_parts_frame (c_variant (m_cfg m)) s seg (fst (part_finalize p0 (m_tracks m) (st_tracks s) d)) d cn)
        as (F1 & F2 & _ & _ & _ & _ & _ & F8 & _).
      unfold published. rewrite F1, F2, F8, Eo. f_equal. f_equal.
      rewrite P2 by (rewrite srot_parts_tracks; exact Hts).
      unfold seg_samples. cbn [sg_with_parts sg_parts]. rewrite (flat_map_app p_samples). simpl.
      rewrite !app_nil_r. now rewrite P1.
    + rewrite nth_error_upd_other by exact Hne.
      destruct (nth_error (m_streams m) j) as [sj|] eqn:Ej; [|reflexivity].
      f_equal. destruct (st_open sj); [|reflexivity]. f_equal. f_equal.
      apply (buffered_other _ _ sj j (HL j sj Ej)). apply P3. congruence.
Qed.

(* ---- segment rotation of stream si: one empty group more for si, nothing else ---- *)
Lemma glog_rots m si d ntp f j :
  LI m -> (forall s, In s (m_streams m) -> open_real s) ->
  glog (stream_rotateSegments m si d ntp f) j =
  if Nat.eqb j si && opened_at m si then glog m j ++ [[]] else glog m j.
Proof.
  intros HL Hreal. pose proof HL as [L1 L2 L3 L4 L5 L6].
  destruct (rots_cases m si d ntp f L1) as [[E1 E2]|(s & seg & p0 & s2 & Es & Eo & Ep & E1 & E2 & T2 & O2 & P2 & cur & Hs2)].
  { intros s Hs. apply L5. eapply nth_error_In; eauto. }
  - (* nothing happened: the stream is absent or closed, or (impossible) open and unrotated *)
    assert (Hg : glog (stream_rotateSegments m si d ntp f) j = glog m j) by (apply glog_ext; [exact E1|now rewrite E2]).
    rewrite Hg. destruct (Nat.eqb_spec j si) as [->|]; [|reflexivity]. cbn [andb].
    unfold opened_at. destruct (nth_error (m_streams m) si) as [s|] eqn:Es; [|reflexivity].
    destruct (st_open s) as [g|] eqn:Eo; [|reflexivity].
    (* open: then the rotation happens and the counter moves; E1 says the streams are unchanged *)
    exfalso. destruct (rots_own m si d ntp f s Es) as (s1 & Hs1 & Hn1 & _); [congruence|].
    rewrite E1, Es in Hs1. injection Hs1 as <-. lia.
  - (* stream si rotated *)
    assert (Hop : opened_at m si = true) by (unfold opened_at; now rewrite Es, Eo).
    rewrite Hop, andb_true_r.
    destruct (Nat.eqb_spec j si) as [->|Hne].
    + (* the rotated stream: from the definition, its published list gains the closed segment *)
      unfold glog at 1. rewrite E1, (nth_error_upd_same _ si _ s Es).
      cbv zeta in Hs2. subst s2.
      set (pf := part_finalize p0 (m_tracks m) (st_tracks s) d) in *.
      set (s1 := fst (srot_parts (c_variant (m_cfg m)) s seg (fst pf) d false)) in *.
      set (g1 := sg_with_parts seg (sg_parts seg ++ [fst pf])) in *.
      assert (Ho1 : st_open s1 = Some g1).
      { subst s1 g1. now destruct (srot_parts_frame (c_variant (m_cfg m)) s seg (fst pf) d false) as (_ & _ & _ & _ & _ & _ & _ & F8 & _). }
      assert (Hg1 : sg_gap g1 = false).
      { subst g1. cbn [sg_with_parts sg_gap]. apply (Hreal s (nth_error_In _ _ Es) seg Eo). }
      rewrite (groups_srot_segments _ _ s1 g1 d ntp f cur Ho1 Hg1).
      destruct (srot_segments_frame (c_variant (m_cfg m)) (c_segcount (m_cfg m)) s1 g1 d ntp f cur) as (_ & _ & _ & _ & _ & F6 & _).
      rewrite F6. cbn [new_seg seg_samples sg_parts flat_map app].
      (* the new open segment has no samples and the track's buffer was drained *)
      pose proof (L2 si s Es) as Hts.
      destruct (part_finalize_linked p0 (m_tracks m) s si d Hts) as (P1' & P2' & _ & _). cbv zeta in P1', P2'. fold pf in P1', P2'.
      rewrite E2. fold pf. rewrite P2' by (rewrite srot_segments_tracks; subst s1; rewrite srot_parts_tracks; exact Hts).
      (* published of s1 = published of s *)
      assert (Hp1 : published s1 = published s).
      { subst s1. destruct (srot_parts_frame (c_variant (m_cfg m)) s seg (fst pf) d false) as (F1 & F2 & _). unfold published. now rewrite F1, F2. }
      rewrite Hp1. unfold glog. rewrite Es, Eo.
      subst g1. unfold seg_samples at 1. cbn [sg_with_parts sg_parts]. rewrite (flat_map_app p_samples). simpl. rewrite app_nil_r, P1'.
      rewrite <- !app_assoc. reflexivity.
    + (* another stream: its record and its track are untouched *)
      unfold glog. rewrite E1, E2. rewrite nth_error_upd_other by congruence.
      destruct (nth_error (m_streams m) j) as [sj|] eqn:Ej; [|reflexivity].
      f_equal. destruct (st_open sj); [|reflexivity]. f_equal. f_equal.
      pose proof (L2 si s Es) as Hts.
      destruct (part_finalize_linked p0 (m_tracks m) s si d Hts) as (_ & _ & P3 & _). cbv zeta in P3.
      apply (buffered_other _ _ sj j (L2 j sj Ej)). apply P3. exact Hne.
Qed.
