(* What the window invariant and the history relation say about the playlists the muxer serves. *)
From Coq Require Import List ZArith Bool Lia Arith.
From GoHls Require Import Model.Mux Proofs.MuxStream Proofs.MuxLift Proofs.MuxWindow Proofs.MuxHistory.
Import ListNotations.
Local Open Scope Z_scope.

Definition reach (c : cfg) (ops : list wop) (m : mstate) : Prop :=
  exists m0, start c = Ok m0 /\ m = mux_run m0 ops.

Lemma gen_segs_length v n segs : length (gen_segs v n segs) = length segs.
Proof. induction segs as [|s segs IH]; simpl; auto. Qed.

Lemma gen_segs_nth v n segs : forall i e,
  nth_error (gen_segs v n segs) i = Some e ->
  exists g, nth_error segs i = Some g /\ ps_gap e = sg_gap g /\ ps_dur e = sg_dur g
            /\ (sg_gap g = false -> ps_id e = sg_id g)
            /\ (ps_parts e <> [] -> (length segs - i <= 2)%nat /\ v = LL /\ sg_gap g = false
                                    /\ ps_parts e = map mkplpart (sg_parts g)).
Proof.
  induction segs as [|s segs IH]; intros i e H; [destruct i; discriminate|].
  destruct i as [|i].
  - cbn [gen_segs nth_error] in H. injection H as <-. exists s. split; [reflexivity|].
    destruct (sg_gap s) eqn:Eg; cbn [ps_gap ps_dur ps_id ps_parts]; repeat split; auto; try congruence;
      destruct v; try congruence; cbn [length Nat.leb] in *;
      destruct (Nat.leb (length segs) 1) eqn:El; try congruence;
      apply Nat.leb_le in El; try reflexivity; lia.
  - cbn [gen_segs nth_error] in H. destruct (IH i e H) as (g & Hg & H1 & H2 & H3 & H4).
    exists g. split; [exact Hg|]. split; [exact H1|]. split; [exact H2|]. split; [exact H3|].
    intros Hp. destruct (H4 Hp) as (Ha & Hb & Hc & Hd). repeat split; auto; simpl; lia.
Qed.

Section Reachable.
  Variables (c : cfg) (ops : list wop) (m : mstate).
  Hypothesis Hreach : reach c ops m.

  Let v := c_variant (norm_cfg c).
  Let sc := c_segcount (norm_cfg c).

  Lemma reach_cfg : m_cfg m = norm_cfg c.
  Proof.
    destruct Hreach as (m0 & Hs & ->). rewrite cfg_mux_run. apply (start_cfg_wf c m0 Hs).
  Qed.

  Lemma reach_WInv si s : nth_error (m_streams m) si = Some s -> WInv v sc s.
  Proof.
    intros Hn. destruct Hreach as (m0 & Hs & ->).
    pose proof (window_inv_reachable c ops m0 Hs) as HF.
    rewrite Forall_forall in HF. apply HF. eapply nth_error_In; eauto.
  Qed.

  (* C04 / C18: never more than SegmentCount segments are listed *)
  Lemma playlist_length si pl :
    gen_media_playlist m si = Some pl -> Z.of_nat (length (pl_segs pl)) <= sc.
  Proof.
    unfold gen_media_playlist. destruct (nth_error (m_streams m) si) as [s|] eqn:Es; [|discriminate].
    destruct (negb (hasContent _ s)); [discriminate|]. intros [= <-]. cbn [pl_segs].
    rewrite gen_segs_length. apply (wi_len _ _ _ (reach_WInv si s Es)).
  Qed.

  (* C04: the number in a listed segment's URI is its media sequence number; gaps only in LL,
     only for media sequence numbers below 7 *)
  Lemma playlist_ids si pl i e :
    gen_media_playlist m si = Some pl -> nth_error (pl_segs pl) i = Some e ->
    (ps_gap e = false -> ps_id e = pl_msn pl + Z.of_nat i)
    /\ (ps_gap e = true -> v = LL /\ pl_msn pl + Z.of_nat i < 7).
  Proof.
    unfold gen_media_playlist. destruct (nth_error (m_streams m) si) as [s|] eqn:Es; [|discriminate].
    destruct (negb (hasContent _ s)); [discriminate|]. intros [= <-]. cbn [pl_segs pl_msn].
    intros He. destruct (gen_segs_nth _ _ _ _ _ He) as (g & Hg & H1 & _ & H3 & _).
    pose proof (reach_WInv si s Es) as W.
    assert (Hpub : nth_error (published s) (length (st_evicted s) + i) = Some g).
    { unfold published. rewrite nth_error_app2 by lia.
      replace (length (st_evicted s) + i - length (st_evicted s))%nat with i by lia. exact Hg. }
    rewrite (wi_del _ _ _ W). split; intros Hgap; rewrite H1 in Hgap.
    - rewrite (H3 Hgap). rewrite (wi_ids _ _ _ W _ _ Hpub Hgap). lia.
    - destruct (wi_gaps _ _ _ W _ _ Hpub Hgap) as [Hv Hlt]. split; [exact Hv|lia].
  Qed.

  (* C04: parts are listed only under the last two segments *)
  Lemma playlist_parts_last_two si pl i e :
    gen_media_playlist m si = Some pl -> nth_error (pl_segs pl) i = Some e -> ps_parts e <> [] ->
    (length (pl_segs pl) - i <= 2)%nat /\ v = LL.
  Proof.
    unfold gen_media_playlist. destruct (nth_error (m_streams m) si) as [s|] eqn:Es; [|discriminate].
    destruct (negb (hasContent _ s)); [discriminate|]. intros [= <-]. cbn [pl_segs].
    intros He Hp. destruct (gen_segs_nth _ _ _ _ _ He) as (g & _ & _ & _ & _ & H4).
    destruct (H4 Hp) as (Ha & Hb & _). rewrite gen_segs_length. rewrite reach_cfg in Hb. split; assumption.
  Qed.

  (* C04: in Low-Latency mode a preload hint naming the next part is always present *)
  Lemma playlist_hint si pl s :
    nth_error (m_streams m) si = Some s -> gen_media_playlist m si = Some pl ->
    pl_hint pl = match v with LL => Some (st_nextPart s) | _ => None end.
  Proof.
    intros Es. unfold gen_media_playlist. rewrite Es.
    destruct (negb (hasContent _ s)); [discriminate|]. intros [= <-]. cbn [pl_hint].
    now rewrite reach_cfg.
  Qed.

  (* the window is what remains of the published list after dropping MEDIA-SEQUENCE entries *)
  Lemma window_is_suffix si s :
    nth_error (m_streams m) si = Some s ->
    st_segments s = skipn (Z.to_nat (st_delcount s)) (published s).
  Proof.
    intros Es. pose proof (reach_WInv si s Es) as W. rewrite (wi_del _ _ _ W), Nat2Z.id.
    unfold published. rewrite skipn_app, skipn_all, Nat.sub_diag. reflexivity.
  Qed.
End Reachable.

(* ---- two playlists of one stream, at two moments of one history ---- *)
Section TwoMoments.
  Variables (c : cfg) (ops1 ops2 : list wop) (m1 m2 : mstate).
  Hypothesis H1 : reach c ops1 m1.
  Hypothesis H2 : m2 = mux_run m1 ops2.

  Lemma streams_related si s1 :
    nth_error (m_streams m1) si = Some s1 ->
    exists s2, nth_error (m_streams m2) si = Some s2 /\ R s1 s2.
  Proof.
    intros Hn. pose proof (history_monotone m1 ops2) as HF. rewrite <- H2 in HF.
    revert si Hn. induction HF as [|x y l1 l2 Hxy HF IH]; intros si Hn; [destruct si; discriminate|].
    destruct si; simpl in *.
    - injection Hn as ->. exists y. auto.
    - apply IH. exact Hn.
  Qed.

  (* MEDIA-SEQUENCE never decreases *)
  Lemma msn_monotone si p1 p2 :
    gen_media_playlist m1 si = Some p1 -> gen_media_playlist m2 si = Some p2 -> pl_msn p1 <= pl_msn p2.
  Proof.
    unfold gen_media_playlist.
    destruct (nth_error (m_streams m1) si) as [s1|] eqn:E1; [|discriminate].
    destruct (streams_related si s1 E1) as (s2 & E2 & HR). rewrite E2.
    destruct (negb (hasContent _ s1)); [discriminate|]. destruct (negb (hasContent _ s2)); [discriminate|].
    intros [= <-] [= <-]. cbn [pl_msn].
    destruct (r_evi _ _ HR) as (dr & _ & Hd). lia.
  Qed.

  (* a media sequence number always denotes the same segment (URI number, duration, gap flag) *)
  Lemma msn_stable si s1 s2 n g :
    nth_error (m_streams m1) si = Some s1 -> nth_error (m_streams m2) si = Some s2 ->
    nth_error (published s1) n = Some g -> nth_error (published s2) n = Some g.
  Proof.
    intros E1 E2 Hn. destruct (streams_related si s1 E1) as (s2' & E2' & HR).
    rewrite E2 in E2'. injection E2' as <-.
    destruct (r_pub _ _ HR) as (new & ->). rewrite nth_error_app1; [exact Hn|].
    apply nth_error_Some. congruence.
  Qed.
End TwoMoments.

(* ---------------------------------------------------------------- SegmentMaxSize *)
Definition size_ok (c : cfg) (s : stream) : Prop :=
  (forall g, In g (published s) -> sg_size g <= c_segmax c)
  /\ (forall g, st_open s = Some g -> sg_size g <= c_segmax c).

Definition GS (m : mstate) : Prop := 0 <= c_segmax (m_cfg m) /\ Forall (size_ok (m_cfg m)) (m_streams m).

Lemma size_ok_with s x c :
  size_ok c s -> x_segments x = st_segments s -> x_evicted x = st_evicted s -> x_open x = st_open s ->
  size_ok c (st_with s x).
Proof.
  intros [Ha Hb] E1 E2 E3. split; unfold published in *; simpl; rewrite ?E1, ?E2, ?E3; auto.
Qed.

Lemma GS_rotp m si d cn : GS m -> GS (stream_rotateParts m si d cn).
Proof.
  intros [H0 H]. unfold GS. rewrite cfg_stream_rotateParts. split; [exact H0|].
  destruct (stream_rotateParts_streams m si d cn) as [->|(s & seg & p0 & Es & Eo & Ep & ->)]; [exact H|].
  apply Forall_upd; [exact H|]. intros x Hx [Ha Hb]. rewrite Es in Hx. injection Hx as <-.
  destruct (srot_parts_frame (c_variant (m_cfg m)) s seg (fst (part_finalize p0 (m_tracks m) (st_tracks s) d)) d cn)
    as (F1 & F2 & _ & _ & _ & _ & _ & F8 & _).
  split; unfold published; rewrite ?F1, ?F2; auto.
  intros g Hg. rewrite F8 in Hg. injection Hg as <-. simpl. apply Hb. exact Eo.
Qed.

Lemma GS_rots m si d ntp f : GS m -> GS (stream_rotateSegments m si d ntp f).
Proof.
  intros HG.
  pose proof (stream_rotateSegments_streams m si d ntp f) as HS. cbv zeta in HS.
  set (m1 := match c_variant (m_cfg m) with MPEGTS => m | _ => stream_rotateParts m si d false end) in *.
  assert (H1 : GS m1) by (subst m1; destruct (c_variant (m_cfg m)); auto using GS_rotp).
  assert (Hc : m_cfg m1 = m_cfg m) by (subst m1; destruct (c_variant (m_cfg m)); auto using cfg_stream_rotateParts).
  destruct H1 as [H0 H1]. unfold GS. rewrite cfg_stream_rotateSegments. rewrite Hc in *.
  split; [exact H0|].
  destruct HS as [->|(s & seg0 & cur & Es & Eo & ->)]; [exact H1|].
  apply Forall_upd; [exact H1|]. intros x Hx [Ha Hb]. rewrite Es in Hx. injection Hx as <-.
  destruct (srot_segments_frame (c_variant (m_cfg m)) (c_segcount (m_cfg m)) s seg0 d ntp f cur)
    as (_ & _ & _ & _ & _ & F6 & _).
  pose proof (published_srot_segments (c_variant (m_cfg m)) (c_segcount (m_cfg m)) s seg0 d ntp f cur) as HP.
  cbv zeta in HP. split.
  - intros g Hg. rewrite HP in Hg. rewrite !in_app_iff in Hg. destruct Hg as [Hg|[Hg|Hg]].
    + apply Ha. unfold published. apply in_app_iff. auto.
    + unfold with_gaps in Hg. destruct (c_variant (m_cfg m)); try solve [apply Ha; unfold published; apply in_app_iff; auto].
      destruct (st_segments s) eqn:Ess.
      * apply repeat_spec in Hg. subst g. unfold mkgap. cbn [sg_size]. exact H0.
      * apply Ha. unfold published. apply in_app_iff. rewrite Ess. auto.
    + destruct Hg as [<-|[]]. simpl. apply Hb. exact Eo.
  - intros g Hg. rewrite F6 in Hg. injection Hg as <-. simpl. exact H0.
Qed.

Theorem GS_mux_step m o : GS m -> GS (fst (mux_step m o)).
Proof.
  apply (T_mux_step GS).
  - intros; assumption.
  - intros m' d ntp ti0 t0 _ _ [H0 H]. split; [exact H0|]. unfold createFirstSegment. cbn [set_stream m_cfg m_streams].
    apply Forall_map. eapply Forall_impl; [|exact H]. intros s [Ha Hb].
    split; unfold published, stream_createFirst; simpl; auto. intros g [= <-]. simpl. exact H0.
  - intros; now apply GS_rotp.
  - apply GS_rots.
  - intros m' i l both [H0 H]. split; [exact H0|]. unfold upd_stream. cbn [set_stream m_cfg m_streams].
    apply Forall_upd; [exact H|]. intros s _ Hs. unfold copy_targets. destruct (st_leading s); [exact Hs|].
    apply size_ok_with; auto.
  - intros m' ti si smp m'' [H0 H]. unfold part_writeSample.
    destruct (nth_error (m_streams m') si) as [s|] eqn:Es; [|intros [= <-]; split; assumption].
    destruct (nth_error (m_tracks m') ti) as [t|]; [|intros [= <-]; split; assumption].
    destruct (st_open s) as [seg|] eqn:Eo; [|intros [= <-]; split; assumption].
    destruct (st_openpart s); [|intros [= <-]; split; assumption].
    destruct (c_segmax (m_cfg m') <? sg_size seg + s_size smp) eqn:El; [discriminate|].
    apply Z.ltb_ge in El. intros [= <-]. split; [exact H0|].
    unfold upd_stream, upd_track. cbn [set_stream set_tracks m_cfg m_streams].
    apply Forall_upd; [exact H|]. intros s0 Hs0 [Ha Hb]. rewrite Es in Hs0. injection Hs0 as <-.
    split; unfold published; simpl; auto. intros g [= <-]. simpl. exact El.
  - intros m' si u size e inc [H0 H]. unfold ts_write.
    destruct (nth_error (m_streams m') si) as [s|] eqn:Es; [|split; assumption].
    destruct (st_open s) as [seg|] eqn:Eo; [|split; assumption].
    destruct (c_segmax (m_cfg m') <? sg_size seg + size) eqn:El; [split; assumption|].
    apply Z.ltb_ge in El. cbn [fst wok]. split; [exact H0|].
    unfold upd_stream. cbn [set_stream m_cfg m_streams].
    apply Forall_upd; [exact H|]. intros s0 Hs0 [Ha Hb]. rewrite Es in Hs0. injection Hs0 as <-.
    split; unfold published; simpl; auto. intros g [= <-]. simpl. exact El.
Qed.

Theorem GS_mux_run ops : forall m, GS m -> GS (mux_run m ops).
Proof.
  induction ops as [|o ops IH]; intros m H; [exact H|]. cbn [mux_run]. apply IH. now apply GS_mux_step.
Qed.

Lemma GS_start c m : start c = Ok m -> 0 <= c_segmax c -> GS m.
Proof.
  intros H Hmax. unfold start in H. destruct (negb (start_ok (norm_cfg c))); [discriminate|].
  injection H as <-. split; cbn [m_cfg m_streams].
  - unfold norm_cfg. cbn [c_segmax]. destruct (c_segmax c =? 0); lia.
  - assert (Hall : forall c0 c1 i ts ch n, Forall (size_ok c1) (mk_streams c0 i ts ch n)).
    { intros c0 c1 i ts. revert i. induction ts as [|t ts IH]; intros i ch n; [constructor|].
      cbn [mk_streams].
      match goal with |- context [let '(a, b) := ?x in _] => destruct x as [dflt chosen'] end.
      constructor; [|apply IH]. split; unfold published; simpl; [tauto|discriminate]. }
    change (c_variant (norm_cfg c)) with (c_variant c).
    destruct (c_variant c); [|apply Hall|apply Hall].
    constructor; [|constructor]. split; unfold published; simpl; [tauto|discriminate].
Qed.

(* a write that would make the open segment exceed SegmentMaxSize returns an error and leaves
   the accounted size unchanged *)
Lemma ts_write_limit m si u size e inc s seg :
  nth_error (m_streams m) si = Some s -> st_open s = Some seg ->
  c_segmax (m_cfg m) < sg_size seg + size ->
  ts_write m si u size e inc = (m, Err 2).
Proof.
  intros Es Eo Hlt. unfold ts_write. rewrite Es, Eo.
  destruct (c_segmax (m_cfg m) <? sg_size seg + size) eqn:El; [reflexivity|].
  apply Z.ltb_ge in El. lia.
Qed.

Lemma part_writeSample_limit m ti si smp s t seg p :
  nth_error (m_streams m) si = Some s -> nth_error (m_tracks m) ti = Some t ->
  st_open s = Some seg -> st_openpart s = Some p ->
  c_segmax (m_cfg m) < sg_size seg + s_size smp ->
  part_writeSample m ti si smp = Err 2.
Proof.
  intros Es Et Eo Ep Hlt. unfold part_writeSample. rewrite Es, Et, Eo, Ep.
  destruct (c_segmax (m_cfg m) <? sg_size seg + s_size smp) eqn:El; [reflexivity|].
  apply Z.ltb_ge in El. lia.
Qed.
