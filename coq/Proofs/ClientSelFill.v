(* M5 - lemmas about findSegmentWithInvPosition, findSegmentWithID, fillSegmentQueue, sentinel
   and the Range header. *)
From Coq Require Import List ZArith String Bool Lia DecimalString DecimalPos DecimalN.
From GoHls Require Import Model.ClientSel.
Import ListNotations.
Local Open Scope Z_scope.

Lemma len_nonneg l : 0 <= len l.
Proof. unfold len; lia. Qed.

Lemma len_cons s l : len (s :: l) = len l + 1.
Proof. unfold len; cbn [List.length]; lia. Qed.

Lemma len_nil : len [] = 0.
Proof. reflexivity. Qed.

Lemma index_seg_some segments index :
  0 <= index < len segments ->
  exists s, index_seg segments index = Some s /\ nth_error segments (Z.to_nat index) = Some s.
Proof.
  intros H. unfold index_seg.
  destruct (index <? 0) eqn:E1; [lia|]. destruct (len segments <=? index) eqn:E2; [lia|].
  cbn [orb].
  destruct (nth_error segments (Z.to_nat index)) eqn:E.
  - eauto.
  - apply nth_error_None in E. unfold len in H. lia.
Qed.

Lemma index_seg_none segments index :
  index < 0 \/ len segments <= index -> index_seg segments index = None.
Proof.
  intros H. unfold index_seg.
  destruct (index <? 0) eqn:E1; [reflexivity|].
  destruct (len segments <=? index) eqn:E2; [reflexivity|]. lia.
Qed.

(* ---------- findSegmentWithInvPosition ---------- *)
Lemma findSegmentWithInvPosition_found segments invPos :
  0 < invPos <= len segments ->
  exists s, nth_error segments (Z.to_nat (len segments - invPos)) = Some s /\
            findSegmentWithInvPosition segments invPos = Found2 s (len segments - invPos).
Proof.
  intros H. unfold findSegmentWithInvPosition.
  destruct (len segments - invPos <? 0) eqn:E; [lia|].
  destruct (index_seg_some segments (len segments - invPos)) as [s [H1 H2]]; [lia|].
  rewrite H1. eauto.
Qed.

Lemma findSegmentWithInvPosition_nil segments invPos :
  len segments < invPos -> findSegmentWithInvPosition segments invPos = Nil2.
Proof.
  intros H. unfold findSegmentWithInvPosition.
  destruct (len segments - invPos <? 0) eqn:E; [reflexivity|lia].
Qed.

(* Go indexes segments[len - invPos] with len - invPos >= len: index out of range *)
Lemma findSegmentWithInvPosition_panic segments invPos :
  invPos <= 0 -> findSegmentWithInvPosition segments invPos = Panic2.
Proof.
  intros H. unfold findSegmentWithInvPosition. pose proof (len_nonneg segments).
  destruct (len segments - invPos <? 0) eqn:E; [lia|].
  rewrite index_seg_none by lia. reflexivity.
Qed.

(* ---------- findSegmentWithID ---------- *)
(* the index arithmetic id - seqNo selects the entry whose media sequence number
   (seqNo + position) is id, or nothing *)
Lemma findSegmentWithID_found seqNo segments id :
  seqNo <= id < seqNo + len segments ->
  exists s, nth_error segments (Z.to_nat (id - seqNo)) = Some s /\
            findSegmentWithID seqNo segments id = Found3 s (id - seqNo) (len segments - (id - seqNo)).
Proof.
  intros H. unfold findSegmentWithID.
  destruct (id - seqNo <? 0) eqn:E1; [lia|]. destruct (len segments <=? id - seqNo) eqn:E2; [lia|].
  cbn [orb].
  destruct (index_seg_some segments (id - seqNo)) as [s [H1 H2]]; [lia|].
  rewrite H1. eauto.
Qed.

Lemma findSegmentWithID_nil seqNo segments id :
  id < seqNo \/ seqNo + len segments <= id -> findSegmentWithID seqNo segments id = Nil3.
Proof.
  intros H. unfold findSegmentWithID.
  destruct (id - seqNo <? 0) eqn:E1; [reflexivity|].
  destruct (len segments <=? id - seqNo) eqn:E2; [reflexivity|]. lia.
Qed.

Lemma findSegmentWithID_no_panic seqNo segments id : findSegmentWithID seqNo segments id <> Panic3.
Proof.
  destruct (Z_lt_ge_dec id seqNo) as [H|H].
  - rewrite findSegmentWithID_nil by lia. discriminate.
  - destruct (Z_lt_ge_dec id (seqNo + len segments)) as [H'|H'].
    + destruct (findSegmentWithID_found seqNo segments id) as [s [_ ->]]; [lia|discriminate].
    + rewrite findSegmentWithID_nil by lia. discriminate.
Qed.

(* ---------- fillSegmentQueue ---------- *)
(* the next segment: curSegmentID = Some cur *)
Definition ended_after (cur : Z) (pl : playlist) : Prop :=
  Endlist pl = true /\ cur + 1 = MediaSequence pl + len (Segments pl).

Lemma ended_after_dec cur pl : {ended_after cur pl} + {~ ended_after cur pl}.
Proof.
  unfold ended_after. destruct (Endlist pl); [|right; intros [H _]; discriminate].
  destruct (Z.eq_dec (cur + 1) (MediaSequence pl + len (Segments pl))); [left; auto|right; tauto].
Qed.

Lemma ended_after_b cur pl :
  ended_after cur pl -> Endlist pl && (cur + 1 =? MediaSequence pl + len (Segments pl)) = true.
Proof. intros [-> H]. cbn. lia. Qed.

Lemma not_ended_after_b cur pl :
  ~ ended_after cur pl -> Endlist pl && (cur + 1 =? MediaSequence pl + len (Segments pl)) = false.
Proof.
  unfold ended_after. intros H. destruct (Endlist pl); [|reflexivity]. cbn.
  destruct (cur + 1 =? MediaSequence pl + len (Segments pl)) eqn:E; [|reflexivity].
  exfalso. apply H. split; [reflexivity|lia].
Qed.

Lemma fill_next_absent fp cur pl :
  cur + 1 < MediaSequence pl \/ MediaSequence pl + len (Segments pl) <= cur + 1 ->
  ~ ended_after cur pl ->
  fillSegmentQueue fp (Some cur) pl = FillErr OErrNext.
Proof.
  intros H Hn. unfold fillSegmentQueue. rewrite findSegmentWithID_nil by lia.
  rewrite not_ended_after_b by exact Hn. reflexivity.
Qed.

(* ENDLIST shows up and the last segment has already been downloaded *)
Lemma fill_next_end fp cur pl :
  ended_after cur pl -> fillSegmentQueue fp (Some cur) pl = FillEnd.
Proof.
  intros H. unfold fillSegmentQueue. destruct H as [He Hc].
  rewrite findSegmentWithID_nil by lia.
  rewrite ended_after_b by (split; assumption). reflexivity.
Qed.

Lemma fill_next_too_late fp cur pl :
  MediaSequence pl <= cur + 1 < MediaSequence pl + len (Segments pl) ->
  Endlist pl = false ->
  clientLiveMaxDistanceFromEnd < MediaSequence pl + len (Segments pl) - (cur + 1) ->
  fillSegmentQueue fp (Some cur) pl = FillErr OErrTooLate.
Proof.
  intros H He Hd. unfold fillSegmentQueue.
  destruct (findSegmentWithID_found (MediaSequence pl) (Segments pl) (cur + 1)) as [s [_ ->]]; [lia|].
  rewrite He. cbn [negb andb].
  destruct (clientLiveMaxDistanceFromEnd <? len (Segments pl) - (cur + 1 - MediaSequence pl)) eqn:E; [reflexivity|lia].
Qed.

Lemma fill_next_ok fp cur pl :
  MediaSequence pl <= cur + 1 < MediaSequence pl + len (Segments pl) ->
  Endlist pl = true \/ MediaSequence pl + len (Segments pl) - (cur + 1) <= clientLiveMaxDistanceFromEnd ->
  exists seg, nth_error (Segments pl) (Z.to_nat (cur + 1 - MediaSequence pl)) = Some seg /\
              fillSegmentQueue fp (Some cur) pl = FillOk (cur + 1) (cur + 1 - MediaSequence pl) seg.
Proof.
  intros H Hd. unfold fillSegmentQueue.
  destruct (findSegmentWithID_found (MediaSequence pl) (Segments pl) (cur + 1)) as [s [Hs ->]]; [lia|].
  exists s. split; [exact Hs|].
  assert (negb (Endlist pl) && (clientLiveMaxDistanceFromEnd <? len (Segments pl) - (cur + 1 - MediaSequence pl)) = false) as ->.
  { destruct Hd as [->| Hd]; [reflexivity|].
    destruct (clientLiveMaxDistanceFromEnd <? len (Segments pl) - (cur + 1 - MediaSequence pl)) eqn:E; [lia|].
    apply andb_false_r. }
  f_equal. lia.
Qed.

(* the first segment: curSegmentID = None *)
Lemma fill_first_vod fp pl seg segs :
  PlaylistType fp = PTVod -> Segments pl = seg :: segs ->
  fillSegmentQueue fp None pl = FillOk (MediaSequence pl) 0 seg.
Proof.
  intros Ht Hs. unfold fillSegmentQueue. rewrite Ht, Hs. cbn [is_vod]. f_equal. lia.
Qed.

Lemma fill_first_vod_empty fp pl :
  PlaylistType fp = PTVod -> Segments pl = [] ->
  fillSegmentQueue fp None pl = FillErr OErrNoSegments.
Proof. intros Ht Hs. unfold fillSegmentQueue. rewrite Ht, Hs. reflexivity. Qed.

Lemma fill_first_live fp pl :
  PlaylistType fp <> PTVod -> clientLiveInitialDistance <= len (Segments pl) ->
  exists seg, nth_error (Segments pl) (Z.to_nat (len (Segments pl) - clientLiveInitialDistance)) = Some seg /\
    fillSegmentQueue fp None pl =
    FillOk (MediaSequence pl + (len (Segments pl) - clientLiveInitialDistance))
           (len (Segments pl) - clientLiveInitialDistance) seg.
Proof.
  intros Ht Hl. unfold fillSegmentQueue.
  assert (is_vod (PlaylistType fp) = false) as -> by (destruct (PlaylistType fp); try reflexivity; congruence).
  destruct (findSegmentWithInvPosition_found (Segments pl) clientLiveInitialDistance) as [s [Hs ->]].
  { unfold clientLiveInitialDistance in *. lia. }
  eauto.
Qed.

Lemma fill_first_live_short fp pl :
  PlaylistType fp <> PTVod -> len (Segments pl) < clientLiveInitialDistance ->
  fillSegmentQueue fp None pl = FillErr OErrNotEnough.
Proof.
  intros Ht Hl. unfold fillSegmentQueue.
  assert (is_vod (PlaylistType fp) = false) as -> by (destruct (PlaylistType fp); try reflexivity; congruence).
  rewrite findSegmentWithInvPosition_nil by exact Hl. reflexivity.
Qed.

(* inversion: whatever was selected is an entry of pl, at segPos, with MSN v *)
Lemma fill_ok_inv fp cur pl v segPos seg :
  fillSegmentQueue fp cur pl = FillOk v segPos seg ->
  0 <= segPos < len (Segments pl) /\
  nth_error (Segments pl) (Z.to_nat segPos) = Some seg /\
  v = MediaSequence pl + segPos /\
  match cur with
  | Some c => v = c + 1 /\
              (Endlist pl = true \/ len (Segments pl) - segPos <= clientLiveMaxDistanceFromEnd)
  | None => if is_vod (PlaylistType fp) then segPos = 0
            else segPos = len (Segments pl) - clientLiveInitialDistance
  end.
Proof.
  destruct cur as [c|].
  - destruct (ended_after_dec c pl) as [Hea|Hea].
    { rewrite fill_next_end by exact Hea. discriminate. }
    destruct (Z_lt_ge_dec (c + 1) (MediaSequence pl)) as [H|H].
    { rewrite fill_next_absent by (auto; lia). discriminate. }
    destruct (Z_lt_ge_dec (c + 1) (MediaSequence pl + len (Segments pl))) as [H'|H'].
    2:{ rewrite fill_next_absent by (auto; lia). discriminate. }
    destruct (Endlist pl) eqn:He.
    + destruct (fill_next_ok fp c pl) as [s [Hs Hf]]; [lia|auto|].
      rewrite Hf. intros E. injection E as <- <- <-.
      repeat split; try lia; auto.
    + destruct (Z_lt_ge_dec clientLiveMaxDistanceFromEnd (MediaSequence pl + len (Segments pl) - (c + 1))) as [Hd|Hd].
      { rewrite fill_next_too_late by (auto; lia). discriminate. }
      destruct (fill_next_ok fp c pl) as [s [Hs Hf]]; [lia|right; lia|].
      rewrite Hf. intros E. injection E as <- <- <-.
      repeat split; try lia; auto.
  - destruct (PlaylistType fp) eqn:Ht.
    1,2: destruct (Z_lt_ge_dec (len (Segments pl)) clientLiveInitialDistance) as [Hl|Hl];
      [rewrite fill_first_live_short by (auto; congruence); discriminate|];
      destruct (fill_first_live fp pl) as [s [Hs Hf]]; [congruence|lia|];
      rewrite Hf; intros E; injection E as <- <- <-;
      cbn [is_vod]; unfold clientLiveInitialDistance in *; repeat split; try lia; auto.
    destruct (Segments pl) as [|s0 segs] eqn:Hs.
    + rewrite fill_first_vod_empty by auto. discriminate.
    + rewrite (fill_first_vod fp pl s0 segs) by auto. intros E. injection E as <- <- <-.
      cbn [is_vod]. rewrite len_cons. pose proof (len_nonneg segs). repeat split; try lia.
Qed.

Lemma fill_no_panic fp cur pl : fillSegmentQueue fp cur pl <> FillPanic.
Proof.
  unfold fillSegmentQueue. destruct cur as [c|].
  - pose proof (findSegmentWithID_no_panic (MediaSequence pl) (Segments pl) (c + 1)) as Hn.
    destruct (findSegmentWithID (MediaSequence pl) (Segments pl) (c + 1)); try congruence; try discriminate.
    + destruct (negb (Endlist pl) && (clientLiveMaxDistanceFromEnd <? invPos)); discriminate.
    + destruct (Endlist pl && (c + 1 =? MediaSequence pl + len (Segments pl))); discriminate.
  - destruct (is_vod (PlaylistType fp)).
    + destruct (Segments pl); discriminate.
    + destruct (Z_lt_ge_dec (len (Segments pl)) clientLiveInitialDistance) as [Hl|Hl].
      * rewrite findSegmentWithInvPosition_nil by exact Hl. discriminate.
      * destruct (findSegmentWithInvPosition_found (Segments pl) clientLiveInitialDistance) as [s [_ ->]];
          [unfold clientLiveInitialDistance in *; lia|discriminate].
Qed.

(* errors a selection can produce *)
Lemma fill_err_inv fp cur pl o :
  fillSegmentQueue fp cur pl = FillErr o ->
  match cur with
  | Some c =>
      (o = OErrNext /\ (c + 1 < MediaSequence pl \/ MediaSequence pl + len (Segments pl) <= c + 1) /\
       ~ ended_after c pl) \/
      (o = OErrTooLate /\ MediaSequence pl <= c + 1 < MediaSequence pl + len (Segments pl) /\
       Endlist pl = false /\ clientLiveMaxDistanceFromEnd < MediaSequence pl + len (Segments pl) - (c + 1))
  | None =>
      (o = OErrNoSegments /\ PlaylistType fp = PTVod /\ Segments pl = []) \/
      (o = OErrNotEnough /\ PlaylistType fp <> PTVod /\ len (Segments pl) < clientLiveInitialDistance)
  end.
Proof.
  destruct cur as [c|].
  - destruct (ended_after_dec c pl) as [Hea|Hea].
    { rewrite fill_next_end by exact Hea. discriminate. }
    destruct (Z_lt_ge_dec (c + 1) (MediaSequence pl)) as [H|H].
    { rewrite fill_next_absent by (auto; lia). intros E; injection E as <-. left. repeat split; auto; lia. }
    destruct (Z_lt_ge_dec (c + 1) (MediaSequence pl + len (Segments pl))) as [H'|H'].
    2:{ rewrite fill_next_absent by (auto; lia). intros E; injection E as <-. left. repeat split; auto; lia. }
    destruct (Endlist pl) eqn:He.
    + destruct (fill_next_ok fp c pl) as [s [Hs Hf]]; [lia|auto|]. rewrite Hf. discriminate.
    + destruct (Z_lt_ge_dec clientLiveMaxDistanceFromEnd (MediaSequence pl + len (Segments pl) - (c + 1))) as [Hd|Hd].
      * rewrite fill_next_too_late by (auto; lia). intros E; injection E as <-. right. repeat split; auto; lia.
      * destruct (fill_next_ok fp c pl) as [s [Hs Hf]]; [lia|right; lia|]. rewrite Hf. discriminate.
  - destruct (PlaylistType fp) eqn:Ht.
    1,2: destruct (Z_lt_ge_dec (len (Segments pl)) clientLiveInitialDistance) as [Hl|Hl];
      [rewrite fill_first_live_short by (auto; congruence); intros E; injection E as <-; right;
       repeat split; auto; congruence
      |destruct (fill_first_live fp pl) as [s [Hs Hf]]; [congruence|lia|]; rewrite Hf; discriminate].
    destruct (Segments pl) as [|s0 segs] eqn:Hs.
    + rewrite fill_first_vod_empty by auto. intros E; injection E as <-. left. auto.
    + rewrite (fill_first_vod fp pl s0 segs) by auto. discriminate.
Qed.

Lemma fill_end_inv fp cur pl :
  fillSegmentQueue fp cur pl = FillEnd -> exists c, cur = Some c /\ ended_after c pl.
Proof.
  destruct cur as [c|].
  - intros H. exists c. split; [reflexivity|].
    destruct (ended_after_dec c pl) as [Hea|Hea]; [exact Hea|]. exfalso.
    destruct (fillSegmentQueue fp (Some c) pl) as [e| | |v p sg] eqn:Hf; try discriminate.
    clear H. revert Hf.
    destruct (Z_lt_ge_dec (c + 1) (MediaSequence pl)) as [H|H].
    { rewrite fill_next_absent by (auto; lia). discriminate. }
    destruct (Z_lt_ge_dec (c + 1) (MediaSequence pl + len (Segments pl))) as [H'|H'].
    2:{ rewrite fill_next_absent by (auto; lia). discriminate. }
    destruct (Endlist pl) eqn:He.
    + destruct (fill_next_ok fp c pl) as [s [Hs Hf]]; [lia|auto|]. rewrite Hf. discriminate.
    + destruct (Z_lt_ge_dec clientLiveMaxDistanceFromEnd (MediaSequence pl + len (Segments pl) - (c + 1))) as [Hd|Hd].
      * rewrite fill_next_too_late by (auto; lia). discriminate.
      * destruct (fill_next_ok fp c pl) as [s [Hs Hf]]; [lia|right; lia|]. rewrite Hf. discriminate.
  - unfold fillSegmentQueue. destruct (is_vod (PlaylistType fp)).
    + destruct (Segments pl); discriminate.
    + destruct (findSegmentWithInvPosition (Segments pl) clientLiveInitialDistance); discriminate.
Qed.

(* ---------- sentinel ---------- *)
Lemma sentinel_spec pl segPos :
  0 <= segPos < len (Segments pl) ->
  sentinel pl segPos = Some (Endlist pl && (segPos =? len (Segments pl) - 1)).
Proof.
  intros H. unfold sentinel. destruct (Endlist pl); [|reflexivity].
  destruct (index_seg_some (Segments pl) (len (Segments pl) - 1)) as [s [-> _]]; [lia|]. reflexivity.
Qed.

(* ---------- Range header ---------- *)
Lemma u64_small z : 0 <= z < 2 ^ 64 -> u64 z = z.
Proof. intros H. unfold u64. apply Z.mod_small. exact H. Qed.

Lemma range_header_exact s l :
  0 <= s -> 1 <= l -> s + l <= 2 ^ 64 ->
  range_header s l = ("bytes=" ++ dec s ++ "-" ++ dec (s + l - 1))%string.
Proof. intros H1 H2 H3. unfold range_header. rewrite u64_small by lia. reflexivity. Qed.

Lemma segment_range_none start : segment_range start None = None.
Proof. reflexivity. Qed.

Lemma segment_range_start_absent l :
  1 <= l <= 2 ^ 64 ->
  segment_range None (Some l) = Some ("bytes=0-" ++ dec (l - 1))%string.
Proof.
  intros H. unfold segment_range. rewrite range_header_exact by lia.
  replace (0 + l - 1) with (l - 1) by lia. reflexivity.
Qed.

Lemma segment_range_start_present s l :
  0 <= s -> 1 <= l -> s + l <= 2 ^ 64 ->
  segment_range (Some s) (Some l) = Some ("bytes=" ++ dec s ++ "-" ++ dec (s + l - 1))%string.
Proof. intros. unfold segment_range. rewrite range_header_exact by lia. reflexivity. Qed.

Lemma hint_range_spec s l :
  0 <= s -> 1 <= l -> s + l <= 2 ^ 64 ->
  hint_range s (Some l) = Some ("bytes=" ++ dec s ++ "-" ++ dec (s + l - 1))%string /\
  hint_range s None = None.
Proof. intros. unfold hint_range. rewrite range_header_exact by lia. split; reflexivity. Qed.

(* decimal printing is injective on naturals: different byte offsets give different headers *)
Lemma dec_inj a b : 0 <= a -> 0 <= b -> dec a = dec b -> a = b.
Proof.
  intros Ha Hb H. unfold dec in H.
  assert (forall n, N.to_uint n <> Decimal.Nil) as Hnn.
  { intros n. destruct n; cbn; [discriminate|]. apply DecimalPos.Unsigned.to_uint_nonnil. }
  assert (N.to_uint (Z.to_N a) = N.to_uint (Z.to_N b)) as E.
  { pose proof (NilZero.usu _ (Hnn (Z.to_N a))) as E1.
    pose proof (NilZero.usu _ (Hnn (Z.to_N b))) as E2.
    rewrite H in E1. rewrite E1 in E2. injection E2 as E2. exact E2. }
  apply (f_equal N.of_uint) in E. rewrite !DecimalN.Unsigned.of_to in E. lia.
Qed.
