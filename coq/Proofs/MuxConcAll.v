(* M4, complements: (1) the writer's states are well-formed along CONCURRENT runs too (the
   writer's steps are the same operations); (2) the path-table property hint_prop holds in every
   reachable state of EVERY variant (fMP4 / MPEG-TS never register a part path); (3) a request
   for a part / preload-hint URI only ever runs the hint closure of that very part. *)
From Coq Require Import List ZArith Lia Bool String Arith ZifyBool ZifyNat.
From GoHls Require Import Lib.MuxSched Model.MuxConcSeq Model.MuxConcSpec Model.MuxConcPar
  Proofs.MuxConcSeqA Proofs.MuxConcSeqB Proofs.MuxConcSeqC
  Proofs.MuxConcInvA Proofs.MuxConcInvB Proofs.MuxConcInvC Proofs.MuxConcInvD
  Proofs.MuxConcProg Proofs.MuxConcMain.
Import ListNotations.
Local Open Scope Z_scope.

(* ---------- (1) well-formedness along concurrent runs ---------- *)
Definition wf_state (c : cstate) : Prop := 1 <= m_segmentCount (c_mux c) /\ wf_mux (c_mux c).

Lemma set_closed_wf_mux : forall m, wf_mux m -> wf_mux (set_closed m).
Proof.
  intros m W. unfold wf_mux in *. simpl. apply Forall_forall. intros x Hin.
  apply in_map_iff in Hin. destruct Hin as [y [<- Hy]]. apply set_closed_wf.
  rewrite Forall_forall in W. auto.
Qed.

Lemma wf_state_step : forall c t, wf_state c -> wf_state (step c t).
Proof.
  intros c t [Hs W]. unfold step. destruct (c_wpc c) eqn:Ew; try (split; assumption); destruct t as [|i].
  all: try (destruct (rstep_shape c i) as [[_ E]|[r [Hr E]]]; rewrite E; split; assumption).
  all: unfold wstep; rewrite Ew.
  - destruct (c_prog c) as [|o rest]; [split; assumption|].
    destruct o; try (destruct (c_owner c); split; assumption).
    destruct (apply_wop_wf (c_mux c) WCreateFirst _ Hs eq_refl W) as [W' [_ Hs']].
    split; [simpl; exact Hs|exact W'].
  - destruct (apply_wop (c_mux c) o) as [m'|] eqn:Ea; [|split; assumption].
    destruct (apply_wop_wf (c_mux c) o m' Hs Ea W) as [W' [_ Hs']].
    split; simpl; [rewrite Hs'; exact Hs|exact W'].
  - split; assumption.
  - split; assumption.
  - split; simpl; [exact Hs|apply set_closed_wf_mux; exact W].
  - split; assumption.
  - split; assumption.
  - destruct (Nat.ltb k (List.length (m_streams (c_mux c)))); [|split; assumption].
    split; simpl; [rewrite (proj2 (closeStream_variant (c_mux c) k)); exact Hs|apply closeStream_wf; exact W].
  - split; assumption.
Qed.

Theorem wf_reachable_concurrent : forall m prog reqs sched,
  1 <= m_segmentCount m -> wf_mux m -> wf_mux (c_mux (crun (cinit m prog reqs) sched)).
Proof.
  intros m prog reqs sched Hs W.
  assert (H : wf_state (crun (cinit m prog reqs) sched)).
  { unfold crun. apply run_invariant; [apply wf_state_step|split; assumption]. }
  exact (proj2 H).
Qed.

(* ---------- (2) hint_prop for every variant ---------- *)
Definition no_parts (t : ptable) : Prop := forall k id, lookupPath t (PPart k id) = None.

Lemma rotateParts_nonLL_table : forall v i s t s' t',
  v <> LL -> stream_rotateParts v i s t = Some (s', t') -> t' = t.
Proof.
  intros v i s t s' t' Hv H. unfold stream_rotateParts in H. destruct (nextSegment s); [|discriminate].
  destruct v; try congruence; inversion H; reflexivity.
Qed.

Lemma rotateSegments_nonLL_noparts : forall v sc lead i dur s t fs s' t' fs',
  v <> LL -> stream_rotateSegments v sc lead i dur s t fs = Some (s', t', fs') ->
  no_parts t -> no_parts t'.
Proof.
  intros v sc lead i dur s t fs s' t' fs' Hv H N. unfold stream_rotateSegments in H.
  destruct (match v with
            | MPEGTS => match nextSegment s with None => None | Some _ => Some (s, t) end
            | _ => stream_rotateParts v i s t end) as [[s1 t1]|] eqn:E1; [|discriminate].
  assert (Et : t1 = t).
  { destruct v; [destruct (nextSegment s); inversion E1; reflexivity| |congruence].
    eapply rotateParts_nonLL_table; eauto. }
  subst t1.
  destruct (sc <? _) in H.
  - match type of H with context[match ?l with nil => _ | cons _ _ => _ end] => destruct l as [|[?|? ? ?] ?] end;
      inversion H; subst; intros kk pp.
    + rewrite lookup_register. cbn [path_eqb]. apply N.
    + rewrite lookup_register. cbn [path_eqb]. apply N.
    + rewrite lookup_unregister. cbn [path_eqb].
      match goal with |- lookupPath (unregisterParts ?a ?b ?c) _ = None =>
        destruct (lookupPath (unregisterParts a b c) (PPart kk pp)) eqn:El; [|reflexivity] end.
      apply lookup_unregisterParts in El. rewrite lookup_register in El. cbn [path_eqb] in El.
      rewrite N in El. discriminate.
  - inversion H; subst. intros kk pp. rewrite lookup_register. cbn [path_eqb]. apply N.
Qed.

Lemma rotateParts_all_nonLL : forall v ss i t ss' t',
  v <> LL -> rotateParts_all v i ss t = Some (ss', t') -> t' = t.
Proof.
  intros v ss; induction ss as [|s r IH]; intros i t ss' t' Hv H; simpl in H.
  - inversion H; reflexivity.
  - destruct (stream_rotateParts v i s t) as [[s1 t1]|] eqn:E; [|discriminate].
    destruct (rotateParts_all v (S i) r t1) as [[r' t2]|] eqn:E2; [|discriminate].
    inversion H; subst. rewrite (IH _ _ _ _ Hv E2). eapply rotateParts_nonLL_table; eauto.
Qed.

Lemma rotateSegments_all_nonLL : forall v sc lead dur ss i t fs ss' t' fs',
  v <> LL -> rotateSegments_all v sc lead dur i ss t fs = Some (ss', t', fs') ->
  no_parts t -> no_parts t'.
Proof.
  intros v sc lead dur ss; induction ss as [|s r IH]; intros i t fs ss' t' fs' Hv H N; simpl in H.
  - inversion H; subst; exact N.
  - destruct (stream_rotateSegments v sc (Nat.eqb i lead) i dur s t fs) as [[[s1 t1] fs1]|] eqn:E; [|discriminate].
    destruct (rotateSegments_all v sc lead dur (S i) r t1 fs1) as [[[r' t2] fs2]|] eqn:E2; [|discriminate].
    inversion H; subst. eapply IH; eauto. eapply rotateSegments_nonLL_noparts; eauto.
Qed.

Lemma close_all_paths : forall m, m_paths (close_all m) = m_paths m.
Proof.
  intros m. unfold close_all. generalize (seq 0 (List.length (m_streams m))). intros l. revert m.
  induction l as [|k l IH]; intros m; simpl; [reflexivity|]. rewrite IH.
  apply (closeStream_fields m k).
Qed.

Lemma apply_wop_noparts : forall m o m',
  m_variant m <> LL -> apply_wop m o = Some m' -> no_parts (m_paths m) -> no_parts (m_paths m').
Proof.
  intros m o m' Hv H N. destruct o; simpl in H.
  - inversion H; subst; exact N.
  - unfold mux_rotateParts in H. destruct (rotateParts_all _ _ _ _) as [[ss t]|] eqn:E; [|discriminate].
    inversion H; subst; simpl. rewrite (rotateParts_all_nonLL _ _ _ _ _ _ Hv E). exact N.
  - unfold mux_rotateSegments in H.
    destruct (rotateSegments_all _ _ _ _ _ _ _ _) as [[[ss t] fs]|] eqn:E; [|discriminate].
    inversion H; subst; simpl. eapply rotateSegments_all_nonLL; eauto.
  - inversion H; subst. rewrite close_all_paths. exact N.
Qed.

Definition noparts_inv (c : cstate) : Prop :=
  m_variant (c_mux c) <> LL /\ no_parts (m_paths (c_mux c)).

Lemma noparts_inv_step : forall c t, noparts_inv c -> noparts_inv (step c t).
Proof.
  intros c t [Hv N]. unfold step. destruct (c_wpc c) eqn:Ew; try (split; assumption); destruct t as [|i].
  all: try (destruct (rstep_shape c i) as [[_ E]|[r [Hr E]]]; rewrite E; split; assumption).
  all: unfold wstep; rewrite Ew.
  - destruct (c_prog c) as [|o rest]; [split; assumption|].
    destruct o; try (destruct (c_owner c); split; assumption).
  - destruct (apply_wop (c_mux c) o) as [m'|] eqn:Ea; [|split; assumption].
    split; simpl; [rewrite (apply_wop_variant _ _ _ Ea); exact Hv|eapply apply_wop_noparts; eauto].
  - split; assumption.
  - split; assumption.
  - split; assumption.
  - split; assumption.
  - split; assumption.
  - destruct (Nat.ltb k (List.length (m_streams (c_mux c)))); [|split; assumption].
    destruct (closeStream_fields (c_mux c) k) as [Hv' [_ [Hp _]]].
    split; simpl; [rewrite Hv'; exact Hv|rewrite Hp; exact N].
  - split; assumption.
Qed.

Lemma hint_prop_of_noparts : forall m, no_parts (m_paths m) -> hint_prop m.
Proof.
  intros m N q k id h H. right. unfold test in H.
  destruct (nth_error (m_streams m) k) as [s|]; [|discriminate].
  destruct (s_closed s); [discriminate|]. destruct (id <? nextPartID s); [|discriminate].
  inversion H. apply N.
Qed.

(* the path table of a muxer that has just been started, whatever its variant *)
Definition table_ok (m : mux) : Prop :=
  match m_variant m with LL => paths_ok m | _ => no_parts (m_paths m) end.

Lemma init_table_ok : forall v sc n lead, table_ok (mux_init v sc n lead).
Proof.
  intros v sc n lead. unfold table_ok. destruct v; simpl; try (intros k id; reflexivity).
  apply init_paths_ok.
Qed.

Theorem hint_prop_reachable_all_variants : forall m prog reqs sched,
  table_ok m -> hint_prop (c_mux (crun (cinit m prog reqs) sched)).
Proof.
  intros m prog reqs sched T. unfold table_ok in T. destruct (m_variant m) eqn:Ev.
  - apply hint_prop_of_noparts.
    assert (H : noparts_inv (crun (cinit m prog reqs) sched)).
    { unfold crun. apply run_invariant; [apply noparts_inv_step|]. split; simpl; [congruence|exact T]. }
    exact (proj2 H).
  - apply hint_prop_of_noparts.
    assert (H : noparts_inv (crun (cinit m prog reqs) sched)).
    { unfold crun. apply run_invariant; [apply noparts_inv_step|]. split; simpl; [congruence|exact T]. }
    exact (proj2 H).
  - apply hint_prop_reachable; assumption.
Qed.

(* ---------- (3) a request for a part URI runs the hint closure of that very part ---------- *)
Definition hint_shape (k : nat) (id : Z) (pc : rpc) : Prop :=
  match pc with
  | PCall h => h = None \/ h = Some (HPart k id) \/ h = Some (HHint k id)
  | PLock f | PTest f | PWaiting f | PWoken f => f = FHint k id
  | PUnlockCall h => h = None \/ h = Some (HPart k id)
  | _ => True
  end.

Definition hint_req_ok (r : rstate) : Prop :=
  forall k id, r_req r = RqPath (PPart k id) -> hint_shape k id (r_pc r).

Lemma lstep_hint_req : forall m w n i r o,
  paths_ok m -> hint_req_ok r -> hint_req_ok (fst (lstep m w n i r o)).
Proof.
  intros m w n i r o P H k id Hq. rewrite lstep_req in Hq. specialize (H k id Hq).
  unfold lstep. destruct (r_pc r) eqn:Ep; simpl.
  - rewrite Hq. simpl. destruct (lookupPath (m_paths m) (PPart k id)) as [h|] eqn:El; [|auto].
    destruct (P k id h El ltac:(lia)) as [s [_ [[-> _]|[-> _]]]]; auto.
  - simpl in H. destruct H as [->|[->| ->]]; simpl; auto.
  - simpl in H. destruct o; simpl; rewrite ?Ep; exact H.
  - simpl in H. subst f. destruct (test m (req_query (r_req r)) (FHint k id)) eqn:Et; simpl; auto.
    destruct (hint_break_handler _ _ _ _ _ P Et) as [->| ->]; auto.
  - rewrite Ep. exact H.
  - simpl in H. destruct o; simpl; rewrite ?Ep; exact H.
  - exact I.
  - simpl in H. destruct H as [->| ->]; simpl; auto.
  - rewrite Ep. exact I.
Qed.

Lemma wake_hint_req : forall r, hint_req_ok r -> hint_req_ok (wake r).
Proof.
  intros r H k id Hq. destruct (wake_fields r) as [Eq _]. rewrite Eq in Hq. specialize (H k id Hq).
  destruct (wake_pc r) as [[f [E1 E2]]|[_ E2]]; [|rewrite E2; exact H].
  rewrite E2. rewrite E1 in H. exact H.
Qed.

Definition hint_state (c : cstate) : Prop := paths_inv c /\ reqs_all hint_req_ok c.

Lemma hint_state_step : forall c t, hint_state c -> hint_state (step c t).
Proof.
  intros c t [P H]. split; [apply paths_inv_step; exact P|].
  unfold step. destruct (c_wpc c) eqn:Ew; try exact H;
  (destruct t as [|i];
   [ intros j x Hj; destruct (wstep_reqs c) as [E|E]; rewrite E in Hj;
     [exact (H j x Hj)|apply broadcast_nth in Hj; destruct Hj as [r [Hr ->]]; apply wake_hint_req; exact (H j r Hr)]
   | destruct (rstep_shape c i) as [[_ E]|[r [Hr E]]]; rewrite E; [exact H|];
     intros j x Hj; apply with_req_nth in Hj; destruct Hj as [[-> [-> _]]|[_ Hj]];
     [apply lstep_hint_req; [exact (proj2 P)|exact (H i r Hr)]|exact (H j x Hj)] ]).
Qed.

(* the request of requester i never changes *)
Definition req_const (reqs0 : list request) (c : cstate) : Prop :=
  forall i r, nth_error (c_reqs c) i = Some r -> nth_error reqs0 i = Some (r_req r).

Lemma req_const_step : forall reqs0 c t, req_const reqs0 c -> req_const reqs0 (step c t).
Proof.
  intros reqs0 c t H. unfold step. destruct (c_wpc c) eqn:Ew; try exact H;
  (destruct t as [|i];
   [ intros j x Hj; destruct (wstep_reqs c) as [E|E]; rewrite E in Hj;
     [exact (H j x Hj)|apply broadcast_nth in Hj; destruct Hj as [r [Hr ->]];
      rewrite (proj1 (wake_fields r)); exact (H j r Hr)]
   | destruct (rstep_shape c i) as [[_ E]|[r [Hr E]]]; rewrite E; [exact H|];
     intros j x Hj; apply with_req_nth in Hj; destruct Hj as [[-> [-> _]]|[_ Hj]];
     [rewrite lstep_req; exact (H i r Hr)|exact (H j x Hj)] ]).
Qed.

Lemma req_const_reachable : forall m prog reqs sched, req_const reqs (crun (cinit m prog reqs) sched).
Proof.
  intros m prog reqs sched. unfold crun. apply run_invariant; [apply req_const_step|].
  intros i r Hi. simpl in Hi. apply nth_error_map_some in Hi. destruct Hi as [x [Hx ->]]. exact Hx.
Qed.

Lemma hint_state_reachable : forall m prog reqs sched,
  m_variant m = LL -> paths_ok m -> hint_state (crun (cinit m prog reqs) sched).
Proof.
  intros m prog reqs sched Hv P. unfold crun. apply run_invariant; [apply hint_state_step|].
  split; [split; assumption|]. apply reqs_all_init. intros r k id Hq. exact I.
Qed.

(* the preload hint, stated for the request: GET of the hint URI of part id of stream k leaves
   its wait loop only in a state where that part is complete, and then calls the handler of
   exactly that part (or answers 404 when the part has been evicted meanwhile) *)
Theorem hint_body_of_request : forall m prog reqs sched i r h k id,
  m_variant m = LL -> paths_ok m ->
  nth_error (c_reqs (crun (cinit m prog reqs) sched)) i = Some r ->
  r_req r = RqPath (PPart k id) -> r_pc r = PUnlockCall h ->
  (h = Some (HPart k id) \/ h = None) /\
  exists p rest, sched = p ++ TR i :: rest /\
    let c := crun (cinit m prog reqs) p in
    req_pc c i = Some (PTest (FHint k id)) /\
    exists s, nth_error (m_streams (c_mux c)) k = Some s /\ s_closed s = false /\ id < nextPartID s.
Proof.
  intros m prog reqs sched i r h k id Hv P Hr Hq Hp.
  destruct (hint_body m prog reqs sched i r h Hv P Hr Hp) as [k' [id' [Hh [p [rest [E [Hpc Hs]]]]]]].
  cbn zeta in Hpc, Hs.
  (* the requester's state at the prefix has the same request, hence the same frame *)
  unfold req_pc in Hpc.
  destruct (nth_error (c_reqs (crun (cinit m prog reqs) p)) i) as [rp|] eqn:Erp; [|discriminate].
  simpl in Hpc. inversion Hpc as [Hpc'].
  pose proof (req_const_reachable m prog reqs p i rp Erp) as C1.
  pose proof (req_const_reachable m prog reqs sched i r Hr) as C2.
  rewrite C1 in C2. inversion C2 as [Hreq]. rewrite Hq in Hreq.
  pose proof (proj2 (hint_state_reachable m prog reqs p Hv P) i rp Erp k id Hreq) as Hsh.
  rewrite Hpc' in Hsh. simpl in Hsh. inversion Hsh; subst k' id'.
  split; [exact Hh|]. exists p, rest. split; [exact E|]. cbn zeta. split; [|exact Hs].
  unfold req_pc. rewrite Erp. simpl. rewrite Hpc'. reflexivity.
Qed.
