(* M5 - the C11 statements in the form Props/C11.v restates, the refutation of the full
   end-of-stream reading, and Examples showing that the hypotheses of every implication-shaped
   theorem are satisfiable by concrete non-trivial histories. *)
From Coq Require Import List ZArith String Bool Lia.
From GoHls Require Import Model.ClientSel Proofs.ClientSelFill Proofs.ClientSelRun.
Import ListNotations.
Local Open Scope Z_scope.

Section Main.
  Variable resolve : string -> string -> option string.
  Variable purl : string.

  Notation run := (ClientSel.run resolve purl).
  Notation res := (resolves resolve purl).

  (* hypotheses shared by the "what follows segment m" theorems: segment m was requested from the
     playlist of poll k, and it was not the last segment of an ENDLIST playlist *)
  Definition requested (h : list playlist) (log : list event) (o : outcome)
             (l1 : list event) (k : nat) (pos m : Z) (seg : segment) (l2 : list event) (pl : playlist) : Prop :=
    run h = (log, o) /\ log = l1 ++ EvSegment k pos m seg :: l2 /\ nth_error h k = Some pl.

  Lemma requested_follows fp rest log o l1 k pos m seg l2 pl :
    requested (fp :: rest) log o l1 k pos m seg l2 pl -> follows resolve purl (fp :: rest) fp k pos m l2 o.
  Proof. intros [Hrun [Hlog _]]. eapply after_segment; eauto. Qed.

  Theorem stop_next fp rest log o l1 k pos m seg l2 pl pl' :
    requested (fp :: rest) log o l1 k pos m seg l2 pl ->
    ~ (Endlist pl = true /\ pos = len (Segments pl) - 1) ->
    nth_error (fp :: rest) (S k) = Some pl' ->
    m + 1 < MediaSequence pl' \/ MediaSequence pl' + len (Segments pl') <= m + 1 ->
    ~ ended_after m pl' ->
    l2 = [EvPlaylist (S k) false] /\ o = OErrNext.
  Proof.
    intros Hreq Hnl Hk1 Hw Hne. pose proof (requested_follows _ _ _ _ _ _ _ _ _ _ _ Hreq) as [pl0 [Hk0 Hc]].
    destruct Hreq as [_ [_ Hk]]. assert (pl0 = pl) as -> by congruence.
    destruct Hc as [[He [Hp _]]|[_ Hc]]; [tauto|]. rewrite Hk1 in Hc.
    rewrite (not_ended_after_b _ _ Hne) in Hc.
    assert ((m + 1 <? MediaSequence pl') || (MediaSequence pl' + len (Segments pl') <=? m + 1) = true) as E.
    { destruct (m + 1 <? MediaSequence pl') eqn:E1; [reflexivity|].
      destruct (MediaSequence pl' + len (Segments pl') <=? m + 1) eqn:E2; [reflexivity|lia]. }
    rewrite E in Hc. exact Hc.
  Qed.

  Theorem stop_too_late fp rest log o l1 k pos m seg l2 pl pl' :
    requested (fp :: rest) log o l1 k pos m seg l2 pl ->
    ~ (Endlist pl = true /\ pos = len (Segments pl) - 1) ->
    nth_error (fp :: rest) (S k) = Some pl' ->
    MediaSequence pl' <= m + 1 < MediaSequence pl' + len (Segments pl') ->
    Endlist pl' = false ->
    clientLiveMaxDistanceFromEnd < MediaSequence pl' + len (Segments pl') - (m + 1) ->
    l2 = [EvPlaylist (S k) false] /\ o = OErrTooLate.
  Proof.
    intros Hreq Hnl Hk1 Hw He Hd. pose proof (requested_follows _ _ _ _ _ _ _ _ _ _ _ Hreq) as [pl0 [Hk0 Hc]].
    destruct Hreq as [_ [_ Hk]]. assert (pl0 = pl) as -> by congruence.
    destruct Hc as [[He' [Hp _]]|[_ Hc]]; [tauto|]. rewrite Hk1 in Hc.
    rewrite (in_window_not_ended _ _ Hw) in Hc.
    assert ((m + 1 <? MediaSequence pl') || (MediaSequence pl' + len (Segments pl') <=? m + 1) = false) as E.
    { destruct (m + 1 <? MediaSequence pl') eqn:E1; [lia|].
      destruct (MediaSequence pl' + len (Segments pl') <=? m + 1) eqn:E2; [lia|reflexivity]. }
    rewrite E, He in Hc. cbn [negb andb] in Hc.
    destruct (clientLiveMaxDistanceFromEnd <? MediaSequence pl' + len (Segments pl') - (m + 1)) eqn:E3; [exact Hc|lia].
  Qed.

  Theorem continue_next fp rest log o l1 k pos m seg l2 pl pl' :
    requested (fp :: rest) log o l1 k pos m seg l2 pl ->
    ~ (Endlist pl = true /\ pos = len (Segments pl) - 1) ->
    nth_error (fp :: rest) (S k) = Some pl' ->
    MediaSequence pl' <= m + 1 < MediaSequence pl' + len (Segments pl') ->
    Endlist pl' = true \/ MediaSequence pl' + len (Segments pl') - (m + 1) <= clientLiveMaxDistanceFromEnd ->
    exists seg', nth_error (Segments pl') (Z.to_nat (m + 1 - MediaSequence pl')) = Some seg' /\
      (res (sg_uri seg') = true ->
       exists l3, l2 = EvPlaylist (S k) false :: EvSegment (S k) (m + 1 - MediaSequence pl') (m + 1) seg' :: l3) /\
      (res (sg_uri seg') = false -> l2 = [EvPlaylist (S k) false] /\ o = OErrResolve).
  Proof.
    intros Hreq Hnl Hk1 Hw Hd. pose proof (requested_follows _ _ _ _ _ _ _ _ _ _ _ Hreq) as [pl0 [Hk0 Hc]].
    destruct Hreq as [_ [_ Hk]]. assert (pl0 = pl) as -> by congruence.
    destruct Hc as [[He' [Hp _]]|[_ Hc]]; [tauto|]. rewrite Hk1 in Hc.
    rewrite (in_window_not_ended _ _ Hw) in Hc.
    assert ((m + 1 <? MediaSequence pl') || (MediaSequence pl' + len (Segments pl') <=? m + 1) = false) as E.
    { destruct (m + 1 <? MediaSequence pl') eqn:E1; [lia|].
      destruct (MediaSequence pl' + len (Segments pl') <=? m + 1) eqn:E2; [lia|reflexivity]. }
    assert (negb (Endlist pl') && (clientLiveMaxDistanceFromEnd <? MediaSequence pl' + len (Segments pl') - (m + 1)) = false) as E2.
    { destruct Hd as [->|Hd]; [reflexivity|].
      destruct (clientLiveMaxDistanceFromEnd <? MediaSequence pl' + len (Segments pl') - (m + 1)) eqn:E3; [lia|].
      apply andb_false_r. }
    rewrite E, E2 in Hc. destruct Hc as [seg' [Hs Hc]]. exists seg'. split; [exact Hs|].
    destruct (res (sg_uri seg')); split; intros; try discriminate; auto.
  Qed.

  Theorem server_gone fp rest log o l1 k pos m seg l2 pl :
    requested (fp :: rest) log o l1 k pos m seg l2 pl ->
    ~ (Endlist pl = true /\ pos = len (Segments pl) - 1) ->
    nth_error (fp :: rest) (S k) = None ->
    l2 = [EvPlaylist (S k) false] /\ o = OServerGone.
  Proof.
    intros Hreq Hnl Hk1. pose proof (requested_follows _ _ _ _ _ _ _ _ _ _ _ Hreq) as [pl0 [Hk0 Hc]].
    destruct Hreq as [_ [_ Hk]]. assert (pl0 = pl) as -> by congruence.
    destruct Hc as [[He' [Hp _]]|[_ Hc]]; [tauto|]. rewrite Hk1 in Hc. exact Hc.
  Qed.

  (* EOS, first form: the request for the last segment of an ENDLIST playlist, selected from that
     playlist, is the final request and the stream ends *)
  Theorem eos_last_segment fp rest log o l1 k pos m seg l2 pl :
    requested (fp :: rest) log o l1 k pos m seg l2 pl ->
    Endlist pl = true -> pos = len (Segments pl) - 1 ->
    l2 = [] /\ o = OEOS.
  Proof.
    intros Hreq He Hp. pose proof (requested_follows _ _ _ _ _ _ _ _ _ _ _ Hreq) as [pl0 [Hk0 Hc]].
    destruct Hreq as [_ [_ Hk]]. assert (pl0 = pl) as -> by congruence.
    destruct Hc as [[_ [_ Hc]]|[Hn _]]; [exact Hc|tauto].
  Qed.

  (* EOS, second form: the next poll shows ENDLIST and segment m was that playlist's last one:
     one playlist request, then the stream ends (no error, no further request) *)
  Theorem eos_endlist_after_last fp rest log o l1 k pos m seg l2 pl pl' :
    requested (fp :: rest) log o l1 k pos m seg l2 pl ->
    ~ (Endlist pl = true /\ pos = len (Segments pl) - 1) ->
    nth_error (fp :: rest) (S k) = Some pl' ->
    Endlist pl' = true -> m = MediaSequence pl' + len (Segments pl') - 1 ->
    l2 = [EvPlaylist (S k) false] /\ o = OEOS.
  Proof.
    intros Hreq Hnl Hk1 He Hm. pose proof (requested_follows _ _ _ _ _ _ _ _ _ _ _ Hreq) as [pl0 [Hk0 Hc]].
    destruct Hreq as [_ [_ Hk]]. assert (pl0 = pl) as -> by congruence.
    destruct Hc as [[He' [Hp _]]|[_ Hc]]; [tauto|]. rewrite Hk1 in Hc.
    rewrite ended_after_b in Hc by (split; [exact He|lia]). exact Hc.
  Qed.

  (* EOS, history level. A server is consistent when a playlist that carries ENDLIST never changes
     again (RFC 8216 6.2.1) and the last media sequence number never moves backwards. For every
     history of a consistent server: once the client has polled a playlist carrying ENDLIST and has
     requested that playlist's last media sequence number, the stream ends with EOS. *)
  Definition last_msn (pl : playlist) : Z := MediaSequence pl + len (Segments pl) - 1.

  Definition endlist_final (h : list playlist) : Prop :=
    forall k pl j pl', nth_error h k = Some pl -> Endlist pl = true -> (k <= j)%nat ->
                       nth_error h j = Some pl' -> pl' = pl.

  Definition end_monotone (h : list playlist) : Prop :=
    forall j pl k pl', (j <= k)%nat -> nth_error h j = Some pl -> nth_error h k = Some pl' ->
                       last_msn pl <= last_msn pl'.

  Definition eos_full (h : list playlist) : Prop :=
    forall log o, run h = (log, o) ->
    forall k pl s, nth_error h k = Some pl -> Endlist pl = true -> In (EvPlaylist k s) log ->
      In (last_msn pl) (map ev_msn (seg_events log)) ->
      o = OEOS.

  Theorem eos_full_consistent h : endlist_final h -> end_monotone h -> eos_full h.
  Proof.
    intros Hfin Hmono log o Hrun k pl s Hk He Hpl HL.
    destruct h as [|fp rest].
    { cbn in Hrun. injection Hrun as <- _. cbn in HL. contradiction. }
    (* the segment request carrying the last MSN *)
    apply in_map_iff in HL. destruct HL as [e [Hmsn Hin]].
    apply filter_In in Hin. destruct Hin as [Hin Hseg].
    destruct e as [| |j p x sg|]; try discriminate. cbn in Hmsn. subst x.
    destruct (isLowLatency fp) eqn:Hll.
    { exfalso. exact (ll_no_segment_events _ _ _ _ _ _ _ _ _ _ Hll Hrun Hin). }
    pose proof (segment_truthful _ _ _ _ _ _ _ _ _ _ Hrun Hin) as [plj [Hj [Hb [Hm Hs]]]].
    destruct (in_split _ _ Hin) as [l1 [l2 Hlog]].
    assert (requested (fp :: rest) log o l1 j p (last_msn pl) sg l2 plj) as Hreq by (repeat split; assumption).
    destruct (le_lt_dec k j) as [Hkj|Hjk].
    - (* requested from the ENDLIST playlist itself (which no longer changes) *)
      assert (plj = pl) as -> by (eapply Hfin; eauto).
      eapply eos_last_segment; [exact Hreq|exact He|]. unfold last_msn in Hm. lia.
    - (* requested before poll k: it was the request just before that poll *)
      destruct (consecutive _ _ _ _ _ _ Hll Hrun) as [l [m0 [Hlg Ht]]].
      assert (In (EvSegment j p (last_msn pl) sg) l) as Hinl.
      { rewrite Hlg in Hin. apply in_app_or in Hin. destruct Hin as [Hin|Hin]; [|exact Hin].
        apply firstn_In in Hin. pose proof (prelude_no_segment fp) as Hp. rewrite Forall_forall in Hp.
        apply Hp in Hin. discriminate. }
      assert (In (EvPlaylist k s) l) as Hpll.
      { rewrite Hlg in Hpl. apply in_app_or in Hpl. destruct Hpl as [Hpl|Hpl]; [|exact Hpl].
        apply firstn_In in Hpl. unfold prelude in Hpl. destruct Hpl as [E|Hpl].
        - injection E as <- _. lia.
        - destruct (init_request fp); [destruct Hpl as [E|[]]; discriminate|contradiction]. }
      destruct (tt_seg_at _ _ _ _ Ht _ _ _ _ Hinl) as [_ HLj].
      destruct (tt_pl_prev _ _ _ _ Ht _ _ Hpll) as [Hk0 [p' [sg' Hin']]].
      pose proof (trad_trace_truthful _ _ _ _ Ht _ _ _ _ Hin') as [plk [Hk1 [Hb' [Hm' _]]]].
      assert (last_msn plk <= last_msn pl) as Hle by (eapply (Hmono (k - 1)%nat plk k pl); [lia|exact Hk1|exact Hk]).
      assert (j = (k - 1)%nat) as Hjeq.
      { unfold last_msn in *. rewrite !Nat.sub_0_r in *. lia. }
      subst j.
      destruct (Endlist plj) eqn:Hej.
      + destruct (Z.eq_dec p (len (Segments plj) - 1)) as [Hp|Hp].
        * eapply eos_last_segment; [exact Hreq|exact Hej|exact Hp].
        * eapply (eos_endlist_after_last _ _ _ _ _ _ _ _ _ _ _ pl); [exact Hreq|tauto| |exact He|reflexivity].
          replace (S (k - 1)) with k by lia. exact Hk.
      + eapply (eos_endlist_after_last _ _ _ _ _ _ _ _ _ _ _ pl); [exact Hreq|intros [Hx _]; congruence| |exact He|reflexivity].
        replace (S (k - 1)) with k by lia. exact Hk.
  Qed.

  Section Wire.
  Variable with_skip : string -> string.

  (* URL and Range of a segment request: the URI of the entry with that MSN in the playlist of
     that poll, resolved against the playlist URL *)
  Theorem segment_request_wire fp rest log o k pos m seg :
    run (fp :: rest) = (log, o) -> In (EvSegment k pos m seg) log ->
    exists pl u,
      nth_error (fp :: rest) k = Some pl /\
      MediaSequence pl <= m < MediaSequence pl + len (Segments pl) /\ pos = m - MediaSequence pl /\
      nth_error (Segments pl) (Z.to_nat (m - MediaSequence pl)) = Some seg /\
      resolve purl (sg_uri seg) = Some u /\
      wire resolve with_skip purl (EvSegment k pos m seg) =
      Some {| w_kind := WSegment; w_url := u; w_range := segment_range (sg_start seg) (sg_length seg) |}.
  Proof.
    intros Hrun Hin.
    destruct (segment_truthful _ _ _ _ _ _ _ _ _ _ Hrun Hin) as [pl [Hk [Hb [Hm Hs]]]].
    destruct (wire_total _ with_skip _ _ _ _ _ Hrun Hin) as [w Hw].
    cbn [wire] in Hw. unfold mk in Hw.
    destruct (resolve purl (sg_uri seg)) as [u|] eqn:Hr; [|discriminate].
    exists pl, u. assert (pos = m - MediaSequence pl) as Hp by lia.
    repeat split; try lia; auto.
    - rewrite <- Hp. exact Hs.
    - cbn [wire]. unfold mk. rewrite Hr. reflexivity.
  Qed.

  Theorem hint_request_wire h log o k ph :
    run h = (log, o) -> In (EvHint k ph) log ->
    exists u, resolve purl (ph_uri ph) = Some u /\
      wire resolve with_skip purl (EvHint k ph) =
      Some {| w_kind := WPart; w_url := u; w_range := hint_range (ph_start ph) (ph_length ph) |}.
  Proof.
    intros Hrun Hin. destruct (wire_total _ with_skip _ _ _ _ _ Hrun Hin) as [w Hw].
    cbn [wire] in *. unfold mk in *.
    destruct (resolve purl (ph_uri ph)) as [u|] eqn:Hr; [|discriminate]. eauto.
  Qed.

  Theorem playlist_request_wire k skip :
    wire resolve with_skip purl (EvPlaylist k skip) =
    Some {| w_kind := WPlaylist; w_url := if skip then with_skip purl else purl; w_range := None |}.
  Proof. reflexivity. Qed.
  End Wire.
End Main.

(* ---------- Client.Wait ---------- *)
Theorem client_eos_iff outs r :
  forallb is_eos outs = true -> (client_result outs r = true <-> r = OEOS).
Proof.
  intros H. unfold client_result. rewrite H. destruct r; cbn; split; intros; try discriminate; reflexivity.
Qed.

Theorem client_error outs r :
  forallb is_eos outs = false -> client_result outs r = true -> r <> OEOS /\ In r outs.
Proof.
  intros H. unfold client_result. rewrite H. intros Hr. apply andb_prop in Hr. destruct Hr as [H1 H2].
  split; [destruct r; try discriminate|].
  apply existsb_exists in H2. destruct H2 as [x [Hin Hx]].
  destruct r, x; try discriminate; exact Hin.
Qed.

(* ---------- concrete histories ---------- *)
Definition xseg (n : Z) : segment :=
  {| sg_uri := ("seg" ++ dec n ++ ".ts")%string; sg_start := None; sg_length := None; sg_payload := n |}.
Definition xpl (msn : Z) (ids : list Z) (e : bool) (t : pltype) : playlist :=
  {| MediaSequence := msn; Segments := map xseg ids; Endlist := e; PlaylistType := t;
     ServerControl := None; PreloadHint := None; Map := None |}.
Definition xres : string -> string -> option string := fun _ r => Some r.

(* the former finding C11-F11 (fixed in /repo by 3b9aa17): the server keeps serving segments 0..2,
   the client (live start: third from last) fetches 0, 1, 2; then ENDLIST is added without a new
   segment. The run now ends with EOS after that poll. *)
Definition eos_witness : list playlist :=
  [xpl 0 [0; 1; 2] false PTNone; xpl 0 [0; 1; 2] false PTNone; xpl 0 [0; 1; 2] false PTNone;
   xpl 0 [0; 1; 2] true PTNone].

Example ex_eos_endlist_after_last :
  run xres "http://h/p.m3u8" eos_witness =
  ([EvPlaylist 0 false; EvSegment 0 0 0 (xseg 0); EvPlaylist 1 false; EvSegment 1 1 1 (xseg 1);
    EvPlaylist 2 false; EvSegment 2 2 2 (xseg 2); EvPlaylist 3 false], OEOS)
  /\ requested xres "http://h/p.m3u8" eos_witness (fst (run xres "http://h/p.m3u8" eos_witness))
               (snd (run xres "http://h/p.m3u8" eos_witness))
               [EvPlaylist 0 false; EvSegment 0 0 0 (xseg 0); EvPlaylist 1 false; EvSegment 1 1 1 (xseg 1);
                EvPlaylist 2 false] 2 2 2 (xseg 2) [EvPlaylist 3 false] (xpl 0 [0; 1; 2] false PTNone)
  /\ nth_error eos_witness 3 = Some (xpl 0 [0; 1; 2] true PTNone)
  /\ 2 = MediaSequence (xpl 0 [0; 1; 2] true PTNone) + len (Segments (xpl 0 [0; 1; 2] true PTNone)) - 1.
Proof. repeat split; vm_compute; reflexivity. Qed.

(* the witness is a history of a consistent server: the hypotheses of eos_full_consistent hold *)
Example ex_consistent_server : endlist_final eos_witness /\ end_monotone eos_witness.
Proof.
  split.
  - intros k pl j pl' Hk He Hkj Hj.
    destruct k as [|[|[|[|k]]]]; cbn in Hk; try (injection Hk as <-; discriminate).
    + injection Hk as <-. destruct j as [|[|[|[|j]]]]; try lia; cbn in Hj.
      * injection Hj as <-. reflexivity.
      * destruct j; discriminate.
    + destruct k; discriminate.
  - intros j pl k pl' _ Hj Hk.
    assert (forall i p, nth_error eos_witness i = Some p -> last_msn p = 2) as Hall.
    { intros i p Hi. destruct i as [|[|[|[|i]]]]; cbn in Hi; try (injection Hi as <-; reflexivity).
      destruct i; discriminate. }
    rewrite (Hall _ _ Hj), (Hall _ _ Hk). lia.
Qed.

(* ---------- Examples: the hypotheses of the theorems are satisfiable ---------- *)
Definition xrun := run xres "http://h/p.m3u8".

(* start: VOD from the first entry, live from the third-from-last, too few: error without a request *)
Example ex_start_vod :
  xrun [xpl 7 [7; 8; 9; 10] true PTVod; xpl 7 [7; 8; 9; 10] true PTVod] =
  ([EvPlaylist 0 false; EvSegment 0 0 7 (xseg 7); EvPlaylist 1 false; EvSegment 1 1 8 (xseg 8);
    EvPlaylist 2 false], OServerGone).
Proof. vm_compute. reflexivity. Qed.

Example ex_start_live :
  xrun [xpl 7 [7; 8; 9; 10] false PTEvent] =
  ([EvPlaylist 0 false; EvSegment 0 1 8 (xseg 8); EvPlaylist 1 false], OServerGone).
Proof. vm_compute. reflexivity. Qed.

Example ex_start_short :
  xrun [xpl 7 [7; 8] false PTNone; xpl 7 [7; 8; 9] false PTNone] = ([EvPlaylist 0 false], OErrNotEnough).
Proof. vm_compute. reflexivity. Qed.

(* a sliding window: MSN advances by 0, 1 and 2 between polls; the client walks 2,3,4,5 and
   then reaches the end of an ENDLIST playlist *)
Definition ex_history : list playlist :=
  [xpl 0 [0; 1; 2; 3; 4] false PTNone; xpl 0 [0; 1; 2; 3; 4] false PTNone;
   xpl 1 [1; 2; 3; 4; 5] false PTNone; xpl 3 [3; 4; 5] true PTNone].

Example ex_walk :
  xrun ex_history =
  ([EvPlaylist 0 false; EvSegment 0 2 2 (xseg 2); EvPlaylist 1 false; EvSegment 1 3 3 (xseg 3);
    EvPlaylist 2 false; EvSegment 2 3 4 (xseg 4); EvPlaylist 3 false; EvSegment 3 2 5 (xseg 5)], OEOS).
Proof. vm_compute. reflexivity. Qed.

Example ex_requested_continue :
  requested xres "http://h/p.m3u8" ex_history (fst (xrun ex_history)) (snd (xrun ex_history))
            [EvPlaylist 0 false; EvSegment 0 2 2 (xseg 2); EvPlaylist 1 false] 1 3 3 (xseg 3)
            [EvPlaylist 2 false; EvSegment 2 3 4 (xseg 4); EvPlaylist 3 false; EvSegment 3 2 5 (xseg 5)]
            (xpl 0 [0; 1; 2; 3; 4] false PTNone)
  /\ ~ (Endlist (xpl 0 [0; 1; 2; 3; 4] false PTNone) = true /\ 3 = len (Segments (xpl 0 [0; 1; 2; 3; 4] false PTNone)) - 1)
  /\ nth_error ex_history 2 = Some (xpl 1 [1; 2; 3; 4; 5] false PTNone)
  /\ MediaSequence (xpl 1 [1; 2; 3; 4; 5] false PTNone) <= 3 + 1 < MediaSequence (xpl 1 [1; 2; 3; 4; 5] false PTNone) + len (Segments (xpl 1 [1; 2; 3; 4; 5] false PTNone)).
Proof.
  split; [|split; [|split]].
  - repeat split; vm_compute; reflexivity.
  - intros [H _]. discriminate.
  - reflexivity.
  - vm_compute. split; [intros ?; discriminate|reflexivity].
Qed.

Example ex_requested_eos :
  requested xres "http://h/p.m3u8" ex_history (fst (xrun ex_history)) (snd (xrun ex_history))
            [EvPlaylist 0 false; EvSegment 0 2 2 (xseg 2); EvPlaylist 1 false; EvSegment 1 3 3 (xseg 3);
             EvPlaylist 2 false; EvSegment 2 3 4 (xseg 4); EvPlaylist 3 false] 3 2 5 (xseg 5) []
            (xpl 3 [3; 4; 5] true PTNone)
  /\ Endlist (xpl 3 [3; 4; 5] true PTNone) = true /\ 2 = len (Segments (xpl 3 [3; 4; 5] true PTNone)) - 1.
Proof. repeat split; vm_compute; reflexivity. Qed.

(* absent next entry (the window has moved past it) and too late (6 from the end) *)
Definition ex_gap : list playlist := [xpl 0 [0; 1; 2] false PTNone; xpl 2 [2; 3; 4] false PTNone].
Example ex_stop_next :
  xrun ex_gap = ([EvPlaylist 0 false; EvSegment 0 0 0 (xseg 0); EvPlaylist 1 false], OErrNext)
  /\ requested xres "http://h/p.m3u8" ex_gap (fst (xrun ex_gap)) (snd (xrun ex_gap))
               [EvPlaylist 0 false] 0 0 0 (xseg 0) [EvPlaylist 1 false] (xpl 0 [0; 1; 2] false PTNone)
  /\ 0 + 1 < MediaSequence (xpl 2 [2; 3; 4] false PTNone)
  /\ ~ ended_after 0 (xpl 2 [2; 3; 4] false PTNone).
Proof.
  split; [vm_compute; reflexivity|]. split; [repeat split; vm_compute; reflexivity|].
  split; [vm_compute; reflexivity|]. intros [H _]. discriminate.
Qed.

Definition ex_late : list playlist :=
  [xpl 0 [0; 1; 2] false PTNone; xpl 0 [0; 1; 2; 3; 4; 5; 6] false PTNone].
Example ex_stop_too_late :
  xrun ex_late = ([EvPlaylist 0 false; EvSegment 0 0 0 (xseg 0); EvPlaylist 1 false], OErrTooLate)
  /\ requested xres "http://h/p.m3u8" ex_late (fst (xrun ex_late)) (snd (xrun ex_late))
               [EvPlaylist 0 false] 0 0 0 (xseg 0) [EvPlaylist 1 false] (xpl 0 [0; 1; 2] false PTNone)
  /\ clientLiveMaxDistanceFromEnd < 0 + len (Segments (xpl 0 [0; 1; 2; 3; 4; 5; 6] false PTNone)) - (0 + 1).
Proof. repeat split; vm_compute; reflexivity. Qed.

(* with ENDLIST the same distance is not an error *)
Example ex_endlist_not_late :
  xrun [xpl 0 [0; 1; 2] false PTNone; xpl 0 [0; 1; 2; 3; 4; 5; 6] true PTNone] =
  ([EvPlaylist 0 false; EvSegment 0 0 0 (xseg 0); EvPlaylist 1 false; EvSegment 1 1 1 (xseg 1); EvPlaylist 2 false],
   OServerGone).
Proof. vm_compute. reflexivity. Qed.

(* low latency: hint of every playlist, _HLS_skip on every reload iff the first playlist advertised it *)
Definition xll (msn : Z) (hint : option string) (skip : bool) : playlist :=
  {| MediaSequence := msn; Segments := [xseg msn]; Endlist := false; PlaylistType := PTNone;
     ServerControl := Some {| sc_canBlockReload := true; sc_canSkipUntil := skip |};
     PreloadHint := match hint with
                    | Some u => Some {| ph_uri := u; ph_start := 10; ph_length := Some 5 |}
                    | None => None end;
     Map := Some {| mp_uri := "init.mp4"%string; mp_start := None; mp_length := Some 100 |} |}.

Example ex_ll :
  xrun [xll 0 (Some "p1.mp4"%string) true; xll 0 (Some "p2.mp4"%string) false; xll 1 None false] =
  ([EvPlaylist 0 false; EvInit {| mp_uri := "init.mp4"%string; mp_start := None; mp_length := Some 100 |};
    EvHint 0 {| ph_uri := "p1.mp4"%string; ph_start := 10; ph_length := Some 5 |}; EvPlaylist 1 true;
    EvHint 1 {| ph_uri := "p2.mp4"%string; ph_start := 10; ph_length := Some 5 |}; EvPlaylist 2 true], OErrHintGone)
  /\ isLowLatency (xll 0 (Some "p1.mp4"%string) true) = true.
Proof. split; vm_compute; reflexivity. Qed.

Example ex_ranges :
  segment_range None (Some 100) = Some "bytes=0-99"%string /\
  segment_range (Some 7) (Some 3) = Some "bytes=7-9"%string /\
  segment_range (Some 7) None = None /\
  hint_range 10 (Some 5) = Some "bytes=10-14"%string /\
  segment_range None (Some 0) = Some "bytes=0-18446744073709551615"%string.
Proof. repeat split; vm_compute; reflexivity. Qed.

(* a VOD playlist without entries (the parser never produces one): error, no request *)
Example ex_start_vod_empty :
  xrun [xpl 0 [] true PTVod] = ([EvPlaylist 0 false], OErrNoSegments).
Proof. vm_compute. reflexivity. Qed.

(* an entry whose URI does not parse: the run stops there without a request *)
Example ex_resolve_error :
  run (fun _ r => if String.eqb r "seg1.ts" then None else Some r) "http://h/p.m3u8"
      [xpl 0 [0; 1; 2] false PTNone; xpl 0 [0; 1; 2] false PTNone] =
  ([EvPlaylist 0 false; EvSegment 0 0 0 (xseg 0); EvPlaylist 1 false], OErrResolve).
Proof. vm_compute. reflexivity. Qed.

(* several renditions: ErrClientEOS iff all ended *)
Example ex_client_result :
  client_result [OEOS; OEOS] OEOS = true /\ client_result [OEOS; OErrNext] OEOS = false /\
  client_result [OEOS; OErrNext] OErrNext = true /\ client_result [OEOS; OErrNext] OErrTooLate = false.
Proof. repeat split; reflexivity. Qed.

(* segments of an ENDLIST playlist that share one URI (sub-ranges of one resource): the last-segment
   test is on the POSITION (Go: pointer identity of the entry), so all four are requested before EOS
   (seeded change C11-m5 compared URIs and ended after the first) *)
Definition rseg (n : Z) : segment :=
  {| sg_uri := "all.ts"; sg_start := Some (n * 564); sg_length := Some 564; sg_payload := n |}.
Definition rpl : playlist :=
  {| MediaSequence := 0; Segments := map rseg [0; 1; 2; 3]; Endlist := true; PlaylistType := PTVod;
     ServerControl := None; PreloadHint := None; Map := None |}.
Example ex_shared_uri_vod :
  xrun [rpl; rpl; rpl; rpl] =
  ([EvPlaylist 0 false; EvSegment 0 0 0 (rseg 0); EvPlaylist 1 false; EvSegment 1 1 1 (rseg 1);
    EvPlaylist 2 false; EvSegment 2 2 2 (rseg 2); EvPlaylist 3 false; EvSegment 3 3 3 (rseg 3)], OEOS)
  /\ map (fun n => segment_range (sg_start (rseg n)) (sg_length (rseg n))) [0; 1; 2; 3] =
     [Some "bytes=0-563"; Some "bytes=564-1127"; Some "bytes=1128-1691"; Some "bytes=1692-2255"]%string.
Proof. split; vm_compute; reflexivity. Qed.
