(* M8: theorems over all schedules.  Safety from the invariant (Proofs/ClientLifeInv.v);
   termination from [all_cancellable] of the table + what is assumed of net/http. *)
From Coq Require Import List Bool Arith Lia String.
From GoHls Require Import Lib.ClientLifeIR Model.ClientLifeOps Model.ClientLife Proofs.ClientLifeInv.
Import ListNotations.

(* ---------- measure ---------- *)
Definition rank (p : gpc) : nat :=
  match p with GBlocked _ => 4 | GBody => 3 | GSending _ => 2 | GExit => 1 | GDone => 0 end.
Fixpoint ranks (l : list gpc) : nat := match l with [] => 0 | p :: r => rank p + ranks r end.
Definition rrank (p : runpc) : nat :=
  match p with RSelect => 4 | RCancel _ => 3 | RWait _ => 2 | RSend _ => 1 | RDone => 0 end.
Definition mu (s : state) : nat := 4 * fuel s + ranks (gs s) + rrank (rpc s).

Lemma ranks_upd : forall l g p q, nth_error l g = Some p -> ranks (upd l g q) + rank p = ranks l + rank q.
Proof.
  induction l as [|x l IH]; intros [|g] p q H; simpl in H; try discriminate.
  - inversion H; subst. cbn [upd ranks]. lia.
  - cbn [upd ranks]. specialize (IH g p q H). lia.
Qed.

Lemma ranks_app : forall l m, ranks (l ++ m) = ranks l + ranks m.
Proof. induction l; intro m; simpl; [reflexivity|rewrite IHl; lia]. Qed.

Lemma live_pos_exists : forall l, live l <> 0 -> exists g p, nth_error l g = Some p /\ lv p = 1.
Proof.
  induction l as [|x l IH]; intro H; [simpl in H; congruence|].
  destruct (lv x) eqn:L.
  - rewrite live_cons, L in H. destruct (IH H) as (g & p & N & Lp). exists (S g), p. auto.
  - exists 0, x. split; [reflexivity|]. destruct x; simpl in *; congruence.
Qed.

Ltac solve_log := first [exists (@nil logev); reflexivity | eexists (_ :: nil); reflexivity | eexists (_ :: _ :: nil); reflexivity].

Definition is_close (e : event) : bool := match e with EClose => true | _ => false end.

Section Main.
  Variable tbl : gen.
  Variable nh : blockop -> bool.

  Notation step := (step tbl nh).
  Notation exec := (exec tbl nh).
  Notation reachable := (reachable tbl nh).
  Notation inv := (inv tbl).

  (* effective steps of a schedule, not counting calls of Close *)
  Fixpoint eff (s : state) (sch : list event) : nat :=
    match sch with
    | [] => 0
    | e :: r =>
        match step s e with
        | Some s' => (if is_close e then 0 else 1) + eff s' r
        | None => eff s r
        end
    end.

  (* ---------- monotone facts ---------- *)
  Lemma gstep_facts : forall s g a s', gstep tbl nh s g a = Some s' ->
    pctx s' = pctx s /\ cctx s' = cctx s /\ rpc s' = rpc s /\ out s' = out s /\
    (exists l, log s' = l ++ log s) /\
    (forall h p, h <> g -> nth_error (gs s) h = Some p -> nth_error (gs s') h = Some p).
  Proof.
    intros s g a s' H. unfold gstep in H. destruct (nth_error (gs s) g) as [pc|] eqn:N; [|discriminate].
    assert (OTHER : forall l q h p, h <> g -> nth_error l h = Some p -> nth_error (upd l g q) h = Some p).
    { intros l q h p D X. rewrite nth_error_upd_other; auto. }
    destruct pc; destruct a; try discriminate.
    - destruct (existsb _ _); [|discriminate]. destruct (spend s) as [s1|] eqn:SP; [|discriminate].
      destruct (spend_spec s s1 SP) as (A & B & C & D & E & F & G & _). inversion H; subst; simpl.
      rewrite A, B, D, E, F, G. repeat split; auto. solve_log.
    - destruct (spend s) as [s1|] eqn:SP; [|discriminate].
      destruct (spend_spec s s1 SP) as (A & B & C & D & E & F & G & _). inversion H; subst; simpl.
      rewrite A, B, D, E, F, G. repeat split; auto. solve_log.
      intros h p _ X. rewrite nth_error_app1; auto. apply nth_error_Some. congruence.
    - destruct (spend s) as [s1|] eqn:SP; [|discriminate].
      destruct (spend_spec s s1 SP) as (A & B & C & D & E & F & G & _).
      destruct cb; [destruct ret|]; inversion H; subst; simpl; rewrite A, B, D, E, F, G; repeat split; auto;
        solve_log.
    - destruct r; inversion H; subst; simpl; repeat split; auto; solve_log.
    - destruct (has_normal_alt o); inversion H; subst; simpl; repeat split; auto; solve_log.
    - destruct (is_http o); inversion H; subst; simpl; repeat split; auto; solve_log.
    - destruct (pctx s && cancel_wakes tbl nh o) eqn:PW; inversion H; subst; simpl; repeat split; auto; solve_log.
    - destruct (pctx s) eqn:PW; inversion H; subst; simpl; repeat split; auto; solve_log.
    - inversion H; subst; simpl; repeat split; auto; solve_log.
  Qed.

  Lemma step_mono : forall s e s', step s e = Some s' ->
    (pctx s = true -> pctx s' = true) /\ (cctx s = true -> cctx s' = true) /\ (exists l, log s' = l ++ log s).
  Proof.
    intros s e s' H. destruct e as [|g a|g| | | |]; simpl in H.
    - inversion H; subst; simpl. repeat split; auto. solve_log.
    - destruct (gstep_facts s g a s' H) as (A & B & _ & _ & L & _). rewrite A, B. auto.
    - destruct (rpc s); try discriminate. destruct (nth_error (gs s) g) as [[]|]; try discriminate.
      inversion H; subst; simpl. repeat split; auto. solve_log.
    - destruct (rpc s); try discriminate. destruct (cctx s) eqn:CC; [|discriminate].
      inversion H; subst; simpl. repeat split; auto. solve_log.
    - destruct (rpc s); try discriminate. inversion H; subst; simpl. repeat split; auto. solve_log.
    - destruct (rpc s); try discriminate. destruct (Nat.eqb (wg s) 0); [|discriminate].
      inversion H; subst; simpl. repeat split; auto. solve_log.
    - destruct (rpc s); try discriminate. destruct (Nat.ltb _ _); [|discriminate].
      inversion H; subst; simpl. repeat split; auto. solve_log.
  Qed.

  (* ---------- every step after the cancellation of the pool decreases the measure ---------- *)
  Theorem mu_decreases : forall s e s',
    pctx s = true -> step s e = Some s' -> is_close e = false -> mu s' < mu s.
  Proof.
    intros s e s' P H NC. unfold mu. destruct e as [|g a|g| | | |]; simpl in H; try discriminate.
    - unfold gstep in H. destruct (nth_error (gs s) g) as [pc|] eqn:N; [|discriminate].
      destruct pc; destruct a; try discriminate.
      + destruct (existsb _ _); [|discriminate]. destruct (spend s) as [s1|] eqn:SP; [|discriminate].
        destruct (spend_spec s s1 SP) as (A & B & C & D & E & F & G & Fu & _). specialize (Fu P).
        inversion H; subst; simpl. rewrite E, D.
        pose proof (ranks_upd _ _ _ (GBlocked o) N). simpl in *. lia.
      + destruct (spend s) as [s1|] eqn:SP; [|discriminate].
        destruct (spend_spec s s1 SP) as (A & B & C & D & E & F & G & Fu & _). specialize (Fu P).
        inversion H; subst; simpl. rewrite E, D, ranks_app. simpl. lia.
      + destruct (spend s) as [s1|] eqn:SP; [|discriminate].
        destruct (spend_spec s s1 SP) as (A & B & C & D & E & F & G & Fu & _). specialize (Fu P).
        destruct cb; [destruct ret|]; inversion H; subst; simpl; rewrite E, D.
        * pose proof (ranks_upd _ _ _ (GSending e) N). simpl in *. lia.
        * pose proof (ranks_upd _ _ _ GBody N). simpl in *. lia.
        * pose proof (ranks_upd _ _ _ GBody N). simpl in *. lia.
      + destruct r; inversion H; subst; simpl.
        * pose proof (ranks_upd _ _ _ (GSending e) N). simpl in *. lia.
        * pose proof (ranks_upd _ _ _ GExit N). simpl in *. lia.
      + destruct (has_normal_alt o); inversion H; subst; simpl.
        pose proof (ranks_upd _ _ _ GBody N). simpl in *. lia.
      + destruct (is_http o); inversion H; subst; simpl.
        pose proof (ranks_upd _ _ _ (GSending e) N). simpl in *. lia.
      + destruct (pctx s && cancel_wakes tbl nh o); inversion H; subst; simpl.
        pose proof (ranks_upd _ _ _ GBody N). simpl in *. lia.
      + destruct (pctx s); inversion H; subst; simpl.
        pose proof (ranks_upd _ _ _ GExit N). simpl in *. lia.
      + inversion H; subst; simpl. pose proof (ranks_upd _ _ _ GDone N). simpl in *. lia.
    - destruct (rpc s) eqn:RP; try discriminate. destruct (nth_error (gs s) g) as [[]|] eqn:N; try discriminate.
      inversion H; subst; simpl. pose proof (ranks_upd _ _ _ GExit N). simpl in *. lia.
    - destruct (rpc s) eqn:RP; try discriminate. destruct (cctx s); [|discriminate].
      inversion H; subst; simpl. lia.
    - destruct (rpc s) eqn:RP; try discriminate. inversion H; subst; simpl. lia.
    - destruct (rpc s) eqn:RP; try discriminate. destruct (Nat.eqb (wg s) 0); [|discriminate].
      inversion H; subst; simpl. lia.
    - destruct (rpc s) eqn:RP; try discriminate. destruct (Nat.ltb _ _); [|discriminate].
      inversion H; subst; simpl. lia.
  Qed.

  Lemma mu_close : forall s s', step s EClose = Some s' -> mu s' = mu s.
  Proof. intros s s' H. simpl in H. inversion H; subst. reflexivity. Qed.

  (* for ALL schedules: after the pool context is cancelled at most [mu s] further steps happen *)
  Theorem bounded_after_cancel : forall sch s,
    pctx s = true -> eff s sch + mu (exec s sch) <= mu s.
  Proof.
    induction sch as [|e sch IH]; intros s P; simpl; [lia|].
    unfold step_or_stay. destruct (step s e) as [s'|] eqn:H.
    - destruct (step_mono s e s' H) as (PM & _ & _). specialize (IH s' (PM P)).
      destruct (is_close e) eqn:C.
      + destruct e; try discriminate. rewrite (mu_close s s' H) in IH. lia.
      + pose proof (mu_decreases s e s' P H C). lia.
    - apply IH; exact P.
  Qed.

  (* ---------- progress: needs the table check and the net/http assumption ---------- *)
  Hypothesis H_tbl : all_cancellable tbl = true.
  Hypothesis H_http : forall o, carries_pool_request_ctx tbl o = true -> nh o = true.

  Lemma wakes_static_nh : forall o,
    cancel_wakes tbl (fun _ => true) o = true -> cancel_wakes tbl nh o = true.
  Proof.
    intros o H. pose proof (H_http o) as HH. unfold cancel_wakes, carries_pool_request_ctx in *.
    destruct (bo_kind o); auto.
    - destruct reqctx; auto. rewrite andb_true_r in H. rewrite H in *. rewrite HH; auto.
    - destruct reqctx; auto. rewrite andb_true_r in H. rewrite H in *. rewrite HH; auto.
  Qed.

  Lemma table_ops_ok : forallb (op_ok tbl) (g_ops tbl) = true.
  Proof.
    pose proof H_tbl as T. unfold all_cancellable in T.
    repeat (apply andb_true_iff in T; destruct T as [T _]). exact T.
  Qed.

  (* every operation a pool goroutine can be blocked in returns once the pool context is cancelled *)
  Lemma pool_ops_wake : forall o, In o (pool_ops tbl) -> cancel_wakes tbl nh o = true.
  Proof.
    intros o H. unfold pool_ops in H. apply filter_In in H. destruct H as [I P].
    pose proof table_ops_ok as T. rewrite forallb_forall in T. specialize (T o I).
    unfold op_ok in T. apply andb_true_iff in T. destruct T as [_ T]. rewrite P in T. simpl in T.
    apply wakes_static_nh. exact T.
  Qed.

  (* a bare <-ctx.Done() of the allow-list is woken by exactly the cancellation *)
  Lemma recvdone_wakes : forall o c, In o (pool_ops tbl) -> bo_kind o = KRecvDone c ->
    pool_ctx_expr tbl (bo_func o) c = true.
  Proof.
    intros o c I K. pose proof (pool_ops_wake o I) as W. unfold cancel_wakes in W. rewrite K in W. exact W.
  Qed.

  Theorem progress_after_cancel : forall s,
    inv s -> pctx s = true -> rpc s <> RDone ->
    exists e, is_close e = false /\ step s e <> None.
  Proof.
    intros s I P ND. pose proof (inv_run _ s I) as RI. unfold run_inv in RI.
    destruct (rpc s) eqn:RP; try congruence.
    - destruct RI as (X & _). congruence.
    - destruct RI as (X & _). congruence.
    - (* RWait *)
      destruct (Nat.eq_dec (wg s) 0) as [W|W].
      + exists ERunWait. split; [reflexivity|]. simpl. rewrite RP, W. simpl. discriminate.
      + rewrite (inv_wg _ s I) in W. destruct (live_pos_exists _ W) as (g & p & N & L).
        pose proof (inv_pcs _ s I) as PC. rewrite Forall_forall in PC.
        specialize (PC p (nth_error_In _ _ N)).
        destruct p; try discriminate.
        * exists (EG g (AReturn None)). split; [reflexivity|]. simpl. unfold gstep. rewrite N. discriminate.
        * exists (EG g ACancelled). split; [reflexivity|]. simpl. unfold gstep. rewrite N, P.
          simpl in PC. rewrite (pool_ops_wake o PC). simpl. discriminate.
        * exists (EG g ASendCancelled). split; [reflexivity|]. simpl. unfold gstep. rewrite N, P. discriminate.
        * exists (EG g AWgDone). split; [reflexivity|]. simpl. unfold gstep. rewrite N. discriminate.
    - (* RSend: the send never blocks *)
      destruct RI as (_ & O & _). exists ERunSend. split; [reflexivity|]. simpl. rewrite RP, O. simpl. discriminate.
  Qed.

  (* hence from every state after the cancellation some schedule of at most [mu s] effective
     steps completes the run thread; by [bounded_after_cancel] no schedule can do more *)
  Theorem terminates_after_cancel : forall n s,
    mu s <= n -> inv s -> pctx s = true ->
    exists sch, rpc (exec s sch) = RDone /\ List.length sch <= mu s.
  Proof.
    induction n as [|n IH]; intros s M I P.
    - destruct (rpc s) eqn:RP; try (unfold mu in M; rewrite RP in M; simpl in M; lia).
      exists []. simpl. auto using Nat.le_0_l.
    - destruct (rpc s) eqn:RP.
      5: { exists []. simpl. split; [exact RP|lia]. }
      all: assert (ND : rpc s <> RDone) by congruence;
        destruct (progress_after_cancel s I P ND) as (e & C & E);
        destruct (step s e) as [s'|] eqn:H; try congruence;
        pose proof (mu_decreases s e s' P H C) as D;
        destruct (step_mono s e s' H) as (PM & _ & _);
        destruct (IH s') as (sch & R & L); [lia|eapply inv_step; eauto|auto|];
        exists (e :: sch); simpl; unfold step_or_stay; rewrite H; split; [exact R|lia].
  Qed.

  (* ---------- safety statements for all schedules ---------- *)
  Lemma out_is_results : forall s, inv s -> out s = results (log s).
  Proof.
    intros s I. pose proof (inv_run _ s I) as RI. unfold run_inv in RI.
    destruct (rpc s); try (destruct RI as (_ & A & B & _); congruence).
    destruct RI as (_ & _ & v & A & B & _). congruence.
  Qed.

  Theorem one_result : forall F sch, let s := exec (init F) sch in
    out s = results (log s)
    /\ List.length (results (log s)) <= 1
    /\ (forall v, rpc s = RSend v -> step s ERunSend <> None)
    /\ (forall v, results (log s) = [v] ->
          match v with
          | RErr e => delivered (log s) = [e]
          | RTerminated => has_close (log s) = true /\ delivered (log s) = []
          end).
  Proof.
    intros F sch s. assert (I : inv s) by (apply inv_exec; apply inv_init).
    pose proof (inv_run _ s I) as RI. unfold run_inv in RI.
    split; [apply out_is_results; exact I|]. split; [|split].
    - destruct (rpc s); try (destruct RI as (_ & _ & B & _); rewrite B; simpl; lia).
      destruct RI as (_ & _ & v & _ & B & _). rewrite B. simpl. lia.
    - intros v RP. rewrite RP in RI. destruct RI as (_ & O & _). simpl. rewrite RP, O. simpl. discriminate.
    - intros v R. destruct (rpc s); try (destruct RI as (_ & _ & B & _); congruence).
      destruct RI as (_ & _ & v' & _ & B & V). assert (v' = v) by congruence. subst v'.
      unfold val_ok in V. destruct v; auto. destruct V as [C D]. split; auto. apply (inv_close _ s I C).
  Qed.

  Theorem all_joined : forall F sch, let s := exec (init F) sch in
    results (log s) <> [] -> wg s = 0 /\ all_done (gs s) = true.
  Proof.
    intros F sch s R. assert (I : inv s) by (apply inv_exec; apply inv_init).
    pose proof (inv_res _ s I R) as W. split; [exact W|].
    apply live_zero_all_done. rewrite <- (inv_wg _ s I). exact W.
  Qed.

  Theorem no_goroutine_step_after_result : forall F sch g a, let s := exec (init F) sch in
    results (log s) <> [] -> step s (EG g a) = None.
  Proof.
    intros F sch g a s R. assert (I : inv s) by (apply inv_exec; apply inv_init).
    pose proof (inv_res _ s I R) as W. rewrite (inv_wg _ s I) in W.
    simpl. unfold gstep. destruct (nth_error (gs s) g) as [p|] eqn:N; [|reflexivity].
    rewrite (live_zero_done _ _ _ W N). destruct a; reflexivity.
  Qed.

  Theorem no_callback_after : forall F sch, let s := exec (init F) sch in
    no_callback_after_result (log s) = true.
  Proof. intros F sch s. apply (inv_cb tbl). apply inv_exec. apply inv_init. Qed.

  (* ---------- errors are surfaced ---------- *)
  Lemma delivered_in : forall l g e, In (LDelivered g e) l -> In e (delivered l).
  Proof.
    induction l as [|x l IH]; intros g e H; [contradiction|]. destruct H as [H|H].
    - subst. simpl. apply in_or_app. right. left. reflexivity.
    - destruct x; simpl; try (eapply IH; eauto). apply in_or_app. left. eapply IH; eauto.
  Qed.

  Theorem delivered_is_result : forall F sch g e v, let s := exec (init F) sch in
    In (LDelivered g e) (log s) -> results (log s) = [v] -> v = RErr e.
  Proof.
    intros F sch g e v s D R. destruct (one_result F sch) as (_ & _ & _ & V). specialize (V v R).
    apply delivered_in in D. fold s in V. destruct v.
    - rewrite V in D. destruct D as [D|[]]. congruence.
    - destruct V as [_ V]. rewrite V in D. contradiction.
  Qed.

  (* a goroutine that is sending its error keeps offering it until runInner takes it or the pool
     context is cancelled (which only runInner does, after taking another error or the Close) *)
  Lemma sending_step : forall s g e ev s',
    nth_error (gs s) g = Some (GSending e) -> step s ev = Some s' ->
    nth_error (gs s') g = Some (GSending e) \/ In (LDelivered g e) (log s') \/ pctx s = true.
  Proof.
    intros s g e ev s' N H. destruct ev as [|h a|h| | | |]; simpl in H.
    - inversion H; subst; simpl. auto.
    - destruct (Nat.eq_dec h g) as [->|D].
      + unfold gstep in H. rewrite N in H. destruct a; try discriminate.
        destruct (pctx s); [auto|discriminate].
      + destruct (gstep_facts s h a s' H) as (_ & _ & _ & _ & _ & O). left. apply O; auto.
    - destruct (rpc s); try discriminate. destruct (nth_error (gs s) h) as [[]|] eqn:M; try discriminate.
      inversion H; subst; simpl. destruct (Nat.eq_dec h g) as [->|D].
      + rewrite N in M. inversion M; subst. right. left. left. reflexivity.
      + left. rewrite nth_error_upd_other; auto.
    - destruct (rpc s); try discriminate. destruct (cctx s); [|discriminate]. inversion H; subst; simpl. auto.
    - destruct (rpc s); try discriminate. inversion H; subst; simpl. auto.
    - destruct (rpc s); try discriminate. destruct (Nat.eqb (wg s) 0); [|discriminate]. inversion H; subst; simpl. auto.
    - destruct (rpc s); try discriminate. destruct (Nat.ltb _ _); [|discriminate]. inversion H; subst; simpl. auto.
  Qed.

  Theorem sending_persists : forall sch s g e,
    nth_error (gs s) g = Some (GSending e) ->
    let s2 := exec s sch in
    nth_error (gs s2) g = Some (GSending e) \/ In (LDelivered g e) (log s2) \/ pctx s2 = true.
  Proof.
    induction sch as [|ev sch IH]; intros s g e N; simpl; [auto|].
    unfold step_or_stay. destruct (step s ev) as [s'|] eqn:H; [|apply IH; exact N].
    assert (MONO : forall t, (In (LDelivered g e) (log t) \/ pctx t = true) ->
                             In (LDelivered g e) (log (exec t sch)) \/ pctx (exec t sch) = true).
    { clear. induction sch as [|x sch IH]; intros t Ht; simpl; [exact Ht|]. apply IH.
      unfold step_or_stay. destruct (step t x) as [t'|] eqn:H; [|exact Ht].
      destruct (step_mono t x t' H) as (P & _ & (l & L)). destruct Ht as [Ht|Ht]; [left|right; auto].
      rewrite L. apply in_or_app. right. exact Ht. }
    destruct (sending_step s g e ev s' N H) as [A|[A|A]].
    - apply IH; exact A.
    - right. apply MONO. left. exact A.
    - right. apply MONO. right. destruct (step_mono s ev s' H) as (P & _). auto.
  Qed.

  Theorem http_fault_sent : forall s g e s',
    step s (EG g (AFault e)) = Some s' ->
    nth_error (gs s') g = Some (GSending e) /\ In (LFault g e) (log s').
  Proof.
    intros s g e s' H. simpl in H. unfold gstep in H. destruct (nth_error (gs s) g) as [[]|] eqn:N; try discriminate.
    destruct (is_http o); inversion H; subst; simpl. split; [eapply nth_error_upd_same; eauto|left; reflexivity].
  Qed.

  Theorem ontracks_error_sent : forall s g e s',
    step s (EG g (ACallback CbOnTracks (Some e))) = Some s' ->
    nth_error (gs s') g = Some (GSending e) /\ In (LFault g e) (log s').
  Proof.
    intros s g e s' H. simpl in H. unfold gstep in H. destruct (nth_error (gs s) g) as [[]|] eqn:N; try discriminate.
    destruct (spend s) as [s1|] eqn:SP; [|discriminate].
    destruct (spend_spec s s1 SP) as (_ & _ & _ & G & _).
    inversion H; subst; simpl. split; [|left; reflexivity]. eapply nth_error_upd_same. rewrite G. eauto.
  Qed.

  (* enabledness of the run thread before the cancellation of the pool *)
  Theorem run_thread_enabled : forall s,
    (rpc s = RSelect -> cctx s = true -> step s ERunCtx <> None)
    /\ (forall g e, rpc s = RSelect -> nth_error (gs s) g = Some (GSending e) -> step s (ERunRecv g) <> None)
    /\ (forall v, rpc s = RCancel v -> step s ERunCancel <> None).
  Proof.
    intro s. repeat split.
    - intros R C. simpl. rewrite R, C. discriminate.
    - intros g e R N. simpl. rewrite R, N. discriminate.
    - intros v R. simpl. rewrite R. discriminate.
  Qed.
End Main.
