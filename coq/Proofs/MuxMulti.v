(* C16: streams, renditions and the default flag assigned by Start; structure of the multivariant
   playlist; BANDWIDTH >= AVERAGE-BANDWIDTH. *)
From Coq Require Import List ZArith Bool Lia Arith.
From GoHls Require Import Model.Mux Proofs.MuxStream Proofs.MuxLift Proofs.MuxWindow Proofs.MuxHistory Proofs.MuxPlaylist.
Import ListNotations.
Local Open Scope Z_scope.

(* ---------------------------------------------------------------- Start: one stream per track *)
Definition rd (s : stream) : bool := st_rendition s && st_default s.

Lemma mk_streams_length c ts : forall i ch n, length (mk_streams c i ts ch n) = length ts.
Proof.
  induction ts as [|t ts IH]; intros i ch n; [reflexivity|]. cbn [mk_streams].
  match goal with |- context [let '(a, b) := ?x in _] => destruct x end. simpl. now rewrite IH.
Qed.

(* every stream carries its track's attributes; rendition and leading flags as Start defines them *)
Lemma mk_streams_nth c ts : forall i ch n k s,
  nth_error (mk_streams c i ts ch n) k = Some s ->
  exists t, nth_error ts k = Some t
            /\ st_tracks s = [(i + k)%nat] /\ st_isvideo s = isVideo (t_kind t)
            /\ st_num s = Z.of_nat (i + k) + 1
            /\ st_leading s = track_leading c (i + k) t
            /\ st_rendition s = is_rend c (i + k) t
            /\ st_lang s = t_lang t
            /\ st_name s = (if is_rend c (i + k) t then t_name t else 0)
            /\ (st_rendition s = false -> st_default s = false)
            /\ st_nextSeg s = n.
Proof.
  induction ts as [|t ts IH]; intros i ch n k s H; [destruct k; discriminate|].
  cbn [mk_streams] in H.
  match type of H with context [let '(a, b) := ?x in _] => destruct x as [dflt ch'] eqn:E end.
  destruct k as [|k].
  - injection H as <-. exists t. rewrite Nat.add_0_r. cbn. repeat split; auto.
    intros Hr. rewrite Hr in E. now injection E as <- _.
  - cbn [nth_error] in H. destruct (IH _ _ _ _ _ H) as (t' & Ht & Hrest).
    exists t'. replace (i + S k)%nat with (S i + k)%nat by lia. split; [exact Ht|exact Hrest].
Qed.

(* ---- exactly one DEFAULT rendition ---- *)
Fixpoint count_rd (l : list stream) : nat :=
  match l with [] => O | s :: l' => ((if rd s then 1 else 0) + count_rd l')%nat end.

Fixpoint count_rend (c : cfg) (i : nat) (ts : list tcfg) : nat :=
  match ts with [] => O | t :: ts' => ((if is_rend c i t then 1 else 0) + count_rend c (S i) ts')%nat end.

Fixpoint count_rend_default (c : cfg) (i : nat) (ts : list tcfg) : nat :=
  match ts with
  | [] => O
  | t :: ts' => ((if is_rend c i t && t_default t then 1 else 0) + count_rend_default c (S i) ts')%nat
  end.

(* no track is marked default: the first rendition becomes the default one *)
Lemma defaults_first c ts : hasDefaultAudio c = false -> forall i ch n,
  count_rd (mk_streams c i ts ch n) =
  if ch then O else if Nat.eqb (count_rend c i ts) 0 then O else 1%nat.
Proof.
  intros Hd. induction ts as [|t ts IH]; intros i ch n; [destruct ch; reflexivity|].
  cbn [mk_streams count_rend]. rewrite Hd. cbn [negb].
  destruct (is_rend c i t) eqn:Er; cbn [count_rd rd st_rendition st_default mk_stream andb].
  - rewrite IH. destruct ch; simpl; reflexivity.
  - rewrite IH. destruct ch; simpl; reflexivity.
Qed.

(* a track is marked default: exactly the marked renditions are default *)
Lemma defaults_marked c ts : hasDefaultAudio c = true -> forall i ch n,
  count_rd (mk_streams c i ts ch n) = count_rend_default c i ts.
Proof.
  intros Hd. induction ts as [|t ts IH]; intros i ch n; [reflexivity|].
  cbn [mk_streams count_rend_default]. rewrite Hd. cbn [negb].
  destruct (is_rend c i t) eqn:Er; cbn [count_rd rd st_rendition st_default mk_stream andb]; rewrite IH; reflexivity.
Qed.

(* ---------------------------------------------------------------- the multivariant playlist *)
Lemma gen_multivariant_shape m mv :
  gen_multivariant m = Ok (Some mv) ->
  mv_renditions mv = map (fun s => {| r_isvideo := st_isvideo s; r_num := st_num s; r_name := st_name s;
                                      r_lang := st_lang s; r_default := st_default s;
                                      r_hasuri := negb (st_leading s) |})
                         (filter st_rendition (m_streams m))
  /\ mv_audio mv = existsb st_rendition (m_streams m)
  /\ mv_uri mv = match filter st_leading (m_streams m) with
                 | s :: _ => Some (st_isvideo s, st_num s) | [] => None end.
Proof.
  unfold gen_multivariant. destruct (m_streams m) as [|s0 l] eqn:Es; [discriminate|].
  destruct (negb (hasContent _ s0)); [discriminate|].
  destruct (bandwidth (st_segments s0)) as [[mx avg]|e|p]; [|discriminate|discriminate].
  intros [= <-]. cbn. auto.
Qed.

(* renditions carry a URI exactly when their stream is not the leading one *)
Lemma rendition_uri m mv r :
  gen_multivariant m = Ok (Some mv) -> In r (mv_renditions mv) ->
  exists s, In s (m_streams m) /\ st_rendition s = true /\ r_hasuri r = negb (st_leading s)
            /\ r_name r = st_name s /\ r_lang r = st_lang s /\ r_default r = st_default s.
Proof.
  intros H Hin. destruct (gen_multivariant_shape m mv H) as (Hr & _). rewrite Hr in Hin.
  apply in_map_iff in Hin. destruct Hin as (s & <- & Hs). apply filter_In in Hs. destruct Hs as [Hs1 Hs2].
  exists s. cbn. repeat split; auto.
Qed.

(* ---------------------------------------------------------------- BANDWIDTH >= AVERAGE-BANDWIDTH *)
Lemma bw_fold (l : list segrec) : forall mx sz du,
  Forall (fun g => 0 <= sg_size g /\ 0 < sg_dur g) l ->
  0 <= mx -> 0 <= sz -> 0 <= du ->
  (8 * sz * second < (mx + 1) * du \/ (sz = 0 /\ du = 0)) ->
  let MX := fold_left (fun a s => Z.max a (Z.quot (8 * sg_size s * second) (sg_dur s))) l mx in
  let SZ := fold_left (fun a s => a + sg_size s) l sz in
  let DU := fold_left (fun a s => a + sg_dur s) l du in
  mx <= MX /\ 0 <= SZ /\ du <= DU /\ (8 * SZ * second < (MX + 1) * DU \/ (SZ = 0 /\ DU = 0)).
Proof.
  induction l as [|g l IH]; intros mx sz du HF Hmx Hsz Hdu Hinv; cbn [fold_left]; [lia|].
  inversion HF as [|g' l' [Hs Hd] HF']; subst.
  set (q := Z.quot (8 * sg_size g * second) (sg_dur g)).
  assert (Hq : 0 <= q /\ 8 * sg_size g * second < (q + 1) * sg_dur g).
  { subst q. unfold second in *. rewrite Z.quot_div_nonneg by lia.
    pose proof (Z.div_mod (8 * sg_size g * 1000000000) (sg_dur g) ltac:(lia)).
    pose proof (Z.mod_pos_bound (8 * sg_size g * 1000000000) (sg_dur g) ltac:(lia)).
    split; [apply Z.div_pos; lia|nia]. }
  destruct Hq as [Hq0 Hq1].
  specialize (IH (Z.max mx q) (sz + sg_size g) (du + sg_dur g) HF' ltac:(lia) ltac:(lia) ltac:(lia)).
  assert (Hstep : 8 * (sz + sg_size g) * second < (Z.max mx q + 1) * (du + sg_dur g)
                  \/ (sz + sg_size g = 0 /\ du + sg_dur g = 0)).
  { left. destruct Hinv as [Hi|[-> ->]]; nia. }
  specialize (IH Hstep). cbv zeta in IH. lia.
Qed.

Theorem bandwidth_order segs mx avg :
  Forall (fun g => 0 <= sg_size g) segs ->
  bandwidth segs = Ok (mx, avg) -> 0 <= avg <= mx.
Proof.
  intros Hsz. unfold bandwidth. destruct segs as [|g0 segs']; [intros [= <- <-]; lia|].
  set (segs := g0 :: segs') in *.
  set (real := filter (fun s => negb (sg_gap s) && (0 <? sg_dur s)) segs).
  assert (HF : Forall (fun g => 0 <= sg_size g /\ 0 < sg_dur g) real).
  { subst real. apply Forall_forall. intros g Hg. apply filter_In in Hg. destruct Hg as [Hin Hc].
    apply andb_true_iff in Hc. destruct Hc as [_ Hd]. apply Z.ltb_lt in Hd.
    rewrite Forall_forall in Hsz. split; auto. }
  destruct (bw_fold real 0 0 0 HF ltac:(lia) ltac:(lia) ltac:(lia) ltac:(right; lia)) as (H1 & H2 & H3 & H4).
  cbv zeta in *.
  set (MX := fold_left (fun a s => Z.max a (Z.quot (8 * sg_size s * second) (sg_dur s))) real 0) in *.
  set (SZ := fold_left (fun a s => a + sg_size s) real 0) in *.
  set (DU := fold_left (fun a s => a + sg_dur s) real 0) in *.
  assert (Hnum : Z.quot (8 * SZ * second) DU = (8 * SZ * second) / DU \/ DU <= 0).
  { destruct (Z_le_gt_dec DU 0); [right; lia|left]. apply Z.quot_div_nonneg; unfold second; lia. }
  remember (Z.quot (8 * SZ * second) DU) as qq eqn:Eqq.
  destruct (DU <=? 0) eqn:Ed; intros Heq; injection Heq as <- <-; [lia|].
  apply Z.leb_gt in Ed. destruct Hnum as [Hnum|Hnum]; [|lia]. rewrite Hnum. unfold second in *.
  destruct H4 as [H4|[_ H4]]; [|lia].
  split; [apply Z.div_pos; lia|]. apply Z.lt_succ_r. apply Z.div_lt_upper_bound; lia.
Qed.

(* ---------------------------------------------------------------- what Start builds *)
Lemma start_streams c m :
  start c = Ok m ->
  m_streams m =
  match c_variant c with
  | MPEGTS => [mk_stream (seq 0 (length (c_tracks c))) false 0 true false false 0 0 0]
  | FMP4 => mk_streams (norm_cfg c) 0 (c_tracks c) false 0
  | LL => mk_streams (norm_cfg c) 0 (c_tracks c) false 7
  end.
Proof.
  unfold start. destruct (negb (start_ok (norm_cfg c))); [discriminate|]. intros [= <-].
  cbn [m_streams]. change (c_variant (norm_cfg c)) with (c_variant c). destruct (c_variant c); reflexivity.
Qed.

(* the static attributes of every stream never change along a history *)
Lemma static_along_history m ops si s0 :
  nth_error (m_streams m) si = Some s0 ->
  exists s, nth_error (m_streams (mux_run m ops)) si = Some s
            /\ st_isvideo s = st_isvideo s0 /\ st_num s = st_num s0 /\ st_leading s = st_leading s0
            /\ st_rendition s = st_rendition s0 /\ st_default s = st_default s0
            /\ st_name s = st_name s0 /\ st_lang s = st_lang s0 /\ st_tracks s = st_tracks s0.
Proof.
  intros Hn. pose proof (history_monotone m ops) as HF.
  revert si Hn. induction HF as [|x y l1 l2 Hxy HF IH]; intros si Hn; [destruct si; discriminate|].
  destruct si; simpl in *.
  - injection Hn as ->. exists y. split; [reflexivity|].
    destruct (r_static _ _ Hxy) as (a1 & a2 & a3 & a4 & a5 & a6 & a7 & a8). repeat split; auto.
  - apply IH. exact Hn.
Qed.
