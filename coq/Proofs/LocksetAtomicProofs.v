(* Proofs about Model/LocksetAtomic.v: every response is the generator applied to ONE state of the
   writer's history, and one requester's responses walk that history forwards. *)
From Coq Require Import List Arith Lia Sorting.Sorted.
From GoHls Require Import Model.LocksetAtomic.
Import ListNotations.

Section AtomicProofs.
  Variables (S R : Type).
  Variable gen : S -> R.

  Lemma run_spec : forall steps cur idx pre,
    length pre = idx ->
    forall r n resp, In (r, n, resp) (run S R gen cur idx steps) ->
      idx <= n /\ exists s, nth_error (pre ++ cur :: history_from S steps) n = Some s /\ resp = gen s.
  Proof.
    induction steps as [|st rest IH]; intros cur idx pre Hlen r n resp Hin; simpl in Hin.
    - contradiction.
    - destruct st as [s'|r0]; simpl.
      + specialize (IH s' (Datatypes.S idx) (pre ++ [cur])).
        rewrite app_length in IH. simpl in IH.
        destruct (IH ltac:(lia) r n resp Hin) as [Hle (s & Hn & Hr)].
        split; [lia|]. exists s. rewrite <- app_assoc in Hn. simpl in Hn. auto.
      + destruct Hin as [Heq|Hin].
        * inversion Heq; subst. split; [lia|]. exists cur. split; [|reflexivity].
          rewrite nth_error_app2 by lia. rewrite Nat.sub_diag. reflexivity.
        * apply (IH cur idx pre Hlen r n resp Hin).
  Qed.

  (* every response is generated from one state of the history *)
  Theorem atomic_view : forall s0 steps r n resp,
    In (r, n, resp) (responses S R gen s0 steps) ->
    exists s, nth_error (history S s0 steps) n = Some s /\ resp = gen s.
  Proof.
    intros s0 steps r n resp Hin. unfold responses in Hin.
    destruct (run_spec steps s0 0 [] eq_refl r n resp Hin) as [_ H]. exact H.
  Qed.

  (* hence a single-response invariant of every reachable state holds for every response *)
  Theorem atomic_view_invariant : forall (I : R -> Prop) s0 steps,
    (forall s, In s (history S s0 steps) -> I (gen s)) ->
    forall r n resp, In (r, n, resp) (responses S R gen s0 steps) -> I resp.
  Proof.
    intros I s0 steps Hinv r n resp Hin.
    destruct (atomic_view s0 steps r n resp Hin) as (s & Hn & ->).
    apply Hinv. eapply nth_error_In; eauto.
  Qed.

  Lemma run_lower : forall steps cur idx e,
    In e (run S R gen cur idx steps) -> idx <= snd (fst e).
  Proof.
    intros steps cur idx [[r n] resp] Hin.
    destruct (run_spec steps cur idx (repeat cur idx) (repeat_length cur idx) r n resp Hin) as [H _].
    exact H.
  Qed.

  Lemma run_sorted : forall steps cur idx,
    StronglySorted le (indices R (run S R gen cur idx steps)).
  Proof.
    induction steps as [|st rest IH]; intros cur idx; simpl.
    - constructor.
    - destruct st as [s'|r0]; simpl.
      + apply IH.
      + constructor; [apply IH|].
        apply Forall_forall. intros n Hn. unfold indices in Hn.
        apply in_map_iff in Hn. destruct Hn as (e & <- & He).
        eapply run_lower; eauto.
  Qed.

  Lemma sorted_filter : forall (p : nat * nat * R -> bool) log,
    StronglySorted le (indices R log) -> StronglySorted le (indices R (filter p log)).
  Proof.
    induction log as [|e log IH]; intros Hs; simpl.
    - constructor.
    - simpl in Hs. inversion Hs as [|x l Hs' Hall]; subst.
      destruct (p e); simpl.
      + constructor; [apply IH; assumption|].
        apply Forall_forall. intros n Hn.
        rewrite Forall_forall in Hall. apply Hall.
        unfold indices in *. apply in_map_iff in Hn. destruct Hn as (e' & <- & He').
        apply filter_In in He'. apply in_map_iff. exists e'. split; [reflexivity|tauto].
      + apply IH; assumption.
  Qed.

  (* one requester's successive responses observe states in history order *)
  Theorem monotone_view : forall s0 steps r,
    StronglySorted le (indices R (of_requester R r (responses S R gen s0 steps))).
  Proof.
    intros s0 steps r. unfold of_requester. apply sorted_filter. apply run_sorted.
  Qed.

  (* hence a relation that holds along the history (reflexive, and between any earlier and later
     state) holds between successive responses of one requester *)
  Theorem monotone_view_relation : forall (Q : R -> R -> Prop) s0 steps,
    (forall i j si sj, i <= j -> nth_error (history S s0 steps) i = Some si ->
                       nth_error (history S s0 steps) j = Some sj -> Q (gen si) (gen sj)) ->
    forall r l1 e1 e2 l2,
      of_requester R r (responses S R gen s0 steps) = l1 ++ e1 :: e2 :: l2 ->
      Q (snd e1) (snd e2).
  Proof.
    intros Q s0 steps HQ r l1 e1 e2 l2 Heq.
    pose proof (monotone_view s0 steps r) as Hs. rewrite Heq in Hs.
    unfold indices in Hs. rewrite map_app in Hs. simpl in Hs.
    assert (Hle : snd (fst e1) <= snd (fst e2)).
    { clear -Hs. induction (map (fun e : nat * nat * R => snd (fst e)) l1) as [|x l IH]; simpl in Hs.
      - inversion Hs as [|? ? _ Hall]; subst. inversion Hall; subst. assumption.
      - inversion Hs; subst. apply IH. assumption. }
    assert (Hin1 : In e1 (responses S R gen s0 steps)).
    { assert (H : In e1 (of_requester R r (responses S R gen s0 steps))).
      { rewrite Heq. apply in_or_app. right. left. reflexivity. }
      unfold of_requester in H. apply filter_In in H. tauto. }
    assert (Hin2 : In e2 (responses S R gen s0 steps)).
    { assert (H : In e2 (of_requester R r (responses S R gen s0 steps))).
      { rewrite Heq. apply in_or_app. right. right. left. reflexivity. }
      unfold of_requester in H. apply filter_In in H. tauto. }
    destruct e1 as [[r1 n1] b1]. destruct e2 as [[r2 n2] b2]. simpl in *.
    destruct (atomic_view s0 steps r1 n1 b1 Hin1) as (s1 & Hn1 & ->).
    destruct (atomic_view s0 steps r2 n2 b2 Hin2) as (s2 & Hn2 & ->).
    eapply HQ; eauto.
  Qed.
End AtomicProofs.

(* The hypotheses of the two implication-shaped theorems are satisfiable: states are media
   sequence numbers, the generator shows the number, the writer advances it, two requesters read. *)
Definition ex_steps : list (@step nat) := [RGen 1; WStep 1; RGen 1; RGen 2; WStep 3; RGen 1].

Example atomic_example_invariant :
  (forall s, In s (history nat 0 ex_steps) -> (fun r => r <= 3) ((fun s => s) s)) /\
  responses nat nat (fun s => s) 0 ex_steps = [(1, 0, 0); (1, 1, 1); (2, 1, 1); (1, 2, 3)].
Proof.
  split; [|reflexivity].
  intros s H. simpl in H. repeat (destruct H as [<-|H]; [lia|]). contradiction.
Qed.

Example atomic_example_relation :
  (forall i j si sj, i <= j -> nth_error (history nat 0 ex_steps) i = Some si ->
                     nth_error (history nat 0 ex_steps) j = Some sj -> si <= sj) /\
  of_requester nat 1 (responses nat nat (fun s => s) 0 ex_steps) = [(1, 0, 0); (1, 1, 1); (1, 2, 3)].
Proof.
  split; [|reflexivity].
  intros i j si sj Hle Hi Hj. simpl in Hi, Hj.
  destruct i as [|[|[|i]]]; destruct j as [|[|[|j]]]; simpl in Hi, Hj;
    try lia; try discriminate; try (inversion Hi; inversion Hj; subst; lia);
    try (destruct i; discriminate); try (destruct j; discriminate).
Qed.
