(* C09 - lemmas of the muxer/client composition (Model/E2E.v). Existing lemmas of the muxer model
   (Proofs/Mux*.v) and of the client models (Proofs/ClientTime*.v) are imported, not re-proved. *)
From Coq Require Import List ZArith Bool String Lia Arith.
From GoHls Require Model.Mux Model.ClientContent.
From GoHls Require Import Model.ClientTime Model.E2E.
From GoHls Require Proofs.MuxSamples Proofs.MuxMulti Proofs.MuxStream.
From GoHls Require Import Proofs.ClientTimeArith Proofs.ClientTimeDecode Proofs.ClientTimeFMP4
  Proofs.ClientTimeMain.
Import ListNotations.
Local Open Scope Z_scope.

(* ================================================================ time: the +10 s offset cancels *)

(* the muxer's offset is 10 s in the track's own clock (MuxSamples.start_offset) *)
Lemma container_dts_eq d r : 0 <= r -> container_dts d r = d + 10 * r.
Proof. intros H. unfold container_dts. now rewrite MuxSamples.start_offset. Qed.

(* fMP4 variants: unit written with dts d (track clock r), first delivered leading unit written with
   dts d0 (clock rl): the client delivers d - floor(d0 * r / rl), exactly. The hypothesis
   0 <= d0 + 10 rl is the muxer's acceptance test (fmp4WriteSample drops a unit whose dts + 10 s < 0). *)
Lemma offset_cancels d d0 r rl :
  0 < r -> 0 < rl -> 0 <= d0 + 10 * rl ->
  e2e_norm_fmp4 r rl d d0 = Ok (d - d0 * r / rl).
Proof.
  intros Hr Hrl Hacc. unfold e2e_norm_fmp4.
  rewrite !container_dts_eq by lia.
  rewrite fmp4_convert_floor by lia. f_equal.
  replace ((d0 + 10 * rl) * r) with (d0 * r + (10 * r) * rl) by ring.
  rewrite Z.div_add by lia. ring.
Qed.

(* the floor conversion of the origin loses less than one tick of the track's clock:
   0 <= d0/rl - floor(d0 r/rl)/r < 1/r, denominators cleared *)
Lemma origin_floor_error d0 r rl : 0 < rl -> 0 <= d0 * r - (d0 * r / rl) * rl < rl.
Proof.
  intros Hrl. pose proof (Z.mul_div_le (d0 * r) rl Hrl). pose proof (Z.mul_succ_div_gt (d0 * r) rl Hrl). lia.
Qed.

(* on the leading track itself (and on any track with the leading track's clock) nothing is lost *)
Lemma offset_cancels_same_clock d d0 r :
  0 < r -> 0 <= d0 + 10 * r -> e2e_norm_fmp4 r r d d0 = Ok (d - d0).
Proof.
  intros Hr Hacc. rewrite offset_cancels by lia. f_equal. rewrite Z.div_mul by lia. reflexivity.
Qed.

(* MPEG-TS: the muxer writes t = mulDiv(ts, 90000, rate) modulo 2^33; the shared TimeDecoder, fed the
   leading track's first value and then any sequence of values whose consecutive true distances stay
   below 2^32 ticks, returns e2e_norm_mpegts (ClientTimeDecode.mpegts_unwrap) *)
Lemma offset_cancels_mpegts d0 rl (units : list (Z * Z)) :
  let t0 := Mux.mulDiv d0 90000 rl in
  let ts := map (fun u => Mux.mulDiv (fst u) 90000 (snd u)) units in
  gaps_ok t0 ts ->
  decode_all td_zero (map wrap33 (t0 :: ts))
  = 0 :: map (fun u => e2e_norm_mpegts (snd u) rl (fst u) d0) units.
Proof.
  intros t0 ts G. rewrite (mpegts_unwrap t0 ts G). cbn [map]. f_equal; [lia|].
  subst ts. rewrite map_map. apply map_ext. intros u. unfold e2e_norm_mpegts. reflexivity.
Qed.

(* ================================================================ codec strings and checkSupport *)

(* since fix 8f9d4a5 every string codecparams.Marshal produces for one of the six codecs passes *)
Lemma codec_supported_all k sfx : ClientContent.codec_supported (codec_string k sfx) = true.
Proof. destruct k; destruct sfx; reflexivity. Qed.

Lemma checkSupport_strings (sfx : Mux.ckind * Z -> string) l :
  ClientContent.checkSupport (map (fun c => codec_string (fst c) (sfx c)) l) = true.
Proof.
  unfold ClientContent.checkSupport. induction l as [|c l IH]; [reflexivity|].
  cbn [map forallb]. now rewrite codec_supported_all, IH.
Qed.

(* checkSupport still discriminates: a string of another codec family fails the whole variant *)
Lemma checkSupport_rejects_others :
  ClientContent.checkSupport ["avc1.640028"; "ac-3"]%string = false /\ ClientContent.checkSupport ["mp4v.20.9"]%string = false.
Proof. split; reflexivity. Qed.

(* ================================================================ which streams the client opens *)

Definition rendition_res (r : Mux.mvrend) : bool * option nat := (false, Some (Z.to_nat (Mux.r_num r - 1))).
Definition leading_res (mv : Mux.multivariant) : nat :=
  match Mux.mv_uri mv with Some (_, num) => Z.to_nat (num - 1) | None => Z.to_nat (0 - 1) end.

Lemma getRenditions_all sfx mv :
  ClientContent.getRenditionsByGroup (ClientContent.mv_renditions (umulti_of sfx mv)) "audio"
  = ClientContent.Ok (map (fun r => {| ClientContent.r_groupID := "audio"%string;
                                       ClientContent.r_uri := if Mux.r_hasuri r then Some (stream_uri (Mux.r_num r))
                                                              else None |}) (Mux.mv_renditions mv)).
Proof.
  unfold umulti_of. cbn [ClientContent.mv_renditions].
  induction (Mux.mv_renditions mv) as [|r l IH]; [reflexivity|].
  cbn [map ClientContent.getRenditionsByGroup ClientContent.deref ClientContent.bind].
  rewrite IH. cbn [ClientContent.bind ClientContent.r_groupID]. reflexivity.
Qed.

Lemma rendition_streams_spec l :
  ClientContent.rendition_streams
    (map (fun r => {| ClientContent.r_groupID := "audio"%string;
                      ClientContent.r_uri := if Mux.r_hasuri r then Some (stream_uri (Mux.r_num r)) else None |}) l)
  = ClientContent.Ok (map rendition_res (filter Mux.r_hasuri l)).
Proof.
  induction l as [|r l IH]; [reflexivity|].
  cbn [map ClientContent.rendition_streams ClientContent.r_uri filter].
  destruct (Mux.r_hasuri r).
  - cbn [ClientContent.clientAbsoluteURL stream_uri ClientContent.u_parse_ok ClientContent.u_res ClientContent.bind].
    rewrite IH. reflexivity.
  - exact IH.
Qed.

(* the single variant of the muxer's multivariant playlist is always a candidate *)
Lemma client_streams_supported sfx mv :
  (Mux.mv_audio mv = true -> Mux.mv_renditions mv <> []) ->
  (Mux.mv_audio mv = false -> Mux.mv_renditions mv = []) ->
  client_streams sfx mv
  = ClientContent.Ok ((true, Some (leading_res mv)) :: map rendition_res (filter Mux.r_hasuri (Mux.mv_renditions mv))).
Proof.
  intros Ha Hn. unfold client_streams, ClientContent.primary_streams, ClientContent.pickLeadingPlaylist.
  unfold umulti_of at 1. cbn [ClientContent.mv_variants ClientContent.candidates ClientContent.deref ClientContent.bind ClientContent.v_codecs].
  rewrite checkSupport_strings. cbn [ClientContent.greatest ClientContent.bind ClientContent.v_uri ClientContent.v_audio].
  assert (EU : ClientContent.clientAbsoluteURL
                 (match Mux.mv_uri mv with Some (_, num) => stream_uri num | None => stream_uri 0 end)
               = ClientContent.Ok (leading_res mv)).
  { unfold leading_res. destruct (Mux.mv_uri mv) as [[b num]|]; reflexivity. }
  rewrite EU. cbn [ClientContent.bind].
  destruct (Mux.mv_audio mv) eqn:A.
  - change (String.eqb "audio" "") with false. cbv iota.
    rewrite getRenditions_all. cbn [ClientContent.bind].
    specialize (Ha eq_refl). destruct (Mux.mv_renditions mv) as [|r l] eqn:E; [congruence|].
    rewrite <- E. rewrite rendition_streams_spec.
    rewrite E. cbn [map]. rewrite <- E. reflexivity.
  - change (String.eqb "" "") with true. cbv iota. rewrite (Hn eq_refl). reflexivity.
Qed.

(* the shape facts the previous lemma needs hold for every multivariant playlist the muxer model
   generates (MuxMulti.gen_multivariant_shape) *)
Lemma existsb_filter_nil {A} (f : A -> bool) l : existsb f l = negb (match filter f l with [] => true | _ => false end).
Proof. induction l as [|x l IH]; [reflexivity|]. cbn. destruct (f x); cbn; auto. Qed.

Lemma gen_multivariant_audio m mv :
  Mux.gen_multivariant m = Mux.Ok (Some mv) ->
  (Mux.mv_audio mv = true -> Mux.mv_renditions mv <> []) /\ (Mux.mv_audio mv = false -> Mux.mv_renditions mv = []).
Proof.
  intros H. destruct (MuxMulti.gen_multivariant_shape m mv H) as (Hr & Ha & _).
  rewrite Hr, Ha, existsb_filter_nil.
  destruct (filter Mux.st_rendition (Mux.m_streams m)); cbn; split; intros; congruence.
Qed.

(* the renditions with a URI are exactly the non-leading rendition streams, in stream order *)
Lemma gen_multivariant_uri_renditions m mv :
  Mux.gen_multivariant m = Mux.Ok (Some mv) ->
  map rendition_res (filter Mux.r_hasuri (Mux.mv_renditions mv))
  = map (fun s => (false, Some (Z.to_nat (Mux.st_num s - 1))))
        (filter (fun s => Mux.st_rendition s && negb (Mux.st_leading s)) (Mux.m_streams m)).
Proof.
  intros H. destruct (MuxMulti.gen_multivariant_shape m mv H) as (Hr & _ & _). rewrite Hr. clear Hr H.
  induction (Mux.m_streams m) as [|s l IH]; [reflexivity|].
  cbn [filter]. destruct (Mux.st_rendition s); cbn [andb map filter Mux.r_hasuri]; [|exact IH].
  destruct (Mux.st_leading s); cbn [negb map]; [exact IH|]. rewrite IH. reflexivity.
Qed.

(* ================================================================ tracks *)

Lemma FromFMP4_ToFMP4 k : ClientContent.FromFMP4 (ToFMP4 k) = Some (gkind k).
Proof. destruct k; reflexivity. Qed.

Lemma FromMPEGTS_ToMPEGTS k :
  ClientContent.FromMPEGTS (ToMPEGTS k) = match k with Mux.H264 | Mux.AAC => Some (gkind k) | _ => None end.
Proof. destruct k; reflexivity. Qed.

(* every stream Start creates for the fMP4 variants that is not the leading one is advertised as a
   rendition (isRendition := !track.isLeading || ..): so each stream the client opens as a rendition
   has an EXT-X-MEDIA entry, whose attributes the client copies *)
Lemma nonleading_is_rendition c ts : forall i ch n k s,
  nth_error (Mux.mk_streams c i ts ch n) k = Some s -> Mux.st_leading s = false -> Mux.st_rendition s = true.
Proof.
  intros i ch n k s H L.
  destruct (MuxMulti.mk_streams_nth c ts i ch n k s H) as (t & _ & _ & _ & _ & Hl & Hr & _).
  rewrite Hr. unfold Mux.is_rend. rewrite <- Hl, L. reflexivity.
Qed.

Lemma rendition_attrs_copied s :
  Mux.st_rendition s = true -> Some (client_attrs false s) = advertised_attrs s.
Proof. intros H. unfold advertised_attrs, client_attrs. now rewrite H. Qed.

(* ================================================================ content: muxer records -> client *)

(* container-order units of a muxer part / segment as the client sees them: (container dts, sample) *)
Definition part_units (p : Mux.part) : list (Z * ClientTime.sample) :=
  if Mux.p_hastrack p then annotate (Mux.p_base p) (map to_sample (Mux.p_samples p)) else [].
Definition seg_units (g : Mux.segrec) : list (Z * ClientTime.sample) := flat_map part_units (Mux.sg_parts g).

Definition init1 (r : Z) (isv : bool) : list initTrack :=
  [{| it_id := 1; it_timeScale := r; it_isVideo := isv |}].

Lemma lookupProc_init1 r isv : lookupProc (init1 r isv) 1 = Some (O, r).
Proof. reflexivity. Qed.

Lemma segment_units_to_segment r isv date g :
  segment_units (init1 r isv) 0 (to_segment date g) = seg_units g.
Proof.
  unfold segment_units, seg_units, to_segment. cbn [ClientTime.sg_parts].
  induction (Mux.sg_parts g) as [|p ps IH]; [reflexivity|].
  cbn [map List.concat flat_map]. rewrite flat_map_app, IH. f_equal.
  unfold to_part, part_units. destruct (Mux.p_hastrack p); [|reflexivity].
  cbn [flat_map]. unfold partTrack_units. cbn [pt_id]. rewrite lookupProc_init1.
  cbn [Nat.eqb pt_baseTime pt_samples]. now rewrite app_nil_r.
Qed.

Lemma stream_units_to_stream r isv segs :
  stream_units (init1 r isv) 0 (ClientTime.st_segments (to_stream r isv segs))
  = flat_map (fun x => seg_units (snd x)) segs.
Proof.
  unfold stream_units, to_stream. cbn [ClientTime.st_segments].
  induction segs as [|x l IH]; [reflexivity|].
  cbn [map flat_map]. now rewrite segment_units_to_segment, IH.
Qed.

Lemma wf_init1 r isv : 0 < r -> wf_init (init1 r isv).
Proof. intros H. unfold wf_init, init1. constructor; [exact H|constructor]. Qed.

Definition bases_nonneg (segs : list (option Z * Mux.segrec)) : Prop :=
  forall x p, In x segs -> In p (Mux.sg_parts (snd x)) -> 0 <= Mux.p_base p.

Lemma wf_segs_to_stream r isv segs :
  bases_nonneg segs -> wf_segs (ClientTime.st_segments (to_stream r isv segs)).
Proof.
  intros B seg p pt Hs Hp Hpt. unfold to_stream in Hs. cbn [ClientTime.st_segments] in Hs.
  apply in_map_iff in Hs. destruct Hs as (x & <- & Hx).
  unfold to_segment in Hp. cbn [ClientTime.sg_parts] in Hp.
  apply in_map_iff in Hp. destruct Hp as (q & <- & Hq).
  unfold to_part in Hpt. destruct (Mux.p_hastrack q); [|contradiction].
  destruct Hpt as [<-|[]]. cbn [pt_baseTime]. eauto.
Qed.

(* segments without tracks carry no unit, and skipping them changes nothing else *)
Lemma seg_is_empty_concat s : seg_is_empty s = true -> List.concat (ClientTime.sg_parts s) = [].
Proof.
  unfold seg_is_empty. induction (ClientTime.sg_parts s) as [|p r IH]; [reflexivity|].
  cbn [forallb List.concat]. intros H. apply andb_true_iff in H. destruct H as [Hp Hr].
  destruct p; [|discriminate]. cbn [app]. now apply IH.
Qed.

Lemma stream_units_skip_empty init j segs : forall b,
  stream_units init j (skip_empty b segs) = stream_units init j segs.
Proof.
  unfold stream_units. induction segs as [|s r IH]; intros b; [reflexivity|].
  cbn [skip_empty flat_map].
  destruct (seg_is_empty s) eqn:E.
  - assert (U : segment_units init j s = []) by (unfold segment_units; now rewrite (seg_is_empty_concat s E)).
    rewrite U. cbn [app]. destruct b; [apply IH|]. cbn [flat_map]. now rewrite U, IH.
  - cbn [flat_map]. now rewrite IH.
Qed.

Lemma skip_empty_incl segs : forall b s, In s (skip_empty b segs) -> In s segs.
Proof.
  induction segs as [|x r IH]; intros b s H; [exact H|]. cbn [skip_empty] in H.
  destruct (seg_is_empty x); [destruct b|]; cbn [In] in *; try (destruct H as [H|H]); eauto.
Qed.

Lemma wf_segs_view isL st : wf_segs (ClientTime.st_segments st) -> wf_segs (ClientTime.st_segments (client_view isL st)).
Proof.
  intros W seg p pt Hs. apply W. unfold client_view in Hs. cbn [ClientTime.st_segments] in Hs.
  eapply skip_empty_incl; eauto.
Qed.

(* A client that downloads the segments [segs] (whole segments, or single parts) of a single-track muxer
   stream as its leading playlist - [client_view]: trackless ones are skipped once the stream has started -
   delivers exactly the samples of those segments, in container order, each once, normalised by the origin
   (C10's delivery theorem instantiated on the muxer's records). *)
Lemma units_leading r isv segs out conv h :
  0 < r -> bases_nonneg segs ->
  runLeadingFMP4 (client_view true (to_stream r isv segs)) = Ok (out, Some conv, h) ->
  map dkey (proj 0 out) = filter keepk (map (norm conv r) (flat_map (fun x => seg_units (snd x)) segs))
  /\ leadingTimeScale conv = r.
Proof.
  intros Hr B H.
  pose proof (wf_segs_view true _ (wf_segs_to_stream r isv segs B)) as Wv.
  split.
  - rewrite <- (stream_units_to_stream r isv segs).
    rewrite <- (stream_units_skip_empty (init1 r isv) 0 (ClientTime.st_segments (to_stream r isv segs)) false).
    apply (fmp4_leading_delivers (client_view true (to_stream r isv segs)) out (Some conv) h conv 0%nat
             {| it_id := 1; it_timeScale := r; it_isVideo := isv |});
      [exact (wf_init1 r isv Hr) | exact Wv | exact H | reflexivity | reflexivity].
  - destruct (runLeadingFMP4_spec (client_view true (to_stream r isv segs)) out (Some conv) h
                (wf_init1 r isv Hr) Wv H) as (lid & Hl & Ho & _).
    cbn in Hl. assert (lid = 1) by (destruct isv; cbn in Hl; congruence). subst lid.
    unfold origin in Ho.
    destruct (ClientTime.st_segments (client_view true (to_stream r isv segs))) as [|sg rest]; [discriminate|].
    destruct (findFirstPartTrackOfLeadingTrack (ClientTime.sg_parts sg) 1); [|discriminate].
    injection Ho as ->. reflexivity.
Qed.

(* the same as a rendition (the converter is the leading stream's; every trackless part is skipped) *)
Lemma units_rendition r isv segs conv hist out :
  0 < r -> wf_conv conv -> Forall ntp_ok hist ->
  runRenditionFMP4 (Some conv) hist (client_view false (to_stream r isv segs)) = Ok out ->
  map dkey (proj 0 out) = filter keepk (map (norm conv r) (flat_map (fun x => seg_units (snd x)) segs)).
Proof.
  intros Hr Wc Wh H. rewrite <- (stream_units_to_stream r isv segs).
  rewrite <- (stream_units_skip_empty (init1 r isv) 0 (ClientTime.st_segments (to_stream r isv segs)) true).
  apply (fmp4_rendition_delivers conv hist (client_view false (to_stream r isv segs)) out
           {| it_id := 1; it_timeScale := r; it_isVideo := isv |});
    [exact (wf_init1 r isv Hr) | exact Wc | exact Wh | exact H | reflexivity].
Qed.

(* a rendition part into which no sample fell does not stop the client any more (finding F21, fixed): in
   what a rendition's stream processor acts on, every segment holds data of the stream's track, so the
   "could not find data of leading track" branch of runRenditionSegs is never taken *)
Lemma skip_empty_started_nonempty segs : forall s, In s (skip_empty true segs) -> seg_is_empty s = false.
Proof.
  induction segs as [|x r IH]; intros s H; [destruct H|]. cbn [skip_empty] in H.
  destruct (seg_is_empty x) eqn:E; [auto|]. destruct H as [<-|H]; auto.
Qed.

Lemma to_segment_has_leading date g :
  seg_is_empty (to_segment date g) = false ->
  findFirstPartTrackOfLeadingTrack (ClientTime.sg_parts (to_segment date g)) 1 <> None.
Proof.
  unfold seg_is_empty, to_segment. cbn [ClientTime.sg_parts].
  induction (Mux.sg_parts g) as [|p ps IH]; [discriminate|].
  cbn [map forallb findFirstPartTrackOfLeadingTrack]. unfold to_part at 1 3.
  destruct (Mux.p_hastrack p); cbn; [discriminate|]. exact IH.
Qed.

Lemma rendition_view_has_leading r isv segs s :
  In s (ClientTime.st_segments (client_view false (to_stream r isv segs))) ->
  findFirstPartTrackOfLeadingTrack (ClientTime.sg_parts s) 1 <> None.
Proof.
  unfold client_view, to_stream. cbn [ClientTime.st_segments negb]. intros H.
  pose proof (skip_empty_started_nonempty _ _ H) as E.
  apply skip_empty_incl in H. apply in_map_iff in H. destruct H as (x & <- & _).
  now apply to_segment_has_leading.
Qed.

(* with the origin at the container time of the first delivered leading unit (written dts d0, clock rl),
   a sample the muxer emitted for a unit written with dts d (clock r) is delivered with
   dts = d - floor(d0 r / rl) and pts = that + (pts - dts as written) *)
Lemma norm_written d d0 r rl (s : ClientTime.sample) :
  0 < r -> 0 < rl -> 0 <= d0 + 10 * rl ->
  norm {| leadingTimeScale := rl; leadingBaseTime := container_dts d0 rl |} r (container_dts d r, s)
  = (d - d0 * r / rl + s_ptsOffset s, d - d0 * r / rl, s_payload s).
Proof.
  intros Hr Hrl Hacc. unfold norm. cbn [fst snd leadingBaseTime leadingTimeScale].
  pose proof (offset_cancels d d0 r rl Hr Hrl Hacc) as E. unfold e2e_norm_fmp4 in E.
  rewrite fmp4_convert_floor in E by (rewrite ?container_dts_eq; lia).
  injection E as E. rewrite E. reflexivity.
Qed.

(* ================================================================ AbsoluteTime *)

(* the date the muxer model attaches to a segment in a media playlist is the NTP value recorded
   when the segment was opened *)
Lemma gen_segs_date v n segs : forall e x,
  In e (Mux.gen_segs v n segs) -> Mux.ps_dt e = Some x ->
  exists g, In g segs /\ Mux.sg_gap g = false /\ Mux.ps_id e = Mux.sg_id g /\ x = Mux.sg_ntp g.
Proof.
  induction segs as [|g segs IH]; intros e x Hin Hd; [destruct Hin|].
  cbn [Mux.gen_segs] in Hin. destruct Hin as [He|Hin].
  - subst e. destruct (Mux.sg_gap g) eqn:G; cbn [Mux.ps_dt Mux.ps_id] in *; [discriminate|].
    exists g. split; [left; reflexivity|]. split; [exact G|]. split; [reflexivity|].
    destruct v; [congruence| |]; destruct (Nat.leb _ 2); congruence.
  - destruct (IH e x Hin Hd) as (g' & ? & ? & ? & ?). exists g'. repeat split; auto. right; auto.
Qed.

(* a unit dts ticks into the stream (normalised), in a part whose converted base is pd, anchored by a
   segment date dt at the converted base T of the segment's first leading part track, all in one
   clock r: AbsoluteTime = dt + (dts - T) ticks, to 2 ns *)
Lemma abs_time_same_clock dt T pd dts r :
  0 < r ->
  let n := fmp4_setNTP dt T r in
  exists v, spec_getNTP n pd r = Some v /\
            let abs := v + Z.quot ((dts - pd) * second) r in
            - 2 * r < (abs - dt) * r - (dts - T) * second < 2 * r.
Proof.
  intros Hr n. unfold spec_getNTP, n, fmp4_setNTP. cbn [ntpAvailable ntpValue ntpTimestamp ntpClockRate].
  eexists. split; [reflexivity|]. cbv zeta.
  rewrite Z.quot_mul by lia.
  pose proof (quot_bounds ((pd - T) * second) r Hr).
  pose proof (quot_bounds ((dts - pd) * second) r Hr).
  assert (0 < second) by (unfold second; lia). nia.
Qed.
