(* C03: EXT-X-TARGETDURATION of the leading stream never decreases along any write history. *)
From Coq Require Import List ZArith Bool Lia Arith.
From GoHls Require Import Model.Mux Proofs.MuxStream Proofs.MuxLift Proofs.MuxWindow Proofs.MuxHistory Proofs.MuxPlaylist.
Import ListNotations.
Local Open Scope Z_scope.

Definition RT (s s' : stream) : Prop :=
  st_leading s' = st_leading s /\ (st_leading s = true -> st_target s <= st_target s').

Lemma RT_refl s : RT s s.
Proof. split; [reflexivity|lia]. Qed.

Lemma RT_trans a b c : RT a b -> RT b c -> RT a c.
Proof. intros [A1 A2] [B1 B2]. split; [congruence|]. intros H. specialize (A2 H). rewrite <- A1 in H. specialize (B2 H). lia. Qed.

Lemma RT_st_with s x : x_target x = st_target s -> RT s (st_with s x).
Proof. intros E. split; [reflexivity|]. intros _. cbn [st_with st_target]. lia. Qed.

Lemma RT_srot_parts v s seg p d cn : RT s (fst (srot_parts v s seg p d cn)).
Proof.
  destruct (srot_parts_frame v s seg p d cn) as (_ & _ & _ & _ & F5 & _).
  destruct (srot_parts_static v s seg p d cn) as [x Hx].
  split; [rewrite Hx; reflexivity|]. intros _. rewrite F5. lia.
Qed.

Lemma RT_srot_segments v sc s seg0 d ntp f cur : RT s (fst (fst (srot_segments v sc s seg0 d ntp f cur))).
Proof.
  destruct (srot_segments_static v sc s seg0 d ntp f cur) as [x Hx].
  split; [rewrite Hx; reflexivity|]. intros Hl.
  unfold srot_segments. cbv zeta.
  destruct (window_append v sc (x_segments (st_mut s)) (sg_with_end seg0 d)) as [segs2 dropped].
  rewrite Hl. change (x_target (st_mut s)) with (st_target s).
  destruct dropped;
    (destruct (st_target s =? 0) eqn:E0; [apply Z.eqb_eq in E0|];
     [|destruct (st_target s <? targetDuration segs2) eqn:E1; [apply Z.ltb_lt in E1|]];
     cbn [fst st_with st_target x_target]; unfold targetDuration in *; lia).
Qed.

Section Hist.
  Variable m0 : mstate.
  Definition GT (m : mstate) : Prop := Forall2 RT (m_streams m0) (m_streams m).

  Lemma Forall2_upd_at l0 l si s s' :
    Forall2 RT l0 l -> nth_error l si = Some s -> RT s s' -> Forall2 RT l0 (upd l si (fun _ => s')).
  Proof.
    intros HF. revert si. induction HF as [|x y l0 l Hxy HF IH]; intros si Hn Hs.
    - destruct si; discriminate.
    - destruct si; simpl in *.
      + injection Hn as ->. constructor; auto. eapply RT_trans; eauto.
      + constructor; auto.
  Qed.

  Lemma GT_rotp m si d cn : GT m -> GT (stream_rotateParts m si d cn).
  Proof.
    unfold GT. intros H.
    destruct (stream_rotateParts_streams m si d cn) as [->|(s & seg & p0 & Es & Eo & Ep & ->)]; [exact H|].
    eapply Forall2_upd_at; eauto. apply RT_srot_parts.
  Qed.

  Lemma GT_rots m si d ntp f : GT m -> GT (stream_rotateSegments m si d ntp f).
  Proof.
    intros H.
    pose proof (stream_rotateSegments_streams m si d ntp f) as HS. cbv zeta in HS.
    set (m1 := match c_variant (m_cfg m) with MPEGTS => m | _ => stream_rotateParts m si d false end) in *.
    assert (H1 : GT m1) by (subst m1; destruct (c_variant (m_cfg m)); auto using GT_rotp).
    unfold GT in *. destruct HS as [->|(s & seg0 & cur & Es & Eo & ->)]; [exact H1|].
    eapply Forall2_upd_at; eauto. apply RT_srot_segments.
  Qed.

  Theorem GT_mux_step m o : GT m -> GT (fst (mux_step m o)).
  Proof.
    apply (T_mux_step GT).
    - intros; assumption.
    - intros m' d ntp ti0 t0 _ _ H. unfold GT, createFirstSegment in *. cbn [set_stream m_streams].
      apply Forall2_map_r; [exact H|]. intros x y Hxy. eapply RT_trans; [exact Hxy|]. unfold stream_createFirst. now apply RT_st_with.
    - intros; now apply GT_rotp.
    - apply GT_rots.
    - intros m' i l both H. unfold GT, upd_stream in *. cbn [set_stream m_streams].
      apply Forall2_upd_r; [exact H|]. intros x y Hxy. eapply RT_trans; [exact Hxy|].
      unfold copy_targets. destruct (st_leading y) eqn:El; [apply RT_refl|].
      split; [reflexivity|]. intros Hl. congruence.
    - intros m' ti si smp m'' H. unfold part_writeSample.
      destruct (nth_error (m_streams m') si) as [s|]; [|now intros [= <-]].
      destruct (nth_error (m_tracks m') ti) as [t|]; [|now intros [= <-]].
      destruct (st_open s); [|now intros [= <-]]. destruct (st_openpart s); [|now intros [= <-]].
      destruct (_ <? _); [discriminate|]. intros [= <-].
      unfold GT, upd_stream, upd_track in *. cbn [set_stream set_tracks m_streams].
      apply Forall2_upd_r; [exact H|]. intros x y Hxy. eapply RT_trans; [exact Hxy|]. now apply RT_st_with.
    - intros m' si u size e inc H. unfold ts_write.
      destruct (nth_error (m_streams m') si) as [s|]; [|exact H].
      destruct (st_open s); [|exact H]. destruct (_ <? _); [exact H|].
      cbn [fst wok]. unfold GT, upd_stream in *. cbn [set_stream m_streams].
      apply Forall2_upd_r; [exact H|]. intros x y Hxy. eapply RT_trans; [exact Hxy|]. now apply RT_st_with.
  Qed.

  Theorem GT_mux_run ops : forall m, GT m -> GT (mux_run m ops).
  Proof. induction ops as [|o ops IH]; intros m H; [exact H|]. cbn [mux_run]. apply IH. now apply GT_mux_step. Qed.
End Hist.

Theorem target_monotone m ops : Forall2 RT (m_streams m) (m_streams (mux_run m ops)).
Proof. apply GT_mux_run. unfold GT. apply Forall2_refl. apply RT_refl. Qed.

Lemma Forall2_nth {A} (Q : A -> A -> Prop) l1 l2 i x y :
  Forall2 Q l1 l2 -> nth_error l1 i = Some x -> nth_error l2 i = Some y -> Q x y.
Proof.
  intros HF. revert i. induction HF as [|a b l1 l2 Hab HF IH]; intros [|i] H1 H2; try discriminate.
  - injection H1 as <-. injection H2 as <-. exact Hab.
  - eapply IH; eauto.
Qed.

(* the playlists of the leading stream taken at two moments of one history: the later TARGETDURATION is at least
   the earlier one *)
Theorem playlist_target_monotone m ops si s pl pl' :
  nth_error (m_streams m) si = Some s -> st_leading s = true ->
  gen_media_playlist m si = Some pl -> gen_media_playlist (mux_run m ops) si = Some pl' ->
  pl_target pl <= pl_target pl'.
Proof.
  intros Hs Hl H1 H2. unfold gen_media_playlist in *. rewrite Hs in H1.
  destruct (nth_error (m_streams (mux_run m ops)) si) as [s'|] eqn:Hs'; [|discriminate].
  destruct (negb (hasContent _ s)); [discriminate|]. destruct (negb (hasContent _ s')); [discriminate|].
  injection H1 as <-. injection H2 as <-. cbn [pl_target].
  destruct (Forall2_nth RT _ _ si s s' (target_monotone m ops) Hs Hs') as [_ H]. auto.
Qed.
