(* List lemmas for the storage model: zeros / pwrite / put_all / upd_last / set_nth. *)
From Coq Require Import List ZArith Lia Bool Arith.
From GoHls Require Import Model.Storage.
Import ListNotations.

Lemma zeros_length n : length (zeros n) = n.
Proof. apply repeat_length. Qed.

Lemma zeros_app a b : zeros a ++ zeros b = zeros (a + b).
Proof. unfold zeros. now rewrite repeat_app. Qed.

Lemma firstn_zeros n m : firstn n (zeros m) = zeros (Nat.min n m).
Proof.
  revert m; induction n as [|n IH]; intros [|m]; simpl; auto.
  now rewrite IH.
Qed.

Lemma skipn_zeros n m : skipn n (zeros m) = zeros (m - n).
Proof.
  revert m; induction n as [|n IH]; intros [|m]; simpl; auto.
Qed.

Lemma zeros_0 : zeros 0 = [].
Proof. reflexivity. Qed.

Lemma zeros_eq a b : a = b -> zeros a = zeros b.
Proof. now intros ->. Qed.

Lemma app_zeros_eq (l l' : list Z) a b : l = l' -> a = b -> l ++ zeros a = l' ++ zeros b.
Proof. now intros -> ->. Qed.

Lemma skipn_skipn' {A} (l : list A) : forall n m, skipn n (skipn m l) = skipn (m + n) l.
Proof.
  induction l as [|x l IH]; intros n m.
  - now rewrite !skipn_nil.
  - destruct m; simpl; [reflexivity|apply IH].
Qed.

(* ---------- pwrite ---------- *)
Lemma pwrite_nil f off : pwrite f off [] = f.
Proof. reflexivity. Qed.

Lemma pwrite_cons f off x p :
  pwrite f off (x :: p) =
  firstn off f ++ zeros (off - length f) ++ (x :: p) ++ skipn (off + length (x :: p)) f.
Proof. reflexivity. Qed.

Lemma pwrite_length f off p :
  p <> [] -> length (pwrite f off p) = Nat.max (length f) (off + length p).
Proof.
  destruct p as [|x p]; [congruence|intros _].
  rewrite pwrite_cons. rewrite !app_length, firstn_length, zeros_length, skipn_length. lia.
Qed.

Lemma pwrite_length_le f off p : length f <= length (pwrite f off p).
Proof.
  destruct p as [|x p]; [simpl; lia|]. rewrite pwrite_length by congruence. lia.
Qed.

(* a write inside the second half of an append *)
Lemma pwrite_app_r P L pos p :
  pwrite (P ++ L) (length P + pos) p = P ++ pwrite L pos p.
Proof.
  destruct p as [|x p]; [reflexivity|].
  rewrite !pwrite_cons.
  rewrite firstn_app, firstn_all2 by lia.
  replace (length P + pos - length P) with pos by lia.
  rewrite skipn_app, (@skipn_all2 _ _ P) by lia.
  rewrite app_length.
  replace (length P + pos - (length P + length L)) with (pos - length L) by lia.
  replace (length P + pos + length (x :: p) - length P) with (pos + length (x :: p)) by lia.
  rewrite <- !app_assoc. reflexivity.
Qed.

(* writing into a zero-padded file = padding the written file *)
Lemma pad_pwrite f T off p :
  length f <= T -> off <= T ->
  let X := f ++ zeros (T - length f) in
  let f' := pwrite f off p in
  f' ++ zeros (length (pwrite X off p) - length f') = pwrite X off p.
Proof.
  intros Hf Hoff X f'. subst X f'.
  destruct p as [|x p].
  - simpl. rewrite app_length, zeros_length. apply app_zeros_eq; auto. lia.
  - rewrite (pwrite_length (f ++ _)) by congruence.
    rewrite (pwrite_length f) by congruence.
    rewrite !pwrite_cons.
    remember (x :: p) as q eqn:Eq.
    assert (Hlq : 0 < length q) by (subst q; simpl; lia). clear Eq x p.
    rewrite app_length, zeros_length.
    replace (off - (length f + (T - length f))) with 0 by lia. cbn [zeros repeat app].
    rewrite firstn_app, firstn_zeros.
    rewrite skipn_app, skipn_zeros.
    rewrite <- !app_assoc.
    destruct (le_lt_dec (length f) off) as [H1|H1].
    + rewrite (@firstn_all2 _ _ f) by lia.
      rewrite (@skipn_all2 _ _ f) by lia. cbn [app].
      f_equal. f_equal; [apply zeros_eq; lia|]. f_equal. apply zeros_eq. lia.
    + replace (off - length f) with 0 by lia.
      replace (Nat.min 0 (T - length f)) with 0 by lia. cbn [zeros repeat app].
      f_equal. f_equal. f_equal.
      apply zeros_eq. lia.
Qed.

(* ---------- put_all = pwrite ---------- *)
Lemma put_all_pwrite data : forall l i, put_all l i data = pwrite l i data.
Proof.
  induction data as [|x data IH]; intros l i; [reflexivity|].
  cbn [put_all]. rewrite IH. unfold put.
  destruct data as [|y data].
  - reflexivity.
  - rewrite !pwrite_cons.
    set (l1 := firstn i l ++ zeros (i - length l) ++ [x] ++ skipn (i + length [x]) l).
    assert (Hl1 : length l1 = Nat.max (length l) (i + 1)).
    { subst l1. rewrite !app_length, firstn_length, zeros_length, skipn_length. simpl. lia. }
    assert (Hf : firstn (S i) l1 = firstn i l ++ zeros (i - length l) ++ [x]).
    { subst l1. rewrite !app_assoc. rewrite firstn_app.
      rewrite firstn_all2 by (rewrite !app_length, firstn_length, zeros_length; simpl; lia).
      rewrite !app_length, firstn_length, zeros_length. simpl length.
      replace (S i - (Nat.min i (length l) + (i - length l) + 1)) with 0 by lia.
      simpl. now rewrite app_nil_r. }
    rewrite Hf, Hl1.
    replace (S i - Nat.max (length l) (i + 1)) with 0 by lia. cbn [zeros repeat app].
    rewrite <- !app_assoc. do 2 f_equal. cbn [app]. f_equal. f_equal.
    subst l1. rewrite !app_assoc. rewrite skipn_app.
    rewrite skipn_all2 by (rewrite !app_length, firstn_length, zeros_length; simpl; lia).
    rewrite !app_length, firstn_length, zeros_length. simpl length. cbn [app].
    f_equal. rewrite skipn_skipn'. f_equal. lia.
Qed.

(* ---------- sbuf_write = pwrite ---------- *)
Open Scope Z_scope.

Definition sb_ok (b : sbuf) : Prop := 0 <= sb_pos b <= sb_len b.

Lemma sbuf_write_bytes b p :
  sb_ok b -> sb_bytes (sbuf_write b p) = pwrite (sb_bytes b) (Z.to_nat (sb_pos b)) p.
Proof.
  unfold sb_ok, sbuf_write, sb_len. intros [H0 H1].
  set (B := sb_bytes b) in *. set (pos := sb_pos b) in *.
  destruct p as [|x p].
  - cbn [length Z.of_nat]. destruct (pos <? Z.of_nat (length B)) eqn:E.
    + apply Z.ltb_lt in E. replace (Z.min 0 (Z.of_nat (length B) - pos)) with 0 by lia.
      cbn [sb_bytes]. simpl (Z.to_nat 0). cbn [firstn skipn app]. rewrite app_nil_r.
      replace (pos + 0) with pos by lia. simpl. now rewrite firstn_skipn.
    + cbn [sb_bytes]. simpl. now rewrite app_nil_r.
  - rewrite pwrite_cons. remember (x :: p) as q eqn:Eq.
    assert (Hlq : (0 < length q)%nat) by (subst q; simpl; lia). clear Eq x p. cbn [sb_bytes].
    destruct (pos <? Z.of_nat (length B)) eqn:E.
    + apply Z.ltb_lt in E.
      replace (Z.to_nat pos - length B)%nat with 0%nat by lia. cbn [zeros repeat app].
      destruct (Z.le_gt_cases (Z.of_nat (length q)) (Z.of_nat (length B) - pos)) as [H2|H2].
      * rewrite Z.min_l by lia. rewrite Nat2Z.id.
        rewrite firstn_all, skipn_all. rewrite app_nil_r. rewrite <- ?app_assoc.
        do 2 f_equal. f_equal. lia.
      * rewrite Z.min_r by lia.
        rewrite (@skipn_all2 _ _ B) by lia.
        rewrite (@skipn_all2 _ (Z.to_nat pos + length q)%nat) by lia.
        rewrite !app_nil_r. cbn [app]. rewrite <- app_assoc. f_equal.
        now rewrite firstn_skipn.
    + apply Z.ltb_ge in E. assert (pos = Z.of_nat (length B)) by lia.
      cbn [Z.to_nat skipn]. replace (Z.to_nat pos) with (length B) by lia.
      rewrite firstn_all, Nat.sub_diag. cbn [zeros repeat app].
      rewrite skipn_all2 by lia. now rewrite app_nil_r.
Qed.

Lemma sbuf_write_ok b p : sb_ok b -> sb_ok (sbuf_write b p).
Proof.
  intros H. unfold sb_ok. unfold sb_len. rewrite sbuf_write_bytes by exact H.
  unfold sb_ok, sb_len in H. cbn [sbuf_write sb_pos].
  destruct p as [|x p].
  - cbn [pwrite length Z.of_nat]. lia.
  - rewrite pwrite_length by congruence. lia.
Qed.

Lemma sbuf_seek_some b w off b' :
  sb_ok b -> sbuf_seek b w off = Some b' ->
  sb_ok b' /\
  sb_pos b' = (match w with SeekStart => off | SeekCurrent => sb_pos b + off end) /\
  sb_bytes b' = extend (sb_bytes b) (Z.to_nat (sb_pos b')).
Proof.
  unfold sbuf_seek, sb_ok, sb_len. intros H.
  set (pos2 := match w with SeekStart => off | SeekCurrent => sb_pos b + off end).
  destruct (pos2 <? 0) eqn:E; [discriminate|]. apply Z.ltb_ge in E.
  intros [= <-]. cbn [sb_pos sb_bytes]. repeat split; try lia.
  - rewrite app_length, zeros_length. lia.
  - unfold extend. f_equal. apply zeros_eq. lia.
Qed.

Lemma sbuf_seek_none b w off :
  sbuf_seek b w off = None <->
  (match w with SeekStart => off | SeekCurrent => sb_pos b + off end) < 0.
Proof.
  unfold sbuf_seek.
  destruct (_ <? 0) eqn:E; split; intros H; try discriminate; try reflexivity.
  - now apply Z.ltb_lt in E.
  - apply Z.ltb_ge in E. lia.
Qed.

Close Scope Z_scope.

(* ---------- upd_last / set_nth ---------- *)
Lemma upd_last_app {A} (l : list A) x f : upd_last (l ++ [x]) f = l ++ [f x].
Proof. unfold upd_last. rewrite rev_app_distr. simpl. now rewrite rev_involutive. Qed.

Lemma upd_last_nil {A} (f : A -> A) : upd_last [] f = [].
Proof. reflexivity. Qed.

Lemma rev_snoc_inv {A} (l : list A) x t : rev l = x :: t -> l = rev t ++ [x].
Proof.
  intros H. rewrite <- (rev_involutive l), H. reflexivity.
Qed.

Lemma list_snoc_cases {A} (l : list A) : l = [] \/ exists l0 x, l = l0 ++ [x].
Proof.
  destruct (rev l) as [|x t] eqn:E.
  - left. now rewrite <- (rev_involutive l), E.
  - right. exists (rev t), x. now apply rev_snoc_inv.
Qed.

Lemma set_nth_length {A} (l : list A) i x : length (set_nth l i x) = length l.
Proof.
  unfold set_nth. rewrite app_length, firstn_length.
  destruct (skipn i l) as [|y t] eqn:E.
  - simpl. assert (length (skipn i l) = 0) by now rewrite E. rewrite skipn_length in H. lia.
  - simpl. assert (length (skipn i l) = S (length t)) by now rewrite E.
    rewrite skipn_length in H. lia.
Qed.

Lemma map_set_nth {A B} (f : A -> B) (l : list A) i x :
  map f (set_nth l i x) = set_nth (map f l) i (f x).
Proof.
  unfold set_nth. rewrite map_app, firstn_map, skipn_map.
  destruct (skipn i l); reflexivity.
Qed.

Lemma concat_app_single {A} (ls : list (list A)) l : concat (ls ++ [l]) = concat ls ++ l.
Proof. rewrite concat_app. simpl. now rewrite app_nil_r. Qed.
