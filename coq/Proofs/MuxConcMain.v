(* M4: the theorems over ALL schedules (any number of requesters), assembled from the
   invariants. *)
From Coq Require Import List ZArith Lia Bool String Arith.
From GoHls Require Import Lib.MuxSched Model.MuxConcSeq Model.MuxConcSpec Model.MuxConcPar
  Proofs.MuxConcSeqA Proofs.MuxConcSeqB Proofs.MuxConcInvA Proofs.MuxConcInvB Proofs.MuxConcInvC
  Proofs.MuxConcInvD Proofs.MuxConcProg.
Import ListNotations.
Local Open Scope Z_scope.

Record Inv (c : cstate) : Prop := {
  i_frame : reqs_all pc_frame_ok c;
  i_mutex : mutex_inv c;
  i_wake : wake_inv c;
  i_phase : phase_inv c;
  i_late : late_inv c
}.

Lemma Inv_init : forall m prog reqs, fresh m -> Inv (cinit m prog reqs).
Proof.
  intros m prog reqs F. constructor.
  - apply reqs_all_init. intros r. exact I.
  - apply mutex_inv_init.
  - apply wake_inv_init.
  - apply phase_inv_init. exact F.
  - apply late_inv_init.
Qed.

Lemma Inv_step : forall c t, Inv c -> Inv (step c t).
Proof.
  intros c t [I2 I3 I4 I5 I6]. constructor.
  - apply local_invariant; [apply lstep_frame_ok|apply wake_frame_ok|exact I2].
  - apply mutex_inv_step; assumption.
  - apply wake_inv_step; assumption.
  - apply phase_inv_step; assumption.
  - apply late_inv_step; assumption.
Qed.

Theorem Inv_reachable : forall m prog reqs sched,
  fresh m -> Inv (crun (cinit m prog reqs) sched).
Proof.
  intros m prog reqs sched F. unfold crun. apply run_invariant; [apply Inv_step|apply Inv_init; exact F].
Qed.

Lemma Inv_run : forall c sched, Inv c -> Inv (crun c sched).
Proof. intros c sched H. unfold crun. apply run_invariant; [apply Inv_step|exact H]. Qed.

Theorem paths_reachable : forall m prog reqs sched,
  m_variant m = LL -> paths_ok m -> paths_inv (crun (cinit m prog reqs) sched).
Proof.
  intros m prog reqs sched Hv P. unfold crun. apply run_invariant; [apply paths_inv_step|split; assumption].
Qed.

Lemma init_paths_ok : forall sc n lead, paths_ok (mux_init LL sc n lead).
Proof. intros sc n lead k id h H. discriminate. Qed.

Lemma init_fresh : forall v sc n lead, fresh (mux_init v sc n lead).
Proof.
  intros v sc n lead. split; [reflexivity|]. intros k s H. simpl in H.
  apply nth_error_In in H. apply repeat_spec in H. subst. reflexivity.
Qed.

Lemma hint_prop_of_paths : forall m, paths_ok m -> hint_prop m.
Proof. intros m P q k id h H. eapply hint_break_handler; eauto. Qed.

Theorem hint_prop_reachable : forall m prog reqs sched,
  m_variant m = LL -> paths_ok m -> hint_prop (c_mux (crun (cinit m prog reqs) sched)).
Proof.
  intros m prog reqs sched Hv P. apply hint_prop_of_paths. exact (proj2 (paths_reachable m prog reqs sched Hv P)).
Qed.

Theorem mutex_owner_reachable : forall m prog reqs sched,
  fresh m -> mutex_inv (crun (cinit m prog reqs) sched).
Proof. intros m prog reqs sched F. exact (i_mutex _ (Inv_reachable m prog reqs sched F)). Qed.

(* ---------- C06: safety ---------- *)
Lemma init_reqs_start : forall m prog reqs i r,
  nth_error (c_reqs (cinit m prog reqs)) i = Some r -> r_pc r = PStart.
Proof.
  intros m prog reqs i r H. simpl in H. apply nth_error_map_some in H. destruct H as [x [_ ->]]. auto.
Qed.

(* every response a handler decides under the mutex (a 200 with a playlist in particular) was
   decided by the handler's own loop test, with the mutex held, in a state of this run *)
Theorem safety_all_schedules : forall m prog reqs sched i r resp,
  fresh m ->
  nth_error (c_reqs (crun (cinit m prog reqs) sched)) i = Some r ->
  (r_pc r = PUnlock resp \/ r_pc r = PDone resp) -> from_test resp = true ->
  exists p rest f, sched = p ++ TR i :: rest /\
    let c := crun (cinit m prog reqs) p in
    c_owner c = Some (TR i) /\ req_pc c i = Some (PTest f) /\
    test (c_mux c) (req_query (r_req r)) f = TExit resp.
Proof.
  intros m prog reqs sched i r resp F Hr Hp Hf.
  pose proof (hist_inv_all (cinit m prog reqs) (init_reqs_start m prog reqs) sched i r Hr) as [K1 _].
  destruct (K1 resp) as [p [rest [f [E [Hw [Hpc Ht]]]]]]; [destruct Hp; auto|].
  exists p, rest, f. split; [exact E|]. cbn zeta. split; [|split; assumption].
  pose proof (Inv_reachable m prog reqs p F) as Ip.
  unfold req_pc in Hpc. destruct (nth_error (c_reqs (crun (cinit m prog reqs) p)) i) as [x|] eqn:Ex; [|discriminate].
  simpl in Hpc. inversion Hpc as [Hx]. apply (proj2 (i_mutex _ Ip) (TR i)). exists x. split; [exact Ex|].
  unfold r_holds. rewrite Hx. reflexivity.
Qed.

(* what the blocking handler's test says when it answers 200 *)
Lemma test_blocking_200 : forall m q k M (p : option Z) d pl,
  test m q (FBlocking k M p d) = TExit (R200Playlist pl) ->
  exists s, nth_error (m_streams m) k = Some s /\ s_closed s = false /\
            decide_core (m_variant m) s M p = Ready /\
            generateMediaPlaylist (m_variant m) s d q = Some pl.
Proof.
  intros m q k M p d pl H. unfold test in H.
  destruct (nth_error (m_streams m) k) as [s|]; [|discriminate].
  destruct (s_closed s) eqn:Ec; [discriminate|].
  destruct (decide_core (m_variant m) s M p) eqn:Ed; try discriminate.
  unfold playlist_response in H. destruct (generateMediaPlaylist (m_variant m) s d q) eqn:Eg; [|discriminate].
  inversion H; subst. exists s. auto.
Qed.

Lemma test_plain_200 : forall m q k d pl,
  test m q (FPlain k d) = TExit (R200Playlist pl) ->
  exists s, nth_error (m_streams m) k = Some s /\ s_closed s = false /\
            hasContent (m_variant m) s = true /\ generateMediaPlaylist (m_variant m) s d q = Some pl.
Proof.
  intros m q k d pl H. unfold test in H.
  destruct (nth_error (m_streams m) k) as [s|]; [|discriminate].
  destruct (s_closed s) eqn:Ec; [discriminate|].
  destruct (hasContent (m_variant m) s) eqn:Eh; [|discriminate].
  unfold playlist_response in H. destruct (generateMediaPlaylist (m_variant m) s d q) eqn:Eg; [|discriminate].
  inversion H; subst. exists s. auto.
Qed.

Lemma test_multi_200 : forall m q, test m q FMulti = TExit R200Multi ->
  m_closed m = false /\ exists s0, nth_error (m_streams m) 0 = Some s0 /\ hasContent (m_variant m) s0 = true.
Proof.
  intros m q H. unfold test in H. destruct (m_closed m); [discriminate|].
  destruct (nth_error (m_streams m) 0) as [s0|]; [|discriminate].
  destruct (hasContent (m_variant m) s0) eqn:E; [|discriminate]. eauto.
Qed.

(* a media-playlist request runs the frame its query selects *)
Definition media_frame_ok (r : rstate) : Prop :=
  forall k q, r_req r = RqMedia k q ->
    match r_pc r with
    | PCall h => h = Some (HMedia k) \/ h = None
    | PLock f | PTest f | PWaiting f | PWoken f =>
        match f with
        | FBlocking k' M p d => k' = k /\ handleMediaPlaylist_pre LL q = MKBlocking M p d
        | FPlain k' d => k' = k
        | _ => False
        end
    | PUnlockCall _ => False
    | _ => True
    end.

Lemma call_media : forall m q k f, call m q (Some (HMedia k)) = PLock f ->
  match f with
  | FBlocking k' M p d => k' = k /\ handleMediaPlaylist_pre LL q = MKBlocking M p d
  | FPlain k' d => k' = k
  | _ => False
  end.
Proof.
  intros m q k f H. unfold call in H.
  destruct (handleMediaPlaylist_pre (m_variant m) q) eqn:E; inversion H; subst; auto.
  split; [reflexivity|]. unfold handleMediaPlaylist_pre in E. destruct (m_variant m); try discriminate. exact E.
Qed.

Lemma lstep_media_frame : forall m w n i r o, media_frame_ok r -> media_frame_ok (fst (lstep m w n i r o)).
Proof.
  intros m w n i r o H k q Hq. rewrite lstep_req in Hq. specialize (H k q Hq).
  unfold lstep. destruct (r_pc r) eqn:Ep; simpl.
  - rewrite Hq. simpl. destruct (Nat.ltb k (List.length (m_streams m))); auto.
  - rewrite Hq. simpl. destruct H as [->| ->].
    + destruct (call_pc m q (Some (HMedia k))) as [[resp Ec]|[f Ec]]; rewrite Ec; [exact I|].
      apply (call_media m q k f Ec).
    + simpl. exact I.
  - destruct o; simpl; rewrite ?Ep; exact H.
  - destruct (test m (req_query (r_req r)) f) eqn:Et; simpl; auto.
    destruct (test_break_only_hint _ _ _ _ Et) as [kk [id ->]]. exact H.
  - rewrite Ep. exact H.
  - destruct o; simpl; rewrite ?Ep; exact H.
  - exact I.
  - destruct H.
  - rewrite Ep. exact I.
Qed.

Lemma wake_media_frame : forall r, media_frame_ok r -> media_frame_ok (wake r).
Proof.
  intros r H k q Hq. destruct (wake_fields r) as [Eq _]. rewrite Eq in Hq. specialize (H k q Hq).
  destruct (wake_pc r) as [[f [E1 E2]]|[_ E2]]; [|rewrite E2; exact H].
  rewrite E2. rewrite E1 in H. exact H.
Qed.

Theorem media_frame_reachable : forall m prog reqs sched,
  reqs_all media_frame_ok (crun (cinit m prog reqs) sched).
Proof.
  intros m prog reqs sched. unfold crun. apply run_invariant.
  - intros s t H. apply local_invariant; [apply lstep_media_frame|apply wake_media_frame|exact H].
  - apply reqs_all_init. intros r k q Hq. exact I.
Qed.

(* ---------- C06: no lost wake-up, progress ---------- *)
Theorem no_lost_wakeup : forall m prog reqs sched i r f,
  fresh m ->
  let c := crun (cinit m prog reqs) sched in
  nth_error (c_reqs c) i = Some r -> r_pc r = PWaiting f ->
  content_ready (c_mux c) f = true -> owed_rot (c_wpc c) = true.
Proof. intros m prog reqs sched i r f F c Hr Hp Hc. exact (i_wake _ (Inv_reachable m prog reqs sched F) i r f Hr Hp Hc). Qed.

Lemma content_ready_blocking : forall m k M (p : option Z) d s,
  nth_error (m_streams m) k = Some s ->
  content_ready m (FBlocking k M p d) = true <->
  (decide_core (m_variant m) s M p = Ready \/ decide_core (m_variant m) s M p = Respond400).
Proof.
  intros m k M p d s Hs. unfold content_ready. rewrite Hs.
  destruct (decide_core (m_variant m) s M p); split; intros H; auto; try discriminate;
    destruct H; discriminate.
Qed.

Lemma test_not_wait_of_ready : forall m q f,
  content_ready m f = true -> test m q f <> TWait.
Proof.
  intros m q f H Ht. apply test_wait_not_ready in Ht. congruence.
Qed.

(* lifting the local progress lemmas to runs of requester i alone *)
Lemma consistent_of_inv : forall c i r, Inv c -> nth_error (c_reqs c) i = Some r ->
  (c_owner c = None \/ c_owner c = Some (TR i)) -> consistent r (c_owner c) i.
Proof.
  intros c i r I Hr Ho. destruct (i_mutex _ I) as [M1 M2]. unfold consistent.
  destruct (r_holds r) eqn:Eh.
  - left. split; [reflexivity|]. apply (M2 (TR i)). exists r; auto.
  - right. split; [reflexivity|]. destruct Ho as [Ho|Ho]; [exact Ho|].
    destruct (M1 _ Ho) as [x [Hx Hh]]. congruence.
Qed.

Theorem own_progress : forall c i r,
  Inv c -> hint_prop (c_mux c) -> c_wpc c <> WCrashed ->
  nth_error (c_reqs c) i = Some r ->
  (c_owner c = None \/ c_owner c = Some (TR i)) ->
  exists k, (k <= 6)%nat /\
    let c' := crun c (repeat (TR i) k) in
    (exists r', nth_error (c_reqs c') i = Some r' /\ finished r' /\ consistent r' (c_owner c') i) /\
    c_mux c' = c_mux c.
Proof.
  intros c i r I HP Hw Hr Ho.
  destruct (own_progress_local (c_mux c) (c_wpc c) (c_progress c) i HP r (c_owner c)
              (consistent_of_inv c i r I Hr Ho)) as [k [Hk [Hf Hc]]].
  exists k. split; [exact Hk|].
  destruct (rrun_obs i k c r Hr Hw) as [A [B [C _]]]. cbn zeta. split; [|exact C].
  eexists. split; [exact A|]. rewrite B. auto.
Qed.

Theorem ready_progress : forall c i r f,
  Inv c -> hint_prop (c_mux c) -> c_wpc c <> WCrashed ->
  nth_error (c_reqs c) i = Some r -> (r_pc r = PLock f \/ r_pc r = PWoken f) ->
  c_owner c = None ->
  test (c_mux c) (req_query (r_req r)) f <> TWait ->
  exists k, (k <= 4)%nat /\ exists resp,
    let c' := crun c (repeat (TR i) k) in
    done_with c' i = Some resp /\
    resp_of_test (test (c_mux c) (req_query (r_req r)) f) resp /\
    (exists r', nth_error (c_reqs c') i = Some r' /\ r_waits r' = r_waits r /\ c_owner c' = None).
Proof.
  intros c i r f I HP Hw Hr Hp Ho Ht.
  destruct (own_progress_ready (c_mux c) (c_wpc c) (c_progress c) i HP r f Hp Ht)
    as [k [Hk [resp [A [B [C D]]]]]].
  exists k. split; [exact Hk|]. exists resp.
  destruct (rrun_obs i k c r Hr Hw) as [E1 [E2 _]]. cbn zeta. rewrite Ho in E1, E2.
  split; [|split; [exact C|]].
  - unfold done_with, req_pc. rewrite E1. simpl. rewrite A. reflexivity.
  - eexists. split; [exact E1|]. split; [exact B|]. rewrite E2. exact D.
Qed.

(* in any state where the writer owes no broadcast, every sleeping requester's condition is
   false: nobody sleeps through a state change *)
Corollary sleepers_blocked_when_idle : forall m prog reqs sched i r f,
  fresh m ->
  let c := crun (cinit m prog reqs) sched in
  owed_rot (c_wpc c) = false ->
  nth_error (c_reqs c) i = Some r -> r_pc r = PWaiting f ->
  content_ready (c_mux c) f = false.
Proof.
  intros m prog reqs sched i r f F c Hw Hr Hp.
  destruct (content_ready (c_mux c) f) eqn:E; [|reflexivity].
  pose proof (no_lost_wakeup m prog reqs sched i r f F Hr Hp E) as Ho. fold c in Ho. congruence.
Qed.

(* ---------- C06: the preload hint ---------- *)
Theorem hint_decided_ready : forall m prog reqs sched i r h,
  nth_error (c_reqs (crun (cinit m prog reqs) sched)) i = Some r ->
  r_pc r = PUnlockCall h ->
  exists p rest f, sched = p ++ TR i :: rest /\
    let c := crun (cinit m prog reqs) p in
    req_pc c i = Some (PTest f) /\ test (c_mux c) (req_query (r_req r)) f = TBreakHint h.
Proof.
  intros m prog reqs sched i r h Hr Hp.
  pose proof (hist_inv_all (cinit m prog reqs) (init_reqs_start m prog reqs) sched i r Hr) as [_ K2].
  destruct (K2 h Hp) as [p [rest [f [E [Hw [Hpc Ht]]]]]]. exists p, rest, f. auto.
Qed.

Theorem hint_body : forall m prog reqs sched i r h,
  m_variant m = LL -> paths_ok m ->
  nth_error (c_reqs (crun (cinit m prog reqs) sched)) i = Some r ->
  r_pc r = PUnlockCall h ->
  exists k id, (h = Some (HPart k id) \/ h = None) /\
    exists p rest, sched = p ++ TR i :: rest /\
      let c := crun (cinit m prog reqs) p in
      req_pc c i = Some (PTest (FHint k id)) /\
      exists s, nth_error (m_streams (c_mux c)) k = Some s /\ s_closed s = false /\ id < nextPartID s.
Proof.
  intros m prog reqs sched i r h Hv P Hr Hp.
  destruct (hint_decided_ready m prog reqs sched i r h Hr Hp) as [p [rest [f [E [Hpc Ht]]]]].
  destruct (test_break_only_hint _ _ _ _ Ht) as [k [id ->]].
  exists k, id. destruct (paths_reachable m prog reqs p Hv P) as [_ Pp].
  split; [eapply hint_break_handler; eauto|].
  exists p, rest. split; [exact E|]. cbn zeta. split; [exact Hpc|].
  destruct (hint_break_ready _ _ _ _ _ Ht) as [s [A [B [C _]]]]. eauto.
Qed.

(* ---------- C07 ---------- *)
Definition nobody_inside (c : cstate) : Prop :=
  w_inside (c_wpc c) = false /\ forall i r, nth_error (c_reqs c) i = Some r -> r_inside r = false.

(* the mutex is free whenever no thread is inside a handler or inside a writer operation *)
Theorem mutex_free : forall c, Inv c -> nobody_inside c -> c_owner c = None.
Proof.
  intros c I [Hw Hr]. destruct (c_owner c) as [t|] eqn:Eo; [|reflexivity]. exfalso.
  pose proof (proj1 (i_mutex _ I) t Eo) as Hh. destruct t as [|i]; simpl in Hh.
  - destruct (c_wpc c); simpl in *; discriminate.
  - destruct Hh as [r [Hri Hh]]. specialize (Hr i r Hri).
    unfold r_holds, r_inside in *. destruct (r_pc r); congruence.
Qed.

(* a requester that has returned holds nothing: every exit path of every handler unlocks *)
Theorem returned_holds_nothing : forall c i r resp,
  Inv c -> nth_error (c_reqs c) i = Some r -> r_pc r = PDone resp -> c_owner c <> Some (TR i).
Proof.
  intros c i r resp I Hr Hp Ho. destruct (proj1 (i_mutex _ I) _ Ho) as [x [Hx Hh]].
  rewrite Hr in Hx. inversion Hx; subst x. unfold r_holds in Hh. rewrite Hp in Hh. discriminate.
Qed.

(* from the moment Close has set the flags no loop test waits *)
Lemma no_wait_after_close : forall c, phase_inv c -> closing (c_wpc c) = true ->
  forall q f, test (c_mux c) q f <> TWait.
Proof. exact no_wait_when_closing. Qed.

Lemma closed_test_non200 : forall c, phase_inv c -> closing (c_wpc c) = true ->
  forall q f resp, resp_of_test (test (c_mux c) q f) resp -> is_200 resp = false.
Proof.
  intros c P Hw q f resp H.
  assert (Hc : m_closed (c_mux c) = true) by (rewrite (ph_closed _ P); exact Hw).
  assert (Hs : forall k s, nth_error (m_streams (c_mux c)) k = Some s -> s_closed s = true)
    by (intros k s Hk; rewrite (ph_streams _ P k s Hk); exact Hw).
  destruct f as [|k msn p d|k d|k id]; unfold test in H.
  - rewrite Hc in H. simpl in H. subst; reflexivity.
  - destruct (nth_error (m_streams (c_mux c)) k) as [s|] eqn:E; [rewrite (Hs k s E) in H|]; simpl in H; subst; reflexivity.
  - destruct (nth_error (m_streams (c_mux c)) k) as [s|] eqn:E; [rewrite (Hs k s E) in H|]; simpl in H; subst; reflexivity.
  - destruct (nth_error (m_streams (c_mux c)) k) as [s|] eqn:E; [rewrite (Hs k s E) in H|]; simpl in H; subst; reflexivity.
Qed.

Lemma closing_of_done : forall w, close_broadcast_done w = true -> closing w = true.
Proof. intros w H. destruct w; try discriminate; reflexivity. Qed.

(* after Close's broadcast nobody is asleep: every waiter has been woken, and nobody can fall
   asleep again *)
Theorem nobody_asleep_after_close : forall m prog reqs sched i r f,
  fresh m ->
  let c := crun (cinit m prog reqs) sched in
  close_broadcast_done (c_wpc c) = true ->
  nth_error (c_reqs c) i = Some r -> r_pc r <> PWaiting f.
Proof.
  intros m prog reqs sched i r f F c Hd Hr.
  exact (i_late _ (Inv_reachable m prog reqs sched F) Hd i r f Hr).
Qed.

(* a requester that was waiting and has been woken completes by its own steps with a non-200 *)
Theorem woken_terminates_after_close : forall c i r f,
  Inv c -> hint_prop (c_mux c) -> closing (c_wpc c) = true -> c_wpc c <> WCrashed -> c_owner c = None ->
  nth_error (c_reqs c) i = Some r -> r_pc r = PWoken f ->
  exists k, (k <= 4)%nat /\ exists resp,
    done_with (crun c (repeat (TR i) k)) i = Some resp /\ is_200 resp = false /\
    c_owner (crun c (repeat (TR i) k)) = None.
Proof.
  intros c i r f I HP Hw Hnc Ho Hr Hp.
  destruct (ready_progress c i r f I HP Hnc Hr (or_intror Hp) Ho
              (no_wait_after_close c (i_phase _ I) Hw _ _)) as [k [Hk [resp [A [B [r' [_ [_ C]]]]]]]].
  exists k. split; [exact Hk|]. exists resp. split; [exact A|]. split; [|exact C].
  eapply closed_test_non200; eauto. apply (i_phase _ I).
Qed.

(* every request that is not already answered - a woken waiter, a request in flight, a request
   issued after Close - completes by its own steps, without ever waiting, and leaves the mutex
   free *)
Theorem all_terminate_after_close : forall c i r,
  Inv c -> hint_prop (c_mux c) -> close_broadcast_done (c_wpc c) = true -> c_owner c = None ->
  nth_error (c_reqs c) i = Some r ->
  exists k, (k <= 6)%nat /\ exists r',
    nth_error (c_reqs (crun c (repeat (TR i) k))) i = Some r' /\
    (exists resp, r_pc r' = PDone resp) /\ r_waits r' = r_waits r /\
    c_owner (crun c (repeat (TR i) k)) = None.
Proof.
  intros c i r I HP Hd Ho Hr.
  assert (Hnc : c_wpc c <> WCrashed) by (intro E; rewrite E in Hd; discriminate).
  assert (Hnw : forall f, r_pc r <> PWaiting f) by (intros f; exact (i_late _ I Hd i r f Hr)).
  destruct (own_progress_local (c_mux c) (c_wpc c) (c_progress c) i HP r (c_owner c)
              (consistent_of_inv c i r I Hr (or_introl Ho))) as [k [Hk [Hf Hc]]].
  destruct (literate_no_wait (c_mux c) (c_wpc c) (c_progress c) i k r (c_owner c)
              (no_wait_after_close c (i_phase _ I) (closing_of_done _ Hd)) Hnw) as [N1 N2].
  exists k. split; [exact Hk|]. destruct (rrun_obs i k c r Hr Hnc) as [A [B _]].
  eexists. split; [exact A|].
  assert (Hdone : exists resp, r_pc (fst (literate (c_mux c) (c_wpc c) (c_progress c) i k r (c_owner c))) = PDone resp).
  { destruct Hf as [Hd'|[f Hf]]; [exact Hd'|]. exfalso. eapply N1; eauto. }
  split; [exact Hdone|]. split; [exact N2|].
  rewrite B. destruct Hdone as [resp Hp]. destruct Hc as [[Hh _]|[_ Hn]]; [|exact Hn].
  unfold r_holds in Hh. rewrite Hp in Hh. discriminate.
Qed.

(* Close, once it holds the mutex, returns by its own steps *)
Lemma close_completes_from : forall n c k,
  c_wpc c = CStreams k -> (List.length (m_streams (c_mux c)) - k <= n)%nat ->
  c_wpc (crun c (repeat TW (S n))) = WFinished.
Proof.
  induction n as [|n IH]; intros c k Hw Hn.
  - simpl. unfold crun, run; simpl. unfold step. rewrite Hw. unfold wstep. rewrite Hw.
    replace (Nat.ltb k (List.length (m_streams (c_mux c)))) with false; [reflexivity|].
    symmetry. apply Nat.ltb_ge. lia.
  - change (repeat TW (S (S n))) with (TW :: repeat TW (S n)). unfold crun. rewrite run_cons.
    fold (crun (step c TW) (repeat TW (S n))).
    unfold step. rewrite Hw. unfold wstep. rewrite Hw.
    destruct (Nat.ltb k (List.length (m_streams (c_mux c)))) eqn:E.
    + eapply IH; [reflexivity|]. simpl. destruct (closeStream_fields (c_mux c) k) as [_ [_ [_ [Hl _]]]].
      rewrite Hl. apply Nat.ltb_lt in E. lia.
    + clear IH. set (c1 := mk (c_mux c) (c_owner c) WFinished (c_prog c) (c_reqs c) (c_progress c)).
      assert (G : forall j c2, c_wpc c2 = WFinished -> c_wpc (crun c2 (repeat TW j)) = WFinished).
      { induction j as [|j IHj]; intros c2 H2; [exact H2|]. change (repeat TW (S j)) with (TW :: repeat TW j). unfold crun. rewrite run_cons.
        fold (crun (step c2 TW) (repeat TW j)). apply IHj. unfold step. rewrite H2. unfold wstep. rewrite H2. exact H2. }
      apply G. reflexivity.
Qed.

Theorem close_completes : forall c,
  (c_wpc c = CLocked \/ c_wpc c = CSet \/ c_wpc c = CUnlocked \/ exists k, c_wpc c = CStreams k) ->
  exists j, (j <= List.length (m_streams (c_mux c)) + 4)%nat /\ c_wpc (crun c (repeat TW j)) = WFinished.
Proof.
  intros c H.
  set (n := List.length (m_streams (c_mux c))).
  assert (S3 : forall c3, c_wpc c3 = CUnlocked -> List.length (m_streams (c_mux c3)) = n ->
               c_wpc (crun c3 (repeat TW (S (S n)))) = WFinished).
  { intros c3 H3 L3. change (repeat TW (S (S n))) with (TW :: repeat TW (S n)). unfold crun. rewrite run_cons.
    fold (crun (step c3 TW) (repeat TW (S n))). eapply close_completes_from.
    - unfold step. rewrite H3. unfold wstep. rewrite H3. reflexivity.
    - unfold step. rewrite H3. unfold wstep. rewrite H3. simpl. lia. }
  assert (S2 : forall c2, c_wpc c2 = CSet -> List.length (m_streams (c_mux c2)) = n ->
               c_wpc (crun c2 (repeat TW (S (S (S n))))) = WFinished).
  { intros c2 H2 L2. change (repeat TW (S (S (S n)))) with (TW :: repeat TW (S (S n))). unfold crun. rewrite run_cons.
    fold (crun (step c2 TW) (repeat TW (S (S n)))). apply S3.
    - unfold step. rewrite H2. unfold wstep. rewrite H2. reflexivity.
    - unfold step. rewrite H2. unfold wstep. rewrite H2. exact L2. }
  destruct H as [H|[H|[H|[k H]]]].
  - exists (S (S (S (S n)))). split; [unfold n; lia|].
    change (repeat TW (S (S (S (S n))))) with (TW :: repeat TW (S (S (S n)))). unfold crun. rewrite run_cons.
    fold (crun (step c TW) (repeat TW (S (S (S n))))). apply S2.
    + unfold step. rewrite H. unfold wstep. rewrite H. reflexivity.
    + unfold step. rewrite H. unfold wstep. rewrite H. simpl. rewrite map_length. reflexivity.
  - exists (S (S (S n))). split; [unfold n; lia|]. apply S2; auto.
  - exists (S (S n)). split; [unfold n; lia|]. apply S3; auto.
  - exists (S n). split; [unfold n; lia|]. eapply close_completes_from; [exact H|]. unfold n. lia.
Qed.

(* ---------- regression: the schedules that refuted the unrepaired code ---------- *)
(* former F2: one media-playlist request waiting for content; Close locks, sets the flags,
   unlocks, broadcasts; the waiter wakes and re-checks BEFORE stream.close() runs: it now sees
   its stream closed and answers 500 *)
Definition f2_init : cstate := cinit (mux_init LL 7 1 0) [WClose] [RqMedia 0 []].
Definition f2_sched : list tid :=
  [TR 0; TR 0; TR 0; TR 0;   (* lookup, call, Lock, test -> Wait *)
   TW; TW; TW; TW;           (* Close: Lock, closed flags, Unlock, Broadcast *)
   TR 0; TR 0; TR 0;         (* the waiter re-acquires the mutex, re-checks, unlocks *)
   TW; TW]%nat.              (* stream.close(); Close returns *)

Lemma f2_regression :
  let c := crun f2_init f2_sched in
  c_wpc c = WFinished /\ c_owner c = None /\ done_with c 0 = Some R500.
Proof. vm_compute. auto. Qed.

(* former F1: a preload-hint request is waiting; Close runs to completion; the hint handler
   wakes, sees s.closed, unlocks, answers 500; a later request is answered too *)
Definition f1_prog : list wop := [WCreateFirst; WRotateParts; WClose].
Definition f1_init : cstate :=
  cinit (mux_init LL 7 1 0) f1_prog [RqPath (PPart 0 1); RqMulti].
Definition f1_sched : list tid :=
  [TW; TW; TW; TW; TW;            (* createFirstSegment; rotateParts: part 0 done, hint for part 1 *)
   TR 0; TR 0; TR 0; TR 0;        (* GET part1 (the hint): lookup, call, Lock, test -> Wait *)
   TW; TW; TW; TW; TW; TW;        (* Close, all of it *)
   TR 0; TR 0; TR 0;              (* the hint handler wakes: s.closed -> Unlock, 500 *)
   TR 1; TR 1; TR 1; TR 1; TR 1]%nat.  (* a later index.m3u8 request: 500, no waiting *)

Lemma f1_regression :
  let c := crun f1_init f1_sched in
  c_wpc c = WFinished /\ done_with c 0 = Some R500 /\ done_with c 1 = Some R500 /\ c_owner c = None.
Proof. vm_compute. auto. Qed.
