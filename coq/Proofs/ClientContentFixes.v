(* C13 - the behaviour after fixes 8f9d4a5 (checkSupport accepts av01. / vp09.), d590576 + c9db2ec (an fMP4
   segment / Low-Latency part without tracks is skipped, except by a leading stream that has not created
   the time converter yet). The model (Model/ClientContent.v) follows /repo for both. *)
From Coq Require Import List ZArith Bool String.
From GoHls Require Import Model.ClientContent Proofs.ClientContentMain.
Import ListNotations.
Local Open Scope Z_scope.
Local Open Scope string_scope.

(* ---------- checkSupport ---------- *)
Lemma codec_supported_spec codec :
  codec_supported codec = true <->
  (String.prefix "avc1." codec = true \/ String.prefix "hvc1." codec = true \/ String.prefix "hev1." codec = true
   \/ String.prefix "mp4a." codec = true \/ String.prefix "av01." codec = true \/ String.prefix "vp09." codec = true
   \/ codec = "opus").
Proof.
  unfold codec_supported, has_prefix. rewrite !orb_true_iff, String.eqb_eq. tauto.
Qed.

Lemma prefix_nil s : String.prefix "" s = true.
Proof. destruct s; reflexivity. Qed.

(* every string codecparams.Marshal can produce for one of the six codecs (a constant prefix, then
   parameters) passes *)
Lemma muxer_strings_supported sfx :
  codec_supported ("avc1." ++ sfx) = true /\ codec_supported ("hvc1." ++ sfx) = true /\
  codec_supported ("mp4a.40." ++ sfx) = true /\ codec_supported ("av01." ++ sfx) = true /\
  codec_supported ("vp09." ++ sfx) = true /\ codec_supported "opus" = true.
Proof. destruct sfx; repeat split; reflexivity. Qed.

(* a variant is still rejected for any other codec *)
Lemma other_codecs_rejected :
  checkSupport ["avc1.640028"; "ac-3"] = false /\ checkSupport ["mp4v.20.9"] = false /\ checkSupport [""] = false.
Proof. repeat split; reflexivity. Qed.

(* ---------- segments without tracks ---------- *)
Lemma find_pt_nil id : find_pt [] id = None.
Proof. reflexivity. Qed.

Lemma parts_empty_no_leading parts id :
  parts_empty parts = true -> findFirstPartTrackOfLeadingTrack parts id = None.
Proof.
  induction parts as [|p r IH]; [reflexivity|]. cbn [parts_empty forallb].
  intros H. apply andb_true_iff in H. destruct H as [Hp Hr]. destruct p; [|discriminate].
  cbn [findFirstPartTrackOfLeadingTrack find_pt]. now apply IH.
Qed.

(* skipped: a rendition's empty segment / part, and the leading stream's once its processors exist; the
   state, the converter and the counts are untouched (nothing is delivered, no date is taken) *)
Lemma empty_segment_skipped p c el seg counts parts :
  fg_parts seg = Some parts -> parts_empty parts = true ->
  (f_isLeading p = false \/ f_procs p <> None) ->
  fmp4_processSegment p c el seg counts = Ok (p, c, counts).
Proof.
  intros Hp He Hg. unfold fmp4_processSegment. rewrite Hp, (parts_empty_no_leading _ _ He), He.
  destruct Hg as [-> | Hn]; [reflexivity|].
  destruct (f_procs p); [|congruence]. now rewrite orb_true_r.
Qed.

(* still an error: the leading stream's empty segment before the time converter exists *)
Lemma empty_first_leading_segment p c el seg counts parts :
  fg_parts seg = Some parts -> parts_empty parts = true ->
  f_isLeading p = true -> f_procs p = None ->
  fmp4_processSegment p c el seg counts = Err ENoLeadingData.
Proof.
  intros Hp He Hl Hn. unfold fmp4_processSegment.
  rewrite Hp, (parts_empty_no_leading _ _ He), He, Hl, Hn. reflexivity.
Qed.

(* and a segment that has tracks, none of them the leading one, as before *)
Lemma nonempty_without_leading p c el seg counts parts :
  fg_parts seg = Some parts -> parts_empty parts = false ->
  findFirstPartTrackOfLeadingTrack parts (f_leadingTrackID p) = None ->
  fmp4_processSegment p c el seg counts = Err ENoLeadingData.
Proof. intros Hp He Hf. unfold fmp4_processSegment. rewrite Hp, Hf, He. reflexivity. Qed.

(* ---------- whole scenarios ---------- *)
Definition uri_of (n : nat) : uri := {| u_parse_ok := true; u_empty := false; u_res := n |}.

Definition av1_index : uplaylist :=
  PLMulti {| mv_variants := [Some {| v_codecs := ["av01.0.08M.08.0.110.01.01.01.0"; "mp4a.40.2"]; v_bandwidth := 1000;
                                     v_uri := uri_of 0; v_audio := "aud" |}];
             mv_renditions := [Some {| r_groupID := "aud"; r_uri := Some (uri_of 1) |}] |}.

Definition seg_of (parts : list part) : fseg := {| fg_dateTime := None; fg_parts := Some parts |}.
Definition pt1 (base : Z) : part_track := {| pt_id := 1; pt_baseTime := base; pt_samples := [one_sample] |}.

Definition video_stream (segs : list fseg) : stream :=
  SF {| fs_init := Some [{| it_id := 1; it_timescale := 90000; it_codec := FAV1 |}]; fs_segs := segs |}.
Definition audio_stream (segs : list fseg) : stream :=
  SF {| fs_init := Some [{| it_id := 1; it_timescale := 48000; it_codec := FMPEG4Audio |}]; fs_segs := segs |}.

(* AV1 + audio rendition through the multivariant playlist; the rendition's second part is empty *)
Definition sc_av1_empty_rendition_part : scenario :=
  {| sc_primary := av1_index;
     sc_streams := [video_stream [seg_of [[pt1 0]]; seg_of [[pt1 3000]]; seg_of [[pt1 6000]]];
                    audio_stream [seg_of [[pt1 0]]; seg_of [[]]; seg_of [[pt1 2048]]]];
     sc_onTracksErr := false |}.

Lemma av1_with_empty_rendition_part_plays :
  client_run_fixed sc_av1_empty_rendition_part 0 =
    {| o_tracks := Some [Some GAV1; Some GMPEG4Audio]; o_counts := [[3%nat]; [2%nat]]; o_decodeErrors := 0;
       o_end := Ok tt |}.
Proof. vm_compute. reflexivity. Qed.

(* the regression of d590576 (findings/C13-F21-regression-leading-empty-segment.json): the LEADING
   stream's only segment has no tracks, renditions exist: an error, not a wedge *)
Definition sc_leading_empty_with_rendition : scenario :=
  {| sc_primary := av1_index;
     sc_streams := [video_stream [seg_of [[]]]; audio_stream [seg_of [[pt1 0]]]];
     sc_onTracksErr := false |}.

Lemma leading_empty_segment_is_an_error :
  o_end (client_run_fixed sc_leading_empty_with_rendition 0) = Err ENoLeadingData.
Proof. vm_compute. reflexivity. Qed.
