(* Disk backend refines the specification (simulation relation DRel). *)
From Coq Require Import List ZArith Lia Bool Arith.
From GoHls Require Import Model.Storage Proofs.StorageLists Proofs.StorageRam.
Import ListNotations.
Local Open Scope Z_scope.

Definition total (ls : list (list Z)) : Z := Z.of_nat (length (concat ls)).

Lemma total_snoc ls l : total (ls ++ [l]) = total ls + Z.of_nat (length l).
Proof. unfold total. rewrite concat_app_single, app_length. lia. Qed.

Lemma total_nil : total [] = 0.
Proof. reflexivity. Qed.

Lemma total_cons l ls : total (l :: ls) = Z.of_nat (length l) + total ls.
Proof. unfold total. simpl. rewrite app_length. lia. Qed.

(* completed parts: offsets are the running sums, sizes are the lengths;
   [closed] says whether the RAM mirror has been dropped *)
Definition buf_rel (closed : bool) (p : dpart) (l : list Z) : Prop :=
  if closed then d_buf p = None
  else exists b, d_buf p = Some b /\ sb_bytes b = l.

Fixpoint Done (closed : bool) (ps : list dpart) (ls : list (list Z)) (off : Z) : Prop :=
  match ps, ls with
  | [], [] => True
  | p :: ps', l :: ls' =>
      d_offset p = off /\ d_size p = Z.of_nat (length l) /\ buf_rel closed p l
      /\ Done closed ps' ls' (off + Z.of_nat (length l))
  | _, _ => False
  end.

Lemma Done_length c ps : forall ls off, Done c ps ls off -> length ps = length ls.
Proof.
  induction ps as [|p ps IH]; intros [|l ls] off H; simpl in *; try tauto.
  destruct H as (_ & _ & _ & H). f_equal. eauto.
Qed.

Lemma Done_snoc c ps : forall ls off p l,
  Done c (ps ++ [p]) (ls ++ [l]) off <->
  Done c ps ls off /\ d_offset p = off + total ls /\ d_size p = Z.of_nat (length l)
  /\ buf_rel c p l.
Proof.
  induction ps as [|q ps IH]; intros [|m ls] off p l.
  - simpl. rewrite total_nil. intuition lia.
  - simpl. split.
    + intros (_ & _ & _ & H). destruct ls; simpl in H; tauto.
    + tauto.
  - simpl. split.
    + intros (_ & _ & _ & H). destruct ps; simpl in H; tauto.
    + tauto.
  - cbn [app Done]. rewrite IH. rewrite total_cons. intuition lia.
Qed.

Lemma Done_nth c ps : forall ls off i p,
  Done c ps ls off -> nth_error ps i = Some p ->
  exists l, nth_error ls i = Some l
            /\ d_offset p = off + total (firstn i ls)
            /\ d_size p = Z.of_nat (length l) /\ buf_rel c p l.
Proof.
  induction ps as [|q ps IH]; intros [|m ls] off i p H Hn; simpl in H; try tauto.
  - destruct i; discriminate.
  - destruct H as (Ho & Hs & Hb & H).
    destruct i as [|i].
    + injection Hn as <-. exists m. simpl. rewrite total_nil. repeat split; auto. lia.
    + simpl in Hn. destruct (IH _ _ _ _ H Hn) as (l & H1 & H2 & H3 & H4).
      exists l. simpl. rewrite total_cons. repeat split; auto. lia.
Qed.

(* reading a completed part back from the finalized file *)
Lemma read_part_back (ls : list (list Z)) : forall i l,
  nth_error ls i = Some l ->
  firstn (length l) (skipn (length (concat (firstn i ls))) (concat ls)) = l.
Proof.
  induction ls as [|m ls IH]; intros i l H.
  - destruct i; discriminate.
  - destruct i as [|i].
    + injection H as <-. simpl. rewrite firstn_app, firstn_all, Nat.sub_diag. simpl.
      now rewrite app_nil_r.
    + simpl in H. simpl. rewrite app_length, skipn_app.
      rewrite (@skipn_all2 _ _ m) by lia.
      replace (length m + length (concat (firstn i ls)) - length m)%nat
        with (length (concat (firstn i ls))) by lia.
      simpl. now apply IH.
Qed.

(* the parts of a file that is still open *)
Definition OpenParts (ps : list dpart) (ls : list (list Z)) (pos : Z) : Prop :=
  (ps = [] /\ ls = [] /\ pos = 0) \/
  exists ps0 pl ls0 l b,
    ps = ps0 ++ [pl] /\ ls = ls0 ++ [l] /\ Done false ps0 ls0 0 /\
    d_buf pl = Some b /\ sb_bytes b = l /\ sb_ok b /\ sb_pos b = pos /\
    d_offset pl = total ls0 /\ d_woff pl = d_offset pl + sb_pos b /\ d_size pl = 0.

Record DRel (d : disk) (s : spec) (w : wfst) : Prop := {
  dr_handles : d_handles d = sp_handles s;
  dr_exists : f_exists d = negb (w_removed w);
  dr_wfinal : w_final w = sp_final s;
  dr_open : f_open d = negb (sp_final s);
  dr_wparts : w_parts w = length (sp_parts s);
  dr_whandles : w_handles w = length (sp_handles s);
  dr_state :
    if sp_final s then
      Done true (d_parts d) (sp_parts s) 0 /\ f_bytes d = concat (sp_parts s)
      /\ d_final d = total (sp_parts s)
    else
      d_final d = 0 /\ OpenParts (d_parts d) (sp_parts s) (sp_pos s)
      /\ Z.of_nat (length (f_bytes d)) <= total (sp_parts s)
      /\ f_bytes d ++ zeros (Z.to_nat (total (sp_parts s)) - length (f_bytes d))
         = concat (sp_parts s)
}.

Definition w0 : wfst := {| w_parts := 0; w_final := false; w_removed := false; w_handles := 0 |}.

Lemma DRel_init : DRel disk_init spec_init w0.
Proof.
  constructor; simpl; auto. repeat split; auto.
  - left. auto.
  - unfold total. simpl. lia.
Qed.

Lemma set_last_size_snoc ps p :
  set_last_size (ps ++ [p]) =
  ps ++ [{| d_buf := d_buf p; d_woff := d_woff p; d_offset := d_offset p; d_size := buf_len p |}].
Proof. unfold set_last_size. now rewrite upd_last_app. Qed.

Lemma last_end_snoc ps p : last_end (ps ++ [p]) = d_offset p + d_size p.
Proof. unfold last_end. rewrite rev_app_distr. reflexivity. Qed.

Lemma Done_close ps : forall ls off,
  Done false ps ls off ->
  Done true (map (fun p => {| d_buf := None; d_woff := d_woff p; d_offset := d_offset p;
                              d_size := d_size p |}) ps) ls off.
Proof.
  induction ps as [|p ps IH]; intros [|l ls] off H; simpl in *; try tauto.
  destruct H as (H1 & H2 & _ & H4). repeat split; auto.
Qed.

Lemma truncate_pad f n : (length f <= n)%nat -> truncate f n = f ++ zeros (n - length f).
Proof. intros H. unfold truncate. now rewrite firstn_all2 by lia. Qed.

Lemma match_snoc {A B} (l : list A) x (a b : B) :
  match l ++ [x] with [] => a | _ :: _ => b end = b.
Proof. destruct l; reflexivity. Qed.

Ltac mk := constructor; cbn [d_handles f_exists f_open d_parts f_bytes d_final
                      sp_handles sp_parts sp_pos sp_final w_removed w_final w_parts w_handles]; auto; try congruence.

Lemma disk_step_sim d s w w' o :
  DRel d s w -> wf_step w o = Some w' ->
  let '(d', ob) := disk_step d o in
  let '(s', ob') := spec_step s o in
  ob = ob' /\ DRel d' s' w'.
Proof.
  intros HR Hwf. destruct HR as [Hh Hex Hwfin Hop Hwp Hwh Hst].
  destruct o as [|bs|wh off| | |p|t|h n|].
  - (* NewPart *)
    cbn [wf_step] in Hwf. destruct (w_final w) eqn:Ef; [discriminate|]. injection Hwf as <-.
    assert (Ef' : sp_final s = false) by congruence. rewrite Ef' in Hst.
    destruct Hst as (Hfin & HOP & Hlen & Hpad).
    cbn [disk_step spec_step]. split; [reflexivity|].
    mk.
    + rewrite app_length. simpl. lia.
    + rewrite Ef'.
      assert (Htot : total (sp_parts s ++ [[]]) = total (sp_parts s)).
      { rewrite total_snoc. simpl. lia. }
      rewrite Htot. rewrite concat_app_single, app_nil_r.
      repeat split; auto.
      destruct HOP as [(Hps & Hls & Hpos)|(ps0 & pl & ls0 & l & b & Hps & Hls & HD & Hb & Hbytes & Hok & Hpos & Hoff & Hwoff & Hsz)].
      * right. rewrite Hps, Hls. exists [], {| d_buf := Some sb_empty; d_woff := 0; d_offset := 0; d_size := 0 |}, [], [], sb_empty.
        unfold set_last_size. simpl. unfold sb_ok, sb_len. simpl. repeat split; auto; lia.
      * right. rewrite Hps, Hls. rewrite set_last_size_snoc, last_end_snoc.
        cbn [d_offset d_size]. unfold buf_len. rewrite Hb.
        assert (HDn : Done false
                  (ps0 ++ [{| d_buf := Some b; d_woff := d_woff pl; d_offset := d_offset pl;
                              d_size := sb_len b |}]) (ls0 ++ [l]) 0).
        { apply Done_snoc. cbn [d_offset d_size d_buf]. repeat split; auto; try lia.
          - unfold sb_len. now rewrite Hbytes.
          - exists b. auto. }
        eexists (ps0 ++ [_]), _, (ls0 ++ [l]), [], sb_empty.
        repeat split; try reflexivity; try exact HDn;
          cbn [d_offset d_woff d_size d_buf]; unfold sb_ok, sb_len; simpl; try lia.
        rewrite total_snoc. unfold sb_len. rewrite Hbytes. lia.
  - (* Write *)
    cbn [wf_step] in Hwf.
    destruct (w_final w || Nat.eqb (w_parts w) 0)%bool eqn:E; [discriminate|]. injection Hwf as <-.
    apply orb_false_iff in E. destruct E as [Ef En]. apply Nat.eqb_neq in En.
    rewrite Hwfin in Ef. rewrite Ef in *. destruct Hst as (Hfin & HOP & Hlen & Hpad).
    destruct HOP as [(Hps & Hls & Hpos)|(ps0 & pl & ls0 & l & b & Hps & Hls & HD & Hb & Hbytes & Hok & Hpos & Hoff & Hwoff & Hsz)].
    { rewrite Hls in Hwp. simpl in Hwp. lia. }
    cbn [disk_step spec_step]. rewrite Hps, rev_app_distr. cbn [rev app].
    split; [reflexivity|].
    assert (Hl' : put_all l (Z.to_nat (sp_pos s)) bs = sb_bytes (sbuf_write b bs)).
    { rewrite put_all_pwrite, <- Hpos, <- Hbytes. symmetry. now apply sbuf_write_bytes. }
    mk.
    + rewrite Hls, upd_last_app, !app_length. rewrite Hls, app_length in Hwp. simpl in *. lia.
    + rewrite Ef. rewrite Hls, !upd_last_app. rewrite Hl'.
      assert (HX : concat (ls0 ++ [sb_bytes (sbuf_write b bs)])
                   = pwrite (concat (sp_parts s)) (Z.to_nat (d_woff pl)) bs).
      { rewrite Hls, !concat_app_single. rewrite sbuf_write_bytes by exact Hok.
        rewrite Hbytes. rewrite <- pwrite_app_r. f_equal.
        rewrite Hwoff, Hoff. unfold total. unfold sb_ok in Hok. lia. }
      repeat split; auto.
      * right. eexists ps0, _, ls0, _, (sbuf_write b bs).
        pose proof (sbuf_write_ok b bs Hok) as Hok2. unfold sb_ok in Hok2.
        repeat split; try reflexivity; cbn [d_buf d_offset d_woff d_size option_map]; auto;
          try (now rewrite Hb); try lia; cbn [sbuf_write sb_pos]; lia.
      * unfold total at 1. rewrite HX.
        destruct bs as [|x bs]; [simpl; unfold total in Hlen; exact Hlen|].
        rewrite !pwrite_length by congruence. unfold total in Hlen. lia.
      * rewrite HX.
        assert (Hle1 : (length (f_bytes d) <= Z.to_nat (total (sp_parts s)))%nat) by lia.
        assert (Hle2 : (Z.to_nat (d_woff pl) <= Z.to_nat (total (sp_parts s)))%nat).
        { rewrite Hwoff, Hoff, Hls, total_snoc. unfold sb_ok, sb_len in Hok. rewrite Hbytes in Hok. lia. }
        pose proof (pad_pwrite (f_bytes d) _ _ bs Hle1 Hle2) as HP. cbv zeta in HP.
        rewrite Hpad in HP. unfold total at 1. rewrite HX. rewrite Nat2Z.id. exact HP.
  - (* Seek *)
    cbn [wf_step] in Hwf.
    destruct (w_final w || Nat.eqb (w_parts w) 0)%bool eqn:E; [discriminate|]. injection Hwf as <-.
    apply orb_false_iff in E. destruct E as [Ef En]. apply Nat.eqb_neq in En.
    rewrite Hwfin in Ef. rewrite Ef in *. destruct Hst as (Hfin & HOP & Hlen & Hpad).
    destruct HOP as [(Hps & Hls & Hpos)|(ps0 & pl & ls0 & l & b & Hps & Hls & HD & Hb & Hbytes & Hok & Hpos & Hoff & Hwoff & Hsz)].
    { rewrite Hls in Hwp. simpl in Hwp. lia. }
    cbn [disk_step spec_step]. rewrite Hps, rev_app_distr. cbn [rev app].
    rewrite Hb. rewrite <- Hpos.
    set (pos2 := match wh with SeekStart => off | SeekCurrent => sb_pos b + off end).
    assert (Ho2 : match wh with SeekStart => off + d_offset pl | SeekCurrent => off + d_woff pl end
                  = d_offset pl + pos2).
    { subst pos2. destruct wh; lia. }
    rewrite Ho2.
    destruct (pos2 <? 0) eqn:Eneg.
    + apply Z.ltb_lt in Eneg.
      assert (Hlt : (d_offset pl + pos2 <? d_offset pl) = true) by (apply Z.ltb_lt; lia).
      rewrite Hlt. split; [reflexivity|].
      constructor; auto; try congruence. rewrite Ef. repeat split; auto. right.
      exists ps0, pl, ls0, l, b. unfold sb_ok in Hok. repeat split; auto; lia.
    + apply Z.ltb_ge in Eneg.
      assert (Hge : (d_offset pl + pos2 <? d_offset pl) = false) by (apply Z.ltb_ge; lia).
      rewrite Hge.
      destruct (sbuf_seek b wh off) as [b'|] eqn:Es.
      2:{ apply sbuf_seek_none in Es. subst pos2. lia. }
      destruct (sbuf_seek_some _ _ _ _ Hok Es) as (Hok' & Hpos' & Hbytes').
      fold pos2 in Hpos'. rewrite Hpos'. split; [reflexivity|].
      mk.
      * rewrite Hls, upd_last_app, !app_length. rewrite Hls, app_length in Hwp. simpl in *. lia.
      * rewrite Ef. rewrite Hls, !upd_last_app.
        assert (Hext : extend l (Z.to_nat pos2) = sb_bytes b') by (rewrite Hbytes', Hbytes, Hpos'; reflexivity).
        rewrite Hext.
        assert (Htot : total (ls0 ++ [sb_bytes b']) = total (sp_parts s) + Z.of_nat (Z.to_nat pos2 - length l)).
        { rewrite Hls, !total_snoc. rewrite Hbytes', Hbytes. unfold extend.
          rewrite app_length, zeros_length, Hpos'. lia. }
        repeat split; auto.
        -- right. eexists ps0, _, ls0, _, b'. unfold sb_ok in Hok'.
           repeat split; try reflexivity; cbn [d_buf d_offset d_woff d_size]; auto; lia.
        -- lia.
        -- rewrite Htot. rewrite concat_app_single. rewrite Hbytes', Hbytes. unfold extend.
           rewrite app_assoc. rewrite <- concat_app_single, <- Hls, <- Hpad.
           rewrite <- app_assoc, zeros_app. f_equal. apply zeros_eq. rewrite Hpos'. lia.
  - (* Finalize *)
    cbn [wf_step] in Hwf. destruct (w_final w) eqn:Ef; [discriminate|]. injection Hwf as <-.
    assert (Ef' : sp_final s = false) by congruence. rewrite Ef' in Hst.
    destruct Hst as (Hfin & HOP & Hlen & Hpad).
    cbn [disk_step spec_step]. split; [reflexivity|].
    mk.
    destruct HOP as [(Hps & Hls & Hpos)|(ps0 & pl & ls0 & l & b & Hps & Hls & HD & Hb & Hbytes & Hok & Hpos & Hoff & Hwoff & Hsz)].
    + rewrite Hps, Hls in *. unfold set_last_size. simpl. repeat split; auto.
      simpl in Hpad. unfold total in Hlen. simpl in Hlen.
      destruct (f_bytes d); [reflexivity|simpl in Hlen; lia].
    + rewrite Hps. rewrite set_last_size_snoc.
      rewrite !match_snoc.
      rewrite last_end_snoc. cbn [d_offset d_size]. unfold buf_len. rewrite Hb.
      assert (HT : d_offset pl + sb_len b = total (sp_parts s)).
      { rewrite Hls, total_snoc, Hoff. unfold sb_len. now rewrite Hbytes. }
      rewrite HT. repeat split.
      * rewrite map_app. cbn [map d_offset d_size d_woff].
        rewrite Hls. apply Done_snoc. cbn [d_offset d_size d_buf].
        repeat split; auto; try lia; try (now apply Done_close).
        unfold sb_len. now rewrite Hbytes.
      * rewrite truncate_pad by lia. exact Hpad.
  - (* Remove *)
    cbn [wf_step] in Hwf. destruct (w_final w && negb (w_removed w))%bool eqn:E; [|discriminate].
    injection Hwf as <-. apply andb_true_iff in E. destruct E as [Ef _].
    cbn [disk_step spec_step]. split; [reflexivity|].
    mk.
  - (* Snap *)
    cbn [wf_step] in Hwf.
    destruct (Nat.ltb p (w_parts w) && negb (w_removed w))%bool eqn:E; [|discriminate].
    injection Hwf as <-. apply andb_true_iff in E. destruct E as [Elt Erm].
    apply Nat.ltb_lt in Elt. rewrite <- Hex in Erm.
    cbn [disk_step spec_step].
    split; [|constructor; auto].
    destruct (sp_final s) eqn:Ef.
    + destruct Hst as (HD & Hf & Hfin).
      pose proof (Done_length _ _ _ _ HD) as Hlenps.
      destruct (nth_error (d_parts d) p) as [dp|] eqn:En.
      2:{ apply nth_error_None in En. lia. }
      destruct (Done_nth _ _ _ _ _ _ HD En) as (l & Hl & Ho & Hs & Hb).
      rewrite Hl. simpl in Hb. rewrite Hb, Erm. f_equal.
      unfold disk_part_bytes. rewrite Hf, Ho, Hs. unfold total.
      rewrite Z.add_0_l, !Nat2Z.id. now apply read_part_back.
    + destruct Hst as (Hfin & HOP & Hlen & Hpad).
      destruct HOP as [(Hps & Hls & Hpos)|(ps0 & pl & ls0 & l & b & Hps & Hls & HD & Hb & Hbytes & Hok & Hpos & Hoff & Hwoff & Hsz)].
      { rewrite Hls in Hwp. simpl in Hwp. lia. }
      pose proof (Done_length _ _ _ _ HD) as Hlenps.
      rewrite Hps, Hls.
      destruct (lt_dec p (length ps0)) as [Hlt|Hge].
      * rewrite !nth_error_app1 by lia.
        destruct (nth_error ps0 p) as [dp|] eqn:En.
        2:{ apply nth_error_None in En. lia. }
        destruct (Done_nth _ _ _ _ _ _ HD En) as (l0 & Hl & Ho & Hs & (b0 & Hb0 & Hb0')).
        rewrite Hl, Hb0. now rewrite Hb0'.
      * assert (p = length ps0) by (rewrite Hls, app_length in Hwp; simpl in Hwp; lia). subst p.
        rewrite nth_error_app2 by lia. rewrite Nat.sub_diag.
        rewrite Hlenps. rewrite nth_error_app2 by lia. rewrite Nat.sub_diag.
        simpl. rewrite Hb. now rewrite Hbytes.
  - (* Open *)
    destruct t as [p|].
    + cbn [wf_step] in Hwf.
      destruct (((Nat.ltb (S p) (w_parts w)) || (Nat.ltb p (w_parts w) && w_final w)) && negb (w_removed w))%bool eqn:E;
        [|discriminate].
      injection Hwf as <-. apply andb_true_iff in E. destruct E as [E Erm]. rewrite <- Hex in Erm.
      cbn [disk_step spec_step].
      destruct (sp_final s) eqn:Ef.
      * destruct Hst as (HD & Hf & Hfin).
        pose proof (Done_length _ _ _ _ HD) as Hlenps.
        assert (Hlt : (p < length (d_parts d))%nat).
        { apply orb_true_iff in E. destruct E as [E|E].
          - apply Nat.ltb_lt in E. lia.
          - apply andb_true_iff in E. destruct E as [E _]. apply Nat.ltb_lt in E. lia. }
        destruct (nth_error (d_parts d) p) as [dp|] eqn:En.
        2:{ apply nth_error_None in En. lia. }
        destruct (Done_nth _ _ _ _ _ _ HD En) as (l & Hl & Ho & Hs & Hb).
        rewrite Hl. simpl in Hb. rewrite Hb, Erm.
        assert (Hrd : disk_part_bytes (f_bytes d) dp = l).
        { unfold disk_part_bytes. rewrite Hf, Ho, Hs. unfold total.
          rewrite Z.add_0_l, !Nat2Z.id. now apply read_part_back. }
        rewrite Hrd. split; [reflexivity|].
        mk; try (rewrite app_length; simpl; lia); try (rewrite Ef; auto; fail).
      * destruct Hst as (Hfin & HOP & Hlen & Hpad).
        destruct HOP as [(Hps & Hls & Hpos)|(ps0 & pl & ls0 & l & b & Hps & Hls & HD & Hb & Hbytes & Hok & Hpos & Hoff & Hwoff & Hsz)].
        { rewrite Hls in Hwp. simpl in Hwp. rewrite Hwp in E. simpl in E.
          rewrite ?andb_false_r in E. discriminate. }
        pose proof (Done_length _ _ _ _ HD) as Hlenps.
        assert (Hlt : (p < length ps0)%nat).
        { rewrite Hls, app_length in Hwp. simpl in Hwp.
          apply orb_true_iff in E. destruct E as [E|E].
          - apply Nat.ltb_lt in E. lia.
          - apply andb_true_iff in E. destruct E as [_ E]. rewrite Hwfin in E. discriminate. }
        rewrite Hps, Hls. rewrite !nth_error_app1 by lia.
        destruct (nth_error ps0 p) as [dp|] eqn:En.
        2:{ apply nth_error_None in En. lia. }
        destruct (Done_nth _ _ _ _ _ _ HD En) as (l0 & Hl & Ho & Hs & (b0 & Hb0 & Hb0')).
        rewrite Hl, Hb0, Hb0'. split; [reflexivity|].
        mk; try (rewrite app_length; simpl; lia).
        rewrite <- Hls. repeat split; auto. rewrite Hls.
        right. exists ps0, pl, ls0, l, b. unfold sb_ok in Hok. repeat split; auto; lia.
    + cbn [wf_step] in Hwf. destruct (negb (w_removed w)) eqn:Erm; [|discriminate]. injection Hwf as <-.
      cbn [disk_step spec_step]. rewrite Hop.
      destruct (sp_final s) eqn:Ef; cbn [negb].
      * destruct Hst as (HD & Hf & Hfin). rewrite Hex, Hf. split; [reflexivity|].
        mk; try (rewrite app_length; simpl; lia); try (rewrite Ef; rewrite <- Hf; auto; fail).
      * split; [reflexivity|].
        mk; try (rewrite app_length; simpl; lia); try (rewrite Ef; auto; fail).
  - (* ReadH *)
    cbn [wf_step] in Hwf. destruct (Nat.ltb h (w_handles w)) eqn:E; [|discriminate]. injection Hwf as <-.
    cbn [disk_step spec_step]. rewrite Hh.
    destruct (read_handle (sp_handles s) h n) as [hs ob] eqn:Erh.
    split; [reflexivity|].
    mk.
    unfold read_handle in Erh.
    destruct (nth_error (sp_handles s) h) as [[rem|]|]; injection Erh as <- _; auto.
    now rewrite set_nth_length.
  - (* Size *)
    cbn [wf_step] in Hwf. injection Hwf as <-.
    cbn [disk_step spec_step]. split; [|constructor; auto].
    destruct (sp_final s); destruct Hst as (H1 & H2); [destruct H2 as (_ & ->)|rewrite H1]; reflexivity.
Qed.
