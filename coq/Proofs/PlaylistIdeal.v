(* The exact decimal instance z_oracles satisfies the oracle envelope: the hypotheses of the
   C14 theorems are satisfiable. *)
From Coq Require Import List ZArith Bool String Ascii Lia.
From GoHls Require Import Model.PlaylistBase Model.PlaylistIdeal Model.PlaylistSpec
  Proofs.PlaylistStr Proofs.PlaylistNum.
Import ListNotations.
Local Open Scope string_scope.
Local Open Scope Z_scope.

Lemma pad_dec_spec n : forall z acc, 0 <= z ->
  exists ds, pad_dec n z acc = ds ++ acc /\ digits_only ds = true /\ slen ds = n
             /\ forall a, parse_digits a ds = Some (a * 10 ^ Z.of_nat n + z mod 10 ^ Z.of_nat n).
Proof.
  induction n as [|n IH]; intros z acc Hz.
  - exists "". repeat split; auto. intros a. simpl. rewrite Z.mod_1_r. f_equal. lia.
  - cbn [pad_dec].
    assert (Hd : 0 <= z mod 10 < 10) by (apply Z.mod_pos_bound; lia).
    destruct (IH (z / 10) (String (digit_char (z mod 10)) acc)) as (ds & E & D & L & P);
      [apply Z.div_pos; lia|].
    exists (ds ++ String (digit_char (z mod 10)) ""). rewrite E, app_assoc'. cbn [append].
    repeat split.
    + rewrite digits_only_app, D. cbn [digits_only]. now rewrite digit_of_char.
    + rewrite slen_app, L. cbn [slen String.length]. lia.
    + intros a. rewrite parse_digits_app, P. cbn [parse_digits]. rewrite digit_of_char by lia. f_equal.
      rewrite Nat2Z.inj_succ, Z.pow_succ_r by lia.
      assert (Hp : 0 < 10 ^ Z.of_nat n) by (apply Z.pow_pos_nonneg; lia).
      rewrite (Z.rem_mul_r z 10 (10 ^ Z.of_nat n)) by lia. ring.
Qed.

Lemma split_sign_digit c t d : digit_of c = Some d -> split_sign (String c t) = (false, String c t).
Proof.
  destruct c as [[|] [|] [|] [|] [|] [|] [|] [|]]; intros H; try discriminate H; reflexivity.
Qed.

Lemma drop_app_S' a c b : drop (S (slen a)) (a ++ String c b) = b.
Proof. induction a as [|x a IH]; simpl; [destruct b; reflexivity|exact IH]. Qed.

Lemma digits_first s : digits_only s = true -> s <> "" -> exists c t d, s = String c t /\ digit_of c = Some d.
Proof.
  destruct s as [|c t]; [congruence|]. simpl. destruct (digit_of c) eqn:E; [|discriminate]. eauto.
Qed.

Lemma parse_fixed_fmt neg q dec : 0 <= q -> parse_fixed (fmt_fixed neg q dec) = Some (neg, q, dec).
Proof.
  intros Hq. unfold fmt_fixed.
  assert (HP : 0 < 10 ^ Z.of_nat dec) by (apply Z.pow_pos_nonneg; lia).
  assert (Hi : 0 <= q / 10 ^ Z.of_nat dec) by (apply Z.div_pos; lia).
  destruct (fmt_uint_spec _ Hi) as (Di & Ni & Pi).
  destruct (pad_dec_spec dec (q mod 10 ^ Z.of_nat dec) "") as (fp & Ef & Df & Lf & Pf);
    [apply Z.mod_pos_bound; lia|].
  rewrite Ef, app_empty_r. set (ip := fmt_uint (q / 10 ^ Z.of_nat dec)) in *.
  change ("." ++ fp) with (String "." fp).
  assert (Hbody : forall body, body = ip ++ String "." fp ->
            (let '(ip0, fp0) := match index_byte "." body with
                                | Some i => (take i body, drop (S i) body)
                                | None => (body, "") end in
             if Nat.eqb (slen ip0 + slen fp0) 0 then None
             else match parse_digits 0 (ip0 ++ fp0) with
                  | Some k => Some (neg, k, slen fp0) | None => None end) = Some (neg, q, dec)).
  { intros body ->. rewrite index_byte_app_sep by (apply digits_only_no_byte; auto).
    rewrite take_app_exact, drop_app_S'.
    destruct ip as [|c t] eqn:Eip; [congruence|]. cbn [slen String.length Nat.add Nat.eqb].
    rewrite parse_digits_app, Pi, Pf, Lf. rewrite Z.mul_0_l, Z.add_0_l.
    rewrite Z.mod_mod by lia. rewrite Z.mul_comm, <- Z.div_mod by lia. reflexivity. }
  unfold parse_fixed. destruct neg.
  - cbn [append split_sign]. apply Hbody. reflexivity.
  - cbn [append]. destruct (digits_first ip Di Ni) as (c & t & d & Eip & Hc).
    assert (Es : split_sign (ip ++ String "." fp) = (false, ip ++ String "." fp)).
    { rewrite Eip. cbn [append]. apply (split_sign_digit c _ d Hc). }
    rewrite Es. apply Hbody. reflexivity.
Qed.

Lemma num_chars_fmt_fixed neg q dec : 0 <= q -> num_chars (fmt_fixed neg q dec) = true /\ fmt_fixed neg q dec <> "".
Proof.
  intros Hq. unfold fmt_fixed.
  assert (HP : 0 < 10 ^ Z.of_nat dec) by (apply Z.pow_pos_nonneg; lia).
  assert (Hi : 0 <= q / 10 ^ Z.of_nat dec) by (apply Z.div_pos; lia).
  destruct (fmt_uint_spec _ Hi) as (Di & Ni & _).
  destruct (pad_dec_spec dec (q mod 10 ^ Z.of_nat dec) "") as (fp & Ef & Df & _ & _);
    [apply Z.mod_pos_bound; lia|].
  rewrite Ef, app_empty_r. split.
  - rewrite !num_chars_app, (digits_only_num_chars _ Di), (digits_only_num_chars _ Df).
    destruct neg; reflexivity.
  - destruct neg; [discriminate|]. cbn [append].
    destruct (fmt_uint (q / 10 ^ Z.of_nat dec)); [congruence|discriminate].
Qed.

Lemma parse_int_digit c t d : digit_of c = Some d -> parse_int (String c t) = parse_digits 0 (String c t).
Proof.
  destruct c as [[|] [|] [|] [|] [|] [|] [|] [|]]; intros H; try discriminate H; reflexivity.
Qed.

Lemma parse_int_fmt_int z : parse_int (fmt_int z) = Some z.
Proof.
  unfold fmt_int. destruct (z <? 0) eqn:E.
  - apply Z.ltb_lt in E. destruct (fmt_uint_spec (- z) ltac:(lia)) as (D & N & P).
    cbn [parse_int]. destruct (fmt_uint (- z)) eqn:F; [congruence|]. first [rewrite P|rewrite <- F, P].
    cbn [option_map]. f_equal. rewrite Z.mul_0_l. lia.
  - apply Z.ltb_ge in E. destruct (fmt_uint_spec z E) as (D & N & P).
    destruct (digits_first _ D N) as (c & t & d & Ec & Hc). rewrite Ec, (parse_int_digit c t d Hc), <- Ec, P.
    f_equal.
Qed.

Lemma fmt_int_chars z c : digit_of c = None -> c <> "-"%char -> no_byte c (fmt_int z) = true.
Proof.
  intros Hc Hm. unfold fmt_int. destruct (z <? 0) eqn:E.
  - apply Z.ltb_lt in E. destruct (fmt_uint_spec (- z) ltac:(lia)) as (D & _ & _).
    cbn [no_byte]. rewrite (digits_only_no_byte c _ D Hc).
    destruct (Ascii.eqb_spec "-"%char c); [congruence|reflexivity].
  - apply Z.ltb_ge in E. destruct (fmt_uint_spec z E) as (D & _ & _). now apply digits_only_no_byte.
Qed.

Theorem z_oracles_ok : oracle_ok z_oracles.
Proof.
  constructor; cbn [z_oracles fmt_dur parse_dur fmt_rate parse_rate fmt_time parse_time].
  - (* durations *)
    intros d Hd. unfold dur_any in Hd. apply andb_true_iff in Hd as [Hb Hs]. apply Z.ltb_lt in Hb.
    set (e := (Z.abs d + 5000) / 10000).
    assert (He : 0 <= e) by (apply Z.div_pos; lia).
    assert (Hdiv : 10000 * e <= Z.abs d + 5000 < 10000 * e + 10000).
    { unfold e. pose proof (Z.div_mod (Z.abs d + 5000) 10000 ltac:(lia)).
      pose proof (Z.mod_pos_bound (Z.abs d + 5000) 10000 ltac:(lia)). lia. }
    exists (if d <? 0 then - (e * 10000) else e * 10000).
    unfold z_parse_dur, z_fmt_dur. fold e. rewrite parse_fixed_fmt by exact He.
    assert (Hq : e * 1000000000 / 10 ^ Z.of_nat 5 = e * 10000).
    { change (10 ^ Z.of_nat 5) with 100000. replace (e * 1000000000) with (e * 10000 * 100000) by ring.
      apply Z.div_mul. lia. }
    rewrite Hq.
    assert (Hsign : d <? 0 = true -> 1 <= e).
    { intros Hn. apply Z.ltb_lt in Hn. apply orb_true_iff in Hs as [Hs|Hs];
        [apply Z.leb_le in Hs; lia|apply Z.ltb_lt in Hs; lia]. }
    repeat split.
    + unfold dur_close. apply Z.ltb_lt. destruct (d <? 0) eqn:En;
        [apply Z.ltb_lt in En|apply Z.ltb_ge in En]; lia.
    + destruct (d <? 0) eqn:En.
      * specialize (Hsign eq_refl).
        replace (- (e * 10000) <? 0) with true by (symmetry; apply Z.ltb_lt; lia).
        replace (Z.abs (- (e * 10000))) with (e * 10000) by lia.
        replace ((e * 10000 + 5000) / 10000) with e; [reflexivity|].
        apply Z.div_unique with 5000; lia.
      * replace (e * 10000 <? 0) with false by (symmetry; apply Z.ltb_ge; lia).
        replace (Z.abs (e * 10000)) with (e * 10000) by lia.
        replace ((e * 10000 + 5000) / 10000) with e; [reflexivity|].
        apply Z.div_unique with 5000; lia.
    + intros Hbig. assert (1 <= e) by lia. destruct (d <? 0); lia.
  - intros d. unfold z_fmt_dur. apply num_chars_fmt_fixed. apply Z.div_pos; lia.
  - (* frame rates *)
    intros f Hf. unfold rate_ok in Hf. apply andb_true_iff in Hf as [Hf Hm]. apply andb_true_iff in Hf as [H0 H1].
    apply Z.leb_le in H0. apply Z.eqb_eq in Hm.
    unfold z_parse_rate, z_fmt_rate.
    replace (f <? 0) with false by (symmetry; apply Z.ltb_ge; lia).
    assert (Hq : (Z.abs f + 500000) / 1000000 = f / 1000000).
    { pose proof (Z.div_mod f 1000000 ltac:(lia)). rewrite Hm in H.
      symmetry. apply Z.div_unique with 500000; lia. }
    rewrite Hq, parse_fixed_fmt by (apply Z.div_pos; lia).
    change (10 ^ Z.of_nat 3) with 1000.
    replace (f / 1000000 * 1000000000) with (f / 1000000 * 1000000 * 1000) by ring.
    rewrite Z.div_mul by lia. f_equal.
    pose proof (Z.div_mod f 1000000 ltac:(lia)). lia.
  - intros f. unfold z_fmt_rate. apply num_chars_fmt_fixed. apply Z.div_pos; lia.
  - (* date-times *)
    intros t Ht. unfold z_parse_time, z_fmt_time.
    change ("@" ++ fmt_int (dt_off t)) with (String "@" (fmt_int (dt_off t))).
    rewrite index_byte_app_sep by (apply fmt_int_chars; [reflexivity|discriminate]).
    rewrite take_app_exact, drop_app_S', !parse_int_fmt_int.
    eexists. split; [reflexivity|]. cbn [dt_ns dt_off].
    pose proof (Z.div_mod (dt_ns t) 1000000 ltac:(lia)).
    pose proof (Z.mod_pos_bound (dt_ns t) 1000000 ltac:(lia)).
    split.
    + unfold time_close. cbn [dt_ns dt_off]. rewrite Z.eqb_refl, andb_true_r. apply Z.ltb_lt. lia.
    + rewrite Z.div_mul by lia. reflexivity.
  - intros t. unfold z_fmt_time, no_crlf.
    change ("@" ++ fmt_int (dt_off t)) with (String "@" (fmt_int (dt_off t))).
    rewrite !no_byte_app. cbn [no_byte].
    rewrite !fmt_int_chars by (reflexivity || discriminate). reflexivity.
Qed.
