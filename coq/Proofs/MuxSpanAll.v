(* C03, all streams of the muxer: in the media playlist of EVERY stream (leading or not), the EXTINF of
   a listed non-gap segment is the media time the segment at the same position of the leading stream
   spans on the leading track - obtained from the leading stream's span theorem (MuxSpanHist.v) and the
   agreement of all streams on ids, gap flags, start and end times and wall clocks between two writes
   (MuxAgree.v); likewise EXT-X-PROGRAM-DATE-TIME is the wall clock of that segment's first unit. *)
From Coq Require Import List ZArith Bool Lia Arith.
From GoHls Require Import Model.Mux Proofs.MuxStream Proofs.MuxLift Proofs.MuxWindow Proofs.MuxHistory Proofs.MuxTimes
  Proofs.MuxMulti Proofs.MuxCut Proofs.MuxLog Proofs.MuxLogStep Proofs.MuxLogTS Proofs.MuxPartIds Proofs.MuxAgree
  Proofs.MuxGroups Proofs.MuxRAStart Proofs.MuxRAHist Proofs.MuxChain Proofs.MuxPlaylist Proofs.MuxSpan Proofs.MuxSpanInv
  Proofs.MuxSpanHist.
Import ListNotations.
Local Open Scope Z_scope.

Lemma leading_exists c m0 ops :
  start c = Ok m0 -> exists sl, nth_error (m_streams (mux_run m0 ops)) (leading_index (mux_run m0 ops)) = Some sl.
Proof.
  intros Hs. destruct (AGI_mux_run ops m0 (start_AGI c m0 Hs)) as [_ (k & Hk & Hu) _].
  rewrite leading_index_flags, (lead_go_unique _ 0 k Hk Hu). cbn [Nat.add].
  destruct (map_nth_error_inv _ _ _ _ Hk) as (sl & Hsl & _). now exists sl.
Qed.

Lemma map_nth_shape (l1 l2 : list segrec) i g :
  map seg_shape l1 = map seg_shape l2 -> nth_error l1 i = Some g ->
  exists g', nth_error l2 i = Some g' /\ seg_shape g = seg_shape g'.
Proof.
  intros E Hg. pose proof (map_nth_error seg_shape i l1 Hg) as H1. rewrite E in H1.
  destruct (map_nth_error_inv _ _ _ _ H1) as (g' & Hg' & Hs). exists g'. split; [exact Hg'|now symmetry].
Qed.

Lemma nth_split_published (s : stream) i g :
  nth_error (st_segments s) i = Some g ->
  published s = (st_evicted s ++ firstn i (st_segments s)) ++ g :: skipn (S i) (st_segments s).
Proof.
  intros Hg. unfold published. rewrite <- app_assoc. f_equal.
  rewrite <- (firstn_skipn i (st_segments s)) at 1. f_equal.
  revert i Hg. induction (st_segments s) as [|a l IH]; intros [|i] Hg; try discriminate.
  - now injection Hg as ->.
  - cbn [skipn]. now apply IH.
Qed.

Theorem extinf_is_leading_span_all_streams c m0 ops :
  start c = Ok m0 -> c_variant c <> MPEGTS -> all_ok m0 ops ->
  let m := mux_run m0 ops in
  let li := leading_index m in
  forall si s t pl i e,
    nth_error (m_streams m) si = Some s -> nth_error (m_tracks m) li = Some t ->
    gen_media_playlist m si = Some pl ->
    nth_error (pl_segs pl) i = Some e -> ps_gap e = false ->
    exists sl gl x rest y after,
      nth_error (m_streams m) li = Some sl /\ nth_error (st_segments sl) i = Some gl
      /\ sg_gap gl = false /\ ps_id e = sg_id gl
      /\ seg_samples gl = x :: rest
      /\ slog m li ++ pend_list m li
         = flat_map seg_samples (real_segs (st_evicted sl ++ firstn i (st_segments sl))) ++ (x :: rest) ++ y :: after
      /\ ps_dur e = timestampToDuration (s_dts y) (t_rate (tk_cfg t)) - timestampToDuration (s_dts x) (t_rate (tk_cfg t)).
Proof.
  intros Hs Hv Hok. cbv zeta. intros si s t pl i e Es Et Hpl He Hgap.
  destruct (leading_exists c m0 ops Hs) as (sl & Esl).
  destruct (listed_segment _ _ s pl i e Es Hpl He Hgap) as (g & Hg & Hgg & Hid & Hdur & _ & _).
  assert (Hsh : shape s = shape sl).
  { apply (streams_agree c m0 ops); [exact Hs| |]; eapply nth_error_In; eauto. }
  unfold shape in Hsh. injection Hsh as _ _ Hsegs _.
  destruct (map_nth_shape _ _ i g Hsegs Hg) as (gl & Hgl & Hshape).
  unfold seg_shape in Hshape. inversion Hshape as [[Hgap' Hid' Hst Hen Hntp]].
  assert (Hggl : sg_gap gl = false) by congruence.
  destruct (segment_times_are_first_units c m0 ops Hs Hv Hok sl t _ gl _ Esl Et (nth_split_published sl i gl Hgl) Hggl)
    as (_ & _ & x & rest & y & after & A & B & C & _ & E).
  exists sl, gl, x, rest, y, after.
  split; [exact Esl|]. split; [exact Hgl|]. split; [exact Hggl|]. split; [congruence|]. split; [exact A|].
  split; [exact B|]. rewrite Hdur. unfold sg_dur. now rewrite Hst, Hen, C, E.
Qed.

(* ... and EXT-X-PROGRAM-DATE-TIME, where a stream's playlist prints it for a non-gap segment, is the wall clock
   written with the first sample of the leading stream's segment at the same position *)
Theorem date_time_is_leading_first_unit_all_streams c m0 ops :
  start c = Ok m0 -> c_variant c <> MPEGTS -> all_ok m0 ops ->
  let m := mux_run m0 ops in
  let li := leading_index m in
  forall si s pl i e,
    nth_error (m_streams m) si = Some s -> gen_media_playlist m si = Some pl ->
    nth_error (pl_segs pl) i = Some e -> ps_gap e = false ->
    exists sl gl x rest,
      nth_error (m_streams m) li = Some sl /\ nth_error (st_segments sl) i = Some gl
      /\ sg_gap gl = false /\ ps_id e = sg_id gl
      /\ seg_samples gl = x :: rest
      /\ forall ntp, ps_dt e = Some ntp -> ntp = s_ntp x.
Proof.
  intros Hs Hv Hok. cbv zeta. intros si s pl i e Es Hpl He Hgap.
  destruct (leading_exists c m0 ops Hs) as (sl & Esl).
  destruct (listed_segment _ _ s pl i e Es Hpl He Hgap) as (g & Hg & Hgg & Hid & _ & Hdt & _).
  assert (Hsh : shape s = shape sl).
  { apply (streams_agree c m0 ops); [exact Hs| |]; eapply nth_error_In; eauto. }
  unfold shape in Hsh. injection Hsh as _ _ Hsegs _.
  destruct (map_nth_shape _ _ i g Hsegs Hg) as (gl & Hgl & Hshape).
  unfold seg_shape in Hshape. inversion Hshape as [[Hgap' Hid' Hst Hen Hntp]].
  assert (Hggl : sg_gap gl = false) by congruence.
  destruct (start_LI c m0 Hs Hv) as [HL0 _].
  pose proof (LI_mux_run ops m0 HL0) as HL.
  assert (Et : exists t, nth_error (m_tracks (mux_run m0 ops)) (leading_index (mux_run m0 ops)) = Some t).
  { destruct (nth_error (m_tracks (mux_run m0 ops)) (leading_index (mux_run m0 ops))) as [t|] eqn:E; [eauto|].
    apply nth_error_None in E. rewrite <- (li_len _ HL) in E.
    assert (leading_index (mux_run m0 ops) < length (m_streams (mux_run m0 ops)))%nat by (apply nth_error_Some; congruence). lia. }
  destruct Et as (t & Et).
  destruct (segment_times_are_first_units c m0 ops Hs Hv Hok sl t _ gl _ Esl Et (nth_split_published sl i gl Hgl) Hggl)
    as (_ & _ & x & rest & y & after & A & _ & _ & D & _).
  exists sl, gl, x, rest.
  split; [exact Esl|]. split; [exact Hgl|]. split; [exact Hggl|]. split; [congruence|]. split; [exact A|].
  intros ntp Hn. rewrite (Hdt ntp Hn), Hntp. exact D.
Qed.
