(* M9 proofs, part 2: the fMP4 stream processor - invariants and panic freedom under
   "every init track has a codec gohlslib knows and a non-zero time scale". *)
From Coq Require Import List ZArith Bool String Lia.
From GoHls Require Import Model.ClientContent Proofs.ClientContentOps.
Import ListNotations.
Local Open Scope Z_scope.

Ltac splits := repeat match goal with |- _ /\ _ => split end.

Definition mk_track (t : init_track) : track :=
  {| t_codec := FromFMP4 (it_codec t); t_clockRate := it_timescale t |}.

Definition it_good (t : init_track) : Prop := FromFMP4 (it_codec t) <> None /\ it_timescale t <> 0.
Definition init_good (i : list init_track) : Prop := Forall it_good i.

Lemma init_good_of_bools : forall i,
  init_supported i = true -> init_timescales_ok i = true -> init_good i.
Proof.
  intros i Hs Ht. unfold init_supported, init_timescales_ok in *.
  rewrite forallb_forall in Hs, Ht. apply Forall_forall. intros t Hin. split.
  - specialize (Hs t Hin). destruct (FromFMP4 (it_codec t)); congruence.
  - specialize (Ht t Hin). apply negb_true_iff in Ht. apply Z.eqb_neq in Ht. auto.
Qed.

Lemma mk_track_ok : forall i t, it_good t ->
  tproc_ok {| tp_idx := i; tp_track := mk_track t; tp_decode := tp_initialize (mk_track t) |}.
Proof.
  intros i t [Hc Ht]. split; cbn; auto.
  intro H. apply tp_initialize_none in H. cbn in H. contradiction.
Qed.

(* ---------- the processor map ---------- *)
Definition procs_ok (procs : list (Z * tproc)) : Prop := Forall (fun kv => tproc_ok (snd kv)) procs.

Lemma fold_find_some : forall id procs acc,
  (acc <> None \/ In id (map fst procs)) ->
  fold_left (fun a (kv : Z * tproc) => if fst kv =? id then Some (snd kv) else a) procs acc <> None.
Proof.
  intros id procs. induction procs as [|kv r IH]; intros acc H; cbn.
  - destruct H as [H|[]]; auto.
  - apply IH. destruct (fst kv =? id) eqn:E.
    + left. discriminate.
    + destruct H as [H|[H|H]]; auto. apply Z.eqb_neq in E. contradiction.
Qed.

Lemma fold_find_P : forall (P : tproc -> Prop) id procs acc,
  (forall tp, acc = Some tp -> P tp) -> Forall (fun kv => P (snd kv)) procs ->
  forall tp, fold_left (fun a (kv : Z * tproc) => if fst kv =? id then Some (snd kv) else a) procs acc = Some tp -> P tp.
Proof.
  intros P id procs. induction procs as [|kv r IH]; intros acc Ha Hf tp H; cbn in H.
  - auto.
  - inversion Hf; subst. eapply IH; [|eassumption|exact H].
    intros tp' E. destruct (fst kv =? id); [inversion E; subst; auto|auto].
Qed.

Lemma find_proc_in : forall procs id, In id (map fst procs) -> find_proc procs id <> None.
Proof. intros. unfold find_proc. apply fold_find_some. auto. Qed.

Lemma find_proc_ok : forall procs id tp, procs_ok procs -> find_proc procs id = Some tp -> tproc_ok tp.
Proof.
  intros procs id tp H E. unfold find_proc in E.
  eapply (fold_find_P tproc_ok); [|exact H|exact E]. intros ? ?; discriminate.
Qed.

Lemma build_procs_spec : forall suf pre,
  init_good suf ->
  exists procs, build_procs (List.length pre) (map mk_track suf) (pre ++ suf) = Ok procs
                /\ procs_ok procs /\ map fst procs = map it_id suf.
Proof.
  induction suf as [|t suf IH]; intros pre Hg; cbn [map build_procs].
  - exists []. splits; constructor.
  - inversion Hg as [|? ? Ht Hs]; subst.
    assert (N : nth_error (pre ++ t :: suf) (List.length pre) = Some t).
    { rewrite nth_error_app2 by lia. rewrite Nat.sub_diag. reflexivity. }
    unfold index_at. destruct (Z.of_nat (List.length pre) <? 0) eqn:E; [apply Z.ltb_lt in E; lia|].
    rewrite Nat2Z.id, N. cbn [bind].
    specialize (IH (pre ++ [t]) Hs). rewrite app_length in IH. cbn [List.length] in IH.
    rewrite Nat.add_1_r in IH. rewrite <- app_assoc in IH. cbn [app] in IH.
    destruct IH as [procs [E1 [E2 E3]]]. rewrite E1. cbn [bind].
    eexists. split; [reflexivity|]. split.
    + constructor; [apply mk_track_ok; auto|auto].
    + cbn. f_equal. auto.
Qed.

Lemma build_procs_noof : forall cst i init, is_oof (build_procs i cst init) = false.
Proof.
  induction cst as [|t r IH]; intros; cbn; auto.
  apply bind_noof; [apply index_at_noof|]. intros. apply bind_noof; [apply IH|auto].
Qed.

(* ---------- helpers about the leading track ---------- *)
Lemma find_pt_id : forall pts id pt, find_pt pts id = Some pt -> pt_id pt = id.
Proof.
  induction pts as [|x r IH]; intros id pt H; cbn in H; [discriminate|].
  destruct (pt_id x =? id) eqn:E; [inversion H; subst; apply Z.eqb_eq; auto|eauto].
Qed.

Lemma findFirst_id : forall parts id pt, findFirstPartTrackOfLeadingTrack parts id = Some pt -> pt_id pt = id.
Proof.
  induction parts as [|p r IH]; intros id pt H; cbn in H; [discriminate|].
  destruct (find_pt p id) eqn:E; [inversion H; subst; eapply find_pt_id; eauto|eauto].
Qed.

Lemma findTimeScale_nz : forall init id,
  init_good init -> (exists t, In t init /\ it_id t = id) -> findTimeScaleOfLeadingTrack init id <> 0.
Proof.
  induction init as [|t r IH]; intros id Hg [t0 [Hin Hid]]; [destruct Hin|].
  inversion Hg as [|? ? [_ Ht] Hr]; subst. cbn.
  destruct (it_id t =? it_id t0) eqn:E; auto.
  destruct Hin as [->|Hin]; [rewrite Z.eqb_refl in E; discriminate|].
  apply IH; eauto.
Qed.

Lemma pick_video_in : forall tracks id,
  pick_video tracks = Ok (Some id) -> exists t, In t tracks /\ it_id t = id.
Proof.
  induction tracks as [|t r IH]; intros id H; cbn in H; [discriminate|].
  destruct (fmp4_IsVideo (it_codec t)) as [[]| | |] eqn:E; cbn in H; try discriminate.
  - inversion H; subst. exists t; split; auto. left; auto.
  - destruct (IH _ H) as [t' [Hin Hid]]. exists t'; split; auto. right; auto.
Qed.

Lemma pick_video_np : forall tracks,
  Forall (fun t => it_codec t <> FNil) tracks -> is_panic (pick_video tracks) = false.
Proof.
  induction tracks as [|t r IH]; intros H; cbn; auto.
  inversion H; subst. apply bind_np.
  - destruct (it_codec t); cbn; auto. congruence.
  - intros [] _; auto.
Qed.

Lemma fmp4PickLeadingTrack_spec : forall tracks,
  tracks <> [] -> Forall (fun t => it_codec t <> FNil) tracks ->
  exists id, fmp4PickLeadingTrack tracks = Ok id /\ exists t, In t tracks /\ it_id t = id.
Proof.
  intros tracks Hne Hf. unfold fmp4PickLeadingTrack.
  pose proof (pick_video_np tracks Hf) as Hp.
  destruct (pick_video tracks) as [[id|]| | |] eqn:E; cbn in *; try discriminate.
  - exists id. split; auto. apply pick_video_in; auto.
  - destruct tracks as [|t r]; [contradiction|]. cbn. exists (it_id t). split; auto. exists t. split; auto.
  - (* Err: pick_video never returns Err *)
    exfalso. clear -E. induction tracks as [|t r IH]; cbn in E; [discriminate|].
    destruct (it_codec t); cbn in E; try discriminate; auto.
  - exfalso. clear -E. induction tracks as [|t r IH]; cbn in E; [discriminate|].
    destruct (it_codec t); cbn in E; try discriminate; auto.
Qed.

Lemma fmp4PickLeadingTrack_noof : forall tracks, is_oof (fmp4PickLeadingTrack tracks) = false.
Proof.
  intros. unfold fmp4PickLeadingTrack. apply bind_noof.
  - induction tracks as [|t r IH]; cbn; auto. destruct (it_codec t); cbn; auto.
  - intros [id|] _; auto. apply bind_noof; [apply index_at_noof|auto].
Qed.

(* ---------- invariants ---------- *)
Record fsp_ok (p : fsp) : Prop := {
  fo_cst : f_cst p = map mk_track (f_init p);
  fo_good : init_good (f_init p);
  fo_lead : exists t, In t (f_init p) /\ it_id t = f_leadingTrackID p;
  fo_procs : forall procs, f_procs p = Some procs ->
             procs_ok procs /\ map fst procs = map it_id (f_init p)
}.

Definition link (p : fsp) (c : option conv) : Prop :=
  f_procs p <> None -> exists tc, c = Some (CFmp4 tc).

Definition conv_ok (c : option conv) : Prop :=
  match c with Some (CFmp4 tc) => tconv_ok tc | _ => True end.

(* ---------- inner loops ---------- *)
Lemma pt_loop_np : forall rep procs tc el pts counts js,
  procs_ok procs -> tconv_ok tc ->
  is_panic (pt_loop rep procs (Some (CFmp4 tc)) el pts counts js) = false.
Proof.
  intros rep procs tc el pts. induction pts as [|pt r IH]; intros counts js Hp Hc; cbn; auto.
  destruct (find_proc procs (pt_id pt)) as [tp|] eqn:F; auto.
  pose proof (find_proc_ok _ _ _ Hp F) as [Hd Hr].
  destruct (fconvert_ok tc (wrap64 (pt_baseTime pt)) (t_clockRate (tp_track tp)) (proj1 Hc)) as [dts ->]. cbn.
  destruct (fgetNTP_ok tc dts _ Hc Hr) as [ntp ->]. cbn.
  destruct (j_is_stuck js (tp_idx tp)); auto.
  apply bind_np; [apply process_np; split; auto|]. intros. apply IH; auto.
Qed.

Lemma pt_loop_noof : forall rep procs c el pts counts js, is_oof (pt_loop rep procs c el pts counts js) = false.
Proof.
  intros rep procs c el pts. induction pts as [|pt r IH]; intros counts js; cbn; auto.
  destruct (find_proc procs (pt_id pt)) as [tp|]; auto.
  apply bind_noof; [destruct c as [[|]|]; auto|]. intros.
  apply bind_noof; [apply fconvert_noof|]. intros.
  apply bind_noof; [apply fgetNTP_noof|]. intros.
  destruct (j_is_stuck js (tp_idx tp)); auto.
  apply bind_noof; [apply process_loop_noof|]. intros. apply IH.
Qed.

Lemma parts_loop_np : forall rep procs tc el parts counts js,
  procs_ok procs -> tconv_ok tc ->
  is_panic (parts_loop rep procs (Some (CFmp4 tc)) el parts counts js) = false.
Proof.
  intros rep procs tc el parts. induction parts as [|p r IH]; intros counts js Hp Hc; cbn; auto.
  apply bind_np; [apply pt_loop_np; auto|]. intros. apply IH; auto.
Qed.

Lemma parts_loop_noof : forall rep procs c el parts counts js, is_oof (parts_loop rep procs c el parts counts js) = false.
Proof.
  intros rep procs c el parts. induction parts as [|p r IH]; intros counts js; cbn; auto.
  apply bind_noof; [apply pt_loop_noof|]. intros. apply IH.
Qed.

(* ---------- initializeTrackProcessors ---------- *)
Lemma fmp4_init_spec : forall p c pt,
  fsp_ok p -> f_procs p = None -> conv_ok c ->
  is_panic (fmp4_initializeTrackProcessors p c pt) = false /\
  forall p' c', fmp4_initializeTrackProcessors p c pt = Ok (p', c') ->
    fsp_ok p' /\ conv_ok c' /\ f_procs p' <> None /\ (exists tc, c' = Some (CFmp4 tc))
    /\ f_isLeading p' = f_isLeading p /\ f_leadingTrackID p' = f_leadingTrackID p.
Proof.
  intros p c pt Hok Hn Hc. unfold fmp4_initializeTrackProcessors.
  destruct (build_procs_spec (f_init p) [] (fo_good _ Hok)) as [procs [Eb [Hp Hk]]].
  cbn [List.length app] in Eb. rewrite <- (fo_cst _ Hok) in Eb.
  assert (K : forall c1 : option conv, conv_ok c1 -> (exists tc, c1 = Some (CFmp4 tc)) ->
          is_panic (bind (Ok c1) (fun c' => procs <- build_procs 0 (f_cst p) (f_init p) ;;
             Ok ({| f_isLeading := f_isLeading p; f_init := f_init p; f_leadingTrackID := f_leadingTrackID p;
                    f_cst := f_cst p; f_procs := Some procs; f_repJoin := f_repJoin p |}, c'))) = false /\
          forall p' c', bind (Ok c1) (fun c' => procs <- build_procs 0 (f_cst p) (f_init p) ;;
             Ok ({| f_isLeading := f_isLeading p; f_init := f_init p; f_leadingTrackID := f_leadingTrackID p;
                    f_cst := f_cst p; f_procs := Some procs; f_repJoin := f_repJoin p |}, c')) = Ok (p', c') ->
            fsp_ok p' /\ conv_ok c' /\ f_procs p' <> None /\ (exists tc, c' = Some (CFmp4 tc))
            /\ f_isLeading p' = f_isLeading p /\ f_leadingTrackID p' = f_leadingTrackID p).
  { intros c1 Hc1 Hex. cbn [bind]. rewrite Eb. cbn [bind]. split; [reflexivity|].
    intros p' c' E. inversion E; subst. splits; cbn; auto; try discriminate.
    constructor; cbn.
    - apply (fo_cst _ Hok).
    - apply (fo_good _ Hok).
    - apply (fo_lead _ Hok).
    - intros procs0 H. inversion H; subst; auto. }
  destruct (f_isLeading p) eqn:L.
  - apply K.
    + cbn. split; cbn; auto. apply findTimeScale_nz; [apply (fo_good _ Hok)|apply (fo_lead _ Hok)].
    + eauto.
  - destruct c as [[tc|tc]|]; cbn [bind].
    + apply K; eauto.
    + split; [reflexivity|discriminate].
    + split; [reflexivity|discriminate].
Qed.

Lemma fmp4_init_noof : forall p c pt, is_oof (fmp4_initializeTrackProcessors p c pt) = false.
Proof.
  intros. unfold fmp4_initializeTrackProcessors. apply bind_noof.
  - destruct (f_isLeading p); auto. destruct c as [[|]|]; auto.
  - intros. apply bind_noof; [apply build_procs_noof|auto].
Qed.

(* ---------- processSegment ---------- *)
Lemma fmp4_processSegment_inv : forall p c el seg counts,
  fsp_ok p -> link p c -> conv_ok c ->
  is_panic (fmp4_processSegment p c el seg counts) = false /\
  forall p' c' counts', fmp4_processSegment p c el seg counts = Ok (p', c', counts') ->
    fsp_ok p' /\ link p' c' /\ conv_ok c'.
Proof.
  intros p c el seg counts Hok Hl Hc. unfold fmp4_processSegment.
  destruct (fg_parts seg) as [parts|]; [|split; [reflexivity|discriminate]].
  destruct (findFirstPartTrackOfLeadingTrack parts (f_leadingTrackID p)) as [lpt|] eqn:FF.
  2:{ destruct (parts_empty parts && _); [|split; [reflexivity|discriminate]].
      split; [reflexivity|]. intros p' c' counts' E. injection E as <- <- <-. auto. }
  pose proof (findFirst_id _ _ _ FF) as Hlid.
  (* after the optional initialization: p1, c1 with all invariants and processors present *)
  assert (A : exists r, (match f_procs p with
                        | None => fmp4_initializeTrackProcessors p c lpt
                        | Some _ => Ok (p, c) end) = r /\
              is_panic r = false /\
              forall p1 c1, r = Ok (p1, c1) ->
                fsp_ok p1 /\ conv_ok c1 /\ f_procs p1 <> None /\ (exists tc, c1 = Some (CFmp4 tc))
                /\ f_leadingTrackID p1 = f_leadingTrackID p).
  { eexists. split; [reflexivity|]. destruct (f_procs p) as [pr|] eqn:FP.
    - split; [reflexivity|]. intros p1 c1 E. inversion E; subst. splits; auto.
      + rewrite FP; discriminate.
      + apply Hl. rewrite FP; discriminate.
    - destruct (fmp4_init_spec p c lpt Hok FP Hc) as [N S]. split; auto.
      intros p1 c1 E. destruct (S _ _ E) as [a [b [d [e [f g]]]]]. splits; auto. }
  destruct A as [r [Er [Nr Sr]]]. rewrite Er. clear Er.
  destruct r as [[p1 c1]| | |]; cbn [bind]; try (split; [auto|discriminate]).
  destruct (Sr p1 c1 eq_refl) as [Hok1 [Hc1 [Hp1 [[tc Etc] Hlead]]]]. subst c1.
  destruct (f_procs p1) as [procs|] eqn:FP1; [|contradiction]. cbn [deref bind].
  destruct (fo_procs _ Hok1 procs FP1) as [Hpo Hkeys].
  (* the NTP step of the leading stream *)
  assert (B : exists r2, (if f_isLeading p1
                then match fg_dateTime seg with
                     | Some dt =>
                         lproc <- deref (find_proc procs (pt_id lpt)) ;;
                         tc0 <- leadingTimeConvFMP4 (Some (CFmp4 tc)) ;;
                         dts <- fconvert tc0 (wrap64 (pt_baseTime lpt)) (t_clockRate (tp_track lproc)) ;;
                         tc' <- leadingTimeConvFMP4 (Some (CFmp4 tc)) ;;
                         Ok (Some (CFmp4 {| tc_lts := tc_lts tc'; tc_lbt := tc_lbt tc';
                                            tc_ntp := Some (dt, dts, t_clockRate (tp_track lproc)) |}))
                     | None => tc0 <- leadingTimeConvFMP4 (Some (CFmp4 tc)) ;; Ok (Some (CFmp4 tc))
                     end
                else Ok (Some (CFmp4 tc))) = Ok r2 /\ exists tc2, r2 = Some (CFmp4 tc2) /\ tconv_ok tc2).
  { destruct (f_isLeading p1); [|eauto].
    destruct (fg_dateTime seg) as [dt|]; [|cbn; eauto].
    destruct (find_proc procs (pt_id lpt)) as [lproc|] eqn:FL.
    - pose proof (find_proc_ok _ _ _ Hpo FL) as [_ Hcr]. cbn [deref bind leadingTimeConvFMP4].
      destruct (fconvert_ok tc (wrap64 (pt_baseTime lpt)) (t_clockRate (tp_track lproc)) (proj1 Hc1)) as [dts ->].
      cbn [bind]. eexists. split; [reflexivity|]. eexists. split; [reflexivity|].
      split; cbn; auto. apply (proj1 Hc1).
    - exfalso. revert FL. apply find_proc_in. rewrite Hkeys, Hlid, <- Hlead.
      destruct (fo_lead _ Hok1) as [t [Hin Hid]]. rewrite <- Hid. apply in_map. auto. }
  destruct B as [r2 [-> [tc2 [-> Htc2]]]]. cbn [bind].
  split.
  - apply bind_np; [apply parts_loop_np; auto|]. intros; reflexivity.
  - intros p' c' counts' E. apply bind_ok in E. destruct E as [cs [_ E]]. inversion E; subst.
    splits; auto. intros _. eauto.
Qed.

Lemma fmp4_processSegment_noof : forall p c el seg counts,
  is_oof (fmp4_processSegment p c el seg counts) = false.
Proof.
  intros. unfold fmp4_processSegment.
  destruct (fg_parts seg) as [parts|]; auto.
  destruct (findFirstPartTrackOfLeadingTrack _ _) as [lpt|]; [|destruct (parts_empty parts && _); auto].
  apply bind_noof.
  - destruct (f_procs p); auto. apply fmp4_init_noof.
  - intros [p1 c1] _. apply bind_noof; [apply deref_noof|]. intros procs _.
    apply bind_noof.
    + destruct (f_isLeading p1); auto. destruct (fg_dateTime seg).
      * apply bind_noof; [apply deref_noof|]. intros.
        apply bind_noof; [destruct c1 as [[|]|]; auto|]. intros.
        apply bind_noof; [apply fconvert_noof|]. intros.
        apply bind_noof; [destruct c1 as [[|]|]; auto|]. auto.
      * apply bind_noof; [destruct c1 as [[|]|]; auto|]. auto.
    + intros. apply bind_noof; [apply parts_loop_noof|auto].
Qed.

(* ---------- the run loop ---------- *)
Lemma fmp4_run_loop_np : forall fuel p c el queue counts,
  fsp_ok p -> link p c -> conv_ok c ->
  is_panic (fmp4_run_loop fuel p c el queue counts) = false /\
  forall c' counts', fmp4_run_loop fuel p c el queue counts = Ok (c', counts') -> conv_ok c'.
Proof.
  induction fuel as [|fuel IH]; intros p c el queue counts Hok Hl Hc; cbn.
  - split; [reflexivity|discriminate].
  - destruct queue as [|[seg|] q].
    + split; [reflexivity|discriminate].
    + destruct (fmp4_processSegment_inv p c el seg counts Hok Hl Hc) as [N S].
      destruct (fmp4_processSegment p c el seg counts) as [[[p' c'] counts']| | |] eqn:E; cbn [bind];
        try (split; [auto|discriminate]).
      destruct (S _ _ _ eq_refl) as [a [b d]]. apply IH; auto.
    + split; [reflexivity|]. intros c' counts' E. inversion E; subst. auto.
Qed.

(* fuel lemma: the run loop consumes one queue element per iteration *)
Lemma fmp4_run_loop_fuel : forall queue fuel p c el counts,
  (List.length queue < fuel)%nat -> is_oof (fmp4_run_loop fuel p c el queue counts) = false.
Proof.
  induction queue as [|[seg|] q IH]; intros fuel p c el counts H; (destruct fuel as [|fuel]; [lia|]); cbn; auto.
  apply bind_noof; [apply fmp4_processSegment_noof|].
  intros [[p' c'] counts'] _. apply IH. cbn in H. lia.
Qed.

(* ---------- run head ---------- *)
Lemma init_good_no_nil : forall i, init_good i -> Forall (fun t => it_codec t <> FNil) i.
Proof.
  intros i H. eapply Forall_impl; [|exact H]. intros t [Hc _] E. rewrite E in Hc. cbn in Hc. contradiction.
Qed.

Lemma init_wf_facts : forall init, init_wf init = true ->
  init <> [] /\ Forall (fun t => it_codec t <> FNil) init.
Proof.
  intros init Hwf. unfold init_wf in Hwf. apply andb_true_iff in Hwf. destruct Hwf as [Hne Hnil]. split.
  - intro; subst. cbn in Hne. discriminate.
  - rewrite forallb_forall in Hnil. apply Forall_forall. intros t Hin. specialize (Hnil t Hin).
    destruct (it_codec t); congruence.
Qed.

(* the repair establishes by itself what the partial theorem has to assume *)
Lemma fix_filter_good : forall t0 t, fmp4_fix_filter t0 = Ok t -> t <> [] /\ init_good t.
Proof.
  intros t0 t E. unfold fmp4_fix_filter in E.
  destruct (existsb _ t0) eqn:X; [discriminate|].
  set (f := fun t : init_track => match FromFMP4 (it_codec t) with Some _ => true | None => false end) in *.
  assert (G : init_good (filter f t0)).
  { apply Forall_forall. intros x Hin. apply filter_In in Hin. destruct Hin as [Hin Hf]. split.
    - unfold f in Hf. destruct (FromFMP4 (it_codec x)); congruence.
    - intro Z0. assert (existsb (fun t => it_timescale t =? 0) t0 = true); [|congruence].
      apply existsb_exists. exists x. split; auto. apply Z.eqb_eq. auto. }
  destruct (filter f t0) as [|x r] eqn:F; [discriminate|]. inversion E; subst. split; [discriminate|auto].
Qed.

Lemma fix_filter_np : forall t0, is_panic (fmp4_fix_filter t0) = false.
Proof. intros. unfold fmp4_fix_filter. destruct (existsb _ t0); auto. destruct (filter _ t0); auto. Qed.

Lemma fix_filter_noof : forall t0, is_oof (fmp4_fix_filter t0) = false.
Proof. intros. unfold fmp4_fix_filter. destruct (existsb _ t0); auto. destruct (filter _ t0); auto. Qed.

(* what the head needs from the init: given by the repair, or assumed for the pinned tree *)
Definition head_hyp (repaired : bool) (init0 : list init_track) : Prop :=
  repaired = true \/ (init_wf init0 = true /\ init_supported init0 = true /\ init_timescales_ok init0 = true).

Lemma effective_init : forall repaired init0 tracks,
  head_hyp repaired init0 ->
  (if repaired then fmp4_fix_filter init0 else Ok init0) = Ok tracks ->
  tracks <> [] /\ init_good tracks.
Proof.
  intros repaired init0 tracks H E. destruct repaired.
  - apply fix_filter_good in E. auto.
  - inversion E; subst. destruct H as [H|[Hwf [Hs Ht]]]; [discriminate|].
    split; [apply init_wf_facts; auto|apply init_good_of_bools; auto].
Qed.

Lemma fmp4_run_head_spec : forall repaired isLeading init0 lead ts init rj,
  head_hyp repaired init0 ->
  fmp4_run_head repaired isLeading (Some init0) = Ok (lead, ts, init) ->
  fsp_ok {| f_isLeading := isLeading; f_init := init; f_leadingTrackID := lead; f_cst := ts; f_procs := None;
            f_repJoin := rj |}.
Proof.
  intros repaired isLeading init0 lead ts init rj H E. unfold fmp4_run_head in E.
  destruct (negb isLeading && negb (zlen init0 =? 1)); [discriminate|].
  apply bind_ok in E. destruct E as [tracks [Et E]].
  destruct (effective_init _ _ _ H Et) as [Hne Hg].
  destruct (fmp4PickLeadingTrack_spec tracks Hne (init_good_no_nil _ Hg)) as [id [Ep Hin]].
  rewrite Ep in E. cbn [bind] in E.
  destruct (_ >? clientMaxTracksPerStream) in E; [discriminate|]. inversion E; subst.
  constructor; cbn; auto. intros ? ?; discriminate.
Qed.

Lemma fmp4_run_head_np : forall repaired isLeading init,
  (match init with Some i => head_hyp repaired i | None => True end) ->
  is_panic (fmp4_run_head repaired isLeading init) = false.
Proof.
  intros repaired isLeading [init0|] H; cbn; auto.
  destruct (negb isLeading && negb (zlen init0 =? 1)); auto.
  apply bind_np; [destruct repaired; [apply fix_filter_np|reflexivity]|].
  intros tracks Et. destruct (effective_init _ _ _ H Et) as [Hne Hg].
  destruct (fmp4PickLeadingTrack_spec tracks Hne (init_good_no_nil _ Hg)) as [id [-> _]]. cbn [bind].
  destruct (_ >? clientMaxTracksPerStream); auto.
Qed.

Lemma fmp4_run_head_noof : forall repaired isLeading init, is_oof (fmp4_run_head repaired isLeading init) = false.
Proof.
  intros repaired isLeading [init|]; cbn; auto.
  destruct (negb isLeading && negb (zlen init =? 1)); auto.
  apply bind_noof; [destruct repaired; [apply fix_filter_noof|reflexivity]|]. intros.
  apply bind_noof; [apply fmp4PickLeadingTrack_noof|]. intros. destruct (_ >? clientMaxTracksPerStream); auto.
Qed.
