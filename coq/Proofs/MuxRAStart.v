(* C02, fMP4 variants (continued from MuxGroups.v): the composite rotations on grouped logs, and the
   invariant "every group of the leading track's stream begins with a random-access unit". *)
From Coq Require Import List ZArith Bool Lia Arith.
From GoHls Require Import Model.Mux Proofs.MuxStream Proofs.MuxLift Proofs.MuxWindow Proofs.MuxHistory Proofs.MuxTimes
  Proofs.MuxMulti Proofs.MuxCut Proofs.MuxLog Proofs.MuxLogStep Proofs.MuxLogTS Proofs.MuxPartIds Proofs.MuxAgree Proofs.MuxGroups.
Import ListNotations.
Local Open Scope Z_scope.

(* ---- every open segment is a real (non-gap) one ---- *)
Definition OR (m : mstate) : Prop := forall s, In s (m_streams m) -> open_real s.

Lemma OR_pointwise m m' :
  Forall2 (fun s s' => open_real s -> open_real s') (m_streams m) (m_streams m') -> OR m -> OR m'.
Proof.
  intros HF H s' Hs'. destruct (Forall2_In_r _ _ _ HF s' Hs') as (s & Hs & K). apply K. now apply H.
Qed.

Lemma OR_rotp m si d cn : OR m -> OR (stream_rotateParts m si d cn).
Proof.
  intros H. destruct (rotp_spec m si d cn) as [[E1 _]|(s & seg & p0 & Es & Eo & Ep & E1 & _)]; cbv zeta in E1.
  - intros s Hs. rewrite E1 in Hs. now apply H.
  - apply (OR_pointwise m); [|exact H]. rewrite E1. apply Forall2_upd_const with (s := s); auto.
    intros Hr g Hg.
    destruct (srot_parts_frame (c_variant (m_cfg m)) s seg (fst (part_finalize p0 (m_tracks m) (st_tracks s) d)) d cn)
      as (_ & _ & _ & _ & _ & _ & _ & F8 & _).
    rewrite F8 in Hg. injection Hg as <-. cbn [sg_with_parts sg_gap]. now apply Hr.
Qed.

Lemma OR_rots m si d ntp f : OR m -> OR (stream_rotateSegments m si d ntp f).
Proof.
  intros H. pose proof (rots_spec m si d ntp f) as [HS _]. cbv zeta in HS.
  set (m1 := match c_variant (m_cfg m) with MPEGTS => m | _ => stream_rotateParts m si d false end) in *.
  assert (H1 : OR m1) by (subst m1; destruct (c_variant (m_cfg m)); auto using OR_rotp).
  destruct HS as [E|(s & seg0 & cur & Es & Eo & E)].
  - intros s Hs. rewrite E in Hs. now apply H1.
  - apply (OR_pointwise m1); [|exact H1]. rewrite E. apply Forall2_upd_const with (s := s); auto.
    intros _ g Hg.
    destruct (srot_segments_frame (c_variant (m_cfg m)) (c_segcount (m_cfg m)) s seg0 d ntp f cur) as (_ & _ & _ & _ & _ & F6 & _).
    rewrite F6 in Hg. injection Hg as <-. reflexivity.
Qed.

Lemma OR_copy m i (l : stream) (both : bool) : OR m -> OR (upd_stream m i (copy_targets both l)).
Proof.
  intros H. apply (OR_pointwise m); [|exact H]. unfold upd_stream. cbn [set_stream m_streams].
  apply Forall2_upd_fun; auto. intros x Hr g Hg.
  destruct (copy_targets_keeps both l x) as (_ & K2 & _). rewrite K2 in Hg. now apply Hr.
Qed.

(* ---- grouped logs through copy_targets ---- *)
Lemma glog_copy m i (l : stream) (both : bool) j : glog (upd_stream m i (copy_targets both l)) j = glog m j.
Proof.
  unfold glog, upd_stream. cbn [set_stream m_streams m_tracks].
  destruct (Nat.eq_dec i j) as [->|Hne].
  - destruct (nth_error (m_streams m) j) as [s|] eqn:Es.
    + rewrite (nth_error_upd_same _ j _ s Es). unfold copy_targets. destruct (st_leading s); reflexivity.
    + assert (H : nth_error (upd (m_streams m) j (copy_targets both l)) j = None)
        by (apply nth_error_None; rewrite upd_length; now apply nth_error_None).
      now rewrite H.
  - now rewrite nth_error_upd_other by exact Hne.
Qed.

(* ---- openness and leading flags of every stream are untouched by the rotations ---- *)
Definition lead_at (m : mstate) (i : nat) : bool :=
  match nth_error (m_streams m) i with Some s => st_leading s | None => true end.

Lemma opened_rots m si d ntp f j : LI m -> opened_at (stream_rotateSegments m si d ntp f) j = opened_at m j.
Proof.
  intros HL. pose proof HL as [L1 L2 L3 L4 L5 L6].
  destruct (rots_cases m si d ntp f L1) as [[E1 E2]|(s & seg & p0 & s2 & Es & Eo & Ep & E1 & E2 & T2 & O2 & P2 & _)].
  { intros s Hs. apply L5. eapply nth_error_In; eauto. }
  - unfold opened_at. now rewrite E1.
  - unfold opened_at. rewrite E1. destruct (Nat.eq_dec si j) as [->|Hne].
    + rewrite (nth_error_upd_same _ j _ s Es), Es, Eo. destruct (st_open s2); congruence.
    + now rewrite nth_error_upd_other by exact Hne.
Qed.

Lemma opened_copy m i (l : stream) (both : bool) j : opened_at (upd_stream m i (copy_targets both l)) j = opened_at m j.
Proof.
  unfold opened_at, upd_stream. cbn [set_stream m_streams].
  destruct (Nat.eq_dec i j) as [->|Hne].
  - destruct (nth_error (m_streams m) j) as [s|] eqn:Es.
    + rewrite (nth_error_upd_same _ j _ s Es). destruct (copy_targets_keeps both l s) as (_ & K2 & _). now rewrite K2.
    + assert (H : nth_error (upd (m_streams m) j (copy_targets both l)) j = None)
        by (apply nth_error_None; rewrite upd_length; now apply nth_error_None).
      now rewrite H.
  - now rewrite nth_error_upd_other by exact Hne.
Qed.

Lemma lead_of_flags m m' : map st_leading (m_streams m') = map st_leading (m_streams m) -> forall j, lead_at m' j = lead_at m j.
Proof.
  intros E j. unfold lead_at.
  assert (H : option_map st_leading (nth_error (m_streams m') j) = option_map st_leading (nth_error (m_streams m) j))
    by (rewrite <- !nth_error_map, E; reflexivity).
  destruct (nth_error (m_streams m') j), (nth_error (m_streams m) j); simpl in H; congruence.
Qed.

(* ---- one turn of the loop of rotateSegmentsInner ---- *)
Definition turn (d ntp : Z) (f : bool) (m : mstate) (i : nat) : mstate :=
  match nth_error (m_streams m) i with
  | Some s => if st_leading s then m
              else match leading_stream (stream_rotateSegments m i d ntp f) with
                   | Some l => upd_stream (stream_rotateSegments m i d ntp f) i (copy_targets true l)
                   | None => stream_rotateSegments m i d ntp f
                   end
  | None => m
  end.

Definition GI (m : mstate) : Prop := LI m /\ OR m.

Lemma GI_rots m si d ntp f : GI m -> GI (stream_rotateSegments m si d ntp f).
Proof. intros [A B]. split; [now apply LI_rots|now apply OR_rots]. Qed.

Lemma GI_copy m i (l : stream) (both : bool) : GI m -> GI (upd_stream m i (copy_targets both l)).
Proof. intros [A B]. split; [now apply LI_copy|now apply OR_copy]. Qed.

Lemma turn_spec d ntp f m i :
  GI m ->
  GI (turn d ntp f m i)
  /\ (forall j, glog (turn d ntp f m i) j =
                if Nat.eqb j i && negb (lead_at m i) && opened_at m i then glog m j ++ [[]] else glog m j)
  /\ (forall j, lead_at (turn d ntp f m i) j = lead_at m j)
  /\ (forall j, opened_at (turn d ntp f m i) j = opened_at m j).
Proof.
  intros HG. pose proof HG as [HL HO]. unfold turn.
  assert (Hsame : lead_at m i = true ->
                  GI m /\ (forall j, glog m j = if Nat.eqb j i && negb (lead_at m i) && opened_at m i then glog m j ++ [[]] else glog m j)
                  /\ (forall j, lead_at m j = lead_at m j) /\ (forall j, opened_at m j = opened_at m j)).
  { intros ->. split; [exact HG|]. split; [|auto]. intros j. now rewrite andb_false_r. }
  destruct (nth_error (m_streams m) i) as [s|] eqn:Es; [|apply Hsame; unfold lead_at; now rewrite Es].
  destruct (st_leading s) eqn:El; [apply Hsame; unfold lead_at; now rewrite Es|]. clear Hsame.
  assert (Hli : lead_at m i = false) by (unfold lead_at; now rewrite Es).
  rewrite Hli. cbn [negb].
  set (m1 := stream_rotateSegments m i d ntp f).
  assert (G1 : GI m1) by now apply GI_rots.
  assert (Hg1 : forall j, glog m1 j = if Nat.eqb j i && true && opened_at m i then glog m j ++ [[]] else glog m j).
  { intros j. subst m1. rewrite glog_rots by assumption. now rewrite andb_true_r. }
  assert (Hl1 : forall j, lead_at m1 j = lead_at m j) by (apply lead_of_flags; apply flags_rots).
  assert (Ho1 : forall j, opened_at m1 j = opened_at m j) by (intros j; now apply opened_rots).
  destruct (leading_stream m1) as [l|].
  - split; [now apply GI_copy|]. split; [|split].
    + intros j. rewrite glog_copy. apply Hg1.
    + intros j. rewrite (lead_of_flags m1 _ (flags_copy m1 i l true)). apply Hl1.
    + intros j. rewrite opened_copy. apply Ho1.
  - auto.
Qed.

Lemma turns_spec d ntp f idx : NoDup idx -> forall m,
  GI m ->
  let m' := fold_left (turn d ntp f) idx m in
  GI m'
  /\ (forall j, glog m' j = if existsb (Nat.eqb j) idx && negb (lead_at m j) && opened_at m j then glog m j ++ [[]] else glog m j)
  /\ (forall j, lead_at m' j = lead_at m j) /\ (forall j, opened_at m' j = opened_at m j).
Proof.
  induction idx as [|i idx IH]; intros Hnd m HG; cbn [fold_left].
  - split; [exact HG|]. split; [intros j; reflexivity|auto].
  - inversion Hnd as [|? ? Hni Hnd']; subst.
    destruct (turn_spec d ntp f m i HG) as (G1 & T1 & T2 & T3).
    destruct (IH Hnd' _ G1) as (G2 & U1 & U2 & U3). cbv zeta in *.
    split; [exact G2|]. split; [|split].
    + intros j. rewrite U1, T1, T2, T3. cbn [existsb].
      destruct (Nat.eqb_spec j i) as [->|Hne]; cbn [orb andb].
      * assert (Hex : existsb (Nat.eqb i) idx = false).
        { apply not_true_is_false. intros H. apply existsb_exists in H. destruct H as (x & Hx & He).
          apply Nat.eqb_eq in He. subst x. contradiction. }
        rewrite Hex. cbn [andb]. reflexivity.
      * destruct (existsb (Nat.eqb j) idx && negb (lead_at m j) && opened_at m j); reflexivity.
    + intros j. now rewrite U2, T2.
    + intros j. now rewrite U3, T3.
Qed.

(* every open stream gains exactly one empty group when all streams are rotated *)
Theorem glog_rotateSegments m d ntp f sl :
  GI m -> leading_stream m = Some sl -> st_leading sl = true ->
  (forall j s, nth_error (m_streams m) j = Some s -> st_leading s = true -> j = leading_index m) ->
  GI (rotateSegments m d ntp f)
  /\ (forall j, (j < length (m_streams m))%nat ->
                glog (rotateSegments m d ntp f) j = if opened_at m j then glog m j ++ [[]] else glog m j)
  /\ (forall j, opened_at (rotateSegments m d ntp f) j = opened_at m j).
Proof.
  intros HG Hsl Hll Hu. set (li := leading_index m) in *.
  rewrite leading_stream_nth in Hsl. fold li in Hsl.
  unfold rotateSegments, rotate_others. fold li.
  set (m1 := stream_rotateSegments m li d ntp f).
  assert (G1 : GI m1) by now apply GI_rots.
  destruct HG as [HL HO].
  assert (Hlen : length (m_streams m1) = length (m_streams m))
    by (subst m1; rewrite <- (map_length st_leading), flags_rots, map_length; reflexivity).
  change (fun (m0 : mstate) (i : nat) => match nth_error (m_streams m0) i with
            | Some s => if st_leading s then m0
                        else match leading_stream (stream_rotateSegments m0 i d ntp f) with
                             | Some l => upd_stream (stream_rotateSegments m0 i d ntp f) i (copy_targets true l)
                             | None => stream_rotateSegments m0 i d ntp f end
            | None => m0 end) with (turn d ntp f).
  destruct (turns_spec d ntp f (seq 0 (length (m_streams m1))) (seq_NoDup _ _) m1 G1) as (G2 & U1 & U2 & U3). cbv zeta in *.
  split; [exact G2|]. split.
  - intros j Hj. rewrite U1.
    assert (Hin : existsb (Nat.eqb j) (seq 0 (length (m_streams m1))) = true).
    { apply existsb_exists. exists j. split; [apply in_seq; lia|apply Nat.eqb_refl]. }
    rewrite Hin. cbn [andb].
    rewrite (lead_of_flags m m1 (flags_rots m li d ntp f)).
    subst m1. rewrite opened_rots by exact HL. rewrite glog_rots by assumption.
    destruct (Nat.eqb_spec j li) as [->|Hne].
    + (* the leading stream: rotated first, skipped by the loop *)
      unfold lead_at. rewrite Hsl, Hll. cbn [negb andb]. reflexivity.
    + (* a non-leading stream: untouched first, rotated once by the loop *)
      cbn [andb].
      destruct (nth_error (m_streams m) j) as [sj|] eqn:Ej; [|apply nth_error_None in Ej; lia].
      assert (Hlj : st_leading sj = false).
      { destruct (st_leading sj) eqn:E; [|reflexivity]. exfalso. apply Hne. now apply (Hu j sj). }
      unfold lead_at. rewrite Ej, Hlj. cbn [negb andb]. reflexivity.
  - intros j. rewrite U3. subst m1. now apply opened_rots.
Qed.

(* ================================================================================================
   Grouped logs through the remaining operations of a write.
   ================================================================================================ *)
Definition app_last (G : list (list sample)) (x : list sample) : list (list sample) :=
  removelast G ++ [last G [] ++ x].

Lemma app_last_snoc G l x : app_last (G ++ [l]) x = G ++ [l ++ x].
Proof. unfold app_last. now rewrite removelast_last, last_last. Qed.

(* a closed stream buffers nothing *)
Definition BUFI (m : mstate) : Prop :=
  forall j s, nth_error (m_streams m) j = Some s -> st_open s = None -> buffered (m_tracks m) s = [].

Lemma glog_create m d ntp j :
  BUFI m -> (forall s, In s (m_streams m) -> st_open s = None) -> (j < length (m_streams m))%nat ->
  glog (createFirstSegment m d ntp) j = glog m j ++ [[]].
Proof.
  intros HB Hc Hj. unfold glog, createFirstSegment. cbn [set_stream m_streams m_tracks].
  rewrite nth_error_map. destruct (nth_error (m_streams m) j) as [s|] eqn:Es; [|apply nth_error_None in Es; lia].
  cbn [option_map]. pose proof (Hc s (nth_error_In _ _ Es)) as Ho.
  unfold stream_createFirst, published. cbn [st_with st_evicted st_segments st_open x_evicted x_segments x_open st_mut].
  rewrite Ho. cbn [new_seg seg_samples sg_parts flat_map app].
  match goal with |- context [buffered ?tr ?x] =>
    assert (Hb : buffered tr x = buffered (m_tracks m) s) by reflexivity; rewrite Hb end.
  rewrite (HB j s Es Ho). now rewrite app_nil_r.
Qed.

Lemma glog_pws m ti smp m' :
  Linked m -> (forall s, In s (m_streams m) -> st_open s <> None -> st_openpart s <> None) ->
  part_writeSample m ti ti smp = Ok m' -> opened_at m ti = true -> (ti < length (m_tracks m))%nat ->
  forall j, glog m' j = if Nat.eqb j ti then app_last (glog m j) [smp] else glog m j.
Proof.
  intros HL HP. unfold part_writeSample, opened_at.
  destruct (nth_error (m_streams m) ti) as [s|] eqn:Es; [|discriminate].
  intros Hw Ho Hlt. destruct (nth_error (m_tracks m) ti) as [t|] eqn:Et; [|apply nth_error_None in Et; lia].
  destruct (st_open s) as [seg|] eqn:Eo; [|discriminate].
  destruct (st_openpart s) as [p|] eqn:Ep.
  2:{ exfalso. apply (HP s); [eapply nth_error_In; eauto|congruence|exact Ep]. }
  destruct (_ <? _); [discriminate|]. injection Hw as <-. intros j.
  unfold glog, upd_stream, upd_track. cbn [set_stream set_tracks m_streams m_tracks].
  pose proof (HL ti s Es) as Hts.
  destruct (Nat.eqb_spec j ti) as [->|Hne].
  - rewrite (nth_error_upd_same _ ti _ s Es), Es, Eo.
    unfold published. cbn [st_with st_evicted st_segments st_open x_evicted x_segments x_open st_mut].
    rewrite app_last_snoc. f_equal. f_equal.
    cbn [sg_with_size seg_samples sg_parts]. rewrite <- app_assoc. f_equal.
    unfold buffered. cbn [st_with st_tracks]. rewrite Hts.
    rewrite (nth_error_upd_same _ ti _ t Et), Et. cbn [tk_with tk_samples]. now destruct (tk_samples t).
  - rewrite nth_error_upd_other by congruence.
    destruct (nth_error (m_streams m) j) as [sj|] eqn:Ej; [|reflexivity]. f_equal.
    destruct (st_open sj); [|reflexivity]. f_equal. f_equal.
    apply (buffered_other _ _ sj j (HL j sj Ej)). apply nth_error_upd_other. congruence.
Qed.

Lemma glog_rotateParts m d j : LI m -> glog (rotateParts m d) j = glog m j.
Proof.
  intros HL.
  enough (H : LI (rotateParts m d) /\ forall j, glog (rotateParts m d) j = glog m j) by apply H.
  apply (T_rotateParts (fun m' => LI m' /\ forall j, glog m' j = glog m j)); auto.
  - intros m' si d' [A B]. split; [now apply LI_rotp|]. intros k. rewrite glog_rotp; [apply B|exact (li_streams m' A)].
  - intros m' i l both [A B]. split; [now apply LI_copy|]. intros k. rewrite glog_copy. apply B.
Qed.

Lemma opened_rotateParts m d j : LI m -> opened_at (rotateParts m d) j = opened_at m j.
Proof.
  intros HL.
  enough (H : LI (rotateParts m d) /\ forall j, opened_at (rotateParts m d) j = opened_at m j) by apply H.
  apply (T_rotateParts (fun m' => LI m' /\ forall j, opened_at m' j = opened_at m j)); auto.
  - intros m' si d' [A B]. split; [now apply LI_rotp|]. intros k. rewrite <- B.
    pose proof A as [L1 L2 L3 L4 L5 L6].
    destruct (rotp_spec m' si d' true) as [[E1 _]|(s & seg & p0 & Es & Eo & Ep & E1 & _)]; cbv zeta in E1; unfold opened_at; rewrite E1; [reflexivity|].
    destruct (Nat.eq_dec si k) as [->|Hne].
    + rewrite (nth_error_upd_same _ k _ s Es), Es, Eo.
      destruct (srot_parts_frame (c_variant (m_cfg m')) s seg (fst (part_finalize p0 (m_tracks m') (st_tracks s) d')) d' true)
        as (_ & _ & _ & _ & _ & _ & _ & F8 & _). now rewrite F8.
    + now rewrite nth_error_upd_other by exact Hne.
  - intros m' i l both [A B]. split; [now apply LI_copy|]. intros k. rewrite opened_copy. apply B.
Qed.

(* ---- closed streams buffer nothing, in every reachable state ---- *)
Definition BUF2 (m : mstate) : Prop :=
  (forall s, In s (m_streams m) -> st_open s <> None) \/ (forall t, In t (m_tracks m) -> tk_samples t = None).

Lemma BUF2_BUFI m : BUF2 m -> BUFI m.
Proof.
  intros [H|H] j s Es Ho.
  - exfalso. apply (H s (nth_error_In _ _ Es)). exact Ho.
  - unfold buffered. destruct (st_tracks s) as [|ti rest]; [reflexivity|].
    destruct (nth_error (m_tracks m) ti) as [t|] eqn:Et; [|reflexivity].
    now rewrite (H t (nth_error_In _ _ Et)).
Qed.

Definition LB (m : mstate) : Prop := LI m /\ BUF2 m.

Lemma all_open_of_one m s : LI m -> In s (m_streams m) -> st_open s <> None -> forall s', In s' (m_streams m) -> st_open s' <> None.
Proof.
  intros HL Hin Ho. destruct (li_sync m HL) as [H|H]; [|exact H]. exfalso. apply Ho. now apply H.
Qed.

Lemma LB_rotp m si d : LB m -> LB (stream_rotateParts m si d true).
Proof.
  intros [HL HB]. split; [now apply LI_rotp|].
  destruct (rotp_spec m si d true) as [[E1 E2]|(s & seg & p0 & Es & Eo & Ep & E1 & E2)]; cbv zeta in *.
  - destruct HB as [H|H]; [left; now rewrite E1|right; now rewrite E2].
  - left. intros s' Hs'. pose proof (LI_rotp m si d HL) as HL'.
    set (X := fst (srot_parts (c_variant (m_cfg m)) s seg (fst (part_finalize p0 (m_tracks m) (st_tracks s) d)) d true)) in *.
    assert (Hin : In X (m_streams (stream_rotateParts m si d true))).
    { rewrite E1. apply nth_error_In with (n := si).
      pose proof (nth_error_upd_same (m_streams m) si (fun _ : stream => X) s Es) as Hn. exact Hn. }
    eapply (all_open_of_one _ _ HL' Hin); [|exact Hs'].
    subst X.
    destruct (srot_parts_frame (c_variant (m_cfg m)) s seg (fst (part_finalize p0 (m_tracks m) (st_tracks s) d)) d true)
      as (_ & _ & _ & _ & _ & _ & _ & F8 & _). rewrite F8. discriminate.
Qed.

Lemma LB_rots m si d ntp f : LB m -> LB (stream_rotateSegments m si d ntp f).
Proof.
  intros [HL HB]. split; [now apply LI_rots|]. pose proof HL as [L1 L2 L3 L4 L5 L6].
  destruct (rots_cases m si d ntp f L1) as [[E1 E2]|(s & seg & p0 & s2 & Es & Eo & Ep & E1 & E2 & T2 & O2 & P2 & _)].
  { intros s Hs. apply L5. eapply nth_error_In; eauto. }
  - destruct HB as [H|H]; [left; now rewrite E1|right; now rewrite E2].
  - left. intros s' Hs'. pose proof (LI_rots m si d ntp f HL) as HL'.
    assert (Hin : In s2 (m_streams (stream_rotateSegments m si d ntp f))).
    { rewrite E1. apply nth_error_In with (n := si).
      pose proof (nth_error_upd_same (m_streams m) si (fun _ : stream => s2) s Es) as Hn. exact Hn. }
    exact (all_open_of_one _ _ HL' Hin O2 s' Hs').
Qed.

Lemma LB_copy m i (l : stream) (both : bool) : LB m -> LB (upd_stream m i (copy_targets both l)).
Proof.
  intros [HL HB]. split; [now apply LI_copy|].
  destruct HB as [H|H]; [left|right; exact H].
  intros s' Hs'. unfold upd_stream in Hs'. cbn [set_stream m_streams] in Hs'.
  apply In_upd in Hs'. destruct Hs' as [Hs'|(x & Hx & ->)]; [now apply H|].
  destruct (copy_targets_keeps both l x) as (_ & K2 & _). rewrite K2. apply H. eapply nth_error_In; eauto.
Qed.

Theorem LB_mux_step m o : LB m -> LB (fst (mux_step m o)).
Proof.
  apply (T_mux_step LB); auto using LB_rotp, LB_rots, LB_copy.
  - intros m0 tracks pending sdurs adj freeze errs Hf [HL HB]. split; [now apply LI_frame|].
    destruct HB as [H|H]; [left; exact H|right]. cbn [m_tracks]. intros t Ht.
    apply In_nth_error in Ht. destruct Ht as [k Hk].
    assert (E : option_map tk_frame (nth_error tracks k) = option_map tk_frame (nth_error (m_tracks m0) k))
      by (rewrite <- !nth_error_map, Hf; reflexivity).
    rewrite Hk in E. simpl in E. destruct (nth_error (m_tracks m0) k) as [t0|] eqn:E0; simpl in E; [|discriminate].
    injection E as _ _ _ Es _. rewrite Es. apply H. eapply nth_error_In; eauto.
  - intros m0 d ntp ti t Ht Ho [HL HB]. split; [now apply LI_create|]. left.
    unfold createFirstSegment. cbn [set_stream m_streams]. intros s' Hs'. apply in_map_iff in Hs'.
    destruct Hs' as (s & <- & _). discriminate.
  - intros m0 ti si smp m' [HL HB] Hw. split; [eapply LI_pws; eauto|].
    unfold part_writeSample in Hw.
    destruct (nth_error (m_streams m0) si) as [s|] eqn:Es; [|injection Hw as <-; exact HB].
    destruct (nth_error (m_tracks m0) ti) as [t|] eqn:Et; [|injection Hw as <-; exact HB].
    destruct (st_open s) as [seg|] eqn:Eo; [|injection Hw as <-; exact HB].
    destruct (st_openpart s) as [p|] eqn:Ep; [|injection Hw as <-; exact HB].
    destruct (_ <? _); [discriminate|]. injection Hw as <-. left.
    unfold upd_stream, upd_track. cbn [set_stream set_tracks m_streams]. intros s' Hs'.
    apply In_upd in Hs'. destruct Hs' as [Hs'|(x & Hx & ->)].
    + eapply (all_open_of_one m0 s HL); eauto; [eapply nth_error_In; eauto|congruence].
    + discriminate.
  - intros m0 si u size e inc [HL HB]. split; [now apply LI_ts|]. unfold ts_write.
    destruct (nth_error (m_streams m0) si) as [s|] eqn:Es; [|exact HB].
    destruct (st_open s) as [seg|] eqn:Eo; [|exact HB].
    destruct (_ <? _); [exact HB|]. cbn [fst wok].
    destruct HB as [H|H]; [left|right; exact H].
    unfold upd_stream. cbn [set_stream m_streams]. intros s' Hs'.
    apply In_upd in Hs'. destruct Hs' as [Hs'|(x & Hx & ->)]; [now apply H|discriminate].
Qed.

Theorem LB_mux_run ops : forall m, LB m -> LB (mux_run m ops).
Proof. induction ops as [|o ops IH]; intros m H; [exact H|]. cbn [mux_run]. apply IH. now apply LB_mux_step. Qed.

(* ================================================================================================
   The effect of a write of the leading track on its stream's grouped log.
   ================================================================================================ *)
Definition pending (m : mstate) (ti : nat) : option sample :=
  match nth_error (m_tracks m) ti with Some t => tk_next t | None => None end.

Lemma pending_nexts m ti : nth_error (tk_nexts m) ti = Some (pending m ti) \/ (nth_error (m_tracks m) ti = None).
Proof.
  unfold pending, tk_nexts. rewrite nth_error_map. destruct (nth_error (m_tracks m) ti); simpl; auto.
Qed.

Definition OneLeadS (m : mstate) : Prop :=
  exists sl, leading_stream m = Some sl /\ st_leading sl = true
             /\ forall j s, nth_error (m_streams m) j = Some s -> st_leading s = true -> j = leading_index m.

Lemma OneLeadS_flags m m' : map st_leading (m_streams m') = map st_leading (m_streams m) -> OneLeadS m -> OneLeadS m'.
Proof.
  intros E (sl & Hsl & Hl & Hu).
  assert (Hli : leading_index m' = leading_index m) by (now rewrite !leading_index_flags, E).
  rewrite leading_stream_nth in Hsl.
  assert (Hex : exists sl', nth_error (m_streams m') (leading_index m) = Some sl' /\ st_leading sl' = true).
  { assert (H : option_map st_leading (nth_error (m_streams m') (leading_index m)) = option_map st_leading (nth_error (m_streams m) (leading_index m)))
      by (rewrite <- !nth_error_map, E; reflexivity).
    rewrite Hsl in H. simpl in H. destruct (nth_error (m_streams m') (leading_index m)) as [x|]; simpl in H; [|discriminate].
    exists x. split; [reflexivity|congruence]. }
  destruct Hex as (sl' & A & B). exists sl'. rewrite leading_stream_nth, Hli. split; [exact A|]. split; [exact B|].
  intros j s Hj Hls.
  assert (H : option_map st_leading (nth_error (m_streams m') j) = option_map st_leading (nth_error (m_streams m) j))
    by (rewrite <- !nth_error_map, E; reflexivity).
  rewrite Hj in H. simpl in H. destruct (nth_error (m_streams m) j) as [x|] eqn:Ex; simpl in H; [|discriminate].
  apply (Hu j x Ex). congruence.
Qed.

(* the leading track's write, on grouped logs: the look-ahead unit joins the last group (a new one if the
   stream starts now), and a new empty group is opened only when the incoming unit is random access *)
Theorem fmp4_glog_step m ti t ra pc smp0 m' prev :
  LB m -> OR m -> OneLeadS m ->
  nth_error (m_tracks m) ti = Some t -> tk_leading t = true -> tk_next t = Some prev ->
  0 <= shifted t smp0 ->
  fmp4WriteSample m ti ra pc smp0 = (m', Ok tt) ->
  let G0 := if opened_at m ti then glog m ti else glog m ti ++ [[]] in
  let G1 := app_last G0 [emit_of prev (shifted t smp0)] in
  exists b : bool, (b = true -> ra = true)
    /\ glog m' ti = (if b then G1 ++ [[]] else G1)
    /\ opened_at m' ti = true.
Proof.
  intros [HL HB] HO HOL Ht Hlead Hn Hd. unfold fmp4WriteSample. rewrite Ht. cbv zeta.
  fold (shifted t smp0). pose proof (li_tracks m HL ti t Ht) as Hsi. rewrite Hsi.
  destruct (shifted t smp0 <? 0) eqn:E0; [apply Z.ltb_lt in E0; lia|]. clear E0.
  fold (incoming_of t smp0). rewrite Hn, Hlead. cbn [negb andb].
  set (m1 := upd_track m ti (fun t0 => tk_with t0 (tk_firstRA t0) (tk_params t0) (Some (incoming_of t smp0))
                                               (tk_samples t0) (tk_start t0))).
  assert (Hf1 : map tk_frame (m_tracks m1) = map tk_frame (m_tracks m)).
  { subst m1. unfold upd_track. cbn [set_tracks m_tracks]. apply map_upd_static. intros x. reflexivity. }
  assert (Hs1 : map tk_samples (m_tracks m1) = map tk_samples (m_tracks m)).
  { assert (E : map (fun t => snd (fst (tk_frame t))) (m_tracks m1) = map (fun t => snd (fst (tk_frame t))) (m_tracks m)).
    { rewrite <- !(map_map tk_frame (fun x => snd (fst x))). now rewrite Hf1. }
    exact E. }
  assert (L1 : LI m1) by (apply (LI_ext m); auto; now apply tk_stream_of_frame).
  assert (B1 : BUFI m1).
  { intros j s Es Ho. pose proof (BUF2_BUFI m HB j s Es Ho) as Hb. unfold buffered in *.
    destruct (st_tracks s) as [|k rest]; [reflexivity|].
    assert (E : option_map tk_samples (nth_error (m_tracks m1) k) = option_map tk_samples (nth_error (m_tracks m) k))
      by (rewrite <- !nth_error_map, Hs1; reflexivity).
    destruct (nth_error (m_tracks m1) k), (nth_error (m_tracks m) k); simpl in E; try congruence.
    now injection E as ->. }
  assert (Gl1 : forall j, glog m1 j = glog m j) by (intros j; apply glog_ext; auto).
  assert (Ht1 : exists t1, nth_error (m_tracks m1) ti = Some t1).
  { subst m1. unfold upd_track. cbn [set_tracks m_tracks]. rewrite (nth_error_upd_same _ ti _ t Ht). eauto. }
  destruct Ht1 as (t1 & Ht1).
  destruct (stream_exists m1 ti t1 L1 Ht1) as (s1 & Hs1').
  assert (Hlt : (ti < length (m_streams m))%nat) by (apply nth_error_Some; change (m_streams m) with (m_streams m1); congruence).
  change (match nth_error (m_streams m1) ti with
          | Some s => match st_open s with Some _ => true | None => false end | None => false end) with (opened_at m ti).
  set (smp := emit_of prev (shifted t smp0)).
  (* m2 *)
  set (m2 := if negb (opened_at m ti)
             then createFirstSegment m1 (timestampToDuration (s_dts smp) (t_rate (tk_cfg t))) (s_ntp smp) else m1).
  assert (S2 : LI m2 /\ OR m2 /\ (forall j, (j < length (m_streams m))%nat -> glog m2 j = if opened_at m j then glog m j else glog m j ++ [[]])
               /\ opened_at m2 ti = true /\ map st_leading (m_streams m2) = map st_leading (m_streams m)
               /\ length (m_tracks m2) = length (m_tracks m)).
  { subst m2. destruct (opened_at m ti) eqn:Eop; cbn [negb].
    - split; [exact L1|]. split; [exact HO|]. split; [|split; [exact Eop|split; [reflexivity|]]].
      + intros j Hj. rewrite Gl1.
        (* all streams are open *)
        destruct (nth_error (m_streams m) j) as [sj|] eqn:Ej; [|apply nth_error_None in Ej; lia].
        assert (Hoj : st_open sj <> None).
        { unfold opened_at in Eop. change (m_streams m1) with (m_streams m) in Hs1'. rewrite Hs1' in Eop.
          eapply (all_open_of_one m s1 HL); eauto using nth_error_In. destruct (st_open s1); congruence. }
        unfold opened_at. rewrite Ej. destruct (st_open sj); [reflexivity|congruence].
      + subst m1. unfold upd_track. cbn [set_tracks m_tracks]. apply upd_length.
    - assert (Hc : forall s, In s (m_streams m1) -> st_open s = None).
      { eapply (all_closed m1 ti t1 s1 L1 Ht1 Hs1'). unfold opened_at in Eop.
        change (m_streams m1) with (m_streams m) in Hs1'. rewrite Hs1' in Eop. now destruct (st_open s1). }
      split; [now apply LI_create|]. split; [|split; [|split; [|split]]].
      + intros s' Hs'. unfold createFirstSegment in Hs'. cbn [set_stream m_streams] in Hs'. apply in_map_iff in Hs'.
        destruct Hs' as (s & <- & _). intros g Hg. injection Hg as <-. reflexivity.
      + intros j Hj. rewrite glog_create; auto. rewrite Gl1.
        destruct (nth_error (m_streams m) j) as [sj|] eqn:Ej; [|apply nth_error_None in Ej; lia].
        unfold opened_at. rewrite Ej. now rewrite (Hc sj (nth_error_In _ _ Ej)).
      + unfold opened_at, createFirstSegment. cbn [set_stream m_streams]. rewrite nth_error_map, Hs1'. reflexivity.
      + unfold createFirstSegment. cbn [set_stream m_streams]. rewrite map_map. reflexivity.
      + unfold createFirstSegment. cbn [set_stream m_tracks]. subst m1. unfold upd_track. cbn [set_tracks m_tracks]. apply upd_length. }
  destruct S2 as (L2 & O2 & Gl2 & Op2 & Fl2 & Len2).
  change (if negb (opened_at m ti) then createFirstSegment m1 (timestampToDuration (s_dts smp) (t_rate (tk_cfg t))) (s_ntp smp) else m1) with m2.
  (* m3 *)
  set (m3 := fmp4AdjustPartDuration m2 (timestampToDuration (shifted t smp0 - s_dts prev) (t_rate (tk_cfg t)))).
  destruct (adjust_frame m2 (timestampToDuration (shifted t smp0 - s_dts prev) (t_rate (tk_cfg t)))) as (A3 & B3 & C3). fold m3 in A3, B3, C3.
  assert (L3 : LI m3) by (apply (LI_ext m2); auto; now rewrite C3).
  assert (Gl3 : forall j, glog m3 j = glog m2 j) by (intros j; apply glog_ext; [exact B3|now rewrite C3]).
  assert (Op3 : opened_at m3 ti = true) by (unfold opened_at; rewrite B3; exact Op2).
  (* m4 *)
  match goal with |- context [part_writeSample ?a ti ti ?b] => change a with m3; change b with smp end.
  destruct (part_writeSample m3 ti ti smp) as [m4| |] eqn:Ew; [|discriminate|discriminate].
  assert (Hlt3 : (ti < length (m_tracks m3))%nat).
  { rewrite C3, Len2. apply nth_error_Some. congruence. }
  pose proof (glog_pws m3 ti smp m4 (li_streams m3 L3) (li_part m3 L3) Ew Op3 Hlt3) as Gl4.
  pose proof (LI_pws _ _ _ _ _ L3 Ew) as L4.
  assert (O4 : OR m4).
  { unfold part_writeSample in Ew.
    destruct (nth_error (m_streams m3) ti) as [s3|] eqn:Es3; [|injection Ew as <-; intros s Hs; apply O2; now rewrite <- B3].
    destruct (nth_error (m_tracks m3) ti) as [t3|]; [|injection Ew as <-; intros s Hs; apply O2; now rewrite <- B3].
    destruct (st_open s3) as [g3|] eqn:Eo3; [|injection Ew as <-; intros s Hs; apply O2; now rewrite <- B3].
    destruct (st_openpart s3); [|injection Ew as <-; intros s Hs; apply O2; now rewrite <- B3].
    destruct (_ <? _); [discriminate|]. injection Ew as <-.
    unfold upd_stream, upd_track. cbn [set_stream set_tracks m_streams]. intros s Hs.
    apply In_upd in Hs. destruct Hs as [Hs|(x & Hx & ->)]; [apply O2; now rewrite <- B3|].
    rewrite Es3 in Hx. injection Hx as <-. intros g Hg. cbn [st_with st_open x_open] in Hg. injection Hg as <-.
    cbn [sg_with_size sg_gap]. apply (O2 s3); [rewrite <- B3; eapply nth_error_In; eauto|exact Eo3]. }
  assert (Fl4 : map st_leading (m_streams m4) = map st_leading (m_streams m)).
  { rewrite <- Fl2, <- B3. unfold part_writeSample in Ew.
    destruct (nth_error (m_streams m3) ti) as [s3|]; [|now injection Ew as <-].
    destruct (nth_error (m_tracks m3) ti) as [t3|]; [|now injection Ew as <-].
    destruct (st_open s3); [|now injection Ew as <-]. destruct (st_openpart s3); [|now injection Ew as <-].
    destruct (_ <? _); [discriminate|]. injection Ew as <-.
    unfold upd_stream, upd_track. cbn [set_stream set_tracks m_streams]. apply flags_upd_with. intros x. reflexivity. }
  assert (Op4 : opened_at m4 ti = true).
  { unfold part_writeSample in Ew. unfold opened_at in Op3.
    destruct (nth_error (m_streams m3) ti) as [s3|] eqn:Es3; [|discriminate].
    destruct (nth_error (m_tracks m3) ti) as [t3|]; [|injection Ew as <-; unfold opened_at; now rewrite Es3].
    destruct (st_open s3) as [g3|] eqn:Eo3; [|discriminate].
    destruct (st_openpart s3); [|injection Ew as <-; unfold opened_at; now rewrite Es3, Eo3].
    destruct (_ <? _); [discriminate|]. injection Ew as <-.
    unfold opened_at, upd_stream, upd_track. cbn [set_stream set_tracks m_streams].
    rewrite (nth_error_upd_same _ ti _ s3 Es3). reflexivity. }
  assert (G4 : glog m4 ti = app_last (if opened_at m ti then glog m ti else glog m ti ++ [[]]) [smp]).
  { rewrite Gl4, Nat.eqb_refl, Gl3, Gl2 by exact Hlt. reflexivity. }
  assert (Hlen4 : length (m_streams m4) = length (m_streams m))
    by (rewrite <- (map_length st_leading), Fl4, map_length; reflexivity).
  cbn [negb]. 
  destruct (nth_error (m_streams m4) ti) as [s4|] eqn:Es4.
  2:{ apply nth_error_None in Es4. lia. }
  match goal with |- context [if ?c then _ else _] => destruct c eqn:Edue end.
  - (* the segment is cut: only possible at a random-access unit *)
    intros Hr.
    assert (Hra : ra = true) by (apply andb_true_iff in Edue; tauto).
    pose proof (OneLeadS_flags m m4 Fl4 HOL) as (sl & Hsl & Hll & Hu).
    destruct (glog_rotateSegments m4 (timestampToDuration (shifted t smp0) (t_rate (tk_cfg t))) (s_ntp (incoming_of t smp0)) pc sl
                (conj L4 O4) Hsl Hll Hu) as (_ & R1 & R2).
    exists true. split; [auto|].
    assert (Em' : m_streams m' = m_streams (rotateSegments m4 (timestampToDuration (shifted t smp0) (t_rate (tk_cfg t))) (s_ntp (incoming_of t smp0)) pc)
                  /\ m_tracks m' = m_tracks (rotateSegments m4 (timestampToDuration (shifted t smp0) (t_rate (tk_cfg t))) (s_ntp (incoming_of t smp0)) pc)).
    { destruct pc; injection Hr as <-; split; reflexivity. }
    destruct Em' as [Es' Et'].
    split.
    + assert (Hg : glog m' ti = glog (rotateSegments m4 (timestampToDuration (shifted t smp0) (t_rate (tk_cfg t))) (s_ntp (incoming_of t smp0)) pc) ti)
        by (apply glog_ext; [exact Es'|now rewrite Et']).
      rewrite Hg, R1 by lia. rewrite Op4, G4. reflexivity.
    + unfold opened_at. rewrite Es'. fold (opened_at (rotateSegments m4 (timestampToDuration (shifted t smp0) (t_rate (tk_cfg t))) (s_ntp (incoming_of t smp0)) pc) ti).
      now rewrite R2.
  - match goal with |- context [if ?c then _ else _] => destruct c end.
    + intros [= <-]. exists false. split; [discriminate|]. split.
      * rewrite glog_rotateParts by exact L4. exact G4.
      * now rewrite opened_rotateParts.
    + intros [= <-]. exists false. split; [discriminate|]. split; [exact G4|exact Op4].
Qed.

(* ================================================================================================
   The invariant: every group of the leading track's stream begins with a random-access unit.
   ================================================================================================ *)
Definition sync (x : sample) : Prop := s_nonsync x = false.
Definition group_ok (g : list sample) : Prop := match g with [] => True | x :: _ => sync x end.
Definition tail_empty (G : list (list sample)) : Prop := exists gs, G = gs ++ [[]].

Record RAI (m : mstate) (ti : nat) : Prop := {
  ra_groups : Forall group_ok (glog m ti);
  (* an empty last group (or a stream not yet started) will receive the look-ahead unit first *)
  ra_tail : (opened_at m ti = false \/ tail_empty (glog m ti)) -> forall p, pending m ti = Some p -> sync p;
  ra_np : opened_at m ti = true -> pending m ti <> None
}.

Lemma group_ok_app_last G x :
  G <> [] -> Forall group_ok G -> (last G [] = [] -> sync x) -> Forall group_ok (app_last G [x]).
Proof.
  intros Hne HF Hx. destruct (exists_last Hne) as (G' & l & ->).
  rewrite app_last_snoc. rewrite last_last in Hx.
  apply Forall_app in HF. destruct HF as [HF1 HF2]. apply Forall_app. split; [exact HF1|].
  constructor; [|constructor]. inversion HF2; subst. destruct l; [simpl; auto|assumption].
Qed.

Lemma app_last_not_tail_empty G x : G <> [] -> ~ tail_empty (app_last G [x]).
Proof.
  intros Hne [gs E]. destruct (exists_last Hne) as (G' & l & ->). rewrite app_last_snoc in E.
  apply app_inj_tail in E. destruct E as [_ E]. destruct l; discriminate.
Qed.

Lemma glog_open_nonempty m j : opened_at m j = true -> glog m j <> [].
Proof.
  unfold opened_at, glog. destruct (nth_error (m_streams m) j) as [s|]; [|discriminate].
  destruct (st_open s); [|discriminate]. intros _ H. apply app_eq_nil in H. destruct H as [_ H]. discriminate.
Qed.

(* a write of the leading track keeps the invariant, provided the incoming unit's sync flag is the
   random-access flag the segmenter is given and the very first unit of the track is random access *)
Theorem RAI_leading_write m ti t ra pc smp0 m' :
  LB m -> OR m -> OneLeadS m ->
  nth_error (m_tracks m) ti = Some t -> tk_leading t = true ->
  0 <= shifted t smp0 ->
  s_nonsync smp0 = negb ra ->
  (tk_next t = None -> ra = true) ->
  fmp4WriteSample m ti ra pc smp0 = (m', Ok tt) ->
  RAI m ti -> RAI m' ti.
Proof.
  intros HLB HO HOL Ht Hlead Hd Hsy Hfirst Hw [R1 R2 R3].
  destruct HLB as [HL HB].
  destruct (fmp4_log_step m ti t ra pc smp0 m' HL Ht Hw) as (L' & _ & _ & Hnx & _).
  specialize (Hnx Hd).
  assert (Hpend' : pending m' ti = Some (incoming_of t smp0)).
  { unfold pending. unfold tk_nexts in Hnx. rewrite nth_error_map in Hnx.
    destruct (nth_error (m_tracks m') ti) as [t'|]; simpl in Hnx; [|discriminate]. now injection Hnx as ->. }
  assert (Hpend : pending m ti = tk_next t) by (unfold pending; now rewrite Ht).
  destruct (tk_next t) as [prev|] eqn:En.
  - (* the look-ahead unit is emitted *)
    destruct (fmp4_glog_step m ti t ra pc smp0 m' prev (conj HL HB) HO HOL Ht Hlead En Hd Hw) as (b & Hb & Hg & Ho').
    cbv zeta in Hg.
    set (G0 := if opened_at m ti then glog m ti else glog m ti ++ [[]]) in *.
    assert (HG0ne : G0 <> []).
    { subst G0. destruct (opened_at m ti) eqn:E; [now apply glog_open_nonempty|]. intros H. apply app_eq_nil in H. destruct H; discriminate. }
    assert (HG0ok : Forall group_ok G0).
    { subst G0. destruct (opened_at m ti); [exact R1|]. apply Forall_app. split; [exact R1|]. constructor; [exact I|constructor]. }
    assert (Hprev : last G0 [] = [] -> sync (emit_of prev (shifted t smp0))).
    { intros Hl. unfold sync. cbn [emit_of s_nonsync]. apply (R2); [|now rewrite Hpend].
      subst G0. destruct (opened_at m ti) eqn:E; [right|now left].
      destruct (exists_last (glog_open_nonempty m ti E)) as (G' & l & EG). rewrite EG, last_last in Hl. subst l.
      exists G'. exact EG. }
    pose proof (group_ok_app_last G0 _ HG0ne HG0ok Hprev) as HG1ok.
    constructor.
    + rewrite Hg. destruct b; [|exact HG1ok]. apply Forall_app. split; [exact HG1ok|]. constructor; [exact I|constructor].
    + intros Hcase p Hp. rewrite Hpend' in Hp. injection Hp as <-.
      unfold sync. cbn [incoming_of s_nonsync]. rewrite Hsy.
      destruct Hcase as [Hc|Hte]; [congruence|].
      rewrite Hg in Hte. destruct b; [now rewrite (Hb eq_refl)|].
      exfalso. exact (app_last_not_tail_empty G0 _ HG0ne Hte).
    + intros _. rewrite Hpend'. discriminate.
  - (* the first unit of the track: it only fills the look-ahead *)
    assert (Em' : m_streams m' = m_streams m /\ map tk_samples (m_tracks m') = map tk_samples (m_tracks m)).
    { unfold fmp4WriteSample in Hw. rewrite Ht in Hw. cbv zeta in Hw. fold (shifted t smp0) in Hw.
      destruct (shifted t smp0 <? 0) eqn:E0; [apply Z.ltb_lt in E0; lia|]. rewrite En in Hw. injection Hw as <-.
      split; [reflexivity|]. unfold upd_track. cbn [set_tracks m_tracks]. apply map_upd_static. intros x. reflexivity. }
    destruct Em' as [Es Et].
    assert (Hg : glog m' ti = glog m ti) by (apply glog_ext; auto).
    assert (Ho : opened_at m' ti = opened_at m ti) by (unfold opened_at; now rewrite Es).
    constructor.
    + now rewrite Hg.
    + intros Hcase p Hp. rewrite Hpend' in Hp. injection Hp as <-.
      unfold sync. cbn [incoming_of s_nonsync]. rewrite Hsy, (Hfirst eq_refl). reflexivity.
    + intros _. rewrite Hpend'. discriminate.
Qed.

(* ---- a write of any other track leaves the leading track's stream and look-ahead alone ---- *)
Lemma RAI_ext m m' ti :
  m_streams m' = m_streams m -> map tk_samples (m_tracks m') = map tk_samples (m_tracks m) ->
  pending m' ti = pending m ti -> RAI m ti -> RAI m' ti.
Proof.
  intros Es Et Ep [R1 R2 R3].
  assert (Hg : glog m' ti = glog m ti) by (apply glog_ext; auto).
  assert (Ho : opened_at m' ti = opened_at m ti) by (unfold opened_at; now rewrite Es).
  constructor; rewrite ?Hg, ?Ho, ?Ep; auto.
Qed.

Lemma pws_other_stream m a b smp m' j :
  part_writeSample m a b smp = Ok m' -> j <> b -> nth_error (m_streams m') j = nth_error (m_streams m) j.
Proof.
  unfold part_writeSample.
  destruct (nth_error (m_streams m) b) as [s|]; [|now intros [= <-]].
  destruct (nth_error (m_tracks m) a) as [t|]; [|now intros [= <-]].
  destruct (st_open s); [|now intros [= <-]]. destruct (st_openpart s); [|now intros [= <-]].
  destruct (_ <? _); [discriminate|]. intros [= <-] Hne.
  unfold upd_stream, upd_track. cbn [set_stream set_tracks m_streams]. apply nth_error_upd_other. congruence.
Qed.

Lemma pending_of_nexts m m' ti : tk_nexts m' = tk_nexts m -> pending m' ti = pending m ti.
Proof.
  intros E. unfold pending.
  assert (H : nth_error (tk_nexts m') ti = nth_error (tk_nexts m) ti) by now rewrite E.
  unfold tk_nexts in H. rewrite !nth_error_map in H.
  destruct (nth_error (m_tracks m') ti), (nth_error (m_tracks m) ti); simpl in H; congruence.
Qed.

Theorem RAI_other_write m tj t ra pc smp0 m' ti :
  LI m -> nth_error (m_tracks m) tj = Some t -> tk_leading t = false -> tj <> ti ->
  fmp4WriteSample m tj ra pc smp0 = (m', Ok tt) ->
  RAI m ti -> RAI m' ti.
Proof.
  intros HL Ht Hlead Hne Hw HR. unfold fmp4WriteSample in Hw. rewrite Ht in Hw. cbv zeta in Hw.
  pose proof (li_tracks m HL tj t Ht) as Hsi. rewrite Hsi in Hw.
  destruct (_ <? 0); [injection Hw as <-; exact HR|].
  match type of Hw with context [upd_track m tj ?F] => set (m1 := upd_track m tj F) in * end.
  assert (R1 : RAI m1 ti).
  { apply (RAI_ext m); auto.
    - subst m1. unfold upd_track. cbn [set_tracks m_tracks]. apply map_upd_static. intros x. reflexivity.
    - unfold pending. subst m1. unfold upd_track. cbn [set_tracks m_tracks]. now rewrite nth_error_upd_other by exact Hne. }
  assert (L1 : LI m1).
  { apply (LI_ext m); auto. subst m1. unfold upd_track. cbn [set_tracks m_tracks]. apply map_upd_static. intros x. reflexivity. }
  assert (Hlt1 : (tj < length (m_tracks m1))%nat).
  { subst m1. unfold upd_track. cbn [set_tracks m_tracks]. rewrite upd_length. apply nth_error_Some. congruence. }
  destruct (tk_next t) as [prev|]; [|injection Hw as <-; exact R1].
  rewrite Hlead in Hw. cbn [negb andb] in Hw.
  match type of Hw with (if negb ?c then _ else _) = _ => change c with (opened_at m1 tj) in Hw end.
  destruct (opened_at m1 tj) eqn:Eop; cbn [negb] in Hw; [|injection Hw as <-; exact R1].
  match type of Hw with context [part_writeSample ?a tj tj ?b] => destruct (part_writeSample a tj tj b) as [m4| |] eqn:Ew end;
    [|discriminate|discriminate].
  injection Hw as <-.
  pose proof (glog_pws m1 tj _ m4 (li_streams m1 L1) (li_part m1 L1) Ew Eop Hlt1 ti) as Hg.
  destruct (Nat.eqb_spec ti tj) as [E|_]; [congruence|].
  pose proof (pending_of_nexts m1 m4 ti (nexts_pws _ _ _ _ _ Ew)) as Hp.
  assert (Ho : opened_at m4 ti = opened_at m1 ti) by (unfold opened_at; rewrite (pws_other_stream _ _ _ _ _ ti Ew); auto).
  destruct R1 as [A B C]. constructor; rewrite ?Hg, ?Ho, ?Hp; auto.
Qed.

(* ================================================================================================
   Look-ahead sample and first-random-access flag of every track through a write.
   ================================================================================================ *)
Definition tk_nf (t : trk) : option sample * bool := (tk_next t, tk_firstRA t).
Definition heads (m : mstate) : list (option sample * bool) := map tk_nf (m_tracks m).

Lemma heads_rotp m si d cn : heads (stream_rotateParts m si d cn) = heads m.
Proof.
  unfold heads. destruct (rotp_spec m si d cn) as [[_ E2]|(s & seg & p0 & _ & _ & _ & _ & E2)]; cbv zeta in E2; rewrite E2; auto.
  unfold part_finalize. destruct (st_tracks s) as [|ti rest]; auto. destruct (nth_error (m_tracks m) ti) as [t|]; auto.
  destruct (tk_samples t); auto. cbn [snd]. apply map_upd_static. intros x. reflexivity.
Qed.

Lemma heads_rots m si d ntp f : heads (stream_rotateSegments m si d ntp f) = heads m.
Proof.
  unfold heads. destruct (rots_spec m si d ntp f) as [_ HT]. cbv zeta in HT. rewrite HT.
  destruct (c_variant (m_cfg m)); auto; apply heads_rotp.
Qed.

Lemma heads_rotateSegments m d ntp f : heads (rotateSegments m d ntp f) = heads m.
Proof.
  apply (T_rotateSegments (fun m' => heads m' = heads m)); auto.
  intros m' si d' ntp' f' H. now rewrite heads_rots.
Qed.

Lemma heads_rotateParts m d : heads (rotateParts m d) = heads m.
Proof.
  apply (T_rotateParts (fun m' => heads m' = heads m)); auto.
  intros m' si d' H. now rewrite heads_rotp.
Qed.

Lemma heads_pws m ti si smp m' : part_writeSample m ti si smp = Ok m' -> heads m' = heads m.
Proof.
  unfold part_writeSample.
  destruct (nth_error (m_streams m) si) as [s|]; [|now intros [= <-]].
  destruct (nth_error (m_tracks m) ti) as [t|]; [|now intros [= <-]].
  destruct (st_open s); [|now intros [= <-]]. destruct (st_openpart s); [|now intros [= <-]].
  destruct (_ <? _); [discriminate|]. intros [= <-].
  unfold heads, upd_stream, upd_track. cbn [set_stream set_tracks m_tracks].
  apply map_upd_static. intros x. reflexivity.
Qed.

Lemma heads_fmp4WriteSample m ti t ra pc smp0 m' :
  nth_error (m_tracks m) ti = Some t -> fmp4WriteSample m ti ra pc smp0 = (m', Ok tt) ->
  heads m' = if shifted t smp0 <? 0 then heads m
             else upd (heads m) ti (fun h => (Some (incoming_of t smp0), snd h)).
Proof.
  intros Ht. unfold fmp4WriteSample. rewrite Ht. cbv zeta. fold (shifted t smp0).
  destruct (shifted t smp0 <? 0); [now intros [= <-]|].
  fold (incoming_of t smp0).
  set (m1 := upd_track m ti (fun t0 => tk_with t0 (tk_firstRA t0) (tk_params t0) (Some (incoming_of t smp0))
                                               (tk_samples t0) (tk_start t0))).
  assert (H1 : heads m1 = upd (heads m) ti (fun h => (Some (incoming_of t smp0), snd h))).
  { subst m1. unfold heads, upd_track. cbn [set_tracks m_tracks]. clear. generalize (m_tracks m) as l. intros l. revert ti.
    induction l as [|x l IH]; intros [|i]; simpl; auto. now rewrite IH. }
  destruct (tk_next t) as [prev|]; [|now intros [= <-]].
  match goal with |- context [if ?c then wok m1 else _] => destruct c end; [now intros [= <-]|].
  match goal with |- context [part_writeSample ?a ti ?si ?b] =>
    assert (H3 : heads a = heads m1); [|destruct (part_writeSample a ti si b) as [m4| |] eqn:Ew; [|discriminate|discriminate]] end.
  { assert (Ha : forall x y, heads (fmp4AdjustPartDuration x y) = heads x)
      by (intros x y; destruct (adjust_frame x y) as (_ & _ & C); unfold heads; now rewrite C).
    repeat match goal with |- context [if ?c then _ else _] => destruct c end; rewrite ?Ha; reflexivity. }
  pose proof (heads_pws _ _ _ _ _ Ew) as H4.
  destruct (negb (tk_leading t)); [intros [= <-]; congruence|].
  destruct (nth_error (m_streams m4) (tk_stream t)); [|intros [= <-]; congruence].
  match goal with |- context [if ?c then _ else _] => destruct c end.
  - intros Hr. assert (E : heads m' = heads (rotateSegments m4
       (timestampToDuration (shifted t smp0) (t_rate (tk_cfg t))) (s_ntp (incoming_of t smp0)) pc))
      by (destruct pc; injection Hr as <-; reflexivity).
    rewrite E, heads_rotateSegments. congruence.
  - match goal with |- context [if ?c then _ else _] => destruct c end; intros [= <-];
      [rewrite heads_rotateParts|]; congruence.
Qed.

(* ================================================================================================
   The structural part of the invariant, closed under every operation of a write.
   ================================================================================================ *)
Section Structural.
  Variable F0 : list bool.
  Variable T0 : list (tcfg * bool * nat).

  Definition ST (m : mstate) : Prop :=
    LB m /\ OR m /\ map st_leading (m_streams m) = F0 /\ map tk_static (m_tracks m) = T0.

  Lemma OR_frame m tracks pending sdurs adj freeze errs :
    OR m -> OR {| m_cfg := m_cfg m; m_tracks := tracks; m_streams := m_streams m; m_pending := pending;
                  m_sdurs := sdurs; m_adj := adj; m_freeze := freeze; m_paths := m_paths m; m_errs := errs |}.
  Proof. intros H. exact H. Qed.

  Lemma LB_frame m tracks pending sdurs adj freeze errs :
    map tk_frame tracks = map tk_frame (m_tracks m) -> LB m ->
    LB {| m_cfg := m_cfg m; m_tracks := tracks; m_streams := m_streams m; m_pending := pending;
          m_sdurs := sdurs; m_adj := adj; m_freeze := freeze; m_paths := m_paths m; m_errs := errs |}.
  Proof.
    intros Hf [HL HB]. split; [now apply LI_frame|].
    destruct HB as [H|H]; [left; exact H|right]. cbn [m_tracks]. intros t Ht.
    apply In_nth_error in Ht. destruct Ht as [k Hk].
    assert (E : option_map tk_frame (nth_error tracks k) = option_map tk_frame (nth_error (m_tracks m) k))
      by (rewrite <- !nth_error_map, Hf; reflexivity).
    rewrite Hk in E. simpl in E. destruct (nth_error (m_tracks m) k) as [t0|] eqn:E0; simpl in E; [|discriminate].
    injection E as _ _ _ Es _. rewrite Es. apply H. eapply nth_error_In; eauto.
  Qed.

  Lemma ST_frame m tracks pending sdurs adj freeze errs :
    map tk_frame tracks = map tk_frame (m_tracks m) -> ST m ->
    ST {| m_cfg := m_cfg m; m_tracks := tracks; m_streams := m_streams m; m_pending := pending;
          m_sdurs := sdurs; m_adj := adj; m_freeze := freeze; m_paths := m_paths m; m_errs := errs |}.
  Proof.
    intros Hf (A & B & C & D). split; [now apply LB_frame|]. split; [exact B|]. split; [exact C|].
    cbn [m_tracks]. rewrite <- D. now apply tk_static_of_frame.
  Qed.

  Lemma ST_create m d ntp ti t :
    nth_error (m_tracks m) ti = Some t -> opened_at m (tk_stream t) = false -> ST m -> ST (createFirstSegment m d ntp).
  Proof.
    intros Ht Ho ((HL & HB) & B & C & D). split; [split; [now apply LI_create|]|split; [|split]].
    - left. unfold createFirstSegment. cbn [set_stream m_streams]. intros s' Hs'. apply in_map_iff in Hs'.
      destruct Hs' as (s & <- & _). discriminate.
    - intros s' Hs'. unfold createFirstSegment in Hs'. cbn [set_stream m_streams] in Hs'. apply in_map_iff in Hs'.
      destruct Hs' as (s & <- & _). intros g Hg. injection Hg as <-. reflexivity.
    - unfold createFirstSegment. cbn [set_stream m_streams]. rewrite map_map. exact C.
    - exact D.
  Qed.

  Lemma ST_rotp m si d : ST m -> ST (stream_rotateParts m si d true).
  Proof.
    intros (A & B & C & D). split; [now apply LB_rotp|]. split; [now apply OR_rotp|]. split; [now rewrite flags_rotp|].
    rewrite <- D. destruct (rotp_spec m si d true) as [[_ E2]|(s & seg & p0 & _ & _ & _ & _ & E2)]; cbv zeta in E2; rewrite E2; auto.
    apply part_finalize_static.
  Qed.

  Lemma ST_rots m si d ntp f : ST m -> ST (stream_rotateSegments m si d ntp f).
  Proof.
    intros (A & B & C & D). split; [now apply LB_rots|]. split; [now apply OR_rots|]. split; [now rewrite flags_rots|].
    rewrite <- D. destruct (rots_spec m si d ntp f) as [_ HT]. cbv zeta in HT. rewrite HT.
    destruct (c_variant (m_cfg m)); auto;
      (destruct (rotp_spec m si d false) as [[_ E2]|(s & seg & p0 & _ & _ & _ & _ & E2)]; cbv zeta in E2; rewrite E2; auto;
       apply part_finalize_static).
  Qed.

  Lemma ST_copy m i (l : stream) (both : bool) : ST m -> ST (upd_stream m i (copy_targets both l)).
  Proof.
    intros (A & B & C & D). split; [now apply LB_copy|]. split; [now apply OR_copy|]. split; [now rewrite flags_copy|exact D].
  Qed.

  Lemma ST_pws m ti si smp m' : ST m -> part_writeSample m ti si smp = Ok m' -> ST m'.
  Proof.
    intros ((HL & HB) & B & C & D) Hw.
    assert (HLB : LB m') by (pose proof (LB_mux_step) as _; split;
      [eapply LI_pws; eauto|]; revert Hw; unfold part_writeSample;
      destruct (nth_error (m_streams m) si) as [s|] eqn:Es; [|intros [= <-]; exact HB];
      destruct (nth_error (m_tracks m) ti) as [t|] eqn:Et; [|intros [= <-]; exact HB];
      destruct (st_open s) as [seg|] eqn:Eo; [|intros [= <-]; exact HB];
      destruct (st_openpart s) as [p|] eqn:Ep; [|intros [= <-]; exact HB];
      destruct (_ <? _); [discriminate|]; intros [= <-]; left;
      unfold upd_stream, upd_track; cbn [set_stream set_tracks m_streams]; intros s' Hs';
      apply In_upd in Hs'; destruct Hs' as [Hs'|(x & Hx & ->)];
      [eapply (all_open_of_one m s HL); eauto; [eapply nth_error_In; eauto|congruence]|discriminate]).
    split; [exact HLB|].
    unfold part_writeSample in Hw.
    destruct (nth_error (m_streams m) si) as [s|] eqn:Es; [|injection Hw as <-; auto].
    destruct (nth_error (m_tracks m) ti) as [t|] eqn:Et; [|injection Hw as <-; auto].
    destruct (st_open s) as [seg|] eqn:Eo; [|injection Hw as <-; auto].
    destruct (st_openpart s) as [p|] eqn:Ep; [|injection Hw as <-; auto].
    destruct (_ <? _); [discriminate|]. injection Hw as <-.
    unfold upd_stream, upd_track. cbn [set_stream set_tracks m_streams m_tracks]. split; [|split].
    - intros s' Hs'. apply In_upd in Hs'. destruct Hs' as [Hs'|(x & Hx & ->)]; [now apply B|].
      rewrite Es in Hx. injection Hx as <-. intros g Hg. cbn [st_with st_open x_open] in Hg. injection Hg as <-.
      cbn [sg_with_size sg_gap]. apply (B s (nth_error_In _ _ Es) seg Eo).
    - rewrite flags_upd_with; [exact C|]. intros x. reflexivity.
    - rewrite <- D. apply map_upd_static. intros x. reflexivity.
  Qed.

  Lemma ST_ts m si u size e inc : ST m -> ST (fst (ts_write m si u size e inc)).
  Proof.
    intros ((HL & HB) & B & C & D). unfold ts_write.
    pose proof (conj (conj HL HB) (conj B (conj C D))) as Hall.
    destruct (nth_error (m_streams m) si) as [s|] eqn:Es; [|exact Hall].
    destruct (st_open s) as [seg|] eqn:Eo; [|exact Hall].
    destruct (_ <? _) eqn:El; [exact Hall|]. clear Hall. cbn [fst wok].
    split; [split|split; [|split]].
    - pose proof (LI_ts m si u size e inc HL) as H. unfold ts_write in H. rewrite Es, Eo, El in H. exact H.
    - destruct HB as [H|H]; [left|right; exact H].
      unfold upd_stream. cbn [set_stream m_streams]. intros s' Hs'.
      apply In_upd in Hs'. destruct Hs' as [Hs'|(x & Hx & ->)]; [now apply H|discriminate].
    - unfold upd_stream. cbn [set_stream m_streams]. intros s' Hs'.
      apply In_upd in Hs'. destruct Hs' as [Hs'|(x & Hx & ->)]; [now apply B|].
      rewrite Es in Hx. injection Hx as <-. intros g Hg. cbn [st_with st_open x_open] in Hg. injection Hg as <-.
      cbn [sg_ts_write sg_gap]. apply (B s (nth_error_In _ _ Es) seg Eo).
    - unfold upd_stream. cbn [set_stream m_streams]. rewrite flags_upd_with; [exact C|]. intros x. reflexivity.
    - exact D.
  Qed.

  Lemma ST_rotateParts m d : ST m -> ST (rotateParts m d).
  Proof. apply (T_rotateParts ST); auto using ST_copy. intros; now apply ST_rotp. Qed.

  Lemma ST_rotateSegments m d ntp f : ST m -> ST (rotateSegments m d ntp f).
  Proof. apply (T_rotateSegments ST); auto using ST_rots, ST_copy. Qed.

  Lemma ST_fmp4WriteSample m ti ra pc smp : ST m -> ST (fst (fmp4WriteSample m ti ra pc smp)).
  Proof.
    apply (TC_fmp4WriteSample ST); auto using ST_frame, ST_rotateParts, ST_rotateSegments.
    - intros m0 d ntp ti0 t0 Ht Ho H. eapply ST_create; eauto.
    - intros m0 ti0 si smp0 m' H Hw. eapply ST_pws; eauto.
  Qed.

  Lemma ST_mux_step m o : ST m -> ST (fst (mux_step m o)).
  Proof.
    apply (TC_mux_step ST); auto using ST_frame, ST_rotateParts, ST_rotateSegments, ST_ts.
    - intros m0 d ntp ti0 t0 Ht Ho H. eapply ST_create; eauto.
    - intros m0 ti0 si smp0 m' H Hw. eapply ST_pws; eauto.
  Qed.
End Structural.
