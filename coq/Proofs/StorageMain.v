(* C17: lifting the one-step simulations to every op list; corollaries. *)
From Coq Require Import List ZArith Lia Bool Arith.
From GoHls Require Import Model.Storage Proofs.StorageLists Proofs.StorageRam Proofs.StorageDisk.
Import ListNotations.

Lemma ram_run_sim ops : forall w r s,
  RRel r s -> WRam w r -> wf_from w ops = true ->
  snd (run ram_step r ops) = snd (run spec_step s ops).
Proof.
  induction ops as [|o ops IH]; intros w r s HR HW Hwf; [reflexivity|].
  cbn [wf_from] in Hwf. destruct (wf_step w o) as [w'|] eqn:Ew; [|discriminate].
  pose proof (ram_step_sim w w' r s o HR HW Ew) as Hs.
  cbn [run]. destruct (ram_step r o) as [r' ob]. destruct (spec_step s o) as [s' ob'].
  destruct Hs as (-> & HR' & HW').
  specialize (IH w' r' s' HR' HW' Hwf).
  destruct (run ram_step r' ops), (run spec_step s' ops). simpl in *. now rewrite IH.
Qed.

Lemma disk_run_sim ops : forall w d s,
  DRel d s w -> wf_from w ops = true ->
  snd (run disk_step d ops) = snd (run spec_step s ops)
  /\ exists w', DRel (fst (run disk_step d ops)) (fst (run spec_step s ops)) w'
                /\ (w_removed w = true -> w_removed w' = true)
                /\ (In Remove ops -> w_removed w' = true).
Proof.
  induction ops as [|o ops IH]; intros w d s HR Hwf.
  - split; [reflexivity|]. exists w. simpl. tauto.
  - cbn [wf_from] in Hwf. destruct (wf_step w o) as [w1|] eqn:Ew; [|discriminate].
    pose proof (disk_step_sim d s w w1 o HR Ew) as Hs.
    cbn [run]. destruct (disk_step d o) as [d1 ob]. destruct (spec_step s o) as [s1 ob'].
    destruct Hs as (-> & HR1).
    destruct (IH w1 d1 s1 HR1 Hwf) as (Hobs & w' & HR' & Hmono & Hrm).
    destruct (run disk_step d1 ops), (run spec_step s1 ops). simpl in *.
    split; [now rewrite Hobs|].
    exists w'. split; [exact HR'|].
    assert (Hstep : w_removed w = true -> w_removed w1 = true).
    { intros Hw. destruct o as [| | | | | |[|]| |]; cbn [wf_step] in Ew;
        repeat match type of Ew with
               | (if ?c then _ else _) = _ => destruct c eqn:?; try discriminate
               end; try (injection Ew as <-; simpl; auto). }
    split; [auto|].
    intros [->|Hin]; [|auto].
    apply Hmono. cbn [wf_step] in Ew.
    destruct (w_final w && negb (w_removed w))%bool; [|discriminate]. now injection Ew as <-.
Qed.

Theorem ram_refines ops : wf_ops ops = true -> obs_ram ops = obs_spec ops.
Proof.
  intros H. unfold obs_ram, obs_spec.
  eapply ram_run_sim; eauto using RRel_init, WRam_init.
Qed.

Theorem disk_refines ops : wf_ops ops = true -> obs_disk ops = obs_spec ops.
Proof.
  intros H. unfold obs_disk, obs_spec.
  apply (disk_run_sim ops w0 disk_init spec_init DRel_init H).
Qed.

Theorem ram_disk_equiv ops : wf_ops ops = true -> obs_ram ops = obs_disk ops.
Proof. intros H. now rewrite ram_refines, disk_refines. Qed.

Theorem remove_deletes ops :
  wf_ops ops = true -> In Remove ops ->
  f_exists (fst (run disk_step disk_init ops)) = false.
Proof.
  intros H Hin.
  destruct (disk_run_sim ops w0 disk_init spec_init DRel_init H) as (_ & w' & HR & _ & Hrm).
  rewrite (dr_exists _ _ _ HR), (Hrm Hin). reflexivity.
Qed.

(* ---- what the specification itself says (the property text, on the spec) ---- *)

(* reading a handle with any list of buffer sizes returns a prefix of its bytes, in order *)
Fixpoint drain (rem : list Z) (ns : list nat) : list (list Z) * list Z :=
  match ns with
  | [] => ([], rem)
  | n :: ns' => let '(outs, rem') := drain (skipn n rem) ns' in (firstn n rem :: outs, rem')
  end.

Lemma drain_concat ns : forall rem,
  concat (fst (drain rem ns)) ++ snd (drain rem ns) = rem.
Proof.
  induction ns as [|n ns IH]; intros rem; [reflexivity|].
  cbn [drain]. specialize (IH (skipn n rem)). destruct (drain (skipn n rem) ns) as [outs rem'].
  simpl in *. rewrite <- app_assoc, IH. apply firstn_skipn.
Qed.

Lemma read_handle_spec hs h n rem :
  nth_error hs h = Some (Some rem) ->
  read_handle hs h n = (set_nth hs h (Some (skipn n rem)), OBytes (firstn n rem)).
Proof. intros H. unfold read_handle. now rewrite H. Qed.

Lemma nth_error_set_nth {A} (l : list A) i x : i < length l -> nth_error (set_nth l i x) i = Some x.
Proof.
  intros H. unfold set_nth.
  rewrite nth_error_app2 by (rewrite firstn_length; lia).
  rewrite firstn_length. replace (i - Nat.min i (length l)) with 0 by lia.
  destruct (skipn i l) eqn:E.
  - assert (length (skipn i l) = 0) by now rewrite E. rewrite skipn_length in H0. lia.
  - reflexivity.
Qed.

(* successive ReadH calls on one handle: outputs are the consecutive chunks *)
Lemma spec_reads_chunks ns : forall s h rem,
  nth_error (sp_handles s) h = Some (Some rem) ->
  snd (run spec_step s (map (ReadH h) ns)) = map OBytes (fst (drain rem ns)).
Proof.
  induction ns as [|n ns IH]; intros s h rem Hh; [reflexivity|].
  cbn [map run spec_step]. rewrite (read_handle_spec _ _ n _ Hh).
  set (s1 := {| sp_parts := sp_parts s; sp_pos := sp_pos s; sp_final := sp_final s;
                sp_handles := set_nth (sp_handles s) h (Some (skipn n rem)) |}).
  assert (Hh1 : nth_error (sp_handles s1) h = Some (Some (skipn n rem))).
  { subst s1. simpl. apply nth_error_set_nth. apply nth_error_Some. congruence. }
  specialize (IH s1 h _ Hh1).
  destruct (run spec_step s1 (map (ReadH h) ns)) as [s2 obs2]. simpl in IH.
  cbn [drain]. destruct (drain (skipn n rem) ns) as [outs rem']. simpl in *. now rewrite IH.
Qed.

(* the file reader returns the parts concatenated in allocation order *)
Lemma spec_open_file s :
  sp_final s = true ->
  spec_step s (Open TFile) =
  ({| sp_parts := sp_parts s; sp_pos := sp_pos s; sp_final := true;
      sp_handles := sp_handles s ++ [Some (concat (sp_parts s))] |}, OOk).
Proof. intros H. cbn [spec_step]. now rewrite H. Qed.

Lemma spec_open_file_early s :
  sp_final s = false -> snd (spec_step s (Open TFile)) = OErr.
Proof. intros H. cbn [spec_step]. now rewrite H. Qed.

Lemma spec_size_final s :
  sp_final s = true -> snd (spec_step s Size) = ONum (Z.of_nat (length (concat (sp_parts s)))).
Proof. intros H. cbn [spec_step]. now rewrite H. Qed.

Lemma nth_skipn' {A} (l : list A) d : forall n i, nth i (skipn n l) d = nth (n + i) l d.
Proof.
  induction l as [|x l IH]; intros n i.
  - rewrite skipn_nil. destruct i, n; reflexivity.
  - destruct n; [reflexivity|]. simpl. apply IH.
Qed.

Lemma nth_firstn' {A} (l : list A) d : forall n i, i < n -> nth i (firstn n l) d = nth i l d.
Proof.
  induction l as [|x l IH]; intros n i H.
  - rewrite firstn_nil. reflexivity.
  - destruct n; [lia|]. destruct i; [reflexivity|]. simpl. apply IH. lia.
Qed.

Lemma nth_zeros n i : nth i (zeros n) 0%Z = 0%Z.
Proof.
  revert i; induction n as [|n IH]; intros [|i]; simpl; auto.
Qed.

(* a Write puts exactly these bytes at the writer position, zero-filling any hole,
   and touches nothing else *)
Lemma spec_write_bytes l pos bs i :
  bs <> [] ->
  nth i (put_all l pos bs) 0%Z =
  if (pos <=? i) && (i <? pos + length bs) then nth (i - pos) bs 0%Z else nth i l 0%Z.
Proof.
  intros Hbs. rewrite put_all_pwrite. destruct bs as [|x bs]; [congruence|].
  rewrite pwrite_cons. set (q := x :: bs).
  destruct (Nat.leb_spec pos i) as [H1|H1]; cbn [andb].
  - destruct (Nat.ltb_spec i (pos + length q)) as [H2|H2].
    + destruct (le_lt_dec (length l) pos) as [H3|H3].
      * rewrite firstn_all2 by lia. rewrite app_nth2 by lia.
        rewrite app_nth2 by (rewrite zeros_length; lia). rewrite zeros_length.
        rewrite app_nth1 by lia. f_equal. lia.
      * rewrite app_nth2 by (rewrite firstn_length; lia). rewrite firstn_length.
        replace (pos - length l) with 0 by lia. cbn [zeros repeat app].
        rewrite app_nth1 by lia. f_equal. lia.
    + destruct (le_lt_dec (length l) pos) as [H3|H3].
      * rewrite firstn_all2 by lia. rewrite app_nth2 by lia.
        rewrite app_nth2 by (rewrite zeros_length; lia). rewrite zeros_length.
        rewrite app_nth2 by lia. rewrite skipn_all2 by lia.
        rewrite (nth_overflow l) by lia. destruct (i - length l - (pos - length l) - length q); reflexivity.
      * rewrite app_nth2 by (rewrite firstn_length; lia). rewrite firstn_length.
        replace (pos - length l) with 0 by lia. cbn [zeros repeat app].
        rewrite app_nth2 by lia.
        rewrite nth_skipn'. f_equal. lia.
  - destruct (le_lt_dec (length l) i) as [H3|H3].
    + rewrite firstn_all2 by lia. rewrite app_nth2 by lia.
      rewrite app_nth1 by (rewrite zeros_length; lia).
      rewrite (nth_overflow l) by lia. now rewrite nth_zeros.
    + rewrite app_nth1 by (rewrite firstn_length; lia).
      now rewrite nth_firstn' by lia.
Qed.

(* ---- non-vacuity: a concrete op list with rewrites, seeks, several parts ---- *)
Definition c17_example : list sop :=
  [ NewPart; Write [1;2;3;4]%Z; Seek SeekStart 1; Write [9]%Z; Seek SeekCurrent 5;
    Seek SeekCurrent (-100); NewPart; NewPart; Write [7;8]%Z; Snap 0; Open (TPart 0);
    Open TFile; Finalize; Open TFile; ReadH 2 3; ReadH 2 0; ReadH 2 100; ReadH 0 2;
    Snap 2; Size; Remove; ReadH 0 10 ].

Example c17_example_wf : wf_ops c17_example = true.
Proof. vm_compute. reflexivity. Qed.

Example c17_example_obs :
  obs_spec c17_example =
  [ ONone; OOk; ONum 1; OOk; ONum 7; OErr; ONone; ONone; OOk;
    OBytes [1;9;3;4;0;0;0]; OOk; OErr; ONone; OOk;
    OBytes [1;9;3]; OBytes []; OBytes [4;0;0;0;7;8]; OBytes [1;9];
    OBytes [7;8]; ONum 9; ONone; OBytes [3;4;0;0;0] ]%Z.
Proof. vm_compute. reflexivity. Qed.
