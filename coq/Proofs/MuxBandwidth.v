(* C16: BANDWIDTH is the peak and AVERAGE-BANDWIDTH the mean bit rate of the listed segments.
   [bandwidth] is written with three left folds, as the Go code is; here it is characterised without them:
   over the listed non-gap segments of positive duration, the peak is an upper bound of every segment's own
   bit rate and is attained by one of them, and the mean is (8 x total bytes) / (total duration). *)
From Coq Require Import List ZArith Bool Lia Arith.
From GoHls Require Import Model.Mux.
Import ListNotations.
Local Open Scope Z_scope.

Definition counted_seg (g : segrec) : bool := negb (sg_gap g) && (0 <? sg_dur g).
Definition seg_rate (g : segrec) : Z := Z.quot (8 * sg_size g * second) (sg_dur g).
Definition sumZf {X} (f : X -> Z) (l : list X) : Z := fold_right (fun x a => f x + a) 0 l.

Lemma fold_add_sum {X} (f : X -> Z) l : forall a, fold_left (fun a x => a + f x) l a = a + sumZf f l.
Proof. induction l as [|x l IH]; intros a; cbn [fold_left sumZf fold_right]; [lia|]. rewrite IH. unfold sumZf. lia. Qed.

Lemma fold_max_spec {X} (f : X -> Z) l : forall a,
  let r := fold_left (fun a x => Z.max a (f x)) l a in
  a <= r /\ (forall x, In x l -> f x <= r) /\ (r = a \/ exists x, In x l /\ r = f x).
Proof.
  induction l as [|x l IH]; intros a; cbn [fold_left].
  - split; [lia|]. split; [intros x []|now left].
  - destruct (IH (Z.max a (f x))) as (H1 & H2 & H3). cbv zeta in *.
    split; [lia|]. split.
    + intros y [<-|Hy]; [lia|now apply H2].
    + destruct H3 as [H3|(y & Hy & H3)].
      * destruct (Z.max_spec a (f x)) as [[_ E]|[_ E]].
        -- right. exists x. split; [now left|]. rewrite H3. exact E.
        -- left. rewrite H3. exact E.
      * right. exists y. split; [now right|exact H3].
Qed.

Theorem bandwidth_is_peak_and_mean segs mx avg :
  bandwidth segs = Ok (mx, avg) ->
  let real := filter counted_seg segs in
  let bytes := sumZf sg_size real in
  let dur := sumZf sg_dur real in
  (0 < dur ->
     avg = Z.quot (8 * bytes * second) dur
     /\ (forall g, In g real -> seg_rate g <= mx)
     /\ (mx = 0 \/ exists g, In g real /\ mx = seg_rate g))
  /\ (dur <= 0 -> mx = 0 /\ avg = 0).
Proof.
  unfold bandwidth. destruct segs as [|g0 segs']; [intros [= <- <-]; cbn; split; [lia|auto]|].
  set (segs := g0 :: segs') in *. fold (filter counted_seg segs).
  change (filter (fun s => negb (sg_gap s) && (0 <? sg_dur s)) segs) with (filter counted_seg segs).
  set (real := filter counted_seg segs). cbv zeta.
  rewrite (fold_add_sum sg_size real 0), (fold_add_sum sg_dur real 0). rewrite !Z.add_0_l.
  destruct (fold_max_spec seg_rate real 0) as (H1 & H2 & H3). cbv zeta in *.
  change (fun a s => Z.max a (Z.quot (8 * sg_size s * second) (sg_dur s))) with (fun a s => Z.max a (seg_rate s)).
  destruct (sumZf sg_dur real <=? 0) eqn:Ed; intros [= <- <-].
  - apply Z.leb_le in Ed. split; [lia|auto].
  - apply Z.leb_gt in Ed. split; [|lia]. intros _. split; [reflexivity|]. split; [exact H2|exact H3].
Qed.
