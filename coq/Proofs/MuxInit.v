(* C02, fMP4 variants: the init segment served carries the current parameters.
   K: whenever no parameter change is pending and the open segment of a stream was not opened by a forced
   (parameter change) rotation, the parameter ids captured by the stream's cached init file are the current
   parameters of exactly the stream's tracks.
   This file: what K depends on (per stream: its tracks, its init, the force flag of its open segment; per
   track: the current parameters), the operations that leave all of that alone, createFirstSegment, and the
   two readings of Muxer.rotateSegmentsInner - an unforced rotation keeps K, a forced one makes it hold
   outright because every open segment is then a forced one.  MuxInitHist.v goes through the writes. *)
From Coq Require Import List ZArith Bool Lia Arith.
From GoHls Require Import Model.Mux Proofs.MuxStream Proofs.MuxLift Proofs.MuxWindow Proofs.MuxHistory Proofs.MuxTimes
  Proofs.MuxMulti Proofs.MuxSamples Proofs.MuxCut Proofs.MuxLog Proofs.MuxLogStep Proofs.MuxLogTS Proofs.MuxPartIds Proofs.MuxAgree
  Proofs.MuxGroups Proofs.MuxRAStart Proofs.MuxRAHist Proofs.MuxChain.
Import ListNotations.
Local Open Scope Z_scope.

(* cur_params m s (MuxTimes.v) is the [cur] of stream_rotateSegments: the current parameter ids of the stream's tracks *)
Definition Kc (m : mstate) (s : stream) : Prop :=
  (forall g, st_open s = Some g -> sg_forced g = false) ->
  forall ps, st_init s = Some ps -> ps = cur_params m s.
Definition Kw (m : mstate) : Prop := forall si s, nth_error (m_streams m) si = Some s -> Kc m s.
Definition KI (m : mstate) : Prop := m_pending m = false -> Kw m.
(* a stream that is not open has no init yet *)
Definition AUX (m : mstate) : Prop := forall s, In s (m_streams m) -> st_open s = None -> st_init s = None.

Definition pvec (m : mstate) : list Z := map tk_params (m_tracks m).
Definition sv (s : stream) : list nat * option (list Z) * option bool :=
  (st_tracks s, st_init s, option_map sg_forced (st_open s)).

(* same view: nothing K or AUX looks at has changed *)
Definition SameV (m m' : mstate) : Prop :=
  map sv (m_streams m') = map sv (m_streams m) /\ pvec m' = pvec m /\ m_pending m' = m_pending m /\ m_cfg m' = m_cfg m.

Lemma SameV_refl m : SameV m m.
Proof. repeat split. Qed.

Lemma SameV_trans a b c : SameV a b -> SameV b c -> SameV a c.
Proof. intros (A1 & A2 & A3 & A4) (B1 & B2 & B3 & B4). repeat split; congruence. Qed.

Lemma cur_params_pvec m m' trs :
  pvec m' = pvec m ->
  map (fun ti => match nth_error (m_tracks m') ti with Some t => tk_params t | None => 0 end) trs
  = map (fun ti => match nth_error (m_tracks m) ti with Some t => tk_params t | None => 0 end) trs.
Proof.
  intros E. apply map_ext. intros ti.
  assert (H : option_map tk_params (nth_error (m_tracks m') ti) = option_map tk_params (nth_error (m_tracks m) ti))
    by (rewrite <- !nth_error_map; unfold pvec in E; now rewrite E).
  destruct (nth_error (m_tracks m') ti), (nth_error (m_tracks m) ti); simpl in H; congruence.
Qed.

Lemma Kc_view m m' s s' : pvec m' = pvec m -> sv s' = sv s -> Kc m s -> Kc m' s'.
Proof.
  unfold sv. intros Ep Ev H Hf ps Hi. injection Ev as E1 E2 E3.
  unfold cur_params. rewrite E1, (cur_params_pvec m m' _ Ep). apply H; [|congruence].
  intros g Hg. rewrite Hg in E3. destruct (st_open s') as [g'|]; [|discriminate]. simpl in E3. injection E3 as E3.
  rewrite <- E3. now apply Hf.
Qed.

Lemma map_nth_inv {A B} (f : A -> B) l l' : map f l' = map f l ->
  forall j y, nth_error l' j = Some y -> exists x, nth_error l j = Some x /\ f y = f x.
Proof.
  intros E j y Hy.
  assert (H : option_map f (nth_error l' j) = option_map f (nth_error l j)) by (rewrite <- !nth_error_map; now rewrite E).
  rewrite Hy in H. destruct (nth_error l j) as [x|]; simpl in H; [|discriminate]. injection H as H. eauto.
Qed.

Lemma Kw_SameV m m' : SameV m m' -> Kw m -> Kw m'.
Proof.
  intros (E1 & E2 & _) H j s' Hs'. destruct (map_nth_inv sv _ _ E1 j s' Hs') as (s & Hs & Ev).
  apply (Kc_view m m' s s' E2 Ev). eapply H; eauto.
Qed.

Lemma KI_SameV m m' : SameV m m' -> KI m -> KI m'.
Proof. intros HS H Hp. apply (Kw_SameV m m' HS). apply H. destruct HS as (_ & _ & E & _). congruence. Qed.

(* ---- operations that keep the view ---- *)
Lemma SameV_tracks m tracks :
  map tk_params tracks = map tk_params (m_tracks m) -> SameV m (set_tracks m tracks).
Proof. intros E. repeat split. exact E. Qed.

Lemma SameV_upd_track m i f : (forall t, tk_params (f t) = tk_params t) -> SameV m (upd_track m i f).
Proof. intros Hf. unfold upd_track. apply SameV_tracks. cbn [m_tracks]. now apply map_upd_static. Qed.

Lemma SameV_adjust m sd : SameV m (fmp4AdjustPartDuration m sd).
Proof.
  unfold fmp4AdjustPartDuration. destruct (c_variant (m_cfg m)); try apply SameV_refl.
  destruct (m_freeze m); [apply SameV_refl|]. destruct (sd =? 0); [apply SameV_refl|].
  destruct (existsb _ _); [apply SameV_refl|]. repeat split.
Qed.

Lemma map_upd_const {A B} (f : A -> B) l i x y : nth_error l i = Some x -> f y = f x -> map f (upd l i (fun _ => y)) = map f l.
Proof.
  revert i. induction l as [|a l IH]; intros [|i] H E; simpl in *; try discriminate; auto.
  - injection H as ->. now rewrite E.
  - f_equal. now apply IH.
Qed.

Lemma pvec_finalize p0 tracks stracks d : map tk_params (snd (part_finalize p0 tracks stracks d)) = map tk_params tracks.
Proof.
  unfold part_finalize. destruct stracks as [|ti rest]; auto. destruct (nth_error tracks ti) as [t|]; auto.
  destruct (tk_samples t); auto. cbn [snd]. apply map_upd_static. intros x. reflexivity.
Qed.

Lemma if_add_err_pc (b : bool) x :
  m_pending (if b then add_err x else x) = m_pending x /\ m_cfg (if b then add_err x else x) = m_cfg x.
Proof. destruct b; auto. Qed.

Lemma pend_rotp m si d cn : m_pending (stream_rotateParts m si d cn) = m_pending m.
Proof.
  unfold stream_rotateParts. destruct (nth_error (m_streams m) si) as [s|]; [|reflexivity].
  destruct (st_openpart s); [|reflexivity]. destruct (st_open s); [|reflexivity].
  destruct (part_finalize _ _ _ _). destruct (srot_parts _ _ _ _ _ _). destruct b; reflexivity.
Qed.

Lemma pend_rots m si d ntp f : m_pending (stream_rotateSegments m si d ntp f) = m_pending m.
Proof.
  unfold stream_rotateSegments.
  set (m1 := match c_variant (m_cfg m) with MPEGTS => m | _ => stream_rotateParts m si d false end).
  assert (H1 : m_pending m1 = m_pending m) by (subst m1; destruct (c_variant (m_cfg m)); auto using pend_rotp).
  destruct (nth_error (m_streams m1) si); [|exact H1].
  destruct (st_open s); [|exact H1].
  destruct (srot_segments _ _ _ _ _ _ _ _) as [[s' regen] bump]. destruct bump; exact H1.
Qed.

Lemma SameV_rotp m si d cn : SameV m (stream_rotateParts m si d cn).
Proof.
  split; [|split; [|split; [apply pend_rotp|apply cfg_stream_rotateParts]]].
  - destruct (rotp_spec m si d cn) as [[E1 _]|(s & seg & p0 & Es & Eo & Ep & E1 & _)]; cbv zeta in E1; rewrite E1; [reflexivity|].
    apply (map_upd_const sv _ si s); [exact Es|].
    set (p := fst (part_finalize p0 (m_tracks m) (st_tracks s) d)).
    destruct (srot_parts_frame (c_variant (m_cfg m)) s seg p d cn) as (_ & _ & _ & _ & _ & F6 & _ & F8 & _).
    unfold sv. rewrite F6, F8, Eo, srot_parts_tracks. reflexivity.
  - unfold pvec. destruct (rotp_spec m si d cn) as [[_ E2]|(s & seg & p0 & _ & _ & _ & _ & E2)]; cbv zeta in E2; rewrite E2; [reflexivity|].
    apply pvec_finalize.
Qed.

Lemma map_upd_fun {A B} (f : A -> B) l i g : (forall x, f (g x) = f x) -> map f (upd l i g) = map f l.
Proof. apply map_upd_static. Qed.

Lemma SameV_copy m i (l : stream) (both : bool) : SameV m (upd_stream m i (copy_targets both l)).
Proof.
  split; [|repeat split]. unfold upd_stream. cbn [set_stream m_streams]. apply map_upd_static.
  intros x. unfold copy_targets. destruct (st_leading x); reflexivity.
Qed.

Lemma SameV_rotateParts m d : SameV m (rotateParts m d).
Proof.
  apply (T_rotateParts (SameV m)); [| |apply SameV_refl].
  - intros m' si d' H. eapply SameV_trans; [exact H|apply SameV_rotp].
  - intros m' i l both H. eapply SameV_trans; [exact H|apply SameV_copy].
Qed.

Lemma SameV_pws m ti si smp m' : part_writeSample m ti si smp = Ok m' -> SameV m m'.
Proof.
  unfold part_writeSample.
  destruct (nth_error (m_streams m) si) as [s|] eqn:Es; [|intros [= <-]; apply SameV_refl].
  destruct (nth_error (m_tracks m) ti) as [t|]; [|intros [= <-]; apply SameV_refl].
  destruct (st_open s) as [seg|] eqn:Eo; [|intros [= <-]; apply SameV_refl].
  destruct (st_openpart s); [|intros [= <-]; apply SameV_refl].
  destruct (_ <? _); [discriminate|]. intros [= <-].
  split; [|split; [|split; reflexivity]].
  - unfold upd_stream, upd_track. cbn [set_stream set_tracks m_streams].
    rewrite (upd_ext_at _ si _ s Es). apply (map_upd_const sv _ si s); [exact Es|].
    unfold sv. cbn [st_with st_tracks st_init st_open x_init x_open st_mut]. rewrite Eo. reflexivity.
  - unfold pvec, upd_stream, upd_track. cbn [set_stream set_tracks m_tracks]. apply map_upd_static. intros x. reflexivity.
Qed.

Lemma SameV_set_adj m a b c : SameV m (set_adj m a b c).
Proof. repeat split. Qed.

(* ---- createFirstSegment, all streams closed: K carries over (the new open segments are not forced ones) ---- *)
Lemma Kw_create m d ntp :
  (forall s, In s (m_streams m) -> st_open s = None) -> Kw m -> Kw (createFirstSegment m d ntp).
Proof.
  intros Hc H j s' Hs'. unfold createFirstSegment in Hs'. cbn [set_stream m_streams] in Hs'.
  rewrite nth_error_map in Hs'. destruct (nth_error (m_streams m) j) as [s|] eqn:Es; [|discriminate].
  injection Hs' as <-. intros _ ps Hi.
  change (cur_params (createFirstSegment m d ntp) (stream_createFirst (c_variant (m_cfg m)) s d ntp)) with (cur_params m s).
  apply (H j s Es); [|exact Hi]. intros g Hg. rewrite (Hc s (nth_error_In _ _ Es)) in Hg. discriminate.
Qed.

(* ---- the segment rotation of one stream (fMP4 variants), seen through the view ---- *)
Lemma rots_view m si d ntp f :
  c_variant (m_cfg m) <> MPEGTS ->
  let m' := stream_rotateSegments m si d ntp f in
  pvec m' = pvec m /\
  forall j s', nth_error (m_streams m') j = Some s' ->
    nth_error (m_streams m) j = Some s'
    \/ (j = si /\ exists s seg, nth_error (m_streams m) si = Some s /\ st_open s = Some seg
                             /\ st_nextSeg s' = st_nextSeg s + 1
                             /\ sv s' = (st_tracks s,
                                         (if match st_init s with None => true | Some _ => false end || sg_forced seg
                                          then Some (cur_params m s) else st_init s),
                                         Some f)).
Proof.
  intros Hv. cbv zeta.
  assert (Em1 : (match c_variant (m_cfg m) with MPEGTS => m | _ => stream_rotateParts m si d false end)
                = stream_rotateParts m si d false) by (destruct (c_variant (m_cfg m)); congruence).
  set (m1 := stream_rotateParts m si d false) in *.
  assert (Hp1 : pvec m1 = pvec m) by (destruct (SameV_rotp m si d false) as (_ & A & _); exact A).
  split.
  { unfold pvec. destruct (rots_spec m si d ntp f) as [_ HT]. cbv zeta in HT. rewrite HT. fold m1. rewrite Em1. exact Hp1. }
  (* stream si of m1 *)
  assert (H1 : forall s1, nth_error (m_streams m1) si = Some s1 ->
               exists s, nth_error (m_streams m) si = Some s /\ st_tracks s1 = st_tracks s /\ st_init s1 = st_init s
                         /\ st_nextSeg s1 = st_nextSeg s
                         /\ (st_open s1 = st_open s
                             \/ exists seg p, st_open s = Some seg /\ st_open s1 = Some (sg_with_parts seg p))).
  { intros s1 Hs1. subst m1.
    destruct (rotp_spec m si d false) as [[E1 _]|(s & seg & p0 & Es & Eo & Ep & E1 & _)]; cbv zeta in E1; rewrite E1 in Hs1.
    - exists s1. auto 10.
    - rewrite (nth_error_upd_same _ si _ s Es) in Hs1. injection Hs1 as <-.
      set (p := fst (part_finalize p0 (m_tracks m) (st_tracks s) d)).
      destruct (srot_parts_frame (c_variant (m_cfg m)) s seg p d false) as (_ & _ & _ & F4 & _ & F6 & _ & F8 & _).
      exists s. split; [exact Es|]. split; [apply srot_parts_tracks|]. split; [exact F6|]. split; [exact F4|].
      right. exists seg, (sg_parts seg ++ [p]). auto. }
  assert (Hnone : (forall s0, nth_error (m_streams m1) si = Some s0 -> st_open s0 = None) ->
                  stream_rotateSegments m si d ntp f = m1).
  { intros H. pose proof (rots_none m si d ntp f) as R. cbv zeta in R. fold m1 in R. rewrite Em1 in R. now apply R. }
  assert (Hsome : forall s1 g1, nth_error (m_streams m1) si = Some s1 -> st_open s1 = Some g1 ->
                  m_streams (stream_rotateSegments m si d ntp f)
                  = upd (m_streams m1) si (fun _ => fst (fst (srot_segments (c_variant (m_cfg m)) (c_segcount (m_cfg m))
                                                                              s1 g1 d ntp f (cur_params m1 s1))))).
  { intros s1 g1 A B. pose proof (rots_some m si d ntp f s1 g1) as R. cbv zeta in R. fold m1 in R. rewrite Em1 in R. now apply R. }
  intros j s' Hs'.
  destruct (Nat.eq_dec si j) as [<-|Hne].
  2:{ left. rewrite rots_other in Hs' by exact Hne. exact Hs'. }
  destruct (nth_error (m_streams m1) si) as [s1|] eqn:Es1.
  2:{ left. rewrite Hnone in Hs' by (intros s0 Hs0; discriminate).
      (* no stream si in m1, hence none in m *)
      subst m1. rewrite Es1 in Hs'. discriminate. }
  destruct (H1 s1 eq_refl) as (s & Es & T1 & I1 & N1 & O1).
  destruct (st_open s1) as [g1|] eqn:Eo1.
  2:{ left. rewrite Hnone in Hs' by (intros s0 Hs0; injection Hs0 as <-; exact Eo1).
      rewrite Es1 in Hs'. injection Hs' as <-.
      destruct O1 as [O1|(seg & p & _ & O1)]; [|discriminate].
      (* nothing happened to the stream at all: the part rotation needs an open segment *)
      subst m1. destruct (rotp_spec m si d false) as [[E1 _]|(sx & segx & p0 & Esx & Eox & _ & _ & _)]; cbv zeta in *.
      - now rewrite <- E1.
      - rewrite Es in Esx. injection Esx as <-. congruence. }
  right. split; [reflexivity|].
  rewrite (Hsome s1 g1 eq_refl Eo1) in Hs'. rewrite (nth_error_upd_same _ si _ s1 Es1) in Hs'. injection Hs' as <-.
  assert (Hseg : exists seg, st_open s = Some seg /\ sg_forced g1 = sg_forced seg).
  { destruct O1 as [O1|(seg & p & A & B)].
    - exists g1. split; [congruence|reflexivity].
    - exists seg. split; [exact A|]. injection B as ->. reflexivity. }
  destruct Hseg as (seg & Eo & Hfo).
  exists s, seg. split; [exact Es|]. split; [exact Eo|].
  destruct (srot_segments_frame (c_variant (m_cfg m)) (c_segcount (m_cfg m)) s1 g1 d ntp f (cur_params m1 s1))
    as (_ & _ & _ & F4 & _ & F6 & _).
  destruct (init_regenerated (c_variant (m_cfg m)) (c_segcount (m_cfg m)) s1 g1 d ntp f (cur_params m1 s1)) as [R1 R2].
  cbv zeta in R1, R2.
  split; [rewrite F4, N1; reflexivity|].
  unfold sv. rewrite srot_segments_tracks, T1, F6, R2, R1, I1, Hfo.
  assert (Hnv : negb (variant_eqb (c_variant (m_cfg m)) MPEGTS) = true) by (destruct (c_variant (m_cfg m)); [congruence|reflexivity|reflexivity]).
  rewrite Hnv. cbn [andb option_map new_seg sg_forced].
  assert (Hc : cur_params m1 s1 = cur_params m s) by (unfold cur_params; rewrite T1; apply cur_params_pvec; exact Hp1).
  rewrite Hc. destruct (c_variant (m_cfg m)); [congruence|reflexivity|reflexivity].
Qed.

(* an unforced segment rotation of one stream keeps K *)
Lemma Kw_rots_false m si d ntp :
  c_variant (m_cfg m) <> MPEGTS -> Kw m -> Kw (stream_rotateSegments m si d ntp false).
Proof.
  intros Hv H j s' Hs'. destruct (rots_view m si d ntp false Hv) as [Hp Hview]. cbv zeta in Hp, Hview.
  destruct (Hview j s' Hs') as [Hsame|(-> & s & seg & Es & Eo & _ & Ev)].
  - apply (Kc_view m _ s' s' Hp eq_refl). eapply H; eauto.
  - unfold sv in Ev. injection Ev as E1 E2 E3. intros _ ps Hi.
    unfold cur_params. rewrite E1, (cur_params_pvec m _ _ Hp). fold (cur_params m s).
    rewrite E2 in Hi. destruct (st_init s) as [ps0|] eqn:Ei; cbn [orb] in Hi.
    + destruct (sg_forced seg) eqn:Ef; [now injection Hi as <-|].
      injection Hi as <-. apply (H si s Es); [|exact Ei]. intros g Hg. rewrite Eo in Hg. now injection Hg as <-.
    + now injection Hi as <-.
Qed.

Lemma Kw_rotateSegments_false m d ntp :
  c_variant (m_cfg m) <> MPEGTS -> Kw m -> Kw (rotateSegments m d ntp false).
Proof.
  intros Hv H.
  enough (HG : c_variant (m_cfg (rotateSegments m d ntp false)) <> MPEGTS /\ Kw (rotateSegments m d ntp false)) by apply HG.
  unfold rotateSegments.
  apply (T_rotate_others (fun m' => c_variant (m_cfg m') <> MPEGTS /\ Kw m')).
  - intros m' i l both [A B]. split; [exact A|]. apply (Kw_SameV m'); [apply SameV_copy|exact B].
  - intros m' i [A B]. split; [now rewrite cfg_stream_rotateSegments|now apply Kw_rots_false].
  - split; [now rewrite cfg_stream_rotateSegments|now apply Kw_rots_false].
Qed.

(* a forced rotation of all streams, all of them open: every open segment is a forced one afterwards *)
Lemma Kw_rotateSegments_true m d ntp :
  c_variant (m_cfg m) <> MPEGTS -> OneLeadS m -> (forall s, In s (m_streams m) -> st_open s <> None) ->
  Kw (rotateSegments m d ntp true).
Proof.
  intros Hv (sl & Hsl & Hll & Hu) Hopen.
  set (GG := fun m' : mstate => c_variant (m_cfg m') <> MPEGTS /\
         forall j s', nth_error (m_streams m') j = Some s' ->
           option_map sg_forced (st_open s') = Some true
           \/ exists s, nth_error (m_streams m) j = Some s /\ st_nextSeg s' = st_nextSeg s).
  assert (Hstep : forall m' i, GG m' -> GG (stream_rotateSegments m' i d ntp true)).
  { intros m' i [A B]. split; [now rewrite cfg_stream_rotateSegments|]. intros j s' Hs'.
    destruct (rots_view m' i d ntp true A) as [_ Hview]. cbv zeta in Hview.
    destruct (Hview j s' Hs') as [Hsame|(-> & s & seg & Es & Eo & _ & Ev)]; [now apply B|].
    left. unfold sv in Ev. now injection Ev as _ _ E3. }
  assert (HG : GG (rotateSegments m d ntp true)).
  { unfold rotateSegments. apply (T_rotate_others GG).
    - intros m' i l both [A B]. split; [exact A|]. intros j s' Hs'.
      unfold upd_stream in Hs'. cbn [set_stream m_streams] in Hs'.
      destruct (Nat.eq_dec i j) as [->|Hne].
      + destruct (nth_error (m_streams m') j) as [s0|] eqn:E0.
        * rewrite (nth_error_upd_same _ j _ s0 E0) in Hs'. injection Hs' as <-.
          destruct (copy_targets_keeps both l s0) as (K1 & K2 & _). rewrite K1, K2. now apply B.
        * exfalso. assert (Hn : nth_error (upd (m_streams m') j (copy_targets both l)) j = None)
            by (apply nth_error_None; rewrite upd_length; now apply nth_error_None). congruence.
      + rewrite nth_error_upd_other in Hs' by exact Hne. now apply B.
    - exact Hstep.
    - apply Hstep. split; [exact Hv|]. intros j s' Hs'. right. exists s'. auto. }
  destruct HG as [_ HG]. intros j s' Hs' Hf ps Hi. exfalso.
  (* stream j was open before, so it has been cut: its counter moved *)
  assert (Hlen : length (m_streams (rotateSegments m d ntp true)) = length (m_streams m))
    by (rewrite <- (map_length st_leading), flags_rotateSegments, map_length; reflexivity).
  destruct (nth_error (m_streams m) j) as [s|] eqn:Es.
  2:{ apply nth_error_None in Es. assert (j < length (m_streams (rotateSegments m d ntp true)))%nat by (apply nth_error_Some; congruence). lia. }
  assert (Hc : j = leading_index m \/ st_leading s = false).
  { destruct (st_leading s) eqn:El; [left; now apply (Hu j s)|now right]. }
  destruct (rotateSegments_cuts_all m d ntp true sl Hsl Hll j s Es (Hopen s (nth_error_In _ _ Es)) Hc)
    as (s'' & Hs'' & Hn & _ & g & Hg & _).
  rewrite Hs' in Hs''. injection Hs'' as <-.
  destruct (HG j s' Hs') as [Hforced|(s0 & Es0 & Hn0)].
  - rewrite Hg in Hforced. simpl in Hforced. injection Hforced as Hforced. rewrite (Hf g Hg) in Hforced. discriminate.
  - rewrite Es in Es0. injection Es0 as <-. lia.
Qed.

Lemma pend_rotateSegments m d ntp f : m_pending (rotateSegments m d ntp f) = m_pending m.
Proof.
  unfold rotateSegments. apply (T_rotate_others (fun m' => m_pending m' = m_pending m)).
  - intros m' i l both H. exact H.
  - intros m' i H. now rewrite pend_rots.
  - apply pend_rots.
Qed.

(* ---- AUX is kept by every write ---- *)
Lemma AUX_pointwise m m' :
  Forall2 (fun s s' => (st_open s = None -> st_init s = None) -> st_open s' = None -> st_init s' = None) (m_streams m) (m_streams m') ->
  AUX m -> AUX m'.
Proof.
  intros HF H s' Hs'. destruct (Forall2_In_r _ _ _ HF s' Hs') as (s & Hs & K). apply K. now apply H.
Qed.

Theorem AUX_mux_step m o : AUX m -> AUX (fst (mux_step m o)).
Proof.
  apply (T_mux_step AUX).
  - intros; assumption.
  - intros m0 d ntp ti t _ _ _ s' Hs'. unfold createFirstSegment in Hs'. cbn [set_stream m_streams] in Hs'.
    apply in_map_iff in Hs'. destruct Hs' as (s & <- & _). discriminate.
  - intros m0 si d H.
    destruct (rotp_spec m0 si d true) as [[E1 _]|(s & seg & p0 & Es & Eo & Ep & E1 & _)]; cbv zeta in E1.
    + intros s0 Hs0. rewrite E1 in Hs0. now apply H.
    + apply (AUX_pointwise m0); [|exact H]. rewrite E1. apply Forall2_upd_const with (s := s); auto.
      intros _ Hn.
      destruct (srot_parts_frame (c_variant (m_cfg m0)) s seg (fst (part_finalize p0 (m_tracks m0) (st_tracks s) d)) d true)
        as (_ & _ & _ & _ & _ & _ & _ & F8 & _). rewrite F8 in Hn. discriminate.
  - intros m0 si d ntp f H. pose proof (rots_spec m0 si d ntp f) as [HS _]. cbv zeta in HS.
    set (m1 := match c_variant (m_cfg m0) with MPEGTS => m0 | _ => stream_rotateParts m0 si d false end) in *.
    assert (H1 : AUX m1).
    { subst m1. destruct (c_variant (m_cfg m0)); auto;
        (destruct (rotp_spec m0 si d false) as [[E1 _]|(s & seg & p0 & Es & Eo & Ep & E1 & _)]; cbv zeta in E1;
         [intros s0 Hs0; rewrite E1 in Hs0; now apply H|];
         apply (AUX_pointwise m0); [|exact H]; rewrite E1; apply Forall2_upd_const with (s := s); auto;
         intros _ Hn;
         destruct (srot_parts_frame (c_variant (m_cfg m0)) s seg (fst (part_finalize p0 (m_tracks m0) (st_tracks s) d)) d false)
           as (_ & _ & _ & _ & _ & _ & _ & F8 & _); rewrite F8 in Hn; discriminate). }
    destruct HS as [E|(s & seg0 & cur & Es & Eo & E)].
    + intros s0 Hs0. rewrite E in Hs0. now apply H1.
    + apply (AUX_pointwise m1); [|exact H1]. rewrite E. apply Forall2_upd_const with (s := s); auto.
      intros _ Hn.
      destruct (srot_segments_frame (c_variant (m_cfg m0)) (c_segcount (m_cfg m0)) s seg0 d ntp f cur) as (_ & _ & _ & _ & _ & F6 & _).
      rewrite F6 in Hn. discriminate.
  - intros m0 i l both H. apply (AUX_pointwise m0); [|exact H]. unfold upd_stream. cbn [set_stream m_streams].
    apply Forall2_upd_fun; auto. intros x Hx Hn. unfold copy_targets in *. destruct (st_leading x); auto.
  - intros m0 ti si smp m' H Hw. unfold part_writeSample in Hw.
    destruct (nth_error (m_streams m0) si) as [s|] eqn:Es; [|injection Hw as <-; exact H].
    destruct (nth_error (m_tracks m0) ti) as [t|]; [|injection Hw as <-; exact H].
    destruct (st_open s) as [seg|] eqn:Eo; [|injection Hw as <-; exact H].
    destruct (st_openpart s); [|injection Hw as <-; exact H].
    destruct (_ <? _); [discriminate|]. injection Hw as <-.
    apply (AUX_pointwise m0); [|exact H]. unfold upd_stream, upd_track. cbn [set_stream set_tracks m_streams].
    apply Forall2_upd_fun; auto. intros x _ Hn. discriminate.
  - intros m0 si u size e inc H. unfold ts_write.
    destruct (nth_error (m_streams m0) si) as [s|] eqn:Es; [|exact H].
    destruct (st_open s) as [seg|] eqn:Eo; [|exact H]. destruct (_ <? _); [exact H|]. cbn [fst wok].
    apply (AUX_pointwise m0); [|exact H]. unfold upd_stream. cbn [set_stream m_streams].
    apply Forall2_upd_fun; auto. intros x _ Hn. discriminate.
Qed.
