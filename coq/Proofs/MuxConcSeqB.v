(* Sequential core of C06, part B: generated playlists, ready_sound / ready_complete /
   400_only_if / never_reject / bad_args / delta / no_directives and the refutations. *)
From Coq Require Import List ZArith Lia Bool String Ascii ZifyBool ZifyNat.
From GoHls Require Import Lib.MuxSched Model.MuxConcSeq Model.MuxConcSpec Proofs.MuxConcSeqA.
Import ListNotations.
Local Open Scope Z_scope.

(* ---- entries of the generated playlist ---- *)
Definition mk_entry (v : variant) (len idx : Z) (sg : seg) : plentry :=
  match sg with
  | Gap d => PEGap d
  | Seg id parts d =>
      PESeg id d (if variant_eqb v LL && (len - idx <=? 2) then parts else []) (len - idx <=? 2)
  end.

Lemma entries_from_length : forall v l i len, 0 <= i ->
  List.length (entries_from v l i len 0) = List.length l.
Proof.
  intros v l; induction l as [|sg r IH]; intros i len Hi; [reflexivity|].
  simpl entries_from. replace (i <? 0) with false by lia.
  destruct sg; simpl; rewrite IH by lia; reflexivity.
Qed.

Lemma entries_from_nth : forall v l i len j sg, 0 <= i ->
  nth_error l j = Some sg ->
  nth_error (entries_from v l i len 0) j = Some (mk_entry v len (i + Z.of_nat j) sg).
Proof.
  intros v l; induction l as [|a r IH]; intros i len j sg Hi H; [destruct j; discriminate|].
  simpl entries_from. replace (i <? 0) with false by lia.
  destruct j as [|j].
  - simpl in H. inversion H; subst. rewrite Z.add_0_r. destruct sg; reflexivity.
  - simpl in H. assert (E := IH (i + 1) len j sg ltac:(lia) H).
    replace (i + Z.of_nat (S j)) with (i + 1 + Z.of_nat j) by lia.
    destruct a; simpl; exact E.
Qed.

(* skipping = dropping a prefix of the unskipped entries *)
Lemma entries_from_skip : forall v l i len sk, 0 <= i ->
  entries_from v l i len sk = skipn (Z.to_nat (sk - i)) (entries_from v l i len 0).
Proof.
  intros v l; induction l as [|a r IH]; intros i len sk Hi.
  - simpl. rewrite skipn_nil. reflexivity.
  - simpl entries_from. replace (i <? 0) with false by lia.
    destruct (i <? sk) eqn:E.
    + rewrite IH by lia. replace (Z.to_nat (sk - i)) with (S (Z.to_nat (sk - (i + 1)))) by lia.
      destruct a; reflexivity.
    + replace (Z.to_nat (sk - i)) with 0%nat by lia. simpl skipn.
      rewrite IH by lia. replace (Z.to_nat (sk - (i + 1))) with 0%nat by lia. simpl skipn.
      destruct a; reflexivity.
Qed.

Lemma shown_loop_bounds : forall l cur b sh, sh <= shown_loop l cur b sh <= sh + zlen l.
Proof.
  induction l as [|a r IH]; intros cur b sh; simpl.
  - rewrite zlen_nil; lia.
  - rewrite zlen_cons. pose proof (zlen_nonneg _ r). destruct (b <=? cur + seg_dur a); [lia|].
    specialize (IH (cur + seg_dur a) b (sh + 1)). lia.
Qed.

Lemma skipped_count_bounds : forall s, 0 <= skipped_count s <= zlen (segments s).
Proof.
  intros s; unfold skipped_count.
  pose proof (shown_loop_bounds (segments s) 0 (targetDuration s * 6 * second) 0). lia.
Qed.

(* ---- C06 delta ---- *)
Lemma delta_shape : forall v s q,
  generateMediaPlaylistFMP4 v s true q =
  option_map (replace_head (skipped_count s)) (generateMediaPlaylistFMP4 v s false q).
Proof.
  intros v s q. unfold generateMediaPlaylistFMP4, replace_head.
  rewrite (entries_from_skip v (segments s) 0 (zlen (segments s)) (skipped_count s)) by lia.
  rewrite Z.sub_0_r.
  destruct v; simpl; try reflexivity. destruct (nextSegment s); reflexivity.
Qed.

Lemma delta_shape_fields : forall v s q pl,
  generateMediaPlaylistFMP4 v s false q = Some pl ->
  exists pld, generateMediaPlaylistFMP4 v s true q = Some pld
    /\ pl_map pl = true /\ pl_skip pl = None
    /\ pl_map pld = false /\ pl_skip pld = Some (skipped_count s)
    /\ 0 <= skipped_count s <= zlen (pl_segments pl)
    /\ pl_segments pld = skipn (Z.to_nat (skipped_count s)) (pl_segments pl)
    /\ pl_parts pld = pl_parts pl /\ pl_hint pld = pl_hint pl /\ pl_query pld = pl_query pl
    /\ pl_mediaSequence pld = pl_mediaSequence pl /\ pl_targetDuration pld = pl_targetDuration pl.
Proof.
  intros v s q pl H. rewrite delta_shape, H. simpl. eexists; split; [reflexivity|].
  assert (Hl : zlen (pl_segments pl) = zlen (segments s)).
  { unfold generateMediaPlaylistFMP4 in H.
    assert (E : forall a b, zlen (pl_segments
       {| pl_mediaSequence := segmentDeleteCount s; pl_targetDuration := targetDuration s;
          pl_map := negb false; pl_skip := None;
          pl_segments := entries_from v (segments s) 0 (zlen (segments s)) 0;
          pl_parts := a; pl_hint := b; pl_query := filterOutHLSParams q |}) = zlen (segments s)).
    { intros; simpl. unfold zlen. rewrite entries_from_length by lia. reflexivity. }
    destruct v; try (inversion H; subst; apply E).
    destruct (nextSegment s); inversion H; subst; apply E. }
  assert (pl_map pl = true /\ pl_skip pl = None) as [Hm Hs].
  { unfold generateMediaPlaylistFMP4 in H.
    destruct v; try (inversion H; subst; simpl; auto).
    destruct (nextSegment s); inversion H; subst; simpl; auto. }
  rewrite Hl. pose proof (skipped_count_bounds s). simpl. intuition.
Qed.

(* ---- C06 no directives ---- *)
Lemma filter_no_hls : forall q k v,
  In (QPair k v) (filterOutHLSParams q) -> prefix "_HLS_" k = false.
Proof.
  intros q k v Hin. unfold filterOutHLSParams in Hin. apply filter_In in Hin.
  destruct Hin as [_ H]. simpl in H. destruct (prefix "_HLS_" k); [discriminate|reflexivity].
Qed.

Lemma filter_no_bad : forall q, ~ In QBad (filterOutHLSParams q).
Proof.
  intros q Hin. unfold filterOutHLSParams in Hin. apply filter_In in Hin.
  destruct Hin as [_ H]. simpl in H. discriminate.
Qed.

Lemma filter_keeps_others : forall q k v,
  In (QPair k v) q -> prefix "_HLS_" k = false -> In (QPair k v) (filterOutHLSParams q).
Proof.
  intros q k v Hin Hk. unfold filterOutHLSParams. apply filter_In. split; [exact Hin|].
  simpl. rewrite Hk. reflexivity.
Qed.

Lemma playlist_query : forall v s d q pl,
  generateMediaPlaylistFMP4 v s d q = Some pl -> pl_query pl = filterOutHLSParams q.
Proof.
  intros v s d q pl H. unfold generateMediaPlaylistFMP4 in H.
  destruct v; try (inversion H; subst; reflexivity).
  destruct (nextSegment s); inversion H; subst; reflexivity.
Qed.

Lemma no_directives : forall v s d q pl k x,
  generateMediaPlaylistFMP4 v s d q = Some pl ->
  In (QPair k x) (pl_query pl) -> prefix "_HLS_" k = false.
Proof.
  intros v s d q pl k x H Hin. rewrite (playlist_query _ _ _ _ _ H) in Hin.
  eapply filter_no_hls; eauto.
Qed.

(* the directive the handler honoured is not copied even when the query is partly malformed *)
Lemma no_directives_example :
  queryVal [QPair "_HLS_skip" "YES"; QBad; QPair "token" "t"] "_HLS_skip" = "YES"%string /\
  filterOutHLSParams [QPair "_HLS_skip" "YES"; QBad; QPair "token" "t"] = [QPair "token" "t"].
Proof. vm_compute. auto. Qed.

(* ---- the generated playlist of a Low-Latency stream ---- *)
Lemma gen_LL : forall s q ps,
  nextSegment s = Some ps ->
  generateMediaPlaylistFMP4 LL s false q =
  Some {| pl_mediaSequence := segmentDeleteCount s; pl_targetDuration := targetDuration s;
          pl_map := true; pl_skip := None;
          pl_segments := entries_from LL (segments s) 0 (zlen (segments s)) 0;
          pl_parts := ps; pl_hint := Some (nextPartID s); pl_query := filterOutHLSParams q |}.
Proof. intros s q ps H. unfold generateMediaPlaylistFMP4. rewrite H. reflexivity. Qed.

Section Contains.
  Variables (s : stream) (q : query) (ps : list Z) (pl : playlist).
  Hypothesis W : wf_stream LL s.
  Hypothesis Hne : segments s <> [].
  Hypothesis Hopen : nextSegment s = Some ps.
  Hypothesis Hpl : generateMediaPlaylistFMP4 LL s false q = Some pl.

  Let dc := segmentDeleteCount s.
  Let len := zlen (segments s).

  Lemma pl_fields : pl_mediaSequence pl = dc /\ pl_parts pl = ps /\
                    pl_segments pl = entries_from LL (segments s) 0 len 0.
  Proof. rewrite (gen_LL s q ps Hopen) in Hpl. inversion Hpl; subst; simpl; auto. Qed.

  Lemma pl_len : zlen (pl_segments pl) = len.
  Proof.
    destruct pl_fields as [_ [_ E]]. rewrite E. unfold zlen, len.
    rewrite entries_from_length by lia. reflexivity.
  Qed.

  Lemma next_is_open : nextSegmentID s = dc + len.
  Proof. apply (wf_next _ _ W Hne). Qed.

  Lemma pl_listed_spec : forall M, pl_listed pl M = (dc <=? M) && (M <? dc + len).
  Proof. intros M; unfold pl_listed. destruct pl_fields as [E _]. rewrite E, pl_len. reflexivity. Qed.

  Lemma pl_open_spec : pl_open_msn pl = nextSegmentID s.
  Proof. unfold pl_open_msn. destruct pl_fields as [E _]. rewrite E, pl_len, next_is_open. reflexivity. Qed.

  Lemma listed_entry : forall M, pl_listed pl M = true <-> exists sg, entry dc (segments s) M = Some sg.
  Proof.
    intros M. rewrite pl_listed_spec. split.
    - intros H. apply entry_some_within. fold len. lia.
    - intros [sg H]. apply entry_some_bounds in H. fold len in H. lia.
  Qed.

  Lemma listed_parts_spec : forall M id parts d,
    entry dc (segments s) M = Some (Seg id parts d) ->
    pl_listed_parts pl M = if len - (M - dc) <=? 2 then zlen parts else 0.
  Proof.
    intros M id parts d H. pose proof (entry_some_bounds _ _ _ _ H) as Hb.
    unfold entry in H. replace (M <? dc) with false in H by lia.
    unfold pl_listed_parts. destruct pl_fields as [E1 [_ E3]]. rewrite E1, E3.
    rewrite (entries_from_nth LL _ 0 len _ _ ltac:(lia) H). unfold mk_entry.
    replace (0 + Z.of_nat (Z.to_nat (M - dc))) with (M - dc) by lia. simpl variant_eqb. simpl andb.
    destruct (len - (M - dc) <=? 2); reflexivity.
  Qed.
End Contains.

(* the window ends with a real segment: a gap is never the last listed entry *)
Lemma nth_error_last : forall A (l : list A) d, l <> [] ->
  nth_error l (List.length l - 1) = Some (last l d).
Proof.
  intros A l d; induction l as [|a l IH]; intros H; [congruence|].
  destruct l as [|b l]; [reflexivity|].
  replace (List.length (a :: b :: l) - 1)%nat with (S (List.length (b :: l) - 1)) by (simpl; lia).
  change (nth_error (b :: l) (List.length (b :: l) - 1) = Some (last (b :: l) d)).
  apply IH. discriminate.
Qed.

Lemma gap_not_last : forall s M d,
  wf_stream LL s -> segments s <> [] ->
  entry (segmentDeleteCount s) (segments s) M = Some (Gap d) ->
  M + 1 < segmentDeleteCount s + zlen (segments s).
Proof.
  intros s M d W Hne HE. pose proof (entry_some_bounds _ _ _ _ HE) as Hb.
  destruct (Z.eq_dec (M + 1) (segmentDeleteCount s + zlen (segments s))) as [E|]; [|lia].
  exfalso. destruct (wf_last _ _ W Hne) as [id [ps [d0 HL]]].
  unfold entry in HE. replace (M <? segmentDeleteCount s) with false in HE by lia.
  replace (Z.to_nat (M - segmentDeleteCount s)) with (List.length (segments s) - 1)%nat in HE
    by (unfold zlen in E; lia).
  rewrite (nth_error_last _ _ (Gap 0) Hne) in HE. congruence.
Qed.

(* ---- C06 ready_sound ---- *)
Lemma ready_sound : forall s q M P,
  wf_stream LL s -> in_range s -> 0 <= M -> (forall p, P = Some p -> 0 <= p) ->
  decide LL s M P = Ready ->
  exists pl, generateMediaPlaylistFMP4 LL s false q = Some pl /\ pl_contains pl M P = true.
Proof.
  intros s q M P W R HM HP Hd.
  assert (Hne : segments s <> []).
  { unfold decide, decide_core in Hd. destruct (range_reject s M); [discriminate|].
    destruct (hasContent LL s) eqn:E; [apply hasContent_LL; exact E|discriminate]. }
  destruct (nextSegment s) as [ps|] eqn:Hopen; [|exfalso; apply (wf_open _ _ W Hne); exact Hopen].
  eexists; split; [apply (gen_LL s q ps Hopen)|].
  set (pl := {| pl_mediaSequence := _ |}).
  assert (Hpl : generateMediaPlaylistFMP4 LL s false q = Some pl) by (apply gen_LL; exact Hopen).
  unfold decide, decide_core in Hd. rewrite (range_reject_spec LL s M W R Hne HM) in Hd.
  destruct ((nextSegmentID s + 1 <? M) || (M <=? head_msn s)) eqn:ER; [discriminate|].
  replace (hasContent LL s) with true in Hd by (symmetry; apply hasContent_LL; exact Hne).
  pose proof (pl_open_spec s q ps pl W Hne Hopen Hpl) as Hop.
  pose proof (pl_fields s q ps pl Hopen Hpl) as [_ [Hparts _]].
  pose proof (pl_listed_spec s q ps pl Hopen Hpl) as HLS.
  pose proof (next_is_open s W Hne) as Hnext. unfold head_msn in ER.
  destruct P as [p|].
  - assert (Hp : 0 <= p) by (apply HP; reflexivity).
    rewrite (hasPart_spec LL s M p W R Hne HM) in Hd. unfold open_has in Hd. rewrite Hopen in Hd.
    unfold pl_contains. rewrite Hop, Hparts.
    destruct (M =? nextSegmentID s) eqn:EM.
    + destruct (p <? zlen ps); [|discriminate]. rewrite orb_true_r. reflexivity.
    + destruct ((M <? segmentDeleteCount s) || (nextSegmentID s <? M)) eqn:EW; [discriminate|].
      assert (HL : pl_listed pl M = true) by (rewrite HLS; lia).
      rewrite HL. simpl andb. rewrite orb_false_r.
      destruct (entry (segmentDeleteCount s) (segments s) M) as [[d|id parts d]|] eqn:EE; [| |discriminate].
      * (* a listed gap: the following entry is listed too *)
        pose proof (gap_not_last s M d W Hne EE).
        apply orb_true_iff. right. unfold pl_part0. rewrite HLS. apply orb_true_iff. left. lia.
      * destruct (p <? zlen parts) eqn:Ep.
        -- destruct (Z_lt_le_dec (M + 1) (nextSegmentID s)) as [Hlt|Hge].
           ++ apply orb_true_iff. right. unfold pl_part0. rewrite HLS. apply orb_true_iff. left. lia.
           ++ apply orb_true_iff. left.
              rewrite (listed_parts_spec s q ps pl Hopen Hpl M id parts d EE).
              replace (zlen (segments s) - (M - segmentDeleteCount s) <=? 2) with true by lia. exact Ep.
        -- apply orb_true_iff. right. unfold pl_part0. rewrite HLS, Hop, Hparts.
           destruct (negb (M + 1 =? nextSegmentID s)) eqn:En.
           ++ apply orb_true_iff. left. lia.
           ++ apply orb_true_iff. right. destruct (0 <? zlen ps) eqn:E0; [|discriminate]. lia.
  - unfold pl_contains. rewrite HLS. destruct (M <? nextSegmentID s) eqn:E; [|discriminate]. lia.
Qed.

(* ---- C06 ready_complete ---- *)
Lemma ready_complete : forall s q M P pl,
  wf_stream LL s -> in_range s -> 0 <= M -> (forall p, P = Some p -> 0 <= p) ->
  segments s <> [] ->
  generateMediaPlaylistFMP4 LL s false q = Some pl ->
  pl_contains pl M P = true ->
  decide LL s M P <> Block.
Proof.
  intros s q M P pl W R HM HP Hne Hpl Hc.
  destruct (nextSegment s) as [ps|] eqn:Hopen; [|exfalso; apply (wf_open _ _ W Hne); exact Hopen].
  unfold decide, decide_core. rewrite (range_reject_spec LL s M W R Hne HM).
  destruct ((nextSegmentID s + 1 <? M) || (M <=? head_msn s)) eqn:ER; [discriminate|].
  replace (hasContent LL s) with true by (symmetry; apply hasContent_LL; exact Hne).
  pose proof (pl_open_spec s q ps pl W Hne Hopen Hpl) as Hop.
  pose proof (pl_fields s q ps pl Hopen Hpl) as [_ [Hparts _]].
  pose proof (pl_listed_spec s q ps pl Hopen Hpl) as HLS.
  pose proof (next_is_open s W Hne) as Hnext. unfold head_msn in ER.
  destruct P as [p|].
  - assert (Hp : 0 <= p) by (apply HP; reflexivity).
    rewrite (hasPart_spec LL s M p W R Hne HM). unfold open_has. rewrite Hopen.
    unfold pl_contains in Hc. rewrite Hop, Hparts in Hc.
    destruct (M =? nextSegmentID s) eqn:EM.
    + assert (HnL : pl_listed pl M = false) by (rewrite HLS; lia).
      rewrite HnL in Hc. simpl in Hc. rewrite Hc. discriminate.
    + simpl in Hc. rewrite orb_false_r in Hc. apply andb_true_iff in Hc. destruct Hc as [HL Hc].
      rewrite HLS in HL.
      replace ((M <? segmentDeleteCount s) || (nextSegmentID s <? M)) with false by lia.
      destruct (entry_in_window LL s M W Hne) as [sg EE]; [lia|]. rewrite EE.
      destruct sg as [d|id parts d]; [discriminate|].
      destruct (p <? zlen parts) eqn:Ep; [discriminate|].
      destruct (negb (M + 1 =? nextSegmentID s)) eqn:En; [discriminate|].
      (* M is the last complete segment and p is past its end: part 0 of the open segment *)
      rewrite (listed_parts_spec s q ps pl Hopen Hpl M id parts d EE) in Hc.
      replace (zlen (segments s) - (M - segmentDeleteCount s) <=? 2) with true in Hc by lia.
      rewrite Ep in Hc. simpl in Hc. unfold pl_part0 in Hc. rewrite HLS, Hop, Hparts in Hc.
      replace ((segmentDeleteCount s <=? M + 1) && (M + 1 <? segmentDeleteCount s + zlen (segments s)))
        with false in Hc by lia.
      simpl in Hc. apply andb_true_iff in Hc. destruct Hc as [_ Hc].
      replace (0 <? zlen ps) with true by lia. discriminate.
  - unfold pl_contains in Hc. rewrite HLS in Hc. replace (M <? nextSegmentID s) with true by lia. discriminate.
Qed.

(* ---- C06 400_only_if / never_reject ---- *)
Lemma only_400_if : forall s M P,
  wf_stream LL s -> in_range s -> segments s <> [] -> 0 <= M ->
  (decide LL s M P = Respond400 <-> (M > last_complete_msn s + 2 \/ M <= head_msn s)).
Proof.
  intros s M P W R Hne HM. unfold decide, decide_core.
  rewrite (range_reject_spec LL s M W R Hne HM). unfold last_complete_msn.
  destruct ((nextSegmentID s + 1 <? M) || (M <=? head_msn s)) eqn:E.
  - split; [intros _; lia|reflexivity].
  - split; [|intros; lia]. intros H.
    destruct (hasContent LL s); [|discriminate].
    destruct P as [p|]; [destruct (hasPart s M p) as [[|]|]|destruct (M <? nextSegmentID s)]; discriminate.
Qed.

Lemma never_reject : forall s M P,
  wf_stream LL s -> in_range s -> hasContent LL s = true -> 0 <= nextSegmentID s ->
  M = nextSegmentID s \/ M = nextSegmentID s + 1 ->
  decide LL s M P <> Respond400.
Proof.
  intros s M P W R Hc H0 HMM. apply hasContent_LL in Hc.
  assert (HM : 0 <= M) by lia.
  intros H. apply (only_400_if s M P W R Hc HM) in H.
  unfold last_complete_msn, head_msn in H. pose proof (wf_next _ _ W Hc).
  pose proof (zlen_pos_nonempty _ _ Hc). lia.
Qed.

(* before the playlist is available (no segment yet) every msn except next+1 is rejected *)
Lemma reject_before_content : forall v s M P,
  segments s = [] -> 0 <= nextSegmentID s -> in_range s -> 0 <= M ->
  decide v s M P = if M =? nextSegmentID s + 1 then Block else Respond400.
Proof.
  intros v s M P He H0 R HM. unfold decide, decide_core.
  rewrite (range_reject_empty s M He H0) by (unfold in_range in R; lia || exact HM).
  destruct (M =? nextSegmentID s + 1); simpl; [|reflexivity].
  unfold hasContent. rewrite He. destruct v; reflexivity.
Qed.

(* ---- C06 bad_args ---- *)
Lemma parseUint_loop_range : forall s acc z,
  0 <= acc < two64 -> parseUint_loop s acc = Some z -> 0 <= z < two64.
Proof.
  induction s as [|c r IH]; intros acc z Ha H; simpl in H.
  - inversion H; subst; exact Ha.
  - destruct (digit c) as [d|] eqn:Ed; [|discriminate].
    destruct (two64 <=? acc * 10 + d) eqn:E; [discriminate|].
    apply (IH (acc * 10 + d)); [|exact H].
    unfold digit in Ed. destruct ((48 <=? _) && (_ <=? 57)) eqn:E2; [|discriminate].
    inversion Ed; subst. lia.
Qed.

Lemma parseUint_range : forall s z, parseUint s = Some z -> 0 <= z < two64.
Proof.
  intros s z H. unfold parseUint in H. destruct s; [discriminate|].
  eapply parseUint_loop_range; [|exact H]. unfold two64; lia.
Qed.

Fixpoint all_digits (s : string) : bool :=
  match s with
  | EmptyString => true
  | String c r => match digit c with Some _ => all_digits r | None => false end
  end.

Lemma parseUint_loop_digits : forall s acc z, parseUint_loop s acc = Some z -> all_digits s = true.
Proof.
  induction s as [|c r IH]; intros acc z H; simpl in *; [reflexivity|].
  destruct (digit c); [|discriminate]. destruct (two64 <=? _); [discriminate|]. eapply IH; eauto.
Qed.

Lemma parseUint_digits : forall s z, parseUint s = Some z -> s <> EmptyString /\ all_digits s = true.
Proof.
  intros s z H. unfold parseUint in H. destruct s; [discriminate|].
  split; [discriminate|]. eapply parseUint_loop_digits; eauto.
Qed.

Lemma pre_bad_args : forall q,
  let msn := queryVal q "_HLS_msn" in
  let part := queryVal q "_HLS_part" in
  (is_empty msn = false /\ parseUint msn = None)
  \/ (is_empty part = false /\ parseUint part = None)
  \/ (is_empty msn = true /\ is_empty part = false) ->
  handleMediaPlaylist_pre LL q = MK400.
Proof.
  intros q msn part H. unfold handleMediaPlaylist_pre, parseMSNPart. fold msn part.
  destruct H as [[H1 H2]|[[H1 H2]|[H1 H2]]].
  - rewrite H1, H2. reflexivity.
  - rewrite H1, H2. destruct (is_empty msn); [reflexivity|]. destruct (parseUint msn); reflexivity.
  - rewrite H1, H2. simpl. destruct (parseUint part); reflexivity.
Qed.

Lemma pre_good_args : forall q M,
  parseUint (queryVal q "_HLS_msn") = Some M ->
  (is_empty (queryVal q "_HLS_part") = true \/ exists p, parseUint (queryVal q "_HLS_part") = Some p) ->
  exists d, handleMediaPlaylist_pre LL q =
              MKBlocking M (if is_empty (queryVal q "_HLS_part") then None
                            else parseUint (queryVal q "_HLS_part")) d
    /\ 0 <= M < two64.
Proof.
  intros q M HM HP. unfold handleMediaPlaylist_pre, parseMSNPart.
  assert (Hne : is_empty (queryVal q "_HLS_msn") = false).
  { destruct (queryVal q "_HLS_msn"); [discriminate|reflexivity]. }
  rewrite Hne, HM. pose proof (parseUint_range _ _ HM).
  destruct HP as [HP|[p HP]].
  - rewrite HP. simpl. eexists; split; [reflexivity|exact H].
  - assert (Hnp : is_empty (queryVal q "_HLS_part") = false).
    { destruct (queryVal q "_HLS_part"); [discriminate|reflexivity]. }
    rewrite Hnp, HP. simpl. eexists; split; [reflexivity|exact H].
Qed.
