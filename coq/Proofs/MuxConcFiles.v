(* C07: every segment file the muxer created has been removed when Close returns. *)
From Coq Require Import List ZArith Lia Bool String Arith ZifyBool ZifyNat.
From GoHls Require Import Lib.MuxSched Model.MuxConcSeq Model.MuxConcSpec Model.MuxConcPar
  Proofs.MuxConcSeqA Proofs.MuxConcInvA Proofs.MuxConcInvB.
Import ListNotations.
Local Open Scope Z_scope.

(* the segments whose storage exists: the window's real segments and the open one *)
Definition live (s : stream) (id : Z) : Prop :=
  (id = nextSegmentID s /\ nextSegment s <> None) \/ (exists ps d, In (Seg id ps d) (segments s)).

Lemma remove_file_In : forall fs i x j id,
  In (j, id) (remove_file fs i x) <-> In (j, id) fs /\ ~ (j = i /\ id = x).
Proof.
  intros fs i x j id. unfold remove_file. rewrite filter_In. simpl. split.
  - intros [H1 H2]. split; [exact H1|]. intros [-> ->]. rewrite Nat.eqb_refl, Z.eqb_refl in H2. discriminate.
  - intros [H1 H2]. split; [exact H1|]. destruct (Nat.eqb j i) eqn:E1; [|reflexivity].
    destruct (id =? x) eqn:E2; [|reflexivity]. exfalso. apply H2. apply Nat.eqb_eq in E1. split; [exact E1|lia].
Qed.

Lemma remove_segment_files_In : forall segs fs i j id,
  In (j, id) (remove_segment_files fs i segs) <->
  In (j, id) fs /\ ~ (j = i /\ exists ps d, In (Seg id ps d) segs).
Proof.
  induction segs as [|[d|sid ps d] r IH]; intros fs i j id; simpl.
  - split; [intros H; split; [exact H|intros [_ [ps [d []]]]]|tauto].
  - rewrite IH. split; intros [H1 H2]; (split; [exact H1|]); intros [Hj [ps [d0 Hin]]]; apply H2;
      (split; [exact Hj|]).
    + destruct Hin as [Hc|Hin]; [discriminate|eauto].
    + eauto.
  - rewrite IH, remove_file_In. split.
    + intros [[H1 H2] H3]. split; [exact H1|]. intros [Hj [ps0 [d0 [Hc|Hin]]]].
      * inversion Hc; subst. apply H2. auto.
      * apply H3. eauto.
    + intros [H1 H2]. split; [split; [exact H1|]|].
      * intros [Hj ->]. apply H2. split; [exact Hj|]. exists ps, d. left; reflexivity.
      * intros [Hj [ps0 [d0 Hin]]]. apply H2. split; [exact Hj|]. exists ps0, d0. right; exact Hin.
Qed.

(* entries of stream i are live, relative to a list of streams starting at index off *)
Definition files_ok (off : nat) (ss : list stream) (fs : list (nat * Z)) : Prop :=
  forall k id, In (k, id) fs -> (off <= k)%nat -> exists s, nth_error ss (k - off) = Some s /\ live s id.

Lemma rotateParts_live : forall v i s t s' t' id,
  stream_rotateParts v i s t = Some (s', t') -> live s id -> live s' id.
Proof.
  intros v i s t s' t' id H L. unfold stream_rotateParts in H. destruct (nextSegment s) as [ps|] eqn:E; [|discriminate].
  unfold live in *. destruct v; inversion H; subst; simpl; (destruct L as [[L1 _]|L]; [left; split; [exact L1|discriminate]|right; exact L]).
Qed.

Lemma rotateSegments_files : forall v sc lead i dur s t fs s' t' fs',
  stream_rotateSegments v sc lead i dur s t fs = Some (s', t', fs') ->
  (forall k id, k <> i -> (In (k, id) fs' <-> In (k, id) fs)) /\
  (forall id, In (i, id) fs' -> (forall id0, In (i, id0) fs -> live s id0) -> live s' id).
Proof.
  intros v sc lead i dur s t fs s' t' fs' H. unfold stream_rotateSegments in H.
  destruct (match v with
            | MPEGTS => match nextSegment s with None => None | Some _ => Some (s, t) end
            | _ => stream_rotateParts v i s t end) as [[s1 t1]|] eqn:E1; [|discriminate].
  assert (L1 : forall id, live s id -> live s1 id).
  { intros id L. destruct v; [destruct (nextSegment s); inversion E1; subst; exact L| |];
      eapply rotateParts_live; eauto. }
  assert (O1 : nextSegment s1 <> None).
  { destruct v.
    - destruct (nextSegment s) eqn:E; inversion E1; subst. congruence.
    - unfold stream_rotateParts in E1. destruct (nextSegment s); inversion E1; subst; simpl; discriminate.
    - unfold stream_rotateParts in E1. destruct (nextSegment s); inversion E1; subst; simpl; discriminate. }
  set (sid := nextSegmentID s1) in *.
  set (opened := match nextSegment s1 with Some ps => ps | None => [] end) in *.
  set (base := match v with
               | LL => if Nat.eqb (List.length (segments s1)) 0 then repeat (Gap dur) 7 else segments s1
               | _ => segments s1 end) in *.
  (* every live id of s1 is a Seg of base ++ [Seg sid ..] *)
  assert (Lb : forall id, live s1 id -> exists ps d, In (Seg id ps d) (base ++ [Seg sid opened dur])).
  { intros id [[-> _]|[ps [d Hin]]].
    - exists opened, dur. apply in_or_app. right. left. reflexivity.
    - exists ps, d. apply in_or_app. left. unfold base.
      destruct v; try exact Hin. destruct (segments s1); [destruct Hin|exact Hin]. }
  destruct (sc <? zlen (base ++ [Seg sid opened dur])) eqn:Ev.
  - destruct (base ++ [Seg sid opened dur]) as [|hd tl] eqn:Eb.
    + inversion H; subst. split.
      * intros k id Hk. simpl. split; [intros [Hc|Hin]; [inversion Hc; congruence|exact Hin]|auto].
      * intros id Hin _. destruct Hin as [Hc|Hin].
        -- inversion Hc; subst. left. simpl. split; [reflexivity|discriminate].
        -- exfalso. destruct (app_cons_not_nil base [] (Seg sid opened dur)). symmetry. exact Eb.
    + destruct hd as [d0|hid hps hd0]; inversion H; subst; clear H; split.
      * intros k id Hk. simpl. split; [intros [Hc|Hin]; [inversion Hc; congruence|exact Hin]|auto].
      * intros id Hin Hold. destruct Hin as [Hc|Hin].
        -- inversion Hc; subst. left. simpl. split; [reflexivity|discriminate].
        -- right. simpl. destruct (Lb id (L1 id (Hold id Hin))) as [ps [d [Hc|Hin2]]]; [discriminate|eauto].
      * intros k id Hk. simpl. rewrite remove_file_In. split.
        -- intros [Hc|[Hin _]]; [inversion Hc; congruence|exact Hin].
        -- intros Hin. right. split; [exact Hin|]. intros [Hc _]. congruence.
      * intros id Hin Hold. destruct Hin as [Hc|Hin].
        -- inversion Hc; subst. left. simpl. split; [reflexivity|discriminate].
        -- apply remove_file_In in Hin. destruct Hin as [Hin Hne]. right. simpl.
           destruct (Lb id (L1 id (Hold id Hin))) as [ps [d [Hc|Hin2]]]; [|eauto].
           inversion Hc; subst. exfalso. apply Hne. auto.
  - inversion H; subst; clear H. split.
    + intros k id Hk. simpl. split; [intros [Hc|Hin]; [inversion Hc; congruence|exact Hin]|auto].
    + intros id Hin Hold. destruct Hin as [Hc|Hin].
      * inversion Hc; subst. left. simpl. split; [reflexivity|discriminate].
      * right. simpl. exact (Lb id (L1 id (Hold id Hin))).
Qed.

Lemma rotateSegments_all_files : forall v sc lead dur ss i t fs ss' t' fs',
  rotateSegments_all v sc lead dur i ss t fs = Some (ss', t', fs') -> files_ok i ss fs ->
  files_ok i ss' fs' /\ (forall k id, (k < i)%nat -> (In (k, id) fs' <-> In (k, id) fs)).
Proof.
  intros v sc lead dur ss; induction ss as [|s r IH]; intros i t fs ss' t' fs' H A; simpl in H.
  - inversion H; subst. split; [exact A|tauto].
  - destruct (stream_rotateSegments v sc (Nat.eqb i lead) i dur s t fs) as [[[s1 t1] fs1]|] eqn:E; [|discriminate].
    destruct (rotateSegments_all v sc lead dur (S i) r t1 fs1) as [[[r' t2] fs2]|] eqn:E2; [|discriminate].
    inversion H; subst; clear H.
    destruct (rotateSegments_files _ _ _ _ _ _ _ _ _ _ _ E) as [F1 F2].
    assert (A1 : files_ok (S i) r fs1).
    { intros k id Hin Hk. apply F1 in Hin; [|lia]. destruct (A k id Hin ltac:(lia)) as [s0 [Hs Hl]].
      replace (k - i)%nat with (S (k - S i)) in Hs by lia. simpl in Hs. eauto. }
    destruct (IH _ _ _ _ _ _ E2 A1) as [B1 B2].
    split.
    + intros k id Hin Hk. destruct (Nat.eq_dec k i) as [->|Hn].
      * rewrite Nat.sub_diag. simpl. exists s1. split; [reflexivity|].
        apply B2 in Hin; [|lia]. apply F2; [exact Hin|].
        intros id0 H0. destruct (A i id0 H0 ltac:(lia)) as [s0 [Hs Hl]].
        rewrite Nat.sub_diag in Hs. simpl in Hs. inversion Hs; subst. exact Hl.
      * destruct (B1 k id Hin ltac:(lia)) as [s0 [Hs Hl]]. exists s0. split; [|exact Hl].
        replace (k - i)%nat with (S (k - S i)) by lia. exact Hs.
    + intros k id Hk. rewrite B2 by lia. apply F1. lia.
Qed.

Lemma rotateParts_all_live : forall v ss i t ss' t',
  rotateParts_all v i ss t = Some (ss', t') ->
  forall k s id, nth_error ss k = Some s -> live s id -> exists s', nth_error ss' k = Some s' /\ live s' id.
Proof.
  intros v ss; induction ss as [|s r IH]; intros i t ss' t' H k s0 id Hk L; simpl in H.
  - destruct k; discriminate.
  - destruct (stream_rotateParts v i s t) as [[s1 t1]|] eqn:E; [|discriminate].
    destruct (rotateParts_all v (S i) r t1) as [[r' t2]|] eqn:E2; [|discriminate].
    inversion H; subst; clear H. destruct k as [|k]; simpl in *.
    + inversion Hk; subst. exists s1. split; [reflexivity|]. eapply rotateParts_live; eauto.
    + eapply IH; eauto.
Qed.

Definition mfiles_ok (m : mux) : Prop := files_ok 0 (m_streams m) (m_files m).

Lemma combine_seq_In : forall (l : list stream) off k id,
  In (k, id) (map (fun p : nat * stream => (fst p, nextSegmentID (snd p))) (combine (seq off (List.length l)) l)) ->
  (off <= k)%nat /\ exists s, nth_error l (k - off) = Some s /\ id = nextSegmentID s.
Proof.
  induction l as [|a l IH]; intros off k id Hin; simpl in Hin; [destruct Hin|].
  destruct Hin as [Hc|Hin].
  - inversion Hc; subst. split; [lia|]. rewrite Nat.sub_diag. simpl. eauto.
  - destruct (IH (S off) k id Hin) as [Hk [s [Hs He]]]. split; [lia|].
    replace (k - off)%nat with (S (k - S off)) by lia. simpl. eauto.
Qed.

Lemma files_ok_ext : forall ss ss' fs,
  (forall k s id, nth_error ss k = Some s -> live s id -> exists s', nth_error ss' k = Some s' /\ live s' id) ->
  files_ok 0 ss fs -> files_ok 0 ss' fs.
Proof.
  intros ss ss' fs H A k id Hin Hk. destruct (A k id Hin Hk) as [s [Hs Hl]]. eapply H; eauto.
Qed.

Lemma files_ok_rotate : forall m o m', is_rotate o = true ->
  apply_wop m o = Some m' -> mfiles_ok m -> mfiles_ok m'.
Proof.
  intros m o m' Ho H A. unfold mfiles_ok in *. destruct o; simpl in H; try discriminate.
  - unfold mux_rotateParts in H. destruct (rotateParts_all _ _ _ _) as [[ss t]|] eqn:E; [|discriminate].
    inversion H; subst; simpl. eapply files_ok_ext; [|exact A]. intros k s id Hs Hl.
    eapply rotateParts_all_live; eauto.
  - unfold mux_rotateSegments in H.
    destruct (rotateSegments_all _ _ _ _ _ _ _ _) as [[[ss t] fs]|] eqn:E; [|discriminate].
    inversion H; subst; simpl. destruct (rotateSegments_all_files _ _ _ _ _ _ _ _ _ _ _ E A) as [B _].
    eapply files_ok_ext; [|exact B]. intros k s id Hs Hl. unfold copy_targetDuration.
    destruct (nth_error ss (m_leading m)); [|eauto]. rewrite nth_error_map, Hs. simpl.
    eexists; split; [reflexivity|]. exact Hl.
Qed.

Lemma files_ok_createFirst : forall m, mfiles_ok m -> mfiles_ok (mux_createFirstSegment m).
Proof.
  intros m A. unfold mfiles_ok in *. simpl. intros k id Hin _. rewrite Nat.sub_0_r, nth_error_map.
  apply in_app_or in Hin. destruct Hin as [Hin|Hin].
  - destruct (combine_seq_In _ _ _ _ Hin) as [_ [s [Hs He]]]. rewrite Nat.sub_0_r in Hs. rewrite Hs. simpl.
    eexists; split; [reflexivity|]. left. simpl. split; [exact He|discriminate].
  - destruct (A k id Hin ltac:(lia)) as [s [Hs Hl]]. rewrite Nat.sub_0_r in Hs. rewrite Hs. simpl.
    eexists; split; [reflexivity|]. destruct Hl as [[L1 _]|L]; [left; simpl; split; [exact L1|discriminate]|right; exact L].
Qed.

(* closing stream k removes every file of stream k and touches nothing else *)
Lemma closeStream_files : forall m k,
  mfiles_ok m -> (k < List.length (m_streams m))%nat ->
  mfiles_ok (mux_closeStream m k) /\
  (forall j id, In (j, id) (m_files (mux_closeStream m k)) -> j <> k /\ In (j, id) (m_files m)).
Proof.
  intros m k A Hk. unfold mux_closeStream.
  destruct (nth_error (m_streams m) k) as [s|] eqn:Es; [|apply nth_error_None in Es; lia].
  unfold stream_close. cbn [m_files m_streams set_streams].
  assert (G : forall j id,
    In (j, id) (match nextSegment s with
                | None => remove_segment_files (m_files m) k (segments s)
                | Some _ => remove_file (remove_segment_files (m_files m) k (segments s)) k (nextSegmentID s)
                end) -> j <> k /\ In (j, id) (m_files m)).
  { intros j id Hin.
    assert (Hin' : In (j, id) (m_files m) /\ ~ (j = k /\ exists ps d, In (Seg id ps d) (segments s)) /\
                   (nextSegment s <> None -> ~ (j = k /\ id = nextSegmentID s))).
    { destruct (nextSegment s) eqn:Eo.
      - apply remove_file_In in Hin. destruct Hin as [Hin Hn]. apply remove_segment_files_In in Hin. tauto.
      - apply remove_segment_files_In in Hin. split; [tauto|]. split; [tauto|congruence]. }
    destruct Hin' as [H1 [H2 H3]]. split; [|exact H1]. intros ->.
    destruct (A k id H1 ltac:(lia)) as [s0 [Hs Hl]]. rewrite Nat.sub_0_r, Es in Hs. inversion Hs; subst s0.
    destruct Hl as [[L1 L2]|L]; [apply (H3 L2); auto|apply H2; auto]. }
  split; [|exact G].
  intros j id Hin _. destruct (G j id Hin) as [Hj Hin0]. rewrite Nat.sub_0_r.
  cbn [m_streams set_streams]. rewrite nth_error_upd_nth_neq by congruence.
  destruct (A j id Hin0 ltac:(lia)) as [s0 [Hs Hl]]. rewrite Nat.sub_0_r in Hs. eauto.
Qed.

Lemma files_ok_set_closed : forall m, mfiles_ok m -> mfiles_ok (set_closed m).
Proof.
  intros m A. unfold mfiles_ok in *. simpl. eapply files_ok_ext; [|exact A].
  intros k s id Hs Hl. rewrite nth_error_map, Hs. simpl. eexists; split; [reflexivity|exact Hl].
Qed.

(* the invariant over runs: files belong to streams whose stream.close() has not run yet, and are live *)
Definition files_inv (c : cstate) : Prop :=
  mfiles_ok (c_mux c) /\
  forall k id, In (k, id) (m_files (c_mux c)) -> closed_upto (c_wpc c) k = false.

Lemma files_inv_rstep : forall c i, files_inv c -> files_inv (rstep c i).
Proof.
  intros c i [A B]. destruct (rstep_shape c i) as [[_ E]|[r [Hr E]]]; rewrite E; split; assumption.
Qed.

Lemma files_inv_step : forall c t, phase_inv c -> files_inv c -> files_inv (step c t).
Proof.
  intros c t P Fi. unfold step. destruct t as [|i].
  2:{ destruct (c_wpc c); try exact Fi; apply files_inv_rstep; exact Fi. }
  pose proof Fi as Fi0. destruct Fi as [A B].
  destruct (c_wpc c) eqn:Ew; try exact Fi0; unfold wstep; rewrite Ew.
  - destruct (c_prog c) as [|o rest]; [exact Fi0|].
    destruct o; try (destruct (c_owner c); [exact Fi0|split; [exact A|intros; reflexivity]]).
    split; [apply files_ok_createFirst; exact A|intros; reflexivity].
  - destruct (apply_wop (c_mux c) o) as [m'|] eqn:Ea; [|split; [exact A|intros; reflexivity]].
    split; [|intros; reflexivity]. simpl. eapply files_ok_rotate; eauto.
    apply (ph_locked _ P). exact Ew.
  - split; [exact A|intros; reflexivity].
  - split; [exact A|intros; reflexivity].
  - split; [apply files_ok_set_closed; exact A|intros; reflexivity].
  - split; [exact A|intros; reflexivity].
  - split; [exact A|]. intros k id Hin. simpl. reflexivity.
  - destruct (Nat.ltb k (List.length (m_streams (c_mux c)))) eqn:Ek.
    + apply Nat.ltb_lt in Ek. destruct (closeStream_files (c_mux c) k A Ek) as [A' G].
      split; [exact A'|]. intros j id Hin. simpl in *. destruct (G j id Hin) as [Hj Hin0].
      specialize (B j id Hin0). simpl in B.
      apply Nat.ltb_ge in B. apply Nat.ltb_ge. lia.
    + (* every stream is closed: no file can be left *)
      apply Nat.ltb_ge in Ek. split; [exact A|]. intros j id Hin. exfalso. simpl in Hin.
      specialize (B j id Hin). simpl in B. apply Nat.ltb_ge in B.
      destruct (A j id Hin ltac:(lia)) as [s [Hs _]]. rewrite Nat.sub_0_r in Hs.
      assert (j < List.length (m_streams (c_mux c)))%nat by (apply nth_error_Some; congruence). lia.
  - exact Fi0.
Qed.

Theorem files_removed : forall m prog reqs sched,
  fresh m -> m_files m = [] ->
  c_wpc (crun (cinit m prog reqs) sched) = WFinished ->
  m_files (c_mux (crun (cinit m prog reqs) sched)) = [].
Proof.
  intros m prog reqs sched F Hf Hw.
  assert (I : phase_inv (crun (cinit m prog reqs) sched) /\ files_inv (crun (cinit m prog reqs) sched)).
  { unfold crun. apply (run_invariant step (fun c => phase_inv c /\ files_inv c)).
    - intros s t [P Fi]. split; [apply phase_inv_step; exact P|apply files_inv_step; assumption].
    - split; [apply phase_inv_init; exact F|]. split.
      + intros k id Hin. simpl in Hin. rewrite Hf in Hin. destruct Hin.
      + intros k id Hin. reflexivity. }
  destruct I as [_ [_ B]]. destruct (m_files (c_mux (crun (cinit m prog reqs) sched))) as [|[k id] l] eqn:E; [reflexivity|].
  specialize (B k id (or_introl eq_refl)). rewrite Hw in B. discriminate.
Qed.
