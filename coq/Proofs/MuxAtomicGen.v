(* MuxAtomicGen - the check of Model/MuxAtomic.v evaluated on the skeleton regenerated from the Go
   source on every run (Generated/MuxCritSec.v, tools/critsec), and the soundness theorem
   instantiated at it.  [generated_atomic] is closed by computation: when muxer.go stops rotating
   all streams inside one critical section of Muxer.mutex, or a playlist handler stops reading
   under it, this file no longer compiles. *)
From Coq Require Import List ZArith Bool String.
From GoHls Require Import Model.MuxAtomic Proofs.MuxAtomic Generated.MuxCritSec.
Import ListNotations.
Open Scope string_scope.

Lemma generated_atomic : atomic_rotation MuxCritSec.generated = true.
Proof. vm_compute. reflexivity. Qed.

(* the skeleton is the one the statement is about: the writer entry that rotates segments does
   rotate (its first rotation is a segment rotation of the leading stream's kind), the part
   rotation exists, both playlist handlers are reader entries *)
Lemma generated_entries :
  In "Muxer.rotateSegments" (sk_writer MuxCritSec.generated) /\
  In "Muxer.rotateParts" (sk_writer MuxCritSec.generated) /\
  In "Muxer.createFirstSegment" (sk_writer MuxCritSec.generated) /\
  In "muxerStream.handleMediaPlaylist" (sk_readers MuxCritSec.generated) /\
  In "Muxer.handleMultivariantPlaylist" (sk_readers MuxCritSec.generated) /\
  option_map first_mut (prog_of MuxCritSec.generated "Muxer.rotateSegments") = Some (Some KSeg) /\
  option_map first_mut (prog_of MuxCritSec.generated "Muxer.rotateParts") = Some (Some KParts) /\
  option_map no_mut (prog_of MuxCritSec.generated "muxerStream.handleMediaPlaylist") = Some true.
Proof. vm_compute. repeat split; auto 10. Qed.

Theorem generated_sound :
  forall n ld ss0 tw trs g, ld < n -> List.length ss0 = n -> alleq ss0 ->
  wtrace MuxCritSec.generated n ld false tw -> Forall (rtrace MuxCritSec.generated n ld) trs ->
  greach (ginit ss0 (tw :: trs)) g ->
  forall t, reads g t -> g_failed g = true \/ alleq (g_ss g).
Proof. exact (atomic_rotation_sound MuxCritSec.generated generated_atomic). Qed.

Theorem generated_same_view :
  forall n ld ss0 tw trs g, ld < n -> List.length ss0 = n -> alleq ss0 ->
  wtrace MuxCritSec.generated n ld false tw -> Forall (rtrace MuxCritSec.generated n ld) trs ->
  greach (ginit ss0 (tw :: trs)) g ->
  forall t, reads g t -> g_failed g = false ->
  forall i j hi hj, nth_error (g_ss g) i = Some hi -> nth_error (g_ss g) j = Some hj ->
    seg_count hi = seg_count hj /\ seg_instants hi = seg_instants hj /\ part_instants hi = part_instants hj.
Proof. exact (atomic_rotation_same_view MuxCritSec.generated generated_atomic). Qed.
