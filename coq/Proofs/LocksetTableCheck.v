(* The complete check of the generated access table (finite domain: the table IS the domain;
   bound = "the accesses the translator found"), lifted to statements about all traces. *)
From Coq Require Import List String Bool Arith.
From GoHls Require Import Model.Lockset Model.LocksetFindings Model.LocksetCheck
                          Proofs.LocksetSound Generated.LocksetTable.
Import ListNotations.

Lemma table_okb_ex_spec : forall locs fns K T,
  table_okb_ex locs fns K T = true ->
  forall p, In p (all_pairs T) -> pair_safe p = true \/ excluded locs fns K p = true.
Proof.
  intros locs fns K T H [a b] Hin. unfold all_pairs in Hin. apply in_prod_iff in Hin.
  destruct Hin as [Ha Hb]. unfold table_okb_ex in H. rewrite forallb_forall in H.
  specialize (H a Ha). rewrite forallb_forall in H. specialize (H b Hb).
  unfold pair_ok in H. destruct (pair_safe (a, b)); [left; reflexivity|right; exact H].
Qed.

Lemma table_okb_spec : forall T, table_okb T = true -> table_ok T = true.
Proof.
  intros T H. unfold table_ok. apply forallb_forall. intros [a b] Hin.
  unfold all_pairs in Hin. apply in_prod_iff in Hin. destruct Hin as [Ha Hb].
  unfold table_okb in H. rewrite forallb_forall in H. specialize (H a Ha).
  rewrite forallb_forall in H. exact (H b Hb).
Qed.

Lemma table_okb_false : forall T, table_okb T = false ->
  ~ (forall p, In p (all_pairs T) -> pair_safe p = true).
Proof.
  intros T H Hall.
  assert (table_okb T = true); [|congruence].
  unfold table_okb. apply forallb_forall. intros a Ha. apply forallb_forall. intros b Hb.
  apply Hall. unfold all_pairs. apply in_prod; assumption.
Qed.

Lemma unsafe_list_spec : forall T p,
  In p (unsafe_list T) -> In p (all_pairs T) /\ pair_safe p = false.
Proof.
  intros T p H. unfold unsafe_list in H.
  apply in_flat_map in H. destruct H as (a & Ha & H).
  apply in_flat_map in H. destruct H as (b & Hb & H).
  destruct (pair_safe (a, b)) eqn:E; simpl in H; [contradiction|].
  destruct H as [<-|[]]. split; [unfold all_pairs; apply in_prod; assumption|exact E].
Qed.

Lemma findings_real_spec : forall locs fns T K,
  findings_real locs fns T K = true ->
  forall e, In e K ->
  exists p, In p (all_pairs T) /\ pair_safe p = false /\ matches locs fns e p = true.
Proof.
  intros locs fns T K H e He. unfold findings_real in H. cbv zeta in H.
  rewrite forallb_forall in H. specialize (H e He).
  apply existsb_exists in H. destruct H as (p & Hp & Hm).
  apply unsafe_list_spec in Hp. destruct Hp as [H1 H2]. exists p. auto.
Qed.

(* ---------------- the generated table ---------------- *)
Definition excl (p : access * access) : bool := excluded loc_names fn_names known_racing p.

(* the computational facts: each is one evaluation of a closed boolean term by the kernel's VM *)
Lemma fact_partial : table_okb_ex loc_names fn_names known_racing table = true.
Proof. vm_cast_no_check (eq_refl true). Qed.
Lemma fact_not_ok : table_okb table = false.
Proof. vm_cast_no_check (eq_refl false). Qed.
Lemma fact_findings_real : findings_real loc_names fn_names table known_racing = true.
Proof. vm_cast_no_check (eq_refl true). Qed.
Lemma fact_unsafe_exactly : unsafe_exactly loc_names fn_names table known_racing = true.
Proof. vm_cast_no_check (eq_refl true). Qed.
Lemma fact_gen : gen_under_mutex gen_fns table = true.
Proof. vm_cast_no_check (eq_refl true). Qed.
Lemma fact_gen_rows : Nat.leb 10 (gen_rows gen_fns table) = true.
Proof. vm_cast_no_check (eq_refl true). Qed.

(* every pair of the table is safe or is one of the recorded findings *)
Lemma table_partial : forall p, In p (all_pairs table) -> pair_safe p = true \/ excl p = true.
Proof. exact (table_okb_ex_spec loc_names fn_names known_racing table fact_partial). Qed.

(* the full statement is false on the faithful table, and every recorded finding is an unsafe pair *)
Lemma table_refuted :
  ~ (forall p, In p (all_pairs table) -> pair_safe p = true) /\
  (forall e, In e known_racing ->
     exists p, In p (all_pairs table) /\ pair_safe p = false /\ matches loc_names fn_names e p = true).
Proof.
  split.
  - exact (table_okb_false table fact_not_ok).
  - exact (findings_real_spec loc_names fn_names table known_racing fact_findings_real).
Qed.

(* the unsafe pairs of the table are exactly the recorded findings (as sets of signatures) *)
Lemma table_unsafe_exactly : unsafe_exactly loc_names fn_names table known_racing = true.
Proof. exact fact_unsafe_exactly. Qed.

(* no trace that runs the table has a data race, except between the recorded pairs *)
Theorem race_free_model_partial : forall tr,
  wf_trace tr -> conforms tr -> runs_table table tr ->
  forall i j t t' a b o,
    i <> j -> at_ tr i (Acc t a o) -> at_ tr j (Acc t' b o) -> t <> t' -> conflicting a b ->
    ~ hb tr i j -> ~ hb tr j i ->
    excl (a, b) = true \/ excl (b, a) = true.
Proof.
  intros tr WF CF RT. apply (lockset_sound_excluding table excl tr WF CF RT). exact table_partial.
Qed.

(* atomic views: generate* runs under the muxer mutex in every handler *)
Lemma generate_under_mutex :
  gen_under_mutex gen_fns table = true /\ Nat.leb 10 (gen_rows gen_fns table) = true.
Proof. split; [exact fact_gen|exact fact_gen_rows]. Qed.
