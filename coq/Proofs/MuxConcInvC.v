(* M4 invariants, part C: every response decided under the mutex was decided by the handler's
   test in a state of this very run (safety of C06). *)
From Coq Require Import List ZArith Lia Bool String Arith.
From GoHls Require Import Lib.MuxSched Model.MuxConcSeq Model.MuxConcSpec Model.MuxConcPar
  Proofs.MuxConcSeqA Proofs.MuxConcSeqB Proofs.MuxConcInvA Proofs.MuxConcInvB.
Import ListNotations.
Local Open Scope Z_scope.

(* responses that only a handler's loop test can produce *)
Definition from_test (r : response) : bool :=
  match r with R200Multi | R200Playlist _ => true | _ => false end.

(* requester i evaluated its loop test, with the mutex held, in the state reached after the
   prefix p of the schedule, with outcome [out] *)
Definition decided_at (c0 : cstate) (sched : list tid) (i : nat) (q : query) (out : tres) : Prop :=
  exists p rest f, sched = p ++ TR i :: rest /\
    c_wpc (crun c0 p) <> WCrashed /\
    req_pc (crun c0 p) i = Some (PTest f) /\
    test (c_mux (crun c0 p)) q f = out.

Lemma decided_at_snoc : forall c0 sched t i q out,
  decided_at c0 sched i q out -> decided_at c0 (sched ++ [t]) i q out.
Proof.
  intros c0 sched t i q out [p [rest [f [E H]]]]. exists p, (rest ++ [t]), f.
  split; [|exact H]. rewrite E, <- app_assoc. reflexivity.
Qed.

Definition hist_ok (c0 : cstate) (sched : list tid) (i : nat) (r : rstate) : Prop :=
  (forall resp, (r_pc r = PUnlock resp \/ (r_pc r = PDone resp /\ from_test resp = true)) ->
                decided_at c0 sched i (req_query (r_req r)) (TExit resp))
  /\ (forall h, r_pc r = PUnlockCall h -> decided_at c0 sched i (req_query (r_req r)) (TBreakHint h)).

Definition hist_inv (c0 : cstate) (sched : list tid) : Prop :=
  forall i r, nth_error (c_reqs (crun c0 sched)) i = Some r -> hist_ok c0 sched i r.

Lemma lstep_req : forall m w n i r o, r_req (fst (lstep m w n i r o)) = r_req r.
Proof.
  intros. unfold lstep. destruct (r_pc r); simpl; auto.
  - destruct o; reflexivity.
  - destruct (test m (req_query (r_req r)) f); reflexivity.
  - destruct o; reflexivity.
Qed.

Lemma call_not_from_test : forall m q h resp, call m q h = PDone resp -> from_test resp = false.
Proof.
  intros m q h resp H. unfold call in H. destruct h as [[|i|i id|i id|i id]|]; try discriminate;
    try (inversion H; reflexivity).
  destruct (handleMediaPlaylist_pre (m_variant m) q); try discriminate. inversion H; reflexivity.
Qed.

Lemma hist_ok_wake : forall c0 sched i r, hist_ok c0 sched i r -> hist_ok c0 sched i (wake r).
Proof.
  intros c0 sched i r H. destruct (wake_pc r) as [[f [E1 E2]]|[_ E2]]; [|rewrite E2; exact H].
  destruct (wake_fields r) as [Eq _]. destruct H as [H1 H2].
  unfold hist_ok. rewrite Eq, E2. split.
  - intros resp [Hc|[Hc _]]; discriminate.
  - intros h Hc; discriminate.
Qed.

Lemma hist_ok_snoc : forall c0 sched t i r, hist_ok c0 sched i r -> hist_ok c0 (sched ++ [t]) i r.
Proof.
  intros c0 sched t i r [H1 H2]. split; intros; apply decided_at_snoc; auto.
Qed.

Lemma hint_call_not_from_test : forall h resp, hint_call h = PDone resp -> from_test resp = false.
Proof. intros [h|] resp H; simpl in H; [discriminate|]. inversion H; reflexivity. Qed.

Lemma hist_ok_lstep : forall c0 sched i r m w n o,
  hist_ok c0 sched i r ->
  (forall f out, r_pc r = PTest f -> test m (req_query (r_req r)) f = out ->
                 decided_at c0 (sched ++ [TR i]) i (req_query (r_req r)) out) ->
  hist_ok c0 (sched ++ [TR i]) i (fst (lstep m w n i r o)).
Proof.
  intros c0 sched i r m w n o K Hnow.
  pose proof (hist_ok_snoc _ _ (TR i) _ _ K) as [K1 K2].
  unfold hist_ok. rewrite lstep_req. unfold lstep. destruct (r_pc r) eqn:Ep.
  - simpl. split; [intros resp [Hc|[Hc _]]; discriminate|intros h Hc; discriminate].
  - simpl. destruct (call_pc m (req_query (r_req r)) h) as [[rr Ec]|[ff Ec]]; rewrite Ec.
    + split; [|intros hh Hc; discriminate].
      intros resp [Hc|[Hc Hf]]; [discriminate|]. inversion Hc; subst.
      rewrite (call_not_from_test _ _ _ _ Ec) in Hf. discriminate.
    + split; [intros resp [Hc|[Hc _]]; discriminate|intros hh Hc; discriminate].
  - destruct o; simpl; rewrite ?Ep;
      (split; [intros resp [Hc|[Hc _]]; discriminate|intros hh Hc; discriminate]).
  - destruct (test m (req_query (r_req r)) f) eqn:Et; simpl.
    + split; [|intros hh Hc; discriminate].
      intros resp [Hc|[Hc _]]; [|discriminate]. inversion Hc; subst. eapply Hnow; eauto.
    + split; [intros resp [Hc|[Hc _]]; discriminate|].
      intros hh Hc. inversion Hc; subst. eapply Hnow; eauto.
    + split; [intros resp [Hc|[Hc _]]; discriminate|intros hh Hc; discriminate].
  - simpl. rewrite Ep. split; [intros resp [Hc|[Hc _]]; discriminate|intros hh Hc; discriminate].
  - destruct o; simpl; rewrite ?Ep;
      (split; [intros resp [Hc|[Hc _]]; discriminate|intros hh Hc; discriminate]).
  - simpl. split; [|intros hh Hc; discriminate].
    intros resp [Hc|[Hc Hf]]; [discriminate|]. inversion Hc; subst. apply K1. left; reflexivity.
  - simpl. split.
    + intros resp [Hc|[Hc Hf]]; [destruct h; discriminate|].
      rewrite (hint_call_not_from_test _ _ Hc) in Hf. discriminate.
    + intros hh Hc. destruct h; discriminate.
  - simpl. rewrite Ep. split; [|intros hh Hc; discriminate].
    intros resp [Hc|[Hc Hf]]; [discriminate|]. apply K1. right. split; assumption.
Qed.

Lemma hist_inv_all : forall c0, (forall i r, nth_error (c_reqs c0) i = Some r -> r_pc r = PStart) ->
  forall sched, hist_inv c0 sched.
Proof.
  intros c0 H0 sched. induction sched as [|t sched IH] using rev_ind.
  - intros i r Hi. pose proof (H0 i r Hi) as Hp. unfold crun, run in Hi. simpl in Hi.
    split.
    + intros resp [Hc|[Hc _]]; rewrite Hp in Hc; discriminate.
    + intros h Hc; rewrite Hp in Hc; discriminate.
  - intros j x Hj. unfold crun in Hj. rewrite run_snoc in Hj. fold (crun c0 sched) in Hj.
    set (c := crun c0 sched) in *.
    assert (Hsame : nth_error (c_reqs c) j = Some x -> hist_ok c0 (sched ++ [t]) j x)
      by (intros Hx; apply hist_ok_snoc; apply IH; exact Hx).
    unfold step in Hj. destruct (c_wpc c) eqn:Ew; try (apply Hsame; exact Hj).
    all: destruct t as [|i];
      [ destruct (wstep_reqs c) as [E|E]; rewrite E in Hj;
        [ apply Hsame; exact Hj
        | apply broadcast_nth in Hj; destruct Hj as [r [Hr ->]];
          apply hist_ok_wake; apply hist_ok_snoc; apply IH; exact Hr ]
      | ].
    all: destruct (rstep_shape c i) as [[_ E]|[r [Hr E]]]; rewrite E in Hj;
      [apply Hsame; exact Hj|];
      apply with_req_nth in Hj; destruct Hj as [[-> [-> _]]|[_ Hj]];
      [|apply Hsame; exact Hj].
    all: apply hist_ok_lstep; [apply IH; exact Hr|];
      intros f out Hp Ht; exists sched, [], f; split; [reflexivity|];
      split; [fold c; congruence|]; split; [unfold req_pc; fold c; rewrite Hr; simpl; congruence|exact Ht].
Qed.
