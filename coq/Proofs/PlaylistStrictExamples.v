(* C15, strict grammar: the hypotheses of the theorems are satisfiable, the conclusion holds on
   rich concrete values with realistic formatters, and the two recorded BYTERANGE findings
   refute the statement without its side condition. *)
From Coq Require Import List ZArith Bool String Ascii Lia.
From GoHls Require Import Model.PlaylistBase Model.PlaylistIdeal Model.PlaylistTime Model.Playlist
  Model.PlaylistSpec Model.PlaylistStrict Model.PlaylistStrictSpec
  Proofs.PlaylistStr Proofs.PlaylistNum Proofs.PlaylistIdeal Proofs.PlaylistStrictLex Proofs.PlaylistExamples.
Import ListNotations.
Local Open Scope string_scope.
Local Open Scope Z_scope.

(* exact decimal formatting of durations and rates, a fixed ISO 8601 date-time *)
Definition lex_oracles : oracles :=
  {| fmt_dur := z_fmt_dur; parse_dur := z_parse_dur; fmt_rate := z_fmt_rate; parse_rate := z_parse_rate;
     fmt_time := fun _ => "1970-01-01T00:00:00Z"; parse_time := fun _ => None |}.

Lemma fmt_fixed_float q dec : 0 <= q -> (1 <= dec)%nat -> is_float (fmt_fixed false q dec) = true.
Proof.
  intros Hq Hd. unfold fmt_fixed. cbn [append].
  assert (HP : 0 < 10 ^ Z.of_nat dec) by (apply Z.pow_pos_nonneg; lia).
  assert (Hi : 0 <= q / 10 ^ Z.of_nat dec) by (apply Z.div_pos; lia).
  destruct (fmt_uint_spec _ Hi) as (Di & Ni & _).
  destruct (pad_dec_spec dec (q mod 10 ^ Z.of_nat dec) "") as (fp & Ef & Df & Lf & _);
    [apply Z.mod_pos_bound; lia|].
  rewrite Ef, app_empty_r. change ("." ++ fp) with (String "." fp).
  unfold is_float. rewrite index_byte_app_sep by (apply digits_only_no_byte; auto).
  rewrite take_app_exact, drop_app_S'.
  rewrite (digits_is _ Di Ni), digits_is; auto. destruct fp; [simpl in Lf; lia|discriminate].
Qed.

Lemma sfloat_of_float s : is_float s = true -> is_sfloat s = true.
Proof.
  intros H. unfold is_sfloat. destruct s as [|c r]; [exact H|].
  destruct (Ascii.eqb_spec c "-").
  - subst. exfalso. destruct (float_chars _ H) as [Hc _]. cbn in Hc. discriminate.
  - destruct c as [[|] [|] [|] [|] [|] [|] [|] [|]]; try exact H. congruence.
Qed.

Lemma fmt_fixed_sfloat neg q dec : 0 <= q -> (1 <= dec)%nat -> is_sfloat (fmt_fixed neg q dec) = true.
Proof.
  intros Hq Hd. destruct neg; [|apply sfloat_of_float, fmt_fixed_float; auto].
  pose proof (fmt_fixed_float q dec Hq Hd) as H. unfold fmt_fixed in *. cbn [append] in *. exact H.
Qed.

Theorem lex_oracles_ok : oracle_lex_ok lex_oracles.
Proof.
  constructor; cbn [lex_oracles fmt_dur fmt_rate fmt_time].
  - intros d. unfold z_fmt_dur. split.
    + apply fmt_fixed_sfloat; [apply Z.div_pos; lia|lia].
    + intros H. replace (d <? 0) with false by (symmetry; apply Z.ltb_ge; lia).
      apply fmt_fixed_float; [apply Z.div_pos; lia|lia].
  - intros f H. unfold z_fmt_rate. replace (f <? 0) with false by (symmetry; apply Z.ltb_ge; lia).
    apply fmt_fixed_float; [apply Z.div_pos; lia|lia].
  - intros t _. reflexivity.
  - intros t. reflexivity.
Qed.

(* realistic formatters for the evaluated examples: exact decimals, Go's date-time layout *)
Definition zg_oracles : oracles :=
  {| fmt_dur := z_fmt_dur; parse_dur := z_parse_dur; fmt_rate := z_fmt_rate; parse_rate := z_parse_rate;
     fmt_time := go_fmt_time; parse_time := go_parse_time |}.

(* the rich media example of Proofs/PlaylistExamples.v without the byte ranges of EXT-X-MAP and
   EXT-X-PART *)
Definition ex_part_strict (u : string) : MediaPart :=
  {| pt_duration := 333340000; pt_uri := u; pt_independent := true; pt_brlen := None;
     pt_brstart := None; pt_gap := true |}.

Definition ex_media_strict : Media :=
  m_set_parts
    (m_set_segments
       (m_set_map ex_media (Some {| map_uri := "init.mp4"; map_brlen := None; map_brstart := None |}))
       [seg_set_parts ex_seg1 [ex_part_strict "p1.mp4"; ex_part_strict "p2.mp4"]; ex_seg2])
    [ex_part_strict "p3.mp4"].

Lemma ex_media_strict_ok :
  wf_media ex_media_strict = true /\ strict_media ex_media_strict = true
  /\ strict_ok (media_marshal zg_oracles ex_media_strict) = true.
Proof. vm_compute. auto. Qed.

Lemma ex_multivariant_strict_ok :
  wf_multivariant ex_multivariant = true /\ strict_multivariant ex_multivariant = true
  /\ strict_ok (multivariant_marshal zg_oracles ex_multivariant) = true.
Proof. vm_compute. auto. Qed.

(* the recorded findings: BYTERANGE of EXT-X-MAP / EXT-X-PART is printed unquoted *)
Definition seg_min : MediaSegment :=
  {| sg_duration := 1000000000; sg_title := ""; sg_uri := "s.mp4"; sg_discontinuity := false;
     sg_gap := false; sg_datetime := None; sg_bitrate := None; sg_key := None; sg_brlen := None;
     sg_brstart := None; sg_parts := [] |}.
Definition media_min : Media :=
  m_set_segments (m_set_targetduration (m_set_version media0 3) 2) [seg_min].

Lemma media_min_strict :
  wf_media media_min = true /\ strict_media media_min = true
  /\ strict_ok (media_marshal zg_oracles media_min) = true.
Proof. vm_compute. auto. Qed.

Lemma grammar_refuted_map_byterange :
  exists p, wf_media p = true /\ strict_ok (media_marshal zg_oracles p) = false
            /\ media_marshal zg_oracles p =
               "#EXTM3U" ++ lf ++ "#EXT-X-VERSION:3" ++ lf ++ "#EXT-X-TARGETDURATION:2" ++ lf
               ++ "#EXT-X-MEDIA-SEQUENCE:0" ++ lf ++ "#EXT-X-MAP:URI=""k.mp4"",BYTERANGE=1" ++ lf
               ++ "#EXTINF:1.00000," ++ lf ++ "s.mp4" ++ lf.
Proof.
  exists (m_set_map media_min (Some {| map_uri := "k.mp4"; map_brlen := Some 1; map_brstart := None |})).
  vm_compute. auto.
Qed.

Lemma grammar_refuted_part_byterange :
  exists p, wf_media p = true /\ strict_ok (media_marshal zg_oracles p) = false
            /\ media_marshal zg_oracles p =
               "#EXTM3U" ++ lf ++ "#EXT-X-VERSION:3" ++ lf ++ "#EXT-X-TARGETDURATION:2" ++ lf
               ++ "#EXT-X-MEDIA-SEQUENCE:0" ++ lf ++ "#EXTINF:1.00000," ++ lf ++ "s.mp4" ++ lf
               ++ "#EXT-X-PART:DURATION=1.00000,URI=""p.mp4"",BYTERANGE=7@0" ++ lf.
Proof.
  exists (m_set_parts media_min [ {| pt_duration := 1000000000; pt_uri := "p.mp4"; pt_independent := false;
                                      pt_brlen := Some 7; pt_brstart := Some 0; pt_gap := false |} ]).
  vm_compute. auto.
Qed.
