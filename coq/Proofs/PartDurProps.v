(* C19: the statements of Props/C19.v in their final form (each proved here, restated and
   closed by [exact] there), including the refutation witnesses. *)
From Coq Require Import List ZArith Lia Bool.
From GoHls Require Import Lib.ZLib Model.PartDur Proofs.PartDurArith Proofs.PartDurRun Proofs.PartDurMain.
Import ListNotations.
Local Open Scope Z_scope.

(* the side condition under which parts are regular: the adjusted part duration is never
   one more than the floor of a non-integer sample-multiple duration *)
Definition c19_side (c : cfg) (T : Z) : Prop :=
  exists adj, findCompatiblePartDuration (partMinDuration c) [tsd T (clockRate c)] = POk adj
              /\ NoStraddle adj T (clockRate c).

(* the value every playlist with a non-final part announces *)
Definition adjOf (c : cfg) (T : Z) : Z :=
  match findCompatiblePartDuration (partMinDuration c) [tsd T (clockRate c)] with POk a => a | _ => 0 end.
Definition samplesOf (c : cfg) (T : Z) : Z := samplesPerPart (adjOf c T) T (clockRate c).
Definition DloOf (c : cfg) (T : Z) : Z := Dlo (adjOf c T) T (clockRate c).
Definition DhiOf (c : cfg) (T : Z) : Z := Dhi (adjOf c T) T (clockRate c).

Lemma multiplyAndDivide_panic_iff : forall v m d, multiplyAndDivide v m d = PPanic <-> d = 0.
Proof.
  intros v m d. unfold multiplyAndDivide. destruct (Z.eqb_spec d 0); split; intro H; congruence || discriminate.
Qed.

Lemma jitter : forall a N R, 0 < R ->
  N * second / R <= tsd (a + N) R - tsd a R <= N * second / R + 1 /\
  ((N * second) mod R = 0 -> tsd (a + N) R - tsd a R = N * second / R).
Proof.
  intros a N R HR. split.
  - pose proof (tsd_diff_bounds a N R HR). pose proof (cdiv_tsd N R HR). unfold tsd in *. lia.
  - intros E. apply tsd_diff_exact; assumption.
Qed.

(* PartMinDuration a whole number of milliseconds is enough (clock rate <= 1 MHz) *)
Lemma whole_ms_side : forall c T, c19_ranges c T -> partMinDuration c mod millisecond = 0 -> c19_side c T.
Proof.
  intros c T Hr Hm. destruct Hr as [HR [_ [H3 H4]]].
  destruct (adjusted_exists _ _ H4 H3) as [adj [Hadj [_ [_ [_ [_ [_ A6]]]]]]].
  exists adj. split; [exact Hadj|]. apply whole_ms_NoStraddle; [exact HR|].
  unfold millisecond in *.
  replace adj with (partMinDuration c + (adj - partMinDuration c)) by lia.
  rewrite Z.add_mod by lia. rewrite Hm.
  assert ((adj - partMinDuration c) mod 1000000 = 0).
  { apply Z.mod_divide in A6; [|lia]. destruct A6 as [k Hk]. rewrite Hk.
    replace (k * (5 * 1000000)) with (k * 5 * 1000000) by lia. apply Z.mod_mul. lia. }
  rewrite H. reflexivity.
Qed.

Lemma adjOf_eq : forall c T adj,
  findCompatiblePartDuration (partMinDuration c) [tsd T (clockRate c)] = POk adj -> adjOf c T = adj.
Proof. intros c T adj H. unfold adjOf. rewrite H. reflexivity. Qed.

(* the side condition is exact: where it fails, whether m samples complete a part depends
   on the phase of the part start, so two start phases give different sample counts *)
Lemma side_exact : forall adj T R, 0 < R -> 0 < T -> ~ NoStraddle adj T R ->
  exists m a1 a2, 0 <= m /\ 0 <= a1 /\ 0 <= a2 /\
    tsd (a1 + m * T) R - tsd a1 R < adj /\ adj <= tsd (a2 + m * T) R - tsd a2 R.
Proof.
  intros adj T R HR HT HN.
  (* NoStraddle is a statement about m in a bounded range only through decidable facts; find m *)
  assert (Hex : exists m, 0 <= m /\ (m * T * second) mod R <> 0 /\ tsd (m * T) R + 1 = adj).
  { (* m with tsd (m*T) R + 1 = adj satisfies m*T*second < adj*R, so m < adj*R + 1: bounded search *)
    destruct (Z_le_gt_dec adj 0) as [Hle|Hgt].
    - exfalso. apply HN. intros m Hm Hx Heq.
      assert (0 <= tsd (m * T) R) by (apply tsd_nonneg; nia). lia.
    - assert (Hs : forall k : nat,
               (exists m, 0 <= m /\ (m * T * second) mod R <> 0 /\ tsd (m * T) R + 1 = adj)
               \/ (forall m, 0 <= m < Z.of_nat k -> (m * T * second) mod R <> 0 -> tsd (m * T) R + 1 <> adj)).
      { induction k as [|k IH].
        - right. intros m Hm. lia.
        - destruct IH as [L|Rk]; [left; exact L|].
          destruct (Z.eq_dec ((Z.of_nat k * T * second) mod R) 0) as [E|E].
          + right. intros m Hm Hx. destruct (Z.eq_dec m (Z.of_nat k)) as [->|Hne]; [contradiction|].
            apply Rk; [lia|exact Hx].
          + destruct (Z.eq_dec (tsd (Z.of_nat k * T) R + 1) adj) as [E2|E2].
            * left. exists (Z.of_nat k). split; [lia|]. split; assumption.
            * right. intros m Hm Hx. destruct (Z.eq_dec m (Z.of_nat k)) as [->|Hne]; [exact E2|].
              apply Rk; [lia|exact Hx]. }
      destruct (Hs (Z.to_nat (adj * R + 1))) as [L|Rk]; [exact L|].
      exfalso. apply HN. intros m Hm Hx Heq.
      destruct (Z_lt_ge_dec m (adj * R + 1)) as [Lt|Ge].
      + apply (Rk m); [rewrite Z2Nat.id by nia; lia|exact Hx|exact Heq].
      + (* m >= adj*R + 1 makes tsd (m*T) R >= adj *)
        assert (adj <= tsd (m * T) R).
        { unfold tsd. apply div_le_iff; [exact HR|]. unfold second. nia. }
        lia. }
  destruct Hex as [m [Hm [Hx Heq]]].
  destruct (straddle_phases adj T R m HR HT Hm Hx Heq) as [a1 [a2 H]].
  exists m, a1, a2. tauto.
Qed.

(* ... and decidable: [sideb] computes it (the tie compares the harness's classification of
   every constant-duration configuration with this function) *)
Lemma side_decidable : forall c T, c19_ranges c T ->
  (sideb (adjOf c T) T (clockRate c) = true <-> c19_side c T).
Proof.
  intros c T Hr. destruct (ranges_facts c T Hr) as [HR [HT Hsd]].
  destruct Hr as [_ [_ [H3 H4]]].
  destruct (adjusted_exists _ _ H4 H3) as [adj [Hadj [A1 _]]].
  rewrite (adjOf_eq c T adj Hadj).
  assert (Hadj1 : 1 <= adj) by (unfold millisecond in H4; lia).
  assert (HRT : clockRate c <= T * second).
  { unfold tsd in Hsd. assert (1 <= T * second / clockRate c) by lia.
    apply (div_le_iff (T * second) (clockRate c) 1 HR) in H. lia. }
  rewrite (sideb_spec adj T (clockRate c) HR HT HRT Hadj1).
  split.
  - intros NS. exists adj. split; assumption.
  - intros [adj' [Hadj' NS]]. assert (adj' = adj) by congruence. subst adj'. exact NS.
Qed.

(* ----- bounds (no side condition) ----- *)
Lemma bounds : forall c T flags d0 s p, c19_ranges c T ->
  run c init_state (constWrites d0 T flags) = POk s -> In p (nonFinalListed s) ->
  let pm := partMinDuration c in let sd := tsd T (clockRate c) in
  pm <= p_dur p /\ p_dur p < 2 * Z.max pm sd + sd /\ p_dur p <= partTarget s /\
  adjOf c T <= p_dur p <= adjOf c T + sd.
Proof.
  intros c T flags d0 s p Hr Hrun Hp pm sd.
  destruct (bounds_main c T flags d0 s Hr Hrun) as [adj [Hadj [A1 [A2 [B1 [B2 B3]]]]]].
  fold pm sd in Hadj, A1, A2, B1, B2. rewrite (adjOf_eq c T adj Hadj).
  specialize (B1 p Hp).
  assert (Hall : In p (allParts s)).
  { destruct (ranges_facts c T Hr) as [HR [HT Hsd]].
    destruct Hr as [_ [_ [H3 H4]]].
    assert (Hadjpos : 0 < adj) by (unfold millisecond in H4; fold pm in H4; lia).
    destruct (run_weak c T adj HR HT Hsd Hadj Hadjpos flags d0 s Hrun) as [->|[a I]]; [destruct Hp|].
    eapply nonFinal_incl_all; eassumption. }
  destruct (B2 p Hall) as [_ B4]. lia.
Qed.

(* every retained part, final ones included, is at most adjusted + one sample and at most PART-TARGET *)
Lemma all_parts_bounded : forall c T flags d0 s p, c19_ranges c T ->
  run c init_state (constWrites d0 T flags) = POk s -> In p (allParts s) ->
  p_dur p <= adjOf c T + tsd T (clockRate c) /\ p_dur p <= partTarget s /\ partTarget s mod millisecond = 0.
Proof.
  intros c T flags d0 s p Hr Hrun Hp.
  destruct (bounds_main c T flags d0 s Hr Hrun) as [adj [Hadj [A1 [A2 [B1 [B2 B3]]]]]].
  rewrite (adjOf_eq c T adj Hadj). destruct (B2 p Hp). repeat split; assumption.
Qed.

(* ----- regularity (under the side condition) ----- *)
Lemma same_count : forall c T flags d0 s p, c19_ranges c T -> c19_side c T ->
  run c init_state (constWrites d0 T flags) = POk s -> In p (nonFinalListed s) ->
  p_n p = samplesOf c T /\ DloOf c T <= p_dur p <= DhiOf c T /\ DhiOf c T <= DloOf c T + 1.
Proof.
  intros c T flags d0 s p Hr [adj [Hadj NS]] Hrun Hp.
  unfold samplesOf, DloOf, DhiOf. rewrite (adjOf_eq c T adj Hadj).
  destruct (regular_main c T flags d0 s adj Hr Hadj NS Hrun) as [F _].
  destruct (F p Hp) as [G1 G2]. split; [exact G1|]. split; [exact G2|].
  destruct (ranges_facts c T Hr) as [HR _]. apply Dhi_Dlo. exact HR.
Qed.

(* final parts never hold more samples and are never longer (beyond the same 1 ns) *)
Lemma final_shorter : forall c T flags d0 s ps, c19_ranges c T -> c19_side c T ->
  run c init_state (constWrites d0 T flags) = POk s -> In ps (published s) ->
  exists init last, ps = init ++ [last] /\
    Forall (fun p => p_n p = samplesOf c T /\ DloOf c T <= p_dur p <= DhiOf c T) init /\
    1 <= p_n last <= samplesOf c T /\ 0 < p_dur last <= DhiOf c T.
Proof.
  intros c T flags d0 s ps Hr [adj [Hadj NS]] Hrun Hps.
  unfold samplesOf, DloOf, DhiOf. rewrite (adjOf_eq c T adj Hadj).
  destruct (regular_main c T flags d0 s adj Hr Hadj NS Hrun) as [_ [F _]]. exact (F ps Hps).
Qed.

Lemma target_value : forall c T flags d0 s, c19_ranges c T -> c19_side c T ->
  run c init_state (constWrites d0 T flags) = POk s ->
  partTarget s <= ceil_ms (DloOf c T) /\ (nonFinalListed s <> [] -> partTarget s = ceil_ms (DloOf c T)).
Proof.
  intros c T flags d0 s Hr [adj [Hadj NS]] Hrun.
  unfold DloOf. rewrite (adjOf_eq c T adj Hadj).
  destruct (regular_main c T flags d0 s adj Hr Hadj NS Hrun) as [_ [_ F]]. exact F.
Qed.

Lemma rule85 : forall c T flags d0 s p, c19_ranges c T -> c19_side c T ->
  run c init_state (constWrites d0 T flags) = POk s -> In p (nonFinalListed s) ->
  85 * partTarget s <= 100 * p_dur p /\ p_dur p <= partTarget s.
Proof.
  intros c T flags d0 s p Hr Hs Hrun Hp.
  destruct (bounds c T flags d0 s p Hr Hrun Hp) as [B1 [_ [B3 _]]].
  destruct (same_count c T flags d0 s p Hr Hs Hrun Hp) as [_ [[G1 _] _]].
  destruct (target_value c T flags d0 s Hr Hs Hrun) as [G3 _].
  pose proof (ceil_to_ge millisecond (DloOf c T) ltac:(unfold millisecond; lia)) as C.
  unfold ceil_ms in G3. destruct Hr as [_ [_ [_ H4]]]. unfold millisecond in *. split; lia.
Qed.

(* ----- OnEncodeError: reported exactly when the stored part target changes ----- *)
Lemma rotateParts_errors : forall s e,
  partTarget (rotateParts s e) = partTarget s -> encodeErrors (rotateParts s e) = encodeErrors s.
Proof.
  intros s e. cbn [rotateParts partTarget encodeErrors].
  set (v := partTargetDuration _ _).
  destruct (Z.eqb_spec (partTarget s) 0) as [E0|E0]; cbn [negb andb]; [reflexivity|].
  destruct (Z.eqb_spec v (partTarget s)); cbn [negb]; [reflexivity|]. intros; congruence.
Qed.

Lemma rotateParts_errors_changed : forall s e,
  partTarget s <> 0 -> partTarget (rotateParts s e) <> partTarget s ->
  encodeErrors (rotateParts s e) = encodeErrors s + 1.
Proof.
  intros s e. cbn [rotateParts partTarget encodeErrors].
  set (v := partTargetDuration _ _).
  destruct (Z.eqb_spec (partTarget s) 0) as [E0|E0]; cbn [negb andb]; [congruence|].
  destruct (Z.eqb_spec v (partTarget s)); cbn [negb]; [congruence|reflexivity].
Qed.

Lemma adjust_fields : forall c s sd s1, fmp4AdjustPartDuration c s sd = POk s1 ->
  partTarget s1 = partTarget s /\ encodeErrors s1 = encodeErrors s.
Proof.
  intros c s sd s1. unfold fmp4AdjustPartDuration.
  destruct (freeze s); [intros H; inversion H; split; reflexivity|].
  destruct (sd =? 0); [intros H; inversion H; split; reflexivity|].
  destruct (mem sd (sampleDurations s)); [intros H; inversion H; split; reflexivity|].
  destruct (findCompatiblePartDuration _ _); cbn [pbind]; intros H; inversion H. split; reflexivity.
Qed.

Lemma step_errors : forall c s w s', fmp4WriteSample c s w = POk s' ->
  partTarget s' = partTarget s -> encodeErrors s' = encodeErrors s.
Proof.
  intros c s w s'. unfold fmp4WriteSample.
  destruct (durationToTimestamp fmp4StartDTS (clockRate c)) as [off| |]; cbn [pbind]; try discriminate.
  destruct (w_dts w + off <? 0); [intros H; inversion H; reflexivity|].
  destruct (nextSample s) as [sdts|]; [|intros H; inversion H; reflexivity].
  set (s0 := set_next s (w_dts w + off)).
  assert (F0 : partTarget s0 = partTarget s /\ encodeErrors s0 = encodeErrors s) by (split; reflexivity).
  destruct (match segStartDTS s0 with
            | Some _ => POk s0
            | None => dop t <- timestampToDuration sdts (clockRate c);; POk (createFirstSegment s0 t)
            end) as [sA| |] eqn:EA; cbn [pbind]; try discriminate.
  assert (FA : partTarget sA = partTarget s /\ encodeErrors sA = encodeErrors s).
  { destruct (segStartDTS s0); [inversion EA; subst; exact F0|].
    destruct (timestampToDuration sdts (clockRate c)); cbn [pbind] in EA; try discriminate.
    inversion EA; subst. exact F0. }
  destruct (timestampToDuration (w_dts w + off - sdts) (clockRate c)) as [sd| |]; cbn [pbind]; try discriminate.
  destruct (fmp4AdjustPartDuration c sA sd) as [s1| |] eqn:E1; cbn [pbind]; try discriminate.
  destruct (adjust_fields c sA sd s1 E1) as [P1 Q1].
  destruct (timestampToDuration (w_dts w + off) (clockRate c)) as [nd| |]; cbn [pbind]; try discriminate.
  set (s2 := add_sample s1).
  assert (F2 : partTarget s2 = partTarget s /\ encodeErrors s2 = encodeErrors s).
  { subst s2. cbn [add_sample partTarget encodeErrors]. destruct FA. split; congruence. }
  destruct F2 as [P2 Q2].
  destruct (w_ra w && (w_pc w || (nd - match segStartDTS s2 with Some t => t | None => 0 end >=? segmentMinDuration c))).
  - intros H Hpt. assert (encodeErrors s' = encodeErrors (rotateParts s2 nd) /\ partTarget s' = partTarget (rotateParts s2 nd)) as [X Y].
    { destruct (w_pc w); inversion H; split; reflexivity. }
    rewrite X, <- Q2. apply rotateParts_errors. congruence.
  - destruct (nd - partStartDTS s2 >=? adjusted s2); intros H Hpt; inversion H; subst.
    + rewrite <- Q2. apply rotateParts_errors. congruence.
    + exact Q2.
Qed.

Lemma run_app : forall c ws1 ws2 s, run c s (ws1 ++ ws2) = (dop s' <- run c s ws1 ;; run c s' ws2).
Proof.
  induction ws1 as [|w ws1 IH]; intros ws2 s; [reflexivity|].
  cbn [app run]. destruct (fmp4WriteSample c s w); cbn [pbind]; [apply IH|reflexivity|reflexivity].
Qed.

Lemma constWrites_app : forall fl1 fl2 d0 T,
  constWrites d0 T (fl1 ++ fl2) = constWrites d0 T fl1 ++ constWrites (d0 + Z.of_nat (length fl1) * T) T fl2.
Proof.
  induction fl1 as [|[ra pc] fl1 IH]; intros fl2 d0 T.
  - cbn. f_equal. lia.
  - cbn [app constWrites length]. f_equal. rewrite IH. f_equal. f_equal. lia.
Qed.

(* between two consecutive playlists that both list a non-final part, PART-TARGET does not
   change and no "part duration changed" error is reported *)
Lemma target_stable : forall c T flags f d0 s1 s2, c19_ranges c T -> c19_side c T ->
  run c init_state (constWrites d0 T flags) = POk s1 ->
  run c init_state (constWrites d0 T (flags ++ [f])) = POk s2 ->
  nonFinalListed s1 <> [] -> nonFinalListed s2 <> [] ->
  partTarget s2 = partTarget s1 /\ encodeErrors s2 = encodeErrors s1.
Proof.
  intros c T flags f d0 s1 s2 Hr Hs H1 H2 N1 N2.
  destruct (target_value c T flags d0 s1 Hr Hs H1) as [_ V1].
  destruct (target_value c T (flags ++ [f]) d0 s2 Hr Hs H2) as [_ V2].
  assert (E : partTarget s2 = partTarget s1) by (rewrite (V1 N1), (V2 N2); reflexivity).
  split; [exact E|].
  rewrite constWrites_app, run_app, H1 in H2. cbn [pbind] in H2.
  destruct f as [ra pc]. cbn [constWrites run] in H2.
  destruct (fmp4WriteSample c s1 _) as [s'| |] eqn:Est; cbn [pbind] in H2; try discriminate.
  inversion H2; subst. eapply step_errors; eassumption.
Qed.

(* ----- text resolution for the standard clock rates ----- *)
Lemma text_equal_runs : forall c T fl1 d1 s1 p1 fl2 d2 s2 p2, c19_ranges c T -> c19_side c T ->
  clockRate c <= 5000 * Z.gcd 200000 (clockRate c) ->
  run c init_state (constWrites d1 T fl1) = POk s1 -> In p1 (nonFinalListed s1) ->
  run c init_state (constWrites d2 T fl2) = POk s2 -> In p2 (nonFinalListed s2) ->
  p_dur p1 = p_dur p2 \/
  exists q, 10000 * q - 5000 < p_dur p1 < 10000 * q + 5000 /\ 10000 * q - 5000 < p_dur p2 < 10000 * q + 5000.
Proof.
  intros c T fl1 d1 s1 p1 fl2 d2 s2 p2 Hr Hs Hg R1 P1 R2 P2.
  destruct (same_count c T fl1 d1 s1 p1 Hr Hs R1 P1) as [_ [G1 _]].
  destruct (same_count c T fl2 d2 s2 p2 Hr Hs R2 P2) as [_ [G2 _]].
  destruct (ranges_facts c T Hr) as [HR _].
  unfold DloOf, DhiOf, Dlo, Dhi in G1, G2.
  eapply (text_equal (samplesPerPart (adjOf c T) T (clockRate c) * T) (clockRate c)); eassumption.
Qed.

(* ---------- refutation witnesses (the side condition cannot be dropped) ---------- *)

(* the same inputs are run on the real Muxer by harness/cmd/partdur (corpus cases 0-2) *)
Definition flags_gop (groups g : nat) : list (bool * bool) :=
  concat (repeat ((true, false) :: repeat (false, false) (g - 1)) groups).
Definition flags_audio (n : nat) : list (bool * bool) := repeat (true, false) n.

(* 30 fps at 90 kHz, PartMinDuration = 233 333 334 ns = ceil(7 frames) *)
Definition cfg_v30 : cfg :=
  {| clockRate := 90000; partMinDuration := 233333334; segmentMinDuration := 1000000000; segmentCount := 7 |}.
Definition cfg_v30b : cfg :=
  {| clockRate := 90000; partMinDuration := 233333334; segmentMinDuration := 200000000; segmentCount := 7 |}.
(* AAC at 88.2 kHz, PartMinDuration = 69 659 864 ns = ceil(6 access units) *)
Definition cfg_a88 : cfg :=
  {| clockRate := 88200; partMinDuration := 69659864; segmentMinDuration := 1000000000; segmentCount := 7 |}.

Lemma ranges_v30 : c19_ranges cfg_v30 3000.
Proof. unfold c19_ranges. vm_compute. intuition discriminate. Qed.
Lemma ranges_v30b : c19_ranges cfg_v30b 3000.
Proof. unfold c19_ranges. vm_compute. intuition discriminate. Qed.
Lemma ranges_a88 : c19_ranges cfg_a88 1024.
Proof. unfold c19_ranges. vm_compute. intuition discriminate. Qed.

Lemma same_count_refuted : exists c T flags d0 s p1 p2,
  c19_ranges c T /\ run c init_state (constWrites d0 T flags) = POk s /\
  segments s <> [] /\
  In p1 (nonFinalListed s) /\ In p2 (nonFinalListed s) /\
  p_n p1 <> p_n p2 /\ p_dur p1 + 33000000 < p_dur p2.
Proof.
  exists cfg_v30, 3000, (flags_gop 2 60 ++ flags_gop 1 30), 0.
  eexists. exists {| p_dur := 233333334; p_n := 7 |}, {| p_dur := 266666666; p_n := 8 |}.
  split; [exact ranges_v30|]. split; [vm_compute; reflexivity|]. split; [discriminate|].
  split; [vm_compute; tauto|]. split; [vm_compute; tauto|]. split; [discriminate|reflexivity].
Qed.

Lemma rule85_refuted : exists c T flags d0 s p,
  c19_ranges c T /\ run c init_state (constWrites d0 T flags) = POk s /\
  segments s <> [] /\
  In p (nonFinalListed s) /\ 85 * partTarget s > 100 * p_dur p.
Proof.
  exists cfg_a88, 1024, (flags_audio 200), 0.
  eexists. exists {| p_dur := 69659864; p_n := 6 |}.
  split; [exact ranges_a88|]. split; [vm_compute; reflexivity|]. split; [discriminate|].
  split; [vm_compute; tauto|reflexivity].
Qed.

Lemma target_stable_refuted : exists c T flags f d0 s1 s2,
  c19_ranges c T /\
  run c init_state (constWrites d0 T flags) = POk s1 /\
  run c init_state (constWrites d0 T (flags ++ [f])) = POk s2 /\
  segments s1 <> [] /\
  nonFinalListed s1 <> [] /\ nonFinalListed s2 <> [] /\
  partTarget s1 = 234000000 /\ partTarget s2 = 267000000 /\ encodeErrors s2 = encodeErrors s1 + 1.
Proof.
  exists cfg_v30b, 3000, (flags_gop 2 8), (false, false), 6000.
  eexists. eexists.
  split; [exact ranges_v30b|]. split; [vm_compute; reflexivity|]. split; [vm_compute; reflexivity|].
  split; [discriminate|].
  split; [vm_compute; discriminate|]. split; [vm_compute; discriminate|].
  split; [reflexivity|]. split; reflexivity.
Qed.

(* ---------- satisfiability of the hypotheses ---------- *)

Definition cfg_2997 : cfg :=
  {| clockRate := 90000; partMinDuration := 200 * millisecond; segmentMinDuration := second; segmentCount := 7 |}.

Lemma ranges_2997 : c19_ranges cfg_2997 3003.
Proof. unfold c19_ranges. vm_compute. intuition discriminate. Qed.

Lemma side_2997 : c19_side cfg_2997 3003.
Proof. apply whole_ms_side; [exact ranges_2997|reflexivity]. Qed.

(* any prefix of a constant-duration run is a constant-duration run: theorems about every
   [flags] are theorems about every playlist served along the way *)
Lemma constWrites_firstn : forall n flags d0 T,
  firstn n (constWrites d0 T flags) = constWrites d0 T (firstn n flags).
Proof.
  induction n as [|n IH]; intros [|[ra pc] flags] d0 T; try reflexivity.
  cbn [constWrites firstn]. f_equal. apply IH.
Qed.

(* a concrete run inside the hypotheses of every run theorem, listing non-final parts *)
Lemma run_example : exists s p,
  run cfg_2997 init_state (constWrites 0 3003 (flags_gop 3 30)) = POk s /\ In p (nonFinalListed s)
  /\ clockRate cfg_2997 <= 5000 * Z.gcd 200000 (clockRate cfg_2997).
Proof.
  eexists. exists {| p_dur := 200200000; p_n := 6 |}.
  split; [vm_compute; reflexivity|]. split; [vm_compute; tauto|vm_compute; discriminate].
Qed.

Definition std_rates : list Z :=
  [90000; 48000; 96000; 88200; 64000; 44100; 32000; 24000; 22050; 16000; 12000; 11025; 8000; 7350].

Lemma std_rates_text : forall R, In R std_rates -> 0 < R <= 1000000 /\ R <= 5000 * Z.gcd 200000 R.
Proof.
  assert (H : forallb (fun R => (0 <? R) && (R <=? 1000000) && (R <=? 5000 * Z.gcd 200000 R)) std_rates = true)
    by (vm_compute; reflexivity).
  rewrite forallb_forall in H. intros R HR. specialize (H R HR).
  apply andb_true_iff in H. destruct H as [H H3]. apply andb_true_iff in H. destruct H as [H1 H2].
  apply Z.ltb_lt in H1. apply Z.leb_le in H2. apply Z.leb_le in H3. lia.
Qed.
