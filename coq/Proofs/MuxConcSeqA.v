(* Sequential core of C06, part A: characterisation of hasPart / the range check / decide
   on well-formed stream states. *)
From Coq Require Import List ZArith Lia Bool String Ascii ZifyBool ZifyNat.
From GoHls Require Import Lib.MuxSched Model.MuxConcSeq Model.MuxConcSpec.
Import ListNotations.
Local Open Scope Z_scope.

Lemma zlen_nonneg : forall A (l : list A), 0 <= zlen l.
Proof. intros; unfold zlen; lia. Qed.

Lemma zlen_cons : forall A (a : A) l, zlen (a :: l) = zlen l + 1.
Proof. intros; unfold zlen; simpl List.length; lia. Qed.

Lemma zlen_nil : forall A, zlen (@nil A) = 0.
Proof. reflexivity. Qed.

Lemma zlen_app : forall A (a b : list A), zlen (a ++ b) = zlen a + zlen b.
Proof. intros; unfold zlen; rewrite app_length; lia. Qed.

Lemma zlen_pos_nonempty : forall A (l : list A), l <> [] -> 1 <= zlen l.
Proof. intros A [|a l] H; [congruence|rewrite zlen_cons; pose proof (zlen_nonneg _ l); lia]. Qed.

Lemma u64_id : forall z, 0 <= z < two64 -> u64 z = z.
Proof. intros; unfold u64; apply Z.mod_small; assumption. Qed.

Lemma two64_pos : 0 < two64.
Proof. reflexivity. Qed.

(* ---- hasPart_loop ---- *)
Lemma segs_ok_weaken : forall v l k b, segs_ok v k b l -> segs_ok v k true l \/ b = false.
Proof. intros v l k [|] H; auto. Qed.

(* no entry of a window starting at k has an id below k *)
Lemma hasPart_loop_below : forall v l k b M p,
  segs_ok v k b l -> M < k -> hasPart_loop l M p = false.
Proof.
  intros v l; induction l as [|[d|id ps d] r IH]; intros k b M p Hok Hlt; simpl; auto.
  - destruct Hok as [_ Hok]. eapply IH; [exact Hok|lia].
  - destruct Hok as [-> [_ Hok]].
    replace (M =? k) with false by lia. eapply IH; [exact Hok|lia].
Qed.

(* the entry at media sequence number M, if any *)
Definition entry (k : Z) (l : list seg) (M : Z) : option seg :=
  if M <? k then None else nth_error l (Z.to_nat (M - k)).

Lemma entry_cons_hd : forall k a l, entry k (a :: l) k = Some a.
Proof. intros; unfold entry. replace (k <? k) with false by lia. rewrite Z.sub_diag. reflexivity. Qed.

Lemma entry_cons_tl : forall k a l M, k < M -> entry k (a :: l) M = entry (k + 1) l M.
Proof.
  intros; unfold entry. replace (M <? k) with false by lia. replace (M <? k + 1) with false by lia.
  replace (Z.to_nat (M - k)) with (S (Z.to_nat (M - (k + 1)))) by lia. reflexivity.
Qed.

Lemma entry_none_beyond : forall k l M, k + zlen l <= M -> entry k l M = None.
Proof.
  intros; unfold entry. pose proof (zlen_nonneg _ l). replace (M <? k) with false by lia.
  apply nth_error_None. unfold zlen in *. lia.
Qed.

Lemma entry_some_within : forall k l M, k <= M < k + zlen l -> exists sg, entry k l M = Some sg.
Proof.
  intros k l M H; unfold entry. replace (M <? k) with false by lia.
  destruct (nth_error l (Z.to_nat (M - k))) eqn:E; eauto.
  apply nth_error_None in E. unfold zlen in H. lia.
Qed.

Lemma entry_some_bounds : forall k l M sg, entry k l M = Some sg -> k <= M < k + zlen l.
Proof.
  intros k l M sg H; unfold entry in H. destruct (M <? k) eqn:E; [discriminate|].
  assert (Hn : (Z.to_nat (M - k) < List.length l)%nat) by (apply nth_error_Some; congruence).
  unfold zlen. lia.
Qed.

Lemma entry_nil : forall k M, entry k [] M = None.
Proof. intros; unfold entry. destruct (M <? k); [reflexivity|]. destruct (Z.to_nat (M - k)); reflexivity. Qed.

(* what the loop computes on a well-formed Low-Latency window *)
Definition loop_spec (k : Z) (l : list seg) (M p : Z) : bool :=
  match entry k l M with
  | Some (Seg _ ps _) =>
      (p <? zlen ps) || match entry k l (M + 1) with Some _ => true | None => false end
  | _ => false
  end.

Lemma hasPart_loop_spec : forall l k b M p,
  segs_ok LL k b l -> 0 <= k -> M + 1 < two64 -> 0 <= p ->
  hasPart_loop l M p = loop_spec k l M p.
Proof.
  induction l as [|[d|id ps d] r IH]; intros k b M p Hok Hk HM Hp.
  - unfold loop_spec, entry; simpl. destruct (M <? k); [reflexivity|].
    destruct (Z.to_nat (M - k)); reflexivity.
  - destruct Hok as [_ Hok]. simpl hasPart_loop.
    destruct (Z.lt_trichotomy M k) as [Hlt|[->|Hgt]].
    + rewrite (hasPart_loop_below LL r (k + 1) false M p Hok) by lia.
      unfold loop_spec, entry. replace (M <? k) with true by lia. reflexivity.
    + rewrite (hasPart_loop_below LL r (k + 1) false k p Hok) by lia.
      unfold loop_spec. rewrite entry_cons_hd. reflexivity.
    + rewrite (IH (k + 1) false M p Hok) by lia.
      unfold loop_spec. rewrite !entry_cons_tl by lia. reflexivity.
  - destruct Hok as [-> [Hps Hok]]. simpl hasPart_loop.
    destruct (Z.lt_trichotomy M k) as [Hlt|[->|Hgt]].
    + replace (M =? k) with false by lia.
      rewrite (hasPart_loop_below LL r (k + 1) true M p Hok) by lia.
      unfold loop_spec, entry. replace (M <? k) with true by lia. reflexivity.
    + rewrite Z.eqb_refl. unfold loop_spec. rewrite entry_cons_hd.
      rewrite entry_cons_tl by lia.
      destruct (zlen ps <=? p) eqn:E.
      * replace (p <? zlen ps) with false by lia. rewrite orb_false_l.
        rewrite u64_id by lia.
        destruct r as [|[d'|id' ps' d'] r'].
        -- rewrite entry_nil. reflexivity.
        -- destruct Hok as [Hc _]; discriminate.
        -- destruct Hok as [-> [Hps' _]]. simpl hasPart_loop. rewrite Z.eqb_refl.
           rewrite entry_cons_hd.
           assert (1 <= zlen ps') by (apply zlen_pos_nonempty; auto).
           replace (zlen ps' <=? 0) with false by lia. reflexivity.
      * replace (p <? zlen ps) with true by lia. reflexivity.
    + replace (M =? k) with false by lia.
      rewrite (IH (k + 1) true M p Hok) by lia.
      unfold loop_spec. rewrite !entry_cons_tl by lia. reflexivity.
Qed.

(* ---- the range check ---- *)
Lemma range_reject_spec : forall v s M,
  wf_stream v s -> in_range s -> segments s <> [] -> 0 <= M ->
  range_reject s M = (nextSegmentID s + 1 <? M) || (M <=? head_msn s).
Proof.
  intros v s M W R Hne HM. unfold range_reject, head_msn, in_range in *.
  pose proof (wf_next _ _ W Hne) as Hn. pose proof (wf_dc _ _ W) as Hd.
  pose proof (zlen_pos_nonempty _ _ Hne) as Hl.
  rewrite (u64_id (nextSegmentID s + 1)) by lia.
  rewrite (u64_id (zlen (segments s) - 1)) by lia.
  rewrite u64_id by lia.
  destruct (nextSegmentID s + 1 <? M); simpl; [reflexivity|].
  lia.
Qed.

(* before the first rotation (no segment yet) only next+1 passes the check: the wrap of
   uint64(len-1) = 2^64-1 makes the lower bound next+1 *)
Lemma range_reject_empty : forall s M,
  segments s = [] -> 0 <= nextSegmentID s -> nextSegmentID s + 1 < two64 -> 0 <= M ->
  range_reject s M = negb (M =? nextSegmentID s + 1).
Proof.
  intros s M He H0 H1 HM. unfold range_reject. rewrite He. change (zlen (@nil seg) - 1) with (-1).
  rewrite (u64_id (nextSegmentID s + 1)) by lia.
  assert (E : u64 (nextSegmentID s - u64 (-1)) = nextSegmentID s + 1).
  { unfold u64. change ((-1) mod two64) with (two64 - 1).
    replace (nextSegmentID s - (two64 - 1)) with (nextSegmentID s + 1 + (-1) * two64) by lia.
    rewrite Z.mod_add by (unfold two64; lia). apply Z.mod_small. lia. }
  rewrite E. lia.
Qed.

Lemma hasContent_LL : forall s, hasContent LL s = true <-> segments s <> [].
Proof.
  intros s; unfold hasContent. destruct (segments s) as [|a l].
  - rewrite zlen_nil. split; [discriminate|congruence].
  - rewrite zlen_cons. pose proof (zlen_nonneg _ l). split; [congruence|intros _; lia].
Qed.

(* decide on a well-formed Low-Latency stream with content *)
Lemma decide_core_spec : forall s M p,
  wf_stream LL s -> in_range s -> segments s <> [] -> 0 <= M -> 0 <= p ->
  decide_core LL s M p =
    if (nextSegmentID s + 1 <? M) || (M <=? head_msn s) then Respond400
    else if M =? nextSegmentID s then
           match nextSegment s with
           | Some ps => if p <? zlen ps then Ready else Block
           | None => DPanic
           end
         else if loop_spec (segmentDeleteCount s) (segments s) M p then Ready else Block.
Proof.
  intros s M p W R Hne HM Hp. unfold decide_core.
  rewrite (range_reject_spec LL s M W R Hne HM).
  destruct ((nextSegmentID s + 1 <? M) || (M <=? head_msn s)) eqn:ER; [reflexivity|].
  replace (hasContent LL s) with true by (symmetry; apply hasContent_LL; exact Hne).
  unfold hasPart. destruct (M =? nextSegmentID s) eqn:EM.
  - destruct (nextSegment s); [|reflexivity]. destruct (p <? zlen l); reflexivity.
  - destruct (wf_segs _ _ W) as [b Hok].
    rewrite (hasPart_loop_spec _ _ b M p Hok (wf_dc _ _ W)); [|unfold in_range in R; lia|exact Hp].
    destruct (loop_spec _ _ _ _); reflexivity.
Qed.

Lemma decide_no_panic : forall s M p,
  wf_stream LL s -> decide_core LL s M p <> DPanic.
Proof.
  intros s M p W. unfold decide_core. destruct (range_reject s M); [discriminate|].
  destruct (hasContent LL s) eqn:EC; [|discriminate].
  apply hasContent_LL in EC. pose proof (wf_open _ _ W EC) as Ho.
  unfold hasPart. destruct (M =? nextSegmentID s).
  - destruct (nextSegment s); [|congruence]. destruct (p <? zlen l); discriminate.
  - destruct (hasPart_loop _ _ _); discriminate.
Qed.
