(* Sequential core of C06, part A: characterisation of hasPart / the range check / decide
   on well-formed stream states. *)
From Coq Require Import List ZArith Lia Bool String Ascii ZifyBool ZifyNat.
From GoHls Require Import Lib.MuxSched Model.MuxConcSeq Model.MuxConcSpec.
Import ListNotations.
Local Open Scope Z_scope.

Lemma zlen_nonneg : forall A (l : list A), 0 <= zlen l.
Proof. intros; unfold zlen; lia. Qed.

Lemma zlen_cons : forall A (a : A) l, zlen (a :: l) = zlen l + 1.
Proof. intros; unfold zlen; simpl List.length; lia. Qed.

Lemma zlen_nil : forall A, zlen (@nil A) = 0.
Proof. reflexivity. Qed.

Lemma zlen_app : forall A (a b : list A), zlen (a ++ b) = zlen a + zlen b.
Proof. intros; unfold zlen; rewrite app_length; lia. Qed.

Lemma zlen_pos_nonempty : forall A (l : list A), l <> [] -> 1 <= zlen l.
Proof. intros A [|a l] H; [congruence|rewrite zlen_cons; pose proof (zlen_nonneg _ l); lia]. Qed.

Lemma u64_id : forall z, 0 <= z < two64 -> u64 z = z.
Proof. intros; unfold u64; apply Z.mod_small; assumption. Qed.

Lemma two64_pos : 0 < two64.
Proof. reflexivity. Qed.

(* the entry at media sequence number M, if any *)
Definition entry (k : Z) (l : list seg) (M : Z) : option seg :=
  if M <? k then None else nth_error l (Z.to_nat (M - k)).

Lemma entry_cons_hd : forall k a l, entry k (a :: l) k = Some a.
Proof. intros; unfold entry. replace (k <? k) with false by lia. rewrite Z.sub_diag. reflexivity. Qed.

Lemma entry_cons_tl : forall k a l M, k < M -> entry k (a :: l) M = entry (k + 1) l M.
Proof.
  intros; unfold entry. replace (M <? k) with false by lia. replace (M <? k + 1) with false by lia.
  replace (Z.to_nat (M - k)) with (S (Z.to_nat (M - (k + 1)))) by lia. reflexivity.
Qed.

Lemma entry_none_beyond : forall k l M, k + zlen l <= M -> entry k l M = None.
Proof.
  intros; unfold entry. pose proof (zlen_nonneg _ l). replace (M <? k) with false by lia.
  apply nth_error_None. unfold zlen in *. lia.
Qed.

Lemma entry_some_within : forall k l M, k <= M < k + zlen l -> exists sg, entry k l M = Some sg.
Proof.
  intros k l M H; unfold entry. replace (M <? k) with false by lia.
  destruct (nth_error l (Z.to_nat (M - k))) eqn:E; eauto.
  apply nth_error_None in E. unfold zlen in H. lia.
Qed.

Lemma entry_some_bounds : forall k l M sg, entry k l M = Some sg -> k <= M < k + zlen l.
Proof.
  intros k l M sg H; unfold entry in H. destruct (M <? k) eqn:E; [discriminate|].
  assert (Hn : (Z.to_nat (M - k) < List.length l)%nat) by (apply nth_error_Some; congruence).
  unfold zlen. lia.
Qed.

Lemma entry_nil : forall k M, entry k [] M = None.
Proof. intros; unfold entry. destruct (M <? k); [reflexivity|]. destruct (Z.to_nat (M - k)); reflexivity. Qed.

(* ---- the range check ---- *)
Lemma range_reject_spec : forall v s M,
  wf_stream v s -> in_range s -> segments s <> [] -> 0 <= M ->
  range_reject s M = (nextSegmentID s + 1 <? M) || (M <=? head_msn s).
Proof.
  intros v s M W R Hne HM. unfold range_reject, head_msn, in_range in *.
  pose proof (wf_next _ _ W Hne) as Hn. pose proof (wf_dc _ _ W) as Hd.
  pose proof (zlen_pos_nonempty _ _ Hne) as Hl.
  rewrite (u64_id (nextSegmentID s + 1)) by lia.
  rewrite (u64_id (zlen (segments s) - 1)) by lia.
  rewrite u64_id by lia.
  destruct (nextSegmentID s + 1 <? M); simpl; [reflexivity|].
  lia.
Qed.

(* before the first rotation (no segment yet) only next+1 passes the check: the wrap of
   uint64(len-1) = 2^64-1 makes the lower bound next+1 *)
Lemma range_reject_empty : forall s M,
  segments s = [] -> 0 <= nextSegmentID s -> nextSegmentID s + 1 < two64 -> 0 <= M ->
  range_reject s M = negb (M =? nextSegmentID s + 1).
Proof.
  intros s M He H0 H1 HM. unfold range_reject. rewrite He. change (zlen (@nil seg) - 1) with (-1).
  rewrite (u64_id (nextSegmentID s + 1)) by lia.
  assert (E : u64 (nextSegmentID s - u64 (-1)) = nextSegmentID s + 1).
  { unfold u64. change ((-1) mod two64) with (two64 - 1).
    replace (nextSegmentID s - (two64 - 1)) with (nextSegmentID s + 1 + (-1) * two64) by lia.
    rewrite Z.mod_add by (unfold two64; lia). apply Z.mod_small. lia. }
  rewrite E. lia.
Qed.

Lemma hasContent_LL : forall s, hasContent LL s = true <-> segments s <> [].
Proof.
  intros s; unfold hasContent. destruct (segments s) as [|a l].
  - rewrite zlen_nil. split; [discriminate|congruence].
  - rewrite zlen_cons. pose proof (zlen_nonneg _ l). split; [congruence|intros _; lia].
Qed.

(* ---- hasPart on a well-formed stream with content ---- *)
Definition open_has (s : stream) (p : Z) : option bool :=
  match nextSegment s with None => None | Some ps => Some (p <? zlen ps) end.

Lemma hasPart_spec : forall v s M p,
  wf_stream v s -> in_range s -> segments s <> [] -> 0 <= M ->
  hasPart s M p =
    if M =? nextSegmentID s then open_has s p
    else if (M <? segmentDeleteCount s) || (nextSegmentID s <? M) then Some false
         else match entry (segmentDeleteCount s) (segments s) M with
              | None => None
              | Some (Gap _) => Some true
              | Some (Seg _ parts _) =>
                  if p <? zlen parts then Some true
                  else if negb (M + 1 =? nextSegmentID s) then Some true
                       else open_has s 0
              end.
Proof.
  intros v s M p W R Hne HM. unfold hasPart, open_has.
  pose proof (wf_next _ _ W Hne) as Hn. pose proof (wf_dc _ _ W) as Hd.
  pose proof (zlen_pos_nonempty _ _ Hne) as Hl. unfold in_range in R.
  destruct (M =? nextSegmentID s) eqn:EM; simpl negb; cbv iota; [reflexivity|].
  rewrite (u64_id (zlen (segments s))) by lia.
  rewrite (u64_id (nextSegmentID s - zlen (segments s))) by lia.
  replace (nextSegmentID s - zlen (segments s)) with (segmentDeleteCount s) by lia.
  destruct ((M <? segmentDeleteCount s) || (nextSegmentID s <? M)) eqn:ER; [reflexivity|].
  unfold entry. replace (M <? segmentDeleteCount s) with false by lia.
  destruct (nth_error (segments s) (Z.to_nat (M - segmentDeleteCount s))) as [[d|id parts d]|]; try reflexivity.
  rewrite (u64_id (M + 1)) by lia. reflexivity.
Qed.

(* inside the window the indexed entry exists: no index-out-of-range panic *)
Lemma entry_in_window : forall v s M,
  wf_stream v s -> segments s <> [] -> segmentDeleteCount s <= M < nextSegmentID s ->
  exists sg, entry (segmentDeleteCount s) (segments s) M = Some sg.
Proof.
  intros v s M W Hne H. apply entry_some_within. rewrite <- (wf_next _ _ W Hne). exact H.
Qed.

Lemma decide_no_panic : forall s M P,
  wf_stream LL s -> in_range s -> 0 <= M -> decide_core LL s M P <> DPanic.
Proof.
  intros s M P W R HM. unfold decide_core. destruct (range_reject s M); [discriminate|].
  destruct (hasContent LL s) eqn:EC; [|discriminate].
  apply hasContent_LL in EC. pose proof (wf_open _ _ W EC) as Ho.
  destruct P as [p|]; [|destruct (M <? nextSegmentID s); discriminate].
  rewrite (hasPart_spec LL s M p W R EC HM). unfold open_has.
  destruct (nextSegment s) as [ps|]; [|congruence].
  destruct (M =? nextSegmentID s) eqn:EM; [destruct (p <? zlen ps); discriminate|].
  destruct ((M <? segmentDeleteCount s) || (nextSegmentID s <? M)) eqn:ER; [discriminate|].
  destruct (entry_in_window LL s M W EC) as [sg Hs]; [lia|]. rewrite Hs.
  destruct sg as [d|id parts d]; [discriminate|].
  destruct (p <? zlen parts); [discriminate|]. destruct (negb (M + 1 =? nextSegmentID s)); [discriminate|].
  destruct (0 <? zlen ps); discriminate.
Qed.
