(* C03, fMP4 variants (continued from MuxSpanPart.v): the part-level span invariant along histories.
   PP: every finalized part of the leading stream has samples and starts at the timestamp of its first sample; every
   finalized part ends where the next one starts, the last one where the part being built starts; the part being
   built starts at the timestamp of the first buffered sample or - while nothing is buffered - of the look-ahead unit.
     part_times_are_first_units      on part records (evicted, listed and open segments alike)
     part_duration_is_media_span     on the playlist: every listed part DURATION (parts under the last segments and
                                     the trailing parts of the open segment) = timestamp of the unit that follows the
                                     part's last sample - timestamp of its first sample
   in every state reached from Start by writes that return nil (fMP4 and Low-Latency). *)
From Coq Require Import List ZArith Bool Lia Arith.
From GoHls Require Import Model.Mux Proofs.MuxStream Proofs.MuxLift Proofs.MuxWindow Proofs.MuxHistory Proofs.MuxTimes
  Proofs.MuxMulti Proofs.MuxCut Proofs.MuxLog Proofs.MuxLogStep Proofs.MuxLogTS Proofs.MuxPartIds Proofs.MuxAgree
  Proofs.MuxGroups Proofs.MuxRAStart Proofs.MuxRAHist Proofs.MuxChain Proofs.MuxPlaylist Proofs.MuxSpan Proofs.MuxSpanPart.
Import ListNotations.
Local Open Scope Z_scope.

Definition part_headed (rate : Z) (p : part) : Prop :=
  exists x rest, p_samples p = x :: rest /\ p_start p = timestampToDuration (s_dts x) rate.

(* consecutive parts tile; the last one ends at [b] *)
Fixpoint ptiled (ps : list part) (b : Z) : Prop :=
  match ps with
  | [] => True
  | p :: ps' => p_end p = (match ps' with q :: _ => p_start q | [] => b end) /\ ptiled ps' b
  end.

Lemma ptiled_snoc ps : forall pf b, ptiled ps (p_start pf) -> p_end pf = b -> ptiled (ps ++ [pf]) b.
Proof.
  induction ps as [|p ps IH]; intros pf b H E; cbn [app ptiled] in *; [auto|].
  destruct H as [H1 H2]. split; [|now apply IH]. destruct ps; exact H1.
Qed.

Lemma ptiled_split A : forall p B b, ptiled (A ++ p :: B) b -> p_end p = match B with q :: _ => p_start q | [] => b end.
Proof. induction A as [|a A IH]; intros p B b H; cbn [app ptiled] in H; [tauto|]. destruct H as [_ H]. now apply IH. Qed.

Definition pv (m : mstate) (j : nat) : option (list part * option Z * list sample) :=
  match nth_error (m_streams m) j with
  | Some s => Some (all_parts s, op_start s, buffered (m_tracks m) s)
  | None => None
  end.

Definition PPok (rate : Z) (v : list part * option Z * list sample) (pend : list sample) (opened : bool) : Prop :=
  Forall (part_headed rate) (fst (fst v))
  /\ (forall t0, snd (fst v) = Some t0 ->
        ptiled (fst (fst v)) t0 /\ exists x rest, snd v ++ pend = x :: rest /\ t0 = timestampToDuration (s_dts x) rate)
  /\ (opened = false -> fst (fst v) = []).

Definition PP (m : mstate) (ti : nat) (rate : Z) : Prop :=
  forall v, pv m ti = Some v -> PPok rate v (pend_list m ti) (opened_at m ti).

Lemma buffered_samples m m' s :
  map tk_samples (m_tracks m') = map tk_samples (m_tracks m) -> buffered (m_tracks m') s = buffered (m_tracks m) s.
Proof.
  intros E2. unfold buffered. destruct (st_tracks s) as [|ti rest]; [reflexivity|].
  assert (H : option_map tk_samples (nth_error (m_tracks m') ti) = option_map tk_samples (nth_error (m_tracks m) ti))
    by (rewrite <- !nth_error_map, E2; reflexivity).
  destruct (nth_error (m_tracks m') ti), (nth_error (m_tracks m) ti); simpl in H; try congruence.
  now injection H as ->.
Qed.

Lemma PP_ext m m' ti r :
  m_streams m' = m_streams m -> map tk_samples (m_tracks m') = map tk_samples (m_tracks m) ->
  pending m' ti = pending m ti -> PP m ti r -> PP m' ti r.
Proof.
  intros Es Et Hp H v Hv.
  assert (Hpv : pv m' ti = pv m ti).
  { unfold pv. rewrite Es. destruct (nth_error (m_streams m) ti) as [s|]; [|reflexivity]. now rewrite (buffered_samples m m' s Et). }
  assert (Ho : opened_at m' ti = opened_at m ti) by (unfold opened_at; now rewrite Es).
  unfold pend_list. rewrite Hp, Ho. apply H. now rewrite <- Hpv.
Qed.

Section PartInv.
  Variable F0 : list bool.
  Variable T0 : list (tcfg * bool * nat).
  Hypothesis HOL : OneLead F0.

  Theorem PP_leading_write m t ra pc smp0 m' :
    ST F0 T0 m -> nth_error (m_tracks m) (li F0) = Some t -> tk_leading t = true ->
    fmp4WriteSample m (li F0) ra pc smp0 = (m', Ok tt) ->
    PP m (li F0) (t_rate (tk_cfg t)) -> PP m' (li F0) (t_rate (tk_cfg t)).
  Proof.
    intros HS Ht Hlead Hw HP. set (ti := li F0) in *. set (rate := t_rate (tk_cfg t)) in *.
    pose proof HS as ((HL & HB) & HO & HF & HT).
    destruct (fmp4_log_step m ti t ra pc smp0 m' HL Ht Hw) as (L' & _ & _ & Hnx & Hneg).
    destruct (Z_lt_le_dec (shifted t smp0) 0) as [Hlt|Hd]; [now rewrite (Hneg Hlt)|].
    specialize (Hnx Hd).
    assert (Hpend' : pending m' ti = Some (incoming_of t smp0)).
    { unfold pending, tk_nexts in *. rewrite nth_error_map in Hnx.
      destruct (nth_error (m_tracks m') ti) as [t'|]; simpl in Hnx; [|discriminate]. now injection Hnx as ->. }
    assert (Hpend : pending m ti = tk_next t) by (unfold pending; now rewrite Ht).
    destruct (tk_next t) as [prev|] eqn:En.
    - destruct (stream_exists m ti t HL Ht) as (s & Es).
      destruct (fmp4_part_step F0 T0 HOL m t ra pc smp0 m' prev s HS Ht Hlead En Hd Es Hw) as (s' & Es' & Hcase).
      cbv zeta in Hcase. fold ti in Hcase, Es'. fold rate in Hcase.
      set (smp := emit_of prev (shifted t smp0)) in *.
      set (d := timestampToDuration (shifted t smp0) rate) in *.
      set (buf0 := buffered (m_tracks m) s) in *.
      set (st0 := if opened_at m ti then op_start s else Some (timestampToDuration (s_dts prev) rate)) in *.
      assert (Hop' : opened_at m' ti = true).
      { destruct (fmp4_opened_step m ti t ra pc smp0 m' HL Ht Hw) as (_ & Oe). apply Oe.
        unfold emitted_by. rewrite (proj2 (Z.ltb_ge _ _) Hd), En, Hlead. discriminate. }
      (* the situation just before the unit is emitted *)
      assert (Hpv : pv m ti = Some (all_parts s, op_start s, buf0)) by (unfold pv; now rewrite Es).
      destruct (HP _ Hpv) as (Q1 & Q2 & Q3). cbn [fst snd] in Q1, Q2, Q3.
      unfold pend_list in Q2. rewrite Hpend in Q2.
      assert (Hpre : forall t0, st0 = Some t0 ->
                ptiled (all_parts s) t0 /\ exists x rest, buf0 ++ [smp] = x :: rest /\ t0 = timestampToDuration (s_dts x) rate).
      { intros t0 Ht0. subst st0. destruct (opened_at m ti) eqn:Eop.
        - destruct (Q2 t0 Ht0) as (A & x & rest & B & C). split; [exact A|].
          destruct buf0 as [|x1 b]; cbn [app] in *.
          + injection B as <- _. exists smp, []. split; [reflexivity|exact C].
          + injection B as <- _. exists x1, (b ++ [smp]). auto.
        - injection Ht0 as <-. rewrite (Q3 eq_refl). split; [exact I|].
          assert (Ho : st_open s = None) by (unfold opened_at in Eop; rewrite Es in Eop; now destruct (st_open s)).
          assert (Hb : buf0 = []) by (exact (BUF2_BUFI m HB ti s Es Ho)).
          rewrite Hb. exists smp, []. split; reflexivity. }
      intros v Hv. unfold pv in Hv. rewrite Es' in Hv. injection Hv as <-. unfold PPok. cbn [fst snd].
      unfold pend_list. rewrite Hpend', Hop'.
      destruct Hcase as [(A & B & C)|(pf & A & B & C & D & E & G)].
      + rewrite A, B, C. split; [exact Q1|]. split; [|discriminate].
        intros t0 Ht0. destruct (Hpre t0 Ht0) as (P1 & x & rest & P2 & P3). split; [exact P1|].
        exists x, (rest ++ [incoming_of t smp0]). split; [now rewrite P2|exact P3].
      + rewrite A, E, G. destruct (Hpre (p_start pf) (eq_sym B)) as (P1 & x & rest & P2 & P3).
        split; [|split; [|discriminate]].
        * apply Forall_app. split; [exact Q1|]. constructor; [|constructor]. exists x, rest. split; [now rewrite D|exact P3].
        * intros t0 [= <-]. split; [now apply ptiled_snoc|]. exists (incoming_of t smp0), []. split; reflexivity.
    - (* the first unit of the track *)
      assert (Em' : m_streams m' = m_streams m /\ map tk_samples (m_tracks m') = map tk_samples (m_tracks m)).
      { unfold fmp4WriteSample in Hw. rewrite Ht in Hw. cbv zeta in Hw. fold (shifted t smp0) in Hw.
        destruct (shifted t smp0 <? 0) eqn:E0; [apply Z.ltb_lt in E0; lia|]. rewrite En in Hw. injection Hw as <-.
        split; [reflexivity|]. unfold upd_track. cbn [set_tracks m_tracks]. apply map_upd_static. intros x. reflexivity. }
      destruct Em' as [Es Et].
      intros v Hv.
      assert (Hpv : pv m ti = Some v).
      { rewrite <- Hv. unfold pv. rewrite Es. destruct (nth_error (m_streams m) ti) as [s|]; [|reflexivity].
        now rewrite (buffered_samples m m' s Et). }
      assert (Ho : opened_at m' ti = opened_at m ti) by (unfold opened_at; now rewrite Es).
      destruct (HP v Hpv) as (Q1 & Q2 & Q3). unfold PPok. rewrite Ho. split; [exact Q1|]. split; [|exact Q3].
      intros t0 Ht0. destruct (Q2 t0 Ht0) as (A & x & rest & B & C). split; [exact A|].
      unfold pend_list in *. rewrite Hpend in B. rewrite Hpend'. rewrite app_nil_r in B.
      exists x, (rest ++ [incoming_of t smp0]). split; [now rewrite B|exact C].
  Qed.

  Theorem PP_other_write m tj t ra pc smp0 m' rate :
    LI m -> nth_error (m_tracks m) tj = Some t -> tk_leading t = false -> tj <> li F0 ->
    fmp4WriteSample m tj ra pc smp0 = (m', Ok tt) ->
    PP m (li F0) rate -> PP m' (li F0) rate.
  Proof.
    intros HL Ht Hlead Hne Hw HP. set (ti := li F0) in *.
    assert (HF : pv m' ti = pv m ti /\ pending m' ti = pending m ti /\ opened_at m' ti = opened_at m ti).
    { unfold fmp4WriteSample in Hw. rewrite Ht in Hw. cbv zeta in Hw.
      pose proof (li_tracks m HL tj t Ht) as Hsi. rewrite Hsi in Hw.
      destruct (_ <? 0); [injection Hw as <-; auto|].
      match type of Hw with context [upd_track m tj ?F] => set (m1 := upd_track m tj F) in * end.
      assert (R1 : pv m1 ti = pv m ti /\ pending m1 ti = pending m ti /\ opened_at m1 ti = opened_at m ti).
      { split; [|split; [|reflexivity]].
        - unfold pv. change (m_streams m1) with (m_streams m). destruct (nth_error (m_streams m) ti) as [s|] eqn:Es; [|reflexivity].
          f_equal. f_equal. apply (buffered_other _ _ s ti (li_streams m HL ti s Es)).
          subst m1. unfold upd_track. cbn [set_tracks m_tracks]. now rewrite nth_error_upd_other by exact Hne.
        - unfold pending. subst m1. unfold upd_track. cbn [set_tracks m_tracks]. now rewrite nth_error_upd_other by exact Hne. }
      assert (L1 : LI m1).
      { apply (LI_ext m); auto. subst m1. unfold upd_track. cbn [set_tracks m_tracks]. apply map_upd_static. intros x. reflexivity. }
      destruct (tk_next t) as [prev|]; [|injection Hw as <-; exact R1].
      rewrite Hlead in Hw. cbn [negb andb] in Hw.
      match type of Hw with (if negb ?c then _ else _) = _ => change c with (opened_at m1 tj) in Hw end.
      destruct (opened_at m1 tj) eqn:Eop; cbn [negb] in Hw; [|injection Hw as <-; exact R1].
      match type of Hw with context [part_writeSample ?a tj tj ?b] => destruct (part_writeSample a tj tj b) as [m4| |] eqn:Ew end;
        [|discriminate|discriminate].
      injection Hw as <-.
      pose proof (pending_of_nexts m1 m4 ti (nexts_pws _ _ _ _ _ Ew)) as Hp.
      destruct R1 as (A & B & C).
      split; [|split; [congruence|rewrite (opened_pws _ _ _ _ _ ti Ew); exact C]].
      rewrite <- A. unfold pv. rewrite (pws_other_stream _ _ _ _ _ ti Ew) by (intros E; apply Hne; now rewrite E).
      destruct (nth_error (m_streams m1) ti) as [s|] eqn:Es; [|reflexivity].
      f_equal. f_equal. apply (buffered_other _ _ s ti (li_streams m1 L1 ti s Es)).
      unfold part_writeSample in Ew.
      destruct (nth_error (m_streams m1) tj) as [sj|]; [|now injection Ew as <-].
      destruct (nth_error (m_tracks m1) tj) as [t1|]; [|now injection Ew as <-].
      destruct (st_open sj); [|now injection Ew as <-]. destruct (st_openpart sj); [|now injection Ew as <-].
      destruct (_ <? _); [discriminate|]. injection Ew as <-.
      unfold upd_stream, upd_track. cbn [set_stream set_tracks m_tracks]. now rewrite nth_error_upd_other by exact Hne. }
    destruct HF as (Hv & Hp & Ho). intros v Hv'. unfold pend_list. rewrite Hp, Ho. apply HP. congruence.
  Qed.
End PartInv.

Section PartHist.
  Variable F0 : list bool.
  Variable T0 : list (tcfg * bool * nat).
  Hypothesis HOL : OneLead F0.
  Hypothesis HLEN : length F0 = length T0.
  Hypothesis HTL : forall i b x, nth_error F0 i = Some b -> nth_error T0 i = Some x -> snd (fst x) = b.
  Variable rate : Z.
  Hypothesis HRATE : forall x, nth_error T0 (li F0) = Some x -> t_rate (fst (fst x)) = rate.

  Record PPI (m : mstate) : Prop := { ppi_st : ST F0 T0 m; ppi_pp : PP m (li F0) rate }.

  Lemma PPI_fmp4 m tj t ra pc smp0 m' :
    PPI m -> nth_error (m_tracks m) tj = Some t -> fmp4WriteSample m tj ra pc smp0 = (m', Ok tt) -> PPI m'.
  Proof.
    intros [HS HP] Ht Hw.
    assert (HS' : ST F0 T0 m') by (pose proof (ST_fmp4WriteSample F0 T0 m tj ra pc smp0 HS) as H; now rewrite Hw in H).
    constructor; [exact HS'|].
    pose proof (track_leading_flag F0 T0 HOL HLEN HTL m tj t HS Ht) as Hl.
    destruct (Nat.eqb_spec tj (li F0)) as [E|Hne].
    - subst tj.
      assert (Hr : t_rate (tk_cfg t) = rate).
      { apply (HRATE (tk_static t)). destruct HS as (_ & _ & _ & D). rewrite <- D. erewrite map_nth_error by exact Ht. reflexivity. }
      rewrite <- Hr in HP |- *. exact (PP_leading_write F0 T0 HOL m t ra pc smp0 m' HS Ht Hl Hw HP).
    - destruct HS as ((L & _) & _). exact (PP_other_write F0 m tj t ra pc smp0 m' rate L Ht Hl Hne Hw HP).
  Qed.

  Lemma PPI_write_video m tj t a m' :
    PPI m -> nth_error (m_tracks m) tj = Some t -> write_video m tj t a = (m', Ok tt) -> PPI m'.
  Proof.
    intros [HS HP] Ht. unfold write_video. cbv zeta.
    pose proof HS as ((HL & _) & _).
    set (ex := match t_kind (tk_cfg t) with H264 | H265 => true | _ => a_ra a end).
    pose proof (heads_video_params m tj t a ex) as Hh1.
    destruct (video_params_streams' m tj t a ex) as [Es1 Ef1].
    pose proof (TC_video_params (ST F0 T0) (ST_frame F0 T0) m tj t a ex HS) as S1.
    destruct (video_params m tj t a ex) as [m1 pc0]. cbn [fst] in *.
    assert (I1 : PPI m1).
    { constructor; [exact S1|]. apply (PP_ext m); auto; [now apply samples_of_frame|now apply pending_of_heads]. }
    assert (Hskip : forall mr, wok m1 = (mr, Ok tt) -> PPI mr) by (intros mr [= <-]; exact I1).
    set (m2 := set_firstRA m1 tj).
    assert (I2 : PPI m2 /\ exists t2, nth_error (m_tracks m2) tj = Some t2).
    { assert (Ef2 : map tk_frame (m_tracks m2) = map tk_frame (m_tracks m1)).
      { subst m2. unfold set_firstRA, upd_track. cbn [set_tracks m_tracks]. apply map_upd_static. intros x. reflexivity. }
      split; [constructor|].
      - subst m2. unfold set_firstRA, upd_track, set_tracks. apply ST_frame; [|exact S1].
        apply map_upd_static. intros x. reflexivity.
      - apply (PP_ext m1); [reflexivity|now apply samples_of_frame| |exact (ppi_pp _ I1)].
        apply pending_of_nexts. subst m2. unfold tk_nexts, set_firstRA, upd_track. cbn [set_tracks m_tracks].
        apply map_upd_static. intros x. reflexivity.
      - assert (A : option_map tk_frame (nth_error (m_tracks m2) tj) = option_map tk_frame (nth_error (m_tracks m) tj))
          by (rewrite <- !nth_error_map, Ef2, Ef1; reflexivity).
        rewrite Ht in A. destruct (nth_error (m_tracks m2) tj) as [t2|]; simpl in A; [eauto|discriminate]. }
    destruct I2 as (I2 & t2 & Ht2).
    assert (Hgo : forall mr, fmp4WriteSample m2 tj (a_ra a) pc0 (video_sample a) = (mr, Ok tt) -> PPI mr)
      by (intros mr Hw; eapply PPI_fmp4; eauto).
    destruct (t_kind (tk_cfg t)).
    - destruct (negb (a_ra a) && negb (a_nonidr a)); [apply Hskip|].
      destruct (negb (tk_firstRA t) && negb (a_ra a)); [apply Hskip|].
      destruct (c_variant (m_cfg m)) eqn:Ev; [exfalso; exact (li_variant m HL Ev)|apply Hgo|apply Hgo].
    - destruct (negb (tk_firstRA t) && negb (a_ra a)); [apply Hskip|apply Hgo].
    - destruct (negb (tk_firstRA t) && negb (a_ra a)); [apply Hskip|apply Hgo].
    - destruct (negb (tk_firstRA t) && negb (a_ra a)); [apply Hskip|apply Hgo].
    - destruct (negb (tk_firstRA t) && negb (a_ra a)); [apply Hskip|apply Hgo].
    - destruct (negb (tk_firstRA t) && negb (a_ra a)); [apply Hskip|apply Hgo].
  Qed.

  Lemma PPI_audio_units units : forall m tj k r srate i pts ntp m',
    PPI m -> write_audio_units m tj k r srate i pts ntp units = (m', Ok tt) -> PPI m'.
  Proof.
    induction units as [|x units IH]; intros m tj k r srate i pts ntp m' HI; cbn [write_audio_units].
    - intros [= <-]. exact HI.
    - destruct (match k with OPUS => (pts, ntp) | _ => _ end) as [upts untp].
      match goal with |- context [fmp4WriteSample m tj true false ?s] =>
        set (smp := s); destruct (fmp4WriteSample m tj true false smp) as [m1 res] eqn:Ew end.
      destruct res as [[]|e|p]; [|discriminate|discriminate].
      assert (I1 : PPI m1).
      { destruct (nth_error (m_tracks m) tj) as [t|] eqn:Ht.
        - eapply PPI_fmp4; eauto.
        - unfold fmp4WriteSample in Ew. rewrite Ht in Ew. injection Ew as <-. exact HI. }
      intros Hr. destruct k; eapply IH; eauto.
  Qed.

  Theorem PPI_mux_step m o m' : PPI m -> mux_step m o = (m', Ok tt) -> PPI m'.
  Proof.
    intros HI. destruct o as [tj a]. unfold mux_step, mux_write.
    destruct (nth_error (m_tracks m) tj) as [t|] eqn:Ht; [|intros [= <-]; exact HI].
    destruct (isVideo (t_kind (tk_cfg t))).
    - intros Hw. eapply PPI_write_video; eauto.
    - unfold write_audio. pose proof (ppi_st _ HI) as ((HL & _) & _).
      destruct (c_variant (m_cfg m)) eqn:Ev; [exfalso; exact (li_variant m HL Ev)| |];
        intros Hw; eapply PPI_audio_units; eauto.
  Qed.

  Theorem PPI_mux_run ops : forall m, PPI m -> all_ok m ops -> PPI (mux_run m ops).
  Proof.
    induction ops as [|o ops IH]; intros m HI Hok; [exact HI|]. cbn [mux_run]. destruct Hok as [Hr Hok].
    apply IH; auto. eapply PPI_mux_step; eauto. rewrite <- Hr. apply surjective_pairing.
  Qed.
End PartHist.

Definition lead_rate' (F0 : list bool) (T0 : list (tcfg * bool * nat)) : Z :=
  match nth_error T0 (li F0) with Some x => t_rate (fst (fst x)) | None => 0 end.

Theorem parts_reachable c m0 ops :
  start c = Ok m0 -> c_variant c <> MPEGTS -> all_ok m0 ops ->
  let m := mux_run m0 ops in
  forall t, nth_error (m_tracks m) (leading_index m) = Some t ->
  LI m /\ PP m (leading_index m) (t_rate (tk_cfg t)).
Proof.
  intros Hs Hv Hok. cbv zeta. intros t Ht.
  destruct (start_INV c m0 Hs Hv) as (HOL & HLEN & HTL & [HST _ _]). cbv zeta in *.
  set (F0 := map st_leading (m_streams m0)) in *. set (T0 := map tk_static (m_tracks m0)) in *.
  assert (HRATE : forall x, nth_error T0 (li F0) = Some x -> t_rate (fst (fst x)) = lead_rate' F0 T0)
    by (intros x Hx; unfold lead_rate'; now rewrite Hx).
  assert (H0 : PPI F0 T0 (lead_rate' F0 T0) m0).
  { constructor; [exact HST|]. intros v Hv0. unfold pv in Hv0.
    destruct (nth_error (m_streams m0) (li F0)) as [s|] eqn:Es; [|discriminate]. injection Hv0 as <-.
    pose proof (start_streams c m0 Hs) as ES.
    assert (EM : exists n, m_streams m0 = mk_streams (norm_cfg c) 0 (c_tracks c) false n)
      by (rewrite ES; destruct (c_variant c); [congruence|eauto|eauto]).
    destruct EM as (n & EM). pose proof (nth_error_In _ _ Es) as Hin. rewrite EM in Hin.
    destruct (mk_streams_open _ _ _ _ _ _ Hin) as (A & B & C).
    assert (Hp : all_parts s = []) by (unfold all_parts, published; now rewrite A, B, C).
    assert (Hop : op_start s = None).
    { clear - Hin. unfold op_start. revert Hin. generalize 0%nat, false.
      induction (c_tracks c) as [|t0 ts IH]; intros i ch H; [destruct H|]. cbn [mk_streams] in H.
      match type of H with context [let '(a, b) := ?x in _] => destruct x as [dflt chosen'] end.
      destruct H as [<-|H]; [reflexivity|eauto]. }
    unfold PPok. cbn [fst snd]. rewrite Hp, Hop. split; [constructor|]. split; [discriminate|reflexivity]. }
  pose proof (PPI_mux_run F0 T0 HOL HLEN HTL (lead_rate' F0 T0) HRATE ops m0 H0 Hok) as [HS HP].
  destruct (ST_lead F0 T0 HOL _ HS) as [Eli _]. rewrite Eli in *.
  pose proof HS as ((HL & _) & _ & _ & D).
  split; [exact HL|].
  assert (Hr : t_rate (tk_cfg t) = lead_rate' F0 T0).
  { apply (HRATE (tk_static t)). rewrite <- D. erewrite map_nth_error by exact Ht. reflexivity. }
  rewrite Hr. exact HP.
Qed.

(* every finalized part p of the leading stream - of an evicted, listed or the open segment - has samples x :: rest;
   in the stream's sample log followed by the look-ahead unit they are followed by a unit y (the first sample of the
   next part, the first buffered sample, or the look-ahead unit); p starts at the timestamp of x and ends at that of y *)
Theorem part_times_are_first_units c m0 ops :
  start c = Ok m0 -> c_variant c <> MPEGTS -> all_ok m0 ops ->
  let m := mux_run m0 ops in
  let li := leading_index m in
  forall s t A p B,
    nth_error (m_streams m) li = Some s -> nth_error (m_tracks m) li = Some t ->
    all_parts s = A ++ p :: B ->
    exists x rest y after,
      p_samples p = x :: rest
      /\ slog m li ++ pend_list m li = flat_map p_samples A ++ (x :: rest) ++ y :: after
      /\ p_start p = timestampToDuration (s_dts x) (t_rate (tk_cfg t))
      /\ p_end p = timestampToDuration (s_dts y) (t_rate (tk_cfg t)).
Proof.
  intros Hs Hv Hok. cbv zeta. intros s t A p B Es Et Hall.
  destruct (parts_reachable c m0 ops Hs Hv Hok t Et) as (HL & HP).
  set (m := mux_run m0 ops) in *. set (li := leading_index m) in *. set (rate := t_rate (tk_cfg t)) in *.
  assert (Hpv : pv m li = Some (all_parts s, op_start s, buffered (m_tracks m) s)) by (unfold pv; now rewrite Es).
  destruct (HP _ Hpv) as (Q1 & Q2 & Q3). cbn [fst snd] in *.
  assert (Hop : st_open s <> None).
  { intros Ho. assert (Hcl : opened_at m li = false) by (unfold opened_at; now rewrite Es, Ho).
    rewrite (Q3 Hcl) in Hall. destruct A; discriminate. }
  pose proof (li_part m HL s (nth_error_In _ _ Es) Hop) as Hpart.
  destruct (st_openpart s) as [op|] eqn:Ep; [|congruence].
  destruct (Q2 (p_start op)) as (T1 & x0 & rest0 & T2 & T3); [unfold op_start; now rewrite Ep|].
  rewrite Hall in Q1, T1. apply Forall_app in Q1. destruct Q1 as [_ Q1].
  inversion Q1 as [|? ? (x & rest & Ex & Hx) QB]; subst.
  pose proof (ptiled_split A p B _ T1) as Hend.
  rewrite (slog_all_parts m li s Es), Hall, flat_map_app'. cbn [flat_map]. rewrite Ex.
  destruct B as [|q B'].
  - exists x, rest, x0, rest0. split; [reflexivity|]. split; [|split; [exact Hx|congruence]].
    cbn [flat_map]. rewrite app_nil_r, <- !app_assoc. cbn [app]. now rewrite T2.
  - inversion QB as [|? ? (y & resty & Ey & Hy) _]; subst.
    exists x, rest, y, (resty ++ flat_map p_samples B' ++ buffered (m_tracks m) s ++ pend_list m li).
    split; [reflexivity|]. split; [|split; [exact Hx|congruence]].
    cbn [flat_map]. rewrite Ey, <- !app_assoc. reflexivity.
Qed.

(* ================================================================================================
   ... on the playlist of the leading stream (Low-Latency: parts are listed under the last two segments and,
   for the open segment, as trailing parts).
   ================================================================================================ *)
Lemma nth_split {A} (l : list A) : forall k x, nth_error l k = Some x -> l = firstn k l ++ x :: skipn (S k) l.
Proof.
  induction l as [|a l IH]; intros [|k] x H; try discriminate.
  - now injection H as ->.
  - cbn [firstn skipn app]. f_equal. now apply IH.
Qed.

Theorem part_duration_is_media_span c m0 ops :
  start c = Ok m0 -> c_variant c <> MPEGTS -> all_ok m0 ops ->
  let m := mux_run m0 ops in
  let li := leading_index m in
  forall s t pl,
    nth_error (m_streams m) li = Some s -> nth_error (m_tracks m) li = Some t -> gen_media_playlist m li = Some pl ->
    (forall i e k q, nth_error (pl_segs pl) i = Some e -> nth_error (ps_parts e) k = Some q ->
       exists g p x rest y after,
         nth_error (st_segments s) i = Some g /\ nth_error (sg_parts g) k = Some p /\ pp_id q = p_id p
         /\ p_samples p = x :: rest
         /\ slog m li ++ pend_list m li
            = flat_map p_samples (flat_map sg_parts (st_evicted s ++ firstn i (st_segments s)) ++ firstn k (sg_parts g))
              ++ (x :: rest) ++ y :: after
         /\ pp_dur q = timestampToDuration (s_dts y) (t_rate (tk_cfg t)) - timestampToDuration (s_dts x) (t_rate (tk_cfg t)))
    /\ (forall k q, nth_error (pl_trailing pl) k = Some q ->
       exists o p x rest y after,
         st_open s = Some o /\ nth_error (sg_parts o) k = Some p /\ pp_id q = p_id p
         /\ p_samples p = x :: rest
         /\ slog m li ++ pend_list m li
            = flat_map p_samples (flat_map sg_parts (published s) ++ firstn k (sg_parts o)) ++ (x :: rest) ++ y :: after
         /\ pp_dur q = timestampToDuration (s_dts y) (t_rate (tk_cfg t)) - timestampToDuration (s_dts x) (t_rate (tk_cfg t))).
Proof.
  intros Hs Hv Hok. cbv zeta. intros s t pl Es Et Hpl.
  pose proof (part_times_are_first_units c m0 ops Hs Hv Hok) as HT. cbv zeta in HT.
  unfold gen_media_playlist in Hpl. rewrite Es in Hpl.
  destruct (negb (hasContent _ s)); [discriminate|]. injection Hpl as <-. cbn [pl_segs pl_trailing].
  split.
  - intros i e k q He Hq.
    destruct (gen_segs_nth _ _ _ _ _ He) as (g & Hg & _ & _ & _ & H4).
    assert (Hne : ps_parts e <> []) by (intros E; rewrite E in Hq; destruct k; discriminate).
    destruct (H4 Hne) as (_ & _ & _ & Hparts). rewrite Hparts in Hq.
    rewrite nth_error_map in Hq. destruct (nth_error (sg_parts g) k) as [p|] eqn:Ek; [|discriminate]. injection Hq as <-.
    assert (Hall : all_parts s = (flat_map sg_parts (st_evicted s ++ firstn i (st_segments s)) ++ firstn k (sg_parts g))
                                 ++ p :: (skipn (S k) (sg_parts g) ++ flat_map sg_parts (skipn (S i) (st_segments s))
                                          ++ match st_open s with Some o => sg_parts o | None => [] end)).
    { unfold all_parts, published. rewrite (nth_split (st_segments s) i g Hg) at 1.
      rewrite !flat_map_app'. cbn [flat_map]. rewrite (nth_split (sg_parts g) k p Ek) at 1.
      rewrite <- !app_assoc. cbn [app]. reflexivity. }
    destruct (HT s t _ p _ Es Et Hall) as (x & rest & y & after & A & B & C & D).
    exists g, p, x, rest, y, after. split; [exact Hg|]. split; [exact Ek|]. split; [reflexivity|]. split; [exact A|].
    split; [exact B|]. cbn [mkplpart pp_dur]. unfold p_dur. now rewrite C, D.
  - intros k q Hq. destruct (c_variant (m_cfg (mux_run m0 ops))); try (destruct k; discriminate).
    destruct (st_open s) as [o|] eqn:Eo; [|destruct k; discriminate].
    rewrite nth_error_map in Hq. destruct (nth_error (sg_parts o) k) as [p|] eqn:Ek; [|discriminate]. injection Hq as <-.
    assert (Hall : all_parts s = (flat_map sg_parts (published s) ++ firstn k (sg_parts o)) ++ p :: skipn (S k) (sg_parts o)).
    { unfold all_parts. rewrite Eo. rewrite (nth_split (sg_parts o) k p Ek) at 1. now rewrite <- app_assoc. }
    destruct (HT s t _ p _ Es Et Hall) as (x & rest & y & after & A & B & C & D).
    exists o, p, x, rest, y, after. split; [reflexivity|]. split; [exact Ek|]. split; [reflexivity|]. split; [exact A|].
    split; [exact B|]. cbn [mkplpart pp_dur]. unfold p_dur. now rewrite C, D.
Qed.

(* ---- non-vacuity: a Low-Latency history of 100 ms frames (90 kHz), a random-access unit every tenth frame, parts of
   200 ms: the first segment is listed with five parts, the open one has two trailing parts; every part holds two
   frames, starts at the timestamp of the first one and ends at that of the frame after the second one ---- *)
Definition pt_ops : list wop :=
  map (fun k => WWrite 0 (ex_au (k * 9000) (Z.rem k 10 =? 0) (10 + k))) [0;1;2;3;4;5;6;7;8;9;10;11;12;13;14;15].

Lemma part_span_example : exists m0 s t pl,
  start ex_cfg = Ok m0 /\ c_variant ex_cfg <> MPEGTS /\ all_ok m0 pt_ops
  /\ let m := mux_run m0 pt_ops in
     let li := leading_index m in
     nth_error (m_streams m) li = Some s /\ nth_error (m_tracks m) li = Some t /\ t_rate (tk_cfg t) = 90000
     /\ gen_media_playlist m li = Some pl
     /\ map (fun e => (ps_id e, map (fun q => (pp_id q, pp_dur q)) (ps_parts e))) (skipn 6 (pl_segs pl))
        = [(7, [(0, 200000000); (1, 200000000); (2, 200000000); (3, 200000000); (4, 200000000)])]
     /\ map (fun q => (pp_id q, pp_dur q)) (pl_trailing pl) = [(5, 200000000); (6, 200000000)]
     /\ map (fun p => (p_id p, p_start p, p_end p, map s_dts (p_samples p))) (all_parts s)
        = [(0, 10000000000, 10200000000, [900000; 909000]); (1, 10200000000, 10400000000, [918000; 927000]);
           (2, 10400000000, 10600000000, [936000; 945000]); (3, 10600000000, 10800000000, [954000; 963000]);
           (4, 10800000000, 11000000000, [972000; 981000]); (5, 11000000000, 11200000000, [990000; 999000]);
           (6, 11200000000, 11400000000, [1008000; 1017000])]
     /\ (timestampToDuration 900000 90000, timestampToDuration 918000 90000) = (10000000000, 10200000000).
Proof.
  destruct (start ex_cfg) as [m0| |] eqn:E; [|vm_compute in E; discriminate|vm_compute in E; discriminate].
  vm_compute in E. injection E as <-.
  eexists. eexists. eexists. eexists.
  split; [reflexivity|]. split; [discriminate|]. split; [vm_compute; tauto|]. cbv zeta.
  split; [vm_compute; reflexivity|]. split; [vm_compute; reflexivity|]. split; [vm_compute; reflexivity|].
  split; [vm_compute; reflexivity|]. split; [vm_compute; reflexivity|]. split; [vm_compute; reflexivity|].
  split; vm_compute; reflexivity.
Qed.
