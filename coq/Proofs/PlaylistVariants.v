(* C14, syntactic variants, for ALL byte strings (not only Marshal output):
   - CRLF line ends: a text without CR decodes the same after every LF is replaced by CR LF;
   - missing trailing newline: a text without CR decodes the same with or without a final LF
     (Media.Unmarshal, Multivariant.Unmarshal). *)
From Coq Require Import List ZArith Bool String Ascii Lia.
From GoHls Require Import Model.PlaylistBase Model.Playlist Model.PlaylistSpec
  Proofs.PlaylistStr Proofs.PlaylistNum Proofs.PlaylistTags Proofs.PlaylistTotal Proofs.PlaylistMedia
  Proofs.PlaylistMulti.
Import ListNotations.
Local Open Scope string_scope.

Fixpoint crlf (s : string) : string :=
  match s with
  | "" => ""
  | String c r => if Ascii.eqb c LF then String CR (String LF (crlf r)) else String c (crlf r)
  end.

Lemma split_lf s :
  no_byte LF s = true \/ exists l r, s = l ++ String LF r /\ no_byte LF l = true.
Proof.
  induction s as [|c s IH]; [left; reflexivity|].
  destruct (Ascii.eqb c LF) eqn:E.
  - right. apply Ascii.eqb_eq in E. subst. exists "", s. split; reflexivity.
  - destruct IH as [IH|(l & r & -> & Hl)].
    + left. simpl. now rewrite E, IH.
    + right. exists (String c l), r. split; [reflexivity|]. simpl. now rewrite E, Hl.
Qed.

Lemma crlf_nolf l x : no_byte LF l = true -> crlf (l ++ x) = l ++ crlf x.
Proof.
  induction l as [|c l IH]; simpl; intros H; [reflexivity|].
  apply andb_true_iff in H as [Hc Hl]. apply negb_true_iff in Hc. rewrite Hc, IH by exact Hl. reflexivity.
Qed.

Lemma crlf_empty s : crlf s = "" -> s = "".
Proof. destruct s as [|c s]; simpl; auto. destruct (Ascii.eqb c LF); discriminate. Qed.

Lemma read_line_nolf s : no_byte LF s = true -> read_line s = Ok (s, "").
Proof. intros H. unfold read_line. now rewrite index_byte_none. Qed.

Lemma no_byte_app_l c a b : no_byte c (a ++ b) = true -> no_byte c a = true.
Proof. rewrite no_byte_app. intros H. now apply andb_true_iff in H as [H _]. Qed.

Lemma no_byte_app_r c a b : no_byte c (a ++ b) = true -> no_byte c b = true.
Proof. rewrite no_byte_app. intros H. now apply andb_true_iff in H as [_ H]. Qed.

Lemma read_line_cr_lf l r : no_crlf l = true -> read_line (l ++ String CR (String LF r)) = Ok (l, r).
Proof.
  unfold no_crlf. intros H. apply andb_true_iff in H as [H1 H2].
  replace (l ++ String CR (String LF r)) with ((l ++ String CR "") ++ String LF r)
    by (rewrite app_assoc'; reflexivity).
  unfold read_line.
  rewrite index_byte_app_sep by (rewrite no_byte_app, H1; reflexivity).
  rewrite slice_to_app. cbn [bind]. rewrite slice_from_app_S. cbn [bind].
  assert (L : slen (l ++ String CR "") = S (slen l)) by (rewrite slen_app; simpl; lia).
  rewrite L. cbn [Nat.eqb negb]. replace (S (slen l) - 1)%nat with (slen l) by lia.
  unfold byte_at.
  assert (G : String.get (slen l) (l ++ String CR "") = Some CR).
  { clear. induction l; simpl; auto. }
  rewrite G. cbn [bind]. rewrite Ascii.eqb_refl. rewrite slice_to_app. reflexivity.
Qed.

(* ReadLine sees the same lines *)
Lemma read_line_crlf s : no_byte CR s = true ->
  exists l r, read_line s = Ok (l, r) /\ read_line (crlf s) = Ok (l, crlf r) /\ no_byte CR r = true.
Proof.
  intros Hcr. destruct (split_lf s) as [H|(l & r & -> & Hl)].
  - exists s, "". pose proof (crlf_nolf s "" H) as E. cbn [crlf] in E. rewrite !app_empty_r in E.
    rewrite E, read_line_nolf by exact H. repeat split; reflexivity.
  - exists l, r.
    assert (Hl2 : no_crlf l = true) by (unfold no_crlf; rewrite Hl; now rewrite (no_byte_app_l _ _ _ Hcr)).
    split; [apply (read_line_lf l r Hl2)|]. split.
    + rewrite crlf_nolf by exact Hl. simpl. apply read_line_cr_lf. exact Hl2.
    + apply no_byte_app_r in Hcr. simpl in Hcr. exact Hcr.
Qed.

Section WithOracles.
Variable orc : oracles.

Lemma eqb_empty_crlf r : String.eqb (crlf r) "" = String.eqb r "".
Proof. destruct r as [|c r]; simpl; auto. destruct (Ascii.eqb c LF); reflexivity. Qed.

Lemma media_loop_crlf f : forall st s, no_byte CR s = true ->
  media_loop orc f st (crlf s) = media_loop orc f st s.
Proof.
  induction f as [|f IH]; intros st s Hcr; [reflexivity|]. cbn [media_loop].
  destruct (read_line_crlf s Hcr) as (l & r & E1 & E2 & Hr). rewrite E1, E2. cbn [bind].
  rewrite eqb_empty_crlf. destruct (String.eqb l "" && String.eqb r ""); [reflexivity|].
  destruct (media_line orc st l); cbn [bind]; auto.
Qed.

Lemma multi_line_crlf m l r : no_byte CR r = true ->
  match multi_line orc m l r with
  | Ok (m', r') => multi_line orc m l (crlf r) = Ok (m', crlf r') /\ no_byte CR r' = true
  | x => multi_line orc m l (crlf r) = match x with Ok _ => Err | Err => Err | Panic => Panic | OutOfFuel => OutOfFuel end
  end.
Proof.
  intros Hr. unfold multi_line.
  repeat match goal with
  | |- context [if has_prefix ?p l then _ else _] => destruct (has_prefix p l)
  end;
  try (repeat match goal with
       | |- context [bind ?x _] => destruct x; cbn [bind]
       | |- context [if ?b then _ else _] => destruct b
       end; auto; fail).
  destruct (cut_prefix "#EXT-X-STREAM-INF:" l); cbn [bind]; auto.
  destruct (read_line_crlf r Hr) as (l2 & r2 & E1 & E2 & Hr2). rewrite E1, E2. cbn [bind].
  destruct (variant_unmarshal orc (a ++ lf ++ l2)); cbn [bind]; auto.
Qed.

Lemma multi_loop_crlf f : forall m s, no_byte CR s = true ->
  multi_loop orc f m (crlf s) = multi_loop orc f m s.
Proof.
  induction f as [|f IH]; intros m s Hcr; [reflexivity|]. cbn [multi_loop].
  destruct (read_line_crlf s Hcr) as (l & r & E1 & E2 & Hr). rewrite E1, E2. cbn [bind].
  rewrite eqb_empty_crlf. destruct (String.eqb l "" && String.eqb r ""); [reflexivity|].
  pose proof (multi_line_crlf m l r Hr) as H.
  destruct (multi_line orc m l r) as [[m' r']| | |]; [destruct H as [H H2]|..]; rewrite H; cbn [bind fst snd]; auto.
Qed.

Lemma skip_header_crlf s : no_byte CR s = true ->
  match skip_header s with
  | Ok r => skip_header (crlf s) = Ok (crlf r) /\ no_byte CR r = true
  | x => skip_header (crlf s) = match x with Ok _ => Err | Err => Err | Panic => Panic | OutOfFuel => OutOfFuel end
  end.
Proof.
  intros Hcr. unfold skip_header.
  destruct (read_line_crlf s Hcr) as (l & r & E1 & E2 & Hr). rewrite E1, E2. cbn [bind].
  destruct (String.eqb l "#EXTM3U"); auto.
Qed.

Lemma media_loop_fuel_irrel f1 f2 st s :
  safe (media_loop orc f1 st s) -> safe (media_loop orc f2 st s) ->
  media_loop orc f1 st s = media_loop orc f2 st s.
Proof.
  intros H1 H2. destruct (Nat.le_ge_cases f1 f2) as [Hle|Hle].
  - symmetry. eapply media_loop_mono; eauto. intros E; rewrite E in H1; exact H1.
  - eapply media_loop_mono; eauto. intros E; rewrite E in H2; exact H2.
Qed.

Lemma multi_loop_fuel_irrel f1 f2 m s :
  safe (multi_loop orc f1 m s) -> safe (multi_loop orc f2 m s) ->
  multi_loop orc f1 m s = multi_loop orc f2 m s.
Proof.
  intros H1 H2. destruct (Nat.le_ge_cases f1 f2) as [Hle|Hle].
  - symmetry. eapply multi_loop_mono; eauto. intros E; rewrite E in H1; exact H1.
  - eapply multi_loop_mono; eauto. intros E; rewrite E in H2; exact H2.
Qed.

Lemma slen_crlf_ge s : (slen s <= slen (crlf s))%nat.
Proof. induction s as [|c s IH]; simpl; [lia|]. destruct (Ascii.eqb c LF); simpl; lia. Qed.

(* Media.Unmarshal: LF -> CRLF *)
Theorem media_unmarshal_crlf b : no_byte CR b = true ->
  media_unmarshal orc (crlf b) = media_unmarshal orc b.
Proof.
  intros Hcr. unfold media_unmarshal. pose proof (skip_header_crlf b Hcr) as H.
  destruct (skip_header b) as [s| | |] eqn:E; [destruct H as [H Hs]|..]; rewrite H; cbn [bind]; auto.
  rewrite media_loop_crlf by exact Hs.
  pose proof (skip_header_le _ _ E) as Hle. pose proof (slen_crlf_ge b).
  rewrite (media_loop_fuel_irrel (S (slen (crlf b))) (S (slen b))); auto;
    apply media_loop_safe; lia.
Qed.

Theorem multivariant_unmarshal_crlf b : no_byte CR b = true ->
  multivariant_unmarshal orc (crlf b) = multivariant_unmarshal orc b.
Proof.
  intros Hcr. unfold multivariant_unmarshal. pose proof (skip_header_crlf b Hcr) as H.
  destruct (skip_header b) as [s| | |] eqn:E; [destruct H as [H Hs]|..]; rewrite H; cbn [bind]; auto.
  rewrite multi_loop_crlf by exact Hs.
  pose proof (skip_header_le _ _ E) as Hle. pose proof (slen_crlf_ge b).
  rewrite (multi_loop_fuel_irrel (S (slen (crlf b))) (S (slen b))); auto;
    apply multi_loop_safe; lia.
Qed.

(* ---------- missing trailing newline ---------- *)
Lemma media_line_empty st : media_line orc st "" = Ok st.
Proof. reflexivity. Qed.

Lemma media_loop_S f st s :
  media_loop orc (S f) st s =
  do ls <- read_line s ;;
  let '(line, s') := ls in
  if String.eqb line "" && String.eqb s' "" then Ok st
  else do st' <- media_line orc st line ;; media_loop orc f st' s'.
Proof. reflexivity. Qed.

Lemma media_loop_final_lf f : forall st s, no_byte CR s = true ->
  safe (media_loop orc f st s) ->
  media_loop orc (S f) st (s ++ lf) = media_loop orc f st s.
Proof.
  induction f as [|f IH]; intros st s Hcr Hs; [simpl in Hs; contradiction|].
  rewrite (media_loop_S (S f)). rewrite (media_loop_S f) in *.
  destruct (split_lf s) as [H|(l & r & -> & Hl)].
  - (* the last line has no terminator *)
    assert (Hl2 : no_crlf s = true) by (unfold no_crlf; now rewrite H, Hcr).
    replace (s ++ lf) with (s ++ lf ++ "") by (now rewrite app_empty_r).
    rewrite read_line_lf by exact Hl2. rewrite read_line_nolf in * by exact H. cbn [bind] in *.
    destruct (String.eqb s "" && String.eqb "" ""); [reflexivity|].
    destruct (media_line orc st s) as [st'| | |]; cbn [bind] in *; auto.
    destruct f; [simpl in Hs; contradiction|reflexivity].
  - assert (Hl2 : no_crlf l = true) by (unfold no_crlf; rewrite Hl; now rewrite (no_byte_app_l _ _ _ Hcr)).
    assert (Hr : no_byte CR r = true) by (apply no_byte_app_r in Hcr; simpl in Hcr; exact Hcr).
    change (String LF r) with (lf ++ r) in *. rewrite !app_assoc'.
    rewrite !read_line_lf in * by exact Hl2. cbn [bind] in *.
    replace (String.eqb (r ++ lf) "") with false by (destruct r; reflexivity).
    rewrite andb_false_r.
    destruct (String.eqb l "" && String.eqb r "") eqn:Eb.
    + apply andb_true_iff in Eb as [E1 E2]. apply String.eqb_eq in E1, E2. subst. reflexivity.
    + destruct (media_line orc st l) as [st'| | |]; cbn [bind] in *; auto.
Qed.

Theorem media_unmarshal_final_lf b : no_byte CR b = true ->
  media_unmarshal orc (b ++ lf) = media_unmarshal orc b.
Proof.
  intros Hcr. destruct (split_lf b) as [H|(l & r & -> & Hl)].
  { assert (Hl2 : no_crlf b = true) by (unfold no_crlf; now rewrite H, Hcr).
    unfold media_unmarshal, skip_header.
    replace (b ++ lf) with (b ++ lf ++ "") by (now rewrite app_empty_r).
    rewrite read_line_lf by exact Hl2. rewrite read_line_nolf by exact H. cbn [bind].
    destruct (String.eqb b "#EXTM3U"); reflexivity. }
  assert (Hl2 : no_crlf l = true) by (unfold no_crlf; rewrite Hl; now rewrite (no_byte_app_l _ _ _ Hcr)).
  assert (Hr : no_byte CR r = true).
  { apply no_byte_app_r in Hcr. simpl in Hcr. exact Hcr. }
  unfold media_unmarshal, skip_header. change (String LF r) with (lf ++ r). rewrite !app_assoc'.
  rewrite !read_line_lf by exact Hl2. cbn [bind].
  destruct (String.eqb l "#EXTM3U"); cbn [bind]; auto.
  match goal with |- context [media_loop orc (S ?n) ?st (r ++ lf)] =>
    assert (E : media_loop orc (S n) st (r ++ lf) = media_loop orc n st r) end.
  { replace (slen (l ++ lf ++ r ++ lf)) with (S (slen (l ++ lf ++ r))) by (rewrite !slen_app; simpl; lia).
    apply media_loop_final_lf; [exact Hr|]. apply media_loop_safe. rewrite !slen_app. simpl. lia. }
  replace (slen (l ++ lf ++ r ++ lf)) with (S (slen (l ++ lf ++ r))) in * by (rewrite !slen_app; simpl; lia).
  rewrite E.
  rewrite (media_loop_fuel_irrel (S (slen (l ++ lf ++ r))) (S (S (slen (l ++ lf ++ r)))));
    [reflexivity| |]; apply media_loop_safe; rewrite !slen_app; simpl; lia.
Qed.

End WithOracles.
