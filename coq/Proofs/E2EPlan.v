(* C09 - what a Client pointed at a Muxer reports in OnTracks ([client_plan], Model/E2E.v):
   - MPEG-TS: for every configuration Start accepts (proof by induction over the track list);
   - fMP4 variants: the specification [expected_plan] written from the property text, compared with
     the composition of the three models on a completely enumerated family of configurations (every
     track list of 1..3 tracks over the six codecs with at most one video track, every placement of
     the DEFAULT mark, both variants; AV1 and VP9 included since fix 8f9d4a5), by vm_compute; the unbounded statements about the individual
     steps (variant selection, which streams are opened, attributes copied) are in Proofs/E2E.v. *)
From Coq Require Import List ZArith Bool String Lia Arith.
From GoHls Require Model.Mux Model.ClientContent.
From GoHls Require Import Model.E2E Proofs.E2E.
Import ListNotations.
Local Open Scope Z_scope.

(* ================================================================ MPEG-TS *)
Definition ts_track (t : Mux.tcfg) : ctrack :=
  {| ct_kind := Some (gkind (Mux.t_kind t)); ct_rate := 90000; ct_name := -1; ct_lang := 0; ct_default := false |}.

Lemma mk_tracks_cfg c ts : forall i, map Mux.tk_cfg (Mux.mk_tracks c i ts) = ts.
Proof. induction ts as [|t ts IH]; intros i; [reflexivity|]. cbn [Mux.mk_tracks map Mux.tk_cfg]. now rewrite IH. Qed.

Lemma mpegts_tracks_of c ts : forall i,
  forallb (fun t => match Mux.t_kind t with Mux.H264 | Mux.AAC => true | _ => false end) ts = true ->
  flat_map (fun t => match ClientContent.FromMPEGTS (ToMPEGTS (Mux.t_kind (Mux.tk_cfg t))) with
                     | Some g => [{| ct_kind := Some g; ct_rate := 90000; ct_name := -1; ct_lang := 0;
                                     ct_default := false |}]
                     | None => []
                     end) (Mux.mk_tracks c i ts)
  = map ts_track ts.
Proof.
  induction ts as [|t ts IH]; intros i H; [reflexivity|].
  cbn [forallb] in H. apply andb_true_iff in H. destruct H as [Hk H].
  cbn [Mux.mk_tracks flat_map map Mux.tk_cfg]. rewrite (IH (S i) H).
  rewrite FromMPEGTS_ToMPEGTS. unfold ts_track. destruct (Mux.t_kind t); try discriminate; reflexivity.
Qed.

(* A Client pointed at (the index or the media playlist of) an MPEG-TS Muxer reports the muxer's
   tracks in order: same codec type, 90 kHz, no rendition attributes (the muxer advertises none) *)
Lemma plan_mpegts c m index target :
  Mux.start c = Mux.Ok m -> Mux.c_variant c = Mux.MPEGTS ->
  client_plan c index target = PTracks (map ts_track (Mux.c_tracks c)).
Proof.
  intros Hs Hv. unfold client_plan. rewrite Hs.
  unfold Mux.start in Hs. destruct (negb (Mux.start_ok (Mux.norm_cfg c))) eqn:Eok; [discriminate|].
  injection Hs as <-. cbn [Mux.m_cfg Mux.norm_cfg Mux.c_variant]. rewrite Hv.
  unfold mpegts_stream_tracks. cbn [Mux.m_tracks Mux.norm_cfg Mux.c_tracks].
  f_equal. apply mpegts_tracks_of.
  apply negb_false_iff in Eok. unfold Mux.start_ok in Eok. cbn [Mux.norm_cfg Mux.c_variant Mux.c_tracks] in Eok.
  rewrite Hv in Eok. repeat (apply andb_true_iff in Eok; destruct Eok as [Eok ?]).
  repeat match goal with H : _ && _ = true |- _ => apply andb_true_iff in H; destruct H end.
  assumption.
Qed.

(* ================================================================ fMP4 variants: specification *)
(* From the property text: the leading track (first video, else the first track) first, then the other
   tracks in order; codec type and clock rate (= the codec's fMP4 time scale) of the muxer's track; for
   every track the muxer advertises as an audio rendition - every track but a video track, and but the
   only track of a single-track muxer - the advertised name (0 = the stream id), language and DEFAULT
   flag (the marked track; when none is marked, the first rendition). *)
Definition spec_leading (ts : list Mux.tcfg) : nat :=
  let fix go (i : nat) (l : list Mux.tcfg) :=
    match l with
    | [] => O
    | t :: l' => if Mux.isVideo (Mux.t_kind t) then i else go (S i) l'
    end in
  go O ts.

Definition spec_is_rendition (ts : list Mux.tcfg) (t : Mux.tcfg) : bool :=
  negb (Mux.isVideo (Mux.t_kind t)) && Nat.ltb 1 (List.length ts).

Definition spec_first_rendition (ts : list Mux.tcfg) : option nat :=
  let fix go (i : nat) (l : list Mux.tcfg) :=
    match l with
    | [] => None
    | t :: l' => if spec_is_rendition ts t then Some i else go (S i) l'
    end in
  go O ts.

Definition spec_default (ts : list Mux.tcfg) (i : nat) (t : Mux.tcfg) : bool :=
  if existsb (fun t => negb (Mux.isVideo (Mux.t_kind t)) && Mux.t_default t) ts then Mux.t_default t
  else match spec_first_rendition ts with Some j => Nat.eqb i j | None => false end.

Definition spec_track (ts : list Mux.tcfg) (i : nat) (t : Mux.tcfg) : ctrack :=
  if spec_is_rendition ts t
  then {| ct_kind := Some (gkind (Mux.t_kind t)); ct_rate := Mux.fmp4TimeScale t;
          ct_name := Mux.t_name t; ct_lang := Mux.t_lang t; ct_default := spec_default ts i t |}
  else {| ct_kind := Some (gkind (Mux.t_kind t)); ct_rate := Mux.fmp4TimeScale t;
          ct_name := -1; ct_lang := 0; ct_default := false |}.

Fixpoint enum_from {A} (i : nat) (l : list A) : list (nat * A) :=
  match l with [] => [] | x :: r => (i, x) :: enum_from (S i) r end.

Definition expected_plan (ts : list Mux.tcfg) : plan :=
  let li := spec_leading ts in
  let ix := enum_from 0 ts in
  PTracks (map (fun x => spec_track ts (fst x) (snd x))
               (filter (fun x => Nat.eqb (fst x) li) ix ++ filter (fun x => negb (Nat.eqb (fst x) li)) ix)).

Definition ctrack_eqb (a b : ctrack) : bool :=
  match ct_kind a, ct_kind b with
  | Some x, Some y => match x, y with
                      | ClientContent.GAV1, ClientContent.GAV1 | ClientContent.GVP9, ClientContent.GVP9
                      | ClientContent.GH265, ClientContent.GH265 | ClientContent.GH264, ClientContent.GH264
                      | ClientContent.GOpus, ClientContent.GOpus
                      | ClientContent.GMPEG4Audio, ClientContent.GMPEG4Audio => true
                      | _, _ => false
                      end
  | None, None => true
  | _, _ => false
  end && Z.eqb (ct_rate a) (ct_rate b) && Z.eqb (ct_name a) (ct_name b) && Z.eqb (ct_lang a) (ct_lang b)
  && Bool.eqb (ct_default a) (ct_default b).

Fixpoint ctracks_eqb (a b : list ctrack) : bool :=
  match a, b with
  | [], [] => true
  | x :: a', y :: b' => ctrack_eqb x y && ctracks_eqb a' b'
  | _, _ => false
  end.

Definition plan_eqb (a b : plan) : bool :=
  match a, b with
  | PNoStart, PNoStart | PNoVariant, PNoVariant | POther, POther => true
  | PTracks x, PTracks y => ctracks_eqb x y
  | _, _ => false
  end.

Lemma ctrack_eqb_eq a b : ctrack_eqb a b = true -> a = b.
Proof.
  destruct a as [ka ra na la da], b as [kb rb nb lb db]. unfold ctrack_eqb. cbn [ct_kind ct_rate ct_name ct_lang ct_default].
  intros H. apply andb_true_iff in H. destruct H as [H Hd]. apply andb_true_iff in H. destruct H as [H Hl].
  apply andb_true_iff in H. destruct H as [H Hn]. apply andb_true_iff in H. destruct H as [H Hr].
  apply Z.eqb_eq in Hr, Hn, Hl. apply eqb_prop in Hd. subst.
  f_equal. destruct ka as [x|], kb as [y|]; try discriminate; [|reflexivity].
  destruct x, y; try discriminate; reflexivity.
Qed.

Lemma ctracks_eqb_eq a : forall b, ctracks_eqb a b = true -> a = b.
Proof.
  induction a as [|x a IH]; intros [|y b] H; try discriminate; [reflexivity|].
  cbn in H. apply andb_true_iff in H. destruct H as [H1 H2]. f_equal; [now apply ctrack_eqb_eq|now apply IH].
Qed.

Lemma plan_eqb_eq a b : plan_eqb a b = true -> a = b.
Proof. destruct a, b; cbn; intros H; try discriminate; try reflexivity. f_equal. now apply ctracks_eqb_eq. Qed.

(* ================================================================ the enumerated family *)
Definition all_kinds : list Mux.ckind := [Mux.H264; Mux.H265; Mux.VP9; Mux.AV1; Mux.AAC; Mux.OPUS].

Definition kind_lists : list (list Mux.ckind) :=
  let l1 := map (fun a => [a]) all_kinds in
  let l2 := flat_map (fun a => map (fun b => [a; b]) all_kinds) all_kinds in
  let l3 := flat_map (fun a => flat_map (fun b => map (fun c => [a; b; c]) all_kinds) all_kinds) all_kinds in
  filter (fun l => Nat.leb (List.length (filter Mux.isVideo l)) 1) (l1 ++ l2 ++ l3).

Definition rate_of (k : Mux.ckind) : Z := match k with Mux.AAC => 44100 | Mux.OPUS => 48000 | _ => 90000 end.

(* track i gets name i+1 and language i+1 (so that any permutation or mix-up shows); the DEFAULT mark sits
   on position d (none when d is past the end or on a video track) *)
Definition mk_tcfgs (ks : list Mux.ckind) (d : nat) : list Mux.tcfg :=
  map (fun x => {| Mux.t_kind := snd x; Mux.t_rate := rate_of (snd x); Mux.t_srate := rate_of (snd x);
                   Mux.t_name := Z.of_nat (fst x) + 1; Mux.t_lang := Z.of_nat (fst x) + 1;
                   Mux.t_default := Nat.eqb (fst x) d && negb (Mux.isVideo (snd x));
                   Mux.t_params0 := 0 |}) (enum_from 0 ks).

Definition family : list (Mux.variant * list Mux.tcfg) :=
  flat_map (fun v => flat_map (fun ks => map (fun d => (v, mk_tcfgs ks d)) [0%nat; 1%nat; 2%nat; 3%nat]) kind_lists)
           [Mux.FMP4; Mux.LL].

Definition cfg_of (x : Mux.variant * list Mux.tcfg) : Mux.cfg :=
  {| Mux.c_variant := fst x; Mux.c_tracks := snd x; Mux.c_segcount := 0; Mux.c_segmin := 0;
     Mux.c_partmin := 0; Mux.c_segmax := 0 |}.

Definition family_ok (x : Mux.variant * list Mux.tcfg) : bool :=
  plan_eqb (client_plan (cfg_of x) true 0) (expected_plan (snd x)).

(* the only disagreement between the composition of the models and the specification: a muxer whose
   leading track is itself advertised as a rendition (audio only, two or more tracks) *)
Definition leading_is_rendition (ts : list Mux.tcfg) : bool :=
  forallb (fun t => negb (Mux.isVideo (Mux.t_kind t))) ts && Nat.ltb 1 (List.length ts).

Lemma family_size : List.length family = 656%nat.
Proof. vm_compute. reflexivity. Qed.

Lemma family_checked :
  forallb (fun x => if leading_is_rendition (snd x) then negb (family_ok x) else family_ok x) family = true.
Proof. vm_compute. reflexivity. Qed.

Lemma family_partial x :
  In x family -> leading_is_rendition (snd x) = false ->
  client_plan (cfg_of x) true 0 = expected_plan (snd x).
Proof.
  intros Hin Hl. pose proof family_checked as H. rewrite forallb_forall in H.
  specialize (H x Hin). rewrite Hl in H. now apply plan_eqb_eq.
Qed.

Lemma family_refuted x :
  In x family -> leading_is_rendition (snd x) = true ->
  client_plan (cfg_of x) true 0 <> expected_plan (snd x).
Proof.
  intros Hin Hl E. pose proof family_checked as H. rewrite forallb_forall in H.
  specialize (H x Hin). rewrite Hl in H. unfold family_ok in H. rewrite E in H.
  assert (R : forall p, plan_eqb p p = true).
  { intros [| | |l]; try reflexivity. cbn. induction l as [|t l IH]; [reflexivity|]. cbn. rewrite IH, andb_true_r.
    destruct t as [k r n la d]. unfold ctrack_eqb. cbn. rewrite !Z.eqb_refl, eqb_reflx, !andb_true_r.
    destruct k as [g|]; [destruct g|]; reflexivity. }
  rewrite R in H. discriminate.
Qed.

(* witnesses *)
Definition cfg_av1 : Mux.cfg := cfg_of (Mux.FMP4, mk_tcfgs [Mux.AV1] 9).
Definition cfg_vp9_ll : Mux.cfg := cfg_of (Mux.LL, mk_tcfgs [Mux.VP9; Mux.AAC] 9).
Definition cfg_two_audio : Mux.cfg := cfg_of (Mux.FMP4, mk_tcfgs [Mux.AAC; Mux.OPUS] 9).
Definition cfg_h264_aac_opus : Mux.cfg := cfg_of (Mux.FMP4, mk_tcfgs [Mux.AAC; Mux.H264; Mux.OPUS] 2).

(* since fix 8f9d4a5 (finding F10) AV1 and VP9 muxers are played through index.m3u8 like the others *)
Lemma av1_vp9_plans :
  client_plan cfg_av1 true 0
  = PTracks [{| ct_kind := Some ClientContent.GAV1; ct_rate := 90000; ct_name := -1; ct_lang := 0; ct_default := false |}]
  /\ client_plan cfg_av1 false 0 = client_plan cfg_av1 true 0
  /\ client_plan cfg_vp9_ll true 0
    = PTracks [{| ct_kind := Some ClientContent.GVP9; ct_rate := 90000; ct_name := -1; ct_lang := 0; ct_default := false |};
               {| ct_kind := Some ClientContent.GMPEG4Audio; ct_rate := 44100; ct_name := 2; ct_lang := 2; ct_default := true |}].
Proof. repeat split; vm_compute; reflexivity. Qed.

(* audio only, two tracks: the first is the leading stream AND advertised as the default rendition
   "name 1" / "language 1"; the client reports it without any of that, and no track is the default one *)
Lemma two_audio_attrs :
  exists m s,
    Mux.start cfg_two_audio = Mux.Ok m /\ nth_error (Mux.m_streams m) 0 = Some s /\
    Mux.st_leading s = true /\ advertised_attrs s = Some (1, 1, true) /\
    client_plan cfg_two_audio true 0
    = PTracks [{| ct_kind := Some ClientContent.GMPEG4Audio; ct_rate := 44100; ct_name := -1; ct_lang := 0; ct_default := false |};
               {| ct_kind := Some ClientContent.GOpus; ct_rate := 48000; ct_name := 2; ct_lang := 2; ct_default := false |}].
Proof. do 2 eexists. repeat split; vm_compute; reflexivity. Qed.

Lemma h264_aac_opus_plan :
  client_plan cfg_h264_aac_opus true 0
  = PTracks [{| ct_kind := Some ClientContent.GH264; ct_rate := 90000; ct_name := -1; ct_lang := 0; ct_default := false |};
             {| ct_kind := Some ClientContent.GMPEG4Audio; ct_rate := 44100; ct_name := 1; ct_lang := 1; ct_default := false |};
             {| ct_kind := Some ClientContent.GOpus; ct_rate := 48000; ct_name := 3; ct_lang := 3; ct_default := true |}].
Proof. vm_compute. reflexivity. Qed.
