(* The macro items of the tie's schedules are ordinary schedules of the model: whatever
   the theorems say about every schedule holds for the runs the tie evaluates. *)
From Coq Require Import List ZArith Bool String.
From GoHls Require Import Lib.MuxSched Model.MuxConcSeq Model.MuxConcPar Tie.MuxConcTie.
Import ListNotations.

Lemma srun_is_run : forall f c i, exists k, srun f c i = crun c (repeat (TR i) k).
Proof.
  induction f as [|f IH]; intros c i; simpl.
  - exists 0%nat. reflexivity.
  - assert (G : exists k, srun f (step c (TR i)) i = crun c (repeat (TR i) k)).
    { destruct (IH (step c (TR i)) i) as [k Hk]. exists (S k). rewrite Hk. reflexivity. }
    destruct (req_pc c i) as [pc|]; [|exists 0%nat; reflexivity].
    destruct pc; try exact G; try (exists 0%nat; reflexivity);
      (destruct (c_owner c); [exists 0%nat; reflexivity|exact G]).
Qed.

Lemma sitem_run_is_run : forall c s, exists sched, sitem_run c s = crun c sched.
Proof.
  intros c [n|i|i]; unfold sitem_run.
  - eexists; reflexivity.
  - exists [TR i]. reflexivity.
  - destruct (srun_is_run 12 c i) as [k Hk]. eexists; exact Hk.
Qed.

Theorem tie_schedule_is_schedule : forall items c,
  exists sched, fold_left sitem_run items c = crun c sched.
Proof.
  induction items as [|s r IH]; intros c; cbn [fold_left].
  - exists []. reflexivity.
  - destruct (sitem_run_is_run c s) as [s1 H1]. destruct (IH (sitem_run c s)) as [s2 H2].
    exists (s1 ++ s2). rewrite H2, H1. unfold crun. rewrite run_app. reflexivity.
Qed.
