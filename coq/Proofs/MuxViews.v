(* C08, atomic / monotone views instantiated with the executable muxer model (Model/Mux.v).
   The writer's critical sections are the model's write operations; readers are interleaved at any
   point between them. Whatever a generator computes under the mutex (C08's table check
   c08_generate_under_mutex) is then the generator applied to ONE state reachable from Start by a
   prefix of the write history, and one requester's successive responses come from states of which
   the later is reached from the earlier by further writes - so they are related, stream by stream,
   by the history relation R of Proofs/MuxHistory.v (published list append-only, evictions only at the
   head with MEDIA-SEQUENCE counting them, segment and part counters never decreasing). *)
From Coq Require Import List ZArith Bool Lia Arith Sorted.
From GoHls Require Import Model.Mux Model.LocksetAtomic Proofs.LocksetAtomicProofs Proofs.MuxStream Proofs.MuxLift
  Proofs.MuxWindow Proofs.MuxHistory.
Import ListNotations.

Inductive ev := EWrite (o : wop) | ERead (requester : nat).

Fixpoint steps_of (m : mstate) (evs : list ev) : list (step mstate) :=
  match evs with
  | [] => []
  | EWrite o :: rest => let m' := fst (mux_step m o) in WStep m' :: steps_of m' rest
  | ERead r :: rest => @RGen mstate r :: steps_of m rest
  end.

Fixpoint writes (evs : list ev) : list wop :=
  match evs with
  | [] => []
  | EWrite o :: rest => o :: writes rest
  | ERead _ :: rest => writes rest
  end.

Lemma history_from_nth evs : forall m k s,
  nth_error (history_from mstate (steps_of m evs)) k = Some s -> s = mux_run m (firstn (S k) (writes evs)).
Proof.
  induction evs as [|[o|r] evs IH]; intros m k s H; cbn [steps_of history_from writes] in *.
  - destruct k; discriminate.
  - destruct k as [|k]; cbn [nth_error] in H.
    + injection H as <-. cbn [firstn mux_run]. destruct (writes evs); reflexivity.
    + apply IH in H. rewrite H. reflexivity.
  - now apply IH.
Qed.

Lemma history_nth m evs n s :
  nth_error (history mstate m (steps_of m evs)) n = Some s -> s = mux_run m (firstn n (writes evs)).
Proof.
  unfold history. destruct n as [|k]; cbn [nth_error].
  - intros [= <-]. reflexivity.
  - apply history_from_nth.
Qed.

Lemma firstn_plus {A} (l : list A) : forall i k, firstn (i + k) l = firstn i l ++ firstn k (skipn i l).
Proof.
  induction l as [|x l IH]; intros [|i] k; cbn [firstn skipn Nat.add app]; try reflexivity.
  - now destruct k.
  - now rewrite IH.
Qed.

Section Views.
  Variable Rsp : Type.
  Variable gen : mstate -> Rsp.

  (* every response is the generator applied to the state reached by a prefix of the write history *)
  Theorem muxer_view_reachable m0 evs r n resp :
    In (r, n, resp) (responses mstate Rsp gen m0 (steps_of m0 evs)) ->
    resp = gen (mux_run m0 (firstn n (writes evs))).
  Proof.
    intros Hin. destruct (atomic_view mstate Rsp gen m0 _ r n resp Hin) as (s & Hs & ->).
    now rewrite (history_nth m0 evs n s Hs).
  Qed.

  (* two successive responses to one requester: the later state is reached from the earlier one by more writes *)
  Theorem muxer_views_in_order m0 evs r l1 e1 e2 l2 :
    of_requester Rsp r (responses mstate Rsp gen m0 (steps_of m0 evs)) = l1 ++ e1 :: e2 :: l2 ->
    exists ops1 ops2, snd e1 = gen (mux_run m0 ops1) /\ snd e2 = gen (mux_run m0 (ops1 ++ ops2)).
  Proof.
    apply (monotone_view_relation mstate Rsp gen
             (fun a b => exists ops1 ops2, a = gen (mux_run m0 ops1) /\ b = gen (mux_run m0 (ops1 ++ ops2)))).
    intros i j si sj Hij Hi Hj.
    apply history_nth in Hi. apply history_nth in Hj. subst si sj.
    exists (firstn i (writes evs)), (firstn (j - i) (skipn i (writes evs))). split; [reflexivity|].
    f_equal. f_equal.
    replace j with (i + (j - i))%nat at 1 by lia. apply firstn_plus.
  Qed.
End Views.

(* instantiated with the streams themselves: successive observations of one requester are related by R *)
Theorem muxer_views_monotone m0 evs r l1 e1 e2 l2 :
  of_requester _ r (responses mstate _ m_streams m0 (steps_of m0 evs)) = l1 ++ e1 :: e2 :: l2 ->
  Forall2 R (snd e1) (snd e2).
Proof.
  intros H. destruct (muxer_views_in_order _ m_streams m0 evs r l1 e1 e2 l2 H) as (ops1 & ops2 & -> & ->).
  rewrite mux_run_app. apply history_monotone.
Qed.

(* non-vacuity: two writes with three reads of requester 7 around them *)
Example views_example : forall m0 o1 o2,
  map (fun e => snd (fst e)) (of_requester _ 7 (responses mstate _ m_streams m0
        (steps_of m0 [ERead 7; EWrite o1; ERead 7; ERead 3; EWrite o2; ERead 7]))) = [0; 1; 2]%nat.
Proof. reflexivity. Qed.
