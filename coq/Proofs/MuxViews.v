(* C08, atomic / monotone views instantiated with the executable muxer model (Model/Mux.v).
   The writer's critical sections are the model's write operations; readers are interleaved at any
   point between them. Whatever a generator computes under the mutex (C08's table check
   c08_generate_under_mutex) is then the generator applied to ONE state reachable from Start by a
   prefix of the write history, and one requester's successive responses come from states of which
   the later is reached from the earlier by further writes - so they are related, stream by stream,
   by the history relation R of Proofs/MuxHistory.v (published list append-only, evictions only at the
   head with MEDIA-SEQUENCE counting them, segment and part counters never decreasing). *)
From Coq Require Import List ZArith Bool Lia Arith Sorted.
From GoHls Require Import Model.Mux Model.LocksetAtomic Proofs.LocksetAtomicProofs Proofs.MuxStream Proofs.MuxLift
  Proofs.MuxWindow Proofs.MuxHistory.
Import ListNotations.

Inductive ev := EWrite (o : wop) | ERead (requester : nat).

Fixpoint steps_of (m : mstate) (evs : list ev) : list (step mstate) :=
  match evs with
  | [] => []
  | EWrite o :: rest => let m' := fst (mux_step m o) in WStep m' :: steps_of m' rest
  | ERead r :: rest => @RGen mstate r :: steps_of m rest
  end.

Fixpoint writes (evs : list ev) : list wop :=
  match evs with
  | [] => []
  | EWrite o :: rest => o :: writes rest
  | ERead _ :: rest => writes rest
  end.

Lemma history_from_nth evs : forall m k s,
  nth_error (history_from mstate (steps_of m evs)) k = Some s -> s = mux_run m (firstn (S k) (writes evs)).
Proof.
  induction evs as [|[o|r] evs IH]; intros m k s H; cbn [steps_of history_from writes] in *.
  - destruct k; discriminate.
  - destruct k as [|k]; cbn [nth_error] in H.
    + injection H as <-. cbn [firstn mux_run]. destruct (writes evs); reflexivity.
    + apply IH in H. rewrite H. reflexivity.
  - now apply IH.
Qed.

Lemma history_nth m evs n s :
  nth_error (history mstate m (steps_of m evs)) n = Some s -> s = mux_run m (firstn n (writes evs)).
Proof.
  unfold history. destruct n as [|k]; cbn [nth_error].
  - intros [= <-]. reflexivity.
  - apply history_from_nth.
Qed.

Lemma firstn_plus {A} (l : list A) : forall i k, firstn (i + k) l = firstn i l ++ firstn k (skipn i l).
Proof.
  induction l as [|x l IH]; intros [|i] k; cbn [firstn skipn Nat.add app]; try reflexivity.
  - now destruct k.
  - now rewrite IH.
Qed.

Section Views.
  Variable Rsp : Type.
  Variable gen : mstate -> Rsp.

  (* every response is the generator applied to the state reached by a prefix of the write history *)
  Theorem muxer_view_reachable m0 evs r n resp :
    In (r, n, resp) (responses mstate Rsp gen m0 (steps_of m0 evs)) ->
    resp = gen (mux_run m0 (firstn n (writes evs))).
  Proof.
    intros Hin. destruct (atomic_view mstate Rsp gen m0 _ r n resp Hin) as (s & Hs & ->).
    now rewrite (history_nth m0 evs n s Hs).
  Qed.

  (* two successive responses to one requester: the later state is reached from the earlier one by more writes *)
  Theorem muxer_views_in_order m0 evs r l1 e1 e2 l2 :
    of_requester Rsp r (responses mstate Rsp gen m0 (steps_of m0 evs)) = l1 ++ e1 :: e2 :: l2 ->
    exists ops1 ops2, snd e1 = gen (mux_run m0 ops1) /\ snd e2 = gen (mux_run m0 (ops1 ++ ops2)).
  Proof.
    apply (monotone_view_relation mstate Rsp gen
             (fun a b => exists ops1 ops2, a = gen (mux_run m0 ops1) /\ b = gen (mux_run m0 (ops1 ++ ops2)))).
    intros i j si sj Hij Hi Hj.
    apply history_nth in Hi. apply history_nth in Hj. subst si sj.
    exists (firstn i (writes evs)), (firstn (j - i) (skipn i (writes evs))). split; [reflexivity|].
    f_equal. f_equal.
    replace j with (i + (j - i))%nat at 1 by lia. apply firstn_plus.
  Qed.
End Views.

(* instantiated with the streams themselves: successive observations of one requester are related by R *)
Theorem muxer_views_monotone m0 evs r l1 e1 e2 l2 :
  of_requester _ r (responses mstate _ m_streams m0 (steps_of m0 evs)) = l1 ++ e1 :: e2 :: l2 ->
  Forall2 R (snd e1) (snd e2).
Proof.
  intros H. destruct (muxer_views_in_order _ m_streams m0 evs r l1 e1 e2 l2 H) as (ops1 & ops2 & -> & ->).
  rewrite mux_run_app. apply history_monotone.
Qed.

(* non-vacuity: two writes with three reads of requester 7 around them *)
Example views_example : forall m0 o1 o2,
  map (fun e => snd (fst e)) (of_requester _ 7 (responses mstate _ m_streams m0
        (steps_of m0 [ERead 7; EWrite o1; ERead 7; ERead 3; EWrite o2; ERead 7]))) = [0; 1; 2]%nat.
Proof. reflexivity. Qed.

(* ---- instantiated with the media playlist generator: what one client sees on successive requests ---- *)
Lemma Forall2_nth_both {A} (Q : A -> A -> Prop) l l' : Forall2 Q l l' ->
  forall i x y, nth_error l i = Some x -> nth_error l' i = Some y -> Q x y.
Proof.
  induction 1 as [|a b l l' Hab _ IH]; intros [|i] x y Hx Hy; cbn [nth_error] in *; try discriminate.
  - injection Hx as <-. injection Hy as <-. exact Hab.
  - eapply IH; eauto.
Qed.

Theorem muxer_playlists_monotone si m0 evs r l1 e1 e2 l2 p1 p2 :
  of_requester _ r (responses mstate _ (fun m => gen_media_playlist m si) m0 (steps_of m0 evs)) = l1 ++ e1 :: e2 :: l2 ->
  snd e1 = Some p1 -> snd e2 = Some p2 ->
  (pl_msn p1 <= pl_msn p2)%Z
  /\ (forall h1 h2, pl_hint p1 = Some h1 -> pl_hint p2 = Some h2 -> (h1 <= h2)%Z).
Proof.
  intros H E1 E2.
  destruct (muxer_views_in_order _ (fun m => gen_media_playlist m si) m0 evs r l1 e1 e2 l2 H) as (ops1 & ops2 & G1 & G2).
  rewrite E1 in G1. rewrite E2 in G2. rewrite mux_run_app in G2.
  set (m1 := mux_run m0 ops1) in *. set (m2 := mux_run m1 ops2) in *.
  pose proof (history_monotone m1 ops2) as HR. fold m2 in HR.
  unfold gen_media_playlist in G1, G2.
  destruct (nth_error (m_streams m1) si) as [s1|] eqn:N1; [|discriminate].
  destruct (nth_error (m_streams m2) si) as [s2|] eqn:N2; [|discriminate].
  pose proof (Forall2_nth_both R _ _ HR si s1 s2 N1 N2) as [_ (dr & _ & Hd) _ Hnp _].
  destruct (negb (hasContent (c_variant (m_cfg m1)) s1)); [discriminate|].
  destruct (negb (hasContent (c_variant (m_cfg m2)) s2)); [discriminate|].
  injection G1 as ->. injection G2 as ->. cbn [pl_msn pl_hint]. split; [lia|].
  intros h1 h2 A B.
  destruct (c_variant (m_cfg m1)); try discriminate. destruct (c_variant (m_cfg m2)); try discriminate.
  injection A as <-. injection B as <-. exact Hnp.
Qed.

(* ---- two successive responses to one client ARE two moments of one write history: every two-moment theorem of
   C04 (Proofs/MuxPlaylist.v, Section TwoMoments, and Props/C04.v) applies to what a client sees under a concurrent
   writer ---- *)
Theorem muxer_views_two_moments (Rsp : Type) (gen : mstate -> Rsp) c m0 evs r l1 e1 e2 l2 :
  start c = Ok m0 ->
  of_requester Rsp r (responses mstate Rsp gen m0 (steps_of m0 evs)) = l1 ++ e1 :: e2 :: l2 ->
  exists ops1 ops2 m1 m2,
    (exists m00, start c = Ok m00 /\ m1 = mux_run m00 ops1) /\ m2 = mux_run m1 ops2
    /\ snd e1 = gen m1 /\ snd e2 = gen m2.
Proof.
  intros Hs H. destruct (muxer_views_in_order Rsp gen m0 evs r l1 e1 e2 l2 H) as (ops1 & ops2 & G1 & G2).
  exists ops1, ops2, (mux_run m0 ops1), (mux_run (mux_run m0 ops1) ops2).
  split; [eauto|]. split; [reflexivity|]. split; [exact G1|]. now rewrite <- mux_run_app.
Qed.
