(* M5 - theorems about runTraditional / runLowLatency / run for ALL histories
   (induction over the history). Specification predicates are defined here; Props/C11.v only
   restates the theorems. *)
From Coq Require Import List ZArith String Bool Lia.
From GoHls Require Import Model.ClientSel Proofs.ClientSelFill.
Import ListNotations.
Local Open Scope Z_scope.

(* ---------- list helpers ---------- *)
Lemma skipn_cons_nth {A} : forall n (l : list A) x r,
  skipn n l = x :: r -> nth_error l n = Some x /\ skipn (S n) l = r.
Proof.
  induction n as [|n IH]; intros l x r H.
  - destruct l; cbn in H; [discriminate|]. injection H as -> ->. split; reflexivity.
  - destruct l as [|y l]; cbn in H; [discriminate|]. apply IH in H. exact H.
Qed.

Lemma skipn_nil_nth {A} : forall n (l : list A), skipn n l = [] -> nth_error l n = None.
Proof.
  induction n as [|n IH]; intros l H.
  - destruct l; cbn in H; [reflexivity|discriminate].
  - destruct l as [|y l]; [reflexivity|]. cbn in H. apply IH in H. exact H.
Qed.

Lemma firstn_In {A} : forall n (l : list A) x, In x (firstn n l) -> In x l.
Proof.
  induction n as [|n IH]; intros l x H; [contradiction|].
  destruct l as [|y l]; [contradiction|]. cbn in H. destruct H as [->|H]; [left; reflexivity|right; auto].
Qed.

Lemma app_split_pred {A} (P : A -> bool) : forall pre l l1 e l2,
  Forall (fun x => P x = false) pre -> P e = true ->
  pre ++ l = l1 ++ e :: l2 ->
  exists l1', l1 = pre ++ l1' /\ l = l1' ++ e :: l2.
Proof.
  induction pre as [|x pre IH]; intros l l1 e l2 Hp He H.
  - exists l1. split; [reflexivity|exact H].
  - inversion Hp as [|? ? Hx Hp']; subst.
    destruct l1 as [|y l1]; cbn in H.
    + injection H as -> _. congruence.
    + injection H as -> H. destruct (IH _ _ _ _ Hp' He H) as [l1' [-> ->]].
      exists l1'. split; reflexivity.
Qed.

(* ---------- specification vocabulary ---------- *)

(* the position of a playlist in the history: pl is the answer to poll k, rest the later answers *)
Definition at_poll (h : list playlist) (k : nat) (pl : playlist) (rest : list playlist) : Prop :=
  nth_error h k = Some pl /\ skipn (S k) h = rest.

Lemma at_poll_next h k pl pl' rest' : at_poll h k pl (pl' :: rest') -> at_poll h (S k) pl' rest'.
Proof. intros [_ H]. apply skipn_cons_nth in H. exact H. Qed.

Lemma at_poll_end h k pl : at_poll h k pl [] -> nth_error h (S k) = None.
Proof. intros [_ H]. apply skipn_nil_nth. exact H. Qed.

Lemma at_poll_0 fp rest : at_poll (fp :: rest) 0 fp rest.
Proof. split; reflexivity. Qed.

(* EvSegment k pos m seg is truthful: seg is the entry at position pos of the playlist served at
   poll k, and m is that entry's media sequence number *)
Definition truthful (h : list playlist) (k : nat) (pos m : Z) (seg : segment) : Prop :=
  exists pl, nth_error h k = Some pl /\ 0 <= pos < len (Segments pl) /\
             m = MediaSequence pl + pos /\ nth_error (Segments pl) (Z.to_nat pos) = Some seg.

(* the request log of traditional mode from poll k on, the next expected MSN being m:
   segment m from poll k, ONE playlist request, segment m+1 from poll k+1, ... *)
Inductive trad_trace (h : list playlist) : nat -> Z -> list event -> Prop :=
| tt_nil k m : trad_trace h k m []
| tt_last k m pos seg : truthful h k pos m seg -> trad_trace h k m [EvSegment k pos m seg]
| tt_step k m pos seg l :
    truthful h k pos m seg -> trad_trace h (S k) (m + 1) l ->
    trad_trace h k m (EvSegment k pos m seg :: EvPlaylist (S k) false :: l).

(* low-latency mode from poll k on: hint of playlist k, ONE playlist request, hint of k+1, ... *)
Inductive ll_trace (h : list playlist) (skip : bool) : nat -> list event -> Prop :=
| lt_nil k : ll_trace h skip k []
| lt_step k pl ph l :
    nth_error h k = Some pl -> PreloadHint pl = Some ph -> ll_trace h skip (S k) l ->
    ll_trace h skip k (EvHint k ph :: EvPlaylist (S k) skip :: l).

Fixpoint zseq (m : Z) (n : nat) : list Z :=
  match n with O => [] | S n' => m :: zseq (m + 1) n' end.

Lemma zseq_lt : forall n m x, In x (zseq m n) -> m <= x.
Proof.
  induction n as [|n IH]; intros m x H; cbn in H; [contradiction|].
  destruct H as [<-|H]; [lia|]. apply IH in H. lia.
Qed.

Lemma zseq_NoDup : forall n m, NoDup (zseq m n).
Proof.
  induction n as [|n IH]; intros m; cbn; constructor.
  - intros H. apply zseq_lt in H. lia.
  - apply IH.
Qed.

Lemma trad_trace_msns h : forall k m l,
  trad_trace h k m l ->
  map ev_msn (seg_events l) = zseq m (List.length (seg_events l)).
Proof.
  intros k m l H. induction H as [| |k m pos seg l Ht H IH]; cbn; try reflexivity.
  f_equal. exact IH.
Qed.

Lemma trad_trace_truthful h : forall k m l,
  trad_trace h k m l ->
  forall k' pos m' seg, In (EvSegment k' pos m' seg) l -> truthful h k' pos m' seg.
Proof.
  intros k m l H. induction H as [| |k m pos seg l Ht H IH]; intros k' pos' m' seg' Hin.
  - contradiction.
  - destruct Hin as [E|[]]. injection E as <- <- <- <-. assumption.
  - destruct Hin as [E|[E|Hin]]; [injection E as <- <- <- <-; assumption|discriminate|eauto].
Qed.

Lemma trad_trace_no_skip h : forall k m l,
  trad_trace h k m l -> forall k' s, In (EvPlaylist k' s) l -> s = false /\ (k < k')%nat.
Proof.
  intros k m l H. induction H as [| |k m pos seg l Ht H IH]; intros k' s Hin.
  - contradiction.
  - destruct Hin as [E|[]]. discriminate.
  - destruct Hin as [E|[E|Hin]]; [discriminate|injection E as <- <-; split; [reflexivity|lia]|].
    apply IH in Hin. destruct Hin; split; [assumption|lia].
Qed.

Lemma tt_seg_at h : forall k0 m l,
  trad_trace h k0 m l ->
  forall j p x sg, In (EvSegment j p x sg) l -> (k0 <= j)%nat /\ x = m + Z.of_nat (j - k0).
Proof.
  intros k0 m l H. induction H as [| |k0 m pos seg l Ht H IH]; intros j p x sg Hin.
  - contradiction.
  - destruct Hin as [E|[]]. injection E as <- _ <- _. split; [lia|]. rewrite Nat.sub_diag. cbn. lia.
  - destruct Hin as [E|[E|Hin]]; [|discriminate|].
    + injection E as <- _ <- _. split; [lia|]. rewrite Nat.sub_diag. cbn. lia.
    + apply IH in Hin. destruct Hin as [Hj ->]. split; [lia|]. lia.
Qed.

Lemma tt_pl_prev h : forall k0 m l,
  trad_trace h k0 m l ->
  forall k' s, In (EvPlaylist k' s) l ->
  (k0 < k')%nat /\ exists p sg, In (EvSegment (k' - 1) p (m + Z.of_nat (k' - 1 - k0)) sg) l.
Proof.
  intros k0 m l H. induction H as [| |k0 m pos seg l Ht H IH]; intros k' s Hin.
  - contradiction.
  - destruct Hin as [E|[]]. discriminate.
  - destruct Hin as [E|[E|Hin]]; [discriminate| |].
    + injection E as <- _. split; [lia|]. exists pos, seg. left.
      replace (S k0 - 1)%nat with k0 by lia. rewrite Nat.sub_diag. cbn. f_equal. lia.
    + apply IH in Hin. destruct Hin as [Hk [p [sg Hin]]]. split; [lia|]. exists p, sg. right. right.
      replace (m + Z.of_nat (k' - 1 - k0)) with (m + 1 + Z.of_nat (k' - 1 - S k0)) by lia. exact Hin.
Qed.

Lemma in_window_not_ended v pl :
  MediaSequence pl <= v + 1 < MediaSequence pl + len (Segments pl) ->
  Endlist pl && (v + 1 =? MediaSequence pl + len (Segments pl)) = false.
Proof.
  intros H. destruct (v + 1 =? MediaSequence pl + len (Segments pl)) eqn:E; [lia|apply andb_false_r].
Qed.

Lemma ll_trace_no_segment h skip : forall k l,
  ll_trace h skip k l -> forall k' pos m seg, ~ In (EvSegment k' pos m seg) l.
Proof.
  intros k l H. induction H as [|k pl ph l _ _ _ IH]; intros k' pos m seg Hin; [contradiction|].
  destruct Hin as [E|[E|Hin]]; [discriminate|discriminate|eapply IH; eauto].
Qed.

Lemma trad_trace_no_hint h : forall k m l,
  trad_trace h k m l -> forall k' ph, ~ In (EvHint k' ph) l.
Proof.
  intros k m l H. induction H as [| |k m pos seg l _ _ IH]; intros k' ph Hin.
  - contradiction.
  - destruct Hin as [E|[]]. discriminate.
  - destruct Hin as [E|[E|Hin]]; [discriminate|discriminate|eapply IH; eauto].
Qed.

Section Run.
  Variable resolve : string -> string -> option string.
  Variable with_skip : string -> string.
  Variable purl : string.

  Notation runT := (runTraditional resolve purl).
  Notation runL := (runLowLatency resolve purl).
  Notation res := (resolves resolve purl).

  (* ================= traditional mode ================= *)

  Lemma trad_inv fp k cur pl rest log o :
    runT fp k cur pl rest = (log, o) ->
    (fillSegmentQueue fp cur pl = FillEnd /\ log = [] /\ o = OEOS) \/
    (exists e, fillSegmentQueue fp cur pl = FillErr e /\ log = [] /\ o = e) \/
    (exists v pos seg, fillSegmentQueue fp cur pl = FillOk v pos seg /\ res (sg_uri seg) = false /\
                       log = [] /\ o = OErrResolve) \/
    (exists v pos seg, fillSegmentQueue fp cur pl = FillOk v pos seg /\ res (sg_uri seg) = true /\
       ((Endlist pl = true /\ pos = len (Segments pl) - 1 /\ log = [EvSegment k pos v seg] /\ o = OEOS) \/
        (~ (Endlist pl = true /\ pos = len (Segments pl) - 1) /\ rest = [] /\
         log = [EvSegment k pos v seg; EvPlaylist (S k) false] /\ o = OServerGone) \/
        (~ (Endlist pl = true /\ pos = len (Segments pl) - 1) /\
         exists pl' rest' l', rest = pl' :: rest' /\ runT fp (S k) (Some v) pl' rest' = (l', o) /\
                              log = EvSegment k pos v seg :: EvPlaylist (S k) false :: l'))).
  Proof.
    intros H.
    assert (runT fp k cur pl rest =
      match fillSegmentQueue fp cur pl with
      | FillErr o => ([], o)
      | FillPanic => ([], OPanic)
      | FillEnd => ([], OEOS)
      | FillOk v segPos seg =>
          if negb (res (sg_uri seg)) then ([], OErrResolve)
          else match sentinel pl segPos with
               | None => ([EvSegment k segPos v seg], OPanic)
               | Some true => ([EvSegment k segPos v seg], OEOS)
               | Some false =>
                   match rest with
                   | [] => ([EvSegment k segPos v seg; EvPlaylist (S k) false], OServerGone)
                   | pl' :: rest' =>
                       let '(l, o) := runT fp (S k) (Some v) pl' rest' in
                       (EvSegment k segPos v seg :: EvPlaylist (S k) false :: l, o)
                   end
               end
      end) as E by (destruct rest; reflexivity).
    rewrite E in H. clear E.
    destruct (fillSegmentQueue fp cur pl) as [e| | |v pos seg] eqn:Hf.
    - injection H as <- <-. right. left. eauto.
    - exfalso. exact (fill_no_panic _ _ _ Hf).
    - injection H as <- <-. left. auto.
    - right. right. destruct (res (sg_uri seg)) eqn:Hr; cbn [negb] in H.
      2:{ injection H as <- <-. left. exists v, pos, seg. auto. }
      right. exists v, pos, seg. split; [reflexivity|]. split; [exact Hr|].
      pose proof (fill_ok_inv _ _ _ _ _ _ Hf) as [Hb _].
      rewrite sentinel_spec in H by exact Hb.
      destruct (Endlist pl) eqn:He; cbn [andb] in H.
      + destruct (pos =? len (Segments pl) - 1) eqn:Hp.
        * injection H as <- <-. left. repeat split; auto. lia.
        * right. assert (~ (true = true /\ pos = len (Segments pl) - 1)) as Hn by (intros [_ Hx]; lia).
          destruct rest as [|pl' rest'].
          -- injection H as <- <-. left. auto.
          -- right. split; [exact Hn|]. destruct (runT fp (S k) (Some v) pl' rest') as [l' o'] eqn:Hrec.
             injection H as <- <-. exists pl', rest', l'. auto.
      + right. assert (~ (false = true /\ pos = len (Segments pl) - 1)) as Hn by (intros [Hx _]; discriminate).
        destruct rest as [|pl' rest'].
        * injection H as <- <-. left. auto.
        * right. split; [exact Hn|]. destruct (runT fp (S k) (Some v) pl' rest') as [l' o'] eqn:Hrec.
          injection H as <- <-. exists pl', rest', l'. auto.
  Qed.

  Lemma fill_truthful h fp k cur pl rest v pos seg :
    at_poll h k pl rest -> fillSegmentQueue fp cur pl = FillOk v pos seg -> truthful h k pos v seg.
  Proof.
    intros [Hn _] Hf. destruct (fill_ok_inv _ _ _ _ _ _ Hf) as [Hb [Hs [Hv _]]].
    exists pl. auto.
  Qed.

  (* shape of the log: consecutive MSNs, one playlist request between two segment requests,
     every segment request truthful *)
  Lemma trad_shape h fp : forall rest k cur pl log o m,
    at_poll h k pl rest ->
    runT fp k cur pl rest = (log, o) ->
    (forall v pos seg, fillSegmentQueue fp cur pl = FillOk v pos seg -> v = m) ->
    trad_trace h k m log.
  Proof.
    induction rest as [|pl1 rest IH]; intros k cur pl log o m Hat Hrun Hm;
      apply trad_inv in Hrun;
      (destruct Hrun as [[_ [-> _]]|Hrun]; [apply tt_nil|]);
      destruct Hrun as [[e [Hf [-> ->]]]|[[v [pos [seg [Hf [Hr [-> ->]]]]]]|[v [pos [seg [Hf [Hr Hc]]]]]]];
      try apply tt_nil;
      pose proof (Hm _ _ _ Hf) as <-;
      pose proof (fill_truthful _ _ _ _ _ _ _ _ _ Hat Hf) as Ht;
      destruct Hc as [[_ [_ [-> ->]]]|[[_ [_ [-> ->]]]|[_ [pl' [rest' [l' [Hrest [Hrec ->]]]]]]]];
      try (apply tt_last; exact Ht);
      try (apply tt_step; [exact Ht|apply tt_nil]);
      try discriminate.
    injection Hrest as <- <-.
    apply tt_step; [exact Ht|].
    apply (IH (S k) (Some v) pl1 l' o (v + 1)); [eapply at_poll_next; exact Hat|exact Hrec|].
    intros v' pos' seg' Hf'. apply fill_ok_inv in Hf'. lia.
  Qed.

  (* what follows a segment request, as a function of the next poll's answer *)
  Definition follows (h : list playlist) (fp : playlist) (k : nat) (pos m : Z) (l2 : list event) (o : outcome) : Prop :=
    exists pl, nth_error h k = Some pl /\
    ((Endlist pl = true /\ pos = len (Segments pl) - 1 /\ l2 = [] /\ o = OEOS) \/
     (~ (Endlist pl = true /\ pos = len (Segments pl) - 1) /\
      match nth_error h (S k) with
      | None => l2 = [EvPlaylist (S k) false] /\ o = OServerGone
      | Some pl' =>
          if Endlist pl' && (m + 1 =? MediaSequence pl' + len (Segments pl'))
          then l2 = [EvPlaylist (S k) false] /\ o = OEOS   (* ENDLIST, and m was its last segment *)
          else
          if (m + 1 <? MediaSequence pl') || (MediaSequence pl' + len (Segments pl') <=? m + 1)
          then l2 = [EvPlaylist (S k) false] /\ o = OErrNext
          else if negb (Endlist pl') &&
                  (clientLiveMaxDistanceFromEnd <? MediaSequence pl' + len (Segments pl') - (m + 1))
          then l2 = [EvPlaylist (S k) false] /\ o = OErrTooLate
          else exists seg', nth_error (Segments pl') (Z.to_nat (m + 1 - MediaSequence pl')) = Some seg' /\
               if res (sg_uri seg')
               then exists l3, l2 = EvPlaylist (S k) false ::
                                    EvSegment (S k) (m + 1 - MediaSequence pl') (m + 1) seg' :: l3
               else l2 = [EvPlaylist (S k) false] /\ o = OErrResolve
      end)).

  Lemma trad_head_nonempty fp k v pl' rest' l' o :
    runT fp k (Some v) pl' rest' = (l', o) ->
    (l' = [] /\
     ((o = OEOS /\ ended_after v pl') \/
      (o = OErrNext /\ (v + 1 < MediaSequence pl' \/ MediaSequence pl' + len (Segments pl') <= v + 1) /\
       ~ ended_after v pl') \/
      (o = OErrTooLate /\ MediaSequence pl' <= v + 1 < MediaSequence pl' + len (Segments pl') /\
       Endlist pl' = false /\ clientLiveMaxDistanceFromEnd < MediaSequence pl' + len (Segments pl') - (v + 1)) \/
      (o = OErrResolve /\ exists seg', fillSegmentQueue fp (Some v) pl' = FillOk (v + 1) (v + 1 - MediaSequence pl') seg' /\
                                       res (sg_uri seg') = false))) \/
    (exists seg' l3, fillSegmentQueue fp (Some v) pl' = FillOk (v + 1) (v + 1 - MediaSequence pl') seg' /\
                     res (sg_uri seg') = true /\
                     l' = EvSegment k (v + 1 - MediaSequence pl') (v + 1) seg' :: l3).
  Proof.
    intros Hrun. apply trad_inv in Hrun.
    destruct Hrun as [[Hfe [-> ->]]|Hrun].
    { left. split; [reflexivity|]. left. split; [reflexivity|].
      apply fill_end_inv in Hfe. destruct Hfe as [c [E Hea]]. injection E as <-. exact Hea. }
    destruct Hrun as [[e [Hf [-> ->]]]|[[v' [pos [seg [Hf [Hr [-> ->]]]]]]|[v' [pos [seg [Hf [Hr Hc]]]]]]].
    - left. split; [reflexivity|]. right. apply fill_err_inv in Hf. destruct Hf as [[-> H]|[-> H]]; auto.
    - left. split; [reflexivity|]. right. right. right. split; [reflexivity|].
      pose proof (fill_ok_inv _ _ _ _ _ _ Hf) as [Hb [Hs [Hv [Hc _]]]].
      assert (pos = v + 1 - MediaSequence pl') as -> by lia.
      assert (v' = v + 1) as -> by lia. eauto.
    - right. pose proof (fill_ok_inv _ _ _ _ _ _ Hf) as [Hb [Hs [Hv [Hc' _]]]].
      assert (pos = v + 1 - MediaSequence pl') as -> by lia.
      assert (v' = v + 1) as -> by lia.
      destruct Hc as [[_ [_ [-> _]]]|[[_ [_ [-> _]]]|[_ [pl2 [rest2 [l2 [_ [_ ->]]]]]]]]; eauto.
  Qed.

  Lemma trad_follows h fp : forall rest k0 cur pl0 log o l1 k pos m seg l2,
    at_poll h k0 pl0 rest ->
    runT fp k0 cur pl0 rest = (log, o) ->
    log = l1 ++ EvSegment k pos m seg :: l2 ->
    follows h fp k pos m l2 o.
  Proof.
    induction rest as [|pl1 rest IH]; intros k0 cur pl0 log o l1 k pos m seg l2 Hat Hrun Hlog;
      pose proof Hrun as Hrun0; apply trad_inv in Hrun;
      (destruct Hrun as [[_ [-> _]]|Hrun]; [destruct l1; discriminate|]);
      destruct Hrun as [[e [Hf [-> ->]]]|[[v [pos0 [seg0 [Hf [Hr [-> ->]]]]]]|[v [pos0 [seg0 [Hf [Hr Hc]]]]]]];
      try (destruct l1; discriminate).
    - (* rest = [] *)
      destruct Hc as [[He [Hp [-> ->]]]|[[Hn [_ [-> ->]]]|[_ [pl' [rest' [l' [Hrest _]]]]]]]; try discriminate.
      + destruct l1 as [|x l1]; [|destruct l1; discriminate].
        injection Hlog as <- <- <- <- <-. exists pl0. split; [apply Hat|]. left. auto.
      + destruct l1 as [|x l1].
        * injection Hlog as <- <- <- <- <-. exists pl0. split; [apply Hat|]. right. split; [exact Hn|].
          rewrite (at_poll_end _ _ _ Hat). auto.
        * destruct l1 as [|y l1]; [discriminate|]. destruct l1; discriminate.
    - (* rest = pl1 :: rest *)
      destruct Hc as [[He [Hp [-> ->]]]|[[Hn [Hx _]]|[Hn [pl' [rest' [l' [Hrest [Hrec ->]]]]]]]]; try discriminate.
      + destruct l1 as [|x l1]; [|destruct l1; discriminate].
        injection Hlog as <- <- <- <- <-. exists pl0. split; [apply Hat|]. left. auto.
      + injection Hrest as <- <-.
        pose proof (at_poll_next _ _ _ _ _ Hat) as Hat'.
        destruct l1 as [|x l1].
        * injection Hlog as <- <- <- <- <-. exists pl0. split; [apply Hat|]. right. split; [exact Hn|].
          destruct Hat' as [Hn1 _]. rewrite Hn1.
          destruct (trad_head_nonempty _ _ _ _ _ _ _ Hrec) as [[-> Hcase]|[seg' [l3 [Hf' [Hr' ->]]]]].
          -- destruct Hcase as [[-> Hea]|[[-> [Hw Hnea]]|[[-> [Hw [He' Hd]]]|[-> [seg' [Hf' Hr']]]]]].
             ++ rewrite (ended_after_b _ _ Hea). auto.
             ++ rewrite (not_ended_after_b _ _ Hnea).
                assert ((v + 1 <? MediaSequence pl1) || (MediaSequence pl1 + len (Segments pl1) <=? v + 1) = true) as ->.
                { destruct (v + 1 <? MediaSequence pl1) eqn:E1; [reflexivity|].
                  destruct (MediaSequence pl1 + len (Segments pl1) <=? v + 1) eqn:E2; [reflexivity|lia]. }
                auto.
             ++ rewrite (in_window_not_ended _ _ Hw).
                assert ((v + 1 <? MediaSequence pl1) || (MediaSequence pl1 + len (Segments pl1) <=? v + 1) = false) as ->.
                { destruct (v + 1 <? MediaSequence pl1) eqn:E1; [lia|].
                  destruct (MediaSequence pl1 + len (Segments pl1) <=? v + 1) eqn:E2; [lia|reflexivity]. }
                rewrite He'. cbn [negb andb].
                destruct (clientLiveMaxDistanceFromEnd <? MediaSequence pl1 + len (Segments pl1) - (v + 1)) eqn:E; [auto|lia].
             ++ pose proof (fill_ok_inv _ _ _ _ _ _ Hf') as [Hb [Hs [_ [_ Hd]]]].
                rewrite in_window_not_ended by lia.
                assert ((v + 1 <? MediaSequence pl1) || (MediaSequence pl1 + len (Segments pl1) <=? v + 1) = false) as ->.
                { destruct (v + 1 <? MediaSequence pl1) eqn:E1; [lia|].
                  destruct (MediaSequence pl1 + len (Segments pl1) <=? v + 1) eqn:E2; [lia|reflexivity]. }
                assert (negb (Endlist pl1) && (clientLiveMaxDistanceFromEnd <? MediaSequence pl1 + len (Segments pl1) - (v + 1)) = false) as ->.
                { destruct Hd as [->|Hd]; [reflexivity|].
                  destruct (clientLiveMaxDistanceFromEnd <? MediaSequence pl1 + len (Segments pl1) - (v + 1)) eqn:E; [lia|].
                  apply andb_false_r. }
                exists seg'. split; [exact Hs|]. rewrite Hr'. auto.
          -- pose proof (fill_ok_inv _ _ _ _ _ _ Hf') as [Hb [Hs [_ [_ Hd]]]].
             rewrite in_window_not_ended by lia.
             assert ((v + 1 <? MediaSequence pl1) || (MediaSequence pl1 + len (Segments pl1) <=? v + 1) = false) as ->.
             { destruct (v + 1 <? MediaSequence pl1) eqn:E1; [lia|].
               destruct (MediaSequence pl1 + len (Segments pl1) <=? v + 1) eqn:E2; [lia|reflexivity]. }
             assert (negb (Endlist pl1) && (clientLiveMaxDistanceFromEnd <? MediaSequence pl1 + len (Segments pl1) - (v + 1)) = false) as ->.
             { destruct Hd as [->|Hd]; [reflexivity|].
               destruct (clientLiveMaxDistanceFromEnd <? MediaSequence pl1 + len (Segments pl1) - (v + 1)) eqn:E; [lia|].
               apply andb_false_r. }
             exists seg'. split; [exact Hs|]. rewrite Hr'. eauto.
        * injection Hlog as _ Hlog. destruct l1 as [|y l1]; [discriminate|].
          injection Hlog as _ Hlog.
          exact (IH _ _ _ _ _ _ _ _ _ _ _ Hat' Hrec Hlog).
  Qed.

  Lemma trad_no_panic fp : forall rest k cur pl log o,
    runT fp k cur pl rest = (log, o) -> o <> OPanic.
  Proof.
    induction rest as [|pl1 rest IH]; intros k cur pl log o Hrun;
      apply trad_inv in Hrun;
      (destruct Hrun as [[_ [_ ->]]|Hrun]; [discriminate|]);
      destruct Hrun as [[e [Hf [-> ->]]]|[[v [pos0 [seg0 [Hf [Hr [-> ->]]]]]]|[v [pos0 [seg0 [Hf [Hr Hc]]]]]]];
      try discriminate;
      try (apply fill_err_inv in Hf; destruct cur; destruct Hf as [[-> _]|[-> _]]; discriminate);
      destruct Hc as [[_ [_ [_ ->]]]|[[_ [_ [_ ->]]]|[_ [pl' [rest' [l' [Hrest [Hrec _]]]]]]]]; try discriminate.
    injection Hrest as <- <-. eauto.
  Qed.

  (* every event of the log has a wire form (its URI resolved) *)
  Lemma trad_wire fp : forall rest k cur pl log o,
    runT fp k cur pl rest = (log, o) ->
    forall e, In e log -> exists w, wire resolve with_skip purl e = Some w.
  Proof.
    induction rest as [|pl1 rest IH]; intros k cur pl log o Hrun;
      apply trad_inv in Hrun;
      (destruct Hrun as [[_ [-> _]]|Hrun]; [intros ? []|]);
      destruct Hrun as [[e [Hf [-> ->]]]|[[v [pos0 [seg0 [Hf [Hr [-> ->]]]]]]|[v [pos0 [seg0 [Hf [Hr Hc]]]]]]];
      try (intros ? []);
      assert (exists w, wire resolve with_skip purl (EvSegment k pos0 v seg0) = Some w) as Hw
        by (cbn [wire]; unfold mk; unfold resolves in Hr; destruct (resolve purl (sg_uri seg0)); [eauto|discriminate]);
      destruct Hc as [[_ [_ [-> _]]]|[[_ [_ [-> _]]]|[_ [pl' [rest' [l' [Hrest [Hrec ->]]]]]]]];
      intros e Hin; cbn [In] in Hin.
    all: try (destruct Hin as [<-|Hin]; [exact Hw|]).
    all: try (destruct Hin as [<-|Hin]; [cbn [wire]; eauto|]).
    all: try contradiction.
    all: try discriminate.
    injection Hrest as <- <-. eauto.
  Qed.

  (* ================= low-latency mode ================= *)

  Lemma ll_inv fp k pl rest log o :
    runL fp k pl rest = (log, o) ->
    (PreloadHint pl = None /\ log = [] /\ o = OPanic) \/
    (exists ph, PreloadHint pl = Some ph /\ res (ph_uri ph) = false /\ log = [] /\ o = OErrResolve) \/
    (exists ph, PreloadHint pl = Some ph /\ res (ph_uri ph) = true /\
       ((ServerControl fp = None /\ log = [EvHint k ph] /\ o = OPanic) \/
        (exists sc, ServerControl fp = Some sc /\
           ((rest = [] /\ log = [EvHint k ph; EvPlaylist (S k) (sc_canSkipUntil sc)] /\ o = OServerGone) \/
            (exists pl' rest', rest = pl' :: rest' /\ PreloadHint pl' = None /\
                               log = [EvHint k ph; EvPlaylist (S k) (sc_canSkipUntil sc)] /\ o = OErrHintGone) \/
            (exists pl' rest' l', rest = pl' :: rest' /\ PreloadHint pl' <> None /\
                                  runL fp (S k) pl' rest' = (l', o) /\
                                  log = EvHint k ph :: EvPlaylist (S k) (sc_canSkipUntil sc) :: l'))))).
  Proof.
    intros H.
    assert (runL fp k pl rest =
      match PreloadHint pl with
      | None => ([], OPanic)
      | Some ph =>
          if negb (res (ph_uri ph)) then ([], OErrResolve)
          else match ServerControl fp with
               | None => ([EvHint k ph], OPanic)
               | Some sc =>
                   match rest with
                   | [] => ([EvHint k ph; EvPlaylist (S k) (sc_canSkipUntil sc)], OServerGone)
                   | pl' :: rest' =>
                       match PreloadHint pl' with
                       | None => ([EvHint k ph; EvPlaylist (S k) (sc_canSkipUntil sc)], OErrHintGone)
                       | Some _ =>
                           let '(l, o) := runL fp (S k) pl' rest' in
                           (EvHint k ph :: EvPlaylist (S k) (sc_canSkipUntil sc) :: l, o)
                       end
                   end
               end
      end) as E by (destruct rest; reflexivity).
    rewrite E in H. clear E.
    destruct (PreloadHint pl) as [ph|] eqn:Hph.
    2:{ injection H as <- <-. left. auto. }
    right. destruct (res (ph_uri ph)) eqn:Hr; cbn [negb] in H.
    2:{ injection H as <- <-. left. exists ph. auto. }
    right. exists ph. split; [reflexivity|]. split; [exact Hr|].
    destruct (ServerControl fp) as [sc|] eqn:Hsc.
    2:{ injection H as <- <-. left. auto. }
    right. exists sc. split; [reflexivity|].
    destruct rest as [|pl' rest'].
    { injection H as <- <-. left. auto. }
    right. destruct (PreloadHint pl') as [ph'|] eqn:Hph'.
    - right. destruct (runL fp (S k) pl' rest') as [l' o'] eqn:Hrec. injection H as <- <-.
      exists pl', rest', l'. repeat split; auto. congruence.
    - injection H as <- <-. left. exists pl', rest'. auto.
  Qed.

  Lemma ll_shape h fp sc : forall rest k pl log o,
    ServerControl fp = Some sc ->
    at_poll h k pl rest ->
    runL fp k pl rest = (log, o) ->
    ll_trace h (sc_canSkipUntil sc) k log.
  Proof.
    induction rest as [|pl1 rest IH]; intros k pl log o Hsc Hat Hrun;
      apply ll_inv in Hrun;
      destruct Hrun as [[_ [-> _]]|[[ph [_ [_ [-> _]]]]|[ph [Hph [Hr Hc]]]]]; try apply lt_nil;
      destruct Hc as [[Hx _]|[sc' [Hsc' Hc]]]; try congruence;
      assert (sc' = sc) as -> by congruence;
      destruct Hc as [[_ [-> _]]|[[pl' [rest' [Hrest [_ [-> _]]]]]|[pl' [rest' [l' [Hrest [_ [Hrec ->]]]]]]]];
      try (eapply lt_step; [apply Hat|exact Hph|apply lt_nil]);
      try discriminate.
    injection Hrest as <- <-.
    eapply lt_step; [apply Hat|exact Hph|].
    eapply IH; [exact Hsc|eapply at_poll_next; exact Hat|exact Hrec].
  Qed.

  (* what follows a preload-hint request *)
  Definition ll_follows (h : list playlist) (skip : bool) (k : nat) (l2 : list event) (o : outcome) : Prop :=
    exists l3, l2 = EvPlaylist (S k) skip :: l3 /\
    match nth_error h (S k) with
    | None => l3 = [] /\ o = OServerGone
    | Some pl' =>
        match PreloadHint pl' with
        | None => l3 = [] /\ o = OErrHintGone
        | Some ph' =>
            if res (ph_uri ph')
            then exists l4, l3 = EvHint (S k) ph' :: l4
            else l3 = [] /\ o = OErrResolve
        end
    end.

  Lemma ll_follows_ok h fp sc : forall rest k0 pl0 log o l1 k ph l2,
    ServerControl fp = Some sc ->
    at_poll h k0 pl0 rest ->
    runL fp k0 pl0 rest = (log, o) ->
    log = l1 ++ EvHint k ph :: l2 ->
    ll_follows h (sc_canSkipUntil sc) k l2 o.
  Proof.
    induction rest as [|pl1 rest IH]; intros k0 pl0 log o l1 k ph l2 Hsc Hat Hrun Hlog;
      apply ll_inv in Hrun;
      destruct Hrun as [[_ [-> _]]|[[ph0 [_ [_ [-> _]]]]|[ph0 [Hph [Hr Hc]]]]];
      try (destruct l1; discriminate);
      destruct Hc as [[Hx _]|[sc' [Hsc' Hc]]]; try congruence;
      assert (sc' = sc) as -> by congruence;
      destruct Hc as [[Hrest [-> ->]]|[[pl' [rest' [Hrest [Hph' [-> ->]]]]]|[pl' [rest' [l' [Hrest [Hph' [Hrec ->]]]]]]]];
      try discriminate.
    - destruct l1 as [|x l1].
      + injection Hlog as <- <- <-. exists []. split; [reflexivity|].
        rewrite (at_poll_end _ _ _ Hat). auto.
      + destruct l1 as [|y l1]; [discriminate|]. destruct l1; discriminate.
    - injection Hrest as <- <-. pose proof (at_poll_next _ _ _ _ _ Hat) as [Hn1 _].
      destruct l1 as [|x l1].
      + injection Hlog as <- <- <-. exists []. split; [reflexivity|]. rewrite Hn1, Hph'. auto.
      + destruct l1 as [|y l1]; [discriminate|]. destruct l1; discriminate.
    - injection Hrest as <- <-. pose proof (at_poll_next _ _ _ _ _ Hat) as Hat'.
      destruct l1 as [|x l1].
      + injection Hlog as <- <- <-. exists l'. split; [reflexivity|].
        destruct Hat' as [Hn1 _]. rewrite Hn1.
        destruct (PreloadHint pl1) as [ph1|] eqn:Hph1; [|congruence].
        apply ll_inv in Hrec.
        destruct Hrec as [[Hx _]|[[ph2 [Hph2 [Hr2 [-> ->]]]]|[ph2 [Hph2 [Hr2 Hc2]]]]]; try congruence;
          assert (ph2 = ph1) as -> by congruence; rewrite Hr2; auto.
        destruct Hc2 as [[Hx _]|[sc2 [_ Hc2]]]; try congruence.
        destruct Hc2 as [[_ [-> _]]|[[? [? [_ [_ [-> _]]]]]|[? [? [? [_ [_ [_ ->]]]]]]]]; eauto.
      + injection Hlog as _ Hlog. destruct l1 as [|y l1]; [discriminate|]. injection Hlog as _ Hlog.
        exact (IH _ _ _ _ _ _ _ _ Hsc Hat' Hrec Hlog).
  Qed.

  Lemma ll_no_panic fp sc : forall rest k pl log o,
    ServerControl fp = Some sc -> PreloadHint pl <> None ->
    runL fp k pl rest = (log, o) -> o <> OPanic.
  Proof.
    induction rest as [|pl1 rest IH]; intros k pl log o Hsc Hph Hrun;
      apply ll_inv in Hrun;
      destruct Hrun as [[Hx _]|[[ph0 [_ [_ [_ ->]]]]|[ph0 [_ [_ Hc]]]]]; try congruence; try discriminate;
      destruct Hc as [[Hx _]|[sc' [_ Hc]]]; try congruence;
      destruct Hc as [[_ [_ ->]]|[[pl' [rest' [_ [_ [_ ->]]]]]|[pl' [rest' [l' [Hrest [Hph' [Hrec _]]]]]]]];
      try discriminate.
    injection Hrest as <- <-. eauto.
  Qed.

  Lemma ll_wire fp : forall rest k pl log o,
    runL fp k pl rest = (log, o) ->
    forall e, In e log -> exists w, wire resolve with_skip purl e = Some w.
  Proof.
    induction rest as [|pl1 rest IH]; intros k pl log o Hrun;
      apply ll_inv in Hrun;
      destruct Hrun as [[_ [-> _]]|[[ph0 [_ [_ [-> _]]]]|[ph0 [Hph [Hr Hc]]]]];
      try (intros ? []);
      assert (exists w, wire resolve with_skip purl (EvHint k ph0) = Some w) as Hw
        by (cbn [wire]; unfold mk; unfold resolves in Hr; destruct (resolve purl (ph_uri ph0)); [eauto|discriminate]);
      destruct Hc as [[_ [-> _]]|[sc' [_ Hc]]];
      [intros e [<-|[]]; exact Hw| |intros e [<-|[]]; exact Hw| ];
      destruct Hc as [[_ [-> _]]|[[pl' [rest' [_ [_ [-> _]]]]]|[pl' [rest' [l' [Hrest [_ [Hrec ->]]]]]]]];
      intros e Hin; cbn [In] in Hin.
    all: try (destruct Hin as [<-|Hin]; [exact Hw|]).
    all: try (destruct Hin as [<-|Hin]; [cbn [wire]; eauto|]).
    all: try contradiction.
    all: try discriminate.
    injection Hrest as <- <-. eauto.
  Qed.

  (* ================= clientStreamDownloader.run ================= *)

  Notation run := (ClientSel.run resolve purl).

  (* the requests made before the mode-specific loop *)
  Definition prelude (fp : playlist) : list event :=
    EvPlaylist 0 false :: match init_request fp with Some m => [EvInit m] | None => [] end.

  Definition init_ok (fp : playlist) : Prop :=
    match init_request fp with Some m => res (mp_uri m) = true | None => True end.

  Lemma run_inv fp rest log o :
    run (fp :: rest) = (log, o) ->
    (exists m, init_request fp = Some m /\ res (mp_uri m) = false /\
               log = [EvPlaylist 0 false] /\ o = OErrResolve) \/
    (init_ok fp /\ exists l, log = prelude fp ++ l /\
       ((isLowLatency fp = true /\ runL fp 0%nat fp rest = (l, o)) \/
        (isLowLatency fp = false /\ runT fp 0%nat None fp rest = (l, o)))).
  Proof.
    unfold ClientSel.run, prelude, init_ok. intros H.
    destruct (init_request fp) as [m|] eqn:Hi.
    - destruct (res (mp_uri m)) eqn:Hr; cbn [negb] in H.
      + right. split; [reflexivity|].
        destruct (isLowLatency fp) eqn:Hll.
        * destruct (runL fp 0%nat fp rest) as [l o'] eqn:Hrun. injection H as <- <-. exists l. auto.
        * destruct (runT fp 0%nat None fp rest) as [l o'] eqn:Hrun. injection H as <- <-. exists l. auto.
      + injection H as <- <-. left. exists m. auto.
    - right. split; [exact I|].
      destruct (isLowLatency fp) eqn:Hll.
      * destruct (runL fp 0%nat fp rest) as [l o'] eqn:Hrun. injection H as <- <-. exists l. auto.
      * destruct (runT fp 0%nat None fp rest) as [l o'] eqn:Hrun. injection H as <- <-. exists l. auto.
  Qed.

  Lemma isLowLatency_spec fp :
    isLowLatency fp = true <->
    exists sc ph, ServerControl fp = Some sc /\ sc_canBlockReload sc = true /\ PreloadHint fp = Some ph.
  Proof.
    unfold isLowLatency. split.
    - destruct (ServerControl fp) as [sc|]; [|discriminate].
      destruct (PreloadHint fp) as [ph|]; [|discriminate]. intros H. exists sc, ph. auto.
    - intros [sc [ph [-> [H ->]]]]. exact H.
  Qed.

  Lemma prelude_no_segment fp : Forall (fun x => is_segment x = false) (prelude fp).
  Proof. unfold prelude. destruct (init_request fp); repeat constructor. Qed.

  Lemma prelude_no_hint fp : Forall (fun x => is_hint x = false) (prelude fp).
  Proof. unfold prelude. destruct (init_request fp); repeat constructor. Qed.

  Lemma seg_events_prelude fp l : seg_events (prelude fp ++ l) = seg_events l.
  Proof. unfold prelude. destruct (init_request fp); reflexivity. Qed.

  (* ---------- C11 theorems, traditional mode ---------- *)

  (* start position *)
  Theorem start_vod fp rest seg segs :
    isLowLatency fp = false -> init_ok fp ->
    PlaylistType fp = PTVod -> Segments fp = seg :: segs -> res (sg_uri seg) = true ->
    exists l, fst (run (fp :: rest)) = prelude fp ++ EvSegment 0 0 (MediaSequence fp) seg :: l.
  Proof.
    intros Hll Hi Ht Hs Hr. destruct (run (fp :: rest)) as [log o] eqn:Hrun. cbn [fst].
    apply run_inv in Hrun.
    destruct Hrun as [[m [Hm [Hrm _]]]|[_ [l [-> [[Hx _]|[_ Hrun]]]]]]; [|congruence|].
    { unfold init_ok in Hi. rewrite Hm in Hi. congruence. }
    apply trad_inv in Hrun. rewrite (fill_first_vod fp fp seg segs Ht Hs) in Hrun.
    destruct Hrun as [[Hfe _]|Hrun]; [discriminate|].
    destruct Hrun as [[e [Hf _]]|[[v [pos [seg0 [Hf [Hr0 _]]]]]|[v [pos [seg0 [Hf [Hr0 Hc]]]]]]]; try discriminate.
    - injection Hf as <- <- <-. congruence.
    - injection Hf as <- <- <-.
      destruct Hc as [[_ [_ [-> _]]]|[[_ [_ [-> _]]]|[_ [? [? [? [_ [_ ->]]]]]]]]; eauto.
  Qed.

  Theorem start_live fp rest :
    isLowLatency fp = false -> init_ok fp ->
    PlaylistType fp <> PTVod -> clientLiveInitialDistance <= len (Segments fp) ->
    exists seg, nth_error (Segments fp) (Z.to_nat (len (Segments fp) - clientLiveInitialDistance)) = Some seg /\
      (res (sg_uri seg) = true ->
       exists l, fst (run (fp :: rest)) =
                 prelude fp ++ EvSegment 0 (len (Segments fp) - clientLiveInitialDistance)
                                         (MediaSequence fp + (len (Segments fp) - clientLiveInitialDistance)) seg :: l).
  Proof.
    intros Hll Hi Ht Hl. destruct (fill_first_live fp fp Ht Hl) as [seg [Hs Hfill]].
    exists seg. split; [exact Hs|]. intros Hr.
    destruct (run (fp :: rest)) as [log o] eqn:Hrun. cbn [fst].
    apply run_inv in Hrun.
    destruct Hrun as [[m [Hm [Hrm _]]]|[_ [l [-> [[Hx _]|[_ Hrun]]]]]]; [|congruence|].
    { unfold init_ok in Hi. rewrite Hm in Hi. congruence. }
    apply trad_inv in Hrun. rewrite Hfill in Hrun.
    destruct Hrun as [[Hfe _]|Hrun]; [discriminate|].
    destruct Hrun as [[e [Hf _]]|[[v [pos [seg0 [Hf [Hr0 _]]]]]|[v [pos [seg0 [Hf [Hr0 Hc]]]]]]]; try discriminate.
    - injection Hf as <- <- <-. congruence.
    - injection Hf as <- <- <-.
      destruct Hc as [[_ [_ [-> _]]]|[[_ [_ [-> _]]]|[_ [? [? [? [_ [_ ->]]]]]]]]; eauto.
  Qed.

  Theorem start_live_short fp rest :
    isLowLatency fp = false -> init_ok fp ->
    PlaylistType fp <> PTVod -> len (Segments fp) < clientLiveInitialDistance ->
    run (fp :: rest) = (prelude fp, OErrNotEnough).
  Proof.
    intros Hll Hi Ht Hl. destruct (run (fp :: rest)) as [log o] eqn:Hrun.
    apply run_inv in Hrun.
    destruct Hrun as [[m [Hm [Hrm _]]]|[_ [l [-> [[Hx _]|[_ Hrun]]]]]]; [|congruence|].
    { unfold init_ok in Hi. rewrite Hm in Hi. congruence. }
    apply trad_inv in Hrun. rewrite (fill_first_live_short fp fp Ht Hl) in Hrun.
    destruct Hrun as [[Hfe _]|Hrun]; [discriminate|].
    destruct Hrun as [[e [Hf [-> ->]]]|[[v [pos [seg0 [Hf _]]]]|[v [pos [seg0 [Hf _]]]]]]; try discriminate.
    injection Hf as <-. rewrite app_nil_r. reflexivity.
  Qed.

  Theorem start_vod_empty fp rest :
    isLowLatency fp = false -> init_ok fp ->
    PlaylistType fp = PTVod -> Segments fp = [] ->
    run (fp :: rest) = (prelude fp, OErrNoSegments).
  Proof.
    intros Hll Hi Ht Hs. destruct (run (fp :: rest)) as [log o] eqn:Hrun.
    apply run_inv in Hrun.
    destruct Hrun as [[m [Hm [Hrm _]]]|[_ [l [-> [[Hx _]|[_ Hrun]]]]]]; [|congruence|].
    { unfold init_ok in Hi. rewrite Hm in Hi. congruence. }
    apply trad_inv in Hrun. rewrite (fill_first_vod_empty fp fp Ht Hs) in Hrun.
    destruct Hrun as [[Hfe _]|Hrun]; [discriminate|].
    destruct Hrun as [[e [Hf [-> ->]]]|[[v [pos [seg0 [Hf _]]]]|[v [pos [seg0 [Hf _]]]]]]; try discriminate.
    injection Hf as <-. rewrite app_nil_r. reflexivity.
  Qed.

  (* consecutive, exactly once, one playlist request in between *)
  Theorem consecutive fp rest log o :
    isLowLatency fp = false ->
    run (fp :: rest) = (log, o) ->
    exists l m, log = firstn (List.length log - List.length l) (prelude fp) ++ l /\
                trad_trace (fp :: rest) 0 m l.
  Proof.
    intros Hll Hrun. apply run_inv in Hrun.
    destruct Hrun as [[m [Hm [Hrm [-> _]]]]|[_ [l [-> [[Hx _]|[_ Hrun]]]]]]; [|congruence|].
    - exists [], 0. split; [reflexivity|apply tt_nil].
    - destruct (fillSegmentQueue fp None fp) as [e| | |v pos seg] eqn:Hf.
      1,2,3: exists l, 0; split;
        [rewrite app_length, Nat.add_sub, firstn_all; reflexivity
        |eapply trad_shape; [apply at_poll_0|exact Hrun|intros ? ? ? Hx; rewrite Hf in Hx; discriminate]].
      exists l, v. split; [rewrite app_length, Nat.add_sub, firstn_all; reflexivity|].
      eapply trad_shape; [apply at_poll_0|exact Hrun|].
      intros ? ? ? Hx. rewrite Hf in Hx. injection Hx as <- _ _. reflexivity.
  Qed.

  Theorem consecutive_msns fp rest log o :
    isLowLatency fp = false ->
    run (fp :: rest) = (log, o) ->
    exists m, map ev_msn (seg_events log) = zseq m (List.length (seg_events log)).
  Proof.
    intros Hll Hrun. destruct (consecutive _ _ _ _ Hll Hrun) as [l [m [Hlog Ht]]].
    exists m. rewrite Hlog. unfold seg_events. rewrite filter_app.
    assert (filter is_segment (firstn (List.length log - List.length l) (prelude fp)) = []) as ->.
    { pose proof (prelude_no_segment fp) as Hp.
      generalize (List.length log - List.length l)%nat. intros n.
      assert (Forall (fun x => is_segment x = false) (firstn n (prelude fp))) as Hf.
      { apply Forall_forall. intros x Hx. apply firstn_In in Hx.
        rewrite Forall_forall in Hp. auto. }
      induction Hf as [|x l' Hx Hf IH]; [reflexivity|]. cbn. rewrite Hx. exact IH. }
    cbn [app]. exact (trad_trace_msns _ _ _ _ Ht).
  Qed.

  Theorem exactly_once fp rest log o :
    isLowLatency fp = false ->
    run (fp :: rest) = (log, o) ->
    NoDup (map ev_msn (seg_events log)).
  Proof.
    intros Hll Hrun. destruct (consecutive_msns _ _ _ _ Hll Hrun) as [m ->]. apply zseq_NoDup.
  Qed.

  (* every segment request is for an entry of the playlist served at its poll *)
  Theorem segment_truthful fp rest log o k pos m seg :
    run (fp :: rest) = (log, o) ->
    In (EvSegment k pos m seg) log -> truthful (fp :: rest) k pos m seg.
  Proof.
    intros Hrun Hin. destruct (isLowLatency fp) eqn:Hll.
    - exfalso. apply run_inv in Hrun.
      destruct Hrun as [[m0 [_ [_ [-> _]]]]|[_ [l [-> [[_ Hrun]|[Hx _]]]]]]; [| |congruence].
      + destruct Hin as [E|[]]. discriminate.
      + apply in_app_or in Hin. destruct Hin as [Hin|Hin].
        * pose proof (prelude_no_segment fp) as Hp. rewrite Forall_forall in Hp.
          apply Hp in Hin. discriminate.
        * apply isLowLatency_spec in Hll. destruct Hll as [sc [ph [Hsc _]]].
          pose proof (ll_shape _ _ _ _ _ _ _ _ Hsc (at_poll_0 fp rest) Hrun) as Ht.
          exact (ll_trace_no_segment _ _ _ _ Ht _ _ _ _ Hin).
    - destruct (consecutive _ _ _ _ Hll Hrun) as [l [m0 [Hlog Ht]]].
      rewrite Hlog in Hin. apply in_app_or in Hin. destruct Hin as [Hin|Hin].
      + apply firstn_In in Hin. pose proof (prelude_no_segment fp) as Hp. rewrite Forall_forall in Hp.
        apply Hp in Hin. discriminate.
      + eapply trad_trace_truthful; eauto.
  Qed.

  Lemma ll_no_segment_events fp rest log o k pos m seg :
    isLowLatency fp = true -> run (fp :: rest) = (log, o) -> ~ In (EvSegment k pos m seg) log.
  Proof.
    intros Hll Hrun Hin. apply run_inv in Hrun.
    destruct Hrun as [[m0 [_ [_ [-> _]]]]|[_ [l [-> [[_ Hrun]|[Hx _]]]]]]; [| |congruence].
    - destruct Hin as [E|[]]. discriminate.
    - apply in_app_or in Hin. destruct Hin as [Hin|Hin].
      + pose proof (prelude_no_segment fp) as Hp. rewrite Forall_forall in Hp.
        apply Hp in Hin. discriminate.
      + apply isLowLatency_spec in Hll. destruct Hll as [sc [ph [Hsc _]]].
        pose proof (ll_shape _ _ _ _ _ _ _ _ Hsc (at_poll_0 fp rest) Hrun) as Ht.
        exact (ll_trace_no_segment _ _ _ _ Ht _ _ _ _ Hin).
  Qed.

  (* stop, do not jump; continue with exactly the next MSN otherwise; EOS after the last ENDLIST segment *)
  Theorem after_segment fp rest log o l1 k pos m seg l2 :
    run (fp :: rest) = (log, o) ->
    log = l1 ++ EvSegment k pos m seg :: l2 ->
    follows (fp :: rest) fp k pos m l2 o.
  Proof.
    intros Hrun Hlog. apply run_inv in Hrun.
    destruct Hrun as [[m0 [_ [_ [-> _]]]]|[_ [l [-> [[Hll Hrun]|[_ Hrun]]]]]].
    - destruct l1 as [|x l1]; [discriminate|]. destruct l1; discriminate.
    - exfalso.
      destruct (app_split_pred is_segment (prelude fp) l l1 (EvSegment k pos m seg) l2 (prelude_no_segment fp) eq_refl Hlog) as [l1' [-> ->]].
      apply isLowLatency_spec in Hll. destruct Hll as [sc [ph [Hsc _]]].
      pose proof (ll_shape _ _ _ _ _ _ _ _ Hsc (at_poll_0 fp rest) Hrun) as Ht.
      assert (In (EvSegment k pos m seg) (l1' ++ EvSegment k pos m seg :: l2)) as Hin
        by (apply in_or_app; right; left; reflexivity).
      exact (ll_trace_no_segment _ _ _ _ Ht _ _ _ _ Hin).
    - destruct (app_split_pred is_segment (prelude fp) l l1 (EvSegment k pos m seg) l2 (prelude_no_segment fp) eq_refl Hlog) as [l1' [-> Hl]].
      exact (trad_follows _ _ _ _ _ _ _ _ _ _ _ _ _ _ (at_poll_0 fp rest) Hrun Hl).
  Qed.

  (* EOS arises only from the last segment of an ENDLIST playlist *)
  Lemma ll_never_eos fp : forall rest k pl log, runL fp k pl rest = (log, OEOS) -> False.
  Proof.
    induction rest as [|pl1 rest IH]; intros k pl log Hrun;
      apply ll_inv in Hrun;
      destruct Hrun as [[_ [_ Hx]]|[[ph0 [_ [_ [_ Hx]]]]|[ph0 [_ [_ Hc]]]]]; try discriminate;
      destruct Hc as [[_ [_ Hx]]|[sc' [_ Hc]]]; try discriminate;
      destruct Hc as [[_ [_ Hx]]|[[? [? [_ [_ [_ Hx]]]]]|[pl' [rest' [l' [Hrest [_ [Hrec _]]]]]]]];
      try discriminate.
    injection Hrest as <- <-. eauto.
  Qed.

  Lemma trad_eos_last h fp : forall rest k cur pl l,
    at_poll h k pl rest -> runT fp k cur pl rest = (l, OEOS) ->
    (exists l1 k' pos m seg pl',
       l = l1 ++ [EvSegment k' pos m seg] /\ nth_error h k' = Some pl' /\
       Endlist pl' = true /\ pos = len (Segments pl') - 1) \/
    (exists l1 k' pos m seg pl',
       l = l1 ++ [EvSegment k' pos m seg; EvPlaylist (S k') false] /\
       nth_error h (S k') = Some pl' /\ ended_after m pl') \/
    (l = [] /\ exists c, cur = Some c /\ ended_after c pl).
  Proof.
    induction rest as [|pl1 rest IH]; intros k cur pl l Hat Hrun;
      apply trad_inv in Hrun;
      (destruct Hrun as [[Hfe [-> _]]|Hrun];
       [right; right; split; [reflexivity|]; apply fill_end_inv in Hfe; exact Hfe|]);
      destruct Hrun as [[e [Hf [-> Hx]]]|[[v [pos0 [seg0 [Hf [Hr [_ Hx]]]]]]|[v [pos0 [seg0 [Hf [Hr Hc]]]]]]];
      try discriminate;
      try (subst e; apply fill_err_inv in Hf; destruct cur; destruct Hf as [[Hx _]|[Hx _]]; discriminate);
      destruct Hc as [[He [Hp [-> _]]]|[[_ [_ [_ Hx]]]|[_ [pl' [rest' [l' [Hrest [Hrec ->]]]]]]]];
      try discriminate;
      try (left; exists [], k, pos0, v, seg0, pl; repeat split; auto; apply Hat).
    injection Hrest as <- <-.
    pose proof (at_poll_next _ _ _ _ _ Hat) as Hat'.
    destruct (IH _ _ _ _ Hat' Hrec) as [H|[H|[-> [c [E Hea]]]]].
    - left. destruct H as [l1 [k' [pos [m [seg [pl' [-> H]]]]]]].
      exists (EvSegment k pos0 v seg0 :: EvPlaylist (S k) false :: l1), k', pos, m, seg, pl'.
      split; [reflexivity|exact H].
    - right. left. destruct H as [l1 [k' [pos [m [seg [pl' [-> H]]]]]]].
      exists (EvSegment k pos0 v seg0 :: EvPlaylist (S k) false :: l1), k', pos, m, seg, pl'.
      split; [reflexivity|exact H].
    - right. left. injection E as <-.
      exists [], k, pos0, v, seg0, pl1. split; [reflexivity|]. split; [apply Hat'|exact Hea].
  Qed.

  (* EOS arises only from the end of an ENDLIST playlist: its last segment was just requested from
     it, or it shows up at the next poll after its last segment had been requested *)
  Theorem eos_only_at_end fp rest log o :
    run (fp :: rest) = (log, o) -> o = OEOS ->
    (exists l1 k pos m seg pl,
       log = l1 ++ [EvSegment k pos m seg] /\ nth_error (fp :: rest) k = Some pl /\
       Endlist pl = true /\ pos = len (Segments pl) - 1) \/
    (exists l1 k pos m seg pl',
       log = l1 ++ [EvSegment k pos m seg; EvPlaylist (S k) false] /\
       nth_error (fp :: rest) (S k) = Some pl' /\
       Endlist pl' = true /\ m = MediaSequence pl' + len (Segments pl') - 1).
  Proof.
    intros Hrun ->. apply run_inv in Hrun.
    destruct Hrun as [[m0 [_ [_ [_ Hx]]]]|[_ [l [-> [[Hll Hrun]|[_ Hrun]]]]]]; [discriminate| |].
    - exfalso. eapply ll_never_eos; exact Hrun.
    - destruct (trad_eos_last _ _ _ _ _ _ _ (at_poll_0 fp rest) Hrun) as [H|[H|[_ [c [E _]]]]]; [| |discriminate].
      + left. destruct H as [l1 [k' [pos [m [seg [pl' [-> H]]]]]]].
        exists (prelude fp ++ l1), k', pos, m, seg, pl'. rewrite <- app_assoc. split; [reflexivity|exact H].
      + right. destruct H as [l1 [k' [pos [m [seg [pl' [-> [Hn [He Hm]]]]]]]]].
        exists (prelude fp ++ l1), k', pos, m, seg, pl'. rewrite <- app_assoc.
        split; [reflexivity|]. split; [exact Hn|]. split; [exact He|lia].
  Qed.

  (* ---------- low-latency mode ---------- *)
  Theorem low_latency fp rest log o sc :
    isLowLatency fp = true -> ServerControl fp = Some sc ->
    run (fp :: rest) = (log, o) ->
    exists l, log = firstn (List.length log - List.length l) (prelude fp) ++ l /\
              ll_trace (fp :: rest) (sc_canSkipUntil sc) 0 l.
  Proof.
    intros Hll Hsc Hrun. apply run_inv in Hrun.
    destruct Hrun as [[m [Hm [Hrm [-> _]]]]|[_ [l [-> [[_ Hrun]|[Hx _]]]]]]; [| |congruence].
    - exists []. split; [reflexivity|apply lt_nil].
    - exists l. split; [rewrite app_length, Nat.add_sub, firstn_all; reflexivity|].
      eapply ll_shape; [exact Hsc|apply at_poll_0|exact Hrun].
  Qed.

  Theorem low_latency_first_hint fp rest sc ph :
    isLowLatency fp = true -> init_ok fp -> ServerControl fp = Some sc ->
    PreloadHint fp = Some ph -> res (ph_uri ph) = true ->
    exists l, fst (run (fp :: rest)) =
              prelude fp ++ EvHint 0 ph :: EvPlaylist 1 (sc_canSkipUntil sc) :: l.
  Proof.
    intros Hll Hi Hsc Hph Hr. destruct (run (fp :: rest)) as [log o] eqn:Hrun. cbn [fst].
    apply run_inv in Hrun.
    destruct Hrun as [[m [Hm [Hrm _]]]|[_ [l [-> [[_ Hrun]|[Hx _]]]]]]; [| |congruence].
    { unfold init_ok in Hi. rewrite Hm in Hi. congruence. }
    apply ll_inv in Hrun.
    destruct Hrun as [[Hx _]|[[ph0 [Hph0 [Hr0 _]]]|[ph0 [Hph0 [_ Hc]]]]]; try congruence.
    assert (ph0 = ph) as -> by congruence.
    destruct Hc as [[Hx _]|[sc' [Hsc' Hc]]]; try congruence.
    assert (sc' = sc) as -> by congruence.
    destruct Hc as [[_ [-> _]]|[[? [? [_ [_ [-> _]]]]]|[? [? [? [_ [_ [_ ->]]]]]]]]; eauto.
  Qed.

  Theorem after_hint fp rest log o sc l1 k ph l2 :
    ServerControl fp = Some sc ->
    run (fp :: rest) = (log, o) ->
    log = l1 ++ EvHint k ph :: l2 ->
    ll_follows (fp :: rest) (sc_canSkipUntil sc) k l2 o.
  Proof.
    intros Hsc Hrun Hlog. apply run_inv in Hrun.
    destruct Hrun as [[m0 [_ [_ [-> _]]]]|[_ [l [-> [[Hll Hrun]|[Hll Hrun]]]]]].
    - destruct l1 as [|x l1]; [discriminate|]. destruct l1; discriminate.
    - destruct (app_split_pred is_hint (prelude fp) l l1 (EvHint k ph) l2 (prelude_no_hint fp) eq_refl Hlog) as [l1' [-> Hl]].
      exact (ll_follows_ok _ _ _ _ _ _ _ _ _ _ _ _ Hsc (at_poll_0 fp rest) Hrun Hl).
    - exfalso.
      destruct (app_split_pred is_hint (prelude fp) l l1 (EvHint k ph) l2 (prelude_no_hint fp) eq_refl Hlog) as [l1' [-> ->]].
      assert (exists m, trad_trace (fp :: rest) 0 m (l1' ++ EvHint k ph :: l2)) as [m Ht].
      { destruct (fillSegmentQueue fp None fp) as [e| | |v pos seg] eqn:Hf.
        1,2,3: exists 0; eapply trad_shape; [apply at_poll_0|exact Hrun|intros ? ? ? Hx; rewrite Hf in Hx; discriminate].
        exists v. eapply trad_shape; [apply at_poll_0|exact Hrun|].
        intros ? ? ? Hx. rewrite Hf in Hx. injection Hx as <- _ _. reflexivity. }
      assert (In (EvHint k ph) (l1' ++ EvHint k ph :: l2)) as Hin
        by (apply in_or_app; right; left; reflexivity).
      exact (trad_trace_no_hint _ _ _ _ Ht _ _ Hin).
  Qed.

  (* the playlist request never carries _HLS_skip in traditional mode *)
  Theorem traditional_no_skip fp rest log o k s :
    isLowLatency fp = false -> run (fp :: rest) = (log, o) ->
    In (EvPlaylist k s) log -> s = false.
  Proof.
    intros Hll Hrun Hin. destruct (consecutive _ _ _ _ Hll Hrun) as [l [m [Hlog Ht]]].
    rewrite Hlog in Hin. apply in_app_or in Hin. destruct Hin as [Hin|Hin].
    - apply firstn_In in Hin. unfold prelude in Hin.
      destruct Hin as [E|Hin]; [injection E as _ <-; reflexivity|].
      destruct (init_request fp); [destruct Hin as [E|[]]; discriminate|contradiction].
    - eapply trad_trace_no_skip in Hin; [|exact Ht]. apply Hin.
  Qed.

  (* ---------- no panic, every request has a wire form ---------- *)
  Theorem no_panic h : snd (run h) <> OPanic.
  Proof.
    destruct h as [|fp rest]; [cbn; discriminate|].
    destruct (run (fp :: rest)) as [log o] eqn:Hrun. cbn [snd].
    apply run_inv in Hrun.
    destruct Hrun as [[m0 [_ [_ [_ ->]]]]|[_ [l [_ [[Hll Hrun]|[_ Hrun]]]]]]; [discriminate| |].
    - apply isLowLatency_spec in Hll. destruct Hll as [sc [ph [Hsc [_ Hph]]]].
      eapply ll_no_panic; [exact Hsc| |exact Hrun]. congruence.
    - eapply trad_no_panic; exact Hrun.
  Qed.

  Theorem wire_total h log o e :
    run h = (log, o) -> In e log -> exists w, wire resolve with_skip purl e = Some w.
  Proof.
    destruct h as [|fp rest].
    { cbn. intros E. injection E as <- _. intros [<-|[]]. cbn. eauto. }
    intros Hrun Hin. apply run_inv in Hrun.
    destruct Hrun as [[m0 [_ [_ [-> _]]]]|[Hi [l [-> [[_ Hrun]|[_ Hrun]]]]]].
    - destruct Hin as [<-|[]]. cbn. eauto.
    - apply in_app_or in Hin. destruct Hin as [Hin|Hin]; [|eapply ll_wire; eauto].
      unfold prelude, init_ok in *. destruct Hin as [<-|Hin]; [cbn; eauto|].
      destruct (init_request fp) as [m|]; [|contradiction]. destruct Hin as [<-|[]].
      cbn [wire]. unfold mk. unfold resolves in Hi. destruct (resolve purl (mp_uri m)); [eauto|discriminate].
    - apply in_app_or in Hin. destruct Hin as [Hin|Hin]; [|eapply trad_wire; eauto].
      unfold prelude, init_ok in *. destruct Hin as [<-|Hin]; [cbn; eauto|].
      destruct (init_request fp) as [m|]; [|contradiction]. destruct Hin as [<-|[]].
      cbn [wire]. unfold mk. unfold resolves in Hi. destruct (resolve purl (mp_uri m)); [eauto|discriminate].
  Qed.
End Run.
