(* C15, strict grammar, lexical level: the scalars Marshal prints have the lexical type the
   RFC requires, and the strict attribute-list parser reads a rendered attribute list. *)
From Coq Require Import List ZArith Bool String Ascii Lia.
From GoHls Require Import Model.PlaylistBase Model.Playlist Model.PlaylistSpec Model.PlaylistStrict
  Proofs.PlaylistStr Proofs.PlaylistNum Proofs.PlaylistAttrs Proofs.PlaylistTags.
Import ListNotations.
Local Open Scope string_scope.
Local Open Scope Z_scope.

(* ---------- character sets ---------- *)
Lemma chars_in_app set a b : chars_in set (a ++ b) = chars_in set a && chars_in set b.
Proof. induction a as [|c a IH]; simpl; auto. now rewrite IH, andb_assoc. Qed.

Lemma chars_in_has_char set (p : ascii -> bool) s :
  chars_in set s = true -> (forall c, mem_char c set = true -> p c = false) -> has_char p s = false.
Proof.
  intros H Hp. induction s as [|c s IH]; simpl in *; auto.
  apply andb_true_iff in H as [Hc Hs]. now rewrite (Hp c Hc), IH.
Qed.

Lemma chars_in_mono set1 set2 s :
  (forall c, mem_char c set1 = true -> mem_char c set2 = true) ->
  chars_in set1 s = true -> chars_in set2 s = true.
Proof.
  intros Hm. induction s as [|c s IH]; simpl; auto. intros H.
  apply andb_true_iff in H as [Hc Hs]. now rewrite (Hm c Hc), IH.
Qed.

Lemma digit_mem c d : digit_of c = Some d -> mem_char c digits = true.
Proof. destruct c as [[|] [|] [|] [|] [|] [|] [|] [|]]; intros H; try discriminate H; reflexivity. Qed.

Lemma mem_digit c : mem_char c digits = true -> exists d, digit_of c = Some d.
Proof.
  destruct c as [[|] [|] [|] [|] [|] [|] [|] [|]]; intros H; try discriminate H; eexists; reflexivity.
Qed.

Lemma digits_only_chars s : digits_only s = true -> chars_in digits s = true.
Proof.
  induction s as [|c s IH]; cbn [chars_in digits_only]; auto. destruct (digit_of c) eqn:E; [|discriminate].
  intros H. now rewrite (digit_mem c z E), IH.
Qed.

Lemma chars_digits_only s : chars_in digits s = true -> digits_only s = true.
Proof.
  induction s as [|c s IH]; cbn [chars_in digits_only]; auto. intros H. apply andb_true_iff in H as [Hc Hs].
  destruct (mem_digit c Hc) as [d ->]. auto.
Qed.

Lemma digits_is s : digits_only s = true -> s <> "" -> is_digits s = true.
Proof.
  intros H N. unfold is_digits, all_in. destruct s; [congruence|]. now apply digits_only_chars.
Qed.

Lemma is_digits_inv s : is_digits s = true -> chars_in digits s = true /\ s <> "".
Proof. unfold is_digits, all_in. destruct s; [discriminate|]. intros H. split; [exact H|discriminate]. Qed.

(* ---------- decimal integers ---------- *)
Lemma fmt_digits_len fuel : forall z acc (k : nat), 0 <= z < 10 ^ Z.of_nat k -> (1 <= k)%nat ->
  (slen (fmt_digits fuel z acc) <= k + slen acc)%nat.
Proof.
  induction fuel as [|f IH]; intros z acc k Hz Hk; [simpl; lia|].
  rewrite fmt_digits_S. destruct (z <? 10) eqn:E.
  - simpl. lia.
  - apply Z.ltb_ge in E. destruct k as [|[|k]]; [lia| |].
    + change (10 ^ Z.of_nat 1) with 10 in Hz. lia.
    + assert (Hq : 0 <= z / 10 < 10 ^ Z.of_nat (S k)).
      { split; [apply Z.div_pos; lia|]. apply Z.div_lt_upper_bound; [lia|].
        rewrite (Nat2Z.inj_succ (S k)), Z.pow_succ_r in Hz by lia. lia. }
      specialize (IH (z / 10) (String (digit_char (z mod 10)) acc) (S k) Hq ltac:(lia)).
      simpl in IH |- *. lia.
Qed.

Lemma fmt_int_dec_int z : 0 <= z < 2 ^ 64 -> is_dec_int (fmt_int z) = true.
Proof.
  intros [H0 H1]. unfold fmt_int. destruct (z <? 0) eqn:E; [apply Z.ltb_lt in E; lia|].
  destruct (fmt_uint_spec z H0) as (D & N & P).
  unfold is_dec_int. rewrite (digits_is _ D N), P.
  assert (L : (slen (fmt_uint z) <= 20)%nat).
  { unfold fmt_uint. pose proof (fmt_digits_len (S (Z.to_nat (Z.log2 z))) z "" 20) as L.
    simpl slen in L. rewrite Nat.add_0_r in L. apply L; [|lia].
    split; [exact H0|]. eapply Z.lt_trans; [exact H1|]. reflexivity. }
  apply Nat.leb_le in L. rewrite L. cbn [andb]. rewrite Z.mul_0_l, Z.add_0_l. now apply Z.ltb_lt.
Qed.

Lemma byterange_is l s : uint64 l = true -> opt_ok uint64 s = true ->
  is_byterange (byterange_marshal l s) = true.
Proof.
  intros Hl Hs. apply uint64_range in Hl. destruct (fmt_int_digits l) as [Dl _]; [lia|].
  unfold byterange_marshal, is_byterange. destruct s as [st|]; cbn [opt_ok] in Hs.
  - apply uint64_range in Hs. change ("@" ++ fmt_int st) with (String "@" (fmt_int st)).
    rewrite index_byte_app_sep by (apply digits_only_no_byte; auto).
    rewrite take_app_exact.
    assert (E : drop (S (slen (fmt_int l))) (fmt_int l ++ String "@" (fmt_int st)) = fmt_int st).
    { clear. induction (fmt_int l) as [|x a IH]; simpl; [destruct (fmt_int st); reflexivity|exact IH]. }
    rewrite E, !fmt_int_dec_int by lia. reflexivity.
  - rewrite app_empty_r. rewrite index_byte_none by (apply digits_only_no_byte; auto).
    apply fmt_int_dec_int. lia.
Qed.

(* ---------- what an unquoted attribute value must be ---------- *)
Definition unq_ok (s : string) : bool :=
  negb (String.eqb s "") && no_byte "," s && negb (has_char (fun x => Ascii.eqb x DQ || is_ws x) s).

Lemma no_byte_has_char c s : no_byte c s = negb (has_char (fun x => Ascii.eqb x c) s).
Proof. induction s as [|a s IH]; simpl; auto. rewrite IH. now destruct (Ascii.eqb a c). Qed.

(* a non-empty string over a set without separators, quotes and blanks *)
Definition chars_in_none_ws (set : string) : bool := negb (has_char is_ws set).
Definition clean_set (set : string) : bool :=
  negb (mem_char "," set) && negb (mem_char DQ set) && chars_in_none_ws set.

Lemma mem_char_has p set c : mem_char c set = true -> has_char p set = false -> p c = false.
Proof.
  induction set as [|a set IH]; simpl; [discriminate|]. intros H Hp.
  apply orb_false_iff in Hp as [Ha Hs]. apply orb_true_iff in H as [H|H]; auto.
  apply Ascii.eqb_eq in H. now subst.
Qed.

Lemma mem_char_false_neq set c x : mem_char x set = false -> mem_char c set = true -> Ascii.eqb c x = false.
Proof.
  induction set as [|a set IH]; simpl; [discriminate|]. intros Hx Hc.
  apply orb_false_iff in Hx as [Hax Hx]. apply orb_true_iff in Hc as [Hc|Hc]; auto.
  apply Ascii.eqb_eq in Hc. rewrite <- Hc. exact Hax.
Qed.

Lemma clean_unq set s : clean_set set = true -> chars_in set s = true -> s <> "" -> unq_ok s = true.
Proof.
  unfold clean_set, chars_in_none_ws. intros Hc Hs Hn.
  apply andb_true_iff in Hc as [Hc Hw]. apply andb_true_iff in Hc as [Hcomma Hq].
  apply negb_true_iff in Hcomma, Hq, Hw.
  unfold unq_ok. destruct s as [|c0 s0]; [congruence|]. cbn [String.eqb negb andb].
  rewrite no_byte_has_char.
  rewrite (chars_in_has_char set _ _ Hs) by (intros c Hm; now apply (mem_char_false_neq set)).
  rewrite (chars_in_has_char set _ _ Hs); [reflexivity|].
  intros c Hm. rewrite (mem_char_false_neq set c DQ Hq Hm). cbn [orb].
  now apply (mem_char_has is_ws set).
Qed.

Lemma index_byte_split c s i : index_byte c s = Some i -> s = take i s ++ String c (drop (S i) s).
Proof.
  revert i; induction s as [|a s IH]; simpl; intros i H; [discriminate|].
  destruct (Ascii.eqb_spec a c).
  - inversion H; subst. simpl. now destruct s.
  - destruct (index_byte c s) eqn:E; simpl in H; [|discriminate]. inversion H; subst.
    simpl. f_equal. exact (IH _ eq_refl).
Qed.

Lemma digits_in_wider set s : (forall c, mem_char c digits = true -> mem_char c set = true) ->
  is_digits s = true -> chars_in set s = true.
Proof. intros Hm H. apply is_digits_inv in H as [H _]. eapply chars_in_mono; eauto. Qed.

Ltac wider := let c := fresh in let H := fresh in intros c H;
  destruct (mem_digit c H) as [? Hd]; clear H;
  destruct c as [[|] [|] [|] [|] [|] [|] [|] [|]]; try discriminate Hd; reflexivity.

Lemma float_chars s : is_float s = true -> chars_in "0123456789." s = true /\ s <> "".
Proof.
  unfold is_float. destruct (index_byte "." s) eqn:E.
  - intros H. apply andb_true_iff in H as [H1 H2]. apply index_byte_split in E. split.
    + rewrite E, chars_in_app. cbn [chars_in mem_char].
      rewrite (digits_in_wider "0123456789." _ ltac:(wider) H1), (digits_in_wider "0123456789." _ ltac:(wider) H2).
      reflexivity.
    + rewrite E. destruct (take n s); discriminate.
  - intros H. split; [apply (digits_in_wider "0123456789." _ ltac:(wider) H)|]. now apply is_digits_inv in H.
Qed.

Lemma float_unq s : is_float s = true -> unq_ok s = true.
Proof. intros H. destruct (float_chars s H). eapply clean_unq; eauto. reflexivity. Qed.

Lemma sfloat_unq s : is_sfloat s = true -> unq_ok s = true.
Proof.
  intros H. assert (Hc : chars_in "-0123456789." s = true /\ s <> "").
  { unfold is_sfloat in H.
    assert (G : forall r, is_float r = true -> chars_in "-0123456789." r = true /\ r <> "").
    { intros r Hr. destruct (float_chars r Hr) as [A B]. split; auto.
      eapply chars_in_mono; [|exact A]. intros c Hm. cbn in Hm |- *.
      repeat (apply orb_true_iff in Hm as [Hm|Hm]; [rewrite Hm; rewrite ?orb_true_r; reflexivity|]). discriminate. }
    destruct s as [|c r]; [discriminate H|].
    destruct (Ascii.eqb_spec c "-").
    - subst. cbn in H. destruct (G r H) as [A _]. split; [|discriminate]. cbn [chars_in mem_char]. cbn. exact A.
    - replace (match c with "-"%char => is_float r | _ => is_float (String c r) end) with (is_float (String c r)) in H.
      + apply G, H.
      + destruct c as [[|] [|] [|] [|] [|] [|] [|] [|]]; try reflexivity. congruence. }
  destruct Hc. eapply clean_unq; eauto. reflexivity.
Qed.

Lemma digits_unq s : is_digits s = true -> unq_ok s = true.
Proof. intros H. apply is_digits_inv in H as [A B]. eapply clean_unq; eauto. reflexivity. Qed.

Lemma dec_int_unq s : is_dec_int s = true -> unq_ok s = true.
Proof.
  unfold is_dec_int. intros H. apply andb_true_iff in H as [H _]. apply andb_true_iff in H as [_ H].
  now apply digits_unq.
Qed.

Lemma resolution_unq s : is_resolution s = true -> unq_ok s = true.
Proof.
  unfold is_resolution. destruct (index_byte "x" s) eqn:E; [|discriminate]. intros H.
  apply andb_true_iff in H as [H1 H2]. apply index_byte_split in E.
  eapply (clean_unq "0123456789x"); [reflexivity| |].
  - rewrite E, chars_in_app. cbn [chars_in mem_char].
    rewrite (digits_in_wider "0123456789x" _ ltac:(wider) H1), (digits_in_wider "0123456789x" _ ltac:(wider) H2).
    reflexivity.
  - rewrite E. destruct (take n s); discriminate.
Qed.

Lemma hex_unq s : is_hex s = true -> unq_ok s = true.
Proof.
  unfold is_hex. destruct s as [|c0 [|c1 r]]; try discriminate;
    try (destruct c0 as [[|] [|] [|] [|] [|] [|] [|] [|]]; discriminate).
  intros H.
  assert (E0 : c0 = "0"%char) by (destruct c0 as [[|] [|] [|] [|] [|] [|] [|] [|]]; try discriminate H; reflexivity).
  subst. apply andb_true_iff in H as [Hx Hr]. unfold all_in in Hr. destruct r as [|c2 r]; [discriminate|].
  eapply (clean_unq "0123456789abcdefABCDEFxX"); [reflexivity| |discriminate].
  assert (H1 : mem_char c1 "0123456789abcdefABCDEFxX" = true).
  { apply orb_true_iff in Hx as [Hx|Hx]; apply Ascii.eqb_eq in Hx; subst; reflexivity. }
  assert (H2 : chars_in "0123456789abcdefABCDEFxX" (String c2 r) = true).
  { eapply chars_in_mono; [|exact Hr]. intros c Hm. cbn in Hm |- *.
    repeat (apply orb_true_iff in Hm as [Hm|Hm]; [rewrite Hm; rewrite ?orb_true_r; reflexivity|]). discriminate. }
  change (chars_in "0123456789abcdefABCDEFxX" (String "0" (String c1 (String c2 r))))
    with (mem_char "0" "0123456789abcdefABCDEFxX" && (mem_char c1 "0123456789abcdefABCDEFxX"
          && chars_in "0123456789abcdefABCDEFxX" (String c2 r))).
  rewrite H1, H2. reflexivity.
Qed.

(* ---------- the strict attribute-list parser on a rendered list ---------- *)
Definition to_sattr (kv : string * aval) : sattr :=
  match snd kv with
  | AQ s => {| a_name := fst kv; a_value := s; a_quoted := true |}
  | AU s => {| a_name := fst kv; a_value := s; a_quoted := false |}
  end.

Definition sitem_ok (kv : string * aval) : bool :=
  all_in name_chars (fst kv)
  && match snd kv with
     | AQ s => no_byte DQ s && no_crlf s
     | AU s => unq_ok s
     end.

Lemma span_app (p : ascii -> bool) a c r :
  (forall x, mem_char x a = true -> p x = true) -> p c = false ->
  span p (a ++ String c r) = (a, String c r).
Proof.
  intros Ha Hc. induction a as [|x a IH]; simpl.
  - now rewrite Hc.
  - rewrite (Ha x) by (simpl; now rewrite Ascii.eqb_refl). rewrite IH; auto.
    intros y Hy. apply Ha. simpl. now rewrite Hy, orb_true_r.
Qed.

Lemma span_all (p : ascii -> bool) a :
  (forall x, mem_char x a = true -> p x = true) -> span p a = (a, "").
Proof.
  intros Ha. induction a as [|x a IH]; simpl; auto.
  rewrite (Ha x) by (simpl; now rewrite Ascii.eqb_refl). rewrite IH; auto.
  intros y Hy. apply Ha. simpl. now rewrite Hy, orb_true_r.
Qed.

Lemma chars_in_forall set s x : chars_in set s = true -> mem_char x s = true -> mem_char x set = true.
Proof.
  induction s as [|a s IH]; simpl; [discriminate|]. intros H Hx.
  apply andb_true_iff in H as [Ha Hs]. apply orb_true_iff in Hx as [Hx|Hx]; auto.
  apply Ascii.eqb_eq in Hx. now subst.
Qed.

Lemma no_byte_mem c s x : no_byte c s = true -> mem_char x s = true -> Ascii.eqb x c = false.
Proof.
  induction s as [|a s IH]; simpl; [discriminate|]. intros H Hx.
  apply andb_true_iff in H as [Ha Hs]. apply negb_true_iff in Ha.
  apply orb_true_iff in Hx as [Hx|Hx]; auto. apply Ascii.eqb_eq in Hx. now subst.
Qed.

Lemma parse_attr_items_S f s acc :
  parse_attr_items (S f) s acc =
      let '(name, r) := span (fun c => mem_char c name_chars) s in
      match r with
      | String "=" v =>
          if String.eqb name "" then None
          else
            match v with
            | "" => None
            | String c v' =>
                if Ascii.eqb c DQ then
                  match index_byte DQ v' with
                  | None => None
                  | Some j =>
                      let val := take j v' in
                      let rest := drop (S j) v' in
                      if has_char (fun x => Ascii.eqb x CR || Ascii.eqb x LF) val then None
                      else
                        let acc' := (acc ++ [{| a_name := name; a_value := val; a_quoted := true |}])%list in
                        match rest with
                        | "" => Some acc'
                        | String "," rest' => if String.eqb rest' "" then None else parse_attr_items f rest' acc'
                        | _ => None
                        end
                  end
                else
                  let '(val, rest) := span (fun x => negb (Ascii.eqb x ",")) v in
                  if has_char (fun x => Ascii.eqb x DQ || is_ws x) val then None
                  else if String.eqb val "" then None
                  else
                    let acc' := (acc ++ [{| a_name := name; a_value := val; a_quoted := false |}])%list in
                    match rest with
                    | "" => Some acc'
                    | String _ rest' => if String.eqb rest' "" then None else parse_attr_items f rest' acc'
                    end
            end
      | _ => None
      end.
Proof. reflexivity. Qed.

Lemma render_attrs_nonempty x l : render_attrs (x :: l) <> "".
Proof.
  cbn [render_attrs]. unfold render_attr. destruct (fst x); simpl; discriminate.
Qed.

Lemma render_attrs_eqb x l : String.eqb (render_attrs (x :: l)) "" = false.
Proof.
  destruct (render_attrs (x :: l)) eqn:E; [exfalso; eapply render_attrs_nonempty; eauto|reflexivity].
Qed.

Lemma no_crlf_has_char s : no_crlf s = true -> has_char (fun x => Ascii.eqb x CR || Ascii.eqb x LF) s = false.
Proof.
  unfold no_crlf. intros H. apply andb_true_iff in H as [H1 H2].
  induction s as [|a s IH]; simpl in *; auto.
  apply andb_true_iff in H1 as [A1 B1]. apply andb_true_iff in H2 as [A2 B2].
  apply negb_true_iff in A1, A2. now rewrite A1, A2, IH.
Qed.

Lemma parse_attr_items_render : forall l fuel acc,
  l <> [] -> forallb sitem_ok l = true -> (slen (render_attrs l) < fuel)%nat ->
  parse_attr_items fuel (render_attrs l) acc = Some (acc ++ map to_sattr l)%list.
Proof.
  induction l as [|[k v] tl IH]; intros fuel acc Hne Hok Hf; [congruence|].
  destruct fuel as [|f]; [lia|].
  cbn [forallb] in Hok. apply andb_true_iff in Hok as [Hx Htl].
  unfold sitem_ok in Hx. cbn [fst snd] in Hx. apply andb_true_iff in Hx as [Hk Hv].
  unfold all_in in Hk. destruct k as [|k0 k1] eqn:Ek; [discriminate|]. rewrite <- Ek in *.
  assert (Hkne : String.eqb k "" = false) by (rewrite Ek; reflexivity).
  rewrite parse_attr_items_S.
  cbn [render_attrs] in *. unfold render_attr in *. cbn [fst snd] in *.
  rewrite app_assoc' in *. cbn [append] in *.
  rewrite span_app; [|intros x Hxm; eapply chars_in_forall; eauto|reflexivity].
  rewrite Hkne.
  assert (Hlen : forall a b, slen (a ++ String "=" b) = S (slen a + slen b)) by (intros; rewrite slen_app; simpl; lia).
  rewrite Hlen in Hf.
  destruct v as [s|s]; cbn [render_val to_sattr snd fst map] in *.
  - (* quoted *)
    apply andb_true_iff in Hv as [Hq Hcr].
    cbn [append]. rewrite Ascii.eqb_refl. rewrite app_assoc'. cbn [append].
    rewrite index_byte_app_sep by exact Hq. rewrite take_app_exact.
    assert (E : forall b, drop (S (slen s)) (s ++ String DQ b) = b).
    { clear. intros b. induction s as [|x a IH]; simpl; [destruct b; reflexivity|exact IH]. }
    rewrite E. rewrite (no_crlf_has_char s Hcr).
    destruct tl as [|y tl'].
    + cbn [render_tail map]. reflexivity.
    + rewrite render_tail_cons.
      rewrite render_attrs_eqb. rewrite IH; [|discriminate|exact Htl|].
      * cbn [map]. now rewrite <- app_assoc.
      * rewrite render_tail_cons in Hf. cbn [slen String.length append] in Hf. rewrite slen_app in Hf.
        cbn [slen String.length] in Hf. unfold slen in *. lia.
  - (* unquoted *)
    unfold unq_ok in Hv. apply andb_true_iff in Hv as [Hv Hbad]. apply andb_true_iff in Hv as [Hne' Hcomma].
    apply negb_true_iff in Hne', Hbad.
    destruct s as [|c0 s0]; [discriminate|].
    assert (Hc0 : Ascii.eqb c0 DQ = false).
    { cbn [has_char] in Hbad. apply orb_false_iff in Hbad as [Hb _].
      now apply orb_false_iff in Hb as [Hb _]. }
    assert (Hsp : forall x, mem_char x (String c0 s0) = true -> negb (Ascii.eqb x ",") = true).
    { intros x Hxm. now rewrite (no_byte_mem "," _ x Hcomma Hxm). }
    destruct tl as [|y tl'].
    + cbn [render_tail map]. rewrite app_empty_r. rewrite Hc0.
      rewrite span_all by exact Hsp. rewrite Hbad, Hne'. reflexivity.
    + rewrite render_tail_cons.
      change ((String c0 s0 ++ String "," (render_attrs (y :: tl'))))
        with (String c0 (s0 ++ String "," (render_attrs (y :: tl')))) at 1.
      cbv iota. rewrite Hc0.
      rewrite span_app; [|exact Hsp|reflexivity].
      rewrite Hbad, Hne'. rewrite render_attrs_eqb. rewrite IH; [|discriminate|exact Htl|].
      * cbn [map]. now rewrite <- app_assoc.
      * rewrite render_tail_cons in Hf. rewrite slen_app in Hf. cbn [slen String.length] in Hf.
        unfold slen in *. lia.
Qed.

Lemma parse_attr_list_render l : l <> [] -> forallb sitem_ok l = true ->
  parse_attr_list (render_attrs l) = Some (map to_sattr l).
Proof.
  intros Hne Hok. unfold parse_attr_list.
  pose proof (parse_attr_items_render l (S (slen (render_attrs l))) [] Hne Hok (Nat.lt_succ_diag_r _)) as P.
  destruct l as [|x l]; [congruence|].
  destruct (render_attrs (x :: l)) eqn:E; [exfalso; eapply render_attrs_nonempty; eauto|exact P].
Qed.

(* ---------- whatever the strict attribute-list parser accepts is free of CR and LF ---------- *)
Lemma span_spec (p : ascii -> bool) s a b :
  span p s = (a, b) -> s = a ++ b /\ (forall x, mem_char x a = true -> p x = true).
Proof.
  revert a b; induction s as [|c s IH]; intros a b H; simpl in H.
  - inversion H; subst. split; [reflexivity|discriminate].
  - destruct (p c) eqn:Ec.
    + destruct (span p s) as [a' b'] eqn:E. inversion H; subst. destruct (IH _ _ eq_refl) as [-> Hall].
      split; [reflexivity|]. intros x Hx. simpl in Hx. apply orb_true_iff in Hx as [Hx|Hx]; auto.
      apply Ascii.eqb_eq in Hx. now subst.
    + inversion H; subst. split; [reflexivity|discriminate].
Qed.

Lemma no_crlf_of_pred (p : ascii -> bool) a :
  p CR = false -> p LF = false -> (forall x, mem_char x a = true -> p x = true) -> no_crlf a = true.
Proof.
  intros Hc Hl Hall. unfold no_crlf. induction a as [|x a IH]; [reflexivity|].
  assert (Hx : p x = true) by (apply Hall; simpl; now rewrite Ascii.eqb_refl).
  assert (IH' : no_byte LF a && no_byte CR a = true)
    by (apply IH; intros y Hy; apply Hall; simpl; now rewrite Hy, orb_true_r).
  apply andb_true_iff in IH' as [A B]. cbn [no_byte]. rewrite A, B.
  destruct (Ascii.eqb_spec x LF); [subst; congruence|]. destruct (Ascii.eqb_spec x CR); [subst; congruence|].
  reflexivity.
Qed.

Lemma has_char_false_no_crlf s :
  has_char (fun x => Ascii.eqb x CR || Ascii.eqb x LF) s = false -> no_crlf s = true.
Proof.
  unfold no_crlf. induction s as [|a s IH]; [reflexivity|]. cbn [has_char no_byte]. intros H.
  apply orb_false_iff in H as [Ha Hs]. apply orb_false_iff in Ha as [A B].
  specialize (IH Hs). apply andb_true_iff in IH as [C D]. now rewrite A, B, C, D.
Qed.

Lemma has_char_ws_no_crlf s : has_char (fun x => Ascii.eqb x DQ || is_ws x) s = false -> no_crlf s = true.
Proof.
  intros H. apply has_char_false_no_crlf. induction s as [|a s IH]; [reflexivity|].
  cbn [has_char] in *. apply orb_false_iff in H as [Ha Hs]. apply orb_false_iff in Ha as [_ Ha].
  rewrite (IH Hs), orb_false_r.
  destruct (Ascii.eqb_spec a CR); [subst; discriminate Ha|]. destruct (Ascii.eqb_spec a LF); [subst; discriminate Ha|].
  reflexivity.
Qed.

Lemma match_eq_char {A} (r : string) (X : string -> option A) l :
  match r with String "="%char v => X v | _ => None end = Some l -> exists v, r = String "=" v /\ X v = Some l.
Proof.
  destruct r as [|c v]; [discriminate|].
  destruct c as [[|] [|] [|] [|] [|] [|] [|] [|]]; simpl; try discriminate. eauto.
Qed.

Lemma match_comma_char {A} (r : string) (X : string -> option A) (Y : option A) l :
  match r with "" => Y | String ","%char v => X v | _ => None end = Some l ->
  (r = "" /\ Y = Some l) \/ exists v, r = String "," v /\ X v = Some l.
Proof.
  destruct r as [|c v]; [auto|].
  destruct c as [[|] [|] [|] [|] [|] [|] [|] [|]]; simpl; try discriminate. eauto.
Qed.

Lemma parse_attr_items_no_crlf f : forall s acc l, parse_attr_items f s acc = Some l -> no_crlf s = true.
Proof.
  induction f as [|f IH]; intros s acc l H; [discriminate|].
  rewrite parse_attr_items_S in H.
  destruct (span (fun c => mem_char c name_chars) s) as [name r] eqn:Es.
  destruct (span_spec _ _ _ _ Es) as [-> Hname].
  assert (Hn : no_crlf name = true) by (apply (no_crlf_of_pred _ _ eq_refl eq_refl Hname)).
  rewrite no_crlf_app, Hn. cbn [andb].
  apply match_eq_char in H as (v & -> & H).
  rewrite no_crlf_string. change (Ascii.eqb "=" LF) with false. change (Ascii.eqb "=" CR) with false. cbn [negb andb].
  destruct (String.eqb name ""); [discriminate|].
  destruct v as [|c v']; [discriminate|].
  destruct (Ascii.eqb_spec c DQ).
  - subst c. destruct (index_byte DQ v') as [j|] eqn:Ej; [|discriminate].
    cbv zeta in H.
    destruct (has_char (fun x => Ascii.eqb x CR || Ascii.eqb x LF) (take j v')) eqn:Ec; [discriminate|].
    rewrite no_crlf_string. change (Ascii.eqb DQ LF) with false. change (Ascii.eqb DQ CR) with false. cbn [negb andb].
    rewrite (index_byte_split _ _ _ Ej), no_crlf_app, (has_char_false_no_crlf _ Ec), no_crlf_string.
    change (Ascii.eqb DQ LF) with false. change (Ascii.eqb DQ CR) with false. cbn [negb andb].
    apply match_comma_char in H as [[-> _]|(rest' & -> & H)]; [reflexivity|].
    destruct (String.eqb rest' ""); [discriminate|].
    rewrite no_crlf_string. change (Ascii.eqb "," LF) with false. change (Ascii.eqb "," CR) with false. cbn [negb andb].
    eapply IH; eauto.
  - destruct (span (fun x => negb (Ascii.eqb x ",")) (String c v')) as [val rest] eqn:Ev.
    destruct (span_spec _ _ _ _ Ev) as [Eq _]. rewrite Eq.
    destruct (has_char (fun x => Ascii.eqb x DQ || is_ws x) val) eqn:Eb; [discriminate|].
    destruct (String.eqb val ""); [discriminate|].
    rewrite no_crlf_app, (has_char_ws_no_crlf _ Eb). cbn [andb].
    destruct rest as [|c1 rest']; [reflexivity|].
    destruct (String.eqb rest' ""); [discriminate|].
    assert (Hc1 : c1 = ","%char).
    { clear - Ev. revert val Ev. generalize (String c v'). intros s. induction s as [|a s IHs]; intros val Ev; simpl in Ev.
      - discriminate.
      - destruct (negb (Ascii.eqb a ",")) eqn:Ea.
        + destruct (span (fun x => negb (Ascii.eqb x ",")) s) as [a' b'] eqn:E. inversion Ev; subst. eapply IHs; eauto.
        + inversion Ev; subst. apply negb_false_iff, Ascii.eqb_eq in Ea. auto. }
    subst c1. rewrite no_crlf_string. change (Ascii.eqb "," LF) with false. change (Ascii.eqb "," CR) with false.
    cbn [negb andb]. eapply IH; eauto.
Qed.

Lemma parse_attr_list_no_crlf s l : parse_attr_list s = Some l -> no_crlf s = true.
Proof.
  unfold parse_attr_list. destruct s; [discriminate|]. apply parse_attr_items_no_crlf.
Qed.
