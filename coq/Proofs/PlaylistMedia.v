(* C14, playlist level (Media): Unmarshal (Marshal p) for a value p satisfying the documented
   requirements, line by line. *)
From Coq Require Import List ZArith Bool String Ascii Lia.
From GoHls Require Import Model.PlaylistBase Model.Playlist Model.PlaylistSpec
  Proofs.PlaylistStr Proofs.PlaylistNum Proofs.PlaylistAttrs Proofs.PlaylistTags Proofs.PlaylistTotal.
Import ListNotations.
Local Open Scope string_scope.
Local Open Scope Z_scope.

Local Arguments byterange_marshal : simpl never.
Local Arguments byterange_unmarshal : simpl never.
Local Arguments fmt_int : simpl never.
Local Arguments parse_uint : simpl never.

(* ---------- ReadLine on a terminated line ---------- *)
Lemma get_no_byte c s : no_byte c s = true -> forall n a, String.get n s = Some a -> Ascii.eqb a c = false.
Proof.
  induction s as [|x s IH]; intros H n a G; [destruct n; discriminate|].
  simpl in H. apply andb_true_iff in H as [Hx Hs]. destruct n; simpl in G.
  - inversion G; subst. now apply negb_true_iff in Hx.
  - eauto.
Qed.

Lemma read_line_lf line rest :
  no_crlf line = true -> read_line (line ++ lf ++ rest) = Ok (line, rest).
Proof.
  unfold no_crlf. intros H. apply andb_true_iff in H as [H1 H2].
  unfold read_line, lf. change (String LF "" ++ rest) with (String LF rest).
  rewrite index_byte_app_sep by exact H1. rewrite slice_to_app. cbn [bind]. rewrite slice_from_app_S. cbn [bind].
  destruct (Nat.eqb (slen line) 0) eqn:E; cbn [negb]; [reflexivity|].
  apply Nat.eqb_neq in E.
  unfold byte_at. destruct (get_lt (slen line - 1) line ltac:(lia)) as [c Hc]. rewrite Hc. cbn [bind].
  now rewrite (get_no_byte CR line H2 _ _ Hc).
Qed.

Lemma setter_eta_media :
  (forall m, m_independent m = false -> m_set_independent m false = m)
  /\ (forall m, m_allowcache m = None -> m_set_allowcache m None = m)
  /\ (forall m, m_servercontrol m = None -> m_set_servercontrol m None = m)
  /\ (forall m, m_partinf m = None -> m_set_partinf m None = m)
  /\ (forall m, m_discseq m = None -> m_set_discseq m None = m)
  /\ (forall m, m_playlisttype m = None -> m_set_playlisttype m None = m)
  /\ (forall m, m_map m = None -> m_set_map m None = m)
  /\ (forall m, m_skip m = None -> m_set_skip m None = m)
  /\ (forall m, m_preloadhint m = None -> m_set_preloadhint m None = m)
  /\ (forall m, m_endlist m = false -> m_set_endlist m false = m).
Proof. repeat split; intros m H; destruct m; simpl in *; subst; reflexivity. Qed.

Lemma setter_eta_segment :
  (forall s, sg_discontinuity s = false -> seg_set_discontinuity s false = s)
  /\ (forall s, sg_gap s = false -> seg_set_gap s false = s)
  /\ (forall s, sg_datetime s = None -> seg_set_datetime s None = s)
  /\ (forall s, sg_bitrate s = None -> seg_set_bitrate s None = s)
  /\ (forall s, sg_brlen s = None -> sg_brstart s = None -> seg_set_byterange s None None = s)
  /\ (forall s, seg_set_parts s (sg_parts s) = s).
Proof. repeat split; intros s; intros; destruct s; simpl in *; subst; reflexivity. Qed.

Section WithOracles.
Variable orc : oracles.
Hypothesis OK : oracle_ok orc.

Definition mk (m : Media) (k : option MediaKey) (cur : MediaSegment) : mstate :=
  {| ms_m := m; ms_curKey := k; ms_curSegment := cur |}.

(* the line loop, with the fuel quantified away (Proofs/PlaylistTotal shows the fuel of
   Media.Unmarshal suffices) *)
Definition run (st : mstate) (s : string) (r : mstate) : Prop :=
  exists f, media_loop orc f st s = Ok r.

Lemma run_nil st : run st "" st.
Proof. exists 1%nat. reflexivity. Qed.

Lemma run_line st line rest st' r :
  no_crlf line = true -> line <> "" ->
  media_line orc st line = Ok st' -> run st' rest r -> run st (line ++ lf ++ rest) r.
Proof.
  intros Hl Hne Hm [f Hf]. exists (S f). cbn [media_loop]. rewrite read_line_lf by exact Hl. cbn [bind].
  destruct line; [congruence|]. cbn [String.eqb andb]. rewrite Hm. cbn [bind]. exact Hf.
Qed.

(* "#TAG:" ++ body ++ "\n", as the marshal functions build it *)
Lemma run_tag st pfx body rest st' r :
  no_crlf pfx = true -> pfx <> "" -> no_crlf body = true ->
  media_line orc st (pfx ++ body) = Ok st' -> run st' rest r ->
  run st ((pfx ++ body ++ lf) ++ rest) r.
Proof.
  intros Hp Hne Hb Hm Hr. rewrite !app_assoc'. rewrite <- (app_assoc' pfx body).
  apply run_line with st'; auto.
  - now rewrite no_crlf_app, Hp, Hb.
  - destruct pfx; [congruence|discriminate].
Qed.

Lemma run_skip st rest r : run st rest r -> run st ("" ++ rest) r.
Proof. auto. Qed.

(* ---------- dispatch of each kind of line ---------- *)
Lemma ml_version st body :
  media_line orc st ("#EXT-X-VERSION:" ++ body) =
  do tmp <- of_option (parse_uint 31 body) ;;
  if tmp >? maxSupportedVersion then Err else Ok (ms_with_m st (m_set_version (ms_m st) tmp)).
Proof. reflexivity. Qed.

Lemma ml_independent st : media_line orc st "#EXT-X-INDEPENDENT-SEGMENTS" =
  Ok (ms_with_m st (m_set_independent (ms_m st) true)).
Proof. reflexivity. Qed.

Lemma ml_start st body : media_line orc st ("#EXT-X-START:" ++ body) =
  do t <- start_unmarshal orc body ;; Ok (ms_with_m st (m_set_start (ms_m st) (Some t))).
Proof. reflexivity. Qed.

Lemma ml_allowcache st body : media_line orc st ("#EXT-X-ALLOW-CACHE:" ++ body) =
  Ok (ms_with_m st (m_set_allowcache (ms_m st) (Some (yes body)))).
Proof. reflexivity. Qed.

Lemma ml_targetduration st body : media_line orc st ("#EXT-X-TARGETDURATION:" ++ body) =
  do line <- match index_byte "." body with Some i => slice_to i body | None => Ok body end ;;
  do tmp <- of_option (parse_uint 31 line) ;;
  Ok (ms_with_m st (m_set_targetduration (ms_m st) tmp)).
Proof. reflexivity. Qed.

Lemma ml_servercontrol st body : media_line orc st ("#EXT-X-SERVER-CONTROL:" ++ body) =
  do t <- server_control_unmarshal orc body ;; Ok (ms_with_m st (m_set_servercontrol (ms_m st) (Some t))).
Proof. reflexivity. Qed.

Lemma ml_partinf st body : media_line orc st ("#EXT-X-PART-INF:" ++ body) =
  do t <- part_inf_unmarshal orc body ;; Ok (ms_with_m st (m_set_partinf (ms_m st) (Some t))).
Proof. reflexivity. Qed.

Lemma ml_mediasequence st body : media_line orc st ("#EXT-X-MEDIA-SEQUENCE:" ++ body) =
  do tmp <- of_option (parse_uint 31 body) ;; Ok (ms_with_m st (m_set_mediasequence (ms_m st) tmp)).
Proof. reflexivity. Qed.

Lemma ml_discseq st body : media_line orc st ("#EXT-X-DISCONTINUITY-SEQUENCE:" ++ body) =
  do tmp <- of_option (parse_uint 31 body) ;; Ok (ms_with_m st (m_set_discseq (ms_m st) (Some tmp))).
Proof. reflexivity. Qed.

Lemma ml_playlisttype st body : media_line orc st ("#EXT-X-PLAYLIST-TYPE:" ++ body) =
  if negb (String.eqb body "EVENT") && negb (String.eqb body "VOD") then Err
  else Ok (ms_with_m st (m_set_playlisttype (ms_m st) (Some body))).
Proof. reflexivity. Qed.

Lemma ml_map st body : media_line orc st ("#EXT-X-MAP:" ++ body) =
  do t <- map_unmarshal body ;; Ok (ms_with_m st (m_set_map (ms_m st) (Some t))).
Proof. reflexivity. Qed.

Lemma ml_key st body : media_line orc st ("#EXT-X-KEY:" ++ body) =
  do t <- key_unmarshal body ;; Ok (ms_with_key st (Some t)).
Proof. reflexivity. Qed.

Lemma ml_skip st body : media_line orc st ("#EXT-X-SKIP:" ++ body) =
  do t <- skip_unmarshal body ;; Ok (ms_with_m st (m_set_skip (ms_m st) (Some t))).
Proof. reflexivity. Qed.

Lemma ml_discontinuity st : media_line orc st "#EXT-X-DISCONTINUITY" =
  Ok (ms_with_seg st (seg_set_discontinuity (ms_curSegment st) true)).
Proof. reflexivity. Qed.

Lemma ml_gap st : media_line orc st "#EXT-X-GAP" = Ok (ms_with_seg st (seg_set_gap (ms_curSegment st) true)).
Proof. reflexivity. Qed.

Lemma ml_datetime st body : media_line orc st ("#EXT-X-PROGRAM-DATE-TIME:" ++ body) =
  do tmp <- of_option (parse_time orc body) ;;
  Ok (ms_with_seg st (seg_set_datetime (ms_curSegment st) (Some tmp))).
Proof. reflexivity. Qed.

Lemma ml_bitrate st body : media_line orc st ("#EXT-X-BITRATE:" ++ body) =
  do tmp <- of_option (parse_uint 31 body) ;;
  Ok (ms_with_seg st (seg_set_bitrate (ms_curSegment st) (Some tmp))).
Proof. reflexivity. Qed.

Lemma ml_extinf st body : media_line orc st ("#EXTINF:" ++ body) =
  let parts := split_n2 "," body in
  if negb (Nat.eqb (List.length parts) 2) then Err
  else do p0 <- list_at 0 parts ;; do d <- duration_unmarshal orc p0 ;; do p1 <- list_at 1 parts ;;
       Ok (ms_with_seg st (seg_set_extinf (ms_curSegment st) d (trim_space p1) (ms_curKey st))).
Proof. reflexivity. Qed.

Lemma ml_byterange st body : media_line orc st ("#EXT-X-BYTERANGE:" ++ body) =
  do br <- byterange_unmarshal body ;;
  Ok (ms_with_seg st (seg_set_byterange (ms_curSegment st) (Some (fst br)) (snd br))).
Proof. reflexivity. Qed.

Lemma ml_part st body : media_line orc st ("#EXT-X-PART:" ++ body) =
  do part <- part_unmarshal orc body ;;
  Ok (ms_with_seg st (seg_set_parts (ms_curSegment st) (sg_parts (ms_curSegment st) ++ [part]))).
Proof. reflexivity. Qed.

Lemma ml_hint st body : media_line orc st ("#EXT-X-PRELOAD-HINT:" ++ body) =
  do t <- preload_hint_unmarshal body ;; Ok (ms_with_m st (m_set_preloadhint (ms_m st) (Some t))).
Proof. reflexivity. Qed.

Lemma ml_endlist st : media_line orc st "#EXT-X-ENDLIST" = Ok (ms_with_m st (m_set_endlist (ms_m st) true)).
Proof. reflexivity. Qed.

Lemma ml_uri st c r : Ascii.eqb c "#" = false ->
  media_line orc st (String c r) =
  do _ <- segment_validate (seg_set_uri (ms_curSegment st) (String c r)) ;;
  Ok {| ms_m := m_set_segments (ms_m st) (m_segments (ms_m st) ++ [seg_set_uri (ms_curSegment st) (String c r)]);
        ms_curKey := ms_curKey st; ms_curSegment := segment0 |}.
Proof.
  intros H. unfold media_line.
  assert (Hs : Ascii.eqb "#" c = false) by (rewrite Ascii.eqb_sym; exact H).
  cbn [has_prefix String.eqb]. rewrite Hs. cbn [andb].
  cbn [slen String.length Nat.eqb negb byte_at String.get bind]. rewrite H. cbn [negb]. reflexivity.
Qed.


(* ---------- header lines ---------- *)
Lemma reassoc3 (a b c d : string) : a ++ b ++ c ++ d = (a ++ b ++ c) ++ d.
Proof. now rewrite !app_assoc'. Qed.

Lemma fmt_int_no_crlf z : 0 <= z -> no_crlf (fmt_int z) = true.
Proof. intros H. apply digits_no_crlf. apply fmt_int_digits; auto. Qed.

Lemma hdr_version m k cur v REST r : 0 <= v <= maxSupportedVersion ->
  run (mk (m_set_version m v) k cur) REST r ->
  run (mk m k cur) ("#EXT-X-VERSION:" ++ fmt_int v ++ lf ++ REST) r.
Proof.
  intros Hv H. rewrite reassoc3. unfold maxSupportedVersion in Hv.
  eapply run_tag; [reflexivity|discriminate|apply fmt_int_no_crlf; lia| |exact H].
  rewrite ml_version, parse_uint_fmt_int by lia. cbn [of_option bind].
  replace (v >? maxSupportedVersion) with false; [reflexivity|].
  symmetry. unfold maxSupportedVersion. rewrite Z.gtb_ltb. apply Z.ltb_ge. lia.
Qed.

Lemma hdr_independent m k cur (b : bool) REST r : m_independent m = false ->
  run (mk (m_set_independent m b) k cur) REST r ->
  run (mk m k cur) ((if b then "#EXT-X-INDEPENDENT-SEGMENTS" ++ lf else "") ++ REST) r.
Proof.
  intros Hm H. destruct b.
  - rewrite app_assoc'. eapply run_line; [reflexivity|discriminate| |exact H]. apply ml_independent.
  - destruct setter_eta_media as (E & _). rewrite E in H by exact Hm. exact H.
Qed.

Lemma m_set_start_none m : m_start m = None -> m_set_start m None = m.
Proof. intros H. destruct m; simpl in *; subst; reflexivity. Qed.

Lemma hdr_start st : opt_ok (fun t => dur_signed (st_timeoffset t)) st = true ->
  exists st', opt_eqvb start_eqvb st st' = true
    /\ match st' with Some t => start_marshal orc t | None => "" end =
       match st with Some t => start_marshal orc t | None => "" end
    /\ forall m k cur REST r, m_start m = None -> run (mk (m_set_start m st') k cur) REST r ->
         run (mk m k cur) (match st with Some t => start_marshal orc t | None => "" end ++ REST) r.
Proof.
  intros Hwf. destruct st as [t|]; cbn [opt_ok] in *.
  - destruct (start_roundtrip orc OK t Hwf) as (t' & Hu & He & Hf).
    exists (Some t'). split; [exact He|]. split; [exact Hf|]. intros m k cur REST r Hm H.
    rewrite start_marshal_render.
    eapply run_tag; [reflexivity|discriminate|apply render_attrs_no_crlf, start_attrs_ok; auto| |exact H].
    rewrite ml_start, Hu. reflexivity.
  - exists None. split; [reflexivity|]. split; [reflexivity|]. intros m k cur REST r Hm H.
    rewrite m_set_start_none in H by exact Hm. exact H.
Qed.

Lemma hdr_allowcache m k cur (o : option bool) REST r : m_allowcache m = None ->
  run (mk (m_set_allowcache m o) k cur) REST r ->
  run (mk m k cur) (match o with
                    | Some b => "#EXT-X-ALLOW-CACHE:" ++ (if b then "YES" else "NO") ++ lf
                    | None => "" end ++ REST) r.
Proof.
  intros Hm H. destruct o as [b|].
  - eapply run_tag; [reflexivity|discriminate|destruct b; reflexivity| |exact H].
    rewrite ml_allowcache. destruct b; reflexivity.
  - destruct setter_eta_media as (_ & E & _). rewrite E in H by exact Hm. exact H.
Qed.

Lemma hdr_targetduration m k cur v REST r : 0 <= v < 2 ^ 31 ->
  run (mk (m_set_targetduration m v) k cur) REST r ->
  run (mk m k cur) ("#EXT-X-TARGETDURATION:" ++ fmt_int v ++ lf ++ REST) r.
Proof.
  intros Hv H. rewrite reassoc3.
  eapply run_tag; [reflexivity|discriminate|apply fmt_int_no_crlf; lia| |exact H].
  rewrite ml_targetduration.
  rewrite index_byte_none by (apply digits_only_no_byte; [apply fmt_int_digits; lia|reflexivity]).
  cbn [bind]. rewrite parse_uint_fmt_int by lia. reflexivity.
Qed.

Lemma hdr_server_control sc :
  opt_ok wf_server_control sc = true ->
  exists sc', opt_eqvb sc_eqvb sc sc' = true
    /\ match sc' with Some t => server_control_marshal orc t | None => "" end =
       match sc with Some t => server_control_marshal orc t | None => "" end
    /\ forall m k cur REST r, m_servercontrol m = None ->
                 run (mk (m_set_servercontrol m sc') k cur) REST r ->
                 run (mk m k cur) (match sc with Some t => server_control_marshal orc t | None => "" end ++ REST) r.
Proof.
  intros Hwf. destruct sc as [t|]; cbn [opt_ok] in *.
  - destruct (server_control_roundtrip orc OK t Hwf) as (t' & Hu & He & Hf).
    exists (Some t'). split; [exact He|]. split; [exact Hf|]. intros m k cur REST r Hm H.
    rewrite server_control_marshal_render.
    eapply run_tag; [reflexivity|discriminate|apply render_attrs_no_crlf, sc_attrs_ok; auto| |exact H].
    rewrite ml_servercontrol, Hu. reflexivity.
  - exists None. split; [reflexivity|]. split; [reflexivity|]. intros m k cur REST r Hm H.
    destruct setter_eta_media as (_ & _ & E & _). rewrite E in H by exact Hm. exact H.
Qed.

Lemma hdr_part_inf pi :
  opt_ok (fun t => dur_pos (pi_parttarget t)) pi = true ->
  exists pi', opt_eqvb (fun x y => dur_close (pi_parttarget x) (pi_parttarget y)) pi pi' = true
    /\ match pi' with Some t => part_inf_marshal orc t | None => "" end =
       match pi with Some t => part_inf_marshal orc t | None => "" end
    /\ forall m k cur REST r, m_partinf m = None ->
                 run (mk (m_set_partinf m pi') k cur) REST r ->
                 run (mk m k cur) (match pi with Some t => part_inf_marshal orc t | None => "" end ++ REST) r.
Proof.
  intros Hwf. destruct pi as [t|]; cbn [opt_ok] in *.
  - destruct (part_inf_roundtrip orc OK t Hwf) as (t' & Hu & He & Hf).
    exists (Some t'). split; [exact He|]. split; [exact Hf|]. intros m k cur REST r Hm H.
    rewrite part_inf_marshal_render.
    eapply run_tag; [reflexivity|discriminate|apply render_attrs_no_crlf, part_inf_attrs_ok; auto| |exact H].
    rewrite ml_partinf, Hu. reflexivity.
  - exists None. split; [reflexivity|]. split; [reflexivity|]. intros m k cur REST r Hm H.
    destruct setter_eta_media as (_ & _ & _ & E & _). rewrite E in H by exact Hm. exact H.
Qed.

Lemma hdr_mediasequence m k cur v REST r : 0 <= v < 2 ^ 31 ->
  run (mk (m_set_mediasequence m v) k cur) REST r ->
  run (mk m k cur) ("#EXT-X-MEDIA-SEQUENCE:" ++ fmt_int v ++ lf ++ REST) r.
Proof.
  intros Hv H. rewrite reassoc3.
  eapply run_tag; [reflexivity|discriminate|apply fmt_int_no_crlf; lia| |exact H].
  rewrite ml_mediasequence, parse_uint_fmt_int by lia. reflexivity.
Qed.

Lemma hdr_discseq m k cur (ds : option Z) REST r : m_discseq m = None -> opt_ok int31 ds = true ->
  run (mk (m_set_discseq m ds) k cur) REST r ->
  run (mk m k cur) (match ds with
                    | Some d => "#EXT-X-DISCONTINUITY-SEQUENCE:" ++ fmt_int d ++ lf
                    | None => "" end ++ REST) r.
Proof.
  intros Hm Hv H. destruct ds as [d|]; cbn [opt_ok] in Hv.
  - apply int31_range in Hv.
    eapply run_tag; [reflexivity|discriminate|apply fmt_int_no_crlf; lia| |exact H].
    rewrite ml_discseq, parse_uint_fmt_int by lia. reflexivity.
  - destruct setter_eta_media as (_ & _ & _ & _ & E & _). rewrite E in H by exact Hm. exact H.
Qed.

Lemma hdr_playlisttype m k cur (o : option string) REST r : m_playlisttype m = None ->
  opt_ok (fun t => String.eqb t "EVENT" || String.eqb t "VOD") o = true ->
  run (mk (m_set_playlisttype m o) k cur) REST r ->
  run (mk m k cur) (match o with Some t => "#EXT-X-PLAYLIST-TYPE:" ++ t ++ lf | None => "" end ++ REST) r.
Proof.
  intros Hm Hwf H. destruct o as [t|]; cbn [opt_ok] in *.
  - assert (Ht : t = "EVENT" \/ t = "VOD") by
      (apply orb_true_iff in Hwf as [E|E]; apply String.eqb_eq in E; auto).
    eapply run_tag; [reflexivity|discriminate|destruct Ht; subst; reflexivity| |exact H].
    rewrite ml_playlisttype. destruct Ht; subst; reflexivity.
  - destruct setter_eta_media as (_ & _ & _ & _ & _ & E & _). rewrite E in H by exact Hm. exact H.
Qed.

Lemma hdr_map m k cur (o : option MediaMap) REST r : m_map m = None -> opt_ok wf_map o = true ->
  run (mk (m_set_map m o) k cur) REST r ->
  run (mk m k cur) (match o with Some t => map_marshal t | None => "" end ++ REST) r.
Proof.
  intros Hm Hwf H. destruct o as [t|]; cbn [opt_ok] in *.
  - rewrite map_marshal_render.
    eapply run_tag; [reflexivity|discriminate|apply render_attrs_no_crlf, map_attrs_ok; auto| |exact H].
    rewrite ml_map, map_roundtrip by auto. reflexivity.
  - destruct setter_eta_media as (_ & _ & _ & _ & _ & _ & E & _). rewrite E in H by exact Hm. exact H.
Qed.

Lemma hdr_skip m k cur (o : option MediaSkip) REST r : m_skip m = None ->
  opt_ok (fun t => int31 (sk_skipped t)) o = true ->
  run (mk (m_set_skip m o) k cur) REST r ->
  run (mk m k cur) (match o with Some t => skip_marshal t | None => "" end ++ REST) r.
Proof.
  intros Hm Hwf H. destruct o as [t|]; cbn [opt_ok] in *.
  - rewrite skip_marshal_render.
    eapply run_tag; [reflexivity|discriminate|apply render_attrs_no_crlf, skip_attrs_ok; auto| |exact H].
    rewrite ml_skip, skip_roundtrip by auto. reflexivity.
  - destruct setter_eta_media as (_ & _ & _ & _ & _ & _ & _ & E & _). rewrite E in H by exact Hm. exact H.
Qed.

Lemma trl_hint m k cur (o : option MediaPreloadHint) REST r : m_preloadhint m = None ->
  opt_ok wf_hint o = true ->
  run (mk (m_set_preloadhint m o) k cur) REST r ->
  run (mk m k cur) (match o with Some t => preload_hint_marshal t | None => "" end ++ REST) r.
Proof.
  intros Hm Hwf H. destruct o as [t|]; cbn [opt_ok] in *.
  - rewrite hint_marshal_render.
    eapply run_tag; [reflexivity|discriminate|apply render_attrs_no_crlf, hint_attrs_ok; auto| |exact H].
    rewrite ml_hint, hint_roundtrip by auto. reflexivity.
  - destruct setter_eta_media as (_ & _ & _ & _ & _ & _ & _ & _ & E & _). rewrite E in H by exact Hm. exact H.
Qed.

Lemma trl_endlist m k cur (b : bool) r : m_endlist m = false ->
  r = mk (m_set_endlist m b) k cur ->
  run (mk m k cur) (if b then "#EXT-X-ENDLIST" ++ lf else "") r.
Proof.
  intros Hm ->. destruct b.
  - rewrite <- (app_empty_r ("#EXT-X-ENDLIST" ++ lf)). rewrite app_assoc'.
    eapply run_line; [reflexivity|discriminate|apply ml_endlist|apply run_nil].
  - destruct setter_eta_media as (_ & _ & _ & _ & _ & _ & _ & _ & _ & E). rewrite E by exact Hm. apply run_nil.
Qed.

(* ---------- EXT-X-PART lines (inside a segment and trailing) ---------- *)
Lemma concat_cons (x : string) l : String.concat "" (x :: l) = x ++ String.concat "" l.
Proof. destruct l; cbn [String.concat]; [now rewrite app_empty_r|reflexivity]. Qed.

Lemma parts_run : forall ps,
  forallb wf_part ps = true ->
  exists ps', list_eqvb part_eqvb ps ps' = true
    /\ String.concat "" (map (part_marshal orc) ps') = String.concat "" (map (part_marshal orc) ps)
    /\ forall m k cur REST r, run (mk m k (seg_set_parts cur (sg_parts cur ++ ps'))) REST r ->
                 run (mk m k cur) (String.concat "" (map (part_marshal orc) ps) ++ REST) r.
Proof.
  induction ps as [|p ps IH]; intros Hwf.
  - exists []. split; [reflexivity|]. split; [reflexivity|]. intros m k cur REST r H.
    rewrite app_nil_r in H. destruct setter_eta_segment as (_ & _ & _ & _ & _ & E). rewrite E in H. exact H.
  - cbn [forallb] in Hwf. apply andb_true_iff in Hwf as [Hp Hps].
    destruct (part_roundtrip orc OK p Hp) as (p' & Hu & He & Hf).
    destruct (IH Hps) as (ps' & He' & Hf' & Hrun).
    exists (p' :: ps'). split; [cbn [list_eqvb]; now rewrite He, He'|].
    split; [cbn [map]; now rewrite !concat_cons, Hf, Hf'|].
    intros m k cur REST r H. cbn [map]. rewrite concat_cons, app_assoc'. rewrite part_marshal_render.
    eapply run_tag; [reflexivity|discriminate|apply render_attrs_no_crlf, part_attrs_ok; auto| |].
    + rewrite ml_part, Hu. reflexivity.
    + apply Hrun. destruct cur; unfold ms_with_seg, mk, seg_set_parts in *; simpl in *.
      rewrite <- app_assoc. exact H.
Qed.


(* ---------- the lines of one segment ---------- *)
Lemma seg_disc m k cur (b : bool) REST r : sg_discontinuity cur = false ->
  run (mk m k (seg_set_discontinuity cur b)) REST r ->
  run (mk m k cur) ((if b then "#EXT-X-DISCONTINUITY" ++ lf else "") ++ REST) r.
Proof.
  intros Hc H. destruct b.
  - rewrite app_assoc'. eapply run_line; [reflexivity|discriminate|apply ml_discontinuity|exact H].
  - destruct setter_eta_segment as (E & _). rewrite E in H by exact Hc. exact H.
Qed.

Lemma seg_gap m k cur (b : bool) REST r : sg_gap cur = false ->
  run (mk m k (seg_set_gap cur b)) REST r ->
  run (mk m k cur) ((if b then "#EXT-X-GAP" ++ lf else "") ++ REST) r.
Proof.
  intros Hc H. destruct b.
  - rewrite app_assoc'. eapply run_line; [reflexivity|discriminate|apply ml_gap|exact H].
  - destruct setter_eta_segment as (_ & E & _). rewrite E in H by exact Hc. exact H.
Qed.

Lemma seg_datetime (o : option dtime) : opt_ok time_ok o = true ->
  exists o', opt_eqvb time_close o o' = true
    /\ match o' with Some t => "#EXT-X-PROGRAM-DATE-TIME:" ++ fmt_time orc t ++ lf | None => "" end =
       match o with Some t => "#EXT-X-PROGRAM-DATE-TIME:" ++ fmt_time orc t ++ lf | None => "" end
    /\ forall m k cur REST r, sg_datetime cur = None -> run (mk m k (seg_set_datetime cur o')) REST r ->
         run (mk m k cur) (match o with
                           | Some t => "#EXT-X-PROGRAM-DATE-TIME:" ++ fmt_time orc t ++ lf
                           | None => "" end ++ REST) r.
Proof.
  intros Hwf. destruct o as [t|]; cbn [opt_ok] in *.
  - destruct (ok_time orc OK t Hwf) as (t' & Hp & Hcl & Hf).
    exists (Some t'). split; [exact Hcl|]. split; [now rewrite Hf|]. intros m k cur REST r Hc H.
    eapply run_tag; [reflexivity|discriminate|apply (ok_time_chars orc OK)| |exact H].
    rewrite ml_datetime, Hp. reflexivity.
  - exists None. split; [reflexivity|]. split; [reflexivity|]. intros m k cur REST r Hc H.
    destruct setter_eta_segment as (_ & _ & E & _). rewrite E in H by exact Hc. exact H.
Qed.

Lemma seg_bitrate m k cur (o : option Z) REST r : sg_bitrate cur = None -> opt_ok int31 o = true ->
  run (mk m k (seg_set_bitrate cur o)) REST r ->
  run (mk m k cur) (match o with Some b => "#EXT-X-BITRATE:" ++ fmt_int b ++ lf | None => "" end ++ REST) r.
Proof.
  intros Hc Hwf H. destruct o as [b|]; cbn [opt_ok] in *.
  - apply int31_range in Hwf.
    eapply run_tag; [reflexivity|discriminate|apply fmt_int_no_crlf; lia| |exact H].
    rewrite ml_bitrate, parse_uint_fmt_int by lia. reflexivity.
  - destruct setter_eta_segment as (_ & _ & _ & E & _). rewrite E in H by exact Hc. exact H.
Qed.

Lemma drop_app_S a c b : drop (S (slen a)) (a ++ String c b) = b.
Proof. induction a as [|x a IH]; simpl; [destruct b; reflexivity|exact IH]. Qed.

Lemma title_ok_facts t : title_ok t = true -> no_crlf t = true /\ trim_space t = t.
Proof. unfold title_ok. intros H. apply andb_true_iff in H as [H1 H2]. apply String.eqb_eq in H2. auto. Qed.

Lemma seg_extinf d title : dur_pos d = true -> title_ok title = true ->
  exists d', dur_close d d' = true /\ fmt_dur orc d' = fmt_dur orc d /\ (d' =? 0) = false
    /\ forall m k cur REST r, run (mk m k (seg_set_extinf cur d' title k)) REST r ->
                 run (mk m k cur) ("#EXTINF:" ++ fmt_dur orc d ++ "," ++ title ++ lf ++ REST) r.
Proof.
  intros Hd Ht. destruct (dur_pos_any _ Hd) as [Ha Hbig].
  destruct (dur_facts orc OK _ Ha) as (d' & Hp & Hc & Hf & Hnz & Hch). specialize (Hnz Hbig).
  destruct (title_ok_facts _ Ht) as [Ht1 Ht2].
  exists d'. repeat split; auto. intros m k cur REST r H.
  replace ("#EXTINF:" ++ fmt_dur orc d ++ "," ++ title ++ lf ++ REST)
    with (("#EXTINF:" ++ (fmt_dur orc d ++ "," ++ title) ++ lf) ++ REST) by (now rewrite !app_assoc').
  eapply run_tag; [reflexivity|discriminate| | |exact H].
  - rewrite no_crlf_app, (num_chars_no_crlf _ Hch). change ("," ++ title) with (String "," title).
    rewrite no_crlf_string, Ht1. reflexivity.
  - rewrite ml_extinf. change ("," ++ title) with (String "," title).
    unfold split_n2. rewrite index_byte_app_sep by (apply num_chars_no_byte; auto; discriminate).
    rewrite take_app_exact.
    rewrite drop_app_S.
    cbn [List.length Nat.eqb negb list_at nth_error bind]. unfold duration_unmarshal. rewrite Hp.
    cbn [of_option bind]. rewrite Ht2. reflexivity.
Qed.

Lemma seg_byterange m k cur (l s : option Z) REST r :
  sg_brlen cur = None -> sg_brstart cur = None -> byterange_ok l s = true ->
  run (mk m k (seg_set_byterange cur l s)) REST r ->
  run (mk m k cur) (match l with
                    | Some x => "#EXT-X-BYTERANGE:" ++ byterange_marshal x s ++ lf
                    | None => "" end ++ REST) r.
Proof.
  intros Hc1 Hc2 Hwf H. destruct l as [x|].
  - destruct (byterange_ok_some _ _ Hwf) as [Hb1 Hb2].
    eapply run_tag; [reflexivity|discriminate| | |exact H].
    + unfold no_crlf. rewrite !byterange_chars by (auto; discriminate). reflexivity.
    + rewrite ml_byterange, byterange_roundtrip by auto. reflexivity.
  - destruct s; [rewrite byterange_ok_none in Hwf; discriminate|].
    destruct setter_eta_segment as (_ & _ & _ & _ & E & _). rewrite E in H by auto. exact H.
Qed.

Lemma uri_line_facts u : uri_line_ok u = true ->
  no_crlf u = true /\ exists c r, u = String c r /\ Ascii.eqb c "#" = false.
Proof.
  unfold uri_line_ok. intros H. apply andb_true_iff in H as [H1 H2]. split; [exact H1|].
  destruct u as [|c r]; [discriminate|]. exists c, r. split; auto. now apply negb_true_iff in H2.
Qed.

Lemma seg_uri m k cur u REST r : uri_line_ok u = true -> (sg_duration cur =? 0) = false ->
  run (mk (m_set_segments m (m_segments m ++ [seg_set_uri cur u])) k segment0) REST r ->
  run (mk m k cur) (u ++ lf ++ REST) r.
Proof.
  intros Hu Hd H. destruct (uri_line_facts _ Hu) as (Hn & c & rr & -> & Hc).
  eapply run_line; [exact Hn|discriminate| |exact H].
  rewrite ml_uri by exact Hc. unfold segment_validate. cbn [mk ms_curSegment ms_m ms_curKey].
  destruct cur as [cd ct cu cdi cg cdt cb ck cbl cbs cp]; cbn [sg_duration sg_uri seg_set_uri] in *. rewrite Hd. reflexivity.
Qed.

Ltac seg_proj :=
  cbn [sg_duration sg_title sg_uri sg_discontinuity sg_gap sg_datetime sg_bitrate sg_key sg_brlen
       sg_brstart sg_parts seg_set_uri seg_set_byterange seg_set_extinf seg_set_parts seg_set_bitrate
       seg_set_datetime seg_set_gap seg_set_discontinuity segment0 app].

Definition seg_with_key (s : MediaSegment) (k : option MediaKey) : MediaSegment :=
  {| sg_duration := sg_duration s; sg_title := sg_title s; sg_uri := sg_uri s;
     sg_discontinuity := sg_discontinuity s; sg_gap := sg_gap s; sg_datetime := sg_datetime s;
     sg_bitrate := sg_bitrate s; sg_key := k; sg_brlen := sg_brlen s; sg_brstart := sg_brstart s;
     sg_parts := sg_parts s |}.

Lemma key_equal_refl k : key_equal k k = true.
Proof. unfold key_equal. now rewrite !String.eqb_refl. Qed.

Lemma opt_eqvb_Z_refl (o : option Z) : opt_eqvb Z.eqb o o = true.
Proof. destruct o; simpl; auto using Z.eqb_refl. Qed.

Lemma segment_run k seg : wf_segment seg = true ->
  exists seg', segment_eqvb (seg_with_key seg k) seg' = true /\ sg_key seg' = k
    /\ segment_marshal orc seg' = segment_marshal orc seg
    /\ forall m REST r, run (mk (m_set_segments m (m_segments m ++ [seg'])) k segment0) REST r ->
                 run (mk m k segment0) (segment_marshal orc seg ++ REST) r.
Proof.
  unfold wf_segment. intros H. split_and H.
  destruct seg as [d title uri disc gap dt br key brl brs parts];
    cbn [sg_duration sg_title sg_uri sg_discontinuity sg_gap sg_datetime sg_bitrate sg_key sg_brlen sg_brstart sg_parts] in *.
  assert (Hdur : dur_pos d = true) by assumption.
  assert (Htitle : title_ok title = true) by assumption.
  assert (Huri : uri_line_ok uri = true) by assumption.
  assert (Hdt : opt_ok time_ok dt = true) by assumption.
  assert (Hbr : opt_ok int31 br = true) by assumption.
  assert (Hrange : byterange_ok brl brs = true) by assumption.
  assert (Hparts : forallb wf_part parts = true) by assumption.
  set (c1 := seg_set_gap (seg_set_discontinuity segment0 disc) gap).
  destruct (seg_datetime dt Hdt) as (dt' & Edt & Fdt & Rdt).
  set (c2 := seg_set_bitrate (seg_set_datetime c1 dt') br).
  destruct (parts_run parts Hparts) as (parts' & Eps & Fps & Rps).
  set (c3 := seg_set_parts c2 (sg_parts c2 ++ parts')).
  destruct (seg_extinf d title Hdur Htitle) as (d' & Ed & Fd & Nd & Rd).
  set (c4 := seg_set_byterange (seg_set_extinf c3 d' title k) brl brs).
  exists (seg_set_uri c4 uri).
  split; [|split; [reflexivity|split]].
  - unfold segment_eqvb, seg_with_key, c4, c3, c2, c1. seg_proj.
    rewrite Ed, Edt, Eps, !String.eqb_refl, !opt_eqvb_Z_refl.
    destruct disc, gap; cbn [Bool.eqb andb]; destruct k; cbn [opt_eqvb]; rewrite ?key_equal_refl; reflexivity.
  - unfold segment_marshal, c4, c3, c2, c1. seg_proj. rewrite Fd, Fps, Fdt. reflexivity.
  - intros m REST r Hrun. unfold segment_marshal. seg_proj. rewrite !app_assoc'.
    apply seg_disc; [reflexivity|]. apply seg_gap; [reflexivity|]. fold c1.
    apply Rdt; [reflexivity|]. apply seg_bitrate; [reflexivity|exact Hbr|]. fold c2.
    apply Rps. fold c3. apply Rd.
    apply seg_byterange; [reflexivity|reflexivity|exact Hrange|]. fold c4.
    apply seg_uri; [exact Huri|exact Nd|exact Hrun].
Qed.


(* ---------- the segment list, with EXT-X-KEY lines ---------- *)
Lemma m_set_segments_twice m x y : m_set_segments (m_set_segments m x) y = m_set_segments m y.
Proof. reflexivity. Qed.

Lemma m_set_segments_same m : m_set_segments m (m_segments m) = m.
Proof. destruct m; reflexivity. Qed.

Lemma seg_with_key_same s : seg_with_key s (sg_key s) = s.
Proof. destruct s; reflexivity. Qed.

Lemma segment_eqvb_key s k s' :
  segment_eqvb (seg_with_key s k) s' = true ->
  opt_eqvb key_equal (sg_key s) (sg_key s') = true -> segment_eqvb s s' = true.
Proof.
  unfold segment_eqvb, seg_with_key. simpl. intros H Hk. split_and H.
  repeat (apply andb_true_iff; split); auto.
Qed.

Lemma segments_run : forall segs prevKey,
  forallb wf_segment segs = true -> keys_sticky (is_some prevKey) segs = true ->
  exists segs' lastKey, list_eqvb segment_eqvb segs segs' = true
    /\ segments_marshal orc prevKey segs' = segments_marshal orc prevKey segs
    /\ forall m REST r, run (mk (m_set_segments m (m_segments m ++ segs')) lastKey segment0) REST r ->
                 run (mk m prevKey segment0) (segments_marshal orc prevKey segs ++ REST) r.
Proof.
  induction segs as [|seg segs IH]; intros prevKey Hwf Hst.
  - exists [], prevKey. split; [reflexivity|]. split; [reflexivity|]. intros m REST r H.
    rewrite app_nil_r, m_set_segments_same in H. exact H.
  - cbn [forallb] in Hwf. apply andb_true_iff in Hwf as [Hs Hss].
    assert (Hk : opt_ok wf_key (sg_key seg) = true).
    { unfold wf_segment in Hs. split_and Hs. assumption. }
    cbn [keys_sticky segments_marshal] in *.
    destruct (sg_key seg) as [kk|] eqn:Ek; cbn [opt_ok] in Hk.
    + destruct (match prevKey with None => true | Some pk => negb (key_equal kk pk) end) eqn:Ec.
      * (* a key line is printed *)
        destruct (segment_run (Some kk) seg Hs) as (seg' & Es & Eks & Fs & Rs).
        destruct (IH (Some kk) Hss Hst) as (segs' & lastKey & Ess & Fss & Rss).
        exists (seg' :: segs'), lastKey. split; [|split].
        -- cbn [list_eqvb]. rewrite Ess, andb_true_r. eapply segment_eqvb_key; [exact Es|].
           rewrite Ek, Eks. cbn [opt_eqvb]. apply key_equal_refl.
        -- cbn [segments_marshal]. rewrite Eks, Ec, Fs, Fss. reflexivity.
        -- intros m REST r H. rewrite !app_assoc'. rewrite key_marshal_render.
           rewrite <- (app_assoc' (segment_marshal orc seg)).
           eapply run_tag; [reflexivity|discriminate|apply render_attrs_no_crlf, key_attrs_ok; auto| |].
           ++ rewrite ml_key, key_roundtrip by auto. reflexivity.
           ++ cbn [bind ms_with_key mk ms_m ms_curKey ms_curSegment]. rewrite app_assoc'. apply Rs. apply Rss.
              rewrite m_set_segments_twice. cbn [m_segments m_set_segments]. rewrite <- app_assoc. exact H.
      * (* same key as before: no line *)
        destruct prevKey as [pk|]; [|discriminate]. apply negb_false_iff in Ec.
        destruct (segment_run (Some pk) seg Hs) as (seg' & Es & Eks & Fs & Rs).
        destruct (IH (Some pk) Hss Hst) as (segs' & lastKey & Ess & Fss & Rss).
        exists (seg' :: segs'), lastKey. split; [|split].
        -- cbn [list_eqvb]. rewrite Ess, andb_true_r. eapply segment_eqvb_key; [exact Es|].
           rewrite Ek, Eks. cbn [opt_eqvb]. exact Ec.
        -- cbn [segments_marshal]. rewrite Eks. rewrite key_equal_refl. cbn [negb]. rewrite Fs, Fss. reflexivity.
        -- intros m REST r H. rewrite app_assoc'. apply Rs. apply Rss.
           rewrite m_set_segments_twice. cbn [m_segments m_set_segments]. rewrite <- app_assoc. exact H.
    + apply andb_true_iff in Hst as [Hseen Hst]. apply negb_true_iff in Hseen.
      destruct prevKey as [pk|]; [discriminate|]. cbn [is_some] in *.
      destruct (segment_run None seg Hs) as (seg' & Es & Eks & Fs & Rs).
      destruct (IH None Hss Hst) as (segs' & lastKey & Ess & Fss & Rss).
      exists (seg' :: segs'), lastKey. split; [|split].
      * cbn [list_eqvb]. rewrite Ess, andb_true_r. eapply segment_eqvb_key; [exact Es|].
        rewrite Ek, Eks. reflexivity.
      * cbn [segments_marshal]. rewrite Eks, Fs, Fss. reflexivity.
      * intros m REST r H. rewrite app_assoc'. apply Rs. apply Rss.
        rewrite m_set_segments_twice. cbn [m_segments m_set_segments]. rewrite <- app_assoc. exact H.
Qed.

(* ---------- fuel: more fuel does not change a result ---------- *)
Lemma media_loop_mono f : forall st s R f',
  media_loop orc f st s = R -> R <> OutOfFuel -> (f <= f')%nat -> media_loop orc f' st s = R.
Proof.
  induction f as [|f IH]; intros st s R f' H Hn Hle; simpl in H; [congruence|].
  destruct f' as [|f']; [lia|]. cbn [media_loop].
  destruct (read_line s) as [[line s']| | |]; cbn [bind] in *; auto.
  destruct (String.eqb line "" && String.eqb s' ""); auto.
  destruct (media_line orc st line) as [st'| | |]; cbn [bind] in *; auto.
  apply IH with (f' := f') in H; auto. lia.
Qed.

Lemma run_fuel st s r f : run st s r -> safe (media_loop orc f st s) -> media_loop orc f st s = Ok r.
Proof.
  intros [f0 H0] Hs.
  destruct (Nat.le_ge_cases f0 f) as [Hle|Hle].
  - eapply media_loop_mono; eauto. discriminate.
  - assert (Hn : media_loop orc f st s <> OutOfFuel) by (intros E; rewrite E in Hs; exact Hs).
    pose proof (media_loop_mono f st s _ f0 eq_refl Hn Hle) as E. congruence.
Qed.


(* ---------- Media.Unmarshal (Media.Marshal p) ---------- *)
Lemma opt_eqvb_refl {A} (f : A -> A -> bool) (o : option A) : (forall x, f x x = true) -> opt_eqvb f o o = true.
Proof. intros H. destruct o; simpl; auto. Qed.

Lemma map_eqvb_refl t : map_eqvb t t = true.
Proof. unfold map_eqvb. now rewrite String.eqb_refl, !opt_eqvb_Z_refl. Qed.

Lemma hint_eqvb_refl t : hint_eqvb t t = true.
Proof. unfold hint_eqvb. now rewrite String.eqb_refl, Z.eqb_refl, opt_eqvb_Z_refl. Qed.

Lemma list_eqvb_nonempty {A} (f : A -> A -> bool) a b :
  list_eqvb f a b = true -> negb (Nat.eqb (List.length a) 0) = true -> Nat.eqb (List.length b) 0 = false.
Proof. destruct a, b; simpl; auto; discriminate. Qed.

Ltac media_proj :=
  cbn [m_version m_independent m_start m_allowcache m_targetduration m_servercontrol m_partinf
       m_mediasequence m_discseq m_playlisttype m_map m_skip m_segments m_parts m_preloadhint m_endlist].

Theorem media_roundtrip p : wf_media p = true ->
  exists p', media_unmarshal orc (media_marshal orc p) = Ok p'
    /\ media_eqvb p p' = true
    /\ media_marshal orc p' = media_marshal orc p.
Proof.
  unfold wf_media. intros H. split_and H.
  destruct p as [ver indep start ac td sc pi mseq ds pt mp sk segs parts hint endl]. media_proj.
  cbn [m_version m_independent m_start m_allowcache m_targetduration m_servercontrol m_partinf
       m_mediasequence m_discseq m_playlisttype m_map m_skip m_segments m_parts m_preloadhint m_endlist] in *.
  assert (Hver1 : 0 <= ver) by (apply Z.leb_le; assumption).
  assert (Hver2 : ver <= maxSupportedVersion) by (apply Z.leb_le; assumption).
  assert (Hstart : opt_ok (fun t => dur_signed (st_timeoffset t)) start = true) by assumption.
  assert (Htd1 : 0 < td) by (apply Z.ltb_lt; assumption).
  assert (Htd2 : td < 2 ^ 31) by (apply Z.ltb_lt; assumption).
  assert (Hsc : opt_ok wf_server_control sc = true) by assumption.
  assert (Hpi : opt_ok (fun t => dur_pos (pi_parttarget t)) pi = true) by assumption.
  assert (Hms : int31 mseq = true) by assumption. apply int31_range in Hms.
  assert (Hds : opt_ok int31 ds = true) by assumption.
  assert (Hpt : opt_ok (fun t => String.eqb t "EVENT" || String.eqb t "VOD") pt = true) by assumption.
  assert (Hmp : opt_ok wf_map mp = true) by assumption.
  assert (Hsk : opt_ok (fun t => int31 (sk_skipped t)) sk = true) by assumption.
  assert (Hne : negb (Nat.eqb (List.length segs) 0) = true) by assumption.
  assert (Hsegs : forallb wf_segment segs = true) by assumption.
  assert (Hsticky : keys_sticky false segs = true) by assumption.
  assert (Hparts : forallb wf_part parts = true) by assumption.
  assert (Hhint : opt_ok wf_hint hint = true) by assumption.
  destruct (hdr_start start Hstart) as (start' & Est & Fst & Rst).
  destruct (hdr_server_control sc Hsc) as (sc' & Esc & Fsc & Rsc).
  destruct (hdr_part_inf pi Hpi) as (pi' & Epi & Fpi & Rpi).
  destruct (segments_run segs None Hsegs Hsticky) as (segs' & lastKey & Esegs & Fsegs & Rsegs).
  destruct (parts_run parts Hparts) as (parts' & Eparts & Fparts & Rparts).
  set (p' := {| m_version := ver; m_independent := indep; m_start := start'; m_allowcache := ac;
                m_targetduration := td; m_servercontrol := sc'; m_partinf := pi';
                m_mediasequence := mseq; m_discseq := ds;
                m_playlisttype := pt; m_map := mp; m_skip := sk; m_segments := segs';
                m_parts := parts'; m_preloadhint := hint; m_endlist := endl |}).
  exists p'. split; [|split].
  - unfold media_unmarshal, media_marshal. media_proj.
    unfold skip_header. rewrite read_line_lf by reflexivity. cbn [bind String.eqb Ascii.eqb Bool.eqb].
    match goal with |- context [media_loop orc ?f ?st ?s] =>
      assert (Hrun : exists r, run st s r /\ m_set_parts (ms_m r) (sg_parts (ms_curSegment r)) = p') end.
    { eexists. split.
      - apply hdr_version; [unfold maxSupportedVersion in *; lia|].
        apply hdr_independent; [reflexivity|].
        apply Rst; [reflexivity|].
        apply hdr_allowcache; [reflexivity|].
        apply hdr_targetduration; [lia|].
        apply Rsc; [reflexivity|].
        apply Rpi; [reflexivity|].
        apply hdr_mediasequence; [lia|].
        apply hdr_discseq; [reflexivity|exact Hds|].
        apply hdr_playlisttype; [reflexivity|exact Hpt|].
        apply hdr_map; [reflexivity|exact Hmp|].
        apply hdr_skip; [reflexivity|exact Hsk|].
        apply Rsegs. apply Rparts.
        apply trl_hint; [reflexivity|exact Hhint|].
        apply trl_endlist; [reflexivity|reflexivity].
      - reflexivity. }
    destruct Hrun as (r & Hr & Ep).
    rewrite (run_fuel _ _ _ _ Hr).
    2:{ apply media_loop_safe. rewrite !slen_app. simpl. lia. }
    cbn [bind]. rewrite Ep. unfold p'. media_proj.
    replace (td =? 0) with false by (symmetry; apply Z.eqb_neq; lia).
    rewrite (list_eqvb_nonempty _ _ _ Esegs Hne). reflexivity.
  - unfold media_eqvb, p'. media_proj.
    rewrite !Z.eqb_refl, Est, Esc, Epi, Esegs, Eparts, !eqb_reflx, opt_eqvb_Z_refl.
    rewrite (opt_eqvb_refl Bool.eqb ac eqb_reflx), (opt_eqvb_refl String.eqb pt String.eqb_refl),
      (opt_eqvb_refl map_eqvb mp map_eqvb_refl), (opt_eqvb_refl hint_eqvb hint hint_eqvb_refl).
    rewrite (opt_eqvb_refl (fun x y => sk_skipped x =? sk_skipped y) sk (fun x => Z.eqb_refl _)).
    reflexivity.
  - unfold media_marshal, p'. media_proj. rewrite Fst, Fsc, Fpi, Fsegs, Fparts. reflexivity.
Qed.

End WithOracles.
