(* Lemmas about the byte-string primitives of Model/PlaylistBase.v *)
From Coq Require Import List ZArith Bool String Ascii Lia.
From GoHls Require Import Model.PlaylistBase.
Import ListNotations.
Local Open Scope string_scope.

Lemma slen_app a b : slen (a ++ b) = (slen a + slen b)%nat.
Proof. unfold slen. induction a; simpl; auto. Qed.

Lemma slen_take n s : slen (take n s) = Nat.min n (slen s).
Proof. revert s; induction n; destruct s; simpl; auto. Qed.

Lemma slen_drop n s : slen (drop n s) = (slen s - n)%nat.
Proof. revert s; induction n; destruct s; simpl; auto. Qed.

Lemma take_drop n s : take n s ++ drop n s = s.
Proof. revert s; induction n; destruct s; simpl; auto. now rewrite IHn. Qed.

Lemma take_app_exact a b : take (slen a) (a ++ b) = a.
Proof. induction a; simpl; [destruct b; reflexivity | now rewrite IHa]. Qed.

Lemma drop_app_exact a b : drop (slen a) (a ++ b) = b.
Proof. induction a; simpl; auto. Qed.

Lemma drop_0 s : drop 0 s = s.
Proof. destruct s; reflexivity. Qed.

Lemma take_all s : take (slen s) s = s.
Proof. induction s; simpl; congruence. Qed.

Lemma app_empty_r (s : string) : s ++ "" = s.
Proof. induction s; simpl; congruence. Qed.

Lemma app_assoc' (a b c : string) : (a ++ b) ++ c = a ++ (b ++ c).
Proof. induction a; simpl; congruence. Qed.

Lemma slen_0 s : slen s = 0%nat -> s = "".
Proof. destruct s; simpl; congruence. Qed.

Lemma index_byte_lt c s i : index_byte c s = Some i -> (i < slen s)%nat.
Proof.
  revert i; induction s as [|a s IH]; simpl; intros i H; [discriminate|].
  destruct (Ascii.eqb a c).
  - inversion H; lia.
  - destruct (index_byte c s) eqn:E; simpl in H; [|discriminate].
    inversion H; subst. specialize (IH _ eq_refl). lia.
Qed.

Lemma index_byte_get c s i : index_byte c s = Some i -> String.get i s = Some c.
Proof.
  revert i; induction s as [|a s IH]; simpl; intros i H; [discriminate|].
  destruct (Ascii.eqb_spec a c).
  - inversion H; subst; reflexivity.
  - destruct (index_byte c s) eqn:E; simpl in H; [|discriminate].
    inversion H; subst. simpl. auto.
Qed.

Lemma has_prefix_len p s : has_prefix p s = true -> (slen p <= slen s)%nat.
Proof.
  revert s; induction p as [|a p IH]; intros s H; simpl; [lia|].
  destruct s as [|b s]; simpl in H; [discriminate|].
  apply andb_true_iff in H as [_ H]. apply IH in H. simpl. lia.
Qed.

Lemma has_prefix_app p s : has_prefix p (p ++ s) = true.
Proof. induction p; simpl; auto. rewrite Ascii.eqb_refl. auto. Qed.

Lemma has_prefix_split p s : has_prefix p s = true -> s = p ++ drop (slen p) s.
Proof.
  revert s; induction p as [|a p IH]; intros s H; simpl.
  - destruct s; reflexivity.
  - destruct s as [|b s]; simpl in H; [discriminate|].
    apply andb_true_iff in H as [E H]. apply Ascii.eqb_eq in E; subst.
    simpl. f_equal. auto.
Qed.

Lemma get_lt n s : (n < slen s)%nat -> exists c, String.get n s = Some c.
Proof.
  revert n; induction s as [|a s IH]; simpl; intros n H; [lia|].
  destruct n; [eauto|]. apply IH. lia.
Qed.

Lemma split_byte_nonempty c s : split_byte c s <> [].
Proof.
  induction s as [|a s IH]; simpl; [discriminate|].
  destruct (Ascii.eqb a c); [discriminate|].
  destruct (split_byte c s); [congruence|discriminate].
Qed.

Lemma split_byte_sep_len c a b : (2 <= List.length (split_byte c (a ++ String c b)))%nat.
Proof.
  induction a as [|x a IH]; simpl.
  - rewrite Ascii.eqb_refl. simpl.
    pose proof (split_byte_nonempty c b). destruct (split_byte c b); [congruence|simpl; lia].
  - destruct (Ascii.eqb x c); simpl; [lia|].
    destruct (split_byte c (a ++ String c b)) eqn:E; simpl in *; lia.
Qed.

Lemma split_n2_len c s : List.length (split_n2 c s) = 1%nat \/ List.length (split_n2 c s) = 2%nat.
Proof. unfold split_n2. destruct (index_byte c s); simpl; auto. Qed.
