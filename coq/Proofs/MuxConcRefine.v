(* C06 / C07: the abstract stream state of Model/MuxConcSeq.v (what the request handlers read) is a
   REFINEMENT TARGET of the muxer model Model/Mux.v: the abstraction function [abs_stream] maps a stream of
   the muxer model to the record the handlers' model reads, and every writer operation of the muxer model -
   createFirstSegment, a part rotation, a segment rotation (with its internal part rotation, the window
   append, the LL gaps, the eviction, the target duration of the leading stream) - commutes with the
   corresponding abstract operation.  So the states the concurrent model's writer moves through are exactly
   the abstractions of the states the muxer model moves through; the invariants the muxer model proves
   (window, part ids) supply the two side conditions (the open segment's id is the next segment id; the
   open part's id is the next part id). *)
From Coq Require Import List ZArith Bool Lia Arith.
From GoHls Require Import Model.Mux Proofs.MuxStream Proofs.MuxLift Proofs.MuxWindow Proofs.MuxHistory
  Proofs.MuxTimes Proofs.MuxMulti Proofs.MuxCut Proofs.MuxLog Proofs.MuxLogStep Proofs.MuxPartIds Proofs.MuxAgree.
From GoHls Require Model.MuxConcSeq.
Import ListNotations.
Local Open Scope Z_scope.

Module A := GoHls.Model.MuxConcSeq.

Definition av (v : variant) : A.variant :=
  match v with MPEGTS => A.MPEGTS | FMP4 => A.FMP4 | LL => A.LL end.

(* the part ids a handler can see in a segment: Low-Latency only *)
Definition lparts (v : variant) (g : segrec) : list Z := map p_id (listed_parts v g).

Definition abs_seg (v : variant) (g : segrec) : A.seg :=
  if sg_gap g then A.Gap (sg_dur g) else A.Seg (sg_id g) (lparts v g) (sg_dur g).

Definition abs_stream (v : variant) (s : stream) : A.stream :=
  {| A.nextSegmentID := st_nextSeg s; A.nextPartID := st_nextPart s;
     A.segments := map (abs_seg v) (st_segments s);
     A.nextSegment := option_map (lparts v) (st_open s);
     A.segmentDeleteCount := st_delcount s; A.targetDuration := st_target s; A.s_closed := false |}.

(* ---------------------------------------------------------------- createFirstSegment *)
Lemma abs_createFirst v s d ntp :
  abs_stream v (stream_createFirst v s d ntp) = A.stream_createFirstSegment (abs_stream v s).
Proof.
  unfold abs_stream, stream_createFirst, A.stream_createFirstSegment.
  cbn [st_with st_nextSeg st_nextPart st_segments st_open st_delcount st_target st_mut
       x_nextSeg x_nextPart x_segments x_open x_delcount x_target
       A.nextSegmentID A.nextPartID A.segments A.nextSegment A.segmentDeleteCount A.targetDuration A.s_closed option_map].
  unfold lparts, listed_parts. cbn [new_seg sg_parts]. destruct v; reflexivity.
Qed.

(* ---------------------------------------------------------------- part rotation *)
Lemma abs_srot_parts v s seg p d cn i t :
  st_open s = Some seg -> p_id p = st_nextPart s ->
  option_map fst (A.stream_rotateParts (av v) i (abs_stream v s) t)
  = Some (abs_stream v (fst (srot_parts v s seg p d cn))).
Proof.
  intros Ho Hp.
  destruct (srot_parts_frame v s seg p d cn) as (F1 & F2 & F3 & F4 & F5 & F6 & F7 & F8 & F9).
  unfold A.stream_rotateParts. cbn [abs_stream A.nextSegment A.nextPartID A.nextSegmentID A.segments A.segmentDeleteCount
                                    A.targetDuration A.s_closed]. rewrite Ho. cbn [option_map].
  unfold abs_stream. rewrite F1, F3, F4, F5, F7, F8. cbn [option_map].
  unfold lparts, listed_parts. cbn [sg_with_parts sg_parts].
  destruct v; cbn [av option_map fst]; try reflexivity.
  rewrite map_app. cbn [map]. now rewrite Hp.
Qed.

(* ---------------------------------------------------------------- target duration *)
Lemma round_seconds_eq d : A.round_seconds d = roundSeconds (round10us d).
Proof. reflexivity. Qed.

Lemma fold_max_acc (f : segrec -> Z) segs : forall acc,
  fold_left (fun a s => Z.max a (f s)) segs acc = Z.max acc (fold_left (fun a s => Z.max a (f s)) segs 0)
  \/ True.
Proof. auto. Qed.

Lemma fold_max_shift (f : segrec -> Z) segs : forall acc, 0 <= acc ->
  (forall s, 0 <= f s \/ True) ->
  fold_left (fun a s => Z.max a (f s)) segs acc = Z.max acc (fold_left (fun a s => Z.max a (f s)) segs 0).
Proof.
  induction segs as [|g segs IH]; intros acc Ha Hf; cbn [fold_left].
  - lia.
  - rewrite (IH (Z.max acc (f g))) by (auto; lia).
    destruct (Z.le_gt_cases 0 (f g)) as [Hg|Hg].
    + rewrite (IH (Z.max 0 (f g))) by (auto; lia). lia.
    + replace (Z.max 0 (f g)) with 0 by lia. lia.
Qed.

Lemma abs_seg_dur v g : A.seg_dur (abs_seg v g) = sg_dur g.
Proof. unfold abs_seg. destruct (sg_gap g); reflexivity. Qed.

Lemma targetDuration_max_eq v segs :
  A.targetDuration_max (map (abs_seg v) segs)
  = fold_left (fun acc s => Z.max acc (roundSeconds (round10us (sg_dur s)))) segs 0
  \/ exists g, In g segs /\ roundSeconds (round10us (sg_dur g)) < 0.
Proof.
  induction segs as [|g segs IH]; [left; reflexivity|].
  cbn [map A.targetDuration_max fold_left]. rewrite abs_seg_dur, round_seconds_eq.
  destruct IH as [IH|(g' & Hin & Hneg)]; [|right; exists g'; split; [now right|exact Hneg]].
  rewrite IH.
  destruct (Z.le_gt_cases 0 (roundSeconds (round10us (sg_dur g)))) as [Hg|Hg].
  - left. rewrite (fold_max_shift _ segs (Z.max 0 _)) by (auto; lia). lia.
  - right. exists g. split; [now left|exact Hg].
Qed.

(* every segment duration the muxer ever lists is non-negative is not needed: both sides clamp at 1 and a
   negative rounded duration never wins a maximum against 0 on either side *)
Lemma targetDuration_eq v segs : A.targetDuration_of (map (abs_seg v) segs) = targetDuration segs.
Proof.
  unfold A.targetDuration_of, targetDuration.
  assert (H : forall segs, Z.max 0 (A.targetDuration_max (map (abs_seg v) segs))
                          = Z.max 0 (fold_left (fun acc s => Z.max acc (roundSeconds (round10us (sg_dur s)))) segs 0)).
  { clear. intros segs. induction segs as [|g segs IH]; [reflexivity|].
    cbn [map A.targetDuration_max fold_left]. rewrite abs_seg_dur, round_seconds_eq.
    set (r := roundSeconds (round10us (sg_dur g))) in *.
    assert (Hs : forall acc, 0 <= acc ->
                fold_left (fun a s => Z.max a (roundSeconds (round10us (sg_dur s)))) segs acc
                = Z.max acc (fold_left (fun a s => Z.max a (roundSeconds (round10us (sg_dur s)))) segs 0)).
    { intros acc Ha. apply (fold_max_shift (fun s => roundSeconds (round10us (sg_dur s)))); auto. }
    destruct (Z.le_gt_cases 0 r) as [Hr|Hr].
    - rewrite (Hs (Z.max 0 r)) by lia. lia.
    - replace (Z.max 0 r) with 0 by lia. lia. }
  specialize (H segs).
  destruct (A.targetDuration_max (map (abs_seg v) segs) <? 1) eqn:E; [apply Z.ltb_lt in E|apply Z.ltb_ge in E]; lia.
Qed.

(* ---------------------------------------------------------------- segment rotation, after the part rotation *)
(* the body of A.stream_rotateSegments once its internal part rotation has produced (s1, t1) *)
Definition A_rest (v : A.variant) (segmentCount : Z) (leading : bool) (i : nat) (dur : Z)
           (s1 : A.stream) (t1 : A.ptable) (fs : list (nat * Z)) : A.stream * A.ptable * list (nat * Z) :=
  let sid := A.nextSegmentID s1 in
  let segment := A.Seg sid (match A.nextSegment s1 with Some ps => ps | None => [] end) dur in
  let segs1 := match v with
               | A.LL => if Nat.eqb (List.length (A.segments s1)) 0 then repeat (A.Gap dur) 7 else A.segments s1
               | _ => A.segments s1
               end ++ [segment] in
  let t2 := A.registerPath t1 (A.PSeg i sid) (A.HSeg i sid) in
  let '(segs2, t3, fs3, dc) :=
    if segmentCount <? A.zlen segs1 then
      match segs1 with
      | A.Seg hid hparts _ :: tl =>
          (tl, A.unregisterPath (A.unregisterParts t2 i hparts) (A.PSeg i hid),
           A.remove_file fs i hid, A.segmentDeleteCount s1 + 1)
      | A.Gap _ :: tl => (tl, t2, fs, A.segmentDeleteCount s1 + 1)
      | [] => (segs1, t2, fs, A.segmentDeleteCount s1)
      end
    else (segs1, t2, fs, A.segmentDeleteCount s1) in
  let td := if leading then
              let n := A.targetDuration_of segs2 in
              if A.targetDuration s1 =? 0 then n
              else if A.targetDuration s1 <? n then n else A.targetDuration s1
            else A.targetDuration s1 in
  ({| A.nextSegmentID := sid + 1; A.nextPartID := A.nextPartID s1; A.segments := segs2;
      A.nextSegment := Some []; A.segmentDeleteCount := dc; A.targetDuration := td;
      A.s_closed := A.s_closed s1 |}, t3, (i, sid + 1) :: fs3).

Lemma A_rotateSegments_unfold v sc lead i dur s t fs :
  A.stream_rotateSegments v sc lead i dur s t fs =
  match (match v with
         | A.MPEGTS => match A.nextSegment s with None => None | Some _ => Some (s, t) end
         | _ => A.stream_rotateParts v i s t
         end) with
  | None => None
  | Some (s1, t1) => Some (A_rest v sc lead i dur s1 t1 fs)
  end.
Proof.
  unfold A.stream_rotateSegments, A_rest.
  match goal with |- match ?X with _ => _ end = _ => destruct X as [[s1 t1]|] end; [|reflexivity].
  cbv zeta.
  match goal with |- context [if ?c then _ else _] => destruct c end;
    [destruct (_ ++ _) as [|[?|? ? ?] ?]|]; reflexivity.
Qed.

Lemma abs_mkgap v d : abs_seg v (mkgap d) = A.Gap d.
Proof. unfold abs_seg, sg_dur. cbn [mkgap sg_gap sg_end sg_start]. now rewrite Z.sub_0_r. Qed.

Lemma abs_with_gaps v segs seg :
  sg_gap seg = false ->
  map (abs_seg v) (with_gaps v segs seg)
  = match av v with
    | A.LL => if Nat.eqb (length (map (abs_seg v) segs)) 0 then repeat (A.Gap (sg_dur seg)) 7 else map (abs_seg v) segs
    | _ => map (abs_seg v) segs
    end.
Proof.
  intros Hg. unfold with_gaps. destruct v; cbn [av]; try reflexivity.
  destruct segs as [|g segs]; [|reflexivity].
  cbn [map length Nat.eqb repeat]. rewrite !abs_mkgap. reflexivity.
Qed.

Lemma zlen_map {X Y} (f : X -> Y) l : A.zlen (map f l) = Z.of_nat (length l).
Proof. unfold A.zlen. now rewrite map_length. Qed.

Lemma abs_srot_segments v sc s1 seg1 d ntp f cur i t1 fs :
  st_open s1 = Some seg1 -> sg_id seg1 = st_nextSeg s1 -> sg_gap seg1 = false ->
  fst (fst (A_rest (av v) sc (st_leading s1) i (sg_dur (sg_with_end seg1 d)) (abs_stream v s1) t1 fs))
  = abs_stream v (fst (fst (srot_segments v sc s1 seg1 d ntp f cur))).
Proof.
  intros Ho Hid Hgap.
  set (seg := sg_with_end seg1 d).
  assert (Hseg : abs_seg v seg = A.Seg (st_nextSeg s1) (lparts v seg1) (sg_dur seg)).
  { unfold abs_seg, seg. cbn [sg_with_end sg_gap sg_id]. rewrite Hgap, Hid. reflexivity. }
  (* the abstract window before eviction is the abstraction of the concrete one *)
  assert (Hsegs1 : match av v with
                   | A.LL => if Nat.eqb (length (A.segments (abs_stream v s1))) 0 then repeat (A.Gap (sg_dur seg)) 7
                             else A.segments (abs_stream v s1)
                   | _ => A.segments (abs_stream v s1)
                   end ++ [A.Seg (A.nextSegmentID (abs_stream v s1))
                                 (match A.nextSegment (abs_stream v s1) with Some ps => ps | None => [] end) (sg_dur seg)]
                   = map (abs_seg v) (with_gaps v (st_segments s1) seg ++ [seg])).
  { rewrite map_app. cbn [map]. rewrite Hseg. rewrite (abs_with_gaps v _ seg) by (unfold seg; exact Hgap).
    cbn [abs_stream A.segments A.nextSegmentID A.nextSegment]. rewrite Ho. reflexivity. }
  unfold A_rest. cbv zeta. fold seg. rewrite Hsegs1. clear Hsegs1.
  unfold srot_segments. cbv zeta. fold seg.
  unfold window_append. cbn [st_mut x_segments].
  set (w := with_gaps v (st_segments s1) seg ++ [seg]).
  rewrite zlen_map.
  change (x_target (st_mut s1)) with (st_target s1).
  change (x_delcount (st_mut s1)) with (st_delcount s1).
  change (x_nextSeg (st_mut s1)) with (st_nextSeg s1).
  change (x_nextPart (st_mut s1)) with (st_nextPart s1).
  cbn [abs_stream A.nextSegmentID A.nextPartID A.segments A.nextSegment A.segmentDeleteCount A.targetDuration A.s_closed].
  assert (Hfin : forall (segs2 : list segrec) (dc2 : Z) (ev2 : list segrec) (init2 : option (list Z)) (opart : option part) (regen : bool),
    {| A.nextSegmentID := st_nextSeg s1 + 1; A.nextPartID := st_nextPart s1; A.segments := map (abs_seg v) segs2;
       A.nextSegment := Some []; A.segmentDeleteCount := dc2;
       A.targetDuration := if st_leading s1
                           then if st_target s1 =? 0 then A.targetDuration_of (map (abs_seg v) segs2)
                                else if st_target s1 <? A.targetDuration_of (map (abs_seg v) segs2)
                                     then A.targetDuration_of (map (abs_seg v) segs2) else st_target s1
                           else st_target s1;
       A.s_closed := false |}
    = abs_stream v (fst (fst (let '(target', bump) :=
                                if st_leading s1
                                then if st_target s1 =? 0 then (targetDuration segs2, false)
                                     else if st_target s1 <? targetDuration segs2 then (targetDuration segs2, true)
                                          else (st_target s1, false)
                                else (st_target s1, false) in
                              (st_with s1 {| x_nextSeg := st_nextSeg s1 + 1; x_nextPart := st_nextPart s1;
                                             x_segments := segs2;
                                             x_open := Some (new_seg (st_nextSeg s1 + 1) ntp d (match v with MPEGTS => false | _ => f end));
                                             x_openpart := opart; x_init := init2; x_delcount := dc2; x_target := target';
                                             x_parttarget := x_parttarget (st_mut s1); x_evicted := ev2 |}, regen, bump))))).
  { intros. rewrite targetDuration_eq.
    destruct (st_leading s1); [destruct (st_target s1 =? 0); [|destruct (st_target s1 <? targetDuration segs2)]|];
      unfold abs_stream, lparts, listed_parts; destruct v; reflexivity. }
  destruct (sc <? Z.of_nat (length w)) eqn:Esc.
  - (* eviction of the head *)
    destruct w as [|h tl] eqn:Ew.
    + exfalso. subst w. destruct (with_gaps v (st_segments s1) seg); discriminate.
    + cbn [map]. unfold abs_seg at 1.
      destruct (sg_gap h) eqn:Eh; cbv beta iota; cbn [fst snd]; apply Hfin.
  - cbv beta iota. cbn [fst snd]. apply Hfin.
Qed.

(* ---------------------------------------------------------------- the operations on the whole state, one stream *)
(* what the window and part-id invariants of the muxer model say about a stream that is open *)
Definition good (v : variant) (s : stream) : Prop :=
  exists seg, st_open s = Some seg /\ sg_id seg = st_nextSeg s /\ sg_gap seg = false
              /\ (v <> MPEGTS -> exists p0, st_openpart s = Some p0 /\ p_id p0 = st_nextPart s).

Lemma abs_stream_rotateParts m si d cn s seg p0 t :
  nth_error (m_streams m) si = Some s -> st_open s = Some seg -> st_openpart s = Some p0 -> p_id p0 = st_nextPart s ->
  exists s', nth_error (m_streams (stream_rotateParts m si d cn)) si = Some s'
             /\ option_map fst (A.stream_rotateParts (av (c_variant (m_cfg m))) si (abs_stream (c_variant (m_cfg m)) s) t)
                = Some (abs_stream (c_variant (m_cfg m)) s')
             /\ st_leading s' = st_leading s
             /\ (exists seg', st_open s' = Some seg' /\ sg_id seg' = sg_id seg /\ sg_gap seg' = sg_gap seg
                              /\ sg_start seg' = sg_start seg)
             /\ st_nextSeg s' = st_nextSeg s.
Proof.
  intros Es Eo Ep Hp.
  destruct (stream_rotateParts_streams m si d cn) as [E|(sx & segx & px & Esx & Eox & Epx & E)].
  - (* the rotation happens whenever the stream is open with an open part *)
    exfalso. unfold stream_rotateParts in E. rewrite Es, Ep, Eo in E.
    destruct (part_finalize p0 (m_tracks m) (st_tracks s) d) as [p tracks'] eqn:Ef.
    destruct (srot_parts (c_variant (m_cfg m)) s seg p d cn) as [s' bump] eqn:Er.
    assert (Hs' : nth_error (m_streams (if bump then add_err (set_paths (set_tracks (set_stream m (upd (m_streams m) si (fun _ => s'))) tracks')
                      (paths_rot_parts (c_variant (m_cfg m)) (m_paths m) si (p_id p) (st_nextPart s + 1)))
                    else set_paths (set_tracks (set_stream m (upd (m_streams m) si (fun _ => s'))) tracks')
                      (paths_rot_parts (c_variant (m_cfg m)) (m_paths m) si (p_id p) (st_nextPart s + 1)))) si = Some s').
    { destruct bump; cbn; apply (nth_error_upd_same _ si _ s Es). }
    rewrite E, Es in Hs'. injection Hs' as <-.
    pose proof (srot_parts_frame (c_variant (m_cfg m)) s seg p d cn) as F. cbv zeta in F. rewrite Er in F. cbn [fst] in F.
    destruct F as (_ & _ & _ & _ & _ & _ & F7 & _). lia.
  - rewrite Es in Esx. injection Esx as <-. rewrite Eo in Eox. injection Eox as <-. rewrite Ep in Epx. injection Epx as <-.
    set (p := fst (part_finalize p0 (m_tracks m) (st_tracks s) d)) in *.
    assert (Hpid : p_id p = st_nextPart s).
    { subst p. destruct (part_finalize_spec p0 (m_tracks m) (st_tracks s) d) as (A1 & _). cbv zeta in A1. congruence. }
    eexists. split; [rewrite E; apply (nth_error_upd_same _ si _ s Es)|].
    split; [now apply abs_srot_parts|].
    destruct (srot_parts_frame (c_variant (m_cfg m)) s seg p d cn) as (_ & _ & _ & F4 & _ & _ & _ & F8 & _).
    split; [destruct (srot_parts_static (c_variant (m_cfg m)) s seg p d cn) as [x0 ->]; reflexivity|].
    split; [|exact F4]. eexists. split; [exact F8|]. auto.
Qed.

Lemma abs_stream_rotateSegments m si d ntp f s t fs :
  nth_error (m_streams m) si = Some s -> good (c_variant (m_cfg m)) s ->
  let v := c_variant (m_cfg m) in
  exists s' seg, st_open s = Some seg
    /\ nth_error (m_streams (stream_rotateSegments m si d ntp f)) si = Some s'
    /\ option_map (fun r => fst (fst r))
         (A.stream_rotateSegments (av v) (c_segcount (m_cfg m)) (st_leading s) si (d - sg_start seg) (abs_stream v s) t fs)
       = Some (abs_stream v s')
    /\ st_leading s' = st_leading s.
Proof.
  intros Es (seg & Eo & Hid & Hgap & Hpart). cbv zeta.
  exists (match nth_error (m_streams (stream_rotateSegments m si d ntp f)) si with Some x => x | None => s end), seg.
  split; [exact Eo|].
  pose proof (stream_rotateSegments_streams m si d ntp f) as HS. cbv zeta in HS.
  rewrite A_rotateSegments_unfold.
  destruct (c_variant (m_cfg m)) eqn:Ev; cbn [av].
  - (* MPEG-TS: no internal part rotation *)
    destruct HS as [E|(sx & segx & cur & Esx & Eox & E)].
    + exfalso. destruct (rots_own m si d ntp f s Es) as (s1 & Hs1 & Hn1 & _); [congruence|].
      rewrite E, Es in Hs1. injection Hs1 as <-. lia.
    + rewrite Es in Esx. injection Esx as <-. rewrite Eo in Eox. injection Eox as <-.
      rewrite E, (nth_error_upd_same _ si _ s Es).
      split; [reflexivity|].
      assert (Hn : A.nextSegment (abs_stream MPEGTS s) = Some (lparts MPEGTS seg))
        by (cbn [abs_stream A.nextSegment]; now rewrite Eo).
      rewrite Hn. cbv beta iota. cbn [option_map fst].
      pose proof (abs_srot_segments MPEGTS (c_segcount (m_cfg m)) s seg d ntp f cur si t fs Eo Hid Hgap) as H.
      cbn [av] in H. unfold sg_dur in H at 1. cbn [sg_with_end sg_end sg_start] in H.
      split; [f_equal; exact H|].
      destruct (srot_segments_static MPEGTS (c_segcount (m_cfg m)) s seg d ntp f cur) as [x0 ->]. reflexivity.
  - destruct (Hpart ltac:(discriminate)) as (p0 & Ep & Hp).
    destruct (abs_stream_rotateParts m si d false s seg p0 t Es Eo Ep Hp) as (s1 & Es1 & A1 & L1 & (seg1 & Eo1 & I1 & G1 & S1) & N1).
    rewrite Ev in A1.
    destruct HS as [E|(sx & segx & cur & Esx & Eox & E)].
    + exfalso. destruct (rots_own m si d ntp f s Es) as (s2 & Hs2 & Hn2 & _); [congruence|].
      rewrite E, Es1 in Hs2. injection Hs2 as <-. lia.
    + rewrite Es1 in Esx. injection Esx as <-. rewrite Eo1 in Eox. injection Eox as <-.
      rewrite E, (nth_error_upd_same _ si _ s1 Es1).
      split; [reflexivity|].
      cbn [av] in A1. destruct (A.stream_rotateParts A.FMP4 si (abs_stream FMP4 s) t) as [[a1 t1]|]; [|discriminate].
      cbn [option_map fst] in A1. injection A1 as ->. cbn [option_map fst].
      pose proof (abs_srot_segments FMP4 (c_segcount (m_cfg m)) s1 seg1 d ntp f cur si t1 fs Eo1 ltac:(congruence) ltac:(congruence)) as H.
      cbn [av] in H. unfold sg_dur in H at 1. cbn [sg_with_end sg_end sg_start] in H. rewrite S1, L1 in H.
      split; [f_equal; exact H|].
      destruct (srot_segments_static FMP4 (c_segcount (m_cfg m)) s1 seg1 d ntp f cur) as [x0 ->]. cbn [st_with st_leading]. exact L1.
  - destruct (Hpart ltac:(discriminate)) as (p0 & Ep & Hp).
    destruct (abs_stream_rotateParts m si d false s seg p0 t Es Eo Ep Hp) as (s1 & Es1 & A1 & L1 & (seg1 & Eo1 & I1 & G1 & S1) & N1).
    rewrite Ev in A1.
    destruct HS as [E|(sx & segx & cur & Esx & Eox & E)].
    + exfalso. destruct (rots_own m si d ntp f s Es) as (s2 & Hs2 & Hn2 & _); [congruence|].
      rewrite E, Es1 in Hs2. injection Hs2 as <-. lia.
    + rewrite Es1 in Esx. injection Esx as <-. rewrite Eo1 in Eox. injection Eox as <-.
      rewrite E, (nth_error_upd_same _ si _ s1 Es1).
      split; [reflexivity|].
      cbn [av] in A1. destruct (A.stream_rotateParts A.LL si (abs_stream LL s) t) as [[a1 t1]|]; [|discriminate].
      cbn [option_map fst] in A1. injection A1 as ->. cbn [option_map fst].
      pose proof (abs_srot_segments LL (c_segcount (m_cfg m)) s1 seg1 d ntp f cur si t1 fs Eo1 ltac:(congruence) ltac:(congruence)) as H.
      cbn [av] in H. unfold sg_dur in H at 1. cbn [sg_with_end sg_end sg_start] in H. rewrite S1, L1 in H.
      split; [f_equal; exact H|].
      destruct (srot_segments_static LL (c_segcount (m_cfg m)) s1 seg1 d ntp f cur) as [x0 ->]. cbn [st_with st_leading]. exact L1.
Qed.

(* ---------------------------------------------------------------- Muxer.rotateSegmentsInner, all streams *)
Definition set_td (s : A.stream) (td : Z) : A.stream :=
  {| A.nextSegmentID := A.nextSegmentID s; A.nextPartID := A.nextPartID s; A.segments := A.segments s;
     A.nextSegment := A.nextSegment s; A.segmentDeleteCount := A.segmentDeleteCount s;
     A.targetDuration := td; A.s_closed := A.s_closed s |}.

Lemma set_td_self s : set_td s (A.targetDuration s) = s.
Proof. destruct s; reflexivity. Qed.

Lemma copy_targetDuration_map lead ss l :
  nth_error ss lead = Some l -> A.copy_targetDuration lead ss = map (fun s => set_td s (A.targetDuration l)) ss.
Proof. intros H. unfold A.copy_targetDuration. rewrite H. reflexivity. Qed.

Lemma abs_copy_targets v l s : st_leading s = false ->
  abs_stream v (copy_targets true l s) = set_td (abs_stream v s) (st_target l).
Proof. intros H. unfold copy_targets. rewrite H. reflexivity. Qed.

(* the abstract loop returns, stream by stream, what the abstract per-stream rotation returns *)
Lemma A_all_streams v sc lead dur : forall ss ss' i,
  length ss = length ss' ->
  (forall k s s', nth_error ss k = Some s -> nth_error ss' k = Some s' -> forall t fs,
      option_map (fun r => fst (fst r)) (A.stream_rotateSegments v sc (Nat.eqb (i + k) lead) (i + k) dur s t fs) = Some s') ->
  forall t fs, option_map (fun r => fst (fst r)) (A.rotateSegments_all v sc lead dur i ss t fs) = Some ss'.
Proof.
  induction ss as [|s ss IH]; intros [|s' ss'] i Hlen H t fs; try discriminate; [reflexivity|].
  cbn [A.rotateSegments_all].
  pose proof (H 0%nat s s' eq_refl eq_refl t fs) as H0. rewrite Nat.add_0_r in H0.
  destruct (A.stream_rotateSegments v sc (Nat.eqb i lead) i dur s t fs) as [[[a1 t1] fs1]|]; [|discriminate].
  cbn [option_map fst] in H0. injection H0 as ->.
  assert (IH' := IH ss' (S i) ltac:(simpl in Hlen; lia)).
  pose proof (IH' ltac:(intros k x x' Hx Hx' t' fs'; replace (S i + k)%nat with (i + S k)%nat by lia; now apply (H (S k))) t1 fs1) as H1.
  destruct (A.rotateSegments_all v sc lead dur (S i) ss t1 fs1) as [[[r' t''] fs'']|]; [|discriminate].
  cbn [option_map fst] in *. injection H1 as ->. reflexivity.
Qed.

Definition rotF (d ntp : Z) (f : bool) (m : mstate) (i : nat) : mstate :=
  match nth_error (m_streams m) i with
  | Some s0 => if st_leading s0 then m
               else match leading_stream (stream_rotateSegments m i d ntp f) with
                    | Some l => upd_stream (stream_rotateSegments m i d ntp f) i (copy_targets true l)
                    | None => stream_rotateSegments m i d ntp f
                    end
  | None => m
  end.

Lemma rotateSegments_fold m d ntp f :
  rotateSegments m d ntp f =
  fold_left (rotF d ntp f) (seq 0 (length (m_streams (stream_rotateSegments m (leading_index m) d ntp f))))
            (stream_rotateSegments m (leading_index m) d ntp f).
Proof. reflexivity. Qed.

Lemma F_cfg d ntp f m i : m_cfg (rotF d ntp f m i) = m_cfg m.
Proof.
  unfold rotF. destruct (nth_error (m_streams m) i) as [s0|]; [|reflexivity]. destruct (st_leading s0); [reflexivity|].
  destruct (leading_stream _); [unfold upd_stream; cbn [set_stream m_cfg]|]; apply cfg_stream_rotateSegments.
Qed.

Lemma F_flags d ntp f m i : map st_leading (m_streams (rotF d ntp f m i)) = map st_leading (m_streams m).
Proof.
  unfold rotF. destruct (nth_error (m_streams m) i) as [s0|]; [|reflexivity]. destruct (st_leading s0); [reflexivity|].
  destruct (leading_stream _); [|apply flags_rots].
  unfold upd_stream. cbn [set_stream m_streams]. rewrite flags_upd_with by (intros; apply copy_targets_leading). apply flags_rots.
Qed.

Lemma F_other d ntp f m i j : i <> j -> nth_error (m_streams (rotF d ntp f m i)) j = nth_error (m_streams m) j.
Proof.
  intros Hij. unfold rotF. destruct (nth_error (m_streams m) i) as [s0|]; [|reflexivity]. destruct (st_leading s0); [reflexivity|].
  destruct (leading_stream _); [unfold upd_stream; cbn [set_stream m_streams]; rewrite nth_upd_other by exact Hij|]; now apply rots_other.
Qed.

Lemma F_lead d ntp f m i k s : nth_error (m_streams m) k = Some s -> st_leading s = true ->
  nth_error (m_streams (rotF d ntp f m i)) k = Some s.
Proof.
  intros Hk Hl. destruct (Nat.eq_dec i k) as [->|Hne]; [|now rewrite F_other].
  unfold rotF. now rewrite Hk, Hl.
Qed.

Lemma fold_F_inv d ntp f idx : forall m k s,
  nth_error (m_streams m) k = Some s -> st_leading s = true ->
  let m' := fold_left (rotF d ntp f) idx m in
  nth_error (m_streams m') k = Some s /\ m_cfg m' = m_cfg m
  /\ map st_leading (m_streams m') = map st_leading (m_streams m)
  /\ forall j, ~ In j idx -> nth_error (m_streams m') j = nth_error (m_streams m) j.
Proof.
  induction idx as [|i idx IH]; intros m k s Hk Hl; cbn [fold_left]; [auto|].
  destruct (IH (rotF d ntp f m i) k s (F_lead d ntp f m i k s Hk Hl) Hl) as (A1 & A2 & A3 & A4). cbv zeta in *.
  split; [exact A1|]. split; [now rewrite A2, F_cfg|]. split; [now rewrite A3, F_flags|].
  intros j Hj. rewrite A4 by (intros Hin; apply Hj; now right). apply F_other. intros ->. apply Hj. now left.
Qed.

Lemma nth_error_ext' {X} (l1 l2 : list X) : (forall j, nth_error l1 j = nth_error l2 j) -> l1 = l2.
Proof.
  revert l2. induction l1 as [|x l1 IH]; intros [|y l2] H; auto.
  - specialize (H 0%nat). discriminate.
  - specialize (H 0%nat). discriminate.
  - pose proof (H 0%nat) as H0. cbn in H0. injection H0 as ->. f_equal. apply IH. intros j. exact (H (S j)).
Qed.

(* each stream of the muxer model after Muxer.rotateSegmentsInner, on the abstract level *)
Lemma rotateSegments_pointwise m d ntp f sl :
  leading_stream m = Some sl -> st_leading sl = true ->
  (forall j s, nth_error (m_streams m) j = Some s -> st_leading s = true -> j = leading_index m) ->
  Forall (good (c_variant (m_cfg m))) (m_streams m) ->
  let v := c_variant (m_cfg m) in
  let li := leading_index m in
  exists sl' segl, st_open sl = Some segl
    /\ (forall t fs, option_map (fun r => fst (fst r))
           (A.stream_rotateSegments (av v) (c_segcount (m_cfg m)) true li (d - sg_start segl) (abs_stream v sl) t fs)
         = Some (abs_stream v sl'))
    /\ forall j s, nth_error (m_streams m) j = Some s ->
       exists s' s1 seg, st_open s = Some seg
         /\ nth_error (m_streams (rotateSegments m d ntp f)) j = Some s'
         /\ (forall t fs, option_map (fun r => fst (fst r))
                (A.stream_rotateSegments (av v) (c_segcount (m_cfg m)) (Nat.eqb j li) j (d - sg_start seg) (abs_stream v s) t fs)
              = Some (abs_stream v s1))
         /\ abs_stream v s' = set_td (abs_stream v s1) (st_target sl').
Proof.
  intros Hsl Hll Huniq Hgood. cbv zeta.
  rewrite leading_stream_nth in Hsl.
  set (li := leading_index m) in *.
  rewrite Forall_forall in Hgood.
  set (m1 := stream_rotateSegments m li d ntp f).
  (* the leading stream rotates first *)
  assert (HL : exists sl' segl, st_open sl = Some segl
             /\ nth_error (m_streams m1) li = Some sl'
             /\ (forall t fs, option_map (fun r => fst (fst r))
                   (A.stream_rotateSegments (av (c_variant (m_cfg m))) (c_segcount (m_cfg m)) true li (d - sg_start segl)
                      (abs_stream (c_variant (m_cfg m)) sl) t fs) = Some (abs_stream (c_variant (m_cfg m)) sl'))
             /\ st_leading sl' = true).
  { destruct (abs_stream_rotateSegments m li d ntp f sl [] [] Hsl (Hgood sl (nth_error_In _ _ Hsl))) as (s' & seg & Eo & Hs' & _ & Hl').
    exists s', seg. split; [exact Eo|]. split; [exact Hs'|]. split; [|congruence].
    intros t fs. destruct (abs_stream_rotateSegments m li d ntp f sl t fs Hsl (Hgood sl (nth_error_In _ _ Hsl))) as (s2 & seg2 & Eo2 & Hs2 & A2 & _).
    cbv zeta in *. rewrite Eo in Eo2. injection Eo2 as <-. rewrite Hs' in Hs2. injection Hs2 as <-.
    rewrite Hll in A2. exact A2. }
  destruct HL as (sl' & segl & Eol & Hsl' & Asl & Hll').
  exists sl', segl. split; [exact Eol|]. split; [exact Asl|].
  intros j s Hj.
  rewrite rotateSegments_fold. fold li. fold m1.
  destruct (Nat.eq_dec j li) as [->|Hne].
  - (* the leading stream itself *)
    rewrite Hsl in Hj. injection Hj as <-.
    exists sl', sl', segl. split; [exact Eol|].
    destruct (fold_F_inv d ntp f (seq 0 (length (m_streams m1))) m1 li sl' Hsl' Hll') as (A1 & _). cbv zeta in A1.
    split; [exact A1|]. rewrite Nat.eqb_refl. split; [exact Asl|]. now rewrite set_td_self.
  - assert (Hls : st_leading s = false).
    { destruct (st_leading s) eqn:E; [|reflexivity]. exfalso. apply Hne. now apply (Huniq j s). }
    assert (Hj1 : nth_error (m_streams m1) j = Some s) by (subst m1; rewrite rots_other by congruence; exact Hj).
    assert (Hlt : (j < length (m_streams m1))%nat) by (apply nth_error_Some; congruence).
    rewrite (seq_split j _ Hlt), fold_left_app. cbn [fold_left].
    set (ma := fold_left (rotF d ntp f) (seq 0 j) m1).
    destruct (fold_F_inv d ntp f (seq 0 j) m1 li sl' Hsl' Hll') as (B1 & B2 & B3 & B4). cbv zeta in *. fold ma in B1, B2, B3, B4.
    assert (Hja : nth_error (m_streams ma) j = Some s).
    { rewrite B4; [exact Hj1|]. rewrite in_seq. lia. }
    assert (Hcfg : m_cfg ma = m_cfg m) by (rewrite B2; subst m1; apply cfg_stream_rotateSegments).
    assert (Hlia : forall mx, map st_leading (m_streams mx) = map st_leading (m_streams ma) -> leading_index mx = li).
    { intros mx E. rewrite leading_index_flags, E, B3. subst m1. rewrite flags_rots, <- leading_index_flags. reflexivity. }
    (* the step on stream j *)
    assert (Hgs : good (c_variant (m_cfg ma)) s) by (rewrite Hcfg; apply Hgood; eapply nth_error_In; eauto).
    destruct (abs_stream_rotateSegments ma j d ntp f s [] [] Hja Hgs) as (s1 & seg & Eo & Hs1 & _ & Hl1). cbv zeta in *.
    assert (Hstep : nth_error (m_streams (rotF d ntp f ma j)) j = Some (copy_targets true sl' s1)).
    { unfold rotF. rewrite Hja, Hls.
      assert (Hlead : leading_stream (stream_rotateSegments ma j d ntp f) = Some sl').
      { rewrite leading_stream_nth, (Hlia _ (flags_rots ma j d ntp f)). rewrite rots_other by exact Hne. exact B1. }
      rewrite Hlead. unfold upd_stream. cbn [set_stream m_streams]. apply (nth_error_upd_same _ j _ s1 Hs1). }
    exists (copy_targets true sl' s1), s1, seg. split; [exact Eo|]. split.
    + destruct (fold_F_inv d ntp f (seq (S j) (length (m_streams m1) - S j)) (rotF d ntp f ma j) li sl'
                  (F_lead d ntp f ma j li sl' B1 Hll') Hll') as (_ & _ & _ & C4). cbv zeta in C4.
      rewrite C4; [exact Hstep|]. rewrite in_seq. lia.
    + split; [|apply abs_copy_targets; congruence].
      intros t fs. destruct (abs_stream_rotateSegments ma j d ntp f s t fs Hja Hgs) as (s2 & seg2 & Eo2 & Hs2 & A2 & _). cbv zeta in *.
      rewrite Eo in Eo2. injection Eo2 as <-. rewrite Hs1 in Hs2. injection Hs2 as <-.
      rewrite Hcfg, Hls in A2. replace (Nat.eqb j li) with false by (symmetry; now apply Nat.eqb_neq). exact A2.
Qed.

(* Muxer.rotateSegmentsInner refines MuxConcSeq.mux_rotateSegments on the streams the handlers read: the abstract
   loop (every stream in index order, then the leading stream's target duration copied to all) applied to the
   abstraction of the state yields the abstraction of the muxer model's next state (leading stream first, every
   other stream followed by its copy of the targets) *)
Theorem refine_rotateSegments m d ntp f sl segl t fs :
  leading_stream m = Some sl -> st_leading sl = true ->
  (forall j s, nth_error (m_streams m) j = Some s -> st_leading s = true -> j = leading_index m) ->
  Forall (good (c_variant (m_cfg m))) (m_streams m) ->
  st_open sl = Some segl ->
  (forall s seg, In s (m_streams m) -> st_open s = Some seg -> sg_start seg = sg_start segl) ->
  let v := c_variant (m_cfg m) in
  option_map (fun r => A.copy_targetDuration (leading_index m) (fst (fst r)))
    (A.rotateSegments_all (av v) (c_segcount (m_cfg m)) (leading_index m) (d - sg_start segl) 0
       (map (abs_stream v) (m_streams m)) t fs)
  = Some (map (abs_stream v) (m_streams (rotateSegments m d ntp f))).
Proof.
  intros Hsl Hll Huniq Hgood Eol Hstart. cbv zeta.
  destruct (rotateSegments_pointwise m d ntp f sl Hsl Hll Huniq Hgood) as (sl' & segl' & Eol' & Asl & Hpt). cbv zeta in *.
  rewrite Eol in Eol'. injection Eol' as <-.
  set (v := c_variant (m_cfg m)) in *. set (li := leading_index m) in *.
  (* the per-stream abstract results *)
  assert (Hex : exists ss1, length ss1 = length (m_streams m)
            /\ (forall j s, nth_error (m_streams m) j = Some s ->
                  exists s' s1 seg, st_open s = Some seg /\ nth_error (m_streams (rotateSegments m d ntp f)) j = Some s'
                    /\ nth_error ss1 j = Some (abs_stream v s1)
                    /\ (forall t fs, option_map (fun r => fst (fst r))
                          (A.stream_rotateSegments (av v) (c_segcount (m_cfg m)) (Nat.eqb j li) j (d - sg_start seg) (abs_stream v s) t fs)
                        = Some (abs_stream v s1))
                    /\ abs_stream v s' = set_td (abs_stream v s1) (st_target sl'))).
  { assert (Hgen : forall l base, (forall k s, nth_error l k = Some s -> nth_error (m_streams m) (base + k) = Some s) ->
              exists ss1, length ss1 = length l
              /\ forall k s, nth_error l k = Some s ->
                  exists s' s1 seg, st_open s = Some seg /\ nth_error (m_streams (rotateSegments m d ntp f)) (base + k) = Some s'
                    /\ nth_error ss1 k = Some (abs_stream v s1)
                    /\ (forall t fs, option_map (fun r => fst (fst r))
                          (A.stream_rotateSegments (av v) (c_segcount (m_cfg m)) (Nat.eqb (base + k) li) (base + k) (d - sg_start seg) (abs_stream v s) t fs)
                        = Some (abs_stream v s1))
                    /\ abs_stream v s' = set_td (abs_stream v s1) (st_target sl')).
    { induction l as [|x l IH]; intros base Hl.
      - exists []. split; [reflexivity|]. intros [|k] s Hk; discriminate.
      - destruct (IH (S base)) as (ss1 & Hlen & Hss1).
        { intros k s Hk. replace (S base + k)%nat with (base + S k)%nat by lia. now apply Hl. }
        pose proof (Hl 0%nat x eq_refl) as Hx. rewrite Nat.add_0_r in Hx.
        destruct (Hpt base x Hx) as (s' & s1 & seg & E1 & E2 & E3 & E4).
        exists (abs_stream v s1 :: ss1). split; [simpl; now rewrite Hlen|].
        intros [|k] s Hk; cbn [nth_error] in Hk.
        + injection Hk as <-. rewrite Nat.add_0_r. exists s', s1, seg. auto.
        + destruct (Hss1 k s Hk) as (s'' & s1' & seg' & F1 & F2 & F3 & F4 & F5).
          replace (base + S k)%nat with (S base + k)%nat by lia. exists s'', s1', seg'. auto. }
    destruct (Hgen (m_streams m) 0%nat ltac:(intros k s Hk; exact Hk)) as (ss1 & Hlen & H). exists ss1. split; [exact Hlen|exact H]. }
  destruct Hex as (ss1 & Hlen & Hss1).
  assert (Hall : option_map (fun r => fst (fst r))
           (A.rotateSegments_all (av v) (c_segcount (m_cfg m)) li (d - sg_start segl) 0 (map (abs_stream v) (m_streams m)) t fs) = Some ss1).
  { apply A_all_streams; [now rewrite map_length|].
    intros k a a' Hk Hk' t' fs'. cbn [Nat.add].
    apply map_nth_error_inv in Hk. destruct Hk as (s & Hs & <-).
    destruct (Hss1 k s Hs) as (s' & s1 & seg & E1 & E2 & E3 & E4 & E5).
    rewrite E3 in Hk'. injection Hk' as <-.
    rewrite <- (Hstart s seg (nth_error_In _ _ Hs) E1). apply E4. }
  destruct (A.rotateSegments_all (av v) (c_segcount (m_cfg m)) li (d - sg_start segl) 0 (map (abs_stream v) (m_streams m)) t fs)
    as [[[r' t''] fs'']|]; [|discriminate].
  cbn [option_map fst] in *. injection Hall as ->. f_equal.
  (* the leading entry of the abstract result *)
  rewrite leading_stream_nth in Hsl. fold li in Hsl.
  destruct (Hss1 li sl Hsl) as (sL' & sL1 & segL & L1 & L2 & L3 & L4 & L5).
  assert (HsL1 : abs_stream v sL1 = abs_stream v sl').
  { rewrite L1 in Eol. injection Eol as ->. specialize (L4 [] []). specialize (Asl [] []). rewrite Nat.eqb_refl in L4. congruence. }
  rewrite (copy_targetDuration_map li ss1 (abs_stream v sL1) L3).
  apply nth_error_ext'. intros j.
  rewrite !nth_error_map.
  destruct (nth_error (m_streams m) j) as [s|] eqn:Ej.
  - destruct (Hss1 j s Ej) as (s' & s1 & seg & E1 & E2 & E3 & E4 & E5).
    rewrite E2, E3. cbn [option_map]. rewrite E5, HsL1. reflexivity.
  - assert (H1 : nth_error ss1 j = None) by (apply nth_error_None; rewrite Hlen; now apply nth_error_None).
    assert (H2 : nth_error (m_streams (rotateSegments m d ntp f)) j = None).
    { apply nth_error_None.
      assert (Hl : length (m_streams (rotateSegments m d ntp f)) = length (m_streams m)).
      { rewrite <- (map_length st_leading), <- (map_length st_leading (m_streams m)). f_equal.
        apply flags_rotateSegments. }
      rewrite Hl. now apply nth_error_None. }
    now rewrite H1, H2.
Qed.

(* ---------------------------------------------------------------- Muxer.rotatePartsInner, all streams *)
Lemma abs_copy_parttarget v l s : abs_stream v (copy_targets false l s) = abs_stream v s.
Proof. unfold copy_targets. destruct (st_leading s); reflexivity. Qed.

Lemma A_all_parts v : forall ss ss' i,
  length ss = length ss' ->
  (forall k s s', nth_error ss k = Some s -> nth_error ss' k = Some s' -> forall t,
      option_map fst (A.stream_rotateParts v (i + k) s t) = Some s') ->
  forall t, option_map fst (A.rotateParts_all v i ss t) = Some ss'.
Proof.
  induction ss as [|s ss IH]; intros [|s' ss'] i Hlen H t; try discriminate; [reflexivity|].
  cbn [A.rotateParts_all].
  pose proof (H 0%nat s s' eq_refl eq_refl t) as H0. rewrite Nat.add_0_r in H0.
  destruct (A.stream_rotateParts v i s t) as [[a1 t1]|]; [|discriminate].
  cbn [option_map fst] in H0. injection H0 as ->.
  assert (IH' := IH ss' (S i) ltac:(simpl in Hlen; lia)).
  pose proof (IH' ltac:(intros k x x' Hx Hx' t'; replace (S i + k)%nat with (i + S k)%nat by lia; now apply (H (S k))) t1) as H1.
  destruct (A.rotateParts_all v (S i) ss t1) as [[r' t'']|]; [|discriminate].
  cbn [option_map fst] in *. injection H1 as ->. reflexivity.
Qed.

Definition rotPF (d : Z) (m : mstate) (i : nat) : mstate :=
  match nth_error (m_streams m) i with
  | Some s0 => if st_leading s0 then m
               else match leading_stream (stream_rotateParts m i d true) with
                    | Some l => upd_stream (stream_rotateParts m i d true) i (copy_targets false l)
                    | None => stream_rotateParts m i d true
                    end
  | None => m
  end.

Lemma rotateParts_fold m d :
  rotateParts m d =
  fold_left (rotPF d) (seq 0 (length (m_streams (stream_rotateParts m (leading_index m) d true))))
            (stream_rotateParts m (leading_index m) d true).
Proof. reflexivity. Qed.

Lemma PF_cfg d m i : m_cfg (rotPF d m i) = m_cfg m.
Proof.
  unfold rotPF. destruct (nth_error (m_streams m) i) as [s0|]; [|reflexivity]. destruct (st_leading s0); [reflexivity|].
  destruct (leading_stream _); [unfold upd_stream; cbn [set_stream m_cfg]|]; apply cfg_stream_rotateParts.
Qed.

Lemma PF_other d m i j : i <> j -> nth_error (m_streams (rotPF d m i)) j = nth_error (m_streams m) j.
Proof.
  intros Hij. unfold rotPF. destruct (nth_error (m_streams m) i) as [s0|]; [|reflexivity]. destruct (st_leading s0); [reflexivity|].
  destruct (leading_stream _); [unfold upd_stream; cbn [set_stream m_streams]; rewrite nth_upd_other by exact Hij|]; now apply rotp_other.
Qed.

Lemma fold_PF_inv d idx : forall m,
  let m' := fold_left (rotPF d) idx m in
  m_cfg m' = m_cfg m /\ forall j, ~ In j idx -> nth_error (m_streams m') j = nth_error (m_streams m) j.
Proof.
  induction idx as [|i idx IH]; intros m; cbn [fold_left]; [auto|].
  destruct (IH (rotPF d m i)) as (A2 & A4). cbv zeta in *.
  split; [now rewrite A2, PF_cfg|].
  intros j Hj. rewrite A4 by (intros Hin; apply Hj; now right). apply PF_other. intros ->. apply Hj. now left.
Qed.

Lemma fold_PF_lead d idx : forall m k s,
  nth_error (m_streams m) k = Some s -> st_leading s = true ->
  nth_error (m_streams (fold_left (rotPF d) idx m)) k = Some s.
Proof.
  induction idx as [|i idx IH]; intros m k s Hk Hl; cbn [fold_left]; [exact Hk|].
  apply IH; [|exact Hl]. destruct (Nat.eq_dec i k) as [->|Hne]; [|now rewrite PF_other].
  unfold rotPF. now rewrite Hk, Hl.
Qed.

Definition goodp (s : stream) : Prop :=
  exists seg p0, st_open s = Some seg /\ st_openpart s = Some p0 /\ p_id p0 = st_nextPart s.

Theorem refine_rotateParts m d sl t :
  leading_stream m = Some sl -> st_leading sl = true ->
  (forall j s, nth_error (m_streams m) j = Some s -> st_leading s = true -> j = leading_index m) ->
  Forall goodp (m_streams m) ->
  let v := c_variant (m_cfg m) in
  option_map fst (A.rotateParts_all (av v) 0 (map (abs_stream v) (m_streams m)) t)
  = Some (map (abs_stream v) (m_streams (rotateParts m d))).
Proof.
  intros Hsl Hll Huniq Hgood. cbv zeta. rewrite Forall_forall in Hgood.
  rewrite leading_stream_nth in Hsl. set (li := leading_index m) in *. set (v := c_variant (m_cfg m)).
  set (m1 := stream_rotateParts m li d true).
  (* every stream of the result is the abstract rotation of the stream it was *)
  assert (Hpt : forall j s, nth_error (m_streams m) j = Some s ->
            exists s', nth_error (m_streams (rotateParts m d)) j = Some s'
                       /\ forall t, option_map fst (A.stream_rotateParts (av v) j (abs_stream v s) t) = Some (abs_stream v s')).
  { intros j s Hj. rewrite rotateParts_fold. fold li. fold m1.
    destruct (Hgood s (nth_error_In _ _ Hj)) as (seg & p0 & Eo & Ep & Hp).
    destruct (Nat.eq_dec j li) as [->|Hne].
    - rewrite Hsl in Hj. injection Hj as <-.
      destruct (abs_stream_rotateParts m li d true sl seg p0 [] Hsl Eo Ep Hp) as (s' & Hs' & _ & Hl' & _).
      exists s'. split; [apply fold_PF_lead; [exact Hs'|congruence]|].
      intros t'. destruct (abs_stream_rotateParts m li d true sl seg p0 t' Hsl Eo Ep Hp) as (s2 & Hs2 & A2 & _).
      fold m1 in Hs'. unfold m1 in Hs'. rewrite Hs' in Hs2. injection Hs2 as <-. exact A2.
    - assert (Hls : st_leading s = false).
      { destruct (st_leading s) eqn:E; [|reflexivity]. exfalso. apply Hne. now apply (Huniq j s). }
      assert (Hj1 : nth_error (m_streams m1) j = Some s) by (subst m1; rewrite rotp_other by congruence; exact Hj).
      assert (Hlt : (j < length (m_streams m1))%nat) by (apply nth_error_Some; congruence).
      rewrite (seq_split j _ Hlt), fold_left_app. cbn [fold_left].
      set (ma := fold_left (rotPF d) (seq 0 j) m1).
      destruct (fold_PF_inv d (seq 0 j) m1) as (B2 & B4). cbv zeta in *. fold ma in B2, B4.
      assert (Hja : nth_error (m_streams ma) j = Some s) by (rewrite B4; [exact Hj1|rewrite in_seq; lia]).
      assert (Hcfg : m_cfg ma = m_cfg m) by (rewrite B2; subst m1; apply cfg_stream_rotateParts).
      destruct (abs_stream_rotateParts ma j d true s seg p0 [] Hja Eo Ep Hp) as (s1 & Hs1 & _).
      assert (Hstep : exists s', nth_error (m_streams (rotPF d ma j)) j = Some s' /\ abs_stream v s' = abs_stream v s1).
      { unfold rotPF. rewrite Hja, Hls. destruct (leading_stream (stream_rotateParts ma j d true)) as [l|].
        - unfold upd_stream. cbn [set_stream m_streams]. rewrite (nth_error_upd_same _ j _ s1 Hs1).
          eexists. split; [reflexivity|apply abs_copy_parttarget].
        - exists s1. auto. }
      destruct Hstep as (s' & Hs' & Habs). exists s'. split.
      + destruct (fold_PF_inv d (seq (S j) (length (m_streams m1) - S j)) (rotPF d ma j)) as (_ & C4). cbv zeta in C4.
        rewrite C4; [exact Hs'|rewrite in_seq; lia].
      + intros t'. destruct (abs_stream_rotateParts ma j d true s seg p0 t' Hja Eo Ep Hp) as (s2 & Hs2 & A2 & _).
        rewrite Hs1 in Hs2. injection Hs2 as <-. rewrite Hcfg in A2. fold v in A2. now rewrite Habs. }
  assert (Hlen : length (m_streams (rotateParts m d)) = length (m_streams m)).
  { rewrite <- (map_length st_leading), <- (map_length st_leading (m_streams m)). f_equal. apply flags_rotateParts. }
  apply A_all_parts; [now rewrite !map_length|].
  intros k a a' Hk Hk' t'. cbn [Nat.add].
  apply map_nth_error_inv in Hk. destruct Hk as (s & Hs & <-).
  destruct (Hpt k s Hs) as (s' & E1 & E2).
  rewrite nth_error_map, E1 in Hk'. cbn [option_map] in Hk'. injection Hk' as <-. apply E2.
Qed.

(* Muxer.createFirstSegment *)
Theorem refine_createFirstSegment m d ntp :
  let v := c_variant (m_cfg m) in
  map (abs_stream v) (m_streams (createFirstSegment m d ntp)) = map A.stream_createFirstSegment (map (abs_stream v) (m_streams m)).
Proof.
  cbv zeta. unfold createFirstSegment. cbn [set_stream m_streams m_cfg]. rewrite !map_map.
  apply map_ext. intros s. apply abs_createFirst.
Qed.

(* ---------------------------------------------------------------- in every reachable state *)
(* the side conditions are the muxer model's own invariants: one leading stream (MuxCut), the window invariant
   (MuxStream / MuxWindow: the open segment's id is the next segment id), consecutive part ids (MuxPartIds: the
   open part's id is the next part id), an open stream has an open part (MuxLog, fMP4 variants), all streams
   agree on the open segment's start (MuxAgree) *)
Lemma reachable_good c m0 ops :
  start c = Ok m0 ->
  let m := mux_run m0 ops in
  (forall s, In s (m_streams m) -> st_open s <> None) ->
  Forall (good (c_variant (m_cfg m))) (m_streams m) /\ (c_variant (m_cfg m) <> MPEGTS -> Forall goodp (m_streams m)).
Proof.
  intros Hs m Hopen.
  pose proof (start_cfg_wf c m0 Hs) as [_ Hc].
  assert (Hcfg : m_cfg m = norm_cfg c) by (subst m; now rewrite cfg_mux_run).
  pose proof (window_inv_reachable c ops m0 Hs) as HW. fold m in HW. rewrite Forall_forall in HW.
  assert (Hpart : c_variant (m_cfg m) <> MPEGTS -> forall s, In s (m_streams m) -> st_openpart s <> None).
  { intros Hv s Hin. rewrite Hcfg in Hv. change (c_variant (norm_cfg c)) with (c_variant c) in Hv.
    destruct (structure_reachable c m0 ops Hs Hv) as [HL _]. fold m in HL. apply (li_part m HL s Hin). now apply Hopen. }
  assert (Hg : forall s, In s (m_streams m) ->
            exists seg, st_open s = Some seg /\ sg_id seg = st_nextSeg s /\ sg_gap seg = false
              /\ (c_variant (m_cfg m) <> MPEGTS -> exists p0, st_openpart s = Some p0 /\ p_id p0 = st_nextPart s)).
  { intros s Hin. destruct (st_open s) as [seg|] eqn:Eo; [|exfalso; now apply (Hopen s Hin)].
    destruct (wi_open _ _ _ (HW s Hin) seg Eo) as [Hid Hgap].
    exists seg. split; [reflexivity|]. split; [exact Hid|]. split; [exact Hgap|].
    intros Hv. destruct (st_openpart s) as [p0|] eqn:Ep; [|exfalso; now apply (Hpart Hv s Hin)].
    exists p0. split; [reflexivity|].
    apply In_nth_error in Hin. destruct Hin as [si Hsi].
    destruct (part_ids_consecutive c m0 ops si s Hs Hsi) as (_ & _ & Hp). now apply Hp. }
  split.
  - apply Forall_forall. intros s Hin. exact (Hg s Hin).
  - intros Hv. apply Forall_forall. intros s Hin. destruct (Hg s Hin) as (seg & Eo & _ & _ & Hp).
    destruct (Hp Hv) as (p0 & Ep & Hid). exists seg, p0. auto.
Qed.

Theorem refine_reachable_rotateSegments c m0 ops d ntp f t fs :
  start c = Ok m0 ->
  let m := mux_run m0 ops in
  (forall s, In s (m_streams m) -> st_open s <> None) ->
  let v := c_variant (m_cfg m) in
  exists sl segl, leading_stream m = Some sl /\ st_open sl = Some segl /\
    option_map (fun r => A.copy_targetDuration (leading_index m) (fst (fst r)))
      (A.rotateSegments_all (av v) (c_segcount (m_cfg m)) (leading_index m) (d - sg_start segl) 0
         (map (abs_stream v) (m_streams m)) t fs)
    = Some (map (abs_stream v) (m_streams (rotateSegments m d ntp f))).
Proof.
  intros Hs m Hopen. cbv zeta.
  destruct (reachable_one_leading c m0 ops Hs) as (sl & Hsl & Hll & Huniq). fold m in Hsl, Huniq.
  destruct (reachable_good c m0 ops Hs Hopen) as [Hgood _]. fold m in Hgood.
  assert (Hin : In sl (m_streams m)) by (rewrite leading_stream_nth in Hsl; eapply nth_error_In; eauto).
  destruct (st_open sl) as [segl|] eqn:Eol; [|exfalso; now apply (Hopen sl Hin)].
  exists sl, segl. split; [exact Hsl|]. split; [exact Eol|].
  apply (refine_rotateSegments m d ntp f sl segl t fs Hsl Hll Huniq Hgood Eol).
  intros s seg Hs' Eo. pose proof (streams_agree c m0 ops s sl Hs Hs' Hin) as Hsh.
  unfold shape in Hsh. injection Hsh as _ _ _ H4. rewrite Eo, Eol in H4. cbn [option_map] in H4.
  unfold open_shape in H4. now injection H4.
Qed.

Theorem refine_reachable_rotateParts c m0 ops d t :
  start c = Ok m0 ->
  let m := mux_run m0 ops in
  (forall s, In s (m_streams m) -> st_open s <> None) -> c_variant (m_cfg m) <> MPEGTS ->
  let v := c_variant (m_cfg m) in
  option_map fst (A.rotateParts_all (av v) 0 (map (abs_stream v) (m_streams m)) t)
  = Some (map (abs_stream v) (m_streams (rotateParts m d))).
Proof.
  intros Hs m Hopen Hv. cbv zeta.
  destruct (reachable_one_leading c m0 ops Hs) as (sl & Hsl & Hll & Huniq). fold m in Hsl, Huniq.
  destruct (reachable_good c m0 ops Hs Hopen) as [_ Hgood]. fold m in Hgood.
  exact (refine_rotateParts m d sl t Hsl Hll Huniq (Hgood Hv)).
Qed.

(* what the handlers read commutes too: the abstraction of a muxer-model stream answers hasContent as the
   muxer model does *)
Lemma abs_hasContent v s : A.hasContent (av v) (abs_stream v s) = hasContent v s.
Proof.
  unfold A.hasContent, hasContent, A.zlen. cbn [abs_stream A.segments]. rewrite map_length.
  set (n := length (st_segments s)).
  destruct v; cbn [av].
  - destruct (Z.leb_spec 1 (Z.of_nat n)), (Nat.leb_spec 1 n); try reflexivity; lia.
  - destruct (Z.leb_spec 2 (Z.of_nat n)), (Nat.leb_spec 2 n); try reflexivity; lia.
  - destruct (Z.leb_spec 1 (Z.of_nat n)), (Nat.leb_spec 1 n); try reflexivity; lia.
Qed.

(* ---------------------------------------------------------------- packaged: the writer operations of MuxConcSeq *)
(* the abstraction of a muxer-model state; the path table and the set of files are not part of the abstraction
   (C05 / C18 speak about them on the muxer model itself) and are left arbitrary *)
Definition A_mux (m : mstate) (t : A.ptable) (fs : list (nat * Z)) : A.mux :=
  {| A.m_variant := av (c_variant (m_cfg m)); A.m_segmentCount := c_segcount (m_cfg m);
     A.m_streams := map (abs_stream (c_variant (m_cfg m))) (m_streams m);
     A.m_leading := leading_index m; A.m_closed := false; A.m_paths := t; A.m_files := fs |}.

Definition started (m : mstate) : Prop := forall s, In s (m_streams m) -> st_open s <> None.

Definition reachable (c : cfg) (ops : list wop) (m : mstate) : Prop := exists m0, start c = Ok m0 /\ m = mux_run m0 ops.

Theorem wop_createFirst_refines m d ntp t fs :
  option_map A.m_streams (A.apply_wop (A_mux m t fs) A.WCreateFirst) = Some (A.m_streams (A_mux (createFirstSegment m d ntp) t fs)).
Proof.
  cbn [A.apply_wop option_map A.mux_createFirstSegment A.set_streams A.m_streams A_mux]. f_equal.
  pose proof (refine_createFirstSegment m d ntp) as H. cbv zeta in H.
  assert (Hc : m_cfg (createFirstSegment m d ntp) = m_cfg m) by reflexivity. now rewrite Hc, H.
Qed.

Theorem wop_rotateParts_refines c ops m d t fs :
  reachable c ops m -> started m -> c_variant (m_cfg m) <> MPEGTS ->
  option_map A.m_streams (A.apply_wop (A_mux m t fs) A.WRotateParts) = Some (A.m_streams (A_mux (rotateParts m d) t fs)).
Proof.
  intros (m0 & Hs & ->) Hst Hv.
  pose proof (refine_reachable_rotateParts c m0 ops d t Hs Hst Hv) as H. cbv zeta in H.
  cbn [A.apply_wop]. unfold A.mux_rotateParts. cbn [A_mux A.m_variant A.m_streams A.m_paths A.m_files].
  destruct (A.rotateParts_all _ 0 _ t) as [[ss t']|]; [|discriminate].
  cbn [option_map fst A.set_streams A.m_streams] in *. injection H as ->. now rewrite cfg_rotateParts.
Qed.

Theorem wop_rotateSegments_refines c ops m d ntp f t fs :
  reachable c ops m -> started m ->
  exists dur, option_map A.m_streams (A.apply_wop (A_mux m t fs) (A.WRotateSegments dur))
              = Some (A.m_streams (A_mux (rotateSegments m d ntp f) t fs)).
Proof.
  intros (m0 & Hs & ->) Hst.
  destruct (refine_reachable_rotateSegments c m0 ops d ntp f t fs Hs Hst) as (sl & segl & _ & _ & H). cbv zeta in H.
  exists (d - sg_start segl).
  cbn [A.apply_wop]. unfold A.mux_rotateSegments. cbn [A_mux A.m_variant A.m_segmentCount A.m_leading A.m_streams A.m_paths A.m_files].
  destruct (A.rotateSegments_all _ _ _ _ 0 _ t fs) as [[[ss t'] fs']|]; [|discriminate].
  cbn [option_map fst A.set_streams A.m_streams] in *. injection H as ->. now rewrite cfg_rotateSegments.
Qed.

(* non-vacuity: a reachable state of a Low-Latency muxer (H264 + AAC) in which every stream is open *)
Lemma refine_example : exists m, reachable ex_cfg ex_ops m /\ started m /\ c_variant (m_cfg m) <> MPEGTS /\ length (m_streams m) = 2%nat.
Proof.
  destruct (start ex_cfg) as [m0| |] eqn:E; [|vm_compute in E; discriminate|vm_compute in E; discriminate].
  exists (mux_run m0 ex_ops). split; [exists m0; auto|].
  vm_compute in E. injection E as <-.
  split; [|split; [vm_compute; discriminate|vm_compute; reflexivity]].
  intros s Hin. vm_compute in Hin. destruct Hin as [<-|[<-|[]]]; vm_compute; discriminate.
Qed.
