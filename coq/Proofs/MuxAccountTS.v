(* C01, MPEG-TS variant: history-level accounting.
   Along every history of successful writes from Start the executable muxer model computes exactly the log,
   the "random access seen" flags and the "presentation has started" flag of the abstract specification
   (Model/MuxSpec.v, tspec). *)
From Coq Require Import List ZArith Bool Lia Arith.
From GoHls Require Import Model.Mux Model.MuxSpec Proofs.MuxStream Proofs.MuxLift Proofs.MuxWindow Proofs.MuxHistory Proofs.MuxTimes
  Proofs.MuxMulti Proofs.MuxCut Proofs.MuxLog Proofs.MuxLogStep Proofs.MuxLogTS Proofs.MuxTSStart.
Import ListNotations.
Local Open Scope Z_scope.

Definition sig_seen (x : tcfg * bool * nat * bool) : tcfg * bool * nat * bool :=
  let '(c, l, s, _) := x in (c, l, s, true).

Lemma map_upd_comm {A B} (h : A -> B) (f : A -> A) (g : B -> B) (l : list A) i :
  (forall x, h (f x) = g (h x)) -> map h (upd l i f) = upd (map h l) i g.
Proof.
  intros H. revert i. induction l as [|x l IH]; intros [|i]; simpl; auto; now rewrite ?H, ?IH.
Qed.

Lemma ts_opened_streams m m' : m_streams m' = m_streams m -> ts_opened m' = ts_opened m.
Proof. intros E. unfold ts_opened. now rewrite E. Qed.

(* ---- what a video write does to the tracks and to openness ---- *)
Lemma ts_video_state m ti t a m' :
  TSR m -> nth_error (m_tracks m) ti = Some t -> t_kind (tk_cfg t) = H264 ->
  write_video m ti t a = (m', Ok tt) ->
  map tk_sig (m_tracks m') = (if video_skipped t a then map tk_sig (m_tracks m) else upd (map tk_sig (m_tracks m)) ti sig_seen)
  /\ ts_opened m' = (if video_skipped t a then ts_opened m else true).
Proof.
  intros HR Ht Hk. pose proof HR as [HL HV HG HGa]. pose proof HL as [HT (s0 & Hs0 & Hl0)].
  unfold write_video, video_skipped. rewrite Hk. cbv zeta.
  destruct (tsi_tracks m HT ti t Ht) as [Hsi _]. rewrite Hsi.
  assert (HV1 : let m1 := fst (video_params m ti t a true) in
               m_cfg m1 = m_cfg m /\ m_streams m1 = m_streams m /\ map tk_sig (m_tracks m1) = map tk_sig (m_tracks m)).
  { cbv zeta. unfold video_params.
    assert (Hu : forall p, map tk_sig (upd (m_tracks m) ti (fun t0 => tk_with t0 (tk_firstRA t0) p (tk_next t0) (tk_samples t0) (tk_start t0)))
                           = map tk_sig (m_tracks m)).
    { intros p. apply map_upd_static. intros x. reflexivity. }
    destruct (a_params a) as [p|]; [destruct (true && negb (p =? tk_params t))|];
      match goal with |- context [if ?c then _ else _] => destruct c end; cbn [fst];
      unfold set_pending, upd_track, set_tracks; cbn [m_cfg m_streams m_tracks]; rewrite ?Hu; auto. }
  cbv zeta in HV1. destruct (video_params m ti t a true) as [m1 pc0]. cbn [fst] in HV1. destruct HV1 as (C1 & S1 & G1).
  assert (Hskip : forall mr, wok m1 = (mr, Ok tt) ->
            map tk_sig (m_tracks mr) = map tk_sig (m_tracks m) /\ ts_opened mr = ts_opened m).
  { intros mr [= <-]. split; [exact G1|now apply ts_opened_streams]. }
  destruct (negb (a_ra a) && negb (a_nonidr a)); [cbn [orb]; apply Hskip|].
  destruct (negb (tk_firstRA t) && negb (a_ra a)) eqn:Egate; [cbn [orb]; apply Hskip|]. cbn [orb].
  rewrite (tsi_variant m HT).
  set (m2 := set_firstRA m1 ti).
  assert (E2 : m_streams m2 = m_streams m /\ m_cfg m2 = m_cfg m
               /\ map tk_sig (m_tracks m2) = upd (map tk_sig (m_tracks m)) ti sig_seen).
  { subst m2. unfold set_firstRA, upd_track, set_tracks. cbn [m_cfg m_streams m_tracks]. split; [exact S1|]. split; [exact C1|].
    rewrite <- G1. apply map_upd_comm. intros x. reflexivity. }
  destruct E2 as (S2 & C2 & T2).
  assert (St2 : map tk_static (m_tracks m2) = map tk_static (m_tracks m)).
  { subst m2. unfold set_firstRA, upd_track, set_tracks. cbn [m_tracks].
    rewrite (map_upd_static tk_static) by (intros x; reflexivity). now apply static_of_sig. }
  assert (HL2 : TSL m2).
  { split; [|exists s0; now rewrite S2]. apply (TSI_ext m); auto. rewrite S2. eauto. }
  rewrite S2, Hs0. cbn [nth_error].
  set (d := timestampToDuration (a_dts a) (t_rate (tk_cfg t))).
  assert (Hfin : forall m3 u size e inc, TSL m3 -> m_tracks m3 = m_tracks m2 -> ts_opened m3 = true ->
            ts_write m3 0 u size e inc = (m', Ok tt) ->
            map tk_sig (m_tracks m') = upd (map tk_sig (m_tracks m)) ti sig_seen /\ ts_opened m' = true).
  { intros m3 u size e inc HL3 Et3 Ho3 Hw.
    destruct (tsg_write m3 u size e inc HL3) as (_ & B & C & _). cbv zeta in *. rewrite Hw in *. cbn [fst snd] in *.
    split; [now rewrite B, Et3|now rewrite C]. }
  assert (Eop2 : ts_opened m2 = match st_open s0 with Some _ => true | None => false end)
    by (unfold ts_opened; now rewrite S2, Hs0).
  destruct (st_open s0) as [g|] eqn:Eo; cbn [negb].
  - match goal with |- context [if ?c then _ else _] => destruct c end.
    + destruct (tsg_rotateSegments m2 d (a_ntp a) false HL2) as (A & B & _ & D). cbv zeta in *.
      intros Hw. eapply Hfin; eauto; try (now rewrite D).
    + intros Hw. eapply Hfin; eauto.
  - destruct (tsg_create m2 d (a_ntp a) HL2 Eop2) as (A & B & _ & D). cbv zeta in *.
    intros Hw. eapply Hfin; eauto.
Qed.

(* ---- ... and an audio write ---- *)
Lemma ts_audio_state m ti t a m' :
  TSR m -> nth_error (m_tracks m) ti = Some t ->
  write_audio m ti t a = (m', Ok tt) ->
  m_tracks m' = m_tracks m
  /\ ts_opened m' = (if negb (tk_leading t) && negb (ts_opened m) then ts_opened m else true).
Proof.
  intros HR Ht. pose proof HR as [HL HV HG HGa]. pose proof HL as [HT (s0 & Hs0 & Hl0)].
  unfold write_audio. rewrite (tsi_variant m HT).
  destruct (tsi_tracks m HT ti t Ht) as [Hsi _]. rewrite Hsi. rewrite Hs0. cbn [nth_error].
  assert (Eop : ts_opened m = match st_open s0 with Some _ => true | None => false end)
    by (unfold ts_opened; now rewrite Hs0).
  rewrite Eop.
  destruct (negb (tk_leading t) && negb (match st_open s0 with Some _ => true | None => false end)) eqn:Eg.
  { intros [= <-]. split; [reflexivity|exact Eop]. }
  set (d := timestampToDuration (a_pts a) (t_rate (tk_cfg t))).
  assert (Hfin : forall m3 u size e inc, TSL m3 -> m_tracks m3 = m_tracks m -> ts_opened m3 = true ->
            ts_write m3 0 u size e inc = (m', Ok tt) -> m_tracks m' = m_tracks m /\ ts_opened m' = true).
  { intros m3 u size e inc HL3 Et3 Ho3 Hw.
    destruct (tsg_write m3 u size e inc HL3) as (_ & B & C & _). cbv zeta in *. rewrite Hw in *. cbn [fst snd] in *.
    split; [now rewrite B, Et3|now rewrite C]. }
  destruct (tk_leading t) eqn:El.
  - destruct (st_open s0) as [seg|] eqn:Eo; cbn [negb].
    + match goal with |- context [if ?c then _ else _] => destruct c end.
      * destruct (tsg_rotateSegments m d (a_ntp a) false HL) as (A & B & _ & D). cbv zeta in *.
        intros Hw. eapply Hfin; eauto; try (now rewrite D).
      * intros Hw. eapply Hfin; eauto.
    + destruct (tsg_create m d (a_ntp a) HL Eop) as (A & B & _ & D). cbv zeta in *.
      intros Hw. eapply Hfin; eauto.
  - cbn [negb andb] in Eg. destruct (st_open s0) as [seg|] eqn:Eo; [|discriminate].
    intros Hw. eapply Hfin; eauto.
Qed.

(* ---- the refinement ---- *)
Record TRef (m : mstate) (sp : tspec) : Prop := {
  tr_inv : TSR m;
  tr_seen : map tk_firstRA (m_tracks m) = tp_seen sp;
  tr_open : ts_opened m = tp_open sp;
  tr_log : tslog m = tp_log sp
}.

Lemma sig_static_seen l : map tk_static l = map (fun x => fst x) (map tk_sig l) /\ map tk_firstRA l = map (fun x => snd x) (map tk_sig l).
Proof. rewrite !map_map. split; apply map_ext; intros x; reflexivity. Qed.

Lemma TSR_TSI m : TSR m -> TSI m.
Proof. intros [[H _] _ _ _]. exact H. Qed.

Theorem TRef_mux_step m sp o m' :
  TRef m sp -> mux_step m o = (m', Ok tt) ->
  TRef m' (tsp_step (map tk_static (m_tracks m)) sp o) /\ map tk_static (m_tracks m') = map tk_static (m_tracks m).
Proof.
  intros [HR Hseen Hop Hlog] Hs. destruct o as [ti a].
  pose proof (TSR_mux_step m ti a m' HR Hs) as HR'.
  pose proof (TSR_TSI m HR) as HT.
  unfold mux_step, mux_write in Hs. unfold tsp_step. rewrite nth_error_map.
  destruct (nth_error (m_tracks m) ti) as [t|] eqn:Ht; cbn [option_map].
  2:{ injection Hs as <-. split; [constructor; auto|reflexivity]. }
  unfold tk_static at 1.
  assert (Hsn : nth_error (tp_seen sp) ti = Some (tk_firstRA t)) by (rewrite <- Hseen, nth_error_map, Ht; reflexivity).
  rewrite Hsn.
  destruct (isVideo (t_kind (tk_cfg t))) eqn:Ev.
  - destruct (tsi_tracks m HT ti t Ht) as [_ Hk]. specialize (Hk Ev).
    destruct (ts_video_log m ti t a m' HT Ht Hk Hs) as [_ Hl].
    destruct (ts_video_state m ti t a m' HR Ht Hk Hs) as [Hsig Ho].
    assert (Esk : sp_video_skipped H264 (tk_firstRA t) a = video_skipped t a) by (unfold video_skipped; now rewrite Hk).
    rewrite Esk.
    destruct (sig_static_seen (m_tracks m')) as [Est Esn]. destruct (sig_static_seen (m_tracks m)) as [Est0 Esn0].
    destruct (video_skipped t a).
    + split; [|now rewrite Est, Est0, Hsig].
      constructor; auto; [now rewrite Esn, Hsig, <- Esn0|congruence|now rewrite Hl, app_nil_r].
    + split.
      * constructor; auto; cbn [tp_seen tp_open tp_log].
        -- rewrite Esn, Hsig, <- Hseen, Esn0. apply map_upd_comm. intros [[[c l] s] b]. reflexivity.
        -- now rewrite Hl, Hlog.
      * rewrite Est, Est0, Hsig. apply map_upd_static. intros [[[c l] s] b]. reflexivity.
  - destruct (ts_audio_log m ti t a m' HT Ht Hs) as [_ Hl].
    destruct (ts_audio_state m ti t a m' HR Ht Hs) as [Htr Ho].
    rewrite <- Hop.
    split; [|now rewrite Htr].
    destruct (negb (tk_leading t) && negb (ts_opened m)).
    + constructor; auto; [now rewrite Htr|congruence|now rewrite Hl, app_nil_r].
    + constructor; auto; cbn [tp_seen tp_open tp_log]; [now rewrite Htr|now rewrite Hl, Hlog].
Qed.

Theorem TRef_mux_run ops : forall m sp, TRef m sp -> all_ok m ops ->
  TRef (mux_run m ops) (tsp_run (map tk_static (m_tracks m)) sp ops).
Proof.
  induction ops as [|o ops IH]; intros m sp HRf Hok; [exact HRf|]. cbn [mux_run]. unfold tsp_run. cbn [fold_left].
  destruct Hok as [Hr Hok].
  assert (Hs : mux_step m o = (fst (mux_step m o), Ok tt)) by (rewrite <- Hr; apply surjective_pairing).
  destruct (TRef_mux_step m sp o _ HRf Hs) as [R1 E1].
  specialize (IH _ _ R1 Hok). rewrite E1 in IH. exact IH.
Qed.

Theorem start_TRef c m : start c = Ok m -> c_variant c = MPEGTS -> TRef m (tsp_init (length (m_tracks m))).
Proof.
  intros Hs Hv. pose proof (start_TSR c m Hs Hv) as HR. destruct (start_TSI c m Hs Hv) as [HT H0].
  assert (ET : m_tracks m = mk_tracks (norm_cfg c) 0 (c_tracks c)).
  { unfold start in Hs. destruct (negb (start_ok (norm_cfg c))); [discriminate|]. now injection Hs as <-. }
  constructor; [exact HR| | |exact H0].
  - cbn [tsp_init tp_seen].
    assert (Hall : forall t, In t (m_tracks m) -> tk_firstRA t = false).
    { intros t Hin. rewrite ET in Hin. apply In_nth_error in Hin. destruct Hin as [k Hk].
      destruct (MuxRAHist.mk_tracks_static _ _ _ _ _ Hk) as (t0 & _ & _ & _ & _ & B & _). exact B. }
    revert Hall. generalize (m_tracks m) as l. induction l as [|x l IH]; intros Hall; [reflexivity|].
    cbn [map length repeat]. rewrite (Hall x (or_introl eq_refl)). f_equal. apply IH. intros t Hin. apply Hall. now right.
  - cbn [tsp_init tp_open]. unfold ts_opened.
    pose proof (start_streams c m Hs) as ES.
    destruct (m_streams m) as [|s rest] eqn:Em; [reflexivity|].
    assert (Hin : In s (m_streams m)) by (rewrite Em; now left).
    rewrite Em, ES in Hin. destruct (c_variant c); try congruence.
    destruct Hin as [<-|[]]. reflexivity.
Qed.

Theorem ts_history_accounting c m0 ops :
  start c = Ok m0 -> c_variant c = MPEGTS -> all_ok m0 ops ->
  let T0 := map tk_static (m_tracks m0) in
  let sp := tsp_run T0 (tsp_init (length T0)) ops in
  let m := mux_run m0 ops in
  tslog m = tp_log sp /\ ts_opened m = tp_open sp /\ map tk_firstRA (m_tracks m) = tp_seen sp.
Proof.
  intros Hs Hv Hok T0 sp m.
  pose proof (start_TRef c m0 Hs Hv) as R0.
  assert (El : length T0 = length (m_tracks m0)) by (subst T0; now rewrite map_length).
  rewrite <- El in R0.
  destruct (TRef_mux_run ops m0 _ R0 Hok) as [_ A B C]. auto.
Qed.

(* non-vacuity: the MPEG-TS example history of MuxTSStart.v *)
Lemma ts_account_example : exists m0,
  start ts_cfg = Ok m0 /\ c_variant ts_cfg = MPEGTS /\ all_ok m0 ts_ops
  /\ let T0 := map tk_static (m_tracks m0) in
     let sp := tsp_run T0 (tsp_init (length T0)) ts_ops in
     tp_open sp = true /\ map (fun u => (u_track u, u_ra u, u_dts u)) (tp_log sp)
       = [(0%nat, true, 45000); (1%nat, true, 45000); (0%nat, false, 90000); (0%nat, true, 135000); (1%nat, true, 90000); (0%nat, false, 180000)].
Proof.
  destruct (start ts_cfg) as [m0| |] eqn:E; [|vm_compute in E; discriminate|vm_compute in E; discriminate].
  exists m0. split; [reflexivity|]. split; [reflexivity|].
  vm_compute in E. injection E as <-. split; vm_compute; tauto.
Qed.

(* ---- the closed form for a video track (MPEG-TS): its units in the log are exactly the access units written to it
   that were not skipped before the first random-access one, each once, in writing order ---- *)
Fixpoint tsv_offered (ti : nat) (seen : bool) (ops : list wop) : list au :=
  match ops with
  | [] => []
  | WWrite tj a :: rest =>
      if Nat.eqb tj ti then
        if sp_video_skipped H264 seen a then tsv_offered ti seen rest else a :: tsv_offered ti true rest
      else tsv_offered ti seen rest
  end.

Definition of_track (ti : nat) (l : list tsunit) : list tsunit := filter (fun u => Nat.eqb (u_track u) ti) l.

Lemma of_track_app ti l1 l2 : of_track ti (l1 ++ l2) = of_track ti l1 ++ of_track ti l2.
Proof. apply filter_app. Qed.

Theorem tspec_video_closed_form T0 cf ld si ti ops : forall sp seen,
  nth_error T0 ti = Some (cf, ld, si) -> isVideo (t_kind cf) = true -> nth_error (tp_seen sp) ti = Some seen ->
  of_track ti (tp_log (tsp_run T0 sp ops)) = of_track ti (tp_log sp) ++ map (tsp_video_unit ti cf) (tsv_offered ti seen ops).
Proof.
  induction ops as [|[tj a] ops IH]; intros sp seen HT Hv Hs.
  - cbn. now rewrite app_nil_r.
  - unfold tsp_run. cbn [fold_left tsv_offered]. fold (tsp_run T0 (tsp_step T0 sp (WWrite tj a)) ops).
    destruct (Nat.eqb_spec tj ti) as [->|Hne].
    + cbn [tsp_step]. rewrite HT, Hs, Hv.
      destruct (sp_video_skipped H264 seen a); [now apply IH|].
      rewrite (IH _ true HT Hv).
      * cbn [tp_log]. rewrite of_track_app. cbn [of_track filter tsp_video_unit u_track]. rewrite Nat.eqb_refl.
        now rewrite <- app_assoc.
      * cbn [tp_seen]. now rewrite (nth_error_upd_same _ ti _ _ Hs).
    + assert (Hk : of_track ti (tp_log (tsp_step T0 sp (WWrite tj a))) = of_track ti (tp_log sp)
                   /\ nth_error (tp_seen (tsp_step T0 sp (WWrite tj a))) ti = Some seen).
      { cbn [tsp_step]. destruct (nth_error T0 tj) as [[[cf' ld'] si']|]; [|auto].
        destruct (nth_error (tp_seen sp) tj) as [sn|]; [|auto].
        assert (Hdrop : forall u, u_track u = tj -> of_track ti (tp_log sp ++ [u]) = of_track ti (tp_log sp)).
        { intros u Hu. rewrite of_track_app. cbn [of_track filter]. rewrite Hu.
          destruct (Nat.eqb_spec tj ti); [congruence|]. now rewrite app_nil_r. }
        destruct (isVideo (t_kind cf')).
        - destruct (sp_video_skipped H264 sn a); [auto|]. cbn [tp_log tp_seen]. split; [now apply Hdrop|].
          rewrite nth_error_upd_other by exact Hne. exact Hs.
        - destruct (negb ld' && negb (tp_open sp)); [auto|]. cbn [tp_log tp_seen]. split; [now apply Hdrop|exact Hs]. }
      destruct Hk as [K1 K2]. rewrite (IH _ seen HT Hv K2), K1. reflexivity.
Qed.

Theorem ts_video_track_closed_form c m0 ops ti cf ld si :
  start c = Ok m0 -> c_variant c = MPEGTS -> all_ok m0 ops ->
  nth_error (map tk_static (m_tracks m0)) ti = Some (cf, ld, si) -> isVideo (t_kind cf) = true ->
  of_track ti (tslog (mux_run m0 ops)) = map (tsp_video_unit ti cf) (tsv_offered ti false ops).
Proof.
  intros Hs Hv Hok HT Hvid.
  destruct (ts_history_accounting c m0 ops Hs Hv Hok) as (A & _ & _). cbv zeta in A. rewrite A.
  set (T0 := map tk_static (m_tracks m0)) in *.
  assert (Hlt : (ti < length T0)%nat) by (apply nth_error_Some; congruence).
  assert (H0 : nth_error (tp_seen (tsp_init (length T0))) ti = Some false).
  { cbn [tsp_init tp_seen]. clear - Hlt. revert ti Hlt. induction (length T0) as [|n IH]; intros [|i] H; simpl; try lia; auto.
    apply IH. lia. }
  rewrite (tspec_video_closed_form T0 cf ld si ti ops _ false HT Hvid H0). reflexivity.
Qed.
