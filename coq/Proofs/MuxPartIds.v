(* C04: part numbers increase by exactly one across the whole stream.
   In every reachable state the parts of a stream - those of its evicted and listed segments and of the
   open one, in order - are numbered 0, 1, 2, ... without a hole, the next number is the stream's part
   counter, and that is also the number of the open part (the preload hint). *)
From Coq Require Import List ZArith Bool Lia Arith.
From GoHls Require Import Model.Mux Proofs.MuxStream Proofs.MuxLift Proofs.MuxWindow Proofs.MuxHistory Proofs.MuxTimes
  Proofs.MuxMulti Proofs.MuxLog Proofs.MuxLogStep Proofs.MuxLogTS.
Import ListNotations.
Local Open Scope Z_scope.

Definition all_parts (s : stream) : list part :=
  flat_map sg_parts (published s) ++ match st_open s with Some g => sg_parts g | None => [] end.

(* ids = 0, 1, ..., n-1 *)
Fixpoint counted (from : Z) (ids : list Z) : Prop :=
  match ids with [] => True | x :: l => x = from /\ counted (from + 1) l end.

Lemma counted_app from l1 l2 :
  counted from (l1 ++ l2) <-> counted from l1 /\ counted (from + Z.of_nat (length l1)) l2.
Proof.
  revert from. induction l1 as [|x l1 IH]; intros from; simpl.
  - rewrite Z.add_0_r. tauto.
  - rewrite IH. replace (from + 1 + Z.of_nat (length l1)) with (from + Z.pos (Pos.of_succ_nat (length l1))) by lia. tauto.
Qed.

Record PID (s : stream) : Prop := {
  pid_counted : counted 0 (map p_id (all_parts s));
  pid_next : st_nextPart s = Z.of_nat (length (all_parts s));
  pid_open : forall p, st_openpart s = Some p -> p_id p = st_nextPart s
}.


Lemma flat_map_app' {A B} (f : A -> list B) l1 l2 : flat_map f (l1 ++ l2) = flat_map f l1 ++ flat_map f l2.
Proof. induction l1; simpl; auto. now rewrite IHl1, app_assoc. Qed.

Lemma gaps_no_parts d n : flat_map sg_parts (repeat (mkgap d) n) = [].
Proof. induction n; simpl; auto. Qed.

Lemma all_parts_srot_parts v s seg p d cn :
  st_open s = Some seg -> all_parts (fst (srot_parts v s seg p d cn)) = all_parts s ++ [p].
Proof.
  intros Ho. destruct (srot_parts_frame v s seg p d cn) as (F1 & F2 & _ & _ & _ & _ & _ & F8 & _).
  unfold all_parts, published. rewrite F1, F2, F8, Ho. cbn [sg_with_parts sg_parts]. now rewrite !app_assoc.
Qed.

Lemma all_parts_srot_segments v sc s seg0 d ntp f cur :
  st_open s = Some seg0 -> all_parts (fst (fst (srot_segments v sc s seg0 d ntp f cur))) = all_parts s.
Proof.
  intros Ho. pose proof (published_srot_segments v sc s seg0 d ntp f cur) as HP. cbv zeta in HP.
  destruct (srot_segments_frame v sc s seg0 d ntp f cur) as (_ & _ & _ & _ & _ & F6 & _).
  unfold all_parts. rewrite HP, F6, Ho. cbn [new_seg sg_parts]. rewrite app_nil_r.
  unfold published, with_gaps.
  destruct v; [| |destruct (st_segments s)]; rewrite ?flat_map_app', ?gaps_no_parts; simpl;
    rewrite ?app_nil_r, <- ?app_assoc; reflexivity.
Qed.

Lemma PID_srot_parts v s seg p d cn :
  st_open s = Some seg -> p_id p = st_nextPart s -> PID s -> PID (fst (srot_parts v s seg p d cn)).
Proof.
  intros Ho Hp [H1 H2 H3].
  destruct (srot_parts_frame v s seg p d cn) as (_ & _ & _ & _ & _ & _ & F7 & _ & F9).
  constructor.
  - rewrite all_parts_srot_parts by exact Ho. rewrite map_app. apply counted_app. split; [exact H1|].
    rewrite map_length. simpl. split; [|exact I]. lia.
  - rewrite all_parts_srot_parts by exact Ho. rewrite app_length, F7, H2. simpl. lia.
  - intros q Hq. rewrite F9 in Hq. destruct cn; [|discriminate]. injection Hq as <-. cbn [new_part p_id]. now rewrite F7.
Qed.

Lemma PID_srot_segments v sc s seg0 d ntp f cur :
  st_open s = Some seg0 -> PID s -> PID (fst (fst (srot_segments v sc s seg0 d ntp f cur))).
Proof.
  intros Ho [H1 H2 H3].
  destruct (srot_segments_frame v sc s seg0 d ntp f cur) as (_ & _ & _ & _ & F5 & _ & F7 & _).
  constructor; rewrite ?all_parts_srot_segments by exact Ho; auto.
  - now rewrite F5.
  - intros q Hq. rewrite F7 in Hq. destruct v; [discriminate| |]; injection Hq as <-; cbn [new_part p_id]; now rewrite F5.
Qed.

(* ---- all streams open together; every track's stream exists (both variants) ---- *)
Record SYNC (m : mstate) : Prop := {
  sy_sync : (forall s, In s (m_streams m) -> st_open s = None) \/ (forall s, In s (m_streams m) -> st_open s <> None);
  sy_exists : forall ti t, nth_error (m_tracks m) ti = Some t -> (tk_stream t < length (m_streams m))%nat
}.

Definition SameOpen (s s' : stream) : Prop := st_open s = None <-> st_open s' = None.

Lemma SYNC_pointwise m m' :
  map tk_stream (m_tracks m') = map tk_stream (m_tracks m) ->
  Forall2 SameOpen (m_streams m) (m_streams m') -> SYNC m -> SYNC m'.
Proof.
  intros Et HF [S1 S2]. constructor.
  - destruct S1 as [S1|S1]; [left|right]; intros s' Hs';
      destruct (Forall2_In_r _ _ _ HF s' Hs') as (s & Hs & K); specialize (S1 s Hs); unfold SameOpen in K; tauto.
  - intros ti t' Ht'. rewrite <- (Forall2_len _ _ _ HF).
    assert (H : option_map tk_stream (nth_error (m_tracks m') ti) = option_map tk_stream (nth_error (m_tracks m) ti))
      by (rewrite <- !nth_error_map, Et; reflexivity).
    rewrite Ht' in H. simpl in H. destruct (nth_error (m_tracks m) ti) as [t|] eqn:E; simpl in H; [|discriminate].
    injection H as ->. now apply (S2 ti t).
Qed.

Lemma SameOpen_refl s : SameOpen s s.
Proof. unfold SameOpen. tauto. Qed.

Lemma Forall2_same {A} (Q : A -> A -> Prop) l : (forall x, Q x x) -> Forall2 Q l l.
Proof. intros H. induction l; constructor; auto. Qed.

Lemma SYNC_all_closed m ti t :
  SYNC m -> nth_error (m_tracks m) ti = Some t -> opened_at m (tk_stream t) = false ->
  forall s, In s (m_streams m) -> st_open s = None.
Proof.
  intros [S1 S2] Ht Ho. destruct S1 as [S1|S1]; [exact S1|]. exfalso.
  pose proof (S2 ti t Ht) as Hlt. unfold opened_at in Ho.
  destruct (nth_error (m_streams m) (tk_stream t)) as [s|] eqn:Es; [|apply nth_error_None in Es; lia].
  apply (S1 s (nth_error_In _ _ Es)). now destruct (st_open s).
Qed.

Definition GPI (m : mstate) : Prop := SYNC m /\ Forall PID (m_streams m).

Lemma part_finalize_static p0 tracks stracks d :
  map tk_static (snd (part_finalize p0 tracks stracks d)) = map tk_static tracks.
Proof.
  unfold part_finalize. destruct stracks as [|ti rest]; auto. destruct (nth_error tracks ti) as [t|]; auto.
  destruct (tk_samples t); auto. cbn [snd]. apply map_upd_static. intros x. reflexivity.
Qed.

Lemma GPI_rotp_gen m si d cn :
  GPI m ->
  SYNC (stream_rotateParts m si d cn) /\
  Forall2 (fun s s' => s' = s \/ (exists seg p, st_open s = Some seg /\ p_id p = st_nextPart s /\ s' = fst (srot_parts (c_variant (m_cfg m)) s seg p d cn)))
          (m_streams m) (m_streams (stream_rotateParts m si d cn)).
Proof.
  intros [HS HP].
  destruct (rotp_spec m si d cn) as [[E1 E2]|(s & seg & p0 & Es & Eo & Ep & E1 & E2)]; cbv zeta in *.
  - split.
    + apply (SYNC_pointwise m); [now rewrite E2|rewrite E1; apply Forall2_same; apply SameOpen_refl|exact HS].
    + rewrite E1. apply Forall2_same. auto.
  - assert (Hid : p_id (fst (part_finalize p0 (m_tracks m) (st_tracks s) d)) = st_nextPart s).
    { destruct (part_finalize_spec p0 (m_tracks m) (st_tracks s) d) as (A & _). cbv zeta in A. rewrite A.
      rewrite Forall_forall in HP. apply (pid_open s (HP s (nth_error_In _ _ Es))). exact Ep. }
    split.
    + apply (SYNC_pointwise m); [rewrite E2; apply tk_stream_of_static; apply part_finalize_static| |exact HS].
      rewrite E1. apply Forall2_upd_const with (s := s); auto using SameOpen_refl.
      destruct (srot_parts_frame (c_variant (m_cfg m)) s seg (fst (part_finalize p0 (m_tracks m) (st_tracks s) d)) d cn)
        as (_ & _ & _ & _ & _ & _ & _ & F8 & _).
      unfold SameOpen. rewrite F8, Eo. split; discriminate.
    + rewrite E1. apply Forall2_upd_const with (s := s); auto.
      right. eauto.
Qed.

Lemma Forall_of_Forall2 {A} (P : A -> Prop) (Q : A -> A -> Prop) l l' :
  Forall P l -> Forall2 Q l l' -> (forall x y, P x -> Q x y -> P y) -> Forall P l'.
Proof.
  intros HP HF Himp. induction HF; constructor; inversion HP; subst; eauto.
Qed.

Lemma GPI_rotp m si d cn : GPI m -> GPI (stream_rotateParts m si d cn).
Proof.
  intros HG. destruct (GPI_rotp_gen m si d cn HG) as [A B]. destruct HG as [HS HP]. split; [exact A|].
  eapply Forall_of_Forall2; [exact HP|exact B|].
  intros x y Px [->|(seg & p & Ho & Hid & ->)]; [exact Px|]. now apply PID_srot_parts.
Qed.

Lemma GPI_rots m si d ntp f : GPI m -> GPI (stream_rotateSegments m si d ntp f).
Proof.
  intros HG.
  pose proof (rots_spec m si d ntp f) as [HS HT]. cbv zeta in HS, HT.
  set (m1 := match c_variant (m_cfg m) with MPEGTS => m | _ => stream_rotateParts m si d false end) in *.
  assert (H1 : GPI m1) by (subst m1; destruct (c_variant (m_cfg m)); auto using GPI_rotp).
  destruct H1 as [S1 P1].
  destruct HS as [E|(s & seg0 & cur & Es & Eo & E)].
  - split; [|now rewrite E]. apply (SYNC_pointwise m1); [now rewrite HT|rewrite E; apply Forall2_same; apply SameOpen_refl|exact S1].
  - split.
    + apply (SYNC_pointwise m1); [now rewrite HT| |exact S1]. rewrite E.
      apply Forall2_upd_const with (s := s); auto using SameOpen_refl.
      destruct (srot_segments_frame (c_variant (m_cfg m)) (c_segcount (m_cfg m)) s seg0 d ntp f cur) as (_ & _ & _ & _ & _ & F6 & _).
      unfold SameOpen. rewrite F6, Eo. split; discriminate.
    + rewrite E. apply Forall_upd; [exact P1|]. intros x Hx Px. rewrite Es in Hx. injection Hx as <-.
      now apply PID_srot_segments.
Qed.

Lemma PID_st_with s x :
  x_segments x = st_segments s -> x_evicted x = st_evicted s -> x_nextPart x = st_nextPart s ->
  (match x_open x with Some g => sg_parts g | None => [] end) = (match st_open s with Some g => sg_parts g | None => [] end) ->
  (forall p, x_openpart x = Some p -> exists p0, st_openpart s = Some p0 /\ p_id p = p_id p0) ->
  PID s -> PID (st_with s x).
Proof.
  intros E1 E2 E3 E4 E5 [H1 H2 H3].
  assert (Ea : all_parts (st_with s x) = all_parts s).
  { unfold all_parts, published. cbn [st_with st_evicted st_segments st_open]. now rewrite E1, E2, E4. }
  constructor; rewrite ?Ea; cbn [st_with st_nextPart st_openpart]; rewrite ?E3; auto.
  intros p Hp. destruct (E5 p Hp) as (p0 & A & B). rewrite B. now apply H3.
Qed.

Lemma PID_createFirst v s d ntp : st_open s = None -> PID s -> PID (stream_createFirst v s d ntp).
Proof.
  intros Ho [H1 H2 H3].
  assert (Ea : all_parts (stream_createFirst v s d ntp) = all_parts s).
  { unfold all_parts, published, stream_createFirst. cbn [st_with st_evicted st_segments st_open x_evicted x_segments x_open st_mut new_seg sg_parts].
    now rewrite Ho. }
  constructor; rewrite ?Ea; auto.
  unfold stream_createFirst. cbn [st_with st_openpart st_nextPart x_openpart x_nextPart st_mut].
  intros p Hp. destruct v; [discriminate| |]; injection Hp as <-; reflexivity.
Qed.

Lemma GPI_frame m0 tracks pending sdurs adj freeze errs :
  map tk_frame tracks = map tk_frame (m_tracks m0) -> GPI m0 ->
  GPI {| m_cfg := m_cfg m0; m_tracks := tracks; m_streams := m_streams m0; m_pending := pending;
         m_sdurs := sdurs; m_adj := adj; m_freeze := freeze; m_paths := m_paths m0; m_errs := errs |}.
Proof.
  intros Hf [HS HP]. split; [|exact HP].
  apply (SYNC_pointwise m0); [cbn [m_tracks]; now apply tk_stream_of_frame|apply Forall2_same; apply SameOpen_refl|exact HS].
Qed.

Lemma GPI_create m0 d ntp ti t :
  nth_error (m_tracks m0) ti = Some t -> opened_at m0 (tk_stream t) = false -> GPI m0 -> GPI (createFirstSegment m0 d ntp).
Proof.
  intros Ht Ho [HS HP].
  pose proof (SYNC_all_closed m0 ti t HS Ht Ho) as Hc.
  unfold createFirstSegment. split.
  + destruct HS as [S1 S2]. constructor; cbn [set_stream m_streams m_tracks].
    * right. intros s' Hs'. apply in_map_iff in Hs'. destruct Hs' as (s & <- & _). discriminate.
    * intros ti0 t0 Ht0. rewrite map_length. now apply (S2 ti0 t0).
  + cbn [set_stream m_streams]. apply Forall_map. rewrite Forall_forall in *. intros s Hs.
    apply PID_createFirst; auto.
Qed.

Lemma GPI_copy m0 i (l : stream) (both : bool) : GPI m0 -> GPI (upd_stream m0 i (copy_targets both l)).
Proof.
  intros [HS HP]. split.
  + apply (SYNC_pointwise m0); [reflexivity| |exact HS]. unfold upd_stream. cbn [set_stream m_streams].
    apply Forall2_upd_fun; auto using SameOpen_refl. intros x. unfold copy_targets, SameOpen. destruct (st_leading x); tauto.
  + unfold upd_stream. cbn [set_stream m_streams]. apply Forall_upd; [exact HP|]. intros x _ Px.
    unfold copy_targets. destruct (st_leading x); [exact Px|]. apply PID_st_with; auto. intros p Hp. eauto.
Qed.

Lemma GPI_pws m0 ti si smp m' : GPI m0 -> part_writeSample m0 ti si smp = Ok m' -> GPI m'.
Proof.
  intros [HS HP]. unfold part_writeSample.
  destruct (nth_error (m_streams m0) si) as [s|] eqn:Es; [|intros [= <-]; split; auto].
  destruct (nth_error (m_tracks m0) ti) as [t|] eqn:Et; [|intros [= <-]; split; auto].
  destruct (st_open s) as [seg|] eqn:Eo; [|intros [= <-]; split; auto].
  destruct (st_openpart s) as [p|] eqn:Ep; [|intros [= <-]; split; auto].
  destruct (_ <? _); [discriminate|]. intros [= <-]. split.
  + apply (SYNC_pointwise m0).
    * unfold upd_stream, upd_track. cbn [set_stream set_tracks m_tracks]. apply map_upd_static. intros x. reflexivity.
    * unfold upd_stream, upd_track. cbn [set_stream set_tracks m_streams]. rewrite (upd_ext_at _ si _ s Es).
      apply Forall2_upd_const with (s := s); auto using SameOpen_refl.
      unfold SameOpen. cbn [st_with st_open x_open]. rewrite Eo. split; discriminate.
    * exact HS.
  + unfold upd_stream, upd_track. cbn [set_stream set_tracks m_streams].
    apply Forall_upd; [exact HP|]. intros x Hx Px. rewrite Es in Hx. injection Hx as <-.
    apply PID_st_with; auto; cbn [x_open x_openpart st_mut sg_with_size sg_parts].
    * now rewrite Eo.
    * intros q [= <-]. exists p. split; [exact Ep|reflexivity].
Qed.

Lemma GPI_ts m0 si u size e inc : GPI m0 -> GPI (fst (ts_write m0 si u size e inc)).
Proof.
  intros [HS HP]. unfold ts_write.
  destruct (nth_error (m_streams m0) si) as [s|] eqn:Es; [|split; auto].
  destruct (st_open s) as [seg|] eqn:Eo; [|split; auto].
  destruct (_ <? _); [split; auto|]. cbn [fst wok]. split.
  + apply (SYNC_pointwise m0); [reflexivity| |exact HS]. unfold upd_stream. cbn [set_stream m_streams].
    rewrite (upd_ext_at _ si _ s Es). apply Forall2_upd_const with (s := s); auto using SameOpen_refl.
    unfold SameOpen. cbn [st_with st_open x_open]. rewrite Eo. split; discriminate.
  + unfold upd_stream. cbn [set_stream m_streams]. apply Forall_upd; [exact HP|]. intros x Hx Px.
    rewrite Es in Hx. injection Hx as <-.
    apply PID_st_with; auto; cbn [x_open x_openpart st_mut sg_ts_write sg_parts].
    * now rewrite Eo.
    * intros q Hq. eauto.
Qed.

Theorem GPI_mux_step m o : GPI m -> GPI (fst (mux_step m o)).
Proof.
  apply (T_mux_step GPI); auto using GPI_frame, GPI_rots, GPI_copy, GPI_ts.
  - intros m0 d ntp ti t Ht Ho H. eapply GPI_create; eauto.
  - intros; now apply GPI_rotp.
  - intros m0 ti si smp m' H Hw. eapply GPI_pws; eauto.
Qed.

Theorem GPI_mux_run ops : forall m, GPI m -> GPI (mux_run m ops).
Proof. induction ops as [|o ops IH]; intros m H; [exact H|]. cbn [mux_run]. apply IH. now apply GPI_mux_step. Qed.

(* ---- the initial state ---- *)
Lemma mk_streams_PID c ts : forall i ch n, Forall PID (mk_streams c i ts ch n).
Proof.
  induction ts as [|t ts IH]; intros i ch n; [constructor|]. cbn [mk_streams].
  match goal with |- context [let '(a, b) := ?x in _] => destruct x as [dflt chosen'] end.
  constructor; [|apply IH]. constructor; cbn; auto. discriminate.
Qed.

Theorem start_GPI c m : start c = Ok m -> GPI m.
Proof.
  intros Hs. pose proof (start_streams c m Hs) as ES.
  destruct (c_variant c) eqn:Ev.
  - destruct (start_TSI c m Hs Ev) as [[T1 [s0 T2] T3] _]. split.
    + constructor.
      * left. rewrite ES. intros s [<-|[]]. reflexivity.
      * intros ti t Ht. destruct (T3 ti t Ht) as [-> _]. rewrite T2. simpl. lia.
    + rewrite ES. constructor; [|constructor]. constructor; cbn; auto. discriminate.
  - assert (Hv : c_variant c <> MPEGTS) by congruence.
    destruct (start_LI c m Hs Hv) as [[L1 L2 L3 L4 L5 L6] _]. split.
    + constructor.
      * destruct L4 as [L4|L4]; auto.
      * intros ti t Ht. rewrite (L3 ti t Ht), L6. apply nth_error_Some. congruence.
    + rewrite ES. apply mk_streams_PID.
  - assert (Hv : c_variant c <> MPEGTS) by congruence.
    destruct (start_LI c m Hs Hv) as [[L1 L2 L3 L4 L5 L6] _]. split.
    + constructor.
      * destruct L4 as [L4|L4]; auto.
      * intros ti t Ht. rewrite (L3 ti t Ht), L6. apply nth_error_Some. congruence.
    + rewrite ES. apply mk_streams_PID.
Qed.

(* every reachable state, every stream: parts numbered 0, 1, 2, ... without a hole; the stream's part
   counter is the next number and the number of the open part *)
Theorem part_ids_consecutive c m0 ops si s :
  start c = Ok m0 -> nth_error (m_streams (mux_run m0 ops)) si = Some s ->
  counted 0 (map p_id (all_parts s)) /\ st_nextPart s = Z.of_nat (length (all_parts s))
  /\ (forall p, st_openpart s = Some p -> p_id p = st_nextPart s).
Proof.
  intros Hs Hn. destruct (GPI_mux_run ops m0 (start_GPI c m0 Hs)) as [_ HP].
  rewrite Forall_forall in HP. destruct (HP s (nth_error_In _ _ Hn)) as [A B C]. auto.
Qed.
